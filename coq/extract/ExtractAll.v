From Coq Require Import ExtrOcamlBasic ExtrOcamlString.
From SP Require Extract.AllModels.
Extraction Language OCaml.
Set Warnings "-extraction-opaque-accessed".
Separate Extraction SP.Extract.AllModels.roots.
