(** Bit-list arithmetic shared by the adder / population-count / cardinality
    proofs: values of boolean lists (LSB first and MSB first), literal lists
    read under an assignment, positional counting, and the few facts about
    saturation and two's complement that the cardinality encoders rely on. *)
From Coq Require Import ZArith List Bool Lia ZifyBool.
From SP Require Import Base.Sat.
Import ListNotations.
Open Scope Z_scope.

(** * Values of bit lists *)

Fixpoint lsbv (bs : list bool) : Z :=
  match bs with
  | [] => 0
  | b :: r => Z.b2z b + 2 * lsbv r
  end.
Definition msbv (bs : list bool) : Z := lsbv (rev bs).

(** The literals [ls] read under the assignment [s]. *)
Definition lits (s : asg) (ls : list Z) : list bool := map (lit_true s) ls.

(** Number of true literals, positionally (duplicates count twice). *)
Definition count (s : asg) (vs : list Z) : Z :=
  Z.of_nat (length (filter (lit_true s) vs)).

(** A literal that is non-zero and whose variable is in 1..n. *)
Definition inr (n : Z) (l : Z) : Prop := 0 < Z.abs l <= n.
(** A (fresh) positive variable in lo+1..hi. *)
Definition fresh_in (lo hi : Z) (v : Z) : Prop := lo < v <= hi.

Lemma inr_le n m l : n <= m -> inr n l -> inr m l.
Proof. unfold inr. lia. Qed.

Lemma fresh_in_inr lo hi v : 0 <= lo -> fresh_in lo hi v -> inr hi v.
Proof. unfold fresh_in, inr. lia. Qed.

Lemma Forall_inr_le n m ls : n <= m -> Forall (inr n) ls -> Forall (inr m) ls.
Proof. intros H. apply Forall_impl. intros a. now apply inr_le. Qed.

Lemma Forall_fresh_inr lo hi ls :
  0 <= lo -> Forall (fresh_in lo hi) ls -> Forall (inr hi) ls.
Proof. intros H. apply Forall_impl. intros a. now apply fresh_in_inr. Qed.

Lemma Forall_fresh_le lo hi hi' ls :
  hi <= hi' -> Forall (fresh_in lo hi) ls -> Forall (fresh_in lo hi') ls.
Proof. intros H. apply Forall_impl. unfold fresh_in. intros a. lia. Qed.

Lemma Forall_fresh_ge lo lo' hi ls :
  lo' <= lo -> Forall (fresh_in lo hi) ls -> Forall (fresh_in lo' hi) ls.
Proof. intros H. apply Forall_impl. unfold fresh_in. intros a. lia. Qed.

Lemma lits_length s ls : length (lits s ls) = length ls.
Proof. apply map_length. Qed.

Lemma lits_app s a b : lits s (a ++ b) = lits s a ++ lits s b.
Proof. apply map_app. Qed.

Lemma lits_rev s a : lits s (rev a) = rev (lits s a).
Proof. apply map_rev. Qed.

Lemma lits_agree n s t ls :
  agree_upto n s t -> Forall (inr n) ls -> lits s ls = lits t ls.
Proof.
  intros A H. induction H as [|l ls Hl _ IH]; [reflexivity|].
  cbn [lits map]. f_equal; [|exact IH]. now apply (lit_true_agree n).
Qed.

Lemma count_agree n s t vs :
  agree_upto n s t -> Forall (inr n) vs -> count s vs = count t vs.
Proof.
  intros A H. unfold count. f_equal. f_equal.
  induction H as [|l ls Hl _ IH]; [reflexivity|].
  cbn [filter]. rewrite (lit_true_agree n s t l A Hl). now rewrite IH.
Qed.

Lemma count_nil s : count s [] = 0.
Proof. reflexivity. Qed.

Lemma count_cons s v vs : count s (v :: vs) = Z.b2z (lit_true s v) + count s vs.
Proof.
  unfold count. cbn [filter]. destruct (lit_true s v); cbn [length Z.b2z]; lia.
Qed.

Lemma count_app s a b : count s (a ++ b) = count s a + count s b.
Proof.
  induction a as [|x a IH]; [now rewrite count_nil|].
  cbn [app]. rewrite !count_cons, IH. lia.
Qed.

Lemma count_bounds s vs : 0 <= count s vs <= Z.of_nat (length vs).
Proof.
  induction vs as [|v vs IH]; [cbn; lia|].
  rewrite count_cons. cbn [length]. destruct (lit_true s v); cbn [Z.b2z]; lia.
Qed.

Lemma count_all_false s vs :
  (forall v, In v vs -> lit_true s v = false) -> count s vs = 0.
Proof.
  induction vs as [|v vs IH]; intros H; [reflexivity|].
  rewrite count_cons, (H v) by now left. rewrite IH; [reflexivity|].
  intros w Hw. apply H. now right.
Qed.

(** * Arithmetic of [lsbv] / [msbv] *)

Lemma pow2_pos (n : nat) : 0 < 2 ^ Z.of_nat n.
Proof. apply Z.pow_pos_nonneg; lia. Qed.

Lemma pow2_S (n : nat) : 2 ^ Z.of_nat (S n) = 2 * 2 ^ Z.of_nat n.
Proof. rewrite Nat2Z.inj_succ, Z.pow_succ_r by lia. reflexivity. Qed.

Lemma lsbv_bounds bs : 0 <= lsbv bs < 2 ^ Z.of_nat (length bs).
Proof.
  induction bs as [|b r IH]; [cbn; lia|].
  cbn [lsbv length]. rewrite pow2_S. destruct b; cbn [Z.b2z]; lia.
Qed.

Lemma lsbv_app a b : lsbv (a ++ b) = lsbv a + 2 ^ Z.of_nat (length a) * lsbv b.
Proof.
  induction a as [|x a IH].
  { cbn [app lsbv length]. change (Z.of_nat 0) with 0. rewrite Z.pow_0_r. lia. }
  cbn [app lsbv length]. rewrite IH, pow2_S. lia.
Qed.

Lemma msbv_nil : msbv [] = 0.
Proof. reflexivity. Qed.

Lemma msbv_cons b r : msbv (b :: r) = Z.b2z b * 2 ^ Z.of_nat (length r) + msbv r.
Proof.
  unfold msbv. cbn [rev]. rewrite lsbv_app, rev_length. cbn [lsbv]. lia.
Qed.

Lemma msbv_app a b : msbv (a ++ b) = msbv a * 2 ^ Z.of_nat (length b) + msbv b.
Proof.
  unfold msbv. rewrite rev_app_distr, lsbv_app, rev_length. lia.
Qed.

Lemma msbv_rev bs : msbv (rev bs) = lsbv bs.
Proof. unfold msbv. now rewrite rev_involutive. Qed.

Lemma msbv_bounds bs : 0 <= msbv bs < 2 ^ Z.of_nat (length bs).
Proof. unfold msbv. rewrite <- (rev_length bs). apply lsbv_bounds. Qed.

Lemma msbv_false_cons r : msbv (false :: r) = msbv r.
Proof. rewrite msbv_cons. cbn [Z.b2z]. lia. Qed.

Lemma msbv_repeat_false k r : msbv (repeat false k ++ r) = msbv r.
Proof.
  induction k as [|k IH]; [reflexivity|].
  cbn [repeat app]. now rewrite msbv_false_cons.
Qed.

(** Same width and same value: same bits. *)
Lemma lsbv_inj a b : length a = length b -> lsbv a = lsbv b -> a = b.
Proof.
  revert b. induction a as [|x a IH]; intros [|y b] Hl Hv; try discriminate.
  - reflexivity.
  - cbn [lsbv] in Hv. cbn [length] in Hl.
    assert (x = y) by (destruct x, y; cbn [Z.b2z] in Hv; try reflexivity; lia).
    subst y. f_equal. apply IH; [lia|]. lia.
Qed.

Lemma msbv_inj a b : length a = length b -> msbv a = msbv b -> a = b.
Proof.
  intros Hl Hv. unfold msbv in Hv. apply lsbv_inj in Hv.
  - rewrite <- (rev_involutive a), <- (rev_involutive b). now f_equal.
  - now rewrite !rev_length.
Qed.

(** Unique decomposition  a + M*b  with 0 <= a < M. *)
Lemma decomp_unique M a b a' b' :
  0 <= a < M -> 0 <= a' < M -> a + M * b = a' + M * b' -> a = a' /\ b = b'.
Proof.
  intros Ha Ha' E.
  assert (b = b') by nia. subst b'. split; [lia|reflexivity].
Qed.

(** * Saturated counts

    [satv sa N]: the value carried by a population-count register that
    saturates at width [sa] (no saturation for [sa = 0]): the low [sa-1] bits
    keep counting modulo [2^(sa-1)], the top bit is sticky. *)
Definition satv (sa : nat) (N : Z) : Z :=
  match sa with
  | O => N
  | S m => N mod 2 ^ Z.of_nat m + (if 2 ^ Z.of_nat m <=? N then 2 ^ Z.of_nat m else 0)
  end.

Lemma satv_small sa N :
  0 <= N -> (sa <> O -> N <= 2 ^ (Z.of_nat sa - 1)) -> satv sa N = N.
Proof.
  intros HN Hb. destruct sa as [|m]; [reflexivity|].
  specialize (Hb ltac:(discriminate)).
  replace (Z.of_nat (S m) - 1) with (Z.of_nat m) in Hb by lia.
  unfold satv. pose proof (pow2_pos m) as Hp.
  destruct (2 ^ Z.of_nat m <=? N) eqn:E.
  - assert (N = 2 ^ Z.of_nat m) by lia. subst N.
    rewrite Z.mod_same by lia. lia.
  - rewrite Z.mod_small by lia. lia.
Qed.

(** Adding two saturated registers of full width [S m]:  low parts add with a
    carry [cr], the top bit is the disjunction. *)
Lemma satv_add_full m Nx Ny xl yl ol (xt yt cr : bool) :
  0 <= Nx -> 0 <= Ny ->
  0 <= xl < 2 ^ Z.of_nat m -> 0 <= yl < 2 ^ Z.of_nat m -> 0 <= ol < 2 ^ Z.of_nat m ->
  Z.b2z xt * 2 ^ Z.of_nat m + xl = satv (S m) Nx ->
  Z.b2z yt * 2 ^ Z.of_nat m + yl = satv (S m) Ny ->
  ol + 2 ^ Z.of_nat m * Z.b2z cr = xl + yl ->
  Z.b2z (xt || yt || cr) * 2 ^ Z.of_nat m + ol = satv (S m) (Nx + Ny).
Proof.
  intros HNx HNy Hxl Hyl Hol Hx Hy Hs.
  unfold satv in *. set (M := 2 ^ Z.of_nat m) in *.
  assert (HM : 0 < M) by apply pow2_pos.
  pose proof (Z.mod_pos_bound Nx M HM) as Bx.
  pose proof (Z.mod_pos_bound Ny M HM) as By.
  pose proof (Z.mod_pos_bound (Nx + Ny) M HM) as Bs.
  assert (Ex : xl = Nx mod M /\ Z.b2z xt = (if M <=? Nx then 1 else 0)).
  { apply (decomp_unique M); [lia|lia|].
    destruct (M <=? Nx); lia. }
  assert (Ey : yl = Ny mod M /\ Z.b2z yt = (if M <=? Ny then 1 else 0)).
  { apply (decomp_unique M); [lia|lia|].
    destruct (M <=? Ny); lia. }
  destruct Ex as [Ex1 Ex2], Ey as [Ey1 Ey2].
  assert (Eo : ol = (Nx + Ny) mod M).
  { rewrite Z.add_mod by lia. rewrite <- Ex1, <- Ey1, <- Hs.
    rewrite Z.mul_comm, Z_mod_plus_full. symmetry. apply Z.mod_small. lia. }
  rewrite <- Eo.
  destruct (M <=? Nx) eqn:E1.
  { destruct xt; cbn [Z.b2z] in Ex2; [|lia]. cbn [orb Z.b2z].
    replace (M <=? Nx + Ny) with true by lia. lia. }
  destruct (M <=? Ny) eqn:E2.
  { destruct yt; cbn [Z.b2z] in Ey2; [|lia]. rewrite orb_true_r. cbn [orb Z.b2z].
    replace (M <=? Nx + Ny) with true by lia. lia. }
  destruct xt; cbn [Z.b2z] in Ex2; [lia|].
  destruct yt; cbn [Z.b2z] in Ey2; [lia|]. cbn [orb].
  rewrite Z.mod_small in Ex1 by lia. rewrite Z.mod_small in Ey1 by lia.
  destruct cr; cbn [Z.b2z] in *.
  - replace (M <=? Nx + Ny) with true by lia. lia.
  - replace (M <=? Nx + Ny) with false by lia. lia.
Qed.

(** * Two's complement comparison

    [x] and [y] fit in [W-1] bits; the top bit of the [W]-bit sum of [x] and
    the [W]-bit negation of [y] tells whether [x < y]. *)
Lemma twos_top_bit W x y r low (top : bool) :
  0 < W -> 0 <= x < 2 ^ (W - 1) -> 0 <= y < 2 ^ (W - 1) ->
  0 <= low < 2 ^ (W - 1) ->
  r = (x + (2 ^ W - y) mod 2 ^ W) mod 2 ^ W ->
  r = Z.b2z top * 2 ^ (W - 1) + low ->
  top = (x <? y).
Proof.
  intros HW Hx Hy Hl Hr Hd.
  assert (HP : 2 ^ W = 2 * 2 ^ (W - 1)).
  { replace W with (Z.succ (W - 1)) at 1 by lia. rewrite Z.pow_succ_r by lia. reflexivity. }
  set (H := 2 ^ (W - 1)) in *. assert (0 < H) by (apply Z.pow_pos_nonneg; lia).
  rewrite HP in Hr.
  destruct (Z.eq_dec y 0) as [->|Hy0].
  - rewrite Z.sub_0_r, Z.mod_same, Z.add_0_r, Z.mod_small in Hr by lia.
    destruct top; cbn [Z.b2z] in Hd; lia.
  - rewrite (Z.mod_small (2 * H - y)) in Hr by lia.
    destruct (x <? y) eqn:E.
    + rewrite Z.mod_small in Hr by lia. destruct top; cbn [Z.b2z] in Hd; [reflexivity|lia].
    + replace (x + (2 * H - y)) with ((x - y) + 1 * (2 * H)) in Hr by lia.
      rewrite Z_mod_plus_full, Z.mod_small in Hr by lia.
      destruct top; cbn [Z.b2z] in Hd; [lia|reflexivity].
Qed.

(** The one case without sign bits: [y = 2^(W-1)], [x < 2^W]. *)
Lemma twos_top_bit_pow2 W x r low (top : bool) :
  0 < W -> 0 <= x < 2 ^ W ->
  0 <= low < 2 ^ (W - 1) ->
  r = (x + (2 ^ W - 2 ^ (W - 1)) mod 2 ^ W) mod 2 ^ W ->
  r = Z.b2z top * 2 ^ (W - 1) + low ->
  top = (x <? 2 ^ (W - 1)).
Proof.
  intros HW Hx Hl Hr Hd.
  assert (HP : 2 ^ W = 2 * 2 ^ (W - 1)).
  { replace W with (Z.succ (W - 1)) at 1 by lia. rewrite Z.pow_succ_r by lia. reflexivity. }
  set (H := 2 ^ (W - 1)) in *. assert (0 < H) by (apply Z.pow_pos_nonneg; lia).
  rewrite HP in Hr, Hx.
  rewrite (Z.mod_small (2 * H - H)) in Hr by lia.
  destruct (x <? H) eqn:E.
  - rewrite Z.mod_small in Hr by lia. destruct top; cbn [Z.b2z] in Hd; [reflexivity|lia].
  - replace (x + (2 * H - H)) with ((x - H) + 1 * (2 * H)) in Hr by lia.
    rewrite Z_mod_plus_full, Z.mod_small in Hr by lia.
    destruct top; cbn [Z.b2z] in Hd; [lia|reflexivity].
Qed.
