(** Boolean equalities used by the in-Coq cross-check of extraction: a sample of
    every run's cases is re-evaluated with [vm_compute] inside Coq and compared
    with the outputs the extracted OCaml code produced. *)
From Coq Require Import ZArith List Bool.
Import ListNotations.
Open Scope Z_scope.

Fixpoint zl_eqb (a b : list Z) : bool :=
  match a, b with
  | [], [] => true
  | x :: a', y :: b' => (x =? y) && zl_eqb a' b'
  | _, _ => false
  end.
Fixpoint zll_eqb (a b : list (list Z)) : bool :=
  match a, b with
  | [], [] => true
  | x :: a', y :: b' => zl_eqb x y && zll_eqb a' b'
  | _, _ => false
  end.
Definition count_false (bs : list bool) : nat := length (filter negb bs).
