(** Propositional layer shared by every model: literals are non-zero integers
    (DIMACS convention, as [sweetpea.core.cnf.Var]), a clause is a list of
    literals, a CNF a list of clauses.  Assignments are total functions on the
    positive integers. *)
From Coq Require Import ZArith List Bool Lia.
Import ListNotations.
Open Scope Z_scope.

Definition lit := Z.
Definition clause := list Z.
Definition cnf := list clause.
Definition asg := Z -> bool.

Definition lit_true (s : asg) (l : Z) : bool :=
  if 0 <? l then s l else negb (s (- l)).
Definition csat (s : asg) (c : clause) : bool := existsb (lit_true s) c.
Definition sat (s : asg) (f : cnf) : bool := forallb (csat s) f.

(** [agree_upto n s t]: the two assignments coincide on variables 1..n. *)
Definition agree_upto (n : Z) (s t : asg) : Prop :=
  forall v, 0 < v <= n -> s v = t v.

(** Every variable mentioned by the CNF lies in 1..n. *)
Definition vars_upto (n : Z) (f : cnf) : Prop :=
  forall c l, In c f -> In l c -> 0 < Z.abs l <= n.

Lemma sat_app s f g : sat s (f ++ g) = sat s f && sat s g.
Proof. unfold sat. apply forallb_app. Qed.

Lemma sat_cons s c f : sat s (c :: f) = csat s c && sat s f.
Proof. reflexivity. Qed.

Lemma lit_true_opp s l : l <> 0 -> lit_true s (- l) = negb (lit_true s l).
Proof.
  intros Hl. unfold lit_true.
  destruct (0 <? l) eqn:E1; destruct (0 <? - l) eqn:E2; try lia.
  - now rewrite Z.opp_involutive.
  - now rewrite negb_involutive.
Qed.

Lemma lit_true_pos s v : 0 < v -> lit_true s v = s v.
Proof. intros H. unfold lit_true. now replace (0 <? v) with true by lia. Qed.

Lemma lit_true_neg s v : 0 < v -> lit_true s (- v) = negb (s v).
Proof.
  intros H. unfold lit_true. replace (0 <? - v) with false by lia.
  now rewrite Z.opp_involutive.
Qed.

Lemma agree_upto_refl n s : agree_upto n s s.
Proof. now intros v _. Qed.

Lemma agree_upto_sym n s t : agree_upto n s t -> agree_upto n t s.
Proof. intros H v Hv. symmetry. now apply H. Qed.

Lemma agree_upto_trans n s t u :
  agree_upto n s t -> agree_upto n t u -> agree_upto n s u.
Proof. intros H1 H2 v Hv. rewrite H1 by assumption. now apply H2. Qed.

Lemma agree_upto_le n m s t : m <= n -> agree_upto n s t -> agree_upto m s t.
Proof. intros Hle H v Hv. apply H. lia. Qed.

Lemma lit_true_agree n s t l :
  agree_upto n s t -> 0 < Z.abs l <= n -> lit_true s l = lit_true t l.
Proof.
  intros H Hl. unfold lit_true. destruct (0 <? l) eqn:E.
  - apply H. lia.
  - f_equal. apply H. lia.
Qed.

Lemma csat_agree n s t c :
  agree_upto n s t -> (forall l, In l c -> 0 < Z.abs l <= n) ->
  csat s c = csat t c.
Proof.
  intros H. induction c as [|l c IH]; intros Hc; [reflexivity|].
  cbn [csat existsb]. rewrite (lit_true_agree n s t l H) by (apply Hc; now left).
  f_equal. apply IH. intros l' Hl'. apply Hc. now right.
Qed.

Lemma sat_agree n s t f :
  agree_upto n s t -> vars_upto n f -> sat s f = sat t f.
Proof.
  intros H. induction f as [|c f IH]; intros Hf; [reflexivity|].
  cbn [sat forallb]. rewrite (csat_agree n s t c H).
  - f_equal. apply IH. intros c' l Hc' Hl. apply (Hf c' l); [now right|assumption].
  - intros l Hl. apply (Hf c l); [now left|assumption].
Qed.

Lemma vars_upto_app n f g : vars_upto n f -> vars_upto n g -> vars_upto n (f ++ g).
Proof.
  intros Hf Hg c l Hc Hl. apply in_app_or in Hc. destruct Hc as [Hc|Hc].
  - now apply (Hf c l). - now apply (Hg c l).
Qed.

Lemma vars_upto_le n m f : n <= m -> vars_upto n f -> vars_upto m f.
Proof. intros Hle H c l Hc Hl. specialize (H c l Hc Hl). lia. Qed.

(** * Definitional blocks

    [Defines lo hi new ext]: the clauses [new] mention only variables 1..hi and
    are satisfied by [s] exactly when the variables lo+1..hi of [s] carry the
    values [ext s] computes for them; [ext] changes nothing outside that range
    and reads only variables 1..lo.  So each assignment of 1..lo has exactly one
    extension to 1..hi satisfying [new]. *)
Record Defines (lo hi : Z) (new : cnf) (ext : asg -> asg) : Prop := {
  def_range : 0 <= lo <= hi;
  def_vars  : vars_upto hi new;
  def_sat   : forall s, sat s new = true <-> (forall v, lo < v <= hi -> s v = ext s v);
  def_out   : forall s v, ~ (lo < v <= hi) -> ext s v = s v;
  def_local : forall s t, agree_upto lo s t -> forall v, lo < v <= hi -> ext s v = ext t v
}.

Lemma defines_nil lo : 0 <= lo -> Defines lo lo [] (fun s => s).
Proof.
  intros Hlo. constructor.
  - lia.
  - intros c l [].
  - intros s. split; [intros _ v Hv; lia | reflexivity].
  - reflexivity.
  - intros s t _ v Hv. lia.
Qed.

Lemma defines_sat_ext lo hi new ext s :
  Defines lo hi new ext -> sat (ext s) new = true.
Proof.
  intros D. apply (def_sat _ _ _ _ D). intros v Hv.
  apply (def_local _ _ _ _ D); [|assumption].
  intros w Hw. symmetry. apply (def_out _ _ _ _ D). lia.
Qed.

Lemma defines_ext_agree lo hi new ext s :
  Defines lo hi new ext -> 0 <= lo -> agree_upto lo s (ext s).
Proof. intros D _ v Hv. symmetry. apply (def_out _ _ _ _ D). lia. Qed.

(** Sequencing: a block over lo..mid followed by one over mid..hi. *)
Lemma defines_seq lo mid hi a b e1 e2 :
  Defines lo mid a e1 -> Defines mid hi b e2 ->
  Defines lo hi (a ++ b) (fun s => e2 (e1 s)).
Proof.
  intros D1 D2.
  pose proof (def_range _ _ _ _ D1) as R1. pose proof (def_range _ _ _ _ D2) as R2.
  constructor.
  - lia.
  - apply vars_upto_app; [|apply (def_vars _ _ _ _ D2)].
    apply (vars_upto_le mid); [lia|apply (def_vars _ _ _ _ D1)].
  - intros s. rewrite sat_app, andb_true_iff.
    rewrite (def_sat _ _ _ _ D1), (def_sat _ _ _ _ D2). split.
    + intros [H1 H2] v Hv.
      assert (A : agree_upto mid s (e1 s)).
      { intros w Hw. destruct (Z_lt_le_dec lo w).
        - apply H1. lia.
        - symmetry. apply (def_out _ _ _ _ D1). lia. }
      destruct (Z_lt_le_dec mid v) as [Hm|Hm].
      * rewrite H2 by lia. apply (def_local _ _ _ _ D2); [assumption|lia].
      * rewrite (def_out _ _ _ _ D2) by lia. apply H1. lia.
    + intros H.
      assert (H1 : forall v, lo < v <= mid -> s v = e1 s v).
      { intros v Hv. rewrite H by lia. apply (def_out _ _ _ _ D2). lia. }
      split; [exact H1|].
      assert (A : agree_upto mid s (e1 s)).
      { intros w Hw. destruct (Z_lt_le_dec lo w).
        - apply H1. lia.
        - symmetry. apply (def_out _ _ _ _ D1). lia. }
      intros v Hv. rewrite H by lia. symmetry.
      apply (def_local _ _ _ _ D2); [assumption|lia].
  - intros s v Hv. rewrite (def_out _ _ _ _ D2) by lia. apply (def_out _ _ _ _ D1). lia.
  - intros s t Hst v Hv.
    assert (A : agree_upto mid (e1 s) (e1 t)).
    { intros w Hw. destruct (Z_lt_le_dec lo w).
      - apply (def_local _ _ _ _ D1); [assumption|lia].
      - rewrite !(def_out _ _ _ _ D1) by lia. apply Hst. lia. }
    destruct (Z_lt_le_dec mid v) as [Hm|Hm].
    + apply (def_local _ _ _ _ D2); [assumption|lia].
    + rewrite !(def_out _ _ _ _ D2) by lia. apply A. lia.
Qed.

(** Uniqueness of the extension. *)
Lemma defines_unique lo hi new ext s t :
  Defines lo hi new ext -> agree_upto lo s t ->
  sat s new = true -> sat t new = true -> agree_upto hi s t.
Proof.
  intros D A Hs Ht v Hv.
  pose proof (proj1 (def_sat _ _ _ _ D s) Hs) as Hs'.
  pose proof (proj1 (def_sat _ _ _ _ D t) Ht) as Ht'.
  destruct (Z_lt_le_dec lo v) as [Hl|Hl].
  - rewrite Hs', Ht' by lia. apply (def_local _ _ _ _ D); [assumption|lia].
  - apply A. lia.
Qed.

(** A single fresh variable [v = lo+1] defined as a boolean function [g] of
    the assignment of 1..lo. *)
Definition upd (s : asg) (v : Z) (b : bool) : asg := fun w => if w =? v then b else s w.

Lemma defines_gate lo new (g : asg -> bool) :
  0 <= lo ->
  vars_upto (lo + 1) new ->
  (forall s t, agree_upto lo s t -> g s = g t) ->
  (forall s, sat s new = true <-> s (lo + 1) = g s) ->
  Defines lo (lo + 1) new (fun s => upd s (lo + 1) (g s)).
Proof.
  intros Hlo Hv Hg Hs. constructor.
  - lia.
  - exact Hv.
  - intros s. rewrite Hs. split.
    + intros E v Hv'. assert (v = lo + 1) by lia. subst v. unfold upd.
      now rewrite Z.eqb_refl.
    + intros H. specialize (H (lo + 1) ltac:(lia)). unfold upd in H.
      now rewrite Z.eqb_refl in H.
  - intros s v Hv'. unfold upd. destruct (v =? lo + 1) eqn:E; [lia|reflexivity].
  - intros s t A v Hv'. unfold upd. destruct (v =? lo + 1) eqn:E; [now apply Hg|lia].
Qed.
