(** [combinations_mismatched_weights] / [sample_mismatch_crossing] of the model
    (Check/Mismatch.v) against clause V5 of the reference semantics
    ([Sem.chunks_ok]).  The real function only looks at combinations that occur
    in the chunk; the equivalence therefore needs the hypothesis that every
    occurring combination is an allowed one (the second conjunct of
    [Sem.chunks_ok]) - see [crossing_clause_refuted] for the witness without it. *)
From Coq Require Import ZArith List Bool Arith Lia FinFun.
From SP Require Import Design.Flat Design.Layout Check.Mismatch Check.MismatchProofs.
From SP Require Design.Sem.
Import ListNotations.

Notation key := (list (option nat)).

Lemma key_eq_dec : forall a b : key, {a = b} + {a <> b}.
Proof. repeat decide equality. Qed.

Definition full (k : key) : Prop := forall c, In c k -> c <> None.

Lemma full_cons : forall c k, full (c :: k) <-> c <> None /\ full k.
Proof.
  unfold full; simpl; split.
  - intros H; split; [apply H; auto | intros c0 Hc; apply H; auto].
  - intros [H1 H2] c0 [E|Hc]; [subst; auto | auto].
Qed.

Lemma combo_same_full : forall a b, full a -> (combo_same a b = true <-> a = b).
Proof.
  unfold combo_same. induction a as [|x a IH]; intros b Hf; destruct b as [|y b]; simpl; split; intros H;
    try reflexivity; try discriminate.
  - apply full_cons in Hf. destruct Hf as [Hx Hf].
    apply andb_prop in H. destruct H as [H1 H2].
    destruct x as [x|]; [|congruence]. destruct y as [y|]; simpl in H1; [|discriminate].
    apply Nat.eqb_eq in H1. subst. f_equal. apply IH; auto.
  - injection H as -> ->. apply full_cons in Hf. destruct Hf as [Hx Hf].
    destruct y as [y|]; [|congruence]. simpl. rewrite Nat.eqb_refl. simpl. apply IH; auto.
Qed.

Lemma combo_same_refl : forall a, full a -> combo_same a a = true.
Proof. intros. apply combo_same_full; auto. Qed.

Lemma combo_same_neq : forall a b, full a -> a <> b -> combo_same a b = false.
Proof.
  intros a b Hf Hn. destruct (combo_same a b) eqn:E; auto.
  apply combo_same_full in E; auto. contradiction.
Qed.

(** number of occurrences of a key *)
Definition cnt (k : key) (keys : list key) : nat := length (filter (combo_same k) keys).

Lemma cnt_app : forall k xs ys, cnt k (xs ++ ys) = cnt k xs + cnt k ys.
Proof. intros. unfold cnt. rewrite filter_app, app_length. reflexivity. Qed.

Lemma cnt_single : forall u k, cnt u [k] = if combo_same u k then 1 else 0.
Proof. intros. unfold cnt. simpl. destruct (combo_same u k); reflexivity. Qed.

Lemma cnt_notin : forall k keys, full k -> ~ In k keys -> cnt k keys = 0.
Proof.
  intros k keys Hf Hn. unfold cnt. induction keys as [|x xs IH]; simpl; auto.
  destruct (combo_same k x) eqn:E.
  - apply combo_same_full in E; auto. subst. exfalso. apply Hn. left; auto.
  - apply IH. intros H. apply Hn. right; auto.
Qed.

Lemma cnt_in_pos : forall k keys, full k -> In k keys -> 1 <= cnt k keys.
Proof.
  intros k keys Hf Hin. unfold cnt. induction keys as [|x xs IH]; simpl in *; [contradiction|].
  destruct Hin as [E|Hin].
  - subst. rewrite combo_same_refl by auto. simpl. lia.
  - destruct (combo_same k x); simpl; [lia|auto].
Qed.

(** * The [combos] dictionary is the table of occurrence counts *)

Definition table (c : key -> nat) (us : list key) : list (key * nat) := map (fun k => (k, c k)) us.

Lemma combos_add_in : forall (c : key -> nat) k us,
  full k -> (forall u, In u us -> full u) -> NoDup us -> In k us ->
  combos_add k (table c us) = table (fun u => if combo_same u k then S (c u) else c u) us.
Proof.
  intros c k us Hk. induction us as [|u us IH]; intros Hf Hnd Hin; simpl in *; [contradiction|].
  inversion Hnd as [|? ? Hnu Hnd']; subst.
  destruct (combo_same u k) eqn:E.
  - apply combo_same_full in E; [|apply Hf; auto]. subst u.
    f_equal. unfold table. apply map_ext_in. intros v Hv.
    rewrite combo_same_neq; auto. intros ->. contradiction.
  - f_equal. apply IH; auto.
    destruct Hin as [->|Hin]; auto. rewrite combo_same_refl in E by auto. discriminate.
Qed.

Lemma combos_add_notin : forall (c : key -> nat) k us,
  full k -> (forall u, In u us -> full u) -> ~ In k us ->
  combos_add k (table c us) = table c us ++ [(k, 1)].
Proof.
  intros c k us Hk. induction us as [|u us IH]; intros Hf Hn; simpl in *; auto.
  destruct (combo_same u k) eqn:E.
  - apply combo_same_full in E; [|apply Hf; auto]. subst. exfalso. apply Hn. auto.
  - f_equal. apply IH; auto.
Qed.

Lemma NoDup_snoc : forall {A} (us : list A) k, NoDup us -> ~ In k us -> NoDup (us ++ [k]).
Proof.
  induction us as [|u us IH]; intros k Hnd Hn; simpl.
  - constructor; [intros []|constructor].
  - inversion Hnd; subst. constructor.
    + intros H. apply in_app_or in H. destruct H as [H|[H|[]]]; auto. subst. apply Hn. left; auto.
    + apply IH; auto. intros H. apply Hn. right; auto.
Qed.

Definition combos_of (d : list (key * nat)) (keys : list key) : list (key * nat) :=
  fold_left (fun d k => combos_add k d) keys d.

Lemma combos_of_table : forall ks pre us,
  (forall k, In k pre -> full k) -> (forall k, In k ks -> full k) ->
  NoDup us -> (forall k, In k us <-> In k pre) ->
  exists us', NoDup us' /\ (forall k, In k us' <-> In k (pre ++ ks)) /\
              combos_of (table (fun k => cnt k pre) us) ks = table (fun k => cnt k (pre ++ ks)) us'.
Proof.
  induction ks as [|k ks IH]; intros pre us Hpre Hks Hnd Hiff.
  - exists us. rewrite app_nil_r. auto.
  - simpl.
    assert (Hk : full k) by (apply Hks; left; auto).
    assert (Hus : forall u, In u us -> full u) by (intros u Hu; apply Hpre, Hiff; auto).
    assert (Hpre' : forall x, In x (pre ++ [k]) -> full x).
    { intros x Hx. apply in_app_or in Hx. destruct Hx as [Hx|[<-|[]]]; auto. }
    assert (Hks' : forall x, In x ks -> full x) by (intros; apply Hks; right; auto).
    destruct (in_dec key_eq_dec k us) as [Hin|Hnin].
    + rewrite combos_add_in by auto.
      assert (E : table (fun u => if combo_same u k then S (cnt u pre) else cnt u pre) us
                  = table (fun u => cnt u (pre ++ [k])) us).
      { unfold table. apply map_ext_in. intros u Hu. f_equal. rewrite cnt_app, cnt_single.
        destruct (combo_same u k); lia. }
      rewrite E.
      destruct (IH (pre ++ [k]) us Hpre' Hks' Hnd) as [us' [H1 [H2 H3]]].
      { intros x. rewrite in_app_iff. simpl. rewrite Hiff. split; auto.
        intros [Hx|[<-|[]]]; auto. apply Hiff; auto. }
      exists us'. split; auto. split.
      * intros x. rewrite H2. rewrite <- app_assoc. reflexivity.
      * unfold combos_of in *. rewrite H3. rewrite <- app_assoc. reflexivity.
    + rewrite combos_add_notin by auto.
      assert (E : table (fun u => cnt u pre) us ++ [(k, 1)] = table (fun u => cnt u (pre ++ [k])) (us ++ [k])).
      { unfold table. rewrite map_app. simpl. f_equal.
        - apply map_ext_in. intros u Hu. f_equal. rewrite cnt_app, cnt_single.
          rewrite combo_same_neq; auto. intros ->. contradiction.
        - rewrite cnt_app, cnt_single. rewrite cnt_notin; auto.
          + rewrite combo_same_refl by auto. reflexivity.
          + intros Hx. apply Hnin, Hiff. auto. }
      rewrite E.
      destruct (IH (pre ++ [k]) (us ++ [k]) Hpre' Hks') as [us' [H1 [H2 H3]]].
      { apply NoDup_snoc; auto. }
      { intros x. rewrite !in_app_iff. simpl. rewrite Hiff. tauto. }
      exists us'. split; auto. split.
      * intros x. rewrite H2. rewrite <- app_assoc. reflexivity.
      * unfold combos_of in *. rewrite H3. rewrite <- app_assoc. reflexivity.
Qed.

(** * The mismatch sum of one chunk is zero iff every occurring combination has the right count *)

Section Chunk.
Variable want : key -> nat.
Variable or_less : bool.

Definition devf (acc : nat) (kc : key * nat) : nat :=
  let w := want (fst kc) in
  let n := snd kc in
  if w <=? n then acc + (n - w) else if or_less then acc else acc + (w - n).

Definition cond (n w : nat) : Prop := if or_less then n <= w else n = w.

Lemma devf_step : forall acc kc, devf acc kc = 0 <-> acc = 0 /\ cond (snd kc) (want (fst kc)).
Proof.
  intros acc kc. unfold devf, cond.
  destruct (Nat.leb_spec (want (fst kc)) (snd kc)); destruct or_less; lia.
Qed.

Lemma devf_zero : forall combos acc,
  fold_left devf combos acc = 0 <-> acc = 0 /\ forall kc, In kc combos -> cond (snd kc) (want (fst kc)).
Proof.
  induction combos as [|kc r IH]; intros acc; simpl.
  - split; [intros; split; auto; intros ? [] | intros [H _]; auto].
  - rewrite IH, devf_step. split.
    + intros [[H1 H2] H3]. split; auto. intros kc0 [<-|H]; auto.
    + intros [H1 H2]. split; [split|]; auto.
Qed.

Lemma model_chunk_zero : forall keys,
  (forall k, In k keys -> full k) ->
  (fold_left devf (combos_of [] keys) 0 = 0 <-> forall k, In k keys -> cond (cnt k keys) (want k)).
Proof.
  intros keys Hf.
  destruct (combos_of_table keys [] []) as [us [Hnd [Hin E]]]; auto.
  - intros k [].
  - constructor.
  - intros k; split; auto.
  - simpl in E, Hin. unfold table in E at 1. simpl in E. rewrite E. rewrite devf_zero. split.
    + intros [_ H] k Hk. apply (H (k, cnt k keys)). unfold table. apply in_map_iff. exists k. split; auto. apply Hin; auto.
    + intros H. split; auto. intros kc Hkc. unfold table in Hkc. apply in_map_iff in Hkc.
      destruct Hkc as [k [<- Hk]]. simpl. apply H. apply Hin; auto.
Qed.

(** sums *)
Lemma sum_le_pointwise : forall {A} (f g : A -> nat) xs,
  (forall x, In x xs -> f x <= g x) -> list_sum (map f xs) <= list_sum (map g xs).
Proof.
  induction xs as [|x xs IH]; intros H; simpl; auto.
  assert (f x <= g x) by (apply H; left; auto).
  assert (list_sum (map f xs) <= list_sum (map g xs)) by (apply IH; intros; apply H; right; auto). lia.
Qed.

Lemma sum_eq_pointwise : forall {A} (f g : A -> nat) xs,
  (forall x, In x xs -> f x <= g x) -> list_sum (map f xs) = list_sum (map g xs) ->
  forall x, In x xs -> f x = g x.
Proof.
  induction xs as [|y xs IH]; intros Hle Hs x Hx; simpl in *; [contradiction|].
  assert (f y <= g y) by (apply Hle; left; auto).
  assert (list_sum (map f xs) <= list_sum (map g xs)) by (apply sum_le_pointwise; intros; apply Hle; right; auto).
  destruct Hx as [<-|Hx]; [lia|]. apply IH; auto. lia.
Qed.

Lemma sum_indicator_zero : forall (cs : list key) k,
  (forall c, In c cs -> full c) -> ~ In k cs ->
  list_sum (map (fun c => if combo_same c k then 1 else 0) cs) = 0.
Proof.
  induction cs as [|d cs IH]; intros k Hf Hn; simpl; auto.
  rewrite combo_same_neq.
  - apply IH.
    + intros; apply Hf; right; auto.
    + intros H; apply Hn; right; auto.
  - apply Hf; left; auto.
  - intros ->. apply Hn; left; auto.
Qed.

Lemma sum_indicator : forall (cs : list key) k,
  (forall c, In c cs -> full c) -> NoDup cs -> In k cs ->
  list_sum (map (fun c => if combo_same c k then 1 else 0) cs) = 1.
Proof.
  induction cs as [|c cs IH]; intros k Hf Hnd Hin; simpl in *; [contradiction|].
  inversion Hnd as [|? ? Hnc Hnd']; subst.
  destruct Hin as [->|Hin].
  - rewrite combo_same_refl by (apply Hf; auto).
    rewrite sum_indicator_zero; auto.
  - rewrite combo_same_neq; [|apply Hf; auto | intros ->; contradiction].
    simpl. apply IH; auto.
Qed.

Lemma partition_count : forall (cs : list key) keys,
  (forall c, In c cs -> full c) -> NoDup cs -> (forall k, In k keys -> In k cs) ->
  list_sum (map (fun c => cnt c keys) cs) = length keys.
Proof.
  intros cs keys Hf Hnd. induction keys as [|k keys IH]; intros Hin.
  - unfold cnt. simpl. clear. induction cs; simpl; auto.
  - simpl.
    assert (E : map (fun c => cnt c (k :: keys)) cs
                = map (fun c => (if combo_same c k then 1 else 0) + cnt c keys) cs).
    { apply map_ext. intros c. change (k :: keys) with ([k] ++ keys). rewrite cnt_app, cnt_single. reflexivity. }
    rewrite E.
    assert (S : forall (f g : key -> nat) xs, list_sum (map (fun c => f c + g c) xs) = list_sum (map f xs) + list_sum (map g xs)).
    { induction xs; simpl; auto. rewrite IHxs. lia. }
    rewrite S. rewrite sum_indicator; auto.
    + rewrite IH; auto. intros; apply Hin; right; auto.
    + apply Hin; left; auto.
Qed.

Theorem chunk_clause_iff : forall (keys : list key) (mult : list (list nat * nat)),
  NoDup (map fst mult) ->
  (forall cm, In cm mult -> snd cm = want (map Some (fst cm))) ->
  (forall k, In k keys -> exists cm, In cm mult /\ k = map Some (fst cm)) ->
  (or_less = false -> list_sum (map snd mult) = length keys) ->
  (fold_left devf (combos_of [] keys) 0 = 0
   <-> forall cm, In cm mult -> cond (cnt (map Some (fst cm)) keys) (snd cm)).
Proof.
  intros keys mult Hnd Hw H1 H4.
  assert (Hfullc : forall c : list nat, full (map Some c)).
  { intros c x Hx. apply in_map_iff in Hx. destruct Hx as [y [<- _]]. discriminate. }
  assert (Hfull : forall k, In k keys -> full k).
  { intros k Hk. destruct (H1 k Hk) as [cm [_ ->]]. apply Hfullc. }
  rewrite model_chunk_zero by auto. split.
  - intros Hm.
    destruct or_less eqn:EO.
    + intros cm Hcm. unfold cond in *. rewrite EO in *.
      destruct (in_dec key_eq_dec (map Some (fst cm)) keys) as [Hin|Hnin].
      * rewrite (Hw cm Hcm). apply (Hm _ Hin).
      * rewrite cnt_notin; auto. lia.
    + (* full chunk: counting *)
      set (cs := map (fun cm => map Some (fst cm)) mult).
      assert (Hcs_full : forall c, In c cs -> full c).
      { intros c Hc. apply in_map_iff in Hc. destruct Hc as [cm [<- _]]. apply Hfullc. }
      assert (Hcs_nd : NoDup cs).
      { unfold cs. rewrite <- (map_map fst (map Some)).
        apply Injective_map_NoDup; auto.
        intros a b Hab. revert b Hab. induction a; destruct b; simpl; intros; try discriminate; auto.
        injection Hab as -> Hab. f_equal. auto. }
      assert (Hcover : forall k, In k keys -> In k cs).
      { intros k Hk. destruct (H1 k Hk) as [cm [Hcm ->]]. unfold cs. apply in_map_iff. exists cm; auto. }
      assert (Hsum : list_sum (map (fun cm => cnt (map Some (fst cm)) keys) mult) = list_sum (map snd mult)).
      { rewrite H4 by auto. rewrite <- (partition_count cs keys Hcs_full Hcs_nd Hcover).
        unfold cs. rewrite map_map. reflexivity. }
      assert (Hle : forall cm, In cm mult -> cnt (map Some (fst cm)) keys <= snd cm).
      { intros cm Hcm. destruct (in_dec key_eq_dec (map Some (fst cm)) keys) as [Hin|Hnin].
        - specialize (Hm _ Hin). unfold cond in Hm. rewrite EO in Hm. rewrite (Hw cm Hcm). lia.
        - rewrite cnt_notin; auto. lia. }
      intros cm Hcm. unfold cond. rewrite EO.
      apply (sum_eq_pointwise (fun cm => cnt (map Some (fst cm)) keys) snd mult Hle Hsum cm Hcm).
  - intros Hs k Hk. destruct (H1 k Hk) as [cm [Hcm ->]]. rewrite <- (Hw cm Hcm). apply Hs; auto.
Qed.

End Chunk.

(** * Against the reference semantics *)

Lemma combo_eqb_same : forall c k, Sem.combo_eqb c k = combo_same (map Some c) k.
Proof.
  unfold Sem.combo_eqb, combo_same. induction c as [|x c IH]; destruct k as [|y k]; simpl; auto.
  rewrite IH. destruct y; reflexivity.
Qed.

Lemma filter_map_length : forall {A B} (p : B -> bool) (g : A -> B) xs,
  length (filter p (map g xs)) = length (filter (fun x => p (g x)) xs).
Proof. induction xs as [|x xs IH]; simpl; auto. destruct (p (g x)); simpl; auto. Qed.

Lemma full_map_some : forall c : list nat, full (map Some c).
Proof. intros c x Hx. apply in_map_iff in Hx. destruct Hx as [y [<- _]]. discriminate. Qed.

Definition rows_agree (s : cand) (s' : Sem.tseq) (fs fs' : list nat) : Prop :=
  Forall2 (fun f f' => row_of s f = Ok (nth f' s' ([] : list Sem.cell))) fs fs'.

Lemma keys_ok : forall s (s' : Sem.tseq) fs fs' a b,
  rows_agree s s' fs fs' ->
  (forall f', In f' fs' -> b <= length (nth f' s' ([] : list Sem.cell))) ->
  map_res (fun t => map_res (fun f => row <- row_of s f ;; get row t) fs) (seq a (b - a))
  = Ok (map (Sem.combo_at s' fs') (seq a (b - a))).
Proof.
  intros s s' fs fs' a b Hrows Hlen.
  apply map_res_ok. intros t Ht. apply in_seq in Ht.
  unfold Sem.combo_at. induction Hrows as [|f f' fs fs' Hr Hrs IH]; simpl; auto.
  rewrite Hr. simpl. unfold Sem.cell in *.
  rewrite get_nth by (specialize (Hlen f' (or_introl eq_refl)); lia). simpl.
  rewrite IH; auto. intros; apply Hlen; right; auto.
Qed.

Theorem mismatched_weights_sem : forall fb s fs (s' : Sem.tseq) fs' a b weight or_less mult,
  rows_agree s s' fs fs' ->
  (forall f', In f' fs' -> b <= length (nth f' s' ([] : list Sem.cell))) ->
  NoDup (map fst mult) ->
  (forall cm, In cm mult -> snd cm = combo_weight fb fs (map Some (fst cm)) * weight) ->
  forallb (fun t => existsb (fun cm => Sem.combo_eqb (fst cm) (Sem.combo_at s' fs' t)) mult) (seq a (b - a)) = true ->
  (or_less = false -> list_sum (map snd mult) = b - a) ->
  exists n, mismatched_weights fb s fs a b weight or_less = Ok n /\
            (n = 0 <-> forallb (fun cm => let c := Sem.count_combo s' fs' (fst cm) a b in
                                          if or_less then c <=? snd cm else c =? snd cm) mult = true).
Proof.
  intros fb s fs s' fs' a b weight or_less mult Hrows Hlen Hnd Hw H1 H4.
  unfold mismatched_weights. rewrite (keys_ok _ _ _ _ _ _ Hrows Hlen). simpl.
  set (keys := map (Sem.combo_at s' fs') (seq a (b - a))).
  set (want := fun k : key => combo_weight fb fs k * weight).
  exists (fold_left (devf want or_less) (combos_of [] keys) 0). split; [reflexivity|].
  assert (Hcnt : forall c, Sem.count_combo s' fs' c a b = cnt (map Some c) keys).
  { intros c. unfold Sem.count_combo, cnt, keys. rewrite filter_map_length.
    f_equal. apply filter_ext. intros t. apply combo_eqb_same. }
  rewrite (chunk_clause_iff want or_less keys mult Hnd Hw).
  - rewrite forallb_forall. unfold cond. split.
    + intros H cm Hcm. specialize (H cm Hcm). cbv zeta. rewrite Hcnt.
      destruct or_less; [apply Nat.leb_le | apply Nat.eqb_eq]; auto.
    + intros H cm Hcm. specialize (H cm Hcm). cbv zeta in H. rewrite Hcnt in H.
      destruct or_less; [apply Nat.leb_le | apply Nat.eqb_eq]; auto.
  - intros k Hk. unfold keys in Hk. apply in_map_iff in Hk. destruct Hk as [t [<- Ht]].
    rewrite forallb_forall in H1. specialize (H1 t Ht). apply existsb_exists in H1.
    destruct H1 as [cm [Hcm E]]. exists cm. split; auto.
    rewrite combo_eqb_same in E. apply combo_same_full in E; [auto | apply full_map_some].
  - intros EO. unfold keys. rewrite map_length, seq_length. auto.
Qed.

Theorem chunk_loop_sem : forall fb s fs (s' : Sem.tseq) fs' size weight mult S first,
  rows_agree s s' fs fs' ->
  (forall f', In f' fs' -> fl_trials fb <= length (nth f' s' ([] : list Sem.cell))) ->
  NoDup (map fst mult) ->
  (forall cm, In cm mult -> snd cm = combo_weight fb fs (map Some (fst cm)) * weight) ->
  (forall t, first <= t < fl_trials fb ->
             existsb (fun cm => Sem.combo_eqb (fst cm) (Sem.combo_at s' fs' t)) mult = true) ->
  list_sum (map snd mult) = size -> 1 <= size ->
  Sem.s_trials S = fl_trials fb ->
  forall fuel start, first <= start -> fl_trials fb - start < fuel ->
  exists n, chunk_loop fb fuel s fs size weight start = Ok n /\
            (n = 0 <-> Sem.chunks_ok fuel S s'
                         {| Sem.c_factors := fs'; Sem.c_first := first; Sem.c_chunk := size; Sem.c_mult := mult |}
                         start = true).
Proof.
  intros fb s fs s' fs' size weight mult S first Hrows Hlen Hnd Hw H1 Hsum Hsize HT.
  induction fuel as [|fuel IH]; intros start Hfirst Hfuel; [lia|].
  simpl. unfold T. rewrite HT.
  destruct (fl_trials fb <=? start) eqn:ET.
  - exists 0. split; auto. tauto.
  - apply Nat.leb_gt in ET.
    set (e := start + size).
    set (or_less := fl_trials fb <? e).
    set (e' := if or_less then fl_trials fb else e).
    assert (He' : e' = Nat.min e (fl_trials fb)).
    { unfold e', or_less. destruct (Nat.ltb_spec (fl_trials fb) e); lia. }
    assert (Hfull : (e <=? fl_trials fb) = negb or_less).
    { unfold or_less. destruct (Nat.ltb_spec (fl_trials fb) e); destruct (Nat.leb_spec e (fl_trials fb)); auto; lia. }
    assert (H1c : forallb (fun t => existsb (fun cm => Sem.combo_eqb (fst cm) (Sem.combo_at s' fs' t)) mult)
                          (seq start (e' - start)) = true).
    { apply forallb_forall. intros t Ht. apply in_seq in Ht. apply H1. lia. }
    destruct (mismatched_weights_sem fb s fs s' fs' start e' weight or_less mult) as [bad [Hbad Hbz]]; auto.
    { intros f' Hf'. specialize (Hlen f' Hf'). lia. }
    { intros EO. unfold e'. rewrite EO. unfold e. lia. }
    destruct (IH e) as [rest [Hrest Hrz]]; [unfold e; lia | unfold e; lia |].
    fold e. fold or_less. fold e'. rewrite Hbad. simpl. fold e in Hrest. rewrite Hrest. simpl.
    exists (bad + rest). split; auto.
    rewrite <- He'. rewrite H1c. rewrite andb_true_r. rewrite Hfull.
    rewrite andb_true_iff. rewrite <- Hrz.
    assert (Hb : bad = 0 <->
       forallb (fun cm => let n := Sem.count_combo s' fs' (fst cm) start e' in
                          if negb or_less then n =? snd cm else n <=? snd cm) mult = true).
    { rewrite Hbz. destruct or_less; simpl; tauto. }
    rewrite <- Hb. lia.
Qed.

(** * Without the hypothesis that every occurring combination is allowed the
      crossing clause alone is refuted: allowed {A, B} once each, the chunk
      holds A and an excluded C; the model (like the real
      [sample_mismatch_crossing], which returns [[]] on
      CrossBlock([f(a,b,c), g], [f], [Exclude(f, c)], False), f = [a, c])
      counts no mismatch, the reference clause does (B is missing). *)

Definition refute_fb : flat :=
  {| fl_design := [ {| ff_name := String.EmptyString; ff_hidden := false;
                       ff_levels := [ {| lv_name := String.EmptyString; lv_weight := 1; lv_accepts := [] |};
                                      {| lv_name := String.EmptyString; lv_weight := 1; lv_accepts := [] |};
                                      {| lv_name := String.EmptyString; lv_weight := 1; lv_accepts := [] |} ];
                       ff_window := None; ff_complex := false |} ];
     fl_act := [0]; fl_crossings := [[0]]; fl_sustains := [1]; fl_weights := [1]; fl_sizes := [2];
     fl_preambles := [0]; fl_alignment := EqualPreamble; fl_alignment_preamble := 0; fl_min_trials := 0;
     fl_trials := 2; fl_rcc := false; fl_exclude := [(0, 2)]; fl_excluded_derived := [];
     fl_constraints := [FCross; FConsistency; FExclude 0 2]; fl_errors_fail := false |}.

Definition refute_s : cand := [(0, [Some 0; Some 2])].
Definition refute_sem : Sem.sem :=
  {| Sem.s_trials := 2; Sem.s_factors := [ {| Sem.f_nlevels := 3; Sem.f_sustain := 1; Sem.f_derived := None |} ];
     Sem.s_crossings := [ {| Sem.c_factors := [0]; Sem.c_first := 0; Sem.c_chunk := 2; Sem.c_mult := [([0], 1); ([1], 1)] |} ];
     Sem.s_constraints := [] |}.

Theorem crossing_clause_refuted :
  exists fb s (s' : Sem.tseq) S c,
    mismatch_crossings fb s = Ok [] /\ Sem.crossing_ok S s' c = false /\
    (* ... while the whole checker still flags the candidate, through Exclude *)
    mismatch fb s = VLists [] [2] [].
Proof.
  exists refute_fb, refute_s, [[Some 0; Some 2]], refute_sem,
         {| Sem.c_factors := [0]; Sem.c_first := 0; Sem.c_chunk := 2; Sem.c_mult := [([0], 1); ([1], 1)] |}.
  vm_compute. auto.
Qed.
