(** The fragment [dfrag] of flat records WITH derived factors (WithinTrial,
    Transition, Window) for the theorem "the mismatch checker accepts exactly the
    valid sequences", its reading [code_sem_d] as a reference-semantics design
    (the factor table carries the acceptance tables of the derived levels) and
    the candidate domain [wf_rowsb_d] (one level per trial where the factor
    applies, '' exactly where it does not).  Executable definitions only (they
    are extracted and evaluated on every generated program by
    harness/props/c17.py); the proofs are in Check/DerivedProofs.v. *)
From Coq Require Import ZArith List Bool Arith.
From SP Require Import Design.Flat Design.Layout Check.Mismatch Check.FragmentProofs Check.NestProofs.
From SP Require Design.Sem.
Import ListNotations.

(** does factor [f] have a level at (0-based) trial [t]: [applies_to_trial] of its trial group *)
Definition app_at (fb : flat) (f t : nat) : bool := applies_to_trial fb f (t / su_of fb f + 1).

Definition dwin_of (fd : ffactor) : option Sem.dwindow :=
  match ff_window fd with
  | None => None
  | Some w => Some {| Sem.w_deps := win_deps w; Sem.w_width := win_width w; Sem.w_stride := win_stride w;
                      Sem.w_start := win_start w; Sem.w_table := map lv_accepts (ff_levels fd) |}
  end.

Definition dfactor_of (fb : flat) (p : nat * ffactor) : Sem.dfactor :=
  {| Sem.f_nlevels := length (ff_levels (snd p)); Sem.f_sustain := su_of fb (fst p); Sem.f_derived := dwin_of (snd p) |}.

(** [code_sem_n] with the derivation windows and tables of the derived factors *)
Definition code_sem_d (fb : flat) : Sem.sem :=
  {| Sem.s_trials := fl_trials fb;
     Sem.s_factors := map (dfactor_of fb) (combine (seq 0 (length (fl_design fb))) (fl_design fb));
     Sem.s_crossings := map (crossing_sem fb) (combine (seq 0 (length (fl_crossings fb))) (fl_crossings fb));
     Sem.s_constraints := flat_map (csem_n fb) (fl_constraints fb) |}.

(** a factor a derived factor may read: it has a level in every trial (basic,
    WithinTrial, or a window starting at trial 0 with stride 1) *)
Definition dep_ok (fb : flat) (d : nat) : bool :=
  match factor_at fb d with
  | Some fd => match ff_window fd with
               | None => true
               | Some w => (win_start w =? 0) && (win_stride w =? 1)
               end
  | None => false
  end.

Definition ffrag_d (fb : flat) (fd : ffactor) : bool :=
  negb (ff_hidden fd) && (1 <=? length (ff_levels fd)) &&
  match ff_window fd with
  | None => true
  | Some w => forallb (dep_ok fb) (win_deps w)
  end.

(** a crossing of the fragment: as in [xfrag] (every combination of levels is
    an admitted one, chunk geometry consistent), and every crossed factor has a
    level in every trial from the first crossing trial on *)
Definition xfrag_d (fb : flat) (p : nat * list nat) : bool :=
  xfrag fb p &&
  forallb (fun f => forallb (app_at fb f) (seq (crossing_preamble fb (fst p)) (fl_trials fb - crossing_preamble fb (fst p))))
          (snd p).

(** the generated [Derivation] constraints are not checked by the mismatch checker
    ([potential_sample_conforms] returns True): the derived levels are the factor table *)
Definition cfrag_d (fb : flat) (c : fconstraint) : bool :=
  match c with FDerivation _ _ _ => true | _ => cfrag_n fb c end.

(** [nfrag] with derived factors of any window shape over factors that have a
    level in every trial *)
Definition dfrag (fb : flat) : bool :=
  forallb (ffrag_d fb) (fl_design fb)
  && forallb (fun su => (1 <=? su) && (fl_trials fb mod su =? 0)) (fl_sustains fb)
  && (forallb (fun su => su =? 1) (fl_sustains fb) || existsb is_sustain (fl_constraints fb))
  && forallb (cfrag_d fb) (fl_constraints fb)
  && forallb (xfrag_d fb) (combine (seq 0 (length (fl_crossings fb))) (fl_crossings fb)).

(** the sub-fragment whose derived factors are all within-trial (width 1, stride 1, start 0) *)
Definition within_only (fb : flat) : bool :=
  forallb (fun fd => match ff_window fd with
                     | None => true
                     | Some w => (win_width w =? 1) && (win_stride w =? 1) && (win_start w =? 0)
                     end) (fl_design fb).
Definition dfrag_w (fb : flat) : bool := dfrag fb && within_only fb.

(** candidates of the property's domain: a level of the factor where it applies, '' (None) exactly where it does not *)
Definition cell_okb (fb : flat) (f t : nat) (c : option nat) : bool :=
  match c with
  | Some l => (l <? nlev fb f) && app_at fb f t
  | None => negb (app_at fb f t)
  end.

Definition wf_rowsb_d (fb : flat) (rows : list (list (option nat))) : bool :=
  (length rows =? length (fl_design fb)) &&
  forallb (fun p : nat * list (option nat) =>
             (length (snd p) =? fl_trials fb) &&
             forallb (fun tc => cell_okb fb (fst p) (fst tc) (snd tc)) (combine (seq 0 (length (snd p))) (snd p)))
          (cand_of_rows rows).

(** diagnostics for the harness: the conjuncts of [dfrag] one by one (why a
    generated program is outside the proved fragment): no hidden factor; every
    factor has a level; derived factors read always-present factors; sustain
    counts; Sustain constraint present; no LatinSquare / ExactlyKMultipleInARow /
    unknown constraint; no Exclude of a crossed factor; the other constraint
    guards; every combination of crossed levels admitted with its weight (no
    excluded or impossible combination); chunk positive; crossed factors present
    from the first crossing trial *)
Definition dfrag_why (fb : flat) : list bool :=
  let xs := combine (seq 0 (length (fl_crossings fb))) (fl_crossings fb) in
  [ forallb (fun fd => negb (ff_hidden fd)) (fl_design fb);
    forallb (fun fd => 1 <=? length (ff_levels fd)) (fl_design fb);
    forallb (fun fd => match ff_window fd with None => true | Some w => forallb (dep_ok fb) (win_deps w) end) (fl_design fb);
    forallb (fun su => (1 <=? su) && (fl_trials fb mod su =? 0)) (fl_sustains fb);
    forallb (fun su => su =? 1) (fl_sustains fb) || existsb is_sustain (fl_constraints fb);
    forallb (fun c => match c with FLatin _ | FExactlyKMultiple _ _ _ _ | FOther _ => false | _ => true end)
            (fl_constraints fb);
    forallb (fun c => match c with FExclude f _ => negb (in_crossing fb f) | _ => true end) (fl_constraints fb);
    forallb (fun c => match c with
                      | FLatin _ | FExactlyKMultiple _ _ _ _ | FOther _ | FDerivation _ _ _ | FExclude _ _ => true
                      | _ => cfrag_d fb c
                      end) (fl_constraints fb);
    forallb (fun p => (list_sum (map snd (mult_of fb (snd p))) =? chunk_of fb (fst p) (snd p))) xs;
    forallb (xfrag fb) xs;
    forallb (xfrag_d fb) xs ].

(** * Exclusions of crossed levels (fragment [efrag])

    An [Exclude] constraint on a level of a crossed factor removes every
    combination holding that level from the crossing: the admitted combinations
    are the others, with their weights; the crossing size of the record must be
    their total weight.  (Combinations removed through a derived level that is
    not itself crossed, [fl_excluded_derived], change the crossing size without
    being visible here: such records fail the size guard.) *)
Definition excl_by_constraint (fb : flat) (f l : nat) : bool :=
  existsb (fun c => match c with FExclude f' l' => (f' =? f) && (l' =? l) | _ => false end) (fl_constraints fb).

Definition combo_admitted (fb : flat) (fs c : list nat) : bool :=
  negb (existsb (fun fl => excl_by_constraint fb (fst fl) (snd fl)) (combine fs c)).

Definition mult_x (fb : flat) (fs : list nat) : list (list nat * nat) :=
  filter (fun cm => combo_admitted fb fs (fst cm)) (mult_of fb fs).

Definition crossing_sem_x (fb : flat) (p : nat * list nat) : Sem.dcrossing :=
  {| Sem.c_factors := snd p; Sem.c_first := crossing_preamble fb (fst p);
     Sem.c_chunk := chunk_of fb (fst p) (snd p); Sem.c_mult := mult_x fb (snd p) |}.

Definition code_sem_x (fb : flat) : Sem.sem :=
  {| Sem.s_trials := fl_trials fb;
     Sem.s_factors := map (dfactor_of fb) (combine (seq 0 (length (fl_design fb))) (fl_design fb));
     Sem.s_crossings := map (crossing_sem_x fb) (combine (seq 0 (length (fl_crossings fb))) (fl_crossings fb));
     Sem.s_constraints := flat_map (csem_n fb) (fl_constraints fb) |}.

Definition cfrag_x (fb : flat) (c : fconstraint) : bool :=
  match c with FExclude f _ => f <? length (fl_design fb) | _ => cfrag_d fb c end.

Definition xfrag_x (fb : flat) (p : nat * list nat) : bool :=
  let fs := snd p in
  forallb (fun f => f <? length (fl_design fb)) fs
  && nodupb (all_combos (map (nlev fb) fs))
  && (list_sum (map snd (mult_x fb fs)) =? chunk_of fb (fst p) fs)
  && (1 <=? chunk_of fb (fst p) fs)
  && forallb (fun f => forallb (app_at fb f) (seq (crossing_preamble fb (fst p)) (fl_trials fb - crossing_preamble fb (fst p)))) fs.

(** [dfrag] with [Exclude] constraints on crossed factors *)
Definition efrag (fb : flat) : bool :=
  forallb (ffrag_d fb) (fl_design fb)
  && forallb (fun su => (1 <=? su) && (fl_trials fb mod su =? 0)) (fl_sustains fb)
  && (forallb (fun su => su =? 1) (fl_sustains fb) || existsb is_sustain (fl_constraints fb))
  && forallb (cfrag_x fb) (fl_constraints fb)
  && forallb (xfrag_x fb) (combine (seq 0 (length (fl_crossings fb))) (fl_crossings fb)).

Definition efrag_why (fb : flat) : list bool :=
  let xs := combine (seq 0 (length (fl_crossings fb))) (fl_crossings fb) in
  [ forallb (fun fd => negb (ff_hidden fd)) (fl_design fb);
    forallb (fun fd => 1 <=? length (ff_levels fd)) (fl_design fb);
    forallb (fun fd => match ff_window fd with None => true | Some w => forallb (dep_ok fb) (win_deps w) end) (fl_design fb);
    forallb (fun su => (1 <=? su) && (fl_trials fb mod su =? 0)) (fl_sustains fb);
    forallb (fun su => su =? 1) (fl_sustains fb) || existsb is_sustain (fl_constraints fb);
    forallb (fun c => match c with FLatin _ | FExactlyKMultiple _ _ _ _ | FOther _ => false | _ => true end)
            (fl_constraints fb);
    forallb (fun c => match c with
                      | FLatin _ | FExactlyKMultiple _ _ _ _ | FOther _ => true
                      | _ => cfrag_x fb c
                      end) (fl_constraints fb);
    forallb (fun p => (list_sum (map snd (mult_x fb (snd p))) =? chunk_of fb (fst p) (snd p))) xs;
    forallb (xfrag_x fb) xs ].
