(** The mismatch checker against the reference semantics on designs WITH derived
    factors (fragment [dfrag] of Check/DerivedFrag.v): [Factor.test_trial] /
    [_trial_arguments] compute the factor-correctness clause of [Sem.factor_ok]
    (each derived cell is a level whose table accepts the window cells; windows
    reach back over earlier trials, [BeforeStart] arguments before the first
    trial), [Sustain] with factors that do not apply everywhere, crossings that
    start after a preamble, and the assembly
    [dfrag fb -> (no_mismatch <-> valid_b (code_sem_d fb))]. *)
From Coq Require Import ZArith List Bool Arith Lia.
From SP Require Import Design.Flat Design.Layout Check.Mismatch Check.MismatchProofs Check.CrossingProofs
                       Check.FragmentProofs Check.NestProofs Check.DerivedFrag.
From SP Require Design.Sem.
Import ListNotations.

(** * The candidate domain *)

Definition wf_rows_d (fb : flat) (rows : list (list (option nat))) : Prop :=
  length rows = length (fl_design fb) /\
  forall f, f < length rows ->
    length (nth f rows []) = fl_trials fb /\
    forall t, t < fl_trials fb -> cell_okb fb f t (nth t (nth f rows []) None) = true.

Lemma in_combine_seq_nth : forall {A} (d : A) (xs : list A) a i,
  i < length xs -> In (a + i, nth i xs d) (combine (seq a (length xs)) xs).
Proof.
  induction xs as [|x xs IH]; intros a i Hi; simpl in *; [lia|].
  destruct i; [left; f_equal; lia|]. right. replace (a + S i) with (S a + i) by lia. apply IH. lia.
Qed.

Lemma wf_rowsb_d_wf : forall fb rows, wf_rowsb_d fb rows = true -> wf_rows_d fb rows.
Proof.
  intros fb rows H. unfold wf_rowsb_d in H. apply andb_prop in H. destruct H as [H1 H2].
  apply Nat.eqb_eq in H1. split; auto. intros f Hf.
  rewrite forallb_forall in H2. specialize (H2 _ (entry_in_rows rows f Hf)). simpl in H2.
  apply andb_prop in H2. destruct H2 as [H2 H3]. apply Nat.eqb_eq in H2. split; auto.
  intros t Ht. rewrite forallb_forall in H3.
  specialize (H3 (0 + t, nth t (nth f rows []) None)). simpl in H3. apply H3.
  apply (in_combine_seq_nth None (nth f rows []) 0 t). lia.
Qed.

(** * Facts about [dfrag]

    [dbase]: the part of [dfrag] about factors and sustain counts (shared with [efrag]) *)
Definition dbase (fb : flat) : bool :=
  forallb (ffrag_d fb) (fl_design fb)
  && forallb (fun su => (1 <=? su) && (fl_trials fb mod su =? 0)) (fl_sustains fb).

Lemma dfrag_dbase : forall fb, dfrag fb = true -> dbase fb = true.
Proof.
  intros fb H. unfold dfrag in H. rewrite !andb_true_iff in H. destruct H as [[[[H1 H2] _] _] _].
  unfold dbase. rewrite H1, H2. reflexivity.
Qed.

Lemma dbase_design : forall fb f fd, dbase fb = true -> nth_error (fl_design fb) f = Some fd ->
  ff_hidden fd = false /\ 1 <= length (ff_levels fd) /\
  forall w, ff_window fd = Some w -> forall d, In d (win_deps w) -> dep_ok fb d = true.
Proof.
  intros fb f fd H E. unfold dbase in H. apply andb_prop in H. destruct H as [H _].
  rewrite forallb_forall in H. specialize (H fd (nth_error_In _ _ E)).
  unfold ffrag_d in H. rewrite !andb_true_iff in H. destruct H as [[H1 H2] H3].
  apply negb_true_iff in H1. apply Nat.leb_le in H2. split; auto. split; auto.
  intros w Hw d Hd. rewrite Hw in H3. rewrite forallb_forall in H3. auto.
Qed.

Lemma dbase_su : forall fb f, dbase fb = true -> 1 <= su_of fb f /\ fl_trials fb mod su_of fb f = 0.
Proof.
  intros fb f H. unfold dbase in H. apply andb_prop in H. destruct H as [_ H].
  rewrite forallb_forall in H. unfold su_of, sustain_of.
  assert (G : forall l acc, (forall cs, In cs l -> 1 <= snd cs /\ fl_trials fb mod snd cs = 0) ->
            (1 <= acc /\ fl_trials fb mod acc = 0) ->
            let r := fold_left (fun acc cs => if existsb (Nat.eqb f) (fst cs) then snd cs else acc) l acc in
            1 <= r /\ fl_trials fb mod r = 0).
  { induction l as [|cs l IH]; intros acc Hl Ha; simpl; auto.
    apply IH; [intros; apply Hl; right; auto|].
    destruct (existsb (Nat.eqb f) (fst cs)); auto. apply Hl; left; auto. }
  apply G.
  - intros cs Hcs. destruct cs as [c n]. apply in_combine_r in Hcs. simpl.
    specialize (H n Hcs). apply andb_prop in H. destruct H as [H1 H2].
    apply Nat.leb_le in H1. apply Nat.eqb_eq in H2. auto.
  - split; [lia | apply Nat.mod_1_r].
Qed.

(** * Where a factor applies *)

Lemma applies_d : forall fb f fd t, nth_error (fl_design fb) f = Some fd ->
  Sem.applies (dfactor_of fb (f, fd)) t = app_at fb f t.
Proof.
  intros fb f fd t E. unfold Sem.applies, app_at, applies_to_trial, factor_at, dfactor_of, dwin_of.
  rewrite E. cbn [Sem.f_derived Sem.f_sustain fst snd]. destruct (ff_window fd) as [w|]; [|reflexivity].
  cbn [Sem.w_start Sem.w_stride].
  replace (win_start w + 1 <=? t / su_of fb f + 1) with (win_start w <=? t / su_of fb f).
  - replace (t / su_of fb f + 1 - (win_start w + 1)) with (t / su_of fb f - win_start w) by lia. reflexivity.
  - destruct (win_start w <=? t / su_of fb f) eqn:E1; symmetry.
    + apply Nat.leb_le in E1. apply Nat.leb_le. lia.
    + apply Nat.leb_gt in E1. apply Nat.leb_gt. lia.
Qed.

Lemma group_start_div : forall t su, 1 <= su -> (t / su * su) / su = t / su.
Proof. intros. apply Nat.div_mul. lia. Qed.

Lemma group_start_le : forall t su, 1 <= su -> t / su * su <= t.
Proof. intros. rewrite Nat.mul_comm. apply Nat.mul_div_le. lia. Qed.

Lemma app_at_group : forall fb f t, 1 <= su_of fb f -> app_at fb f (t / su_of fb f * su_of fb f) = app_at fb f t.
Proof. intros. unfold app_at. rewrite group_start_div by auto. reflexivity. Qed.

Lemma dep_ok_applies : forall fb d t, dep_ok fb d = true -> app_at fb d t = true.
Proof.
  intros fb d t H. unfold dep_ok in H. unfold app_at, applies_to_trial.
  destruct (factor_at fb d) as [fd|]; [|discriminate].
  destruct (ff_window fd) as [w|]; [|reflexivity].
  apply andb_prop in H. destruct H as [H1 H2]. apply Nat.eqb_eq in H1. apply Nat.eqb_eq in H2.
  rewrite H1, H2. apply andb_true_intro. split; [apply Nat.leb_le; lia | rewrite Nat.mod_1_r; reflexivity].
Qed.

Lemma dep_ok_lt : forall fb d, dep_ok fb d = true -> d < length (fl_design fb).
Proof.
  intros fb d H. unfold dep_ok, factor_at in H.
  destruct (nth_error (fl_design fb) d) eqn:E; [|discriminate]. apply nth_error_Some. congruence.
Qed.

Lemma dep_ok_ready : forall fb d, dep_ok fb d = true -> ready_at fb d = 0.
Proof.
  intros fb d H. unfold dep_ok in H. unfold ready_at.
  destruct (factor_at fb d) as [fd|]; [|reflexivity].
  destruct (ff_window fd) as [w|]; [|reflexivity].
  apply andb_prop in H. destruct H as [H1 _]. apply Nat.eqb_eq in H1. destruct (ff_complex fd); auto.
Qed.

Lemma cell_some : forall fb rows f t, wf_rows_d fb rows -> f < length (fl_design fb) -> t < fl_trials fb ->
  app_at fb f t = true -> exists l, nth t (nth f rows []) None = Some l /\ l < nlev fb f.
Proof.
  intros fb rows f t [Hlen Hrows] Hf Ht Ha.
  destruct (Hrows f ltac:(lia)) as [_ Hc]. specialize (Hc t Ht). unfold cell_okb in Hc.
  destruct (nth t (nth f rows []) None) as [l|].
  - exists l. split; auto. apply andb_prop in Hc. destruct Hc as [Hc _]. apply Nat.ltb_lt; auto.
  - rewrite Ha in Hc. discriminate.
Qed.

Lemma cell_none : forall fb rows f t, wf_rows_d fb rows -> f < length (fl_design fb) -> t < fl_trials fb ->
  app_at fb f t = false -> nth t (nth f rows []) None = None.
Proof.
  intros fb rows f t [Hlen Hrows] Hf Ht Ha.
  destruct (Hrows f ltac:(lia)) as [_ Hc]. specialize (Hc t Ht). unfold cell_okb in Hc.
  destruct (nth t (nth f rows []) None) as [l|]; auto.
  rewrite Ha in Hc. apply andb_prop in Hc. destruct Hc; discriminate.
Qed.

Lemma cell_app : forall fb rows f t l, wf_rows_d fb rows -> f < length (fl_design fb) -> t < fl_trials fb ->
  nth t (nth f rows []) None = Some l -> app_at fb f t = true /\ l < nlev fb f.
Proof.
  intros fb rows f t l [Hlen Hrows] Hf Ht Hc.
  destruct (Hrows f ltac:(lia)) as [_ Hk]. specialize (Hk t Ht). rewrite Hc in Hk. simpl in Hk.
  apply andb_prop in Hk. destruct Hk as [H1 H2]. apply Nat.ltb_lt in H1. auto.
Qed.

(** * The argument tuple of a derived level: [_trial_arguments] is the reference window *)

Definition parg_of_sem (c : option nat) : parg := match c with Some l => PName l | None => PNone end.

Lemma parg_matches_sem : forall c e, parg_matches (parg_of_sem c) e = Sem.cell_eqb c e.
Proof. intros [x|] [y|]; reflexivity. Qed.

Lemma col_matches_sem : forall col e, list_all2 parg_matches (map parg_of_sem col) e = Sem.list_eqb Sem.cell_eqb col e.
Proof.
  induction col as [|c col IH]; destruct e as [|x e]; simpl; auto.
  rewrite parg_matches_sem, IH. reflexivity.
Qed.

Lemma args_matches_sem : forall args e,
  list_all2 (list_all2 parg_matches) (map (map parg_of_sem) args) e = Sem.args_eqb args e.
Proof.
  unfold Sem.args_eqb. induction args as [|c args IH]; destruct e as [|x e]; simpl; auto.
  rewrite col_matches_sem, IH. reflexivity.
Qed.

Lemma existsb_ext_all : forall {A} (p q : A -> bool) xs, (forall x, p x = q x) -> existsb p xs = existsb q xs.
Proof. induction xs as [|x xs IH]; intros H; simpl; auto. rewrite H, IH; auto. Qed.

Lemma accepts_args_sem : forall fd w l lv args,
  dwin_of fd = Some w -> nth_error (ff_levels fd) l = Some lv ->
  accepts_args lv (map (map parg_of_sem) args) = Sem.accepts w l args.
Proof.
  intros fd w l lv args Hw Hl. unfold dwin_of in Hw. destruct (ff_window fd) as [w0|]; [|discriminate].
  injection Hw as <-. unfold accepts_args, Sem.accepts. cbn [Sem.w_table].
  assert (E : nth l (map lv_accepts (ff_levels fd)) [] = lv_accepts lv).
  { apply nth_error_nth. apply map_nth_error. auto. }
  rewrite E. apply existsb_ext_all. intros e. apply args_matches_sem.
Qed.

Lemma combine_map_r : forall {A B} (g : A -> B) xs, combine xs (map g xs) = map (fun x => (x, g x)) xs.
Proof. induction xs as [|x xs IH]; simpl; auto. rewrite IH. reflexivity. Qed.

Section Window.
Variable fb : flat.
Variable rows : list (list (option nat)).
Hypothesis Hfr : dbase fb = true.
Hypothesis Hwf : wf_rows_d fb rows.
Variable f : nat.
Variable fd : ffactor.
Hypothesis Efd : nth_error (fl_design fb) f = Some fd.
Variable w : fwindow.
Hypothesis Ew : ff_window fd = Some w.
Variable q : nat.
Let su := su_of fb f.
Let i := q * su.
Hypothesis Hi : i < fl_trials fb.
Hypothesis Happ : app_at fb f i = true.

Let dw : Sem.dwindow :=
  {| Sem.w_deps := win_deps w; Sem.w_width := win_width w; Sem.w_stride := win_stride w;
     Sem.w_start := win_start w; Sem.w_table := map lv_accepts (ff_levels fd) |}.

Lemma su_pos : 1 <= su.
Proof. apply (dbase_su fb f Hfr). Qed.

Lemma i_group : i / su * su = i.
Proof. unfold i. rewrite Nat.div_mul by (pose proof su_pos; lia). reflexivity. Qed.

Lemma start_le_q : win_start w <= q.
Proof.
  pose proof su_pos as Hsu. unfold app_at, applies_to_trial, factor_at in Happ. rewrite Efd, Ew in Happ.
  apply andb_prop in Happ. destruct Happ as [H1 _]. apply Nat.leb_le in H1.
  fold su in H1. unfold i in H1. rewrite Nat.div_mul in H1 by lia. lia.
Qed.

Definition wcell (d j : nat) : option nat :=
  let back := (win_width w - 1 - j) * su in
  if back <=? i then Sem.get_cell rows d (i - back) else None.

Lemma window_args_eq :
  Sem.window_args rows (dfactor_of fb (f, fd)) dw i = map (fun d => map (wcell d) (seq 0 (win_width w))) (win_deps w).
Proof.
  unfold Sem.window_args, dfactor_of. cbn [Sem.f_sustain fst snd Sem.w_deps Sem.w_width dw].
  fold su. rewrite i_group. reflexivity.
Qed.

Lemma dep_cell : forall d t, In d (win_deps w) -> t < fl_trials fb ->
  exists l, Sem.get_cell rows d t = Some l /\ l < nlev fb d.
Proof.
  intros d t Hd Ht. destruct (dbase_design fb f fd Hfr Efd) as [_ [_ Hdeps]].
  pose proof (Hdeps w Ew d Hd) as Hok.
  apply (cell_some fb rows d t Hwf (dep_ok_lt fb d Hok) Ht (dep_ok_applies fb d t Hok)).
Qed.

Lemma trial_arguments_d :
  trial_arguments (cand_of_rows rows) w i su
  = Ok (map (map parg_of_sem) (Sem.window_args rows (dfactor_of fb (f, fd)) dw i)).
Proof.
  rewrite window_args_eq, map_map. unfold trial_arguments. apply map_res_ok. intros d Hd.
  destruct (dbase_design fb f fd Hfr Efd) as [_ [_ Hdeps]].
  pose proof (Hdeps w Ew d Hd) as Hok. pose proof (dep_ok_lt fb d Hok) as Hdlt.
  destruct Hwf as [Hlen Hrows].
  rewrite row_of_rows by lia. cbn [bind]. rewrite map_map.
  rewrite (map_res_ok _ (fun j => parg_of_sem (wcell d j))); [reflexivity|].
  intros j Hj. apply in_seq in Hj. unfold wcell.
  set (back := (win_width w - 1 - j) * su).
  assert (Hidx : (Z.of_nat i + (Z.of_nat j - (Z.of_nat (win_width w) - 1)) * Z.of_nat su
                  = Z.of_nat i - Z.of_nat back)%Z).
  { unfold back. rewrite Nat2Z.inj_mul, !Nat2Z.inj_sub by lia. simpl. lia. }
  rewrite Hidx. destruct (back <=? i) eqn:Eb.
  - apply Nat.leb_le in Eb.
    assert (E0 : (0 <=? Z.of_nat i - Z.of_nat back)%Z = true) by (apply Z.leb_le; lia).
    rewrite E0. replace (Z.to_nat (Z.of_nat i - Z.of_nat back)) with (i - back) by lia.
    rewrite get_nth by (rewrite (proj1 (Hrows d ltac:(lia))); lia). cbn [bind].
    destruct (dep_cell d (i - back) Hd ltac:(lia)) as [l [El _]].
    unfold Sem.get_cell in *. unfold Sem.cell in *. rewrite El. reflexivity.
  - apply Nat.leb_gt in Eb.
    assert (E0 : (0 <=? Z.of_nat i - Z.of_nat back)%Z = false) by (apply Z.leb_gt; lia).
    rewrite E0. reflexivity.
Qed.

Lemma args_in_domain_d :
  args_in_domain fb w (map (map parg_of_sem) (Sem.window_args rows (dfactor_of fb (f, fd)) dw i)) = true.
Proof.
  rewrite window_args_eq, map_map. unfold args_in_domain.
  rewrite combine_map_r, forallb_map. apply forallb_forall. intros d Hd. cbn [fst snd].
  rewrite !map_length, seq_length. rewrite map_map, combine_map_r, forallb_map.
  apply forallb_forall. intros j Hj. apply in_seq in Hj. cbn [fst snd].
  destruct (dbase_design fb f fd Hfr Efd) as [_ [_ Hdeps]].
  pose proof (Hdeps w Ew d Hd) as Hok.
  unfold wcell. set (back := (win_width w - 1 - j) * su).
  destruct (back <=? i) eqn:Eb.
  - apply Nat.leb_le in Eb. destruct (dep_cell d (i - back) Hd ltac:(lia)) as [l [El Hl]].
    rewrite El. simpl. apply Nat.ltb_lt. auto.
  - apply Nat.leb_gt in Eb. simpl. rewrite (dep_ok_ready fb d Hok).
    pose proof start_le_q as Hs. pose proof su_pos as Hsu.
    assert (q < win_width w - 1 - j).
    { unfold back, i in Eb. nia. }
    apply Z.ltb_lt. lia.
Qed.

End Window.

(** the check of one group start of a factor: a level whose table accepts the window cells *)
Definition gs_cell (fb : flat) (rows : list (list (option nat))) (f : nat) (fd : ffactor) (i : nat) : bool :=
  match nth i (nth f rows []) None with
  | None => true
  | Some l =>
    match dwin_of fd with
    | None => true
    | Some w => Sem.accepts w l (Sem.window_args rows (dfactor_of fb (f, fd)) w i)
    end
  end.

Definition gs_ok (fb : flat) (rows : list (list (option nat))) (f : nat) (fd : ffactor) : bool :=
  forallb (gs_cell fb rows f fd) (range_step (fl_trials fb) (su_of fb f)).

Lemma test_trial_d : forall fb rows f fd q,
  dbase fb = true -> wf_rows_d fb rows -> nth_error (fl_design fb) f = Some fd ->
  q * su_of fb f < fl_trials fb ->
  test_trial fb (cand_of_rows rows) f fd (q * su_of fb f) (su_of fb f) = Ok (gs_cell fb rows f fd (q * su_of fb f)).
Proof.
  intros fb rows f fd q Hfr Hwf E Hi. unfold test_trial, gs_cell.
  assert (Hf : f < length (fl_design fb)) by (apply nth_error_Some; congruence).
  destruct (ff_window fd) as [w|] eqn:Ew.
  - pose proof Hwf as [Hlen Hrows]. rewrite row_of_rows by lia. cbn [bind].
    rewrite get_nth by (rewrite (proj1 (Hrows f ltac:(lia))); lia). cbn [bind].
    destruct (nth (q * su_of fb f) (nth f rows []) None) as [l|] eqn:Ec; [|reflexivity].
    destruct (cell_app fb rows f _ l Hwf Hf Hi Ec) as [Happ Hl].
    rewrite (nlev_nth fb f fd E) in Hl.
    destruct (nth_error (ff_levels fd) l) as [lv|] eqn:El; [|apply nth_error_None in El; lia].
    assert (Edw : dwin_of fd = Some {| Sem.w_deps := win_deps w; Sem.w_width := win_width w; Sem.w_stride := win_stride w;
                                       Sem.w_start := win_start w; Sem.w_table := map lv_accepts (ff_levels fd) |}).
    { unfold dwin_of. rewrite Ew. reflexivity. }
    rewrite Edw.
    rewrite (trial_arguments_d fb rows Hfr Hwf f fd E w Ew q Hi). cbn [bind].
    rewrite (args_in_domain_d fb rows Hfr Hwf f fd E w Ew q Hi Happ).
    rewrite (accepts_args_sem fd _ l lv _ Edw El). reflexivity.
  - unfold dwin_of. rewrite Ew. destruct (nth (q * su_of fb f) (nth f rows []) None); reflexivity.
Qed.

Lemma factor_test_d : forall fb rows f fd,
  dbase fb = true -> wf_rows_d fb rows -> nth_error (fl_design fb) f = Some fd ->
  factor_test fb (cand_of_rows rows) f fd = Ok (gs_ok fb rows f fd).
Proof.
  intros fb rows f fd Hfr Hwf E. unfold factor_test, gs_ok.
  assert (Hf : f < length (fl_design fb)) by (apply nth_error_Some; congruence).
  pose proof Hwf as [Hlen Hrows]. rewrite row_of_rows by lia. cbn [bind].
  destruct (dbase_su fb f Hfr) as [Hsu _].
  assert (E0 : su_of fb f =? 0 = false) by (apply Nat.eqb_neq; lia). rewrite E0.
  rewrite (proj1 (Hrows f ltac:(lia))).
  rewrite (map_res_ok _ (gs_cell fb rows f fd)).
  - cbn [bind]. rewrite forallb_id_map. reflexivity.
  - intros i Hi. unfold range_step in Hi. apply in_map_iff in Hi. destruct Hi as [q [<- Hq]]. apply in_seq in Hq.
    apply test_trial_d; auto. apply ceil_steps_lt; lia.
Qed.

Lemma mismatch_factors_d : forall fb rows, dbase fb = true -> wf_rows_d fb rows ->
  mismatch_factors fb (cand_of_rows rows)
  = Ok (flagged (map (fun p => gs_ok fb rows (fst p) (snd p)) (combine (seq 0 (length (fl_design fb))) (fl_design fb)))).
Proof.
  intros fb rows Hfr Hwf. unfold mismatch_factors.
  rewrite (map_res_ok _ (fun p => gs_ok fb rows (fst p) (snd p))); [reflexivity|].
  intros p Hp. destruct (in_combine_seq _ _ _ Hp) as [f [Hf [Hfst Hnth]]]. simpl in Hfst.
  destruct (dbase_design fb f (snd p) Hfr Hnth) as [Hh _]. rewrite Hh, Hfst.
  apply factor_test_d; auto.
Qed.

(** * The factor clause of the reference semantics *)

Lemma window_args_group : forall s fd w t, 1 <= Sem.f_sustain fd ->
  Sem.window_args s fd w (t / Sem.f_sustain fd * Sem.f_sustain fd) = Sem.window_args s fd w t.
Proof. intros. unfold Sem.window_args. cbv zeta. rewrite group_start_div by auto. reflexivity. Qed.

Lemma code_sem_d_factor : forall fb f fd, nth_error (fl_design fb) f = Some fd ->
  nth_error (Sem.s_factors (code_sem_d fb)) f = Some (dfactor_of fb (f, fd)).
Proof. intros. simpl. rewrite nth_error_map, nth_error_combine_seq, H. reflexivity. Qed.

Lemma cell_none_app : forall fb rows f t, wf_rows_d fb rows -> f < length (fl_design fb) -> t < fl_trials fb ->
  nth t (nth f rows []) None = None -> app_at fb f t = false.
Proof.
  intros fb rows f t [Hlen Hrows] Hf Ht Hc.
  destruct (Hrows f ltac:(lia)) as [_ Hk]. specialize (Hk t Ht). rewrite Hc in Hk. simpl in Hk.
  apply negb_true_iff in Hk. auto.
Qed.

Definition V4f (fb : flat) (rows : list (list (option nat))) (f : nat) : Prop :=
  forall t, t < fl_trials fb ->
    nth (t / su_of fb f * su_of fb f) (nth f rows []) None = nth t (nth f rows []) None.

Lemma range_step_in : forall T su t, 1 <= su -> t < T -> In (t / su * su) (range_step T su).
Proof.
  intros T su t Hsu Ht. unfold range_step. apply in_map_iff. exists (t / su). split; auto.
  apply in_seq. split; [lia|]. simpl. apply ceil_steps_in; lia.
Qed.

Lemma range_step_lt : forall T su i, 1 <= su -> In i (range_step T su) -> exists q, i = q * su /\ i < T.
Proof.
  intros T su i Hsu Hi. unfold range_step in Hi. apply in_map_iff in Hi. destruct Hi as [q [<- Hq]].
  apply in_seq in Hq. exists q. split; auto. apply ceil_steps_lt; lia.
Qed.

Lemma factor_ok_d : forall fb rows f fd,
  dbase fb = true -> wf_rows_d fb rows -> nth_error (fl_design fb) f = Some fd ->
  (Sem.factor_ok (code_sem_d fb) rows f (dfactor_of fb (f, fd)) = true
   <-> V4f fb rows f /\ gs_ok fb rows f fd = true).
Proof.
  intros fb rows f fd Hfr Hwf E.
  assert (Hf : f < length (fl_design fb)) by (apply nth_error_Some; congruence).
  pose proof Hwf as [Hlen Hrows]. destruct (Hrows f ltac:(lia)) as [HT _].
  destruct (dbase_su fb f Hfr) as [Hsu _].
  unfold Sem.factor_ok. cbn [Sem.s_trials code_sem_d]. unfold Sem.cell in *.
  rewrite HT, Nat.eqb_refl, andb_true_l. rewrite forallb_forall. unfold Sem.get_cell.
  cbn [Sem.f_sustain Sem.f_nlevels Sem.f_derived dfactor_of fst snd]. unfold Sem.cell in *.
  split.
  - intros H. split.
    + intros t Ht. specialize (H t ltac:(apply in_seq; lia)).
      destruct (nth t (nth f rows []) None) as [l|] eqn:Ec.
      * rewrite !andb_true_iff in H. destruct H as [[[_ _] H] _].
        destruct (nth (t / su_of fb f * su_of fb f) (nth f rows []) None) as [x|]; simpl in H; [|discriminate].
        apply Nat.eqb_eq in H. congruence.
      * apply (cell_none fb rows f _ Hwf Hf).
        -- pose proof (group_start_le t (su_of fb f) Hsu). lia.
        -- rewrite app_at_group by auto. apply (cell_none_app fb rows f t Hwf Hf Ht Ec).
    + unfold gs_ok. apply forallb_forall. intros i Hi.
      destruct (range_step_lt _ _ _ Hsu Hi) as [q [Eq Hlt]].
      specialize (H i ltac:(apply in_seq; lia)). unfold gs_cell.
      destruct (nth i (nth f rows []) None) as [l|]; auto.
      rewrite !andb_true_iff in H. destruct H as [_ H]. exact H.
  - intros [HV HG] t Ht. apply in_seq in Ht.
    destruct (nth t (nth f rows []) None) as [l|] eqn:Ec.
    + destruct (cell_app fb rows f t l Hwf Hf ltac:(lia) Ec) as [Happ Hl].
      rewrite (applies_d fb f fd t E), Happ. rewrite (nlev_nth fb f fd E) in Hl.
      apply Nat.ltb_lt in Hl. rewrite Hl. rewrite (HV t ltac:(lia)), Ec. simpl. rewrite Nat.eqb_refl. simpl.
      destruct (dwin_of fd) as [w|] eqn:Edw; auto.
      pose proof (window_args_group rows (dfactor_of fb (f, fd)) w t) as Hg.
      cbn [Sem.f_sustain dfactor_of fst] in Hg. rewrite <- Hg by auto.
      unfold gs_ok in HG. rewrite forallb_forall in HG.
      specialize (HG _ (range_step_in (fl_trials fb) (su_of fb f) t Hsu ltac:(lia))).
      unfold gs_cell in HG. rewrite (HV t ltac:(lia)), Ec, Edw in HG. exact HG.
    + rewrite (applies_d fb f fd t E). rewrite (cell_none_app fb rows f t Hwf Hf ltac:(lia) Ec). reflexivity.
Qed.

Definition gs_list (fb : flat) (rows : list (list (option nat))) : list bool :=
  map (fun p => gs_ok fb rows (fst p) (snd p)) (combine (seq 0 (length (fl_design fb))) (fl_design fb)).

Lemma design_entry_in : forall fb f fd, nth_error (fl_design fb) f = Some fd ->
  In (f, fd) (combine (seq 0 (length (fl_design fb))) (fl_design fb)).
Proof.
  intros fb f fd E. pose proof (nth_error_combine_seq (fl_design fb) 0 f) as Hc.
  rewrite E in Hc. simpl in Hc. apply nth_error_In in Hc. exact Hc.
Qed.

Lemma factors_sem_d : forall fb rows, dbase fb = true -> wf_rows_d fb rows ->
  (forallb (fun p => Sem.factor_ok (code_sem_d fb) rows (fst p) (snd p))
           (Sem.index_list (Sem.s_factors (code_sem_d fb))) = true
   <-> V4 fb rows /\ forallb (fun b => b) (gs_list fb rows) = true).
Proof.
  intros fb rows Hfr Hwf. pose proof Hwf as [Hlen Hrows]. rewrite forallb_forall.
  unfold gs_list. rewrite forallb_id_map. split.
  - intros H.
    assert (G : forall f fd, nth_error (fl_design fb) f = Some fd ->
                Sem.factor_ok (code_sem_d fb) rows f (dfactor_of fb (f, fd)) = true).
    { intros f fd E. apply (H (f, dfactor_of fb (f, fd))). unfold Sem.index_list.
      pose proof (code_sem_d_factor fb f fd E) as Hn.
      pose proof (nth_error_combine_seq (Sem.s_factors (code_sem_d fb)) 0 f) as Hc.
      rewrite Hn in Hc. simpl in Hc. apply nth_error_In in Hc. exact Hc. }
    split.
    + intros f Hf t Ht.
      destruct (nth_error (fl_design fb) f) as [fd|] eqn:E; [|apply nth_error_None in E; lia].
      apply (proj1 (proj1 (factor_ok_d fb rows f fd Hfr Hwf E) (G f fd E))); auto.
    + apply forallb_forall. intros p Hp.
      destruct (in_combine_seq _ _ _ Hp) as [f [Hf [Hfst Hnth]]]. simpl in Hfst. rewrite Hfst.
      apply (proj1 (factor_ok_d fb rows f (snd p) Hfr Hwf Hnth)).
      specialize (G f (snd p) Hnth). exact G.
  - intros [HV HG] p Hp. unfold Sem.index_list in Hp.
    destruct (in_combine_seq _ _ _ Hp) as [f [Hf [Hfst Hnth]]]. simpl in Hfst.
    simpl in Hf. rewrite map_length, combine_length, seq_length, Nat.min_id in Hf.
    destruct (nth_error (fl_design fb) f) as [fd|] eqn:E; [|apply nth_error_None in E; lia].
    rewrite (code_sem_d_factor fb f fd E) in Hnth. injection Hnth as Hsnd.
    rewrite Hfst, <- Hsnd. apply (factor_ok_d fb rows f fd Hfr Hwf E). split.
    + intros t Ht. apply HV; auto. rewrite Hlen. lia.
    + rewrite forallb_forall in HG. apply (HG (f, fd)). apply design_entry_in; auto.
Qed.

(** * Sustain with factors that do not apply in every trial *)

Definition sustain_row_ok_d (fb : flat) (f : nat) (row : list (option nat)) : bool :=
  forallb (fun i => if applies_to_trial fb f (i / su_of fb f + 1)
                    then forallb (fun j => cell_same (nth (i + j) row None) (nth i row None)) (seq 1 (su_of fb f - 1))
                    else true)
          (range_step (fl_trials fb) (su_of fb f)).

Lemma sustain_model_d : forall fb rows, dbase fb = true -> wf_rows_d fb rows ->
  sustain_conforms fb (cand_of_rows rows)
  = Ok (forallb (fun f => sustain_row_ok_d fb f (nth f rows [])) (seq 0 (length (fl_design fb)))).
Proof.
  intros fb rows Hfr [Hlen Hrows]. unfold sustain_conforms.
  apply all_res_ok. intros f Hf. apply in_seq in Hf.
  destruct (dbase_su fb f Hfr) as [Hsu Hmod].
  destruct (Hrows f ltac:(lia)) as [HT _].
  destruct (su_of fb f <=? 1) eqn:E1.
  - apply Nat.leb_le in E1. assert (E : su_of fb f = 1) by lia.
    unfold sustain_row_ok_d. rewrite E. replace (1 - 1) with 0 by lia. cbn [seq forallb].
    f_equal. symmetry. apply forallb_forall.
    intros i _. destruct (applies_to_trial fb f (i / 1 + 1)); reflexivity.
  - apply Nat.leb_gt in E1. rewrite row_of_rows by lia. simpl. rewrite HT.
    unfold sustain_row_ok_d. apply all_res_ok. intros i Hi.
    unfold range_step in Hi. apply in_map_iff in Hi. destruct Hi as [q [<- Hq]]. apply in_seq in Hq.
    destruct (applies_to_trial fb f (q * su_of fb f / su_of fb f + 1)); [|reflexivity].
    assert (Hb0 : q * su_of fb f + 0 < fl_trials fb) by (apply group_bound; lia).
    rewrite get_nth by lia. simpl.
    apply all_res_ok. intros j Hj. apply in_seq in Hj.
    assert (Hb : q * su_of fb f + j < fl_trials fb) by (apply group_bound; lia).
    rewrite get_nth by lia. reflexivity.
Qed.

Lemma sustain_model_V4_d : forall fb rows, dbase fb = true -> wf_rows_d fb rows ->
  (forallb (fun f => sustain_row_ok_d fb f (nth f rows [])) (seq 0 (length (fl_design fb))) = true <-> V4 fb rows).
Proof.
  intros fb rows Hfr Hwf. pose proof Hwf as [Hlen Hrows]. rewrite forallb_forall. unfold V4. split.
  - intros H f Hf t Ht. destruct (dbase_su fb f Hfr) as [Hsu Hmod].
    specialize (H f ltac:(apply in_seq; lia)). unfold sustain_row_ok_d in H. rewrite forallb_forall in H.
    set (su := su_of fb f) in *. set (q := t / su). set (j := t mod su).
    assert (Et : t = q * su + j) by (unfold q, j; rewrite Nat.mul_comm; apply Nat.div_mod; lia).
    assert (Hj : j < su) by (unfold j; apply Nat.mod_upper_bound; lia).
    destruct (Nat.eq_dec j 0) as [E0|Hn0]; [f_equal; lia|].
    specialize (H (q * su) (range_step_in (fl_trials fb) su t Hsu Ht)).
    assert (Hqt : q * su <= t) by (apply group_start_le; auto).
    destruct (applies_to_trial fb f (q * su / su + 1)) eqn:Ea.
    + rewrite forallb_forall in H. specialize (H j ltac:(apply in_seq; lia)). rewrite <- Et in H.
      unfold cell_same in H. destruct (nth t (nth f rows []) None) as [x|]; [|discriminate].
      destruct (nth (q * su) (nth f rows []) None) as [y|]; [|discriminate].
      apply Nat.eqb_eq in H. congruence.
    + assert (Ha : app_at fb f (q * su) = false) by exact Ea.
      rewrite (cell_none fb rows f (q * su) Hwf ltac:(lia) ltac:(lia) Ha).
      symmetry. apply (cell_none fb rows f t Hwf ltac:(lia) Ht).
      rewrite <- (app_at_group fb f t Hsu). exact Ha.
  - intros H f Hf. apply in_seq in Hf. destruct (dbase_su fb f Hfr) as [Hsu Hmod].
    unfold sustain_row_ok_d. apply forallb_forall. intros i Hi.
    unfold range_step in Hi. apply in_map_iff in Hi. destruct Hi as [q [<- Hq]]. apply in_seq in Hq.
    destruct (applies_to_trial fb f (q * su_of fb f / su_of fb f + 1)) eqn:Ea; [|reflexivity].
    apply forallb_forall. intros j Hj. apply in_seq in Hj.
    assert (Hb : q * su_of fb f + j < fl_trials fb) by (apply group_bound; lia).
    assert (Hb0 : q * su_of fb f + 0 < fl_trials fb) by (apply group_bound; lia).
    specialize (H f ltac:(lia) (q * su_of fb f + j) Hb). rewrite div_group in H by lia. rewrite <- H.
    destruct (cell_some fb rows f (q * su_of fb f) Hwf ltac:(lia) ltac:(lia) Ea) as [l [El _]].
    rewrite El. simpl. apply Nat.eqb_refl.
Qed.

Lemma sustain_conforms_V4_d : forall fb rows, dbase fb = true -> wf_rows_d fb rows ->
  exists b, sustain_conforms fb (cand_of_rows rows) = Ok b /\ (b = true <-> V4 fb rows).
Proof.
  intros fb rows H1 H2. eexists. split; [apply sustain_model_d; auto | apply sustain_model_V4_d; auto].
Qed.

(** * Constraints *)

Lemma sequential_total_d : forall fb rows f first, wf_rows_d fb rows -> f < length rows ->
  factor_preamble fb f = Ok first -> 1 <= su_of fb f -> 1 <= nlev fb f ->
  exists b, sequential_conforms fb (cand_of_rows rows) f = Ok b.
Proof.
  intros fb rows f first [Hlen Hrows] Hf Hpre Hsu Hn.
  unfold sequential_conforms. rewrite Hpre. simpl. unfold while_steps, T.
  destruct (fl_trials fb <=? first) eqn:ET.
  - simpl. eexists; reflexivity.
  - apply Nat.leb_gt in ET.
    assert (su_of fb f =? 0 = false) by (apply Nat.eqb_neq; lia). rewrite H. simpl.
    eexists. apply (all_res_ok _ (fun i => cell_is (((i - first) / su_of fb f) mod nlev fb f) (nth i (nth f rows []) None))).
    intros i Hi. apply in_map_iff in Hi. destruct Hi as [q [<- Hq]]. apply in_seq in Hq.
    assert (q * su_of fb f < fl_trials fb - first) by (apply ceil_steps_lt; lia).
    assert (nlev fb f =? 0 = false) by (apply Nat.eqb_neq; lia). rewrite H1.
    rewrite row_of_rows by auto. simpl. rewrite get_nth by (rewrite (proj1 (Hrows f Hf)); lia). simpl. reflexivity.
Qed.

Lemma constraint_d : forall fb rows c,
  dbase fb = true -> wf_rows_d fb rows -> cfrag_d fb c = true ->
  exists b, constraint_conforms fb (cand_of_rows rows) c = Ok b /\
            (is_sustain c = true -> (b = true <-> V4 fb rows)) /\
            (V4 fb rows -> b = forallb (Sem.constraint_ok (code_sem_d fb) rows) (csem_n fb c)).
Proof.
  intros fb rows c Hfr Hwf Hc. pose proof Hwf as [Hlen Hrows].
  assert (Hrow : forall f, f <? length (fl_design fb) = true ->
            row_of (cand_of_rows rows) f = Ok (nth f rows []) /\ length (nth f rows []) = fl_trials fb).
  { intros f Hf. apply Nat.ltb_lt in Hf. split; [apply row_of_rows; lia | apply Hrows; lia]. }
  assert (Htriv : exists b, Ok true = Ok b /\ (false = true -> (b = true <-> V4 fb rows)) /\
                            (V4 fb rows -> b = forallb (Sem.constraint_ok (code_sem_d fb) rows) [])).
  { exists true. split; auto. split; [discriminate|auto]. }
  destruct c; simpl in Hc; try discriminate; try exact Htriv.
  - (* Sustain *)
    simpl. rewrite (sustain_model_d fb rows Hfr Hwf). eexists. split; [reflexivity|]. split.
    + intros _. apply sustain_model_V4_d; auto.
    + intros HV. simpl. apply sustain_model_V4_d; auto.
  - apply andb_prop in Hc. destruct Hc as [Hf Hr]. destruct (Hrow f Hf) as [R L].
    unfold ranges_ok in Hr. simpl. unfold rng.
    destruct (map_block_trial_ranges fb wb) as [ranges|] eqn:ER; [|discriminate].
    rewrite (kinarow_conforms_sem fb _ RAtMost k f l wb _ ranges (Sem.KAtMost k) (code_sem_d fb) rows f R L ER eq_refl eq_refl).
    eexists. split; [reflexivity|]. split; [discriminate|]. intros _. simpl. rewrite andb_true_r. reflexivity.
  - apply andb_prop in Hc. destruct Hc as [Hf Hr]. destruct (Hrow f Hf) as [R L].
    unfold ranges_ok in Hr. simpl. unfold rng.
    destruct (map_block_trial_ranges fb wb) as [ranges|] eqn:ER; [|discriminate].
    rewrite (kinarow_conforms_sem fb _ RAtLeast k f l wb _ ranges (Sem.KAtLeast k) (code_sem_d fb) rows f R L ER eq_refl eq_refl).
    eexists. split; [reflexivity|]. split; [discriminate|]. intros _. simpl. rewrite andb_true_r. reflexivity.
  - apply andb_prop in Hc. destruct Hc as [Hf Hr]. destruct (Hrow f Hf) as [R L].
    unfold ranges_ok in Hr. simpl. unfold rng.
    destruct (map_block_trial_ranges fb wb) as [ranges|] eqn:ER; [|discriminate].
    rewrite (kinarow_conforms_sem fb _ RExactlyK k f l wb _ ranges (Sem.KExactlyK k) (code_sem_d fb) rows f R L ER eq_refl eq_refl).
    eexists. split; [reflexivity|]. split; [discriminate|]. intros _. simpl. rewrite andb_true_r. reflexivity.
  - apply andb_prop in Hc. destruct Hc as [Hf Hr]. destruct (Hrow f Hf) as [R L].
    unfold ranges_ok in Hr. simpl. unfold rng.
    destruct (map_block_trial_ranges fb wb) as [ranges|] eqn:ER; [|discriminate].
    rewrite (kinarow_conforms_sem fb _ RExactlyRow k f l wb _ ranges (Sem.KExactlyInARow k) (code_sem_d fb) rows f R L ER eq_refl eq_refl).
    eexists. split; [reflexivity|]. split; [discriminate|]. intros _. simpl. rewrite andb_true_r. reflexivity.
  - (* Exclude *)
    apply andb_prop in Hc. destruct Hc as [Hf _]. destruct (Hrow f Hf) as [R L].
    simpl. rewrite (exclude_conforms_sem _ f l _ (code_sem_d fb) rows f [] R eq_refl).
    eexists. split; [reflexivity|]. split; [discriminate|]. intros _. simpl. rewrite andb_true_r. reflexivity.
  - (* Pin *)
    rewrite !andb_true_iff in Hc. destruct Hc as [[[Hf Hr] Hg] Htn].
    destruct (Hrow f Hf) as [R L].
    assert (Hg' : 1 <= geometry_sustain fb wb f) by (destruct (geometry_sustain fb wb f); [discriminate|lia]).
    clear Hg. rename Hg' into Hg.
    unfold ranges_ok in Hr. simpl. unfold rng.
    destruct (map_block_trial_ranges fb wb) as [ranges|] eqn:ER; [|discriminate].
    destruct (get_trial_numbers fb f index wb) as [tn|] eqn:ETN; [|discriminate].
    rewrite (pin_conforms_sem fb _ index f l wb _ ranges (geometry_sustain fb wb f) tn
                              (code_sem_d fb) rows f R ER eq_refl Hg ETN).
    + eexists. split; [reflexivity|]. split; [discriminate|]. intros _. simpl. rewrite andb_true_r. reflexivity.
    + intros t Ht. rewrite forallb_forall in Htn. specialize (Htn t Ht). apply Nat.ltb_lt in Htn. lia.
    + reflexivity.
  - (* Sequential *)
    apply andb_prop in Hc. destruct Hc as [Hf Hp]. destruct (Hrow f Hf) as [R L].
    destruct (factor_preamble fb f) as [first|] eqn:EP; [|discriminate].
    apply Nat.eqb_eq in Hp. apply Nat.ltb_lt in Hf.
    destruct (nth_error (fl_design fb) f) as [fd|] eqn:E; [|apply nth_error_None in E; lia].
    destruct (dbase_design fb f fd Hfr E) as [_ [Hnl _]].
    destruct (dbase_su fb f Hfr) as [Hsu Hmod].
    destruct (sequential_total_d fb rows f first Hwf ltac:(lia) EP Hsu) as [b Hb].
    { rewrite (nlev_nth fb f fd E). auto. }
    simpl. rewrite Hb. exists b. split; auto. split; [discriminate|].
    intros HV. simpl. rewrite EP.
    rewrite (sequential_conforms_sem fb _ f _ first (su_of fb f) (length (ff_levels fd)) (code_sem_d fb) rows f
               (dfactor_of fb (f, fd)) 0 [] R L EP)
      in Hb.
    + injection Hb as <-. rewrite andb_true_r. reflexivity.
    + reflexivity.
    + auto.
    + apply nlev_nth; auto.
    + auto.
    + intros t Ht. rewrite seq_groups by lia. symmetry. apply HV; lia.
    + reflexivity.
    + reflexivity.
    + apply code_sem_d_factor; auto.
    + reflexivity.
Qed.

(** * Crossings that start after a preamble *)

Lemma dfrag_no_hidden : forall fb, dfrag fb = true -> no_hidden fb.
Proof. intros fb H f fd E. apply (dbase_design fb f fd (dfrag_dbase fb H) E). Qed.

Lemma dfrag_cfrag : forall fb c, dfrag fb = true -> In c (fl_constraints fb) -> cfrag_d fb c = true.
Proof.
  intros fb c H Hin. unfold dfrag in H. rewrite !andb_true_iff in H. destruct H as [[_ H] _].
  rewrite forallb_forall in H. auto.
Qed.

Lemma dfrag_xfrag : forall fb p, dfrag fb = true ->
  In p (combine (seq 0 (length (fl_crossings fb))) (fl_crossings fb)) -> xfrag_d fb p = true.
Proof.
  intros fb p H Hin. unfold dfrag in H. rewrite !andb_true_iff in H. destruct H as [_ H].
  rewrite forallb_forall in H. auto.
Qed.


Lemma row_by_name_ok_d : forall fb rows f, no_hidden fb -> wf_rows_d fb rows -> f < length (fl_design fb) ->
  exists row, row_by_name fb (cand_of_rows rows) f = Ok row /\ length row = fl_trials fb.
Proof.
  intros fb rows f Hfr [Hlen Hrows] Hf. unfold row_by_name.
  destruct (nth_error (fl_design fb) f) as [fd|] eqn:E; [|apply nth_error_None in E; lia].
  pose proof (Hfr f fd E) as Hh.
  unfold is_hidden, factor_at. rewrite E, Hh.
  match goal with |- context [find ?P _] => set (pred := P) end.
  destruct (find pred (cand_of_rows rows)) as [p|] eqn:EF.
  - exists (snd p). split; auto. apply find_some in EF. destruct EF as [Hin _].
    destruct (rows_entry _ _ Hin) as [Hi ->]. apply Hrows; auto.
  - exfalso. assert (Hin := entry_in_rows rows f ltac:(lia)).
    pose proof (find_none _ _ EF _ Hin) as Hp. unfold pred in Hp. simpl in Hp.
    unfold name_of, factor_at in Hp. rewrite E in Hp. rewrite String.eqb_refl in Hp. discriminate.
Qed.

Lemma combo_at_levels_d : forall fb rows fs t, wf_rows_d fb rows ->
  (forall f, In f fs -> f < length (fl_design fb)) -> t < fl_trials fb ->
  (forall f, In f fs -> app_at fb f t = true) ->
  exists c, Sem.combo_at rows fs t = map Some c /\ Forall2 (fun x n => x < n) c (map (nlev fb) fs).
Proof.
  intros fb rows fs t Hwf Hfs Ht Happ. induction fs as [|f fs IH]; simpl.
  - exists []. split; [reflexivity|constructor].
  - destruct IH as [c [Hc Hall]]; [intros; apply Hfs; right; auto | intros; apply Happ; right; auto |].
    destruct (cell_some fb rows f t Hwf (Hfs f (or_introl eq_refl)) Ht (Happ f (or_introl eq_refl))) as [l [El Hl]].
    exists (l :: c). split.
    + unfold Sem.combo_at in *. simpl. unfold Sem.get_cell at 1. unfold Sem.cell in *. rewrite El, Hc. reflexivity.
    + constructor; auto.
Qed.

Lemma frag_crossing_d : forall fb rows p S, no_hidden fb -> xfrag_d fb p = true -> wf_rows_d fb rows ->
  Sem.s_trials S = fl_trials fb ->
  exists xs, crossing_mismatch fb (cand_of_rows rows) (fst p) (snd p) = Ok xs /\
             (xs = [] <-> Sem.crossing_ok S rows (crossing_sem fb p) = true).
Proof.
  intros fb rows p S Hfr Hx Hwf HS.
  unfold xfrag_d in Hx. apply andb_prop in Hx. destruct Hx as [Hx Happ].
  unfold xfrag in Hx.
  rewrite !andb_true_iff in Hx. destruct Hx as [[[Hfs Hnd] Hsum] Hsize].
  rewrite forallb_forall in Hfs. apply Nat.eqb_eq in Hsum. apply Nat.leb_le in Hsize.
  rewrite forallb_forall in Happ.
  assert (Hfs' : forall f, In f (snd p) -> f < length (fl_design fb)) by (intros f Hf; apply Nat.ltb_lt; auto).
  pose proof Hwf as [Hlen Hrows].
  rewrite crossing_mismatch_eq.
  destruct (map_res_exists (row_by_name fb (cand_of_rows rows)) (fun row => length row = fl_trials fb) (snd p))
    as [rowsN [HrN HlenN]].
  { intros f Hf. apply row_by_name_ok_d; auto. }
  rewrite HrN. cbn [bind].
  assert (Hshort : filter (fun row : list (option nat) => negb (length row =? T fb)) rowsN = []).
  { clear HrN. induction HlenN as [|r rs Hr Hrs IH]; simpl; auto.
    unfold T in *. rewrite Hr, Nat.eqb_refl. simpl. auto. }
  rewrite Hshort. cbn [map app].
  destruct (chunk_loop_sem fb (cand_of_rows rows) (snd p) rows (snd p) (chunk_of fb (fst p) (snd p)) (sw_of fb (snd p))
              (mult_of fb (snd p)) S (crossing_preamble fb (fst p))) with (fuel := Datatypes.S (fl_trials fb))
              (start := crossing_preamble fb (fst p)) as [n [Hn Hnz]].
  - apply Forall2_same. intros f Hf. apply row_of_rows. rewrite Hlen. auto.
  - intros f Hf. unfold Sem.cell. pose proof (proj1 (Hrows f ltac:(rewrite Hlen; auto))) as E. lia.
  - unfold mult_of. rewrite map_map. simpl. rewrite map_id. apply nodupb_NoDup. auto.
  - intros cm Hcm. unfold mult_of in Hcm. apply in_map_iff in Hcm. destruct Hcm as [c [<- _]]. reflexivity.
  - intros t Ht.
    destruct (combo_at_levels_d fb rows (snd p) t Hwf Hfs' ltac:(lia)) as [c [Hc Hall]].
    { intros f Hf. specialize (Happ f Hf). rewrite forallb_forall in Happ. apply Happ. apply in_seq. lia. }
    apply existsb_exists. exists (c, combo_weight fb (snd p) (map Some c) * sw_of fb (snd p)). split.
    + unfold mult_of. apply in_map_iff. exists c. split; auto. apply all_combos_complete; auto.
    + simpl. rewrite Hc, combo_eqb_same. apply combo_same_refl. apply full_map_some.
  - auto.
  - auto.
  - auto.
  - lia.
  - lia.
  - rewrite Hn. cbn [bind].
    exists (if 0 <? n then [fst p] else []). split; auto.
    unfold Sem.crossing_ok, crossing_sem. cbn [Sem.c_chunk Sem.c_first]. rewrite HS.
    assert (0 <? chunk_of fb (fst p) (snd p) = true) by (apply Nat.ltb_lt; lia).
    rewrite H. rewrite andb_true_l. rewrite <- Hnz.
    destruct n; simpl; split; intros; try discriminate; auto.
Qed.

Lemma gen_crossings_d : forall fb rows S, no_hidden fb ->
  (forall p, In p (combine (seq 0 (length (fl_crossings fb))) (fl_crossings fb)) -> xfrag_d fb p = true) ->
  wf_rows_d fb rows -> Sem.s_trials S = fl_trials fb ->
  exists xs, mismatch_crossings fb (cand_of_rows rows) = Ok xs /\
             (xs = [] <-> forallb (Sem.crossing_ok S rows)
                                  (map (crossing_sem fb) (combine (seq 0 (length (fl_crossings fb))) (fl_crossings fb))) = true).
Proof.
  intros fb rows S Hfr Hx Hwf HS. unfold mismatch_crossings.
  destruct (concat_nil_forall (fun p => crossing_mismatch fb (cand_of_rows rows) (fst p) (snd p))
              (fun p => Sem.crossing_ok S rows (crossing_sem fb p))
              (combine (seq 0 (length (fl_crossings fb))) (fl_crossings fb))) as [ls [Hls Hi]].
  - intros p Hp. apply frag_crossing_d; auto.
  - rewrite Hls. simpl. exists (concat ls). split; auto. rewrite forallb_map. auto.
Qed.

(** * The theorem with derived factors *)

Lemma wf_d_conversion : forall fb rows, wf_rows_d fb rows -> conversion_ok fb (cand_of_rows rows) = true.
Proof.
  intros fb rows [Hlen Hrows]. unfold conversion_ok. apply forallb_forall. intros p Hp.
  destruct (rows_entry _ _ Hp) as [Hi ->]. apply forallb_forall. intros c Hc.
  destruct c as [l|]; auto.
  destruct (In_nth _ _ None Hc) as [t [Ht Et]].
  destruct (Hrows _ Hi) as [HT Hk]. specialize (Hk t ltac:(lia)). rewrite Et in Hk. simpl in Hk.
  apply andb_prop in Hk. destruct Hk as [Hk _]. exact Hk.
Qed.

Theorem dfrag_mismatch_iff_valid : forall fb rows,
  dfrag fb = true -> wf_rows_d fb rows ->
  (no_mismatch fb (cand_of_rows rows) = true <-> Sem.valid_b (code_sem_d fb) rows = true).
Proof.
  intros fb rows Hfr Hwf. pose proof (dfrag_dbase fb Hfr) as Hb.
  set (S := code_sem_d fb).
  set (P := fun (c : fconstraint) (b : bool) =>
              (is_sustain c = true -> (b = true <-> V4 fb rows)) /\
              (V4 fb rows -> b = forallb (Sem.constraint_ok S rows) (csem_n fb c))).
  destruct (map_res_forall2 (constraint_conforms fb (cand_of_rows rows)) P (fl_constraints fb)) as [bs [HC HP]].
  { intros c Hc. apply constraint_d; auto. apply dfrag_cfrag; auto. }
  destruct (gen_crossings_d fb rows S (dfrag_no_hidden fb Hfr)) as [xs [HX HXi]]; auto.
  { intros p Hp. apply dfrag_xfrag; auto. }
  (* from the flags to V4 *)
  assert (HbsV4 : forallb (fun b => b) bs = true -> V4 fb rows).
  { intros Hall. pose proof Hfr as Hfr'. unfold dfrag in Hfr'. rewrite !andb_true_iff in Hfr'.
    destruct Hfr' as [[[_ Hs] _] _].
    apply orb_prop in Hs. destruct Hs as [Hone|Hex].
    - apply V4_all_one. intros f. apply nfrag_all_one; auto.
    - apply existsb_exists in Hex. destruct Hex as [c [Hc Hsus]].
      clear HC. induction HP as [|c0 b0 cs0 bs0 Hp0 Hps IH]; [contradiction|].
      simpl in Hall. apply andb_prop in Hall. destruct Hall as [Hb0 Hbs0].
      destruct Hc as [<-|Hc]; [|apply IH; auto].
      destruct Hp0 as [Hp0 _]. apply (Hp0 Hsus). auto. }
  (* under V4 the constraint flags are the reference clauses *)
  assert (HV4 : V4 fb rows ->
                (forallb (fun b => b) bs = true <-> forallb (Sem.constraint_ok S rows) (Sem.s_constraints S) = true)).
  { intros HV. unfold S at 2. cbn [Sem.s_constraints code_sem_d]. rewrite forallb_flat_map.
    clear HC HbsV4. induction HP as [|c0 b0 cs0 bs0 Hp0 Hps IH]; simpl; [tauto|].
    destruct Hp0 as [_ Hp0]. rewrite (Hp0 HV). rewrite !andb_true_iff, IH. tauto. }
  pose proof (factors_sem_d fb rows Hb Hwf) as HF.
  (* the verdict *)
  assert (Hverdict : mismatch fb (cand_of_rows rows) = VLists (flagged (gs_list fb rows)) (flagged bs) xs).
  { unfold mismatch.
    assert (E1 : existsb (fun p : nat * list (option nat) => negb (length (snd p) =? T fb)) (cand_of_rows rows) = false).
    { destruct (existsb _ (cand_of_rows rows)) eqn:E; auto. apply existsb_exists in E. destruct E as [p [Hp E]].
      destruct (rows_entry _ _ Hp) as [Hi Hs]. rewrite Hs in E.
      rewrite (proj1 (proj2 Hwf _ Hi)) in E. unfold T in E. rewrite Nat.eqb_refl in E. discriminate. }
    rewrite E1. rewrite (wf_d_conversion fb rows Hwf). simpl.
    rewrite (mismatch_factors_d fb rows Hb Hwf). fold (gs_list fb rows).
    unfold mismatch_constraints. rewrite HC. simpl. rewrite HX. reflexivity. }
  unfold no_mismatch. rewrite Hverdict.
  unfold Sem.valid_b. unfold Sem.cell in *.
  assert (Hls : length rows =? length (Sem.s_factors S) = true).
  { apply Nat.eqb_eq. unfold S. simpl. rewrite map_length, combine_length, seq_length, Nat.min_id. apply (proj1 Hwf). }
  rewrite Hls. simpl. rewrite !andb_true_iff.
  unfold S in HXi. cbn [Sem.s_crossings code_sem_d]. fold S.
  split.
  - intros H.
    assert (Hf : flagged (gs_list fb rows) = [] /\ flagged bs = [] /\ xs = []).
    { destruct (flagged (gs_list fb rows)); destruct (flagged bs); destruct xs; try discriminate; auto. }
    destruct Hf as [Hgs [Hfl Hxs]]. apply flagged_nil in Hfl. apply flagged_nil in Hgs.
    pose proof (HbsV4 Hfl) as HV.
    split; [split|].
    + apply HF; auto.
    + apply HXi; auto.
    + apply (HV4 HV); auto.
  - intros [[H1 H2] H3].
    destruct (proj1 HF H1) as [HV Hgs].
    apply (HV4 HV) in H3. apply flagged_nil in H3. apply flagged_nil in Hgs. apply HXi in H2.
    rewrite H3, H2, Hgs. reflexivity.
Qed.

Theorem dfrag_mismatch_iff_valid_b : forall fb rows,
  dfrag fb = true -> wf_rowsb_d fb rows = true ->
  (no_mismatch fb (cand_of_rows rows) = true <-> Sem.valid_b (code_sem_d fb) rows = true).
Proof. intros. apply dfrag_mismatch_iff_valid; auto. apply wf_rowsb_d_wf; auto. Qed.

(** the within-trial sub-fragment (step 1 of the widening) *)
Corollary dfrag_w_mismatch_iff_valid_b : forall fb rows,
  dfrag_w fb = true -> wf_rowsb_d fb rows = true ->
  (no_mismatch fb (cand_of_rows rows) = true <-> Sem.valid_b (code_sem_d fb) rows = true).
Proof.
  intros fb rows H. unfold dfrag_w in H. apply andb_prop in H. destruct H as [H _].
  apply dfrag_mismatch_iff_valid_b; auto.
Qed.

(** * [dfrag] contains [nfrag], with the same reference design and the same candidates *)

Lemma nfrag_app_at : forall fb f t, nfrag fb = true -> app_at fb f t = true.
Proof.
  intros fb f t H. unfold app_at, applies_to_trial, factor_at.
  destruct (nth_error (fl_design fb) f) as [fd|] eqn:E; [|reflexivity].
  destruct (nfrag_design fb f fd H E) as [_ [Hw _]]. rewrite Hw. reflexivity.
Qed.

Theorem nfrag_dfrag : forall fb, nfrag fb = true -> dfrag fb = true.
Proof.
  intros fb H. pose proof H as H0. unfold nfrag in H0. rewrite !andb_true_iff in H0.
  destruct H0 as [[[[H1 H2] H3] H4] H5].
  unfold dfrag. rewrite !andb_true_iff. repeat split; auto.
  - apply forallb_forall. intros fd Hfd. rewrite forallb_forall in H1. specialize (H1 fd Hfd).
    rewrite !andb_true_iff in H1. destruct H1 as [[Ha Hb] Hc]. unfold ffrag_d.
    destruct (ff_window fd); [discriminate|]. rewrite Ha, Hc. reflexivity.
  - apply forallb_forall. intros c Hc. rewrite forallb_forall in H4. specialize (H4 c Hc).
    destruct c; simpl in *; auto.
  - apply forallb_forall. intros p Hp. rewrite forallb_forall in H5. specialize (H5 p Hp).
    unfold xfrag_d. rewrite H5. simpl. apply forallb_forall. intros f _. apply forallb_forall. intros t _.
    apply nfrag_app_at; auto.
Qed.

Theorem nfrag_code_sem_d : forall fb, nfrag fb = true -> code_sem_d fb = code_sem_n fb.
Proof.
  intros fb H. unfold code_sem_d, code_sem_n. f_equal. apply map_ext_in. intros p Hp.
  destruct (in_combine_seq _ _ _ Hp) as [f [Hf [Hfst Hnth]]].
  destruct (nfrag_design fb f (snd p) H Hnth) as [_ [Hw _]].
  unfold dfactor_of, dwin_of. rewrite Hw. reflexivity.
Qed.

Theorem nfrag_wf_rowsb_d : forall fb rows, nfrag fb = true -> wf_rowsb_d fb rows = wf_rowsb fb rows.
Proof.
  intros fb rows H. unfold wf_rowsb_d, wf_rowsb. f_equal. apply forallb_ext_in. intros p _. f_equal.
  assert (G : forall (row : list (option nat)) a,
            forallb (fun tc : nat * option nat => cell_okb fb (fst p) (fst tc) (snd tc)) (combine (seq a (length row)) row)
            = forallb (fun c => match c with Some l => l <? nlev fb (fst p) | None => false end) row).
  { induction row as [|c row IH]; intros a; simpl; auto. rewrite IH. f_equal.
    unfold cell_okb. rewrite (nfrag_app_at fb (fst p) a H). destruct c; simpl; auto. apply andb_true_r. }
  apply G.
Qed.

(** * A concrete member of the fragment beyond [nfrag] (the flat record of the real block
      CrossBlock([color, word, cong, tr], [color, tr], [AtMostKInARow(2, (cong, con))]):
      cong = WithinTrial(color = word), tr = Transition(color[-1] = color[0]); 5 trials, the
      crossing starts at trial 1) *)
From Coq Require Import String.
Definition exd_level (n : String.string) (acc : list (list (list (option nat)))) : flevel :=
  {| lv_name := n; lv_weight := 1; lv_accepts := acc |}.
Definition exd_fb : flat :=
  {| fl_design :=
       [ {| ff_name := "color"; ff_hidden := false; ff_levels := [exd_level "r" []; exd_level "g" []];
            ff_window := None; ff_complex := false |};
         {| ff_name := "word"; ff_hidden := false; ff_levels := [exd_level "r" []; exd_level "g" []];
            ff_window := None; ff_complex := false |};
         {| ff_name := "cong"; ff_hidden := false;
            ff_levels := [exd_level "con" [[[Some 0]; [Some 0]]; [[Some 1]; [Some 1]]];
                          exd_level "inc" [[[Some 0]; [Some 1]]; [[Some 1]; [Some 0]]]];
            ff_window := Some {| win_deps := [0; 1]; win_width := 1; win_stride := 1; win_start := 0; win_start_delta := 0 |};
            ff_complex := false |};
         {| ff_name := "tr"; ff_hidden := false;
            ff_levels := [exd_level "same" [[[Some 0; Some 0]]; [[Some 1; Some 1]]];
                          exd_level "diff" [[[Some 0; Some 1]]; [[Some 1; Some 0]]]];
            ff_window := Some {| win_deps := [0]; win_width := 2; win_stride := 1; win_start := 1; win_start_delta := 0 |};
            ff_complex := true |} ]%string;
     fl_act := [0; 1; 2; 3]; fl_crossings := [[0; 3]]; fl_sustains := [1]; fl_weights := [1]; fl_sizes := [4];
     fl_preambles := [1]; fl_alignment := EqualPreamble; fl_alignment_preamble := 1; fl_min_trials := 0;
     fl_trials := 5; fl_rcc := true; fl_exclude := []; fl_excluded_derived := [];
     fl_constraints := [FCross; FConsistency;
                        FAtMost 2 2 0 (Some {| g_trials := 5; g_preamble := 1; g_sustain := [(0, 1); (3, 1)] |});
                        FDerivation 4 [[DIdx 0; DIdx 2]; [DIdx 1; DIdx 3]] 2;
                        FDerivation 5 [[DIdx 0; DIdx 3]; [DIdx 1; DIdx 2]] 2;
                        FDerivation 30 [[DIdx 0; DIdx 6]; [DIdx 1; DIdx 7]] 3;
                        FDerivation 31 [[DIdx 0; DIdx 7]; [DIdx 1; DIdx 6]] 3];
     fl_errors_fail := false |}.

Definition exd_rows_valid : list (list (option nat)) :=
  [[Some 0; Some 0; Some 1; Some 1; Some 0];
   [Some 1; Some 0; Some 1; Some 0; Some 0];
   [Some 1; Some 0; Some 0; Some 1; Some 0];
   [None;   Some 0; Some 1; Some 0; Some 1]].
(* a within-trial cell that its table rejects (trial 1: color r, word r is not "inc") *)
Definition exd_rows_bad_within : list (list (option nat)) :=
  [[Some 0; Some 0; Some 1; Some 1; Some 0];
   [Some 1; Some 0; Some 1; Some 0; Some 0];
   [Some 1; Some 1; Some 0; Some 1; Some 0];
   [None;   Some 0; Some 1; Some 0; Some 1]].
(* a transition cell that its table rejects (trial 2: r -> g is not "same") with the crossing still balanced *)
Definition exd_rows_bad_transition : list (list (option nat)) :=
  [[Some 0; Some 0; Some 1; Some 1; Some 0];
   [Some 1; Some 0; Some 1; Some 0; Some 0];
   [Some 1; Some 0; Some 0; Some 1; Some 0];
   [None;   Some 0; Some 0; Some 1; Some 1]].
(* every derived cell right, the crossing unbalanced: (g, same) twice, (g, diff) missing ... *)
Definition exd_rows_bad_crossing : list (list (option nat)) :=
  [[Some 0; Some 0; Some 1; Some 1; Some 1];
   [Some 1; Some 0; Some 1; Some 0; Some 0];
   [Some 1; Some 0; Some 0; Some 1; Some 1];
   [None;   Some 0; Some 1; Some 0; Some 0]].
