(** Exclusions of crossed levels (fragment [efrag] of Check/DerivedFrag.v): the
    crossing clause of the reference semantics (every admitted combination with
    its multiplicity, no other combination) against [sample_mismatch_crossing],
    which only looks at the combinations that occur - the equivalence holds
    THROUGH the [Exclude] checks: once no excluded level occurs in a row (what
    [Exclude.potential_sample_conforms] / clause [KExclude] decide), every
    occurring combination of crossed levels is an admitted one and
    [CrossingProofs.chunk_loop_sem] applies.  Assembly:
    [efrag fb -> (no_mismatch <-> valid_b (code_sem_x fb))]. *)
From Coq Require Import ZArith List Bool Arith Lia.
From SP Require Import Design.Flat Design.Layout Check.Mismatch Check.MismatchProofs Check.CrossingProofs
                       Check.FragmentProofs Check.NestProofs Check.DerivedFrag Check.DerivedProofs.
From SP Require Design.Sem.
Import ListNotations.

(** * Facts about [efrag] *)

Lemma efrag_dbase : forall fb, efrag fb = true -> dbase fb = true.
Proof.
  intros fb H. unfold efrag in H. rewrite !andb_true_iff in H. destruct H as [[[[H1 H2] _] _] _].
  unfold dbase. rewrite H1, H2. reflexivity.
Qed.

Lemma efrag_no_hidden : forall fb, efrag fb = true -> no_hidden fb.
Proof. intros fb H f fd E. apply (dbase_design fb f fd (efrag_dbase fb H) E). Qed.

Lemma efrag_cfrag : forall fb c, efrag fb = true -> In c (fl_constraints fb) -> cfrag_x fb c = true.
Proof.
  intros fb c H Hin. unfold efrag in H. rewrite !andb_true_iff in H. destruct H as [[_ H] _].
  rewrite forallb_forall in H. auto.
Qed.

Lemma efrag_xfrag : forall fb p, efrag fb = true ->
  In p (combine (seq 0 (length (fl_crossings fb))) (fl_crossings fb)) -> xfrag_x fb p = true.
Proof.
  intros fb p H Hin. unfold efrag in H. rewrite !andb_true_iff in H. destruct H as [_ H].
  rewrite forallb_forall in H. auto.
Qed.

(** * The reference clauses of factors and constraints do not read the crossings *)

Lemma constraint_ok_ext : forall S1 S2 s c,
  Sem.s_trials S1 = Sem.s_trials S2 -> Sem.s_factors S1 = Sem.s_factors S2 ->
  Sem.constraint_ok S1 s c = Sem.constraint_ok S2 s c.
Proof. intros [t1 f1 x1 c1] [t2 f2 x2 c2] s c H1 H2. simpl in *. subst. reflexivity. Qed.

Lemma factor_ok_ext : forall S1 S2 s f fd,
  Sem.s_trials S1 = Sem.s_trials S2 -> Sem.factor_ok S1 s f fd = Sem.factor_ok S2 s f fd.
Proof. intros [t1 f1 x1 c1] [t2 f2 x2 c2] s f fd H1. simpl in *. subst. reflexivity. Qed.

(** * No excluded level in the rows *)

Definition NoExcl (fb : flat) (rows : list (list (option nat))) : Prop :=
  forall f l, excl_by_constraint fb f l = true -> Sem.count_level l (nth f rows []) = 0.

Lemma noexcl_of_constraints : forall fb rows S,
  forallb (Sem.constraint_ok S rows) (flat_map (csem_n fb) (fl_constraints fb)) = true -> NoExcl fb rows.
Proof.
  intros fb rows S H f l He. unfold excl_by_constraint in He. apply existsb_exists in He.
  destruct He as [c [Hc E]]. destruct c; try discriminate.
  apply andb_prop in E. destruct E as [E1 E2]. apply Nat.eqb_eq in E1. apply Nat.eqb_eq in E2. subst.
  rewrite forallb_forall in H.
  specialize (H {| Sem.k_kind := Sem.KExclude; Sem.k_factor := f; Sem.k_level := l; Sem.k_windows := [] |}).
  unfold Sem.constraint_ok in H. cbn [Sem.k_kind Sem.k_factor Sem.k_level] in H.
  apply Nat.eqb_eq. apply H. apply in_flat_map. exists (FExclude f l). split; auto. simpl. auto.
Qed.

Lemma count_level_zero : forall l (row : list (option nat)) t,
  Sem.count_level l row = 0 -> nth t row None <> Some l.
Proof.
  intros l row. unfold Sem.count_level. induction row as [|c row IH]; intros t H E.
  - destruct t; discriminate.
  - simpl in H. destruct (Sem.cell_eqb c (Some l)) eqn:Ec; [discriminate|].
    destruct t; simpl in E.
    + subst. simpl in Ec. rewrite Nat.eqb_refl in Ec. discriminate.
    + apply (IH t H E).
Qed.

Lemma combo_at_cell : forall (rows : list (list (option nat))) fs c t f l,
  Sem.combo_at rows fs t = map Some c -> In (f, l) (combine fs c) -> nth t (nth f rows []) None = Some l.
Proof.
  intros rows fs. induction fs as [|g fs IH]; intros c t f l H Hin; [contradiction|].
  destruct c as [|x c]; [contradiction|]. unfold Sem.combo_at in H. simpl in H. injection H as H0 H1.
  simpl in Hin. destruct Hin as [E|Hin].
  - injection E as <- <-. exact H0.
  - apply (IH c t f l); auto.
Qed.

(** * The chunk loop never raises *)

Lemma chunk_loop_total : forall fb s fs (s' : Sem.tseq) fs' size weight,
  rows_agree s s' fs fs' ->
  (forall f', In f' fs' -> fl_trials fb <= length (nth f' s' ([] : list Sem.cell))) ->
  1 <= size ->
  forall fuel start, fl_trials fb - start < fuel ->
  exists n, chunk_loop fb fuel s fs size weight start = Ok n.
Proof.
  intros fb s fs s' fs' size weight Hrows Hlen Hsize.
  induction fuel as [|fuel IH]; intros start Hfuel; [lia|].
  simpl. unfold T. destruct (fl_trials fb <=? start) eqn:ET.
  - exists 0. reflexivity.
  - apply Nat.leb_gt in ET.
    set (e := start + size). set (or_less := fl_trials fb <? e).
    set (e' := if or_less then fl_trials fb else e).
    assert (He' : e' <= fl_trials fb).
    { unfold e', or_less. destruct (Nat.ltb_spec (fl_trials fb) e); lia. }
    unfold mismatched_weights. rewrite (keys_ok s s' fs fs' start e' Hrows).
    + cbn [bind]. destruct (IH e) as [rest Hrest]; [unfold e; lia|]. rewrite Hrest. cbn [bind].
      eexists. reflexivity.
    + intros f' Hf'. specialize (Hlen f' Hf'). lia.
Qed.

(** * One crossing *)

Lemma NoDup_map_filter : forall {A B} (g : A -> B) (p : A -> bool) xs,
  NoDup (map g xs) -> NoDup (map g (filter p xs)).
Proof.
  induction xs as [|x xs IH]; intros H; simpl; auto. inversion H as [|y ys Hn Hd]. subst.
  destruct (p x); simpl; auto. constructor; auto.
  intros Hin. apply Hn. apply in_map_iff in Hin. destruct Hin as [z [Ez Hz]]. apply filter_In in Hz.
  apply in_map_iff. exists z. tauto.
Qed.

Lemma frag_crossing_x : forall fb rows p S, no_hidden fb -> xfrag_x fb p = true -> wf_rows_d fb rows ->
  Sem.s_trials S = fl_trials fb ->
  exists xs, crossing_mismatch fb (cand_of_rows rows) (fst p) (snd p) = Ok xs /\
             (NoExcl fb rows -> (xs = [] <-> Sem.crossing_ok S rows (crossing_sem_x fb p) = true)).
Proof.
  intros fb rows p S Hfr Hx Hwf HS.
  unfold xfrag_x in Hx. cbv zeta in Hx.
  rewrite !andb_true_iff in Hx. destruct Hx as [[[[Hfs Hnd] Hsum] Hsize] Happ].
  rewrite forallb_forall in Hfs. apply Nat.eqb_eq in Hsum. apply Nat.leb_le in Hsize.
  rewrite forallb_forall in Happ.
  assert (Hfs' : forall f, In f (snd p) -> f < length (fl_design fb)) by (intros f Hf; apply Nat.ltb_lt; auto).
  pose proof Hwf as [Hlen Hrows].
  rewrite crossing_mismatch_eq.
  destruct (map_res_exists (row_by_name fb (cand_of_rows rows)) (fun row => length row = fl_trials fb) (snd p))
    as [rowsN [HrN HlenN]].
  { intros f Hf. apply row_by_name_ok_d; auto. }
  rewrite HrN. cbn [bind].
  assert (Hshort : filter (fun row : list (option nat) => negb (length row =? T fb)) rowsN = []).
  { clear HrN. induction HlenN as [|r rs Hr Hrs IH]; simpl; auto.
    unfold T in *. rewrite Hr, Nat.eqb_refl. simpl. auto. }
  rewrite Hshort. cbn [map app].
  assert (Hagree : rows_agree (cand_of_rows rows) rows (snd p) (snd p)).
  { apply Forall2_same. intros f Hf. apply row_of_rows. rewrite Hlen. auto. }
  assert (Hlens : forall f', In f' (snd p) -> fl_trials fb <= length (nth f' rows ([] : list Sem.cell))).
  { intros f Hf. unfold Sem.cell. pose proof (proj1 (Hrows f ltac:(rewrite Hlen; auto))) as E. lia. }
  destruct (chunk_loop_total fb (cand_of_rows rows) (snd p) rows (snd p) (chunk_of fb (fst p) (snd p)) (sw_of fb (snd p))
              Hagree Hlens Hsize (Datatypes.S (fl_trials fb)) (crossing_preamble fb (fst p)) ltac:(lia)) as [n Hn].
  rewrite Hn. cbn [bind].
  exists (if 0 <? n then [fst p] else []). split; auto.
  intros HE.
  destruct (chunk_loop_sem fb (cand_of_rows rows) (snd p) rows (snd p) (chunk_of fb (fst p) (snd p)) (sw_of fb (snd p))
              (mult_x fb (snd p)) S (crossing_preamble fb (fst p))) with (fuel := Datatypes.S (fl_trials fb))
              (start := crossing_preamble fb (fst p)) as [n' [Hn' Hnz]]; auto.
  - unfold mult_x. apply NoDup_map_filter. unfold mult_of. rewrite map_map. simpl. rewrite map_id.
    apply nodupb_NoDup. auto.
  - intros cm Hcm. unfold mult_x in Hcm. apply filter_In in Hcm. destruct Hcm as [Hcm _].
    unfold mult_of in Hcm. apply in_map_iff in Hcm. destruct Hcm as [c [<- _]]. reflexivity.
  - intros t Ht.
    destruct (combo_at_levels_d fb rows (snd p) t Hwf Hfs' ltac:(lia)) as [c [Hc Hall]].
    { intros f Hf. specialize (Happ f Hf). rewrite forallb_forall in Happ. apply Happ. apply in_seq. lia. }
    apply existsb_exists. exists (c, combo_weight fb (snd p) (map Some c) * sw_of fb (snd p)). split.
    + unfold mult_x. apply filter_In. split.
      * unfold mult_of. apply in_map_iff. exists c. split; auto. apply all_combos_complete; auto.
      * cbn [fst]. unfold combo_admitted. apply negb_true_iff.
        destruct (existsb (fun fl : nat * nat => excl_by_constraint fb (fst fl) (snd fl)) (combine (snd p) c)) eqn:Ex; auto.
        exfalso. apply existsb_exists in Ex. destruct Ex as [[f l] [Hin He]]. cbn [fst snd] in He.
        pose proof (combo_at_cell rows (snd p) c t f l Hc Hin) as Ecell.
        apply (count_level_zero l (nth f rows []) t (HE f l He) Ecell).
    + simpl. rewrite Hc, combo_eqb_same. apply combo_same_refl. apply full_map_some.
  - lia.
  - rewrite Hn in Hn'. injection Hn' as <-.
    unfold Sem.crossing_ok, crossing_sem_x. cbn [Sem.c_chunk Sem.c_first]. rewrite HS.
    assert (0 <? chunk_of fb (fst p) (snd p) = true) by (apply Nat.ltb_lt; lia).
    rewrite H. rewrite andb_true_l. rewrite <- Hnz.
    destruct n; simpl; split; intros; try discriminate; auto.
Qed.

Lemma concat_nil_forall_cond : forall {A P} (C : Prop) (f : P -> res (list A)) (g : P -> bool) ps,
  (forall p, In p ps -> exists xs, f p = Ok xs /\ (C -> (xs = [] <-> g p = true))) ->
  exists ls, map_res f ps = Ok ls /\ (C -> (concat ls = [] <-> forallb g ps = true)).
Proof.
  induction ps as [|p ps IH]; intros H; simpl.
  - exists []. simpl. tauto.
  - destruct (H p (or_introl eq_refl)) as [xs [Hxs Hi]]. rewrite Hxs. simpl.
    destruct IH as [ls [Hls Hj]]; [intros; apply H; right; auto|].
    rewrite Hls. simpl. exists (xs :: ls). split; auto. intros HC. simpl.
    rewrite andb_true_iff, <- (Hi HC), <- (Hj HC). split.
    + intros E. apply app_eq_nil in E. auto.
    + intros [-> ->]. reflexivity.
Qed.

Lemma gen_crossings_x : forall fb rows S, no_hidden fb ->
  (forall p, In p (combine (seq 0 (length (fl_crossings fb))) (fl_crossings fb)) -> xfrag_x fb p = true) ->
  wf_rows_d fb rows -> Sem.s_trials S = fl_trials fb ->
  exists xs, mismatch_crossings fb (cand_of_rows rows) = Ok xs /\
             (NoExcl fb rows ->
              (xs = [] <-> forallb (Sem.crossing_ok S rows)
                                   (map (crossing_sem_x fb) (combine (seq 0 (length (fl_crossings fb))) (fl_crossings fb))) = true)).
Proof.
  intros fb rows S Hfr Hx Hwf HS. unfold mismatch_crossings.
  destruct (concat_nil_forall_cond (NoExcl fb rows) (fun p => crossing_mismatch fb (cand_of_rows rows) (fst p) (snd p))
              (fun p => Sem.crossing_ok S rows (crossing_sem_x fb p))
              (combine (seq 0 (length (fl_crossings fb))) (fl_crossings fb))) as [ls [Hls Hi]].
  - intros p Hp. apply frag_crossing_x; auto.
  - rewrite Hls. simpl. exists (concat ls). split; auto. rewrite forallb_map. auto.
Qed.

(** * Constraints: [Exclude] of a crossed factor is the clause [KExclude] like any other *)

Lemma constraint_x : forall fb rows c,
  dbase fb = true -> wf_rows_d fb rows -> cfrag_x fb c = true ->
  exists b, constraint_conforms fb (cand_of_rows rows) c = Ok b /\
            (is_sustain c = true -> (b = true <-> V4 fb rows)) /\
            (V4 fb rows -> b = forallb (Sem.constraint_ok (code_sem_x fb) rows) (csem_n fb c)).
Proof.
  intros fb rows c Hb Hwf Hc.
  assert (Hext : forall k, Sem.constraint_ok (code_sem_d fb) rows k = Sem.constraint_ok (code_sem_x fb) rows k).
  { intros k. apply constraint_ok_ext; reflexivity. }
  assert (Hgen : cfrag_d fb c = true ->
            exists b, constraint_conforms fb (cand_of_rows rows) c = Ok b /\
                      (is_sustain c = true -> (b = true <-> V4 fb rows)) /\
                      (V4 fb rows -> b = forallb (Sem.constraint_ok (code_sem_x fb) rows) (csem_n fb c))).
  { intros Hd. destruct (constraint_d fb rows c Hb Hwf Hd) as [b [H1 [H2 H3]]]. exists b. split; [exact H1|].
    split; [exact H2|]. intros HV. rewrite (H3 HV). apply forallb_ext_in. intros k _. apply Hext. }
  destruct c; try (apply Hgen; exact Hc). clear Hgen.
  (* Exclude *)
  simpl in Hc. pose proof Hwf as [Hlen Hrows]. apply Nat.ltb_lt in Hc.
  simpl. rewrite (exclude_conforms_sem _ f l _ (code_sem_x fb) rows f [] (row_of_rows rows f ltac:(lia)) eq_refl).
  eexists. split; [reflexivity|]. split; [discriminate|]. intros _. simpl. rewrite andb_true_r. reflexivity.
Qed.

(** * The theorem with exclusions of crossed levels *)

Theorem efrag_mismatch_iff_valid : forall fb rows,
  efrag fb = true -> wf_rows_d fb rows ->
  (no_mismatch fb (cand_of_rows rows) = true <-> Sem.valid_b (code_sem_x fb) rows = true).
Proof.
  intros fb rows Hfr Hwf. pose proof (efrag_dbase fb Hfr) as Hb.
  set (S := code_sem_x fb).
  set (P := fun (c : fconstraint) (b : bool) =>
              (is_sustain c = true -> (b = true <-> V4 fb rows)) /\
              (V4 fb rows -> b = forallb (Sem.constraint_ok S rows) (csem_n fb c))).
  destruct (map_res_forall2 (constraint_conforms fb (cand_of_rows rows)) P (fl_constraints fb)) as [bs [HC HP]].
  { intros c Hc. apply constraint_x; auto. apply efrag_cfrag; auto. }
  destruct (gen_crossings_x fb rows S (efrag_no_hidden fb Hfr)) as [xs [HX HXi]]; auto.
  { intros p Hp. apply efrag_xfrag; auto. }
  (* from the flags to V4 *)
  assert (HbsV4 : forallb (fun b => b) bs = true -> V4 fb rows).
  { intros Hall. pose proof Hfr as Hfr'. unfold efrag in Hfr'. rewrite !andb_true_iff in Hfr'.
    destruct Hfr' as [[[_ Hs] _] _].
    apply orb_prop in Hs. destruct Hs as [Hone|Hex].
    - apply V4_all_one. intros f. apply nfrag_all_one; auto.
    - apply existsb_exists in Hex. destruct Hex as [c [Hc Hsus]].
      clear HC. induction HP as [|c0 b0 cs0 bs0 Hp0 Hps IH]; [contradiction|].
      simpl in Hall. apply andb_prop in Hall. destruct Hall as [Hb0 Hbs0].
      destruct Hc as [<-|Hc]; [|apply IH; auto].
      destruct Hp0 as [Hp0 _]. apply (Hp0 Hsus). auto. }
  (* under V4 the constraint flags are the reference clauses *)
  assert (HV4 : V4 fb rows ->
                (forallb (fun b => b) bs = true <-> forallb (Sem.constraint_ok S rows) (Sem.s_constraints S) = true)).
  { intros HV. unfold S at 2. cbn [Sem.s_constraints code_sem_x]. rewrite forallb_flat_map.
    clear HC HbsV4. induction HP as [|c0 b0 cs0 bs0 Hp0 Hps IH]; simpl; [tauto|].
    destruct Hp0 as [_ Hp0]. rewrite (Hp0 HV). rewrite !andb_true_iff, IH. tauto. }
  (* the reference constraint clauses give: no excluded level in the rows *)
  assert (HNE : forallb (Sem.constraint_ok S rows) (Sem.s_constraints S) = true -> NoExcl fb rows).
  { intros H. apply (noexcl_of_constraints fb rows S). exact H. }
  assert (HF : forallb (fun p => Sem.factor_ok S rows (fst p) (snd p)) (Sem.index_list (Sem.s_factors S)) = true
               <-> V4 fb rows /\ forallb (fun b => b) (gs_list fb rows) = true).
  { rewrite <- (factors_sem_d fb rows Hb Hwf).
    replace (Sem.s_factors S) with (Sem.s_factors (code_sem_d fb)) by reflexivity.
    rewrite (forallb_ext_in (fun p => Sem.factor_ok S rows (fst p) (snd p))
                            (fun p => Sem.factor_ok (code_sem_d fb) rows (fst p) (snd p))); [tauto|].
    intros p _. apply factor_ok_ext. reflexivity. }
  (* the verdict *)
  assert (Hverdict : mismatch fb (cand_of_rows rows) = VLists (flagged (gs_list fb rows)) (flagged bs) xs).
  { unfold mismatch.
    assert (E1 : existsb (fun p : nat * list (option nat) => negb (length (snd p) =? T fb)) (cand_of_rows rows) = false).
    { destruct (existsb _ (cand_of_rows rows)) eqn:E; auto. apply existsb_exists in E. destruct E as [p [Hp E]].
      destruct (rows_entry _ _ Hp) as [Hi Hs]. rewrite Hs in E.
      rewrite (proj1 (proj2 Hwf _ Hi)) in E. unfold T in E. rewrite Nat.eqb_refl in E. discriminate. }
    rewrite E1. rewrite (wf_d_conversion fb rows Hwf). simpl.
    rewrite (mismatch_factors_d fb rows Hb Hwf). fold (gs_list fb rows).
    unfold mismatch_constraints. rewrite HC. simpl. rewrite HX. reflexivity. }
  unfold no_mismatch. rewrite Hverdict.
  unfold Sem.valid_b. unfold Sem.cell in *.
  assert (Hls : length rows =? length (Sem.s_factors S) = true).
  { apply Nat.eqb_eq. unfold S. simpl. rewrite map_length, combine_length, seq_length, Nat.min_id. apply (proj1 Hwf). }
  rewrite Hls. simpl. rewrite !andb_true_iff.
  unfold S in HXi. cbn [Sem.s_crossings code_sem_x]. fold S. fold S in HXi.
  split.
  - intros H.
    assert (Hf : flagged (gs_list fb rows) = [] /\ flagged bs = [] /\ xs = []).
    { destruct (flagged (gs_list fb rows)); destruct (flagged bs); destruct xs; try discriminate; auto. }
    destruct Hf as [Hgs [Hfl Hxs]]. apply flagged_nil in Hfl. apply flagged_nil in Hgs.
    pose proof (HbsV4 Hfl) as HV.
    pose proof (proj1 (HV4 HV) Hfl) as HCs.
    split; [split|].
    + apply HF; auto.
    + apply (HXi (HNE HCs)); auto.
    + exact HCs.
  - intros [[H1 H2] H3].
    destruct (proj1 HF H1) as [HV Hgs].
    pose proof (HNE H3) as HN.
    apply (HV4 HV) in H3. apply flagged_nil in H3. apply flagged_nil in Hgs. apply (HXi HN) in H2.
    rewrite H3, H2, Hgs. reflexivity.
Qed.

Theorem efrag_mismatch_iff_valid_b : forall fb rows,
  efrag fb = true -> wf_rowsb_d fb rows = true ->
  (no_mismatch fb (cand_of_rows rows) = true <-> Sem.valid_b (code_sem_x fb) rows = true).
Proof. intros. apply efrag_mismatch_iff_valid; auto. apply wf_rowsb_d_wf; auto. Qed.

(** * [efrag] contains [dfrag], with the same reference design *)

Lemma dfrag_not_excl : forall fb fs f l, dfrag fb = true -> In fs (fl_crossings fb) -> In f fs ->
  excl_by_constraint fb f l = false.
Proof.
  intros fb fs f l H Hfs Hf. destruct (excl_by_constraint fb f l) eqn:E; auto. exfalso.
  unfold excl_by_constraint in E. apply existsb_exists in E. destruct E as [c [Hc E]].
  destruct c; try discriminate. apply andb_prop in E. destruct E as [E1 E2]. apply Nat.eqb_eq in E1. subst.
  pose proof (dfrag_cfrag fb _ H Hc) as Hk. simpl in Hk. apply andb_prop in Hk. destruct Hk as [_ Hk].
  apply negb_true_iff in Hk.
  assert (in_crossing fb f = true).
  { unfold in_crossing. apply existsb_exists. exists fs. split; auto. apply existsb_exists. exists f. split; auto.
    apply Nat.eqb_refl. }
  congruence.
Qed.

Lemma filter_true_id : forall {A} (p : A -> bool) xs, (forall x, In x xs -> p x = true) -> filter p xs = xs.
Proof.
  induction xs as [|x xs IH]; intros H; simpl; auto. rewrite (H x (or_introl eq_refl)). f_equal.
  apply IH. intros; apply H; right; auto.
Qed.

Lemma dfrag_mult_x : forall fb fs, dfrag fb = true -> In fs (fl_crossings fb) -> mult_x fb fs = mult_of fb fs.
Proof.
  intros fb fs H Hfs. unfold mult_x. apply filter_true_id. intros cm _. unfold combo_admitted.
  apply negb_true_iff.
  destruct (existsb (fun fl : nat * nat => excl_by_constraint fb (fst fl) (snd fl)) (combine fs (fst cm))) eqn:E; auto.
  apply existsb_exists in E. destruct E as [[f l] [Hin E]]. cbn [fst snd] in E.
  rewrite (dfrag_not_excl fb fs f l H Hfs (in_combine_l _ _ _ _ Hin)) in E. discriminate.
Qed.

Lemma in_combine_snd : forall {A B} (l : list A) (l' : list B) p, In p (combine l l') -> In (snd p) l'.
Proof. intros A B l l' [x y] H. apply (in_combine_r _ _ _ _ H). Qed.

Theorem dfrag_efrag : forall fb, dfrag fb = true -> efrag fb = true.
Proof.
  intros fb H. pose proof H as H0. unfold dfrag in H0. rewrite !andb_true_iff in H0.
  destruct H0 as [[[[H1 H2] H3] H4] H5].
  unfold efrag. rewrite !andb_true_iff. repeat split; auto.
  - apply forallb_forall. intros c Hc. rewrite forallb_forall in H4. specialize (H4 c Hc).
    destruct c; auto. simpl in H4. apply andb_prop in H4. destruct H4 as [H4 _]. exact H4.
  - apply forallb_forall. intros p Hp. rewrite forallb_forall in H5. specialize (H5 p Hp).
    unfold xfrag_d, xfrag in H5. rewrite !andb_true_iff in H5. destruct H5 as [[[[Ha Hb] Hc] Hd] He].
    unfold xfrag_x. cbv zeta. rewrite (dfrag_mult_x fb (snd p) H (in_combine_snd _ _ _ Hp)).
    rewrite Ha, Hb, Hc, Hd, He. reflexivity.
Qed.

Theorem dfrag_code_sem_x : forall fb, dfrag fb = true -> code_sem_x fb = code_sem_d fb.
Proof.
  intros fb H. unfold code_sem_x, code_sem_d. f_equal. apply map_ext_in. intros p Hp.
  unfold crossing_sem_x, crossing_sem. f_equal. apply dfrag_mult_x; auto. apply (in_combine_snd _ _ _ Hp).
Qed.

(** * A concrete member beyond [dfrag]: the flat record of the real block
      CrossBlock([f(a, b:2, c), g(x, y)], [f, g], [Exclude(f, c)], require_complete_crossing=False):
      6 trials = the weight of the four unexcluded combinations *)
Definition exx_fb : flat :=
  {| fl_design := [ex_factor [1; 2; 1]; ex_factor [1; 1]];
     fl_act := [0; 1]; fl_crossings := [[0; 1]]; fl_sustains := [1]; fl_weights := [1]; fl_sizes := [6];
     fl_preambles := [0]; fl_alignment := EqualPreamble; fl_alignment_preamble := 0; fl_min_trials := 0;
     fl_trials := 6; fl_rcc := false; fl_exclude := [(0, 2)]; fl_excluded_derived := [];
     fl_constraints := [FCross; FConsistency; FExclude 0 2];
     fl_errors_fail := false |}.
Definition exx_rows_valid : list (list (option nat)) :=
  [[Some 0; Some 0; Some 1; Some 1; Some 1; Some 1];
   [Some 0; Some 1; Some 0; Some 0; Some 1; Some 1]].
(* the excluded (c, y) takes the place of (a, y): the crossing check alone does not see it
   ([C17_crossing_clause_refuted]), the Exclude check does *)
Definition exx_rows_excluded : list (list (option nat)) :=
  [[Some 0; Some 2; Some 1; Some 1; Some 1; Some 1];
   [Some 0; Some 1; Some 0; Some 0; Some 1; Some 1]].
Definition exx_rows_unbalanced : list (list (option nat)) :=
  [[Some 0; Some 0; Some 0; Some 1; Some 1; Some 1];
   [Some 0; Some 1; Some 0; Some 0; Some 1; Some 1]].
