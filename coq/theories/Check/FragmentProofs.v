(** Assembly of the per-kind lemmas: [no_mismatch fb s] iff the reference
    semantics accepts, (1) generically, given the correspondence of every
    component, (2) outright for the fragment [frag] of flat records without
    derived factors, sustain and crossed exclusions, against [code_sem fb]. *)
From Coq Require Import ZArith List Bool Arith Lia.
From SP Require Import Design.Flat Design.Layout Check.Mismatch Check.MismatchProofs Check.CrossingProofs.
From SP Require Design.Sem.
Import ListNotations.

Definition flagged (bs : list bool) : list nat :=
  map fst (filter (fun p : nat * bool => negb (snd p)) (combine (seq 0 (length bs)) bs)).

Lemma flagged_nil_aux : forall bs a,
  map fst (filter (fun p : nat * bool => negb (snd p)) (combine (seq a (length bs)) bs)) = []
  <-> forallb (fun b => b) bs = true.
Proof.
  induction bs as [|b bs IH]; intros a; simpl; [tauto|].
  destruct b; simpl.
  - apply IH.
  - split; discriminate.
Qed.

Lemma flagged_nil : forall bs, flagged bs = [] <-> forallb (fun b => b) bs = true.
Proof. intros. apply flagged_nil_aux. Qed.

Theorem mismatch_assembly : forall fb s S (s' : Sem.tseq) fsl bs xs,
  (forall p, In p s -> length (snd p) = fl_trials fb) ->
  conversion_ok fb s = true ->
  length s' = length (Sem.s_factors S) ->
  mismatch_factors fb s = Ok fsl ->
  (fsl = [] <-> forallb (fun p => Sem.factor_ok S s' (fst p) (snd p)) (Sem.index_list (Sem.s_factors S)) = true) ->
  map_res (constraint_conforms fb s) (fl_constraints fb) = Ok bs ->
  (forallb (fun b => b) bs = true <-> forallb (Sem.constraint_ok S s') (Sem.s_constraints S) = true) ->
  mismatch_crossings fb s = Ok xs ->
  (xs = [] <-> forallb (Sem.crossing_ok S s') (Sem.s_crossings S) = true) ->
  (no_mismatch fb s = true <-> Sem.valid_b S s' = true).
Proof.
  intros fb s S s' fsl bs xs Hlen Hconv Hls HF HFi HC HCi HX HXi.
  unfold no_mismatch, mismatch.
  assert (E1 : existsb (fun p : nat * list (option nat) => negb (length (snd p) =? T fb)) s = false).
  { destruct (existsb _ s) eqn:E; auto. apply existsb_exists in E. destruct E as [p [Hp E]].
    rewrite (Hlen p Hp) in E. unfold T in E. rewrite Nat.eqb_refl in E. discriminate. }
  rewrite E1, Hconv. simpl. rewrite HF.
  unfold mismatch_constraints. rewrite HC. simpl. rewrite HX.
  fold (flagged bs).
  unfold Sem.valid_b. rewrite Hls, Nat.eqb_refl. simpl.
  rewrite !andb_true_iff. rewrite <- HFi, <- HCi, <- HXi, <- flagged_nil.
  destruct fsl; destruct (flagged bs); destruct xs; split; intros H; try discriminate; auto;
    try (destruct H as [[? ?] ?]; discriminate).
Qed.

(** * The fragment and its reference semantics read off the flat record *)

Fixpoint all_combos (ns : list nat) : list (list nat) :=
  match ns with
  | [] => [[]]
  | n :: r => flat_map (fun x => map (cons x) (all_combos r)) (seq 0 n)
  end.

Definition cw_of (fb : flat) (fs : list nat) : nat :=
  nth (first_index_of fs (fl_crossings fb)) (fl_weights fb) 0.
Definition sw_of (fb : flat) (fs : list nat) : nat :=
  cw_of fb fs * match fs with f0 :: _ => su_of fb f0 | [] => 1 end.
Definition mult_of (fb : flat) (fs : list nat) : list (list nat * nat) :=
  map (fun c => (c, combo_weight fb fs (map Some c) * sw_of fb fs)) (all_combos (map (nlev fb) fs)).
Definition chunk_of (fb : flat) (i : nat) (fs : list nat) : nat := nth i (fl_sizes fb) 0 * cw_of fb fs.

Definition crossing_sem (fb : flat) (p : nat * list nat) : Sem.dcrossing :=
  {| Sem.c_factors := snd p; Sem.c_first := crossing_preamble fb (fst p);
     Sem.c_chunk := chunk_of fb (fst p) (snd p); Sem.c_mult := mult_of fb (snd p) |}.

Definition rng (fb : flat) (wb : option geometry) : list (nat * nat) :=
  match map_block_trial_ranges fb wb with Some r => r | None => [] end.

Definition mk_c (k : Sem.ckind) (f l : nat) (ws : list (nat * nat)) : list Sem.dconstraint :=
  [{| Sem.k_kind := k; Sem.k_factor := f; Sem.k_level := l; Sem.k_windows := ws |}].

Definition csem (fb : flat) (c : fconstraint) : list Sem.dconstraint :=
  match c with
  | FAtMost k f l wb => mk_c (Sem.KAtMost k) f l (rng fb wb)
  | FAtLeast k f l wb => mk_c (Sem.KAtLeast k) f l (rng fb wb)
  | FExactlyK k f l wb => mk_c (Sem.KExactlyK k) f l (rng fb wb)
  | FExactlyKInARow k f l wb => mk_c (Sem.KExactlyInARow k) f l (rng fb wb)
  | FExclude f l => mk_c Sem.KExclude f l []
  | FPin i f l wb => mk_c (Sem.KPin i 1) f l (rng fb wb)
  | FSequential f => mk_c (Sem.KSequential (match factor_preamble fb f with Ok p => p | Err _ => 0 end) 1) f 0 []
  | _ => []
  end.

Definition code_sem (fb : flat) : Sem.sem :=
  {| Sem.s_trials := fl_trials fb;
     Sem.s_factors := map (fun fd => {| Sem.f_nlevels := length (ff_levels fd); Sem.f_sustain := 1; Sem.f_derived := None |})
                          (fl_design fb);
     Sem.s_crossings := map (crossing_sem fb) (combine (seq 0 (length (fl_crossings fb))) (fl_crossings fb));
     Sem.s_constraints := flat_map (csem fb) (fl_constraints fb) |}.

Definition ranges_ok (fb : flat) (wb : option geometry) : bool :=
  match map_block_trial_ranges fb wb with Some _ => true | None => false end.
Definition in_crossing (fb : flat) (f : nat) : bool := existsb (existsb (Nat.eqb f)) (fl_crossings fb).

Definition cfrag (fb : flat) (c : fconstraint) : bool :=
  let n := length (fl_design fb) in
  match c with
  | FCross | FConsistency | FSustain | FReify _ | FMinimumTrials _ | FContinuous => true
  | FAtMost _ f _ wb | FAtLeast _ f _ wb | FExactlyK _ f _ wb | FExactlyKInARow _ f _ wb => (f <? n) && ranges_ok fb wb
  | FExclude f _ => (f <? n) && negb (in_crossing fb f)
  | FPin _ f _ wb => (f <? n) && ranges_ok fb wb && (geometry_sustain fb wb f =? 1)
  | FSequential f => (f <? n) && match factor_preamble fb f with Ok _ => true | Err _ => false end
  | _ => false
  end.

Fixpoint nodupb (xs : list (list nat)) : bool :=
  match xs with
  | [] => true
  | x :: r => negb (existsb (list_all2 Nat.eqb x) r) && nodupb r
  end.

Definition xfrag (fb : flat) (p : nat * list nat) : bool :=
  let fs := snd p in
  forallb (fun f => f <? length (fl_design fb)) fs
  && nodupb (all_combos (map (nlev fb) fs))
  && (list_sum (map snd (mult_of fb fs)) =? chunk_of fb (fst p) fs)
  && (1 <=? chunk_of fb (fst p) fs).

(** no hidden / derived factors, no sustain (no Nest), every constraint of a kind
    with a per-kind lemma (Exclude only on uncrossed factors, so that every
    combination of levels is an allowed one), crossing sizes consistent *)
Definition frag (fb : flat) : bool :=
  forallb (fun fd => negb (ff_hidden fd) && match ff_window fd with None => true | Some _ => false end
                     && (1 <=? length (ff_levels fd))) (fl_design fb)
  && forallb (fun n => n =? 1) (fl_sustains fb)
  && forallb (cfrag fb) (fl_constraints fb)
  && forallb (xfrag fb) (combine (seq 0 (length (fl_crossings fb))) (fl_crossings fb)).

(** candidates of the property's domain (no derived factors: one level per trial
    everywhere), given as the list of rows in design order *)
Definition cand_of_rows (rows : list (list (option nat))) : cand := combine (seq 0 (length rows)) rows.

Definition wf_rows (fb : flat) (rows : list (list (option nat))) : Prop :=
  length rows = length (fl_design fb) /\
  forall f, f < length rows ->
    length (nth f rows []) = fl_trials fb /\
    forall c, In c (nth f rows []) -> exists l, c = Some l /\ l < nlev fb f.

(** * Basic facts *)

Lemma lookup_rows : forall (rows : list (list (option nat))) a f,
  f < length rows -> lookup (combine (seq a (length rows)) rows) (a + f) = Some (nth f rows []).
Proof.
  induction rows as [|r rs IH]; intros a f H; simpl in *; [lia|].
  destruct f as [|f].
  - rewrite Nat.add_0_r, Nat.eqb_refl. reflexivity.
  - assert (a =? a + S f = false) by (apply Nat.eqb_neq; lia). rewrite H0.
    replace (a + S f) with (S a + f) by lia. apply IH. lia.
Qed.

Lemma row_of_rows : forall rows f, f < length rows -> row_of (cand_of_rows rows) f = Ok (nth f rows []).
Proof.
  intros rows f H. unfold row_of, cand_of_rows.
  pose proof (lookup_rows rows 0 f H) as E. simpl in E. rewrite E. reflexivity.
Qed.

Lemma sustain_of_one : forall fb f, forallb (fun n => n =? 1) (fl_sustains fb) = true -> sustain_of fb f = 1.
Proof.
  intros fb f H. unfold sustain_of.
  assert (G : forall l acc, (forall cs, In cs l -> snd cs = 1) -> acc = 1 ->
            fold_left (fun acc cs => if existsb (Nat.eqb f) (fst cs) then snd cs else acc) l acc = 1).
  { induction l as [|cs l IH]; intros acc Hl Ha; simpl; auto.
    apply IH; [intros; apply Hl; right; auto|].
    destruct (existsb (Nat.eqb f) (fst cs)); auto. apply Hl; left; auto. }
  apply G; auto. intros cs Hcs. destruct cs as [c n]. apply in_combine_r in Hcs. simpl.
  rewrite forallb_forall in H. apply Nat.eqb_eq. apply H; auto.
Qed.

Lemma all_combos_complete : forall ns c,
  Forall2 (fun x n => x < n) c ns -> In c (all_combos ns).
Proof.
  intros ns c H. induction H as [|x n c ns Hx Hc IH]; simpl; [left; auto|].
  apply in_flat_map. exists x. split; [apply in_seq; lia|]. apply in_map; auto.
Qed.

Lemma list_all2_eqb_eq : forall a b : list nat, list_all2 Nat.eqb a b = true <-> a = b.
Proof.
  induction a as [|x a IH]; destruct b as [|y b]; simpl; split; intros H; try discriminate; auto.
  - apply andb_prop in H. destruct H as [H1 H2]. apply Nat.eqb_eq in H1. apply IH in H2. subst; auto.
  - injection H as -> ->. rewrite Nat.eqb_refl. simpl. apply IH; auto.
Qed.

Lemma nodupb_NoDup : forall xs, nodupb xs = true -> NoDup xs.
Proof.
  induction xs as [|x r IH]; intros H; simpl in H; constructor.
  - apply andb_prop in H. destruct H as [H _]. intros Hin.
    apply negb_true_iff in H.
    assert (existsb (list_all2 Nat.eqb x) r = true).
    { apply existsb_exists. exists x. split; auto. apply list_all2_eqb_eq; auto. }
    congruence.
  - apply andb_prop in H. destruct H as [_ H]. auto.
Qed.

Lemma in_combine_seq : forall {A} (ys : list A) a p,
  In p (combine (seq a (length ys)) ys) ->
  exists i, i < length ys /\ fst p = a + i /\ nth_error ys i = Some (snd p).
Proof.
  induction ys as [|y ys IH]; intros a p H; simpl in H; [contradiction|].
  destruct H as [<-|H].
  - exists 0. simpl. split; [lia|]. split; [lia|auto].
  - destruct (IH (S a) p H) as [i [H1 [H2 H3]]]. exists (S i). simpl. split; [lia|]. split; [lia|auto].
Qed.

Lemma forallb_const_true : forall {A} (xs : list A), forallb (fun b : bool => b) (map (fun _ => true) xs) = true.
Proof. induction xs; simpl; auto. Qed.

Lemma frag_design : forall fb f fd, frag fb = true -> nth_error (fl_design fb) f = Some fd ->
  ff_hidden fd = false /\ ff_window fd = None /\ 1 <= length (ff_levels fd).
Proof.
  intros fb f fd H E. unfold frag in H. rewrite !andb_true_iff in H. destruct H as [[[H _] _] _].
  rewrite forallb_forall in H. specialize (H fd (nth_error_In _ _ E)).
  rewrite !andb_true_iff in H. destruct H as [[H1 H2] H3].
  apply negb_true_iff in H1. apply Nat.leb_le in H3. destruct (ff_window fd); [discriminate|]. auto.
Qed.

Lemma frag_su : forall fb f, frag fb = true -> su_of fb f = 1.
Proof.
  intros fb f H. unfold su_of. apply sustain_of_one.
  unfold frag in H. rewrite !andb_true_iff in H. tauto.
Qed.

Lemma nlev_nth : forall fb f fd, nth_error (fl_design fb) f = Some fd -> nlev fb f = length (ff_levels fd).
Proof. intros. unfold nlev, nlevels, factor_at. rewrite H. reflexivity. Qed.

Lemma frag_factors_model : forall fb rows, frag fb = true -> wf_rows fb rows ->
  mismatch_factors fb (cand_of_rows rows) = Ok [].
Proof.
  intros fb rows Hfr [Hlen Hrows]. unfold mismatch_factors.
  rewrite (map_res_ok _ (fun _ => true)).
  - simpl. f_equal. apply flagged_nil_aux. apply forallb_const_true.
  - intros p Hp. destruct (in_combine_seq _ _ _ Hp) as [f [Hf [Hfst Hnth]]]. simpl in Hfst.
    destruct (frag_design fb f (snd p) Hfr Hnth) as [Hh [Hw _]]. rewrite Hh.
    unfold factor_test. rewrite Hfst. rewrite row_of_rows by lia. simpl.
    rewrite (frag_su fb f Hfr). simpl.
    rewrite (map_res_ok _ (fun _ => true)).
    + simpl. rewrite forallb_const_true. reflexivity.
    + intros i _. unfold test_trial. rewrite Hw. reflexivity.
Qed.

Lemma frag_factors_sem : forall fb rows, frag fb = true -> wf_rows fb rows ->
  forallb (fun p => Sem.factor_ok (code_sem fb) rows (fst p) (snd p))
          (Sem.index_list (Sem.s_factors (code_sem fb))) = true.
Proof.
  intros fb rows Hfr [Hlen Hrows]. apply forallb_forall. intros p Hp.
  unfold Sem.index_list in Hp. destruct (in_combine_seq _ _ _ Hp) as [f [Hf [Hfst Hnth]]].
  simpl in Hfst, Hnth, Hf. rewrite map_length in Hf.
  rewrite nth_error_map in Hnth. destruct (nth_error (fl_design fb) f) as [fd|] eqn:E; [|discriminate].
  simpl in Hnth. injection Hnth as Hsnd.
  destruct (Hrows f ltac:(lia)) as [HT Hcells].
  unfold Sem.factor_ok. rewrite Hfst, <- Hsnd.
  cbn [Sem.f_sustain Sem.f_nlevels Sem.f_derived Sem.s_trials code_sem Nat.add].
  unfold Sem.cell in *. rewrite HT, Nat.eqb_refl. rewrite andb_true_l.
  apply forallb_forall. intros t Ht. apply in_seq in Ht.
  unfold Sem.get_cell, Sem.applies. cbn [Sem.f_sustain Sem.f_nlevels Sem.f_derived].
  assert (Hin : In (nth t (nth f rows []) None) (nth f rows [])) by (apply nth_In; lia).
  destruct (Hcells _ Hin) as [l [El Hl]]. unfold Sem.cell in *.
  rewrite Nat.div_1_r, Nat.mul_1_r. rewrite El.
  rewrite (nlev_nth fb f fd E) in Hl. apply Nat.ltb_lt in Hl. rewrite Hl. simpl. rewrite Nat.eqb_refl. reflexivity.
Qed.

(** * Constraints of the fragment *)

Lemma forallb_true_const : forall {A} (xs : list A), forallb (fun _ => true) xs = true.
Proof. induction xs; simpl; auto. Qed.

Lemma pin_trials_bound : forall i w t, In t (pin_trials i 1 w) -> t < snd w.
Proof.
  intros i w t H. unfold pin_trials in H. destruct (pin_in i 1 w) eqn:E; [|contradiction].
  simpl in H. destruct H as [<-|[]].
  unfold pin_in, Sem.in_range in E. apply andb_prop in E. destruct E as [E1 E2].
  apply Z.leb_le in E1. apply Z.ltb_lt in E2. lia.
Qed.

Lemma frag_cfrag : forall fb c, frag fb = true -> In c (fl_constraints fb) -> cfrag fb c = true.
Proof.
  intros fb c H Hin. unfold frag in H. rewrite !andb_true_iff in H. destruct H as [[_ H] _].
  rewrite forallb_forall in H. auto.
Qed.

Lemma code_sem_factor : forall fb f fd, nth_error (fl_design fb) f = Some fd ->
  nth_error (Sem.s_factors (code_sem fb)) f
  = Some {| Sem.f_nlevels := length (ff_levels fd); Sem.f_sustain := 1; Sem.f_derived := None |}.
Proof. intros. simpl. rewrite nth_error_map, H. reflexivity. Qed.

Lemma frag_constraint : forall fb rows c,
  frag fb = true -> wf_rows fb rows -> cfrag fb c = true ->
  constraint_conforms fb (cand_of_rows rows) c
  = Ok (forallb (Sem.constraint_ok (code_sem fb) rows) (csem fb c)).
Proof.
  intros fb rows c Hfr [Hlen Hrows] Hc.
  assert (Hrow : forall f, f <? length (fl_design fb) = true ->
            row_of (cand_of_rows rows) f = Ok (nth f rows []) /\ length (nth f rows []) = fl_trials fb).
  { intros f Hf. apply Nat.ltb_lt in Hf. split; [apply row_of_rows; lia | apply Hrows; lia]. }
  destruct c; simpl in Hc; try discriminate; try reflexivity.
  - (* Sustain *)
    simpl. unfold sustain_conforms. rewrite (all_res_ok _ (fun _ => true)).
    + rewrite forallb_true_const. reflexivity.
    + intros f _. rewrite (frag_su fb f Hfr). reflexivity.
  - (* AtMost *)
    apply andb_prop in Hc. destruct Hc as [Hf Hr]. destruct (Hrow f Hf) as [R L].
    unfold ranges_ok in Hr. simpl. unfold rng.
    destruct (map_block_trial_ranges fb wb) as [ranges|] eqn:ER; [|discriminate].
    rewrite (kinarow_conforms_sem fb _ RAtMost k f l wb _ ranges (Sem.KAtMost k) (code_sem fb) rows f R L ER eq_refl eq_refl).
    simpl. rewrite andb_true_r. reflexivity.
  - apply andb_prop in Hc. destruct Hc as [Hf Hr]. destruct (Hrow f Hf) as [R L].
    unfold ranges_ok in Hr. simpl. unfold rng.
    destruct (map_block_trial_ranges fb wb) as [ranges|] eqn:ER; [|discriminate].
    rewrite (kinarow_conforms_sem fb _ RAtLeast k f l wb _ ranges (Sem.KAtLeast k) (code_sem fb) rows f R L ER eq_refl eq_refl).
    simpl. rewrite andb_true_r. reflexivity.
  - apply andb_prop in Hc. destruct Hc as [Hf Hr]. destruct (Hrow f Hf) as [R L].
    unfold ranges_ok in Hr. simpl. unfold rng.
    destruct (map_block_trial_ranges fb wb) as [ranges|] eqn:ER; [|discriminate].
    rewrite (kinarow_conforms_sem fb _ RExactlyK k f l wb _ ranges (Sem.KExactlyK k) (code_sem fb) rows f R L ER eq_refl eq_refl).
    simpl. rewrite andb_true_r. reflexivity.
  - apply andb_prop in Hc. destruct Hc as [Hf Hr]. destruct (Hrow f Hf) as [R L].
    unfold ranges_ok in Hr. simpl. unfold rng.
    destruct (map_block_trial_ranges fb wb) as [ranges|] eqn:ER; [|discriminate].
    rewrite (kinarow_conforms_sem fb _ RExactlyRow k f l wb _ ranges (Sem.KExactlyInARow k) (code_sem fb) rows f R L ER eq_refl eq_refl).
    simpl. rewrite andb_true_r. reflexivity.
  - (* Exclude *)
    apply andb_prop in Hc. destruct Hc as [Hf _]. destruct (Hrow f Hf) as [R L].
    simpl. rewrite (exclude_conforms_sem _ f l _ (code_sem fb) rows f [] R eq_refl).
    simpl. rewrite andb_true_r. reflexivity.
  - (* Pin *)
    apply andb_prop in Hc. destruct Hc as [Hc Hg]. apply andb_prop in Hc. destruct Hc as [Hf Hr].
    destruct (Hrow f Hf) as [R L]. apply Nat.eqb_eq in Hg.
    unfold ranges_ok in Hr. simpl. unfold rng.
    destruct (map_block_trial_ranges fb wb) as [ranges|] eqn:ER; [|discriminate].
    rewrite (pin_conforms_sem fb _ index f l wb _ ranges 1 (flat_map (pin_trials index 1) ranges)
                              (code_sem fb) rows f R ER Hg (le_n 1)).
    + simpl. rewrite andb_true_r. reflexivity.
    + rewrite (get_trial_numbers_spec _ _ _ _ _ ER), Hg. reflexivity.
    + intros t Ht. apply in_flat_map in Ht. destruct Ht as [w [Hw Ht]].
      apply pin_trials_bound in Ht. rewrite L.
      pose proof (ranges_within_trials _ _ _ _ ER Hw). lia.
    + reflexivity.
  - (* Sequential *)
    apply andb_prop in Hc. destruct Hc as [Hf Hp]. destruct (Hrow f Hf) as [R L].
    destruct (factor_preamble fb f) as [first|] eqn:EP; [|discriminate].
    apply Nat.ltb_lt in Hf.
    destruct (nth_error (fl_design fb) f) as [fd|] eqn:E; [|apply nth_error_None in E; lia].
    destruct (frag_design fb f fd Hfr E) as [_ [_ Hnl]].
    simpl. rewrite EP.
    rewrite (sequential_conforms_sem fb _ f _ first 1 (length (ff_levels fd)) (code_sem fb) rows f
               {| Sem.f_nlevels := length (ff_levels fd); Sem.f_sustain := 1; Sem.f_derived := None |} 0 [] R L EP).
    + simpl. rewrite andb_true_r. reflexivity.
    + apply frag_su; auto.
    + lia.
    + apply nlev_nth; auto.
    + auto.
    + intros t Ht. rewrite Nat.div_1_r, Nat.mul_1_r. f_equal. lia.
    + reflexivity.
    + reflexivity.
    + apply code_sem_factor; auto.
    + reflexivity.
Qed.

Lemma frag_constraints : forall fb rows, frag fb = true -> wf_rows fb rows ->
  exists bs, map_res (constraint_conforms fb (cand_of_rows rows)) (fl_constraints fb) = Ok bs /\
             (forallb (fun b => b) bs = true
              <-> forallb (Sem.constraint_ok (code_sem fb) rows) (Sem.s_constraints (code_sem fb)) = true).
Proof.
  intros fb rows Hfr Hwf.
  exists (map (fun c => forallb (Sem.constraint_ok (code_sem fb) rows) (csem fb c)) (fl_constraints fb)).
  split.
  - apply map_res_ok. intros c Hc. apply frag_constraint; auto. apply frag_cfrag; auto.
  - rewrite forallb_id_map. simpl. rewrite forallb_flat_map. tauto.
Qed.

(** * Crossings of the fragment *)

Lemma frag_xfrag : forall fb p, frag fb = true ->
  In p (combine (seq 0 (length (fl_crossings fb))) (fl_crossings fb)) -> xfrag fb p = true.
Proof.
  intros fb p H Hin. unfold frag in H. rewrite !andb_true_iff in H. destruct H as [_ H].
  rewrite forallb_forall in H. auto.
Qed.

Lemma rows_entry : forall (rows : list (list (option nat))) p, In p (cand_of_rows rows) ->
  fst p < length rows /\ snd p = nth (fst p) rows [].
Proof.
  intros rows p H. unfold cand_of_rows in H.
  destruct (in_combine_seq _ _ _ H) as [i [Hi [Hf Hn]]]. simpl in Hf.
  split; [rewrite Hf; auto|]. rewrite Hf. symmetry. apply nth_error_nth. auto.
Qed.

Lemma entry_in_rows : forall (rows : list (list (option nat))) f, f < length rows ->
  In (f, nth f rows []) (cand_of_rows rows).
Proof.
  intros rows f H. unfold cand_of_rows.
  assert (G : forall (rs : list (list (option nat))) a i, i < length rs -> In (a + i, nth i rs []) (combine (seq a (length rs)) rs)).
  { induction rs as [|r rs IH]; intros a i Hi; simpl in *; [lia|].
    destruct i; [left; f_equal; lia|]. right. replace (a + S i) with (S a + i) by lia. apply IH. lia. }
  apply (G rows 0 f H).
Qed.

Definition no_hidden (fb : flat) : Prop :=
  forall f fd, nth_error (fl_design fb) f = Some fd -> ff_hidden fd = false.

Lemma row_by_name_ok : forall fb rows f, no_hidden fb -> wf_rows fb rows -> f < length (fl_design fb) ->
  exists row, row_by_name fb (cand_of_rows rows) f = Ok row /\ length row = fl_trials fb.
Proof.
  intros fb rows f Hfr [Hlen Hrows] Hf. unfold row_by_name.
  destruct (nth_error (fl_design fb) f) as [fd|] eqn:E; [|apply nth_error_None in E; lia].
  pose proof (Hfr f fd E) as Hh.
  unfold is_hidden, factor_at. rewrite E, Hh.
  match goal with |- context [find ?P _] => set (pred := P) end.
  destruct (find pred (cand_of_rows rows)) as [p|] eqn:EF.
  - exists (snd p). split; auto. apply find_some in EF. destruct EF as [Hin _].
    destruct (rows_entry _ _ Hin) as [Hi ->]. apply Hrows; auto.
  - exfalso. assert (Hin := entry_in_rows rows f ltac:(lia)).
    pose proof (find_none _ _ EF _ Hin) as Hp. unfold pred in Hp. simpl in Hp.
    unfold name_of, factor_at in Hp. rewrite E in Hp. rewrite String.eqb_refl in Hp. discriminate.
Qed.

Lemma map_res_exists : forall {A B} (f : A -> res B) (P : B -> Prop) xs,
  (forall x, In x xs -> exists y, f x = Ok y /\ P y) -> exists ys, map_res f xs = Ok ys /\ Forall P ys.
Proof.
  induction xs as [|x xs IH]; intros H; simpl.
  - exists []. auto.
  - destruct (H x (or_introl eq_refl)) as [y [Hy Py]]. rewrite Hy. simpl.
    destruct IH as [ys [Hys Pys]]; [intros; apply H; right; auto|].
    rewrite Hys. simpl. exists (y :: ys). auto.
Qed.

Lemma Forall2_same : forall {A} (R : A -> A -> Prop) xs, (forall x, In x xs -> R x x) -> Forall2 R xs xs.
Proof. induction xs; intros H; [constructor|constructor; [apply H; left; auto | apply IHxs; intros; apply H; right; auto]]. Qed.

Lemma combo_at_levels : forall fb rows fs t, wf_rows fb rows ->
  (forall f, In f fs -> f < length (fl_design fb)) -> t < fl_trials fb ->
  exists c, Sem.combo_at rows fs t = map Some c /\ Forall2 (fun x n => x < n) c (map (nlev fb) fs).
Proof.
  intros fb rows fs t [Hlen Hrows] Hfs Ht. induction fs as [|f fs IH]; simpl.
  - exists []. split; [reflexivity|constructor].
  - destruct IH as [c [Hc Hall]]; [intros; apply Hfs; right; auto|].
    assert (Hf : f < length rows) by (rewrite Hlen; apply Hfs; left; auto).
    destruct (Hrows f Hf) as [HT Hcells].
    assert (Hin : In (nth t (nth f rows []) None) (nth f rows [])) by (apply nth_In; lia).
    destruct (Hcells _ Hin) as [l [El Hl]].
    exists (l :: c). split.
    + unfold Sem.combo_at in *. simpl. unfold Sem.get_cell at 1. unfold Sem.cell in *. rewrite El, Hc. reflexivity.
    + constructor; auto.
Qed.

Lemma crossing_mismatch_eq : forall fb s i fs,
  crossing_mismatch fb s i fs
  = (rows <- map_res (row_by_name fb s) fs ;;
     bad <- chunk_loop fb (S (fl_trials fb)) s fs (chunk_of fb i fs) (sw_of fb fs) (crossing_preamble fb i) ;;
     Ok (map (fun _ => i) (filter (fun row : list (option nat) => negb (length row =? T fb)) rows)
         ++ (if 0 <? bad then [i] else []))).
Proof. reflexivity. Qed.

Lemma frag_crossing : forall fb rows p S, no_hidden fb -> xfrag fb p = true -> wf_rows fb rows ->
  Sem.s_trials S = fl_trials fb ->
  exists xs, crossing_mismatch fb (cand_of_rows rows) (fst p) (snd p) = Ok xs /\
             (xs = [] <-> Sem.crossing_ok S rows (crossing_sem fb p) = true).
Proof.
  intros fb rows p S Hfr Hx Hwf HS.
  unfold xfrag in Hx.
  rewrite !andb_true_iff in Hx. destruct Hx as [[[Hfs Hnd] Hsum] Hsize].
  rewrite forallb_forall in Hfs. apply Nat.eqb_eq in Hsum. apply Nat.leb_le in Hsize.
  assert (Hfs' : forall f, In f (snd p) -> f < length (fl_design fb)) by (intros f Hf; apply Nat.ltb_lt; auto).
  destruct Hwf as [Hlen Hrows].
  rewrite crossing_mismatch_eq.
  destruct (map_res_exists (row_by_name fb (cand_of_rows rows)) (fun row => length row = fl_trials fb) (snd p))
    as [rowsN [HrN HlenN]].
  { intros f Hf. apply row_by_name_ok; auto. split; auto. }
  rewrite HrN. cbn [bind].
  assert (Hshort : filter (fun row : list (option nat) => negb (length row =? T fb)) rowsN = []).
  { clear HrN. induction HlenN as [|r rs Hr Hrs IH]; simpl; auto.
    unfold T in *. rewrite Hr, Nat.eqb_refl. simpl. auto. }
  rewrite Hshort. cbn [map app].
  destruct (chunk_loop_sem fb (cand_of_rows rows) (snd p) rows (snd p) (chunk_of fb (fst p) (snd p)) (sw_of fb (snd p))
              (mult_of fb (snd p)) S (crossing_preamble fb (fst p))) with (fuel := Datatypes.S (fl_trials fb))
              (start := crossing_preamble fb (fst p)) as [n [Hn Hnz]].
  - apply Forall2_same. intros f Hf. apply row_of_rows. rewrite Hlen. auto.
  - intros f Hf. unfold Sem.cell. pose proof (proj1 (Hrows f ltac:(rewrite Hlen; auto))) as E. lia.
  - unfold mult_of. rewrite map_map. simpl. rewrite map_id. apply nodupb_NoDup. auto.
  - intros cm Hcm. unfold mult_of in Hcm. apply in_map_iff in Hcm. destruct Hcm as [c [<- _]]. reflexivity.
  - intros t Ht.
    destruct (combo_at_levels fb rows (snd p) t (conj Hlen Hrows) Hfs' ltac:(lia)) as [c [Hc Hall]].
    apply existsb_exists. exists (c, combo_weight fb (snd p) (map Some c) * sw_of fb (snd p)). split.
    + unfold mult_of. apply in_map_iff. exists c. split; auto. apply all_combos_complete; auto.
    + simpl. rewrite Hc, combo_eqb_same. apply combo_same_refl. apply full_map_some.
  - auto.
  - auto.
  - auto.
  - lia.
  - lia.
  - rewrite Hn. cbn [bind].
    exists (if 0 <? n then [fst p] else []). split; auto.
    unfold Sem.crossing_ok, crossing_sem. cbn [Sem.c_chunk Sem.c_first]. rewrite HS.
    assert (0 <? chunk_of fb (fst p) (snd p) = true) by (apply Nat.ltb_lt; lia).
    rewrite H. rewrite andb_true_l. rewrite <- Hnz.
    destruct n; simpl; split; intros; try discriminate; auto.
Qed.

Lemma concat_nil_forall : forall {A P} (f : P -> res (list A)) (g : P -> bool) ps,
  (forall p, In p ps -> exists xs, f p = Ok xs /\ (xs = [] <-> g p = true)) ->
  exists ls, map_res f ps = Ok ls /\ (concat ls = [] <-> forallb g ps = true).
Proof.
  induction ps as [|p ps IH]; intros H; simpl.
  - exists []. simpl. tauto.
  - destruct (H p (or_introl eq_refl)) as [xs [Hxs Hi]]. rewrite Hxs. simpl.
    destruct IH as [ls [Hls Hj]]; [intros; apply H; right; auto|].
    rewrite Hls. simpl. exists (xs :: ls). split; auto. simpl.
    rewrite andb_true_iff, <- Hi, <- Hj. split.
    + intros E. apply app_eq_nil in E. auto.
    + intros [-> ->]. reflexivity.
Qed.

Lemma gen_crossings : forall fb rows S, no_hidden fb ->
  (forall p, In p (combine (seq 0 (length (fl_crossings fb))) (fl_crossings fb)) -> xfrag fb p = true) ->
  wf_rows fb rows -> Sem.s_trials S = fl_trials fb ->
  exists xs, mismatch_crossings fb (cand_of_rows rows) = Ok xs /\
             (xs = [] <-> forallb (Sem.crossing_ok S rows)
                                  (map (crossing_sem fb) (combine (seq 0 (length (fl_crossings fb))) (fl_crossings fb))) = true).
Proof.
  intros fb rows S Hfr Hx Hwf HS. unfold mismatch_crossings.
  destruct (concat_nil_forall (fun p => crossing_mismatch fb (cand_of_rows rows) (fst p) (snd p))
              (fun p => Sem.crossing_ok S rows (crossing_sem fb p))
              (combine (seq 0 (length (fl_crossings fb))) (fl_crossings fb))) as [ls [Hls Hi]].
  - intros p Hp. apply frag_crossing; auto.
  - rewrite Hls. simpl. exists (concat ls). split; auto. rewrite forallb_map. auto.
Qed.

Lemma frag_no_hidden : forall fb, frag fb = true -> no_hidden fb.
Proof. intros fb H f fd E. apply (frag_design fb f fd H E). Qed.

Lemma frag_crossings : forall fb rows, frag fb = true -> wf_rows fb rows ->
  exists xs, mismatch_crossings fb (cand_of_rows rows) = Ok xs /\
             (xs = [] <-> forallb (Sem.crossing_ok (code_sem fb) rows) (Sem.s_crossings (code_sem fb)) = true).
Proof.
  intros fb rows Hfr Hwf.
  apply (gen_crossings fb rows (code_sem fb)); auto.
  - apply frag_no_hidden; auto.
  - intros p Hp. apply frag_xfrag; auto.
Qed.

(** * The fragment theorem *)

Lemma wf_conversion : forall fb rows, wf_rows fb rows -> conversion_ok fb (cand_of_rows rows) = true.
Proof.
  intros fb rows [Hlen Hrows]. unfold conversion_ok. apply forallb_forall. intros p Hp.
  destruct (rows_entry _ _ Hp) as [Hi ->]. apply forallb_forall. intros c Hc.
  destruct (proj2 (Hrows _ Hi) c Hc) as [l [-> Hl]]. apply Nat.ltb_lt. auto.
Qed.

Theorem frag_mismatch_iff_valid : forall fb rows,
  frag fb = true -> wf_rows fb rows ->
  (no_mismatch fb (cand_of_rows rows) = true <-> Sem.valid_b (code_sem fb) rows = true).
Proof.
  intros fb rows Hfr Hwf.
  destruct (frag_constraints fb rows Hfr Hwf) as [bs [HC HCi]].
  destruct (frag_crossings fb rows Hfr Hwf) as [xs [HX HXi]].
  apply (mismatch_assembly fb (cand_of_rows rows) (code_sem fb) rows [] bs xs); auto.
  - intros p Hp. destruct (rows_entry _ _ Hp) as [Hi ->]. apply (proj2 Hwf); auto.
  - apply wf_conversion; auto.
  - simpl. rewrite map_length. apply (proj1 Hwf).
  - apply frag_factors_model; auto.
  - split; auto. intros _. apply frag_factors_sem; auto.
Qed.

(** boolean form of the candidate domain *)
Definition wf_rowsb (fb : flat) (rows : list (list (option nat))) : bool :=
  (length rows =? length (fl_design fb)) &&
  forallb (fun p : nat * list (option nat) =>
             (length (snd p) =? fl_trials fb) &&
             forallb (fun c => match c with Some l => l <? nlev fb (fst p) | None => false end) (snd p))
          (cand_of_rows rows).

Lemma wf_rowsb_wf : forall fb rows, wf_rowsb fb rows = true -> wf_rows fb rows.
Proof.
  intros fb rows H. unfold wf_rowsb in H. apply andb_prop in H. destruct H as [H1 H2].
  apply Nat.eqb_eq in H1. split; auto. intros f Hf.
  rewrite forallb_forall in H2. specialize (H2 _ (entry_in_rows rows f Hf)). simpl in H2.
  apply andb_prop in H2. destruct H2 as [H2 H3]. apply Nat.eqb_eq in H2. split; auto.
  intros c Hc. rewrite forallb_forall in H3. specialize (H3 c Hc).
  destruct c as [l|]; [|discriminate]. exists l. split; auto. apply Nat.ltb_lt; auto.
Qed.

Theorem frag_mismatch_iff_valid_b : forall fb rows,
  frag fb = true -> wf_rowsb fb rows = true ->
  (no_mismatch fb (cand_of_rows rows) = true <-> Sem.valid_b (code_sem fb) rows = true).
Proof. intros. apply frag_mismatch_iff_valid; auto. apply wf_rowsb_wf; auto. Qed.

(** * A concrete member of the fragment: weighted 2 x 2 crossing over 6 trials with one constraint of every kind *)
Definition ex_level (w : nat) : flevel := {| lv_name := String.EmptyString; lv_weight := w; lv_accepts := [] |}.
Definition ex_factor (ws : list nat) : ffactor :=
  {| ff_name := String.EmptyString; ff_hidden := false; ff_levels := map ex_level ws; ff_window := None; ff_complex := false |}.
Definition ex_fb : flat :=
  {| fl_design := [ex_factor [1; 1]; ex_factor [2; 1]; ex_factor [1; 1; 1]];
     fl_act := [0; 1; 2]; fl_crossings := [[0; 1]]; fl_sustains := [1]; fl_weights := [1]; fl_sizes := [6];
     fl_preambles := [0]; fl_alignment := EqualPreamble; fl_alignment_preamble := 0; fl_min_trials := 0;
     fl_trials := 6; fl_rcc := true; fl_exclude := []; fl_excluded_derived := [];
     fl_constraints := [FCross; FConsistency; FAtMost 2 1 0 (Some {| g_trials := 3; g_preamble := 0; g_sustain := [] |});
                        FExactlyK 3 0 1 None; FPin (-1) 2 2 None; FExclude 2 1; FAtLeast 1 2 0 None;
                        FExactlyKInARow 1 0 1 None; FSequential 0 ];
     fl_errors_fail := false |}.

Definition ex_rows_valid : list (list (option nat)) :=
  [[Some 0; Some 1; Some 0; Some 1; Some 0; Some 1];
   [Some 0; Some 1; Some 0; Some 0; Some 1; Some 0];
   [Some 0; Some 0; Some 0; Some 0; Some 0; Some 2]].
Definition ex_rows_invalid : list (list (option nat)) :=
  [[Some 0; Some 1; Some 0; Some 1; Some 0; Some 1];
   [Some 0; Some 0; Some 0; Some 1; Some 1; Some 0];
   [Some 0; Some 0; Some 0; Some 0; Some 0; Some 2]].
