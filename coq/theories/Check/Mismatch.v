(** Executable model of the mismatch checker: [sample_mismatch_experiment]
    (main.py), [sample_mismatch_factors/constraints/crossing] (cross_block.py),
    every [potential_sample_conforms] (constraint.py),
    [combinations_mismatched_weights] (check_mismatch.py),
    [Factor.test_trial] / [DerivedLevel._trial_arguments] (primitive.py), on the
    flat record of a block and the layout functions of Design/Layout.v.

    A candidate is the dictionary [convert_sample_from_names_to_objects]
    produces, in key order: factor (index into [fl_design], the *first* factor of
    the design carrying the key's name) -> one cell per trial.  A cell is
    [Some l] (the first level of the factor with the given name) or [None]: the
    name [''], converted to a *fresh* [Level('')] object, which is equal
    (identity) to no level and to no other cell.  An index [>= nlevels] stands for
    a name that is not a level of the factor (the conversion raises).

    Where Python raises, the model returns [Err]; loops whose Python original
    would not terminate return [Err ELoop].  No proofs in this file. *)
From Coq Require Import ZArith List Bool Arith.
From SP Require Import Design.Flat Design.Layout.
Import ListNotations.

Inductive err :=
| EKey        (* KeyError: sample[factor] / sample[factor.name] absent *)
| EIndex      (* IndexError *)
| EValue      (* ValueError (factor_preamble_size with a factor in two crossings, range() step 0) *)
| EConv       (* Exception raised by the name -> object conversion *)
| EPred       (* a user predicate is called outside get_dependent_cross_product: result not determined by the flat record *)
| ELayout     (* map_block_trial_ranges outside the domain of the Layout model *)
| EZeroDiv    (* ZeroDivisionError *)
| ELoop.      (* the Python loop would not terminate *)

Inductive res (A : Type) := Ok (a : A) | Err (e : err).
Arguments Ok {A} a.
Arguments Err {A} e.

Definition bind {A B} (r : res A) (f : A -> res B) : res B :=
  match r with Ok a => f a | Err e => Err e end.
Notation "x <- r ;; k" := (bind r (fun x => k)) (at level 61, r at next level, right associativity).

(** [for x in xs: if not f(x): return False] ... [return True], exceptions propagating. *)
Fixpoint all_res {A} (f : A -> res bool) (xs : list A) : res bool :=
  match xs with
  | [] => Ok true
  | x :: r => match f x with
              | Ok true => all_res f r
              | other => other
              end
  end.

(** evaluate everything (no short circuit), first exception wins *)
Fixpoint map_res {A B} (f : A -> res B) (xs : list A) : res (list B) :=
  match xs with
  | [] => Ok []
  | x :: r => y <- f x ;; ys <- map_res f r ;; Ok (y :: ys)
  end.

Notation cell := (option nat) (only parsing).
Definition cand := list (nat * list cell).

(** [l == level] / [l is level] for a cell and level number [l] of the cell's factor *)
Definition cell_is (l : nat) (c : cell) : bool :=
  match c with Some x => x =? l | None => false end.
(** [a == b] for two cells of the same factor: a fresh [Level('')] equals nothing *)
Definition cell_same (a b : cell) : bool :=
  match a, b with Some x, Some y => x =? y | _, _ => false end.

Fixpoint lookup (s : cand) (f : nat) : option (list cell) :=
  match s with
  | [] => None
  | (g, row) :: r => if g =? f then Some row else lookup r f
  end.

(** [sample[f]] on the converted dictionary *)
Definition row_of (s : cand) (f : nat) : res (list cell) :=
  match lookup s f with Some row => Ok row | None => Err EKey end.

(** [levels[i]] *)
Definition get (row : list cell) (i : nat) : res cell :=
  match nth_error row i with Some c => Ok c | None => Err EIndex end.

(** [[levels[i] for i in range(a, b)]] *)
Definition slice_res (row : list cell) (a b : nat) : res (list cell) :=
  map_res (get row) (seq a (b - a)).

Section Mismatch.
Variable fb : flat.

Definition T : nat := fl_trials fb.
Definition su_of (f : nat) : nat := sustain_of fb f.
Definition nlev (f : nat) : nat := nlevels fb f.

(** range(0, n, step) for step > 0 *)
Definition range_step (n step : nat) : list nat :=
  map (fun q => q * step) (seq 0 ((n + step - 1) / step)).

(** * Factors: [sample_mismatch_factors], [test_trial], [_trial_arguments] *)

Inductive parg := PNone | PName (l : nat) | PBlank.

Definition parg_of_cell (c : cell) : parg :=
  match c with Some l => PName l | None => PBlank end.

(** the arguments of the level's predicate at (0-based) trial [i]: per
    depended-on factor [width] entries, oldest first *)
Definition trial_arguments (s : cand) (w : fwindow) (i su : nat) : res (list (list parg)) :=
  map_res (fun d =>
             row <- row_of s d ;;
             map_res (fun j =>
                        let idx := (Z.of_nat i + (Z.of_nat j - (Z.of_nat (win_width w) - 1)) * Z.of_nat su)%Z in
                        if (0 <=? idx)%Z then c <- get row (Z.to_nat idx) ;; Ok (parg_of_cell c)
                        else Ok PNone)
                     (seq 0 (win_width w)))
          (win_deps w).

(** [ready_at] of [levels_of] in [get_dependent_cross_product] *)
Definition ready_at (d : nat) : nat :=
  match factor_at fb d with
  | Some fd => match ff_window fd with
               | Some wd => if ff_complex fd then win_start wd else 0
               | None => 0
               end
  | None => 0
  end.

(** is the argument tuple one of [get_dependent_cross_product]? *)
Definition parg_in_domain (w : fwindow) (d j : nat) (a : parg) : bool :=
  match a with
  | PName l => l <? nlev d
  | PNone => (Z.of_nat (win_start w) - Z.of_nat (win_width w) + Z.of_nat j + 1 <? Z.of_nat (ready_at d))%Z
  | PBlank => false
  end.

Definition args_in_domain (w : fwindow) (args : list (list parg)) : bool :=
  forallb (fun p => forallb (fun q => parg_in_domain w (fst p) (fst q) (snd q))
                            (combine (seq 0 (length (snd p))) (snd p)))
          (combine (win_deps w) args).

Definition parg_matches (a : parg) (t : option nat) : bool :=
  match a, t with
  | PNone, None => true
  | PName l, Some x => l =? x
  | _, _ => false
  end.

Fixpoint list_all2 {A B} (p : A -> B -> bool) (xs : list A) (ys : list B) : bool :=
  match xs, ys with
  | [], [] => true
  | x :: xs', y :: ys' => p x y && list_all2 p xs' ys'
  | _, _ => false
  end.

Definition accepts_args (lv : flevel) (args : list (list parg)) : bool :=
  existsb (fun entry => list_all2 (list_all2 parg_matches) args entry) (lv_accepts lv).

(** [DerivedFactor.test_trial(i, sample, sustain_count)] *)
Definition test_trial (s : cand) (f : nat) (fd : ffactor) (i su : nat) : res bool :=
  match ff_window fd with
  | None => Ok true
  | Some w =>
    row <- row_of s f ;;
    c <- get row i ;;
    match c with
    | None => Ok true
    | Some l =>
      match nth_error (ff_levels fd) l with
      | None => Ok true
      | Some lv =>
        args <- trial_arguments s w i su ;;
        if args_in_domain w args then Ok (accepts_args lv args) else Err EPred
      end
    end
  end.

(** one factor of [sample_mismatch_factors]: [Some true] = all tests passed *)
Definition factor_test (s : cand) (f : nat) (fd : ffactor) : res bool :=
  let su := su_of f in
  row <- row_of s f ;;
  if su =? 0 then Err EValue
  else
    bs <- map_res (fun i => test_trial s f fd i su) (range_step (length row) su) ;;
    Ok (forallb (fun b => b) bs).

Definition mismatch_factors (s : cand) : res (list nat) :=
  bs <- map_res (fun p => if ff_hidden (snd p) then Ok true else factor_test s (fst p) (snd p))
                (combine (seq 0 (length (fl_design fb))) (fl_design fb)) ;;
  Ok (map fst (filter (fun p => negb (snd p)) (combine (seq 0 (length bs)) bs))).

(** * Constraints: every [potential_sample_conforms] *)

(** [check_sequence]'s run counting over the cells of one range *)
Fixpoint counts_loop (l : nat) (cells : list cell) (count : nat) : list nat :=
  match cells with
  | [] => if 0 <? count then [count] else []
  | c :: rest =>
    if (0 <? count) && negb (cell_is l c) then count :: counts_loop l rest 0
    else if cell_is l c then counts_loop l rest (S count)
    else counts_loop l rest count
  end.
Definition counts (l : nat) (cells : list cell) : list nat := counts_loop l cells 0.

Inductive rowkind := RAtMost | RAtLeast | RExactlyK | RExactlyRow | RMultiple.

(** [_potential_counts_conform] *)
Definition counts_conform (kind : rowkind) (k : nat) (cs : list nat) : res bool :=
  match kind with
  | RAtMost => Ok (forallb (fun n => n <=? k) cs)
  | RAtLeast => Ok (forallb (fun n => k <=? n) cs)
  | RExactlyK => Ok (fold_left Nat.add cs 0 =? k)
  | RExactlyRow => Ok (forallb (fun n => n =? k) cs)
  | RMultiple => if k =? 0 then (match cs with [] => Ok true | _ => Err EZeroDiv end)
                 else Ok (forallb (fun n => n mod k =? 0) cs)
  end.

(** [_KInARow.potential_sample_conforms]: every range is evaluated, then [all] *)
Definition kinarow_conforms (s : cand) (kind : rowkind) (k f l : nat) (wb : option geometry) : res bool :=
  row <- row_of s f ;;
  match map_block_trial_ranges fb wb with
  | None => Err ELayout
  | Some ranges =>
    bs <- map_res (fun r => cells <- slice_res row (fst r) (snd r) ;; counts_conform kind k (counts l cells)) ranges ;;
    Ok (forallb (fun b => b) bs)
  end.

Definition exclude_conforms (s : cand) (f l : nat) : res bool :=
  row <- row_of s f ;;
  Ok (negb (existsb (cell_is l) row)).

Definition pin_conforms (s : cand) (index : Z) (f l : nat) (wb : option geometry) : res bool :=
  row <- row_of s f ;;
  match get_trial_numbers fb f index wb with
  | None => Err ELayout
  | Some [] => Ok false
  | Some tn => all_res (fun t => c <- get row t ;; Ok (cell_is l c)) tn
  end.

(** [Sustain.potential_sample_conforms] *)
Definition sustain_conforms (s : cand) : res bool :=
  all_res (fun f =>
             let su := su_of f in
             if su <=? 1 then Ok true
             else
               row <- row_of s f ;;
               all_res (fun i =>
                          if applies_to_trial fb f (i / su + 1) then
                            c0 <- get row i ;;
                            all_res (fun j => c <- get row (i + j) ;; Ok (cell_same c c0)) (seq 1 (su - 1))
                          else Ok true)
                       (range_step (length row) su))
          (seq 0 (length (fl_design fb))).

(** [factor_preamble_size] (as of /repo 7075cb8): the preamble size of the first
    crossing containing the factor; a later crossing containing it with a
    different size raises *)
Definition crossing_preamble (i : nat) : nat :=
  match fl_alignment fb with
  | PostPreamble => post_preamble_size fb
  | _ => nth i (fl_preambles fb) 0
  end.

Definition factor_preamble (f : nat) : res nat :=
  let hits := filter (fun p => existsb (Nat.eqb f) (snd p))
                     (combine (seq 0 (length (fl_crossings fb))) (fl_crossings fb)) in
  match hits with
  | [] => Ok 0
  | p :: rest =>
    if forallb (fun q => crossing_preamble (fst q) =? crossing_preamble (fst p)) rest
    then Ok (crossing_preamble (fst p)) else Err EValue
  end.

(** the trials a [while i < T: ...; i += step] loop visits, starting at [first] *)
Definition while_steps (first step : nat) : res (list nat) :=
  if T <=? first then Ok []
  else if step =? 0 then Err ELoop
  else Ok (map (fun q => first + q * step) (seq 0 ((T - first + step - 1) / step))).

(** [Sequential.potential_sample_conforms] (as of /repo 6ff33e3: the level index
    is [((i - preamble) // sustain) % n], as in the encoder) *)
Definition sequential_conforms (s : cand) (f : nat) : res bool :=
  let su := su_of f in
  pre <- factor_preamble f ;;
  steps <- while_steps pre su ;;
  all_res (fun i =>
             if nlev f =? 0 then Err EZeroDiv
             else
               row <- row_of s f ;;
               c <- get row i ;;
               Ok (cell_is (((i - pre) / su) mod nlev f) c))
          steps.

(** [LatinSquare] *)
Fixpoint step_rev (main pos : nat) (rs ns : list nat) : list nat :=
  match rs, ns with
  | r :: rs', n :: ns' =>
    if pos =? main then r :: step_rev main (pos - 1) rs' ns'
    else if S r <? n then S r :: rs'
    else 0 :: step_rev main (pos - 1) rs' ns'
  | _, _ => rs
  end.
Definition step_rotations (main : nat) (rot ns : list nat) : list nat :=
  rev (step_rev main (length rot - 1) (rev rot) (rev ns)).

(** index of the last element satisfying p (0 if none): [for idx, x in enumerate(xs): if p(x): r = idx] *)
Definition last_index {A} (p : A -> bool) (xs : list A) : nat :=
  fold_left (fun acc q => if p (snd q) then fst q else acc) (combine (seq 0 (length xs)) xs) 0.

Definition latin_segment (s : cand) (fs ns rot : list nat) (mainf diag i : nat) : res bool :=
  let js := filter (fun j => i + j <? T) (seq 0 diag) in
  ok1 <- all_res (fun j =>
           mrow <- row_of s mainf ;;
           mc <- get mrow (i + j) ;;
           let k := last_index (fun l => cell_is l mc) (seq 0 (nlev mainf)) in
           all_res (fun p =>
                      let '(f, (n, r)) := p in
                      if n =? 0 then Err EZeroDiv
                      else
                        row <- row_of s f ;;
                        c <- get row (i + j) ;;
                        Ok (cell_is ((k + r) mod n) c))
                   (combine fs (combine ns rot)))
         js ;;
  if negb ok1 then Ok false
  else
    (* main-factor selections unique within the segment *)
    (fix uniq (js : list nat) (found : list cell) : res bool :=
       match js with
       | [] => Ok true
       | j :: js' =>
         mrow <- row_of s mainf ;;
         mc <- get mrow (i + j) ;;
         if existsb (cell_same mc) found then Ok false else uniq js' (mc :: found)
       end) js [].

Fixpoint latin_loop (fuel : nat) (s : cand) (fs ns rot : list nat) (mainidx mainf diag step i : nat) : res bool :=
  match fuel with
  | O => Err ELoop
  | S fuel' =>
    if T <=? i then Ok true
    else
      b <- latin_segment s fs ns rot mainf diag i ;;
      if negb b then Ok false
      else latin_loop fuel' s fs ns (step_rotations mainidx rot ns) mainidx mainf diag step (i + step)
  end.

Definition latin_conforms (s : cand) (fs : list nat) : res bool :=
  match fs with
  | [] => Err EIndex
  | [_] => Ok true
  | f0 :: _ =>
    let ns := map nlev fs in
    let diag := fold_left Nat.max ns 0 in
    let mainidx := last_index (fun n => n =? diag) ns in
    let mainf := nth mainidx fs 0 in
    let su := su_of f0 in
    pre <- factor_preamble f0 ;;
    latin_loop (S T) s fs ns (map (fun _ => 0) fs) mainidx mainf diag (diag * su) pre
  end.

Definition constraint_conforms (s : cand) (c : fconstraint) : res bool :=
  match c with
  | FCross | FConsistency | FDerivation _ _ _ | FReify _ | FMinimumTrials _ | FContinuous => Ok true
  | FSustain => sustain_conforms s
  | FAtMost k f l wb => kinarow_conforms s RAtMost k f l wb
  | FAtLeast k f l wb => kinarow_conforms s RAtLeast k f l wb
  | FExactlyK k f l wb => kinarow_conforms s RExactlyK k f l wb
  | FExactlyKInARow k f l wb => kinarow_conforms s RExactlyRow k f l wb
  | FExactlyKMultiple k f l wb => kinarow_conforms s RMultiple k f l wb
  | FExclude f l => exclude_conforms s f l
  | FPin index f l wb => pin_conforms s index f l wb
  | FLatin fs => latin_conforms s fs
  | FSequential f => sequential_conforms s f
  | FOther _ => Err ELayout
  end.

Definition mismatch_constraints (s : cand) : res (list nat) :=
  bs <- map_res (constraint_conforms s) (fl_constraints fb) ;;
  Ok (map fst (filter (fun p => negb (snd p)) (combine (seq 0 (length bs)) bs))).

(** * Crossings: [sample_mismatch_crossing], [combinations_mismatched_weights] *)

Definition level_weight (f l : nat) : nat :=
  match factor_at fb f with
  | Some fd => match nth_error (ff_levels fd) l with Some lv => lv_weight lv | None => 1 end
  | None => 1
  end.

(** [combination_weight]: a fresh [Level('')] has weight 1 *)
Definition combo_weight (fs : list nat) (combo : list cell) : nat :=
  fold_left (fun acc p => match snd p with Some l => acc * level_weight (fst p) l | None => acc end)
            (combine fs combo) 1.

Definition combo_same (a b : list cell) : bool := list_all2 cell_same a b.

(** the [combos] dictionary: keys are tuples of level objects; a tuple holding a
    fresh [Level('')] is equal to no other key *)
Fixpoint combos_add (key : list cell) (d : list (list cell * nat)) : list (list cell * nat) :=
  match d with
  | [] => [(key, 1)]
  | (k, n) :: r => if combo_same k key then (k, S n) :: r else (k, n) :: combos_add key r
  end.

Definition mismatched_weights (s : cand) (fs : list nat) (a b weight : nat) (or_less : bool) : res nat :=
  keys <- map_res (fun t => map_res (fun f => row <- row_of s f ;; get row t) fs) (seq a (b - a)) ;;
  let combos := fold_left (fun d key => combos_add key d) keys [] in
  Ok (fold_left (fun acc kc =>
                   let want := combo_weight fs (fst kc) * weight in
                   let n := snd kc in
                   if want <=? n then acc + (n - want)
                   else if or_less then acc else acc + (want - n))
                combos 0).

Fixpoint chunk_loop (fuel : nat) (s : cand) (fs : list nat) (size weight start : nat) : res nat :=
  match fuel with
  | O => Err ELoop
  | S fuel' =>
    if T <=? start then Ok 0
    else
      let e := start + size in
      let or_less := T <? e in
      let e' := if or_less then T else e in
      bad <- mismatched_weights s fs start e' weight or_less ;;
      rest <- chunk_loop fuel' s fs size weight (start + size) ;;
      Ok (bad + rest)
  end.

Fixpoint first_index_of (c : list nat) (cs : list (list nat)) : nat :=
  match cs with
  | [] => 0
  | x :: r => if list_all2 Nat.eqb x c then 0 else S (first_index_of c r)
  end.

(** the key [f.name] of the user's dictionary: the candidate entry whose factor
    carries the same name (hidden factors have a [HiddenName], equal to no key) *)
Definition name_of (f : nat) : option String.string :=
  match factor_at fb f with Some fd => Some (ff_name fd) | None => None end.
Definition is_hidden (f : nat) : bool :=
  match factor_at fb f with Some fd => ff_hidden fd | None => false end.

Definition row_by_name (s : cand) (f : nat) : res (list cell) :=
  if is_hidden f then Err EKey
  else
    match find (fun p => match name_of (fst p), name_of f with
                         | Some a, Some b => String.eqb a b
                         | _, _ => false
                         end) s with
    | Some p => Ok (snd p)
    | None => Err EKey
    end.

Definition crossing_mismatch (s : cand) (i : nat) (fs : list nat) : res (list nat) :=
  let start := match fl_alignment fb with
               | PostPreamble => post_preamble_size fb
               | _ => nth i (fl_preambles fb) 0
               end in
  let cw := nth (first_index_of fs (fl_crossings fb)) (fl_weights fb) 0 in
  let size := nth i (fl_sizes fb) 0 * cw in
  let sw := cw * (match fs with f0 :: _ => su_of f0 | [] => 1 end) in
  rows <- map_res (row_by_name s) fs ;;
  let short := map (fun _ => i) (filter (fun row => negb (length row =? T)) rows) in
  bad <- chunk_loop (S T) s fs size sw start ;;
  Ok (short ++ (if 0 <? bad then [i] else [])).

Definition mismatch_crossings (s : cand) : res (list nat) :=
  ls <- map_res (fun p => crossing_mismatch s (fst p) (snd p))
                (combine (seq 0 (length (fl_crossings fb))) (fl_crossings fb)) ;;
  Ok (concat ls).

(** * [sample_mismatch_experiment] *)

Inductive verdict :=
| VError (e : err)
| VTrialCount
| VLists (factors constraints crossings : list nat).

(** the conversion raises on a name that is not a level of the factor *)
Definition conversion_ok (s : cand) : bool :=
  forallb (fun p => forallb (fun c => match c with Some l => l <? nlev (fst p) | None => true end) (snd p)) s.

Definition mismatch (s : cand) : verdict :=
  if existsb (fun p => negb (length (snd p) =? T)) s then VTrialCount
  else if negb (conversion_ok s) then VError EConv
  else
    match mismatch_factors s with
    | Err e => VError e
    | Ok fs =>
      match mismatch_constraints s with
      | Err e => VError e
      | Ok cs =>
        match mismatch_crossings s with
        | Err e => VError e
        | Ok xs => VLists fs cs xs
        end
      end
    end.

Definition no_mismatch (s : cand) : bool :=
  match mismatch s with VLists [] [] [] => true | _ => false end.

End Mismatch.
