(** Proofs about the mismatch-checker model (Check/Mismatch.v): each
    [potential_sample_conforms] computes the corresponding clause of the
    reference semantics (Design/Sem.v) on the same row and the same windows. *)
From Coq Require Import ZArith List Bool Arith Lia.
From SP Require Import Design.Flat Design.Layout Check.Mismatch.
From SP Require Design.Sem.
Import ListNotations.

(** * Generic facts about the error monad *)

Lemma map_res_ok : forall {A B} (f : A -> res B) (g : A -> B) xs,
  (forall x, In x xs -> f x = Ok (g x)) -> map_res f xs = Ok (map g xs).
Proof.
  induction xs as [|x xs IH]; intros H; simpl; auto.
  rewrite (H x (or_introl eq_refl)). simpl. rewrite IH; auto.
  intros y Hy. apply H. right; auto.
Qed.

Lemma all_res_ok : forall {A} (f : A -> res bool) (g : A -> bool) xs,
  (forall x, In x xs -> f x = Ok (g x)) -> all_res f xs = Ok (forallb g xs).
Proof.
  induction xs as [|x xs IH]; intros H; simpl; auto.
  rewrite (H x (or_introl eq_refl)).
  destruct (g x); simpl; auto. apply IH. intros y Hy. apply H. right; auto.
Qed.

Lemma forallb_id_map : forall {A} (g : A -> bool) xs,
  forallb (fun b => b) (map g xs) = forallb g xs.
Proof. induction xs; simpl; auto. rewrite IHxs; auto. Qed.

Lemma forallb_ext_in : forall {A} (f g : A -> bool) xs,
  (forall x, In x xs -> f x = g x) -> forallb f xs = forallb g xs.
Proof.
  induction xs as [|x xs IH]; intros H; simpl; auto.
  rewrite (H x (or_introl eq_refl)), IH; auto. intros; apply H; right; auto.
Qed.

(** * Cells, rows, slices *)

Lemma cell_is_eqb : forall l c, cell_is l c = Sem.cell_eqb c (Some l).
Proof. intros l [x|]; reflexivity. Qed.

Lemma get_nth : forall row i, i < length row -> get row i = Ok (nth i row None).
Proof.
  intros row i H. unfold get.
  destruct (nth_error row i) eqn:E.
  - f_equal. symmetry. apply nth_error_nth. exact E.
  - apply nth_error_None in E. lia.
Qed.

Lemma get_err : forall row i, length row <= i -> get row i = Err EIndex.
Proof.
  intros row i H. unfold get. destruct (nth_error row i) eqn:E; auto.
  assert (i < length row) by (apply nth_error_Some; congruence). lia.
Qed.

Lemma firstn_skipn_nth : forall {A} (d : A) (xs : list A) a n,
  a + n <= length xs -> firstn n (skipn a xs) = map (fun i => nth i xs d) (seq a n).
Proof.
  induction xs as [|x xs IH]; intros a n H; simpl in H.
  - assert (n = 0) by lia. subst. destruct a; reflexivity.
  - destruct a as [|a].
    + destruct n; simpl; auto. f_equal.
      specialize (IH 0 n). simpl in IH. rewrite IH by lia.
      rewrite <- seq_shift, map_map. reflexivity.
    + simpl. rewrite IH by lia. rewrite <- seq_shift, map_map. reflexivity.
Qed.

Lemma slice_res_slice : forall row a b,
  b <= length row -> slice_res row a b = Ok (Sem.slice row a b).
Proof.
  intros row a b H. unfold slice_res, Sem.slice.
  destruct (le_lt_dec a b) as [Hab|Hab].
  - rewrite (@firstn_skipn_nth (option nat) None row a (b - a)) by lia.
    apply map_res_ok. intros i Hi. apply in_seq in Hi. apply get_nth. lia.
  - replace (b - a) with 0 by lia. reflexivity.
Qed.

(** * [check_sequence]'s run counting is the reference [runs], for every list and level *)

Lemma counts_loop_runs_aux : forall l cells cur,
  counts_loop l cells cur = Sem.runs_aux l cells cur.
Proof.
  induction cells as [|c rest IH]; intros cur; simpl.
  - destruct cur; reflexivity.
  - rewrite <- cell_is_eqb. destruct (cell_is l c); simpl.
    + rewrite andb_false_r. apply IH.
    + rewrite andb_true_r. destruct cur; simpl; rewrite IH; reflexivity.
Qed.

Theorem counts_runs : forall l cells, counts l cells = Sem.runs l cells.
Proof. intros. apply counts_loop_runs_aux. Qed.

Lemma sum_runs_aux : forall l cells cur acc,
  fold_left Nat.add (Sem.runs_aux l cells cur) acc = acc + cur + Sem.count_level l cells.
Proof.
  induction cells as [|c rest IH]; intros cur acc; simpl.
  - unfold Sem.count_level; simpl. destruct cur; simpl; lia.
  - unfold Sem.count_level in *; simpl.
    destruct (Sem.cell_eqb c (Some l)); simpl.
    + rewrite IH. lia.
    + destruct cur; simpl; rewrite IH; lia.
Qed.

Lemma sum_runs : forall l cells, fold_left Nat.add (Sem.runs l cells) 0 = Sem.count_level l cells.
Proof. intros. unfold Sem.runs. rewrite sum_runs_aux. lia. Qed.

(** * [map_block_trial_ranges]: every window ends within the trials (since /repo 2f184ec) *)

Lemma ranges_loop_snd : forall fb fuel start e step stop r,
  In r (ranges_loop fb fuel start e step stop) -> snd r <= fl_trials fb.
Proof.
  induction fuel as [|fuel IH]; intros start e step stop r H; simpl in H.
  - contradiction.
  - destruct (start <? stop); [|contradiction].
    destruct H as [H|H].
    + subst r. simpl. unfold trials. apply Nat.le_min_r.
    + eapply IH; eauto.
Qed.

Local Opaque ranges_loop.
Lemma ranges_within_trials : forall fb wb ranges r,
  map_block_trial_ranges fb wb = Some ranges -> In r ranges -> snd r <= fl_trials fb.
Proof.
  intros fb wb ranges r H Hin. unfold map_block_trial_ranges in H.
  destruct wb as [g|].
  - destruct ((g_trials g <=? g_preamble g) && (0 <? trials fb - g_preamble g)); [discriminate|].
    destruct (fl_alignment fb).
    + destruct (post_preamble_size fb <? g_preamble g); [discriminate|].
      injection H as H. rewrite <- H in Hin. exact (ranges_loop_snd _ _ _ _ _ _ _ Hin).
    + injection H as H. rewrite <- H in Hin. exact (ranges_loop_snd _ _ _ _ _ _ _ Hin).
    + injection H as H. rewrite <- H in Hin. exact (ranges_loop_snd _ _ _ _ _ _ _ Hin).
  - injection H as H. rewrite <- H in Hin. exact (ranges_loop_snd _ _ _ _ _ _ _ Hin).
Qed.
Local Transparent ranges_loop.

(** * k-in-a-row kinds *)

Definition sem_kind (kind : rowkind) (k : nat) : option Sem.ckind :=
  match kind with
  | RAtMost => Some (Sem.KAtMost k)
  | RAtLeast => Some (Sem.KAtLeast k)
  | RExactlyK => Some (Sem.KExactlyK k)
  | RExactlyRow => Some (Sem.KExactlyInARow k)
  | RMultiple => None
  end.

Theorem kinarow_conforms_sem : forall fb s kind k f l wb row ranges ck S (s' : Sem.tseq) f',
  row_of s f = Ok row ->
  length row = fl_trials fb ->
  map_block_trial_ranges fb wb = Some ranges ->
  sem_kind kind k = Some ck ->
  nth f' s' ([] : list Sem.cell) = row ->
  kinarow_conforms fb s kind k f l wb
  = Ok (Sem.constraint_ok S s' {| Sem.k_kind := ck; Sem.k_factor := f'; Sem.k_level := l; Sem.k_windows := ranges |}).
Proof.
  intros fb s kind k f l wb row ranges ck S s' f' Hrow Hlen Hr Hk Hnth.
  unfold kinarow_conforms. rewrite Hrow. simpl. rewrite Hr.
  assert (Hsl : forall r, In r ranges -> slice_res row (fst r) (snd r) = Ok (Sem.slice row (fst r) (snd r))).
  { intros r Hin. apply slice_res_slice. rewrite Hlen. eapply ranges_within_trials; eauto. }
  destruct kind; simpl in Hk; inversion Hk; subst ck; unfold Sem.constraint_ok; simpl; rewrite Hnth.
  - rewrite (map_res_ok _ (fun w => forallb (fun n => n <=? k) (Sem.runs l (Sem.slice row (fst w) (snd w))))).
    + simpl. rewrite forallb_id_map. reflexivity.
    + intros r Hin. rewrite (Hsl r Hin). simpl. rewrite counts_runs. reflexivity.
  - rewrite (map_res_ok _ (fun w => forallb (fun n => k <=? n) (Sem.runs l (Sem.slice row (fst w) (snd w))))).
    + simpl. rewrite forallb_id_map. reflexivity.
    + intros r Hin. rewrite (Hsl r Hin). simpl. rewrite counts_runs. reflexivity.
  - rewrite (map_res_ok _ (fun w => Sem.count_level l (Sem.slice row (fst w) (snd w)) =? k)).
    + simpl. rewrite forallb_id_map. reflexivity.
    + intros r Hin. rewrite (Hsl r Hin). simpl. rewrite counts_runs, sum_runs. reflexivity.
  - rewrite (map_res_ok _ (fun w => forallb (fun n => n =? k) (Sem.runs l (Sem.slice row (fst w) (snd w))))).
    + simpl. rewrite forallb_id_map. reflexivity.
    + intros r Hin. rewrite (Hsl r Hin). simpl. rewrite counts_runs. reflexivity.
Qed.

(** * Exclude *)

Lemma existsb_count_level : forall l row,
  negb (existsb (cell_is l) row) = (Sem.count_level l row =? 0).
Proof.
  intros l row. unfold Sem.count_level.
  induction row as [|c rest IH]; simpl; auto.
  rewrite cell_is_eqb. destruct (Sem.cell_eqb c (Some l)); simpl; auto.
Qed.

Theorem exclude_conforms_sem : forall s f l row S (s' : Sem.tseq) f' ws,
  row_of s f = Ok row -> nth f' s' ([] : list Sem.cell) = row ->
  exclude_conforms s f l
  = Ok (Sem.constraint_ok S s' {| Sem.k_kind := Sem.KExclude; Sem.k_factor := f'; Sem.k_level := l; Sem.k_windows := ws |}).
Proof.
  intros. unfold exclude_conforms. rewrite H. simpl. unfold Sem.constraint_ok. simpl.
  rewrite H0. rewrite existsb_count_level. reflexivity.
Qed.

(** * Pin (through [get_trial_numbers]) *)

Definition pin_pos (i : Z) (su : nat) (w : nat * nat) : Z :=
  (if 0 <=? i then Z.of_nat (fst w) + i * Z.of_nat su else Z.of_nat (snd w) + i * Z.of_nat su)%Z.

Definition pin_in (i : Z) (su : nat) (w : nat * nat) : bool :=
  Sem.in_range (pin_pos i su w) (Z.of_nat (fst w)) (Z.of_nat (snd w)).

Definition pin_trials (i : Z) (su : nat) (w : nat * nat) : list nat :=
  if pin_in i su w then map (fun j => Z.to_nat (pin_pos i su w) + j) (seq 0 su) else [].

Lemma get_trial_numbers_spec : forall fb f i wb ranges,
  map_block_trial_ranges fb wb = Some ranges ->
  get_trial_numbers fb f i wb = Some (flat_map (pin_trials i (geometry_sustain fb wb f)) ranges).
Proof.
  intros fb f i wb ranges H. unfold get_trial_numbers. rewrite H. simpl. f_equal.
  apply flat_map_ext. intros r. unfold pin_trials, pin_in, pin_pos, Sem.in_range.
  destruct (Z.ltb_spec i 0); destruct (Z.leb_spec 0 i); try lia;
    rewrite (Z.mul_comm (Z.of_nat (geometry_sustain fb wb f)) i); reflexivity.
Qed.

Lemma forallb_flat_map : forall {A B} (g : B -> bool) (h : A -> list B) xs,
  forallb g (flat_map h xs) = forallb (fun x => forallb g (h x)) xs.
Proof.
  induction xs as [|x xs IH]; simpl; auto. rewrite forallb_app, IH. reflexivity.
Qed.

Lemma forallb_map : forall {A B} (g : B -> bool) (h : A -> B) xs,
  forallb g (map h xs) = forallb (fun x => g (h x)) xs.
Proof. induction xs; simpl; auto. rewrite IHxs; auto. Qed.

Definition nonempty_all (g : nat -> bool) (tn : list nat) : bool :=
  match tn with [] => false | _ :: _ => forallb g tn end.

Lemma nonempty_all_app : forall g xs ys, xs <> [] -> nonempty_all g (xs ++ ys) = forallb g (xs ++ ys).
Proof. intros g [|x xs] ys H; [congruence|reflexivity]. Qed.

Lemma pin_bool : forall (g : nat -> bool) i su ws, 1 <= su ->
  nonempty_all g (flat_map (pin_trials i su) ws)
  = existsb (pin_in i su) ws &&
    forallb (fun w => if pin_in i su w
                      then forallb (fun j => g (Z.to_nat (pin_pos i su w) + j)) (seq 0 su) else true) ws.
Proof.
  intros g i su ws Hsu.
  assert (Hone : forall w, forallb g (pin_trials i su w)
            = if pin_in i su w then forallb (fun j => g (Z.to_nat (pin_pos i su w) + j)) (seq 0 su) else true).
  { intros w. unfold pin_trials. destruct (pin_in i su w); auto. apply forallb_map. }
  assert (Hall : forall ws, forallb g (flat_map (pin_trials i su) ws)
            = forallb (fun w => if pin_in i su w
                      then forallb (fun j => g (Z.to_nat (pin_pos i su w) + j)) (seq 0 su) else true) ws).
  { intros ws0. rewrite forallb_flat_map. apply forallb_ext_in. intros w _. apply Hone. }
  induction ws as [|w ws IH].
  - reflexivity.
  - cbn [flat_map existsb forallb].
    destruct (pin_in i su w) eqn:E.
    + assert (Hne : pin_trials i su w <> []).
      { unfold pin_trials. rewrite E. destruct su; [lia|]. simpl. discriminate. }
      rewrite (nonempty_all_app g _ _ Hne). rewrite forallb_app, Hall, Hone, E. reflexivity.
    + assert (He : pin_trials i su w = []) by (unfold pin_trials; rewrite E; reflexivity).
      rewrite He. simpl. apply IH.
Qed.

Theorem pin_conforms_sem : forall fb s i f l wb row ranges su tn S (s' : Sem.tseq) f',
  row_of s f = Ok row ->
  map_block_trial_ranges fb wb = Some ranges ->
  geometry_sustain fb wb f = su -> 1 <= su ->
  get_trial_numbers fb f i wb = Some tn ->
  (forall t, In t tn -> t < length row) ->
  nth f' s' ([] : list Sem.cell) = row ->
  pin_conforms fb s i f l wb
  = Ok (Sem.constraint_ok S s' {| Sem.k_kind := Sem.KPin i su; Sem.k_factor := f'; Sem.k_level := l; Sem.k_windows := ranges |}).
Proof.
  intros fb s i f l wb row ranges su tn S s' f' Hrow Hr Hsu Hsu1 Htn Hlt Hnth.
  unfold pin_conforms. rewrite Hrow. simpl. rewrite Htn.
  rewrite (get_trial_numbers_spec _ _ _ _ _ Hr) in Htn. rewrite Hsu in Htn. injection Htn as Htn.
  set (g := fun t => Sem.cell_eqb (nth t row None) (Some l)).
  assert (Hmodel : (match tn with
                    | [] => Ok false
                    | _ :: _ => all_res (fun t => c <- get row t ;; Ok (cell_is l c)) tn
                    end) = Ok (nonempty_all g tn)).
  { destruct tn as [|t0 tn0]; auto.
    apply all_res_ok. intros t Ht. rewrite (get_nth _ _ (Hlt t Ht)). simpl.
    rewrite cell_is_eqb. reflexivity. }
  rewrite Hmodel. f_equal. rewrite <- Htn. rewrite (pin_bool g i su ranges Hsu1).
  unfold Sem.constraint_ok. simpl. rewrite Hnth. reflexivity.
Qed.

(** * Sequential (as of /repo 6ff33e3) *)

Lemma ceil_steps_lt : forall x su q, 0 < su -> q < (x + su - 1) / su -> q * su < x.
Proof.
  intros x su q Hsu Hq.
  assert (su * ((x + su - 1) / su) <= x + su - 1) by (apply Nat.mul_div_le; lia).
  nia.
Qed.

Lemma ceil_steps_in : forall x su y, 0 < su -> y < x -> y / su < (x + su - 1) / su.
Proof.
  intros x su y Hsu Hy.
  replace (x + su - 1) with ((x - 1) + 1 * su) by lia.
  rewrite Nat.div_add by lia.
  assert (y / su <= (x - 1) / su) by (apply Nat.div_le_mono; lia). lia.
Qed.

Theorem sequential_conforms_sem : forall fb s f row first su n S (s' : Sem.tseq) f' fd l0 ws,
  row_of s f = Ok row ->
  length row = fl_trials fb ->
  factor_preamble fb f = Ok first ->
  su_of fb f = su -> 1 <= su ->
  nlev fb f = n -> 1 <= n ->
  (* the row is constant on the sustain groups counted from [first] (clause V4 of the reference semantics) *)
  (forall t, first <= t < fl_trials fb -> nth t row None = nth (first + ((t - first) / su) * su) row None) ->
  nth f' s' ([] : list Sem.cell) = row ->
  Sem.s_trials S = fl_trials fb ->
  nth_error (Sem.s_factors S) f' = Some fd -> Sem.f_nlevels fd = n ->
  sequential_conforms fb s f
  = Ok (Sem.constraint_ok S s' {| Sem.k_kind := Sem.KSequential first su; Sem.k_factor := f'; Sem.k_level := l0; Sem.k_windows := ws |}).
Proof.
  intros fb s f row first su n S s' f' fd l0 ws Hrow Hlen Hpre Hsu Hsu1 Hn Hn1 Hconst Hnth HT Hfd Hnl.
  unfold sequential_conforms. rewrite Hpre. simpl. rewrite Hsu.
  unfold Sem.constraint_ok. simpl. rewrite Hnth, Hfd, Hnl, HT. unfold Sem.cell in *.
  unfold while_steps, T.
  destruct (fl_trials fb <=? first) eqn:ET.
  - simpl. f_equal. symmetry. apply forallb_forall. intros t Ht. apply in_seq in Ht.
    apply Nat.leb_le in ET. assert (t <? first = true) by (apply Nat.ltb_lt; lia). rewrite H. reflexivity.
  - apply Nat.leb_gt in ET.
    assert (su =? 0 = false) by (apply Nat.eqb_neq; lia). rewrite H. simpl.
    set (g := fun i => Sem.cell_eqb (nth i row None) (Some (((i - first) / su) mod n))).
    rewrite (all_res_ok _ g).
    + f_equal. apply Bool.eq_iff_eq_true. rewrite !forallb_forall. split.
      * intros Hm t Ht. apply in_seq in Ht.
        destruct (t <? first) eqn:Etf; auto. apply Nat.ltb_ge in Etf.
        set (q := (t - first) / su).
        assert (Hq : q < (fl_trials fb - first + su - 1) / su) by (apply ceil_steps_in; lia).
        assert (Hin : In (first + q * su) (map (fun q0 => first + q0 * su) (seq 0 ((fl_trials fb - first + su - 1) / su)))).
        { apply in_map_iff. exists q. split; auto. apply in_seq. lia. }
        specialize (Hm _ Hin). unfold g in Hm.
        replace (first + q * su - first) with (q * su) in Hm by lia.
        rewrite Nat.div_mul in Hm by lia.
        rewrite (Hconst t) by lia. exact Hm.
      * intros Hs i Hi. apply in_map_iff in Hi. destruct Hi as [q [Hi Hq]]. apply in_seq in Hq. subst i.
        assert (q * su < fl_trials fb - first) by (apply ceil_steps_lt; lia).
        assert (Hin : In (first + q * su) (seq 0 (fl_trials fb))) by (apply in_seq; lia).
        specialize (Hs _ Hin). simpl in Hs.
        assert (first + q * su <? first = false) by (apply Nat.ltb_ge; lia). rewrite H1 in Hs. exact Hs.
    + intros i Hi. apply in_map_iff in Hi. destruct Hi as [q [Hi Hq]]. apply in_seq in Hq. subst i.
      assert (q * su < fl_trials fb - first) by (apply ceil_steps_lt; lia).
      unfold nlev in *. rewrite Hn.
      assert (n =? 0 = false) by (apply Nat.eqb_neq; lia). rewrite H1.
      rewrite Hrow. simpl. rewrite get_nth by lia. simpl. rewrite cell_is_eqb. reflexivity.
Qed.
