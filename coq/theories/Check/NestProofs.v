(** The fragment theorem with sustain counts (Nest / Repeat of blocks without
    derived factors): [Sustain.potential_sample_conforms] against clause V4 of
    the reference semantics, Pin and Sequential with sustain, and the assembly
    [nfrag fb -> (no_mismatch <-> valid_b (code_sem_n fb))]. *)
From Coq Require Import ZArith List Bool Arith Lia.
From SP Require Import Design.Flat Design.Layout Check.Mismatch Check.MismatchProofs Check.CrossingProofs
                       Check.FragmentProofs.
From SP Require Design.Sem.
Import ListNotations.

Definition csem_n (fb : flat) (c : fconstraint) : list Sem.dconstraint :=
  match c with
  | FAtMost k f l wb => mk_c (Sem.KAtMost k) f l (rng fb wb)
  | FAtLeast k f l wb => mk_c (Sem.KAtLeast k) f l (rng fb wb)
  | FExactlyK k f l wb => mk_c (Sem.KExactlyK k) f l (rng fb wb)
  | FExactlyKInARow k f l wb => mk_c (Sem.KExactlyInARow k) f l (rng fb wb)
  | FExclude f l => mk_c Sem.KExclude f l []
  | FPin i f l wb => mk_c (Sem.KPin i (geometry_sustain fb wb f)) f l (rng fb wb)
  | FSequential f =>
    mk_c (Sem.KSequential (match factor_preamble fb f with Ok p => p | Err _ => 0 end) (su_of fb f)) f 0 []
  | _ => []
  end.

Definition code_sem_n (fb : flat) : Sem.sem :=
  {| Sem.s_trials := fl_trials fb;
     Sem.s_factors := map (fun p : nat * ffactor =>
                             {| Sem.f_nlevels := length (ff_levels (snd p)); Sem.f_sustain := su_of fb (fst p);
                                Sem.f_derived := None |})
                          (combine (seq 0 (length (fl_design fb))) (fl_design fb));
     Sem.s_crossings := map (crossing_sem fb) (combine (seq 0 (length (fl_crossings fb))) (fl_crossings fb));
     Sem.s_constraints := flat_map (csem_n fb) (fl_constraints fb) |}.

Definition cfrag_n (fb : flat) (c : fconstraint) : bool :=
  let n := length (fl_design fb) in
  match c with
  | FCross | FConsistency | FSustain | FReify _ | FMinimumTrials _ | FContinuous => true
  | FAtMost _ f _ wb | FAtLeast _ f _ wb | FExactlyK _ f _ wb | FExactlyKInARow _ f _ wb => (f <? n) && ranges_ok fb wb
  | FExclude f _ => (f <? n) && negb (in_crossing fb f)
  | FPin i f _ wb =>
    (f <? n) && ranges_ok fb wb && (1 <=? geometry_sustain fb wb f) &&
    match get_trial_numbers fb f i wb with
    | Some tn => forallb (fun t => t <? fl_trials fb) tn
    | None => false
    end
  | FSequential f =>
    (f <? n) && match factor_preamble fb f with Ok p => p mod su_of fb f =? 0 | Err _ => false end
  | _ => false
  end.

Definition is_sustain (c : fconstraint) : bool := match c with FSustain => true | _ => false end.

(** like [frag], with sustain counts: every count divides the trial count, and
    the [Sustain] constraint is present as soon as one count is not 1 (as
    [_create] guarantees) *)
Definition nfrag (fb : flat) : bool :=
  forallb (fun fd => negb (ff_hidden fd) && match ff_window fd with None => true | Some _ => false end
                     && (1 <=? length (ff_levels fd))) (fl_design fb)
  && forallb (fun su => (1 <=? su) && (fl_trials fb mod su =? 0)) (fl_sustains fb)
  && (forallb (fun su => su =? 1) (fl_sustains fb) || existsb is_sustain (fl_constraints fb))
  && forallb (cfrag_n fb) (fl_constraints fb)
  && forallb (xfrag fb) (combine (seq 0 (length (fl_crossings fb))) (fl_crossings fb)).

(** clause V4 on the rows *)
Definition V4 (fb : flat) (rows : list (list (option nat))) : Prop :=
  forall f, f < length rows -> forall t, t < fl_trials fb ->
    nth ((t / su_of fb f) * su_of fb f) (nth f rows []) None = nth t (nth f rows []) None.

(** * Facts about [nfrag] *)

Lemma nfrag_design : forall fb f fd, nfrag fb = true -> nth_error (fl_design fb) f = Some fd ->
  ff_hidden fd = false /\ ff_window fd = None /\ 1 <= length (ff_levels fd).
Proof.
  intros fb f fd H E. unfold nfrag in H. rewrite !andb_true_iff in H. destruct H as [[[[H _] _] _] _].
  rewrite forallb_forall in H. specialize (H fd (nth_error_In _ _ E)).
  rewrite !andb_true_iff in H. destruct H as [[H1 H2] H3].
  apply negb_true_iff in H1. apply Nat.leb_le in H3. destruct (ff_window fd); [discriminate|]. auto.
Qed.

Lemma nfrag_su : forall fb f, nfrag fb = true -> 1 <= su_of fb f /\ fl_trials fb mod su_of fb f = 0.
Proof.
  intros fb f H. unfold nfrag in H. rewrite !andb_true_iff in H. destruct H as [[[[_ H] _] _] _].
  rewrite forallb_forall in H. unfold su_of, sustain_of.
  assert (G : forall l acc, (forall cs, In cs l -> 1 <= snd cs /\ fl_trials fb mod snd cs = 0) ->
            (1 <= acc /\ fl_trials fb mod acc = 0) ->
            let r := fold_left (fun acc cs => if existsb (Nat.eqb f) (fst cs) then snd cs else acc) l acc in
            1 <= r /\ fl_trials fb mod r = 0).
  { induction l as [|cs l IH]; intros acc Hl Ha; simpl; auto.
    apply IH; [intros; apply Hl; right; auto|].
    destruct (existsb (Nat.eqb f) (fst cs)); auto. apply Hl; left; auto. }
  apply G.
  - intros cs Hcs. destruct cs as [c n]. apply in_combine_r in Hcs. simpl.
    specialize (H n Hcs). apply andb_prop in H. destruct H as [H1 H2].
    apply Nat.leb_le in H1. apply Nat.eqb_eq in H2. auto.
  - split; [lia | apply Nat.mod_1_r].
Qed.

Lemma nfrag_all_one : forall fb f, forallb (fun su => su =? 1) (fl_sustains fb) = true -> su_of fb f = 1.
Proof. intros. unfold su_of. apply sustain_of_one. auto. Qed.

Lemma nfrag_no_hidden : forall fb, nfrag fb = true -> no_hidden fb.
Proof. intros fb H f fd E. apply (nfrag_design fb f fd H E). Qed.

Lemma nfrag_cfrag : forall fb c, nfrag fb = true -> In c (fl_constraints fb) -> cfrag_n fb c = true.
Proof.
  intros fb c H Hin. unfold nfrag in H. rewrite !andb_true_iff in H. destruct H as [[_ H] _].
  rewrite forallb_forall in H. auto.
Qed.

Lemma nfrag_xfrag : forall fb p, nfrag fb = true ->
  In p (combine (seq 0 (length (fl_crossings fb))) (fl_crossings fb)) -> xfrag fb p = true.
Proof.
  intros fb p H Hin. unfold nfrag in H. rewrite !andb_true_iff in H. destruct H as [_ H].
  rewrite forallb_forall in H. auto.
Qed.

Lemma V4_all_one : forall fb rows, (forall f, su_of fb f = 1) -> V4 fb rows.
Proof. intros fb rows H f Hf t Ht. rewrite H, Nat.div_1_r, Nat.mul_1_r. reflexivity. Qed.

(** * Sustain *)

Definition sustain_row_ok (su T : nat) (row : list (option nat)) : bool :=
  forallb (fun i => forallb (fun j => cell_same (nth (i + j) row None) (nth i row None)) (seq 1 (su - 1)))
          (range_step T su).

Lemma div_group : forall q su j, j < su -> (q * su + j) / su = q.
Proof.
  intros q su j H. rewrite Nat.mul_comm. rewrite (Nat.mul_comm su q).
  rewrite Nat.div_add_l by lia. rewrite Nat.div_small by lia. lia.
Qed.

Lemma group_bound : forall T su q j, 1 <= su -> T mod su = 0 -> q < (T + su - 1) / su -> j < su -> q * su + j < T.
Proof.
  intros T su q j Hsu Hmod Hq Hj.
  assert (q * su < T) by (apply ceil_steps_lt; lia).
  assert (T = su * (T / su)) by (apply Nat.div_exact; lia).
  assert (q < T / su) by nia. nia.
Qed.

Lemma sustain_row_V4 : forall su T row, 1 <= su -> T mod su = 0 -> length row = T ->
  (forall c, In c row -> c <> None) ->
  (sustain_row_ok su T row = true <-> forall t, t < T -> nth ((t / su) * su) row None = nth t row None).
Proof.
  intros su T row Hsu Hmod Hlen Hsome. unfold sustain_row_ok, range_step. split.
  - intros H t Ht. rewrite forallb_forall in H.
    set (q := t / su). set (j := t mod su).
    assert (Et : t = q * su + j) by (unfold q, j; rewrite Nat.mul_comm; apply Nat.div_mod; lia).
    assert (Hj : j < su) by (unfold j; apply Nat.mod_upper_bound; lia).
    destruct (Nat.eq_dec j 0) as [E0|Hn0]; [rewrite Et, E0, Nat.add_0_r; reflexivity|].
    assert (Hq : q < (T + su - 1) / su) by (unfold q; apply ceil_steps_in; lia).
    assert (Hin : In (q * su) (map (fun q0 => q0 * su) (seq 0 ((T + su - 1) / su)))).
    { apply in_map_iff. exists q. split; auto. apply in_seq. lia. }
    specialize (H _ Hin). rewrite forallb_forall in H.
    assert (Hjin : In j (seq 1 (su - 1))) by (apply in_seq; lia).
    specialize (H j Hjin). rewrite <- Et in H.
    unfold cell_same in H. destruct (nth t row None) as [x|]; [|discriminate].
    destruct (nth (q * su) row None) as [y|]; [|discriminate].
    apply Nat.eqb_eq in H. congruence.
  - intros H. apply forallb_forall. intros i Hi. apply in_map_iff in Hi. destruct Hi as [q [<- Hq]].
    apply in_seq in Hq. apply forallb_forall. intros j Hj. apply in_seq in Hj.
    assert (Hb : q * su + j < T) by (apply group_bound; lia).
    specialize (H (q * su + j) Hb). rewrite div_group in H by lia. rewrite H.
    assert (Hin : In (nth (q * su + j) row None) row) by (apply nth_In; lia).
    specialize (Hsome _ Hin). destruct (nth (q * su + j) row None) as [x|]; [|congruence].
    simpl. apply Nat.eqb_refl.
Qed.

Lemma applies_no_window : forall fb f fd k, nth_error (fl_design fb) f = Some fd -> ff_window fd = None ->
  applies_to_trial fb f k = true.
Proof. intros. unfold applies_to_trial, factor_at. rewrite H, H0. reflexivity. Qed.

Lemma sustain_model : forall fb rows, nfrag fb = true -> wf_rows fb rows ->
  sustain_conforms fb (cand_of_rows rows)
  = Ok (forallb (fun f => sustain_row_ok (su_of fb f) (fl_trials fb) (nth f rows [])) (seq 0 (length (fl_design fb)))).
Proof.
  intros fb rows Hfr [Hlen Hrows]. unfold sustain_conforms.
  apply all_res_ok. intros f Hf. apply in_seq in Hf.
  destruct (nfrag_su fb f Hfr) as [Hsu Hmod].
  destruct (Hrows f ltac:(lia)) as [HT Hcells].
  destruct (su_of fb f <=? 1) eqn:E1.
  - apply Nat.leb_le in E1. assert (E : su_of fb f = 1) by lia. rewrite E.
    unfold sustain_row_ok. simpl. f_equal. symmetry. apply forallb_forall. intros; reflexivity.
  - apply Nat.leb_gt in E1. rewrite row_of_rows by lia. simpl. rewrite HT.
    unfold sustain_row_ok. apply all_res_ok. intros i Hi.
    unfold range_step in Hi. apply in_map_iff in Hi. destruct Hi as [q [<- Hq]]. apply in_seq in Hq.
    destruct (nth_error (fl_design fb) f) as [fd|] eqn:Ef; [|apply nth_error_None in Ef; lia].
    destruct (nfrag_design fb f fd Hfr Ef) as [_ [Hw _]].
    rewrite (applies_no_window fb f fd _ Ef Hw).
    assert (Hb0 : q * su_of fb f + 0 < fl_trials fb) by (apply group_bound; lia).
    rewrite get_nth by lia. simpl.
    apply all_res_ok. intros j Hj. apply in_seq in Hj.
    assert (Hb : q * su_of fb f + j < fl_trials fb) by (apply group_bound; lia).
    rewrite get_nth by lia. reflexivity.
Qed.

Lemma sustain_model_V4 : forall fb rows, nfrag fb = true -> wf_rows fb rows ->
  (forallb (fun f => sustain_row_ok (su_of fb f) (fl_trials fb) (nth f rows [])) (seq 0 (length (fl_design fb))) = true
   <-> V4 fb rows).
Proof.
  intros fb rows Hfr [Hlen Hrows]. rewrite forallb_forall. unfold V4. split.
  - intros H f Hf. destruct (nfrag_su fb f Hfr) as [Hsu Hmod]. destruct (Hrows f Hf) as [HT Hcells].
    apply (sustain_row_V4 (su_of fb f) (fl_trials fb) (nth f rows [])); auto.
    + intros c Hc. destruct (Hcells c Hc) as [l [-> _]]. discriminate.
    + apply H. apply in_seq. lia.
  - intros H f Hf. apply in_seq in Hf. destruct (nfrag_su fb f Hfr) as [Hsu Hmod].
    destruct (Hrows f ltac:(lia)) as [HT Hcells].
    apply (sustain_row_V4 (su_of fb f) (fl_trials fb) (nth f rows [])); auto.
    + intros c Hc. destruct (Hcells c Hc) as [l [-> _]]. discriminate.
    + apply H. lia.
Qed.

Lemma sustain_conforms_V4 : forall fb rows, nfrag fb = true -> wf_rows fb rows ->
  exists b, sustain_conforms fb (cand_of_rows rows) = Ok b /\ (b = true <-> V4 fb rows).
Proof.
  intros fb rows H1 H2. eexists. split; [apply sustain_model; auto | apply sustain_model_V4; auto].
Qed.

(** * Factors of the reference semantics: [factor_ok] is clause V4 on well-formed rows *)

Lemma nth_error_combine_seq : forall {A} (ys : list A) a i,
  nth_error (combine (seq a (length ys)) ys) i = option_map (fun y => (a + i, y)) (nth_error ys i).
Proof.
  induction ys as [|y ys IH]; intros a i; simpl.
  - destruct i; reflexivity.
  - destruct i; simpl.
    + rewrite Nat.add_0_r. reflexivity.
    + rewrite IH. replace (S a + i) with (a + S i) by lia. reflexivity.
Qed.

Lemma code_sem_n_factor : forall fb f fd, nth_error (fl_design fb) f = Some fd ->
  nth_error (Sem.s_factors (code_sem_n fb)) f
  = Some {| Sem.f_nlevels := length (ff_levels fd); Sem.f_sustain := su_of fb f; Sem.f_derived := None |}.
Proof.
  intros. simpl. rewrite nth_error_map, nth_error_combine_seq, H. reflexivity.
Qed.

Lemma factor_ok_n : forall fb rows f fd, nfrag fb = true -> wf_rows fb rows ->
  nth_error (fl_design fb) f = Some fd ->
  (Sem.factor_ok (code_sem_n fb) rows f
     {| Sem.f_nlevels := length (ff_levels fd); Sem.f_sustain := su_of fb f; Sem.f_derived := None |} = true
   <-> forall t, t < fl_trials fb ->
         nth ((t / su_of fb f) * su_of fb f) (nth f rows []) None = nth t (nth f rows []) None).
Proof.
  intros fb rows f fd Hfr [Hlen Hrows] E.
  assert (Hf : f < length rows).
  { rewrite Hlen. apply nth_error_Some. congruence. }
  destruct (Hrows f Hf) as [HT Hcells].
  unfold Sem.factor_ok. cbn [Sem.f_sustain Sem.f_nlevels Sem.f_derived Sem.s_trials code_sem_n].
  unfold Sem.cell in *. rewrite HT, Nat.eqb_refl, andb_true_l. rewrite forallb_forall.
  unfold Sem.get_cell, Sem.applies. cbn [Sem.f_sustain Sem.f_nlevels Sem.f_derived].
  split.
  - intros H t Ht. specialize (H t ltac:(apply in_seq; lia)).
    assert (Hin : In (nth t (nth f rows []) None) (nth f rows [])) by (apply nth_In; lia).
    destruct (Hcells _ Hin) as [l [El Hl]]. unfold Sem.cell in *. rewrite El in *.
    rewrite !andb_true_iff in H. destruct H as [[_ H] _].
    destruct (nth (t / su_of fb f * su_of fb f) (nth f rows []) None) as [x|]; simpl in H; [|discriminate].
    apply Nat.eqb_eq in H. congruence.
  - intros H t Ht. apply in_seq in Ht.
    assert (Hin : In (nth t (nth f rows []) None) (nth f rows [])) by (apply nth_In; lia).
    destruct (Hcells _ Hin) as [l [El Hl]]. unfold Sem.cell in *.
    rewrite (H t ltac:(lia)). rewrite El.
    rewrite (nlev_nth fb f fd E) in Hl. apply Nat.ltb_lt in Hl. rewrite Hl. simpl. rewrite Nat.eqb_refl. reflexivity.
Qed.

Lemma factors_sem_n : forall fb rows, nfrag fb = true -> wf_rows fb rows ->
  (forallb (fun p => Sem.factor_ok (code_sem_n fb) rows (fst p) (snd p))
           (Sem.index_list (Sem.s_factors (code_sem_n fb))) = true <-> V4 fb rows).
Proof.
  intros fb rows Hfr Hwf. pose proof Hwf as [Hlen Hrows]. rewrite forallb_forall. split.
  - intros H f Hf t Ht.
    destruct (nth_error (fl_design fb) f) as [fd|] eqn:E; [|apply nth_error_None in E; lia].
    apply (factor_ok_n fb rows f fd Hfr Hwf E); auto.
    apply (H (f, {| Sem.f_nlevels := length (ff_levels fd); Sem.f_sustain := su_of fb f; Sem.f_derived := None |})).
    unfold Sem.index_list.
    pose proof (code_sem_n_factor fb f fd E) as Hn.
    assert (Hlt : f < length (Sem.s_factors (code_sem_n fb))) by (apply nth_error_Some; congruence).
    pose proof (nth_error_combine_seq (Sem.s_factors (code_sem_n fb)) 0 f) as Hc.
    rewrite Hn in Hc. simpl in Hc. apply nth_error_In in Hc. exact Hc.
  - intros H p Hp. unfold Sem.index_list in Hp.
    destruct (in_combine_seq _ _ _ Hp) as [f [Hf [Hfst Hnth]]]. simpl in Hfst.
    simpl in Hf. rewrite map_length, combine_length, seq_length, Nat.min_id in Hf.
    destruct (nth_error (fl_design fb) f) as [fd|] eqn:E; [|apply nth_error_None in E; lia].
    rewrite (code_sem_n_factor fb f fd E) in Hnth. injection Hnth as Hsnd.
    rewrite Hfst, <- Hsnd. apply (factor_ok_n fb rows f fd Hfr Hwf E).
    intros t Ht. apply H; auto. rewrite Hlen. lia.
Qed.

(** * Constraints *)

Lemma seq_groups : forall p su t, 1 <= su -> p mod su = 0 -> p <= t -> p + ((t - p) / su) * su = (t / su) * su.
Proof.
  intros p su t Hsu Hmod Hpt.
  assert (Hp : p = su * (p / su)) by (apply Nat.div_exact; lia).
  set (a := p / su) in *.
  assert (Ht : t = (t - p) + a * su) by lia.
  assert (t / su = (t - p) / su + a).
  { rewrite Ht at 1. apply Nat.div_add. lia. }
  rewrite H. nia.
Qed.

Lemma sequential_total : forall fb rows f first, wf_rows fb rows -> f < length rows ->
  factor_preamble fb f = Ok first -> 1 <= su_of fb f -> 1 <= nlev fb f ->
  exists b, sequential_conforms fb (cand_of_rows rows) f = Ok b.
Proof.
  intros fb rows f first [Hlen Hrows] Hf Hpre Hsu Hn.
  unfold sequential_conforms. rewrite Hpre. simpl. unfold while_steps, T.
  destruct (fl_trials fb <=? first) eqn:ET.
  - simpl. eexists; reflexivity.
  - apply Nat.leb_gt in ET.
    assert (su_of fb f =? 0 = false) by (apply Nat.eqb_neq; lia). rewrite H. simpl.
    eexists. apply (all_res_ok _ (fun i => cell_is (((i - first) / su_of fb f) mod nlev fb f) (nth i (nth f rows []) None))).
    intros i Hi. apply in_map_iff in Hi. destruct Hi as [q [<- Hq]]. apply in_seq in Hq.
    assert (q * su_of fb f < fl_trials fb - first) by (apply ceil_steps_lt; lia).
    assert (nlev fb f =? 0 = false) by (apply Nat.eqb_neq; lia). rewrite H1.
    rewrite row_of_rows by auto. simpl. rewrite get_nth by (rewrite (proj1 (Hrows f Hf)); lia). simpl. reflexivity.
Qed.

Lemma constraint_n : forall fb rows c,
  nfrag fb = true -> wf_rows fb rows -> cfrag_n fb c = true ->
  exists b, constraint_conforms fb (cand_of_rows rows) c = Ok b /\
            (is_sustain c = true -> (b = true <-> V4 fb rows)) /\
            (V4 fb rows -> b = forallb (Sem.constraint_ok (code_sem_n fb) rows) (csem_n fb c)).
Proof.
  intros fb rows c Hfr Hwf Hc. pose proof Hwf as [Hlen Hrows].
  assert (Hrow : forall f, f <? length (fl_design fb) = true ->
            row_of (cand_of_rows rows) f = Ok (nth f rows []) /\ length (nth f rows []) = fl_trials fb).
  { intros f Hf. apply Nat.ltb_lt in Hf. split; [apply row_of_rows; lia | apply Hrows; lia]. }
  assert (Htriv : exists b, Ok true = Ok b /\ (false = true -> (b = true <-> V4 fb rows)) /\
                            (V4 fb rows -> b = forallb (Sem.constraint_ok (code_sem_n fb) rows) [])).
  { exists true. split; auto. split; [discriminate|auto]. }
  destruct c; simpl in Hc; try discriminate; try exact Htriv.
  - (* Sustain *)
    simpl. rewrite (sustain_model fb rows Hfr Hwf). eexists. split; [reflexivity|]. split.
    + intros _. apply sustain_model_V4; auto.
    + intros HV. simpl. apply sustain_model_V4; auto.
  - apply andb_prop in Hc. destruct Hc as [Hf Hr]. destruct (Hrow f Hf) as [R L].
    unfold ranges_ok in Hr. simpl. unfold rng.
    destruct (map_block_trial_ranges fb wb) as [ranges|] eqn:ER; [|discriminate].
    rewrite (kinarow_conforms_sem fb _ RAtMost k f l wb _ ranges (Sem.KAtMost k) (code_sem_n fb) rows f R L ER eq_refl eq_refl).
    eexists. split; [reflexivity|]. split; [discriminate|]. intros _. simpl. rewrite andb_true_r. reflexivity.
  - apply andb_prop in Hc. destruct Hc as [Hf Hr]. destruct (Hrow f Hf) as [R L].
    unfold ranges_ok in Hr. simpl. unfold rng.
    destruct (map_block_trial_ranges fb wb) as [ranges|] eqn:ER; [|discriminate].
    rewrite (kinarow_conforms_sem fb _ RAtLeast k f l wb _ ranges (Sem.KAtLeast k) (code_sem_n fb) rows f R L ER eq_refl eq_refl).
    eexists. split; [reflexivity|]. split; [discriminate|]. intros _. simpl. rewrite andb_true_r. reflexivity.
  - apply andb_prop in Hc. destruct Hc as [Hf Hr]. destruct (Hrow f Hf) as [R L].
    unfold ranges_ok in Hr. simpl. unfold rng.
    destruct (map_block_trial_ranges fb wb) as [ranges|] eqn:ER; [|discriminate].
    rewrite (kinarow_conforms_sem fb _ RExactlyK k f l wb _ ranges (Sem.KExactlyK k) (code_sem_n fb) rows f R L ER eq_refl eq_refl).
    eexists. split; [reflexivity|]. split; [discriminate|]. intros _. simpl. rewrite andb_true_r. reflexivity.
  - apply andb_prop in Hc. destruct Hc as [Hf Hr]. destruct (Hrow f Hf) as [R L].
    unfold ranges_ok in Hr. simpl. unfold rng.
    destruct (map_block_trial_ranges fb wb) as [ranges|] eqn:ER; [|discriminate].
    rewrite (kinarow_conforms_sem fb _ RExactlyRow k f l wb _ ranges (Sem.KExactlyInARow k) (code_sem_n fb) rows f R L ER eq_refl eq_refl).
    eexists. split; [reflexivity|]. split; [discriminate|]. intros _. simpl. rewrite andb_true_r. reflexivity.
  - (* Exclude *)
    apply andb_prop in Hc. destruct Hc as [Hf _]. destruct (Hrow f Hf) as [R L].
    simpl. rewrite (exclude_conforms_sem _ f l _ (code_sem_n fb) rows f [] R eq_refl).
    eexists. split; [reflexivity|]. split; [discriminate|]. intros _. simpl. rewrite andb_true_r. reflexivity.
  - (* Pin *)
    rewrite !andb_true_iff in Hc. destruct Hc as [[[Hf Hr] Hg] Htn].
    destruct (Hrow f Hf) as [R L].
    assert (Hg' : 1 <= geometry_sustain fb wb f) by (destruct (geometry_sustain fb wb f); [discriminate|lia]).
    clear Hg. rename Hg' into Hg.
    unfold ranges_ok in Hr. simpl. unfold rng.
    destruct (map_block_trial_ranges fb wb) as [ranges|] eqn:ER; [|discriminate].
    destruct (get_trial_numbers fb f index wb) as [tn|] eqn:ETN; [|discriminate].
    rewrite (pin_conforms_sem fb _ index f l wb _ ranges (geometry_sustain fb wb f) tn
                              (code_sem_n fb) rows f R ER eq_refl Hg ETN).
    + eexists. split; [reflexivity|]. split; [discriminate|]. intros _. simpl. rewrite andb_true_r. reflexivity.
    + intros t Ht. rewrite forallb_forall in Htn. specialize (Htn t Ht). apply Nat.ltb_lt in Htn. lia.
    + reflexivity.
  - (* Sequential *)
    apply andb_prop in Hc. destruct Hc as [Hf Hp]. destruct (Hrow f Hf) as [R L].
    destruct (factor_preamble fb f) as [first|] eqn:EP; [|discriminate].
    apply Nat.eqb_eq in Hp. apply Nat.ltb_lt in Hf.
    destruct (nth_error (fl_design fb) f) as [fd|] eqn:E; [|apply nth_error_None in E; lia].
    destruct (nfrag_design fb f fd Hfr E) as [_ [_ Hnl]].
    destruct (nfrag_su fb f Hfr) as [Hsu Hmod].
    destruct (sequential_total fb rows f first Hwf ltac:(lia) EP Hsu) as [b Hb].
    { rewrite (nlev_nth fb f fd E). auto. }
    simpl. rewrite Hb. exists b. split; auto. split; [discriminate|].
    intros HV. simpl. rewrite EP.
    rewrite (sequential_conforms_sem fb _ f _ first (su_of fb f) (length (ff_levels fd)) (code_sem_n fb) rows f
               {| Sem.f_nlevels := length (ff_levels fd); Sem.f_sustain := su_of fb f; Sem.f_derived := None |} 0 [] R L EP)
      in Hb.
    + injection Hb as <-. rewrite andb_true_r. reflexivity.
    + reflexivity.
    + auto.
    + apply nlev_nth; auto.
    + auto.
    + intros t Ht. rewrite seq_groups by lia. symmetry. apply HV; lia.
    + reflexivity.
    + reflexivity.
    + apply code_sem_n_factor; auto.
    + reflexivity.
Qed.

Lemma map_res_forall2 : forall {A B} (f : A -> res B) (P : A -> B -> Prop) xs,
  (forall x, In x xs -> exists y, f x = Ok y /\ P x y) -> exists ys, map_res f xs = Ok ys /\ Forall2 P xs ys.
Proof.
  induction xs as [|x xs IH]; intros H; simpl.
  - exists []. auto.
  - destruct (H x (or_introl eq_refl)) as [y [Hy Py]]. rewrite Hy. simpl.
    destruct IH as [ys [Hys Pys]]; [intros; apply H; right; auto|].
    rewrite Hys. simpl. exists (y :: ys). auto.
Qed.

(** * The theorem with sustain *)

Theorem nfrag_mismatch_iff_valid : forall fb rows,
  nfrag fb = true -> wf_rows fb rows ->
  (no_mismatch fb (cand_of_rows rows) = true <-> Sem.valid_b (code_sem_n fb) rows = true).
Proof.
  intros fb rows Hfr Hwf.
  set (S := code_sem_n fb).
  set (P := fun (c : fconstraint) (b : bool) =>
              (is_sustain c = true -> (b = true <-> V4 fb rows)) /\
              (V4 fb rows -> b = forallb (Sem.constraint_ok S rows) (csem_n fb c))).
  destruct (map_res_forall2 (constraint_conforms fb (cand_of_rows rows)) P (fl_constraints fb)) as [bs [HC HP]].
  { intros c Hc. apply constraint_n; auto. apply nfrag_cfrag; auto. }
  destruct (gen_crossings fb rows S (nfrag_no_hidden fb Hfr)) as [xs [HX HXi]]; auto.
  { intros p Hp. apply nfrag_xfrag; auto. }
  (* from the flags to V4 *)
  assert (HbsV4 : forallb (fun b => b) bs = true -> V4 fb rows).
  { intros Hall. unfold nfrag in Hfr. rewrite !andb_true_iff in Hfr. destruct Hfr as [[[_ Hs] _] _].
    apply orb_prop in Hs. destruct Hs as [Hone|Hex].
    - apply V4_all_one. intros f. apply nfrag_all_one; auto.
    - apply existsb_exists in Hex. destruct Hex as [c [Hc Hsus]].
      clear HC. induction HP as [|c0 b0 cs0 bs0 Hp0 Hps IH]; [contradiction|].
      simpl in Hall. apply andb_prop in Hall. destruct Hall as [Hb0 Hbs0].
      destruct Hc as [<-|Hc]; [|apply IH; auto].
      destruct Hp0 as [Hp0 _]. apply (Hp0 Hsus). auto. }
  (* under V4 the constraint flags are the reference clauses *)
  assert (HV4 : V4 fb rows ->
                (forallb (fun b => b) bs = true <-> forallb (Sem.constraint_ok S rows) (Sem.s_constraints S) = true)).
  { intros HV. unfold S at 2. cbn [Sem.s_constraints code_sem_n]. rewrite forallb_flat_map.
    clear HC HbsV4. induction HP as [|c0 b0 cs0 bs0 Hp0 Hps IH]; simpl; [tauto|].
    destruct Hp0 as [_ Hp0]. rewrite (Hp0 HV). rewrite !andb_true_iff, IH. tauto. }
  pose proof (factors_sem_n fb rows Hfr Hwf) as HF.
  (* the verdict *)
  assert (Hverdict : mismatch fb (cand_of_rows rows) = VLists [] (flagged bs) xs).
  { unfold mismatch.
    assert (E1 : existsb (fun p : nat * list (option nat) => negb (length (snd p) =? T fb)) (cand_of_rows rows) = false).
    { destruct (existsb _ (cand_of_rows rows)) eqn:E; auto. apply existsb_exists in E. destruct E as [p [Hp E]].
      destruct (rows_entry _ _ Hp) as [Hi Hs]. rewrite Hs in E.
      rewrite (proj1 (proj2 Hwf _ Hi)) in E. unfold T in E. rewrite Nat.eqb_refl in E. discriminate. }
    rewrite E1. rewrite (wf_conversion fb rows Hwf). simpl.
    assert (HFm : mismatch_factors fb (cand_of_rows rows) = Ok []).
    { unfold mismatch_factors.
      rewrite (map_res_ok _ (fun _ => true)).
      - simpl. f_equal. apply flagged_nil_aux. apply forallb_const_true.
      - intros p Hp. destruct (in_combine_seq _ _ _ Hp) as [f [Hf [Hfst Hnth]]]. simpl in Hfst.
        destruct (nfrag_design fb f (snd p) Hfr Hnth) as [Hh [Hw _]]. rewrite Hh.
        unfold factor_test. rewrite Hfst. rewrite row_of_rows by (rewrite (proj1 Hwf); lia). simpl.
        destruct (nfrag_su fb f Hfr) as [Hsu _].
        assert (su_of fb f =? 0 = false) by (apply Nat.eqb_neq; lia). rewrite H.
        rewrite (map_res_ok _ (fun _ => true)).
        + simpl. rewrite forallb_const_true. reflexivity.
        + intros i _. unfold test_trial. rewrite Hw. reflexivity. }
    rewrite HFm. unfold mismatch_constraints. rewrite HC. simpl. rewrite HX. reflexivity. }
  unfold no_mismatch. rewrite Hverdict.
  unfold Sem.valid_b. unfold Sem.cell in *.
  assert (Hls : length rows =? length (Sem.s_factors S) = true).
  { apply Nat.eqb_eq. unfold S. simpl. rewrite map_length, combine_length, seq_length, Nat.min_id. apply (proj1 Hwf). }
  rewrite Hls. simpl. rewrite !andb_true_iff.
  unfold S in HXi. cbn [Sem.s_crossings code_sem_n]. fold S.
  split.
  - intros H.
    assert (Hf : flagged bs = [] /\ xs = []).
    { destruct (flagged bs); destruct xs; try discriminate; auto. }
    destruct Hf as [Hfl Hxs]. apply flagged_nil in Hfl.
    pose proof (HbsV4 Hfl) as HV.
    split; [split|].
    + apply HF; auto.
    + apply HXi; auto.
    + apply (HV4 HV); auto.
  - intros [[H1 H2] H3].
    pose proof (proj1 HF H1) as HV.
    apply (HV4 HV) in H3. apply flagged_nil in H3. apply HXi in H2. rewrite H3, H2. reflexivity.
Qed.

Theorem nfrag_mismatch_iff_valid_b : forall fb rows,
  nfrag fb = true -> wf_rowsb fb rows = true ->
  (no_mismatch fb (cand_of_rows rows) = true <-> Sem.valid_b (code_sem_n fb) rows = true).
Proof. intros. apply nfrag_mismatch_iff_valid; auto. apply wf_rowsb_wf; auto. Qed.

(** * The design of the known finding, as the real constructors flatten it:
      Nest(CrossBlock([s],[s],[Sequential(s)]), CrossBlock([A],[A],[])) with
      |s| = 3, |A| = 2: 6 trials, s sustained over 2 trials. *)
Definition nest_fb : flat :=
  {| fl_design := [ex_factor [1; 1; 1]; ex_factor [1; 1]];
     fl_act := [0; 1]; fl_crossings := [[0]; [1]]; fl_sustains := [2; 1]; fl_weights := [1; 1]; fl_sizes := [6; 2];
     fl_preambles := [0; 0]; fl_alignment := EqualPreamble; fl_alignment_preamble := 0; fl_min_trials := 0;
     fl_trials := 6; fl_rcc := true; fl_exclude := []; fl_excluded_derived := [];
     fl_constraints := [FCross; FConsistency; FSequential 0; FSustain];
     fl_errors_fail := false |}.

Definition nest_rows_valid : list (list (option nat)) :=
  [[Some 0; Some 0; Some 1; Some 1; Some 2; Some 2];
   [Some 1; Some 0; Some 0; Some 1; Some 1; Some 0]].
(* the sequence the pre-6ff33e3 checker demanded: levels by trial, not by trial group *)
Definition nest_rows_by_trial : list (list (option nat)) :=
  [[Some 0; Some 0; Some 2; Some 2; Some 1; Some 1];
   [Some 1; Some 0; Some 0; Some 1; Some 1; Some 0]].
Definition nest_rows_unsustained : list (list (option nat)) :=
  [[Some 0; Some 1; Some 1; Some 1; Some 2; Some 2];
   [Some 1; Some 0; Some 0; Some 1; Some 1; Some 0]].
