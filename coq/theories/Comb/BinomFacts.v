(** Shared arithmetic facts: factorial, Pascal binomial, the factorial quotient
    [binomZ] of the model, sums.  Proof file (no model definitions). *)
From Coq Require Import ZArith List Bool Lia.
From SP Require Import Comb.CombModel Comb.CombSpec.
Import ListNotations.
Open Scope Z_scope.

Lemma fact_nat_pos : forall n, 0 < fact_nat n.
Proof. induction n; cbn [fact_nat]; lia. Qed.

Lemma fact_nat_S : forall n, fact_nat (S n) = Z.of_nat (S n) * fact_nat n.
Proof. reflexivity. Qed.

Lemma binom_n_0 : forall n, binom n 0 = 1.
Proof. destruct n; reflexivity. Qed.

Lemma binom_S_S : forall n k, binom (S n) (S k) = binom n k + binom n (S k).
Proof. reflexivity. Qed.

Lemma binom_nonneg : forall n k, 0 <= binom n k.
Proof. induction n; destruct k; cbn [binom]; try lia. pose proof (IHn k). pose proof (IHn (S k)). lia. Qed.

Lemma binom_gt : forall n k, (n < k)%nat -> binom n k = 0.
Proof.
  induction n; intros k H; destruct k; try lia; cbn [binom]; try reflexivity.
  rewrite IHn by lia. rewrite IHn by lia. reflexivity.
Qed.

Lemma binom_n_n : forall n, binom n n = 1.
Proof. induction n; cbn [binom]; try reflexivity. rewrite IHn, binom_gt by lia. reflexivity. Qed.

Lemma binom_pos : forall n k, (k <= n)%nat -> 0 < binom n k.
Proof.
  induction n; intros k H; destruct k; cbn [binom]; try lia.
  pose proof (binom_nonneg n (S k)). specialize (IHn k). lia.
Qed.

(** C(n,k) k! (n-k)! = n! *)
Lemma binom_fact : forall n k, (k <= n)%nat -> binom n k * (fact_nat k * fact_nat (n - k)) = fact_nat n.
Proof.
  induction n; intros k H.
  - assert (k = 0)%nat by lia. subst. reflexivity.
  - destruct k.
    + rewrite binom_n_0. cbn [fact_nat Nat.sub]. lia.
    + rewrite binom_S_S. replace (S n - S k)%nat with (n - k)%nat by lia.
      destruct (Nat.eq_dec k n) as [->|Hne].
      * rewrite binom_n_n, binom_gt by lia. rewrite Nat.sub_diag. cbn [fact_nat]. lia.
      * assert (Hk : (k <= n)%nat) by lia. assert (Hk' : (S k <= n)%nat) by lia.
        pose proof (IHn k Hk) as E1. pose proof (IHn (S k) Hk') as E2.
        replace (n - k)%nat with (S (n - S k))%nat in * by lia.
        rewrite (fact_nat_S k) in *. rewrite (fact_nat_S (n - S k)) in *. rewrite (fact_nat_S n).
        replace (Z.of_nat (S n)) with (Z.of_nat (S k) + Z.of_nat (S (n - S k))) by lia.
        nia.
Qed.

Lemma binomZ_eq_binom : forall n k, 0 <= k <= n -> binomZ n k = binom (Z.to_nat n) (Z.to_nat k).
Proof.
  intros n k H. unfold binomZ.
  rewrite <- (binom_fact (Z.to_nat n) (Z.to_nat k)) by lia.
  replace (Z.to_nat (n - k)) with (Z.to_nat n - Z.to_nat k)%nat by lia.
  apply Z.div_mul.
  pose proof (fact_nat_pos (Z.to_nat k)). pose proof (fact_nat_pos (Z.to_nat n - Z.to_nat k)). nia.
Qed.

(** absorption: (k+1) C(n+1,k+1) = (n+1) C(n,k) *)
Lemma binom_absorb : forall n k, Z.of_nat (S k) * binom (S n) (S k) = Z.of_nat (S n) * binom n k.
Proof.
  intros n k. destruct (le_lt_dec k n) as [H|H].
  - pose proof (binom_fact (S n) (S k) ltac:(lia)) as E1. pose proof (binom_fact n k H) as E2.
    replace (S n - S k)%nat with (n - k)%nat in E1 by lia.
    rewrite (fact_nat_S k), (fact_nat_S n) in E1.
    pose proof (fact_nat_pos k). pose proof (fact_nat_pos (n - k)).
    assert (0 < fact_nat k * fact_nat (n - k)) by nia.
    apply (Z.mul_reg_r _ _ (fact_nat k * fact_nat (n - k))); [lia|]. nia.
  - rewrite !binom_gt by lia. lia.
Qed.

Lemma binom_mono_n : forall n n' k, (n <= n')%nat -> binom n k <= binom n' k.
Proof.
  intros n n' k H. induction H; [lia|].
  destruct k; [rewrite !binom_n_0; lia|]. rewrite binom_S_S. pose proof (binom_nonneg m k). lia.
Qed.

(** sums *)
Lemma sumZ_acc : forall l a, fold_left Z.add l a = a + zsum l.
Proof. induction l; intros; cbn [fold_left zsum]; [lia|]. rewrite IHl. lia. Qed.
Lemma sumZ_zsum : forall l, sumZ l = zsum l.
Proof. intros. unfold sumZ. rewrite sumZ_acc. lia. Qed.
Lemma zsum_app : forall a b, zsum (a ++ b) = zsum a + zsum b.
Proof. induction a; intros; cbn [app zsum]; [lia|]. rewrite IHa. lia. Qed.
Lemma zsum_nonneg : forall l, Forall (fun c => 0 <= c) l -> 0 <= zsum l.
Proof. induction 1; cbn [zsum]; lia. Qed.

Lemma factorial_ok : forall n, 0 <= n -> factorial n = Ok (fact_nat (Z.to_nat n)).
Proof. intros. unfold factorial. destruct (n <? 0) eqn:E; [lia|reflexivity]. Qed.
