(** Proofs about [n_choose_m] and the combinatorial-number-system unranker
    [compute_jth_combination_without_replacement] of the model: the former
    computes the Pascal binomial, the latter is a bijection from
    [0, C(n,m)) onto the strictly decreasing m-lists below n, inverse to
    [cns_rank].  All sizes. *)
From Coq Require Import ZArith List Bool Lia ZifyBool.
From SP Require Import Comb.CombModel Comb.CombSpec Comb.BinomFacts.
Import ListNotations.
Open Scope Z_scope.

(** * n_choose_m *)

Lemma ncm_loop_spec : forall fuel n h p,
  (Z.to_nat (n - h) <= fuel)%nat ->
  ncm_loop fuel n h p = Ok (p * ffact n (Z.to_nat (n - h))).
Proof.
  induction fuel as [|f IH]; intros n h p Hf; cbn [ncm_loop]; destruct (n >? h) eqn:E.
  - lia.
  - replace (Z.to_nat (n - h)) with O by lia. cbn [ffact]. f_equal. ring.
  - rewrite IH by lia.
    replace (Z.to_nat (n - h)) with (S (Z.to_nat (n - 1 - h))) by lia.
    cbn [ffact]. f_equal. ring.
  - replace (Z.to_nat (n - h)) with O by lia. cbn [ffact]. f_equal. ring.
Qed.

Lemma ffact_fact : forall m n, (m <= n)%nat ->
  ffact (Z.of_nat n) m * fact_nat (n - m) = fact_nat n.
Proof.
  induction m as [|m IH]; intros n H.
  - cbn [ffact]. rewrite Nat.sub_0_r. ring.
  - destruct n as [|n]; [lia|].
    cbn [ffact]. replace (Z.of_nat (S n) - 1) with (Z.of_nat n) by lia.
    replace (S n - S m)%nat with (n - m)%nat by lia.
    rewrite fact_nat_S. rewrite <- (IH n) by lia. ring.
Qed.

Lemma ffact_binom : forall n m, (m <= n)%nat ->
  ffact (Z.of_nat n) m = binom n m * fact_nat m.
Proof.
  intros n m H.
  pose proof (ffact_fact m n H) as E1. pose proof (binom_fact n m H) as E2.
  pose proof (fact_nat_pos (n - m)) as P.
  apply (Z.mul_reg_r _ _ (fact_nat (n - m))); [lia|].
  rewrite E1, <- E2. ring.
Qed.

Theorem ncm_eq_binom : forall n m : nat,
  n_choose_m_given_m_factorial (Z.of_nat n) (Z.of_nat m) (fact_nat m) = Ok (binom n m).
Proof.
  intros n m. unfold n_choose_m_given_m_factorial.
  destruct (Z.of_nat n <? Z.of_nat m) eqn:E1.
  { rewrite binom_gt by lia. reflexivity. }
  destruct (Z.of_nat n =? Z.of_nat m) eqn:E2.
  { assert (n = m) by lia. subst. rewrite binom_n_n. reflexivity. }
  rewrite ncm_loop_spec by lia. cbn [bind].
  pose proof (fact_nat_pos m) as P.
  destruct (fact_nat m =? 0) eqn:E3; [lia|].
  replace (Z.to_nat (Z.of_nat n - (Z.of_nat n - Z.of_nat m))) with m by lia.
  rewrite ffact_binom by lia. rewrite Z.mul_1_l. rewrite Z.div_mul by lia. reflexivity.
Qed.

Theorem choose_eq_binom : forall n m : nat,
  n_choose_m (Z.of_nat n) (Z.of_nat m) = Ok (binom n m).
Proof.
  intros n m. unfold n_choose_m. rewrite factorial_ok by lia. rewrite Nat2Z.id.
  cbn [bind]. apply ncm_eq_binom.
Qed.

Lemma ncm_Z : forall c M, 0 <= c ->
  n_choose_m_given_m_factorial c (Z.of_nat M) (fact_nat M) = Ok (binom (Z.to_nat c) M).
Proof.
  intros c M H. rewrite <- (Z2Nat.id c H) at 1. apply ncm_eq_binom.
Qed.

(** * facts about [binom], [cns_rank], [desc_below] *)

Lemma binom_lt_inv : forall c b M, binom c M < binom b M -> (c < b)%nat.
Proof.
  intros c b M H. destruct (le_lt_dec b c) as [L|L]; [|exact L].
  pose proof (binom_mono_n b c M L). lia.
Qed.

Lemma cns_rank_cons : forall c tl,
  cns_rank (c :: tl) = binom (Z.to_nat c) (S (length tl)) + cns_rank tl.
Proof. reflexivity. Qed.

Lemma cns_rank_range : forall cs b, desc_below b cs ->
  0 <= cns_rank cs < binom (Z.to_nat b) (length cs).
Proof.
  induction cs as [|c tl IH]; intros b H.
  - cbn [cns_rank length]. rewrite binom_n_0. lia.
  - destruct H as [Hc Ht]. rewrite cns_rank_cons. cbn [length].
    specialize (IH c Ht).
    pose proof (binom_nonneg (Z.to_nat c) (S (length tl))) as P.
    pose proof (binom_mono_n (S (Z.to_nat c)) (Z.to_nat b) (S (length tl)) ltac:(lia)) as Q.
    rewrite binom_S_S in Q. lia.
Qed.

Lemma cns_rank_inj : forall cs cs' b b',
  length cs = length cs' -> desc_below b cs -> desc_below b' cs' ->
  cns_rank cs = cns_rank cs' -> cs = cs'.
Proof.
  induction cs as [|c tl IH]; intros cs' b b' HL H H' HR; destruct cs' as [|c' tl'];
    try discriminate HL; [reflexivity|].
  destruct H as [Hc Ht]. destruct H' as [Hc' Ht'].
  rewrite !cns_rank_cons in HR. injection HL as HL.
  pose proof (cns_rank_range tl c Ht) as R. pose proof (cns_rank_range tl' c' Ht') as R'.
  rewrite <- HL in R', HR.
  set (k := length tl) in *.
  assert (c = c') as ->.
  { destruct (Z.lt_trichotomy c c') as [L|[L|L]]; [|exact L|].
    - pose proof (binom_mono_n (S (Z.to_nat c)) (Z.to_nat c') (S k) ltac:(lia)) as Q.
      rewrite binom_S_S in Q. lia.
    - pose proof (binom_mono_n (S (Z.to_nat c')) (Z.to_nat c) (S k) ltac:(lia)) as Q.
      rewrite binom_S_S in Q. lia. }
  f_equal. apply (IH tl' c' c'); [exact HL|exact Ht|exact Ht'|lia].
Qed.

(** * the inner while loop: the largest c with C(c,m) <= j *)

Lemma cns_inner_spec : forall (M : nat) (n j : Z) fuel c,
  0 <= c -> (Z.to_nat (n - 1 - c) <= fuel)%nat ->
  exists c', cns_inner fuel n (Z.of_nat M) (fact_nat M) j c = Ok c' /\ c <= c' /\
    (c' = c \/ binom (Z.to_nat c') M <= j) /\
    (c' + 1 < n -> j < binom (Z.to_nat (c' + 1)) M).
Proof.
  intros M n j. induction fuel as [|f IH]; intros c Hc Hf; cbn [cns_inner];
    (destruct (c + 1 <? n) eqn:E;
     [ rewrite ncm_Z by lia; cbn [bind];
       destruct (binom (Z.to_nat (c + 1)) M <=? j) eqn:E2 | ]).
  - lia.
  - exists c. repeat split; try lia.
  - exists c. repeat split; try lia.
  - destruct (IH (c + 1) ltac:(lia) ltac:(lia)) as (c' & Ec & L & B & U).
    exists c'. split; [exact Ec|]. split; [lia|]. split; [|exact U].
    right. destruct B as [->|B]; lia.
  - exists c. repeat split; try lia.
  - exists c. repeat split; try lia.
Qed.

(** * the outer loop *)

Lemma cns_outer_0 : forall fuel n j, cns_outer fuel n 0 j = Ok [].
Proof. destruct fuel; reflexivity. Qed.

Lemma cns_outer_spec : forall (N : nat) fuel M b j,
  (M <= fuel)%nat -> (b <= N)%nat -> 0 <= j < binom b M ->
  exists cs, cns_outer fuel (Z.of_nat N) (Z.of_nat M) j = Ok cs /\
             length cs = M /\ desc_below (Z.of_nat b) cs /\ cns_rank cs = j.
Proof.
  intros N. induction fuel as [|f IH]; intros M b j Hf Hb Hj.
  - assert (M = 0)%nat by lia. subst. rewrite binom_n_0 in Hj.
    exists []. change (Z.of_nat 0) with 0. rewrite cns_outer_0.
    cbn [length desc_below cns_rank]. repeat split; lia.
  - destruct M as [|M'].
    { rewrite binom_n_0 in Hj.
      exists []. change (Z.of_nat 0) with 0. rewrite cns_outer_0.
      cbn [length desc_below cns_rank]. repeat split; lia. }
    assert (HMb : (S M' <= b)%nat).
    { destruct (le_lt_dec (S M') b) as [L|L]; [exact L|]. rewrite binom_gt in Hj by lia. lia. }
    cbn [cns_outer].
    destruct (Z.of_nat (S M') >? 0) eqn:E0; [|lia].
    rewrite factorial_ok by lia. rewrite Nat2Z.id. cbn [bind].
    replace (Z.of_nat (S M') - 1) with (Z.of_nat M') by lia.
    destruct (cns_inner_spec (S M') (Z.of_nat N) j
                (Z.to_nat (Z.of_nat N - Z.of_nat (S M'))) (Z.of_nat M')
                ltac:(lia) ltac:(lia)) as (c & Ec & L & B & U).
    rewrite Ec. cbn [bind]. rewrite ncm_Z by lia. cbn [bind].
    assert (Blo : binom (Z.to_nat c) (S M') <= j).
    { destruct B as [->|B]; [|exact B]. rewrite Nat2Z.id. rewrite binom_gt by lia. lia. }
    assert (Hcb : (Z.to_nat c < b)%nat) by (apply (binom_lt_inv _ _ (S M')); lia).
    assert (Bhi : j < binom (S (Z.to_nat c)) (S M')).
    { destruct (Z_lt_le_dec (c + 1) (Z.of_nat N)) as [Lt|Ge].
      - specialize (U Lt). replace (Z.to_nat (c + 1)) with (S (Z.to_nat c)) in U by lia. exact U.
      - pose proof (binom_mono_n b (S (Z.to_nat c)) (S M') ltac:(lia)). lia. }
    rewrite binom_S_S in Bhi.
    destruct (IH M' (Z.to_nat c) (j - binom (Z.to_nat c) (S M'))
                ltac:(lia) ltac:(lia) ltac:(lia)) as (rest & Er & Lr & Dr & Rr).
    rewrite Er. cbn [bind]. exists (c :: rest).
    split; [reflexivity|]. split; [cbn [length]; lia|]. split.
    + cbn [desc_below]. split; [lia|]. rewrite Z2Nat.id in Dr by lia. exact Dr.
    + rewrite cns_rank_cons, Lr, Rr. lia.
Qed.

Theorem cns_bij : forall n m : nat,
  (forall j, 0 <= j < binom n m ->
     exists cs, compute_jth_combination_without_replacement (Z.of_nat n) (Z.of_nat m) j = Ok cs /\
                length cs = m /\ desc_below (Z.of_nat n) cs /\ cns_rank cs = j) /\
  (forall cs, length cs = m -> desc_below (Z.of_nat n) cs ->
     0 <= cns_rank cs < binom n m /\
     compute_jth_combination_without_replacement (Z.of_nat n) (Z.of_nat m) (cns_rank cs) = Ok cs).
Proof.
  intros n m.
  assert (F : forall j, 0 <= j < binom n m ->
     exists cs, compute_jth_combination_without_replacement (Z.of_nat n) (Z.of_nat m) j = Ok cs /\
                length cs = m /\ desc_below (Z.of_nat n) cs /\ cns_rank cs = j).
  { intros j Hj. unfold compute_jth_combination_without_replacement. rewrite Nat2Z.id.
    apply (cns_outer_spec n m m n j); lia. }
  split; [exact F|].
  intros cs HL HD.
  pose proof (cns_rank_range cs (Z.of_nat n) HD) as R. rewrite Nat2Z.id, HL in R.
  split; [exact R|].
  destruct (F (cns_rank cs) R) as (cs' & E & L' & D' & R').
  rewrite E. f_equal.
  apply (cns_rank_inj cs' cs (Z.of_nat n) (Z.of_nat n)); [lia|exact D'|exact HD|exact R'].
Qed.

Print Assumptions ncm_eq_binom.
Print Assumptions choose_eq_binom.
Print Assumptions cns_bij.
