(** Executable model of [sweetpea/_internal/combinatorics.py].

    Every function mirrors the Python control flow: [for] loops over a list or
    a [range] are structural recursion on the list / on the iteration count,
    [while] loops carry explicit fuel (exhaustion = [Err OutOfFuel], which the
    chosen fuel never reaches), and every place where Python raises
    ([x % 0], [x // 0], [list[i]] out of range, [math.factorial] of a negative
    number, a failing [assert]) returns the corresponding [Err].  Values are
    [Z]; [nat] is used for list positions, iteration counts and fuel only.
    No proofs in this file. *)
From Coq Require Import ZArith List Bool.
Import ListNotations.
Open Scope Z_scope.

Inductive err := ZeroDivisionError | IndexError | AssertionError | ValueError | OutOfFuel.
Inductive res (A : Type) := Ok (a : A) | Err (e : err).
Arguments Ok {A} a.
Arguments Err {A} e.

Definition bind {A B : Type} (r : res A) (f : A -> res B) : res B :=
  match r with Ok a => f a | Err e => Err e end.
Notation "x <- r ;; k" := (bind r (fun x => k)) (at level 61, r at next level, right associativity).

(** [math.factorial] *)
Fixpoint fact_nat (n : nat) : Z :=
  match n with O => 1 | S k => Z.of_nat (S k) * fact_nat k end.
Definition factorial (n : Z) : res Z :=
  if n <? 0 then Err ValueError else Ok (fact_nat (Z.to_nat n)).

Definition sumZ (l : list Z) : Z := fold_left Z.add l 0.

(** * extract_components *)
Fixpoint extract_components (sizes : list Z) (n : Z) : res (list Z) :=
  match sizes with
  | [] => Ok []
  | s :: tl =>
    if s =? 0 then Err ZeroDivisionError
    else rest <- extract_components tl (n / s) ;; Ok (n mod s :: rest)
  end.

(** * compute_jth_combination: [combination[k] = j % n] for k = l-1 .. 0 *)
Fixpoint jth_combination_loop (cnt : nat) (n j : Z) (acc : list Z) : res (list Z) :=
  match cnt with
  | O => Ok acc
  | S c => if n =? 0 then Err ZeroDivisionError
           else jth_combination_loop c n (j / n) (j mod n :: acc)
  end.
Definition compute_jth_combination (l n j : Z) : res (list Z) :=
  jth_combination_loop (Z.to_nat l) n j [].

(** * n_choose_m_given_m_factorial *)
Fixpoint ncm_loop (fuel : nat) (n h p : Z) : res Z :=      (* while n > h: p *= n; n -= 1 *)
  match fuel with
  | O => if n >? h then Err OutOfFuel else Ok p
  | S f => if n >? h then ncm_loop f (n - 1) h (p * n) else Ok p
  end.
Definition n_choose_m_given_m_factorial (n m f_m : Z) : res Z :=
  if n <? m then Ok 0
  else if n =? m then Ok 1
  else p <- ncm_loop (Z.to_nat m) n (n - m) 1 ;;
       if f_m =? 0 then Err ZeroDivisionError else Ok (p / f_m).
Definition n_choose_m (n m : Z) : res Z :=
  f_m <- factorial m ;; n_choose_m_given_m_factorial n m f_m.

(** * compute_jth_combination_without_replacement *)
Fixpoint cns_inner (fuel : nat) (n m f_m j c : Z) : res Z :=
  (* while c+1 < n and ncm(c+1, m, f_m) <= j: c += 1 *)
  if c + 1 <? n then
    x <- n_choose_m_given_m_factorial (c + 1) m f_m ;;
    if x <=? j then
      match fuel with O => Err OutOfFuel | S f => cns_inner f n m f_m j (c + 1) end
    else Ok c
  else Ok c.
Fixpoint cns_outer (fuel : nat) (n m j : Z) : res (list Z) :=     (* while m > 0 *)
  if m >? 0 then
    match fuel with
    | O => Err OutOfFuel
    | S f =>
      f_m <- factorial m ;;
      c <- cns_inner (Z.to_nat (n - m)) n m f_m j (m - 1) ;;
      x <- n_choose_m_given_m_factorial c m f_m ;;
      rest <- cns_outer f n (m - 1) (j - x) ;;
      Ok (c :: rest)
    end
  else Ok [].
Definition compute_jth_combination_without_replacement (n m j : Z) : res (list Z) :=
  cns_outer (Z.to_nat m) n m j.

(** * compute_jth_inversion_sequence: for k in range(n, n-m, -1) *)
Fixpoint inversion_loop (cnt : nat) (k j : Z) : res (list Z) :=
  match cnt with
  | O => Ok []
  | S c => if k =? 0 then Err ZeroDivisionError
           else rest <- inversion_loop c (k - 1) (j / k) ;; Ok (j mod k :: rest)
  end.
Definition compute_jth_inversion_sequence (n m j : Z) : res (list Z) :=
  inversion_loop (Z.to_nat m) n j.

(** * construct_permutation *)
Definition used_at (used : list bool) (idx : nat) : res bool :=
  match nth_error used idx with Some b => Ok b | None => Err IndexError end.
Fixpoint skip_used (fuel : nat) (used : list bool) (idx : nat) : res nat :=   (* while used[idx]: idx += 1 *)
  b <- used_at used idx ;;
  if b then match fuel with O => Err OutOfFuel | S f => skip_used f used (S idx) end
  else Ok idx.
Fixpoint skip_free (fuel : nat) (used : list bool) (skip : Z) (idx : nat) : res nat :=
  (* while skip > 0: if not used[idx]: skip -= 1; idx += 1 *)
  if skip >? 0 then
    match fuel with
    | O => Err OutOfFuel
    | S f => b <- used_at used idx ;;
             skip_free f used (if b then skip else skip - 1) (S idx)
    end
  else Ok idx.
Fixpoint set_true (used : list bool) (idx : nat) : res (list bool) :=
  match used, idx with
  | [], _ => Err IndexError
  | _ :: t, O => Ok (true :: t)
  | b :: t, S i => t' <- set_true t i ;; Ok (b :: t')
  end.
Fixpoint construct_permutation_loop (inv : list Z) (used : list bool) : res (list Z) :=
  match inv with
  | [] => Ok []
  | skip :: tl =>
    let fuel := S (length used) in
    i1 <- skip_used fuel used 0 ;;
    i2 <- skip_free fuel used skip i1 ;;
    i3 <- skip_used fuel used i2 ;;
    used' <- set_true used i3 ;;
    rest <- construct_permutation_loop tl used' ;;
    Ok (Z.of_nat i3 :: rest)
  end.
Definition construct_permutation (inv : list Z) (orig_n : Z) : res (list Z) :=
  construct_permutation_loop inv (repeat false (Z.to_nat orig_n)).
Definition compute_jth_permutation_prefix (n m j : Z) : res (list Z) :=
  inv <- compute_jth_inversion_sequence n m j ;; construct_permutation inv n.

(** * count_remaining_permutations *)
Fixpoint crp_denominator (cs : list Z) (d : Z) : res Z :=
  match cs with
  | [] => Ok d
  | c :: t => if c >? 1 then f <- factorial c ;; crp_denominator t (d * f)
              else crp_denominator t d
  end.
Definition count_remaining_permutations (cs : list Z) : res Z :=
  d <- crp_denominator cs 1 ;;
  f <- factorial (sumZ cs) ;;
  Ok (f / d).

Definition count_interleavings (v need_n : Z) : res Z :=
  count_remaining_permutations [need_n - v; v].

(** * _construct_permutation_with_copies *)
Definition get (cs : list Z) (i : nat) : res Z :=
  match nth_error cs i with Some c => Ok c | None => Err IndexError end.
Fixpoint set_nth (cs : list Z) (i : nat) (v : Z) : list Z :=
  match cs, i with
  | [], _ => []
  | _ :: t, O => v :: t
  | c :: t, S k => c :: set_nth t k v
  end.
(** the inner [while i < q]; returns the chosen [i], the new [idx] and the
    new counters; reaching [i = q] is the failing [assert i < q] *)
Fixpoint cpc_inner (fuel : nat) (q : Z) (i : nat) (idx : Z) (cs : list Z) : res (nat * Z * list Z) :=
  if Z.of_nat i <? q then
    match fuel with
    | O => Err OutOfFuel
    | S f =>
      c <- get cs i ;;
      if c >? 0 then
        let cs' := set_nth cs i (c - 1) in
        n <- count_remaining_permutations cs' ;;
        if idx >=? n then cpc_inner f q (S i) (idx - n) cs
        else Ok (i, idx, cs')
      else cpc_inner f q (S i) idx cs
    end
  else Err AssertionError.
Fixpoint cpc_outer (cnt : nat) (q idx : Z) (cs : list Z) : res (list Z) :=   (* while len(sequence) < fill_n *)
  match cnt with
  | O => Ok []
  | S c =>
    r <- cpc_inner (Z.to_nat q) q 0 idx cs ;;
    let '(i, idx', cs') := r in
    rest <- cpc_outer c q idx' cs' ;;
    Ok (Z.of_nat i :: rest)
  end.
Definition construct_with_copies (idx q fill_n : Z) (cs : list Z) : res (list Z) :=
  cpc_outer (Z.to_nat fill_n) q idx cs.
Definition construct_permutation_with_copies (idx q m : Z) : res (list Z) :=
  construct_with_copies idx q (q * m) (repeat m (Z.to_nat q)).
Definition construct_permutation_with_varying_copies (idx q : Z) (cs : list Z) : res (list Z) :=
  construct_with_copies idx q (sumZ cs) cs.

(** * The memo table: a Python dict keyed by [(start_i, need_n)] *)
Definition memo_t := list ((Z * Z) * Z).
Definition key_eqb (a b : Z * Z) : bool := (fst a =? fst b) && (snd a =? snd b).
Fixpoint memo_get (k : Z * Z) (m : memo_t) : option Z :=
  match m with
  | [] => None
  | (k', v) :: t => if key_eqb k k' then Some v else memo_get k t
  end.
Fixpoint memo_remove (k : Z * Z) (m : memo_t) : memo_t :=
  match m with
  | [] => []
  | (k', v) :: t => if key_eqb k k' then memo_remove k t else (k', v) :: memo_remove k t
  end.
Definition memo_set (k : Z * Z) (v : Z) (m : memo_t) : memo_t := (k, v) :: memo_remove k m.
(** [memo.get(k, None)] used as a truth value: [None] and [0] are both "absent" *)
Definition memo_truthy (k : Z * Z) (m : memo_t) : option Z :=
  match memo_get k m with
  | Some v => if v =? 0 then None else Some v
  | None => None
  end.

(** * recur_count_prefixes_of_permutations_with_copies *)
Fixpoint recur_count (fuel : nat) (start_i need_n q m : Z) (memo : memo_t) : res (Z * memo_t) :=
  match fuel with
  | O => Err OutOfFuel
  | S f =>
    if need_n =? 0 then Ok (1, memo)
    else if start_i <? q then
      if (q - start_i) * m >=? need_n then
        match memo_truthy (start_i, need_n) memo with
        | Some combos => Ok (combos, memo)
        | None =>
          let loop := fix loop (cnt : nat) (v combos : Z) (memo : memo_t) : res (Z * memo_t) :=
            match cnt with
            | O => Ok (combos, memo)
            | S cnt' =>
              r <- recur_count f (start_i + 1) (need_n - v) q m memo ;;
              ci <- count_interleavings v need_n ;;
              loop cnt' (v + 1) (combos + fst r * ci) (snd r)
            end in
          r <- loop (Z.to_nat (Z.min m need_n + 1)) 0 0 memo ;;
          Ok (fst r, memo_set (start_i, need_n) (fst r) (snd r))
        end
      else Ok (0, memo)
    else Ok (0, memo)
  end.
Definition recur_count_prefixes_of_permutations_with_copies (q m first_n : Z) (memo : memo_t) : res (Z * memo_t) :=
  recur_count (S (Z.to_nat (q + 1))) 0 first_n q m memo.

(** * k_prefixes_of_permutations_with_copies: the explicit continuation stack *)
Inductive moc := Uniform (m : Z) | Counters (cs : list Z).     (* m_or_counters *)
Inductive frame :=
| DoCount (start_i need_n : Z) (buckets : list Z) (multiplier : Z)
| DoNext (v start_i need_n count : Z) (buckets : list Z) (multiplier this_mult : Z)
| DoRecord (v start_i need_n count this_mult : Z).
Inductive kres := KCount (z : Z) | KPerm (p : list Z).

Definition available_after (q : Z) (mc : moc) (start_i : Z) : Z :=
  match mc with
  | Counters cs => sumZ (skipn (Z.to_nat start_i) cs)
  | Uniform m => (q - start_i) * m
  end.
Definition available_at (mc : moc) (start_i : Z) : res Z :=
  match mc with
  | Counters cs => if start_i <? 0 then Err IndexError else get cs (Z.to_nat start_i)
  | Uniform m => Ok m
  end.
(** buckets is the cons-style list, most recent allocation first *)
Definition buckets_to_counters (buckets : list Z) (q : Z) : res (list Z) :=
  let rb := rev buckets in
  if Nat.ltb (Z.to_nat q) (length rb) then Err IndexError
  else Ok (rb ++ repeat 0 (Z.to_nat q - length rb)).

Fixpoint krun (fuel : nat) (q : Z) (mc : moc) (first_n : Z)
         (ks : list frame) (value find : Z) (memo : memo_t) : res (kres * memo_t) :=
  match ks with
  | [] => Ok (KCount value, memo)
  | fr :: ks' =>
    match fuel with
    | O => Err OutOfFuel
    | S f =>
      match fr with
      | DoCount start_i need_n buckets multiplier =>
        if need_n =? 0 then
          if find >? -1 then
            if find <? multiplier then
              cs <- buckets_to_counters buckets q ;;
              p <- construct_with_copies find q first_n cs ;;
              Ok (KPerm p, memo)
            else krun f q mc first_n ks' 1 (find - multiplier) memo
          else krun f q mc first_n ks' 1 find memo
        else if start_i >=? q then krun f q mc first_n ks' 0 find memo
        else if available_after q mc start_i <? need_n then krun f q mc first_n ks' 0 find memo
        else
          let m_value := memo_truthy (start_i, need_n) memo in
          let '(m_value, find) :=
            match m_value with
            | Some mv =>
              if find >? -1 then
                let total := mv * multiplier in
                if find <? total then (None, find) else (Some mv, find - total)
              else (Some mv, find)
            | None => (None, find)
            end in
          match m_value with
          | None => krun f q mc first_n (DoNext 0 start_i need_n 0 buckets multiplier 0 :: ks') 0 find memo
          | Some mv => krun f q mc first_n ks' mv find memo
          end
      | DoNext v start_i need_n count buckets multiplier this_mult =>
        next_mult <- count_interleavings v need_n ;;
        let count := count + value * this_mult in
        aa <- available_at mc start_i ;;
        let k1 := if v <? Z.min aa need_n
                  then DoNext (v + 1) start_i need_n count buckets multiplier next_mult
                  else DoRecord v start_i need_n count next_mult in
        krun f q mc first_n
             (DoCount (start_i + 1) (need_n - v) (v :: buckets) (next_mult * multiplier) :: k1 :: ks')
             value find memo
      | DoRecord v start_i need_n count this_mult =>
        let value := count + value * this_mult in
        krun f q mc first_n ks' value find (memo_set (start_i, need_n) value memo)
      end
    end
  end.

Definition k_fuel (q first_n : Z) : nat :=
  Z.to_nat (4 * (Z.max q 0 + 2) * (Z.max first_n 0 + 2) * (Z.max first_n 0 + 2) + 16).
Definition k_prefixes_of_permutations_with_copies (q : Z) (mc : moc) (first_n find : Z) (memo : memo_t)
  : res (kres * memo_t) :=
  krun (k_fuel q first_n) q mc first_n [DoCount 0 first_n [] 1] 0 find memo.

(** * Dispatchers *)
Definition count_prefixes_of_permutations_with_copies (q : Z) (mc : moc) (first_n : Z) (memo : memo_t)
  : res (kres * memo_t) :=
  match mc with
  | Counters _ => k_prefixes_of_permutations_with_copies q mc first_n (-1) memo
  | Uniform m =>
    if first_n <=? m then Ok (KCount (q ^ first_n), memo)
    else if (first_n <? 100) && (q <? 100) then
      r <- recur_count_prefixes_of_permutations_with_copies q m first_n memo ;;
      Ok (KCount (fst r), snd r)
    else k_prefixes_of_permutations_with_copies q mc first_n (-1) memo
  end.
Definition compute_jth_prefix_of_permutations_with_copies (q : Z) (mc : moc) (first_n j : Z) (memo : memo_t)
  : res (kres * memo_t) :=
  match mc with
  | Counters _ => k_prefixes_of_permutations_with_copies q mc first_n j memo
  | Uniform m =>
    if first_n <=? m then p <- compute_jth_combination first_n q j ;; Ok (KPerm p, memo)
    else k_prefixes_of_permutations_with_copies q mc first_n j memo
  end.
Definition count_permutations_with_copies (q m first_n : Z) : res kres :=
  let n := q * m in
  if n =? first_n then
    fn <- factorial n ;; fm <- factorial m ;;
    if fm ^ q =? 0 then Err ZeroDivisionError else Ok (KCount (fn / fm ^ q))
  else r <- count_prefixes_of_permutations_with_copies q (Uniform m) first_n [] ;; Ok (fst r).
Definition count_permutations_with_varying_copies (q : Z) (cs : list Z) (first_n : Z) : res kres :=
  r <- count_prefixes_of_permutations_with_copies q (Counters cs) first_n [] ;; Ok (fst r).

(** A session on one shared [PermutationMemo]: a list of count / unrank
    calls run in order on the same table; results in order plus the final table. *)
Inductive memo_op := OpCount (first_n : Z) | OpUnrank (first_n j : Z).
Fixpoint memo_session (q : Z) (mc : moc) (ops : list memo_op) (memo : memo_t) : list (res kres) * memo_t :=
  match ops with
  | [] => ([], memo)
  | op :: tl =>
    let r := match op with
             | OpCount fn => count_prefixes_of_permutations_with_copies q mc fn memo
             | OpUnrank fn j => compute_jth_prefix_of_permutations_with_copies q mc fn j memo
             end in
    match r with
    | Ok (v, memo') => let '(rs, mf) := memo_session q mc tl memo' in (Ok v :: rs, mf)
    | Err e => let '(rs, mf) := memo_session q mc tl memo in (Err e :: rs, mf)
    end
  end.

(** * The clean recursion behind the prefix counter / unranker
    (what the theorems [C13_prefix_copies_*] are about; compared with the
    stack machine above and with the real code by the correspondence run). *)
Definition binomZ (n k : Z) : Z :=
  fact_nat (Z.to_nat n) / (fact_nat (Z.to_nat k) * fact_nat (Z.to_nat (n - k))).

(** [cnt cs need] = number of words of length [need] over the symbols
    [0 .. length cs - 1] with symbol [i] used at most [cs_i] times *)
Fixpoint cnt (cs : list Z) (need : Z) : Z :=
  match cs with
  | [] => if need =? 0 then 1 else 0
  | c :: tl =>
    (fix loop (k : nat) (v acc : Z) : Z :=
       match k with
       | O => acc
       | S k' => loop k' (v + 1) (acc + binomZ need v * cnt tl (need - v))
       end) (Z.to_nat (Z.min c need + 1)) 0 0
  end.

(** choose the bucket vector: visits [v = 0, 1, ...] for the first counter as
    the continuation stack does, skipping [cnt tl (need - v) * C(need,v) * mult]
    indices per skipped subtree; returns the allocation and the residual index *)
Fixpoint pick (cs : list Z) (need idx mult : Z) : option (list Z * Z) :=
  match cs with
  | [] => if (need =? 0) && (0 <=? idx) && (idx <? mult) then Some ([], idx) else None
  | c :: tl =>
    (fix loop (k : nat) (v idx : Z) : option (list Z * Z) :=
       match k with
       | O => None
       | S k' =>
         let mult' := binomZ need v * mult in
         let sub := cnt tl (need - v) * mult' in
         if idx <? sub then
           match pick tl (need - v) idx mult' with
           | Some (vs, r) => Some (v :: vs, r)
           | None => None
           end
         else loop k' (v + 1) (idx - sub)
       end) (Z.to_nat (Z.min c need + 1)) 0 idx
  end.

Definition prefix_unrank (cs : list Z) (first_n idx : Z) : option (list Z) :=
  match pick cs first_n idx 1 with
  | Some (vs, r) =>
    match construct_with_copies r (Z.of_nat (length cs)) first_n vs with
    | Ok p => Some p
    | Err _ => None
    end
  | None => None
  end.
