(** Reference notions for C13, written from the documentation of the
    combinatoric sampler and not from the code: what an arrangement of each
    kind is, how many there are (Pascal binomial, falling factorial,
    multinomial), and the rank function that inverts each unranking function.
    Definitions only; proofs are in the *Proofs files. *)
From Coq Require Import ZArith List Bool.
From SP Require Import Comb.CombModel.
Import ListNotations.
Open Scope Z_scope.

Fixpoint zsum (l : list Z) : Z := match l with [] => 0 | x :: t => x + zsum t end.
Fixpoint prodZ (l : list Z) : Z := match l with [] => 1 | x :: t => x * prodZ t end.

(** ** Mixed radix (extract_components): least significant digit first *)
Definition digits_ok (sizes ds : list Z) : Prop := Forall2 (fun s d => 0 <= d < s) sizes ds.
Fixpoint radix_rank (sizes ds : list Z) : Z :=
  match sizes, ds with
  | s :: st, d :: dt => d + s * radix_rank st dt
  | _, _ => 0
  end.

(** ** l-digit base-n numbers (compute_jth_combination): most significant digit first *)
Definition comb_rank (n : Z) (ds : list Z) : Z := fold_left (fun acc d => acc * n + d) ds 0.

(** ** Binomial coefficients by Pascal's rule *)
Fixpoint binom (n k : nat) : Z :=
  match n, k with
  | _, O => 1
  | O, S _ => 0
  | S n', S k' => binom n' k' + binom n' (S k')
  end.

(** ** Combinations without replacement: strictly decreasing lists below a bound *)
Fixpoint desc_below (bound : Z) (cs : list Z) : Prop :=
  match cs with
  | [] => True
  | c :: tl => 0 <= c < bound /\ desc_below c tl
  end.
(** combinatorial number system: [c_m > ... > c_1] has rank [sum_i C(c_i, i)] *)
Fixpoint cns_rank (cs : list Z) : Z :=
  match cs with
  | [] => 0
  | c :: tl => binom (Z.to_nat c) (length cs) + cns_rank tl
  end.

(** ** Permutation prefixes: injective m-lists over [0, n) *)
Fixpoint ffact (n : Z) (m : nat) : Z :=            (* n (n-1) ... (n-m+1) *)
  match m with O => 1 | S m' => n * ffact (n - 1) m' end.
Fixpoint falling_sizes (n : Z) (m : nat) : list Z :=
  match m with O => [] | S m' => n :: falling_sizes (n - 1) m' end.
Definition smaller_before (prev : list Z) (x : Z) : Z :=
  Z.of_nat (length (filter (fun y => y <? x) prev)).
(** the code of a prefix: each element counted among the values not used before it *)
Fixpoint perm_code (prev p : list Z) : list Z :=
  match p with
  | [] => []
  | x :: tl => (x - smaller_before prev x) :: perm_code (x :: prev) tl
  end.
Definition perm_rank (n : Z) (p : list Z) : Z :=
  radix_rank (falling_sizes n (length p)) (perm_code [] p).
Definition injective_below (n : Z) (p : list Z) : Prop :=
  NoDup p /\ Forall (fun x => 0 <= x < n) p.

(** ** Arrangements of a multiset: symbol i occurs exactly cs_i times *)
Definition count_sym (w : list Z) (i : Z) : Z := Z.of_nat (count_occ Z.eq_dec w i).
Definition symbols_below (q : nat) (w : list Z) : Prop := Forall (fun x => 0 <= x < Z.of_nat q) w.
Definition arrangement_of (cs w : list Z) : Prop :=
  symbols_below (length cs) w /\
  forall i : nat, (i < length cs)%nat -> count_sym w (Z.of_nat i) = nth i cs 0.
Fixpoint multinomial (cs : list Z) : Z :=
  match cs with
  | [] => 1
  | c :: tl => binom (Z.to_nat (zsum cs)) (Z.to_nat c) * multinomial tl
  end.
Definition dec (cs : list Z) (i : nat) : list Z := set_nth cs i (nth i cs 0 - 1).
(** words that start with a smaller available symbol *)
Definition smaller_first (cs : list Z) (x : nat) : Z :=
  zsum (map (fun i => if nth i cs 0 >? 0 then multinomial (dec cs i) else 0) (seq 0 x)).
(** lexicographic rank among the arrangements of the multiset [cs] *)
Fixpoint multi_rank (cs w : list Z) : Z :=
  match w with
  | [] => 0
  | x :: tl => smaller_first cs (Z.to_nat x) + multi_rank (dec cs (Z.to_nat x)) tl
  end.

(** ** Prefixes with bounded repetitions: words of length n, symbol i at most cs_i times *)
Definition bounded_word (cs : list Z) (n : Z) (w : list Z) : Prop :=
  Z.of_nat (length w) = n /\ symbols_below (length cs) w /\
  forall i : nat, (i < length cs)%nat -> count_sym w (Z.of_nat i) <= nth i cs 0.
Definition usage (q : nat) (w : list Z) : list Z :=
  map (fun i => count_sym w (Z.of_nat i)) (seq 0 q).
(** number of indices used up by the allocations visited before [vs] *)
Fixpoint bucket_offset (cs : list Z) (need mult : Z) (vs : list Z) : Z :=
  match cs, vs with
  | c :: ct, v :: vt =>
    zsum (map (fun u => cnt ct (need - Z.of_nat u) * (binomZ need (Z.of_nat u) * mult)) (seq 0 (Z.to_nat v)))
    + bucket_offset ct (need - v) (binomZ need v * mult) vt
  | _, _ => 0
  end.
Definition prefix_rank (cs w : list Z) : Z :=
  let vs := usage (length cs) w in
  bucket_offset cs (Z.of_nat (length w)) 1 vs + multi_rank vs w.
