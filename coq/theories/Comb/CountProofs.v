(** C13: the public wrappers around the multiset-permutation unranker and the
    closed-form count [count_permutations_with_copies q m (q*m)]. *)
From Coq Require Import ZArith List Bool Lia.
From SP Require Import Comb.CombModel Comb.CombSpec Comb.BinomFacts Comb.MultiProofs.
Import ListNotations.
Open Scope Z_scope.

Lemma zsum_repeat : forall (m : Z) q, zsum (repeat m q) = Z.of_nat q * m.
Proof. induction q; cbn [repeat zsum]; [lia|]. rewrite IHq. lia. Qed.

Lemma pf_repeat : forall (m : Z) q, pf (repeat m q) = fact_nat (Z.to_nat m) ^ Z.of_nat q.
Proof.
  induction q; cbn [repeat pf]; [reflexivity|].
  rewrite IHq, Nat2Z.inj_succ, Z.pow_succ_r by lia. reflexivity.
Qed.

Lemma nonneg_repeat : forall (m : Z) q, 0 <= m -> Forall (fun c => 0 <= c) (repeat m q).
Proof. intros. induction q; cbn [repeat]; constructor; auto. Qed.

(** [construct_permutation_with_varying_copies] is the unranker of [C13_multiperm_bij] *)
Theorem cpwvc_eq : forall idx cs,
  construct_permutation_with_varying_copies idx (Z.of_nat (length cs)) cs =
  construct_with_copies idx (Z.of_nat (length cs)) (zsum cs) cs.
Proof. intros. unfold construct_permutation_with_varying_copies. rewrite sumZ_zsum. reflexivity. Qed.

(** [construct_permutation_with_copies]: the same with all counters equal to m *)
Theorem cpwc_eq : forall idx (q : nat) m,
  construct_permutation_with_copies idx (Z.of_nat q) m =
  construct_with_copies idx (Z.of_nat (length (repeat m q))) (zsum (repeat m q)) (repeat m q).
Proof.
  intros. unfold construct_permutation_with_copies.
  rewrite repeat_length, zsum_repeat, Nat2Z.id. reflexivity.
Qed.

(** the closed form (q m)! / (m!)^q is the multinomial coefficient *)
Theorem count_pwc_full : forall (q : nat) m, 0 <= m ->
  count_permutations_with_copies (Z.of_nat q) m (Z.of_nat q * m) =
  Ok (KCount (multinomial (repeat m q))).
Proof.
  intros q m Hm. unfold count_permutations_with_copies.
  rewrite Z.eqb_refl. rewrite !factorial_ok by nia. cbn [bind].
  pose proof (fact_nat_pos (Z.to_nat m)) as Hf.
  assert (Hp : 0 < fact_nat (Z.to_nat m) ^ Z.of_nat q) by (apply Z.pow_pos_nonneg; lia).
  destruct (fact_nat (Z.to_nat m) ^ Z.of_nat q =? 0) eqn:E; [lia|].
  do 2 f_equal.
  pose proof (multinomial_pf (repeat m q) (nonneg_repeat m q Hm)) as H.
  rewrite zsum_repeat, pf_repeat in H. rewrite <- H. apply Z.div_mul. lia.
Qed.

Print Assumptions cpwvc_eq.
Print Assumptions cpwc_eq.
Print Assumptions count_pwc_full.
