(** C13: the uniform dispatcher branch [first_n <= m] of
    [compute_jth_prefix_of_permutations_with_copies] / [count_prefixes_...]
    uses [compute_jth_combination first_n q j] and [pow(q, first_n)]; here: the
    words it ranges over (all base-q words of length first_n) are exactly the
    bounded-repetition words when no bound can be reached. *)
From Coq Require Import ZArith List Bool Lia.
From SP Require Import Comb.CombModel Comb.CombSpec.
Import ListNotations.
Open Scope Z_scope.

Lemma count_sym_le_length : forall w i, 0 <= count_sym w i <= Z.of_nat (length w).
Proof.
  intros w i. unfold count_sym. induction w as [|x w IH]; cbn [count_occ length]; [lia|].
  destruct (Z.eq_dec x i); lia.
Qed.

Lemma nth_repeat_lt : forall (m : Z) q i, (i < q)%nat -> nth i (repeat m q) 0 = m.
Proof. induction q; intros i H; [lia|]. destruct i; cbn [repeat nth]; [reflexivity|]. apply IHq. lia. Qed.

Theorem uniform_small_words : forall (q : nat) (m first_n : Z) (w : list Z), first_n <= m ->
  (bounded_word (repeat m q) first_n w <->
   Z.of_nat (length w) = first_n /\ Forall (fun d => 0 <= d < Z.of_nat q) w).
Proof.
  intros q m first_n w Hm. unfold bounded_word, symbols_below. rewrite repeat_length. split.
  - intros (H1 & H2 & _). auto.
  - intros (H1 & H2). repeat split; auto. intros i Hi. rewrite nth_repeat_lt by exact Hi.
    pose proof (count_sym_le_length w (Z.of_nat i)). lia.
Qed.

(** the dispatchers on the uniform small branch, literally *)
Theorem dispatch_uniform_small : forall q m first_n j memo, first_n <= m ->
  count_prefixes_of_permutations_with_copies q (Uniform m) first_n memo = Ok (KCount (q ^ first_n), memo) /\
  compute_jth_prefix_of_permutations_with_copies q (Uniform m) first_n j memo =
    match compute_jth_combination first_n q j with Ok p => Ok (KPerm p, memo) | Err e => Err e end.
Proof.
  intros. unfold count_prefixes_of_permutations_with_copies, compute_jth_prefix_of_permutations_with_copies.
  destruct (first_n <=? m) eqn:E; [|lia]. split; [reflexivity|].
  destruct (compute_jth_combination first_n q j); reflexivity.
Qed.

Print Assumptions uniform_small_words.
Print Assumptions dispatch_uniform_small.
