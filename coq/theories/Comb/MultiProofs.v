(** Arrangements of a multiset: [count_remaining_permutations] is the
    multinomial coefficient, the multinomial satisfies the first-symbol
    recurrence, and [construct_with_copies] is the lexicographic unranking
    bijection whose inverse is [multi_rank].  Proof file (no model definitions). *)
From Coq Require Import ZArith List Bool Lia.
From SP Require Import Comb.CombModel Comb.CombSpec Comb.BinomFacts.
Import ListNotations.
Open Scope Z_scope.

Local Notation nonneg cs := (Forall (fun c => 0 <= c) cs).

(** * Product of the factorials of the counters *)
Fixpoint pf (cs : list Z) : Z :=
  match cs with [] => 1 | c :: t => fact_nat (Z.to_nat c) * pf t end.

Lemma pf_pos : forall cs, 0 < pf cs.
Proof.
  induction cs as [|c t IH]; cbn [pf]; [lia|].
  pose proof (fact_nat_pos (Z.to_nat c)). nia.
Qed.

Lemma fact_small : forall c, 0 <= c -> c <= 1 -> fact_nat (Z.to_nat c) = 1.
Proof. intros c H0 H1. assert (E : c = 0 \/ c = 1) by lia. destruct E as [-> | ->]; reflexivity. Qed.

Lemma fact_pred : forall c, 0 < c -> fact_nat (Z.to_nat c) = c * fact_nat (Z.to_nat (c - 1)).
Proof.
  intros c H. replace (Z.to_nat c) with (S (Z.to_nat (c - 1))) by lia.
  rewrite fact_nat_S. f_equal. lia.
Qed.

Lemma multinomial_pf : forall cs, nonneg cs ->
  multinomial cs * pf cs = fact_nat (Z.to_nat (zsum cs)).
Proof.
  induction 1 as [|c tl Hc Htl IH]; [reflexivity|].
  cbn [multinomial pf]. cbn [zsum].
  pose proof (zsum_nonneg tl Htl) as Hs.
  pose proof (binom_fact (Z.to_nat (c + zsum tl)) (Z.to_nat c) ltac:(lia)) as E.
  replace (Z.to_nat (c + zsum tl) - Z.to_nat c)%nat with (Z.to_nat (zsum tl)) in E by lia.
  rewrite <- E, <- IH. ring.
Qed.

Lemma multinomial_nonneg : forall cs, 0 <= multinomial cs.
Proof.
  induction cs as [|c tl IH]; cbn [multinomial]; [lia|].
  pose proof (binom_nonneg (Z.to_nat (zsum (c :: tl))) (Z.to_nat c)). nia.
Qed.

Lemma multinomial_pos : forall cs, nonneg cs -> 0 < multinomial cs.
Proof.
  induction 1 as [|c tl Hc Htl IH]; cbn [multinomial]; [lia|].
  pose proof (zsum_nonneg tl Htl) as Hs.
  apply Z.mul_pos_pos; [|exact IH].
  apply binom_pos. cbn [zsum]. lia.
Qed.

Lemma crp_den : forall cs, nonneg cs -> forall d, crp_denominator cs d = Ok (d * pf cs).
Proof.
  induction 1 as [|c tl Hc Htl IH]; intros d; cbn [crp_denominator pf].
  - f_equal. ring.
  - destruct (c >? 1) eqn:E.
    + rewrite factorial_ok by lia. cbn [bind]. rewrite IH. f_equal. ring.
    + rewrite IH. rewrite fact_small by lia. f_equal. ring.
Qed.

Theorem crp_eq_multinomial : forall cs, Forall (fun c => 0 <= c) cs ->
  count_remaining_permutations cs = Ok (multinomial cs).
Proof.
  intros cs H. unfold count_remaining_permutations.
  rewrite crp_den by exact H. cbn [bind].
  rewrite sumZ_zsum. rewrite factorial_ok by (apply zsum_nonneg; exact H). cbn [bind].
  f_equal. rewrite <- multinomial_pf by exact H. rewrite Z.mul_1_l.
  apply Z.div_mul. pose proof (pf_pos cs). lia.
Qed.

(** * [set_nth] and [dec] *)
Lemma length_set_nth : forall cs i v, length (set_nth cs i v) = length cs.
Proof. induction cs as [|c t IH]; intros [|i] v; cbn [set_nth length]; auto. Qed.

Lemma nth_set_nth_eq : forall cs i v, (i < length cs)%nat -> nth i (set_nth cs i v) 0 = v.
Proof.
  induction cs as [|c t IH]; intros [|i] v H; cbn [length] in H; try lia; cbn [set_nth nth]; auto.
  apply IH. lia.
Qed.

Lemma nth_set_nth_neq : forall cs i j v, i <> j -> nth j (set_nth cs i v) 0 = nth j cs 0.
Proof.
  induction cs as [|c t IH]; intros [|i] [|j] v H; cbn [set_nth nth]; auto; try lia.
Qed.

Lemma zsum_set_nth : forall cs i v, (i < length cs)%nat ->
  zsum (set_nth cs i v) = zsum cs - nth i cs 0 + v.
Proof.
  induction cs as [|c t IH]; intros [|i] v H; cbn [length] in H; try lia; cbn [set_nth nth zsum].
  - lia.
  - rewrite IH by lia. lia.
Qed.

Lemma pf_set_nth : forall cs i v, (i < length cs)%nat ->
  pf (set_nth cs i v) * fact_nat (Z.to_nat (nth i cs 0)) = pf cs * fact_nat (Z.to_nat v).
Proof.
  induction cs as [|c t IH]; intros [|i] v H; cbn [length] in H; try lia; cbn [set_nth nth pf].
  - ring.
  - rewrite <- Z.mul_assoc, IH by lia. ring.
Qed.

Lemma Forall_set_nth : forall cs i v, nonneg cs -> 0 <= v -> nonneg (set_nth cs i v).
Proof.
  induction cs as [|c t IH]; intros [|i] v H Hv; cbn [set_nth]; auto;
    inversion H; subst; constructor; auto.
Qed.

Lemma nth_nonneg : forall cs i, nonneg cs -> 0 <= nth i cs 0.
Proof.
  induction cs as [|c t IH]; intros [|i] H; cbn [nth]; try lia; inversion H; subst; auto.
Qed.

Lemma length_dec : forall cs i, length (dec cs i) = length cs.
Proof. intros. apply length_set_nth. Qed.

Lemma nth_dec_eq : forall cs i, (i < length cs)%nat -> nth i (dec cs i) 0 = nth i cs 0 - 1.
Proof. intros. apply nth_set_nth_eq. assumption. Qed.

Lemma nth_dec_neq : forall cs i j, i <> j -> nth j (dec cs i) 0 = nth j cs 0.
Proof. intros. apply nth_set_nth_neq. assumption. Qed.

Lemma zsum_dec : forall cs i, (i < length cs)%nat -> zsum (dec cs i) = zsum cs - 1.
Proof. intros. unfold dec. rewrite zsum_set_nth by assumption. lia. Qed.

Lemma nonneg_dec : forall cs i, nonneg cs -> 0 < nth i cs 0 -> nonneg (dec cs i).
Proof. intros. apply Forall_set_nth; [assumption | lia]. Qed.

Lemma pf_dec : forall cs i, (i < length cs)%nat -> 0 < nth i cs 0 ->
  pf cs = nth i cs 0 * pf (dec cs i).
Proof.
  intros cs i H Hp. pose proof (pf_set_nth cs i (nth i cs 0 - 1) H) as E.
  fold (dec cs i) in E. rewrite (fact_pred (nth i cs 0) Hp) in E.
  pose proof (fact_nat_pos (Z.to_nat (nth i cs 0 - 1))) as Hf.
  apply (Z.mul_reg_r _ _ (fact_nat (Z.to_nat (nth i cs 0 - 1)))); [lia|].
  rewrite <- E. ring.
Qed.

Lemma get_nth : forall cs i, (i < length cs)%nat -> get cs i = Ok (nth i cs 0).
Proof.
  intros cs i H. unfold get.
  destruct (nth_error cs i) eqn:E.
  - f_equal. symmetry. apply nth_error_nth. exact E.
  - apply nth_error_None in E. lia.
Qed.

Lemma nonneg_zero_nth : forall cs, nonneg cs -> zsum cs = 0 -> forall i, nth i cs 0 = 0.
Proof.
  induction 1 as [|c tl Hc Htl IH]; intros Hz [|i]; cbn [nth]; try reflexivity;
    cbn [zsum] in Hz; pose proof (zsum_nonneg tl Htl).
  - lia.
  - apply IH. lia.
Qed.

Lemma multinomial_zero : forall cs, nonneg cs -> zsum cs = 0 -> multinomial cs = 1.
Proof.
  induction 1 as [|c tl Hc Htl IH]; intros Hz; [reflexivity|].
  cbn [multinomial]. rewrite Hz. cbn [zsum] in Hz. pose proof (zsum_nonneg tl Htl).
  rewrite IH by lia. replace c with 0 by lia. reflexivity.
Qed.

Lemma zero_nth_zsum : forall cs, (forall i, nth i cs 0 = 0) -> zsum cs = 0.
Proof.
  induction cs as [|c tl IH]; intros H; cbn [zsum]; [reflexivity|].
  pose proof (H O) as H0. cbn [nth] in H0. rewrite IH; [lia|].
  intros i. apply (H (S i)).
Qed.

(** * The first-symbol recurrence *)
Definition term (cs : list Z) (i : nat) : Z :=
  if nth i cs 0 >? 0 then multinomial (dec cs i) else 0.

Lemma sf_unfold : forall cs x, smaller_first cs x = zsum (map (term cs) (seq 0 x)).
Proof. reflexivity. Qed.

Lemma sf_0 : forall cs, smaller_first cs 0 = 0.
Proof. reflexivity. Qed.

Lemma sf_S : forall cs x, smaller_first cs (S x) = smaller_first cs x + term cs x.
Proof.
  intros. rewrite !sf_unfold, seq_S, map_app, zsum_app. cbn [map zsum Nat.add]. lia.
Qed.

Lemma term_nonneg : forall cs i, 0 <= term cs i.
Proof.
  intros. unfold term. destruct (nth i cs 0 >? 0); [apply multinomial_nonneg | lia].
Qed.

Lemma sf_mono : forall cs x y, (x <= y)%nat -> smaller_first cs x <= smaller_first cs y.
Proof.
  intros cs x y H. induction H; [lia|]. rewrite sf_S. pose proof (term_nonneg cs m). lia.
Qed.

Lemma term_pf : forall cs i, nonneg cs -> (i < length cs)%nat ->
  term cs i * pf cs = nth i cs 0 * fact_nat (Z.to_nat (zsum cs - 1)).
Proof.
  intros cs i H Hi. unfold term. pose proof (nth_nonneg cs i H) as Hn.
  destruct (nth i cs 0 >? 0) eqn:E.
  - assert (Hp : 0 < nth i cs 0) by lia.
    rewrite (pf_dec cs i Hi Hp).
    rewrite <- (zsum_dec cs i Hi).
    rewrite <- (multinomial_pf (dec cs i)) by (apply nonneg_dec; assumption).
    ring.
  - replace (nth i cs 0) with 0 by lia. ring.
Qed.

Definition psum (cs : list Z) (x : nat) : Z := zsum (map (fun i => nth i cs 0) (seq 0 x)).

Lemma psum_S : forall cs x, psum cs (S x) = psum cs x + nth x cs 0.
Proof.
  intros. unfold psum. rewrite seq_S, map_app, zsum_app. cbn [map zsum Nat.add]. lia.
Qed.

Lemma psum_all : forall cs, psum cs (length cs) = zsum cs.
Proof.
  unfold psum. induction cs as [|c tl IH]; [reflexivity|].
  cbn [length]. cbn [seq]. rewrite <- seq_shift. cbn [map]. rewrite map_map. cbn [nth zsum].
  rewrite IH. reflexivity.
Qed.

Lemma sf_pf : forall cs x, nonneg cs -> (x <= length cs)%nat ->
  smaller_first cs x * pf cs = psum cs x * fact_nat (Z.to_nat (zsum cs - 1)).
Proof.
  intros cs x H. induction x as [|x IH]; intros Hx.
  - reflexivity.
  - rewrite sf_S, psum_S, Z.mul_add_distr_r, IH by lia.
    rewrite term_pf by (auto; lia). ring.
Qed.

Theorem multinomial_step : forall cs, Forall (fun c => 0 <= c) cs -> 0 < zsum cs ->
  multinomial cs = smaller_first cs (length cs).
Proof.
  intros cs H Hs.
  pose proof (pf_pos cs) as Hp.
  apply (Z.mul_reg_r _ _ (pf cs)); [lia|].
  rewrite multinomial_pf by exact H.
  rewrite sf_pf by (auto; lia).
  rewrite psum_all. apply fact_pred. exact Hs.
Qed.

(** * The inner scan *)
Lemma cpc_inner_spec : forall cs, nonneg cs -> forall fuel i0 J,
  (length cs - i0 <= fuel)%nat ->
  smaller_first cs i0 <= J < smaller_first cs (length cs) ->
  exists x, (i0 <= x < length cs)%nat /\ 0 < nth x cs 0 /\
    smaller_first cs x <= J < smaller_first cs (S x) /\
    cpc_inner fuel (Z.of_nat (length cs)) i0 (J - smaller_first cs i0) cs
      = Ok (x, J - smaller_first cs x, dec cs x).
Proof.
  intros cs H. induction fuel as [|f IH]; intros i0 J Hf HJ;
    (assert (Hi : (i0 < length cs)%nat)
      by (destruct (le_lt_dec (length cs) i0) as [Hl|Hl];
          [pose proof (sf_mono cs _ _ Hl); lia | exact Hl])).
  - lia.
  - cbn [cpc_inner].
    destruct (Z.of_nat i0 <? Z.of_nat (length cs)) eqn:E; [|lia].
    rewrite get_nth by exact Hi. cbn [bind].
    pose proof (sf_S cs i0) as HS. unfold term in HS.
    destruct (nth i0 cs 0 >? 0) eqn:Ec.
    + change (set_nth cs i0 (nth i0 cs 0 - 1)) with (dec cs i0).
      rewrite crp_eq_multinomial by (apply nonneg_dec; [exact H | lia]). cbn [bind].
      destruct (J - smaller_first cs i0 >=? multinomial (dec cs i0)) eqn:Eg.
      * destruct (IH (S i0) J) as (x & Hx & Hpos & Hb & Hr); [lia | lia |].
        exists x. split; [lia|]. split; [exact Hpos|]. split; [exact Hb|].
        replace (J - smaller_first cs i0 - multinomial (dec cs i0))
          with (J - smaller_first cs (S i0)) by lia.
        exact Hr.
      * exists i0. split; [lia|]. split; [lia|]. split; [lia|]. reflexivity.
    + destruct (IH (S i0) J) as (x & Hx & Hpos & Hb & Hr); [lia | lia |].
      exists x. split; [lia|]. split; [exact Hpos|]. split; [exact Hb|].
      replace (J - smaller_first cs i0) with (J - smaller_first cs (S i0)) by lia.
      exact Hr.
Qed.

Lemma sf_block_unique : forall cs x y J,
  smaller_first cs x <= J < smaller_first cs (S x) ->
  smaller_first cs y <= J < smaller_first cs (S y) -> x = y.
Proof.
  intros cs x y J Hx Hy.
  destruct (lt_eq_lt_dec x y) as [[Hl|He]|Hl]; [|exact He|].
  - pose proof (sf_mono cs (S x) y ltac:(lia)). lia.
  - pose proof (sf_mono cs (S y) x ltac:(lia)). lia.
Qed.

(** * Arrangements *)
Lemma count_sym_cons : forall y w i,
  count_sym (y :: w) i = (if Z.eq_dec y i then 1 else 0) + count_sym w i.
Proof.
  intros. unfold count_sym. cbn [count_occ]. destruct (Z.eq_dec y i); lia.
Qed.

Lemma count_sym_nil : forall i, count_sym [] i = 0.
Proof. reflexivity. Qed.

Lemma count_sym_nonneg : forall w i, 0 <= count_sym w i.
Proof. intros. unfold count_sym. lia. Qed.

Lemma arr_cons : forall cs x w, (x < length cs)%nat ->
  arrangement_of (dec cs x) w -> arrangement_of cs (Z.of_nat x :: w).
Proof.
  intros cs x w Hx [Hs Hc]. unfold symbols_below in Hs. rewrite length_dec in Hs, Hc.
  split.
  - unfold symbols_below. constructor; [lia | exact Hs].
  - intros i Hi. rewrite count_sym_cons. specialize (Hc i Hi).
    destruct (Z.eq_dec (Z.of_nat x) (Z.of_nat i)) as [e|n].
    + assert (x = i) by lia. subst i. rewrite nth_dec_eq in Hc by exact Hx. lia.
    + rewrite nth_dec_neq in Hc by lia. lia.
Qed.

Lemma arr_inv : forall cs y w, arrangement_of cs (y :: w) ->
  exists x, y = Z.of_nat x /\ (x < length cs)%nat /\ 0 < nth x cs 0 /\
            arrangement_of (dec cs x) w.
Proof.
  intros cs y w [Hs Hc]. unfold symbols_below in Hs.
  inversion Hs as [|y' w' Hy Hw]; subst.
  exists (Z.to_nat y). assert (Hlt : (Z.to_nat y < length cs)%nat) by lia.
  split; [lia|]. split; [exact Hlt|].
  assert (Hyy : Z.of_nat (Z.to_nat y) = y) by lia.
  split.
  - pose proof (Hc _ Hlt) as E. rewrite count_sym_cons, Hyy in E.
    destruct (Z.eq_dec y y) as [_|n]; [|congruence].
    pose proof (count_sym_nonneg w y). lia.
  - split.
    + unfold symbols_below. rewrite length_dec. exact Hw.
    + rewrite length_dec. intros i Hi. pose proof (Hc i Hi) as E.
      rewrite count_sym_cons in E.
      destruct (Z.eq_dec y (Z.of_nat i)) as [e|n].
      * assert (i = Z.to_nat y) by lia. subst i. rewrite nth_dec_eq by exact Hlt. lia.
      * rewrite nth_dec_neq by lia. lia.
Qed.

Lemma arr_nonneg : forall cs w, arrangement_of cs w -> nonneg cs.
Proof.
  intros cs w [_ Hc]. apply Forall_forall. intros c Hin.
  destruct (In_nth cs c 0 Hin) as (i & Hi & E).
  rewrite <- E, <- (Hc i Hi). apply count_sym_nonneg.
Qed.

Lemma arr_nil_zero : forall cs, arrangement_of cs [] -> forall i, nth i cs 0 = 0.
Proof.
  intros cs [_ Hc] i. destruct (le_lt_dec (length cs) i) as [Hl|Hl].
  - apply nth_overflow. exact Hl.
  - rewrite <- (Hc i Hl). reflexivity.
Qed.

Lemma arr_length : forall w cs, arrangement_of cs w -> Z.of_nat (length w) = zsum cs.
Proof.
  induction w as [|y w IH]; intros cs Ha.
  - cbn [length]. symmetry. apply zero_nth_zsum. apply arr_nil_zero. exact Ha.
  - destruct (arr_inv cs y w Ha) as (x & Hy & Hx & Hp & Hd).
    specialize (IH _ Hd). rewrite zsum_dec in IH by exact Hx. cbn [length]. lia.
Qed.

Lemma arr_zero : forall cs, nonneg cs -> zsum cs = 0 -> arrangement_of cs [].
Proof.
  intros cs H Hz. split; [constructor|].
  intros i Hi. rewrite (nonneg_zero_nth cs H Hz). reflexivity.
Qed.

(** * The outer loop: unranking then ranking *)
Lemma cpc_outer_fwd : forall cnt cs idx, nonneg cs -> zsum cs = Z.of_nat cnt ->
  0 <= idx < multinomial cs ->
  exists w, cpc_outer cnt (Z.of_nat (length cs)) idx cs = Ok w /\
            arrangement_of cs w /\ multi_rank cs w = idx.
Proof.
  induction cnt as [|c IH]; intros cs idx H Hz Hidx.
  - exists []. rewrite multinomial_zero in Hidx by (auto; lia).
    split; [reflexivity|]. split; [apply arr_zero; [exact H | lia]|].
    cbn [multi_rank]. lia.
  - rewrite (multinomial_step cs H) in Hidx by lia.
    destruct (cpc_inner_spec cs H (length cs) 0%nat idx ltac:(lia))
      as (x & Hx & Hpos & Hb & Hr); [rewrite sf_0; lia|].
    rewrite sf_0, Z.sub_0_r in Hr.
    pose proof (sf_S cs x) as HS. unfold term in HS.
    destruct (nth x cs 0 >? 0) eqn:Ec; [|lia].
    destruct (IH (dec cs x) (idx - smaller_first cs x)) as (w & Hw & Ha & Hrk).
    + apply nonneg_dec; assumption.
    + rewrite zsum_dec by lia. lia.
    + lia.
    + rewrite length_dec in Hw.
      exists (Z.of_nat x :: w). split; [|split].
      * cbn [cpc_outer]. rewrite Nat2Z.id, Hr. cbn [bind]. rewrite Hw. reflexivity.
      * apply arr_cons; [lia | exact Ha].
      * cbn [multi_rank]. rewrite Nat2Z.id, Hrk. lia.
Qed.

Lemma cpc_outer_bwd : forall w cs, arrangement_of cs w ->
  0 <= multi_rank cs w < multinomial cs /\
  cpc_outer (length w) (Z.of_nat (length cs)) (multi_rank cs w) cs = Ok w.
Proof.
  induction w as [|y w IH]; intros cs Ha; pose proof (arr_nonneg cs _ Ha) as H.
  - cbn [multi_rank length cpc_outer]. pose proof (multinomial_pos cs H). split; [lia | reflexivity].
  - destruct (arr_inv cs y w Ha) as (x & Hy & Hx & Hp & Hd). subst y.
    destruct (IH _ Hd) as [Hr Hout]. rewrite length_dec in Hout.
    pose proof (arr_length _ _ Ha) as Hlen. cbn [length] in Hlen.
    cbn [multi_rank]. rewrite Nat2Z.id.
    set (r := multi_rank (dec cs x) w) in *.
    pose proof (sf_S cs x) as HS. unfold term in HS.
    destruct (nth x cs 0 >? 0) eqn:Ec; [|lia].
    pose proof (sf_mono cs (S x) (length cs) ltac:(lia)) as Hm.
    pose proof (sf_mono cs 0 x ltac:(lia)) as Hm0. rewrite sf_0 in Hm0.
    rewrite (multinomial_step cs H) by lia.
    split; [lia|].
    destruct (cpc_inner_spec cs H (length cs) 0%nat (smaller_first cs x + r) ltac:(lia))
      as (x' & Hx' & Hpos' & Hb' & Hr'); [rewrite sf_0; lia|].
    rewrite sf_0, Z.sub_0_r in Hr'.
    assert (x' = x) by (apply (sf_block_unique cs x' x (smaller_first cs x + r)); lia).
    subst x'.
    replace (smaller_first cs x + r - smaller_first cs x) with r in Hr' by lia.
    cbn [length cpc_outer]. rewrite Nat2Z.id, Hr'. cbn [bind]. rewrite Hout. reflexivity.
Qed.

Theorem multiperm_bij : forall cs, Forall (fun c => 0 <= c) cs ->
  (forall idx, 0 <= idx < multinomial cs ->
     exists w, construct_with_copies idx (Z.of_nat (length cs)) (zsum cs) cs = Ok w /\
               arrangement_of cs w /\ multi_rank cs w = idx) /\
  (forall w, arrangement_of cs w ->
     0 <= multi_rank cs w < multinomial cs /\
     construct_with_copies (multi_rank cs w) (Z.of_nat (length cs)) (zsum cs) cs = Ok w).
Proof.
  intros cs H. pose proof (zsum_nonneg cs H) as Hs. split.
  - intros idx Hidx. unfold construct_with_copies.
    apply cpc_outer_fwd; [exact H | lia | exact Hidx].
  - intros w Ha. destruct (cpc_outer_bwd w cs Ha) as [Hr Hout].
    split; [exact Hr|]. unfold construct_with_copies.
    rewrite <- (arr_length w cs Ha), Nat2Z.id. exact Hout.
Qed.

Print Assumptions crp_eq_multinomial.
Print Assumptions multinomial_step.
Print Assumptions multiperm_bij.
