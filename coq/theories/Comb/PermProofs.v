(** Permutation prefixes: [compute_jth_permutation_prefix n m] is a bijection
    from [0, n!/(n-m)!) onto the injective m-lists over [0, n), with inverse
    [perm_rank].  Proof file (no model definitions).

    Two layers: (A) [inversion_loop] computes the mixed-radix digits for the
    radices [falling_sizes n m]; (B) [construct_permutation_loop] selects, for
    each digit, the free index with exactly that many free indices below it,
    which is the inverse of [perm_code]. *)
From Coq Require Import ZArith List Bool Lia ZifyBool Permutation.
From SP Require Import Comb.CombModel Comb.CombSpec Comb.BinomFacts.
Import ListNotations.
Open Scope Z_scope.

(** * The count *)
Theorem ffact_fact : forall n m : nat, (m <= n)%nat ->
  ffact (Z.of_nat n) m * fact_nat (n - m) = fact_nat n.
Proof.
  intros n m; revert n. induction m; intros n H.
  - cbn [ffact]. rewrite Nat.sub_0_r. lia.
  - destruct n as [|n']; [lia|].
    cbn [ffact]. replace (Z.of_nat (S n') - 1) with (Z.of_nat n') by lia.
    replace (S n' - S m)%nat with (n' - m)%nat by lia.
    rewrite fact_nat_S. rewrite <- (IHm n') by lia. ring.
Qed.

(** * (A) digits *)
Lemma inv_loop_fwd : forall m n j, Z.of_nat m <= n -> 0 <= j < ffact n m ->
  exists ds, inversion_loop m n j = Ok ds /\ digits_ok (falling_sizes n m) ds /\
             radix_rank (falling_sizes n m) ds = j.
Proof.
  induction m; intros n j Hm Hj.
  - cbn [ffact] in Hj. exists []. cbn [inversion_loop falling_sizes radix_rank].
    split; [reflexivity|]. split; [constructor|lia].
  - cbn [ffact] in Hj. assert (Hn : 0 < n) by lia.
    assert (Hq : 0 <= j / n < ffact (n - 1) m).
    { split; [apply Z.div_pos; lia | apply Z.div_lt_upper_bound; lia]. }
    destruct (IHm (n - 1) (j / n)) as (ds & E & D & R); [lia | exact Hq |].
    exists (j mod n :: ds). cbn [inversion_loop falling_sizes radix_rank].
    destruct (n =? 0) eqn:En; [lia|]. rewrite E. cbn [bind].
    split; [reflexivity|]. split.
    + constructor; [apply Z.mod_pos_bound; lia | exact D].
    + rewrite R. pose proof (Z.div_mod j n). lia.
Qed.

Lemma inv_loop_bwd : forall m n ds, Z.of_nat m <= n -> digits_ok (falling_sizes n m) ds ->
  0 <= radix_rank (falling_sizes n m) ds < ffact n m /\
  inversion_loop m n (radix_rank (falling_sizes n m) ds) = Ok ds.
Proof.
  induction m; intros n ds Hm D; unfold digits_ok in D; cbn [falling_sizes] in D.
  - inversion D; subst. cbn [falling_sizes radix_rank ffact inversion_loop]. split; [lia|reflexivity].
  - inversion D as [|s d st dt Hd Ht]; subst.
    destruct (IHm (n - 1) dt) as (R & E); [lia | exact Ht |].
    cbn [falling_sizes radix_rank ffact inversion_loop].
    set (r := radix_rank (falling_sizes (n - 1) m) dt) in *.
    assert (Hdiv : (d + n * r) / n = r).
    { rewrite (Z.mul_comm n r), Z.div_add by lia. rewrite Z.div_small by lia. lia. }
    assert (Hmod : (d + n * r) mod n = d).
    { rewrite (Z.mul_comm n r), Z.mod_add by lia. apply Z.mod_small; lia. }
    split; [nia|].
    destruct (n =? 0) eqn:En; [lia|]. rewrite Hdiv, Hmod. rewrite E. reflexivity.
Qed.

(** * (B) selection *)

(** number of free (not used) positions strictly below [i] *)
Fixpoint cfb (used : list bool) (i : nat) : nat :=
  match i with
  | O => O
  | S k => (cfb used k + match nth_error used k with Some false => 1 | _ => 0 end)%nat
  end.

Lemma cfb_S_free : forall used k, nth_error used k = Some false -> cfb used (S k) = S (cfb used k).
Proof. intros used k H. cbn [cfb]. rewrite H. lia. Qed.

Lemma cfb_S_used : forall used k, nth_error used k = Some true -> cfb used (S k) = cfb used k.
Proof. intros used k H. cbn [cfb]. rewrite H. lia. Qed.

Lemma cfb_mono : forall used i j, (i <= j)%nat -> (cfb used i <= cfb used j)%nat.
Proof. intros used i j H. induction H; [lia|]. cbn [cfb]. lia. Qed.

Lemma cfb_gap : forall used b a, (cfb used a < cfb used b)%nat ->
  exists i, (a <= i < b)%nat /\ nth_error used i = Some false.
Proof.
  induction b; intros a H.
  - cbn [cfb] in H. lia.
  - destruct (le_lt_dec a b) as [Hab|Hab].
    + destruct (nth_error used b) as [[|]|] eqn:Eb.
      * rewrite (cfb_S_used _ _ Eb) in H. destruct (IHb a H) as (i & Hi & Hf). exists i. split; [lia|exact Hf].
      * exists b. split; [lia|exact Eb].
      * cbn [cfb] in H. rewrite Eb in H. destruct (IHb a) as (i & Hi & Hf); [lia|]. exists i. split; [lia|exact Hf].
    + pose proof (cfb_mono used (S b) a Hab). lia.
Qed.

Lemma cfb_free_inj : forall used a b,
  nth_error used a = Some false -> nth_error used b = Some false -> cfb used a = cfb used b -> a = b.
Proof.
  intros used a b Ha Hb E.
  destruct (lt_eq_lt_dec a b) as [[H|H]|H]; [|exact H|].
  - pose proof (cfb_S_free _ _ Ha). pose proof (cfb_mono used (S a) b H). lia.
  - pose proof (cfb_S_free _ _ Hb). pose proof (cfb_mono used (S b) a H). lia.
Qed.

Lemma nth_error_le_some : forall (used : list bool) i k b,
  nth_error used i = Some b -> (k <= i)%nat -> exists b', nth_error used k = Some b'.
Proof.
  intros used i k b H Hk. destruct (nth_error used k) as [b'|] eqn:E; [eauto|].
  apply nth_error_None in E. assert (i < length used)%nat by (apply nth_error_Some; congruence). lia.
Qed.

Lemma skip_used_eq : forall fuel used idx, skip_used fuel used idx =
  (b <- used_at used idx ;;
   if b then match fuel with O => Err OutOfFuel | S f => skip_used f used (S idx) end else Ok idx).
Proof. destruct fuel; reflexivity. Qed.

Lemma skip_free_eq : forall fuel used skip idx, skip_free fuel used skip idx =
  if skip >? 0 then
    match fuel with
    | O => Err OutOfFuel
    | S f => b <- used_at used idx ;; skip_free f used (if b then skip else skip - 1) (S idx)
    end
  else Ok idx.
Proof. destruct fuel; reflexivity. Qed.

(** [while used[idx]: idx += 1] stops at the first free position *)
Lemma skip_used_spec : forall used fuel idx i,
  (idx <= i)%nat -> nth_error used i = Some false -> (i - idx <= fuel)%nat ->
  exists r, skip_used fuel used idx = Ok r /\ (idx <= r <= i)%nat /\
            nth_error used r = Some false /\ cfb used r = cfb used idx.
Proof.
  induction fuel; intros idx i Hle Hi Hf; rewrite skip_used_eq; unfold used_at.
  - assert (idx = i) by lia. subst. rewrite Hi. cbn [bind]. exists i.
    split; [reflexivity|]. split; [lia|]. split; [exact Hi|reflexivity].
  - destruct (nth_error_le_some used i idx false Hi Hle) as [b Hb]. rewrite Hb. cbn [bind].
    destruct b.
    + assert (idx <> i) by congruence.
      destruct (IHfuel (S idx) i) as (r & E & Hr & Hfree & Hc); [lia | exact Hi | lia |].
      exists r. split; [exact E|]. split; [lia|]. split; [exact Hfree|].
      rewrite Hc. apply cfb_S_used; exact Hb.
    + exists idx. split; [reflexivity|]. split; [lia|]. split; [exact Hb|reflexivity].
Qed.

(** the middle loop advances past exactly [skip] free positions *)
Lemma skip_free_spec : forall used fuel skip idx,
  0 <= skip -> Z.of_nat (cfb used idx) + skip <= Z.of_nat (cfb used (length used)) ->
  (idx <= length used)%nat -> (length used - idx <= fuel)%nat ->
  exists r, skip_free fuel used skip idx = Ok r /\ (idx <= r <= length used)%nat /\
            Z.of_nat (cfb used r) = Z.of_nat (cfb used idx) + skip.
Proof.
  induction fuel; intros skip idx Hs Hc Hi Hf; rewrite skip_free_eq; destruct (skip >? 0) eqn:Es.
  - assert (idx = length used) by lia. subst. lia.
  - exists idx. split; [reflexivity|]. split; lia.
  - assert (Hlt : (idx < length used)%nat).
    { destruct (Nat.eq_dec idx (length used)) as [->|]; lia. }
    destruct (nth_error used idx) as [b|] eqn:Hb; [|apply nth_error_None in Hb; lia].
    unfold used_at. rewrite Hb. cbn [bind]. destruct b.
    + pose proof (cfb_S_used _ _ Hb) as Hu.
      destruct (IHfuel skip (S idx)) as (r & E & Hr & Hcr); try lia.
      exists r. split; [exact E|]. split; lia.
    + pose proof (cfb_S_free _ _ Hb) as Hu.
      destruct (IHfuel (skip - 1) (S idx)) as (r & E & Hr & Hcr); try lia.
      exists r. split; [exact E|]. split; lia.
  - exists idx. split; [reflexivity|]. split; lia.
Qed.

(** the three scans together: the free position with exactly [skip] free positions below it *)
Lemma scan_spec : forall used skip,
  0 <= skip < Z.of_nat (cfb used (length used)) ->
  exists i1 i2 i3,
    skip_used (S (length used)) used 0 = Ok i1 /\
    skip_free (S (length used)) used skip i1 = Ok i2 /\
    skip_used (S (length used)) used i2 = Ok i3 /\
    nth_error used i3 = Some false /\ Z.of_nat (cfb used i3) = skip.
Proof.
  intros used skip H.
  destruct (cfb_gap used (length used) 0%nat) as (i0 & Hi0 & Hf0); [cbn [cfb]; lia|].
  destruct (skip_used_spec used (S (length used)) 0%nat i0) as (i1 & E1 & Hr1 & _ & Hc1);
    [lia | exact Hf0 | lia |].
  cbn [cfb] in Hc1.
  destruct (skip_free_spec used (S (length used)) skip i1) as (i2 & E2 & Hr2 & Hc2); try lia.
  destruct (cfb_gap used (length used) i2) as (i' & Hi' & Hf'); [lia|].
  destruct (skip_used_spec used (S (length used)) i2 i') as (i3 & E3 & Hr3 & Hf3 & Hc3);
    [lia | exact Hf' | lia |].
  exists i1, i2, i3. repeat split; try assumption. lia.
Qed.

Lemma set_true_spec : forall used i b, nth_error used i = Some b ->
  exists used', set_true used i = Ok used' /\ length used' = length used /\
    forall k, nth_error used' k = if Nat.eqb k i then Some true else nth_error used k.
Proof.
  induction used as [|a t IH]; intros i b H.
  - destruct i; discriminate.
  - destruct i as [|i]; cbn [set_true].
    + exists (true :: t). split; [reflexivity|]. split; [reflexivity|]. intros [|k]; reflexivity.
    + cbn [nth_error] in H. destruct (IH i b H) as (t' & E & L & N). rewrite E. cbn [bind].
      exists (a :: t'). split; [reflexivity|]. split; [cbn [length]; lia|].
      intros [|k]; cbn [nth_error Nat.eqb]; [reflexivity | apply N].
Qed.

(** ** the used flags against the list of values already chosen *)
Definition inb (prev : list Z) (x : Z) : bool := existsb (Z.eqb x) prev.
Definition rel (n : nat) (used : list bool) (prev : list Z) : Prop :=
  length used = n /\ forall i, (i < n)%nat -> nth_error used i = Some (inb prev (Z.of_nat i)).
Definition below (n : nat) (l : list Z) : Prop := Forall (fun y => 0 <= y < Z.of_nat n) l.

Lemma inb_In : forall prev x, inb prev x = true <-> In x prev.
Proof.
  intros prev x. unfold inb. rewrite existsb_exists. split.
  - intros (y & Hy & E). apply Z.eqb_eq in E. subst. exact Hy.
  - intros H. exists x. split; [exact H | apply Z.eqb_refl].
Qed.

Lemma inb_false : forall prev x, ~ In x prev -> inb prev x = false.
Proof. intros prev x H. destruct (inb prev x) eqn:E; [apply inb_In in E; contradiction | reflexivity]. Qed.

Lemma sb_succ : forall prev x, NoDup prev ->
  smaller_before prev (x + 1) = smaller_before prev x + (if inb prev x then 1 else 0).
Proof.
  induction prev as [|y prev IH]; intros x Hnd.
  - reflexivity.
  - inversion Hnd as [|y' l' Hnin Hnd']; subst. specialize (IH x Hnd').
    unfold smaller_before in *. unfold inb in *. cbn [filter existsb].
    destruct (x =? y) eqn:Exy.
    + apply Z.eqb_eq in Exy. subst y. pose proof (inb_false prev x Hnin) as Ef. unfold inb in Ef.
      rewrite Ef in IH. cbn [orb].
      destruct (x <? x + 1) eqn:E1; [|lia]. destruct (x <? x) eqn:E2; [lia|].
      cbn [length]. lia.
    + cbn [orb]. destruct (y <? x + 1) eqn:E1; destruct (y <? x) eqn:E2; cbn [length]; lia.
Qed.

Lemma sb_zero : forall prev, Forall (fun y => 0 <= y) prev -> smaller_before prev 0 = 0.
Proof.
  induction 1 as [|y prev Hy H IH]; [reflexivity|].
  unfold smaller_before in *. cbn [filter]. destruct (y <? 0) eqn:E; [lia|exact IH].
Qed.

Lemma sb_all : forall prev n, Forall (fun y => y < n) prev -> smaller_before prev n = Z.of_nat (length prev).
Proof.
  induction 1 as [|y prev Hy H IH]; [reflexivity|].
  unfold smaller_before in *. cbn [filter]. destruct (y <? n) eqn:E; [|lia]. cbn [length]. lia.
Qed.

(** free positions below x = x minus the chosen values below x *)
Lemma cfb_rel : forall n used prev, rel n used prev -> NoDup prev -> below n prev ->
  forall x, (x <= n)%nat -> Z.of_nat (cfb used x) = Z.of_nat x - smaller_before prev (Z.of_nat x).
Proof.
  intros n used prev [Hlen Hrel] Hnd Hb. induction x; intros Hx.
  - cbn [cfb]. rewrite sb_zero; [lia|]. eapply Forall_impl; [|exact Hb]. cbn beta. intros; lia.
  - cbn [cfb]. rewrite (Hrel x) by lia.
    replace (Z.of_nat (S x)) with (Z.of_nat x + 1) by lia.
    rewrite sb_succ by exact Hnd. specialize (IHx ltac:(lia)).
    destruct (inb prev (Z.of_nat x)); lia.
Qed.

Lemma cfb_total : forall n used prev, rel n used prev -> NoDup prev -> below n prev ->
  Z.of_nat (cfb used (length used)) = Z.of_nat n - Z.of_nat (length prev).
Proof.
  intros n used prev Hrel Hnd Hb. pose proof (proj1 Hrel) as Hlen. rewrite Hlen.
  rewrite (cfb_rel n used prev Hrel Hnd Hb n) by lia.
  rewrite sb_all; [lia|]. eapply Forall_impl; [|exact Hb]. cbn beta. intros; lia.
Qed.

Lemma rel_step : forall n used used' prev i,
  rel n used prev -> (i < n)%nat -> length used' = length used ->
  (forall k, nth_error used' k = if Nat.eqb k i then Some true else nth_error used k) ->
  rel n used' (Z.of_nat i :: prev).
Proof.
  intros n used used' prev i [Hlen Hrel] Hi L N. split; [lia|].
  intros k Hk. rewrite N. unfold inb. cbn [existsb].
  destruct (Nat.eqb k i) eqn:E.
  - apply Nat.eqb_eq in E. subst. rewrite Z.eqb_refl. reflexivity.
  - apply Nat.eqb_neq in E. destruct (Z.of_nat k =? Z.of_nat i) eqn:E2; [lia|].
    cbn [orb]. apply Hrel. exact Hk.
Qed.

Lemma rel_init : forall n, rel n (repeat false n) [].
Proof.
  intros n. split; [apply repeat_length|]. intros i Hi. cbn. apply nth_error_repeat. exact Hi.
Qed.

Lemma NoDup_app_r : forall (A : Type) (l l' : list A), NoDup (l ++ l') -> NoDup l'.
Proof. induction l as [|a l IH]; intros l' H; [exact H|]. inversion H; subst. apply IH. assumption. Qed.

(** digits to prefix *)
Lemma cpl_fwd : forall inv n used prev,
  rel n used prev -> NoDup prev -> below n prev ->
  digits_ok (falling_sizes (Z.of_nat n - Z.of_nat (length prev)) (length inv)) inv ->
  exists p, construct_permutation_loop inv used = Ok p /\ length p = length inv /\
            NoDup (p ++ prev) /\ below n p /\ perm_code prev p = inv.
Proof.
  induction inv as [|skip tl IH]; intros n used prev Hrel Hnd Hb D.
  - exists []. cbn [construct_permutation_loop length app perm_code].
    repeat split; try assumption. constructor.
  - unfold digits_ok in D. cbn [length falling_sizes] in D.
    inversion D as [|s d st dt Hd Ht]; subst.
    pose proof (cfb_total n used prev Hrel Hnd Hb) as Htot.
    destruct (scan_spec used skip) as (i1 & i2 & i3 & E1 & E2 & E3 & Hfree & Hc); [lia|].
    assert (Hi3 : (i3 < n)%nat).
    { rewrite <- (proj1 Hrel). apply nth_error_Some. congruence. }
    destruct (set_true_spec used i3 false Hfree) as (used' & E4 & L & N).
    assert (Hnotin : ~ In (Z.of_nat i3) prev).
    { intros Hin. apply inb_In in Hin. rewrite (proj2 Hrel i3 Hi3) in Hfree. congruence. }
    destruct (IH n used' (Z.of_nat i3 :: prev)) as (rest & E5 & Lr & NDr & Br & Cr).
    + eapply rel_step; eassumption.
    + constructor; assumption.
    + constructor; [lia|exact Hb].
    + cbn [length].
      replace (Z.of_nat n - Z.of_nat (S (length prev))) with (Z.of_nat n - Z.of_nat (length prev) - 1) by lia.
      exact Ht.
    + exists (Z.of_nat i3 :: rest). cbn [construct_permutation_loop]. cbv zeta.
      rewrite E1. cbn [bind]. rewrite E2. cbn [bind]. rewrite E3. cbn [bind].
      rewrite E4. cbn [bind]. rewrite E5. cbn [bind].
      split; [reflexivity|]. split; [cbn [length]; lia|]. split.
      { cbn [app]. eapply Permutation_NoDup; [|exact NDr]. apply Permutation_sym, Permutation_middle. }
      split; [constructor; [lia|exact Br]|].
      cbn [perm_code]. rewrite Cr. f_equal.
      pose proof (cfb_rel n used prev Hrel Hnd Hb i3 ltac:(lia)). lia.
Qed.

(** prefix to digits, and back through the loop *)
Lemma cpl_bwd : forall p n used prev,
  rel n used prev -> NoDup (p ++ prev) -> below n (p ++ prev) ->
  construct_permutation_loop (perm_code prev p) used = Ok p /\
  digits_ok (falling_sizes (Z.of_nat n - Z.of_nat (length prev)) (length p)) (perm_code prev p).
Proof.
  induction p as [|x tl IH]; intros n used prev Hrel Hnd Hb.
  - cbn [perm_code construct_permutation_loop length falling_sizes]. split; [reflexivity|constructor].
  - cbn [app] in Hnd, Hb.
    assert (Hnd' : NoDup (tl ++ x :: prev)).
    { eapply Permutation_NoDup; [|exact Hnd]. apply Permutation_middle. }
    assert (Hb' : below n (tl ++ x :: prev)).
    { unfold below. eapply Permutation_Forall; [|exact Hb]. apply Permutation_middle. }
    inversion Hnd as [|x' l' Hnin Hnd0]; subst.
    inversion Hb as [|x' l' Hx Hb0]; subst.
    assert (Hndp : NoDup prev) by (eapply NoDup_app_r; exact Hnd0).
    assert (Hbp : below n prev) by (apply Forall_app in Hb0; apply Hb0).
    assert (Hninp : ~ In x prev) by (intros Hin; apply Hnin, in_or_app; right; exact Hin).
    set (xi := Z.to_nat x).
    assert (Hxi : Z.of_nat xi = x) by (unfold xi; lia).
    assert (Hxn : (xi < n)%nat) by lia.
    assert (Hfx : nth_error used xi = Some false).
    { rewrite (proj2 Hrel xi Hxn), Hxi. rewrite inb_false by exact Hninp. reflexivity. }
    pose proof (cfb_total n used prev Hrel Hndp Hbp) as Htot.
    pose proof (cfb_rel n used prev Hrel Hndp Hbp xi ltac:(lia)) as Hcx. rewrite Hxi in Hcx.
    assert (Hbound : (S (cfb used xi) <= cfb used (length used))%nat).
    { rewrite <- (cfb_S_free _ _ Hfx). apply cfb_mono. rewrite (proj1 Hrel). lia. }
    destruct (scan_spec used (x - smaller_before prev x)) as (i1 & i2 & i3 & E1 & E2 & E3 & Hfree & Hc); [lia|].
    assert (i3 = xi) by (apply (cfb_free_inj used); [exact Hfree | exact Hfx | lia]). subst i3.
    destruct (set_true_spec used xi false Hfx) as (used' & E4 & L & N).
    destruct (IH n used' (x :: prev)) as (E5 & D5).
    + rewrite <- Hxi. eapply rel_step; eassumption.
    + exact Hnd'.
    + exact Hb'.
    + cbn [perm_code construct_permutation_loop]. cbv zeta.
      rewrite E1. cbn [bind]. rewrite E2. cbn [bind]. rewrite E3. cbn [bind].
      rewrite E4. cbn [bind]. rewrite E5. cbn [bind]. rewrite Hxi.
      split; [reflexivity|].
      unfold digits_ok. cbn [length falling_sizes]. constructor; [lia|].
      cbn [length] in D5.
      replace (Z.of_nat n - Z.of_nat (S (length prev))) with (Z.of_nat n - Z.of_nat (length prev) - 1) in D5 by lia.
      exact D5.
Qed.

Lemma digits_ok_length : forall sizes ds, digits_ok sizes ds -> length ds = length sizes.
Proof. induction 1; cbn [length]; lia. Qed.

Lemma falling_sizes_length : forall m n, length (falling_sizes n m) = m.
Proof. induction m; intros n; cbn [falling_sizes length]; [reflexivity|]. rewrite IHm. reflexivity. Qed.

Lemma prefix_unfold : forall n m j,
  compute_jth_permutation_prefix (Z.of_nat n) (Z.of_nat m) j =
  (inv <- inversion_loop m (Z.of_nat n) j ;; construct_permutation_loop inv (repeat false n)).
Proof.
  intros. unfold compute_jth_permutation_prefix, compute_jth_inversion_sequence, construct_permutation.
  rewrite !Nat2Z.id. reflexivity.
Qed.

(** * The bijection *)
Theorem perm_prefix_bij : forall n m : nat, (m <= n)%nat ->
  (forall j, 0 <= j < ffact (Z.of_nat n) m ->
     exists p, compute_jth_permutation_prefix (Z.of_nat n) (Z.of_nat m) j = Ok p /\
               length p = m /\ injective_below (Z.of_nat n) p /\ perm_rank (Z.of_nat n) p = j) /\
  (forall p, length p = m -> injective_below (Z.of_nat n) p ->
     0 <= perm_rank (Z.of_nat n) p < ffact (Z.of_nat n) m /\
     compute_jth_permutation_prefix (Z.of_nat n) (Z.of_nat m) (perm_rank (Z.of_nat n) p) = Ok p).
Proof.
  intros n m Hmn. split.
  - intros j Hj.
    destruct (inv_loop_fwd m (Z.of_nat n) j) as (ds & E & D & R); [lia | exact Hj |].
    pose proof (digits_ok_length _ _ D) as Lds. rewrite falling_sizes_length in Lds.
    destruct (cpl_fwd ds n (repeat false n) []) as (p & Ep & Lp & NDp & Bp & Cp).
    + apply rel_init.
    + constructor.
    + constructor.
    + cbn [length]. rewrite Lds. replace (Z.of_nat n - Z.of_nat 0) with (Z.of_nat n) by lia. exact D.
    + exists p. rewrite prefix_unfold, E. cbn [bind]. rewrite app_nil_r in NDp.
      split; [exact Ep|]. split; [lia|]. split; [split; [exact NDp|exact Bp]|].
      unfold perm_rank. rewrite Cp, Lp, Lds. exact R.
  - intros p Lp [NDp Bp].
    destruct (cpl_bwd p n (repeat false n) []) as (Ep & D).
    + apply rel_init.
    + rewrite app_nil_r. exact NDp.
    + rewrite app_nil_r. exact Bp.
    + cbn [length] in D. replace (Z.of_nat n - Z.of_nat 0) with (Z.of_nat n) in D by lia.
      rewrite Lp in D.
      destruct (inv_loop_bwd m (Z.of_nat n) (perm_code [] p)) as (R & E); [lia | exact D |].
      unfold perm_rank. rewrite Lp. split; [exact R|].
      rewrite prefix_unfold, E. cbn [bind]. exact Ep.
Qed.

Print Assumptions ffact_fact.
Print Assumptions perm_prefix_bij.
