(** Prefixes of permutations with bounded copies: the clean recursion
    [cnt] / [pick] / [prefix_unrank] of the model is a bijection between
    [0, cnt cs n) and the words of length [n] that use symbol [i] at most
    [cs_i] times, with inverse [prefix_rank]; relative to the
    multiset-permutation bijection for [construct_with_copies]
    (proved separately), which is taken here as an explicit premise.
    Proof file (no model definitions). *)
From Coq Require Import ZArith List Bool Lia ZifyBool.
From SP Require Import Comb.CombModel Comb.CombSpec Comb.BinomFacts.
Import ListNotations.
Open Scope Z_scope.

Definition multiperm_bij_stmt : Prop := forall cs, Forall (fun c => 0 <= c) cs ->
  (forall idx, 0 <= idx < multinomial cs ->
     exists w, construct_with_copies idx (Z.of_nat (length cs)) (zsum cs) cs = Ok w /\
               arrangement_of cs w /\ multi_rank cs w = idx) /\
  (forall w, arrangement_of cs w ->
     0 <= multi_rank cs w < multinomial cs /\
     construct_with_copies (multi_rank cs w) (Z.of_nat (length cs)) (zsum cs) cs = Ok w).

(** * Generic facts on sums and lists *)

Lemma zsum_map_nonneg : forall (A : Type) (f : A -> Z) l,
  (forall x, 0 <= f x) -> 0 <= zsum (map f l).
Proof.
  intros A f l Hf. induction l as [|x l IH]; cbn [map zsum]; [lia|].
  pose proof (Hf x). lia.
Qed.

Lemma zsum_map_add : forall (A : Type) (f g : A -> Z) l,
  zsum (map (fun x => f x + g x) l) = zsum (map f l) + zsum (map g l).
Proof.
  intros A f g l. induction l as [|x l IH]; cbn [map zsum]; [lia|]. rewrite IH. lia.
Qed.

(** the bucket of a nonnegative step function that contains [idx] *)
Lemma find_bucket : forall (f : nat -> Z), (forall u, 0 <= f u) ->
  forall k a idx, 0 <= idx < zsum (map f (seq a k)) ->
  exists nv X, (a <= nv < a + k)%nat /\ 0 <= X < f nv /\
               idx = zsum (map f (seq a (nv - a))) + X.
Proof.
  intros f Hf. induction k as [|k IH]; intros a idx H.
  - cbn [seq map zsum] in H. lia.
  - cbn [seq map zsum] in H. destruct (Z_lt_dec idx (f a)) as [Hlt|Hge].
    + exists a, idx. rewrite Nat.sub_diag. cbn [seq map zsum]. repeat split; lia.
    + destruct (IH (S a) (idx - f a)) as (nv & X & Hnv & HX & He); [lia|].
      exists nv, X. split; [lia|]. split; [exact HX|].
      replace (nv - a)%nat with (S (nv - S a)) by lia. cbn [seq map zsum]. lia.
Qed.

Lemma Forall2_of_nth : forall (R : Z -> Z -> Prop) l l',
  length l = length l' ->
  (forall i, (i < length l)%nat -> R (nth i l 0) (nth i l' 0)) -> Forall2 R l l'.
Proof.
  intros R. induction l as [|x l IH]; intros l' Hlen H; destruct l' as [|y l']; cbn [length] in Hlen; try lia.
  - constructor.
  - constructor.
    + apply (H 0%nat). cbn [length]. lia.
    + apply IH; [lia|]. intros i Hi. apply (H (S i)). cbn [length]. lia.
Qed.

Lemma Forall2_nth_get : forall (R : Z -> Z -> Prop) l l',
  Forall2 R l l' -> forall i, (i < length l)%nat -> R (nth i l 0) (nth i l' 0).
Proof.
  intros R l l' H. induction H as [|x y l l' Hxy HF IH]; intros i Hi; cbn [length] in Hi; [lia|].
  destruct i as [|i]; cbn [nth]; [exact Hxy|]. apply IH. lia.
Qed.

(** * binomZ *)

Lemma binomZ_nonneg : forall n k, 0 <= binomZ n k.
Proof.
  intros n k. unfold binomZ. apply Z.div_pos.
  - pose proof (fact_nat_pos (Z.to_nat n)). lia.
  - pose proof (fact_nat_pos (Z.to_nat k)). pose proof (fact_nat_pos (Z.to_nat (n - k))). nia.
Qed.

Lemma binomZ_pos : forall n k, 0 <= k <= n -> 0 < binomZ n k.
Proof. intros n k H. rewrite binomZ_eq_binom by exact H. apply binom_pos. lia. Qed.

(** * The inner loops of [cnt] and [pick] as standalone functions *)

Definition cnt_loop (tl : list Z) (need : Z) : nat -> Z -> Z -> Z :=
  fix loop (k : nat) (v acc : Z) : Z :=
    match k with
    | O => acc
    | S k' => loop k' (v + 1) (acc + binomZ need v * cnt tl (need - v))
    end.

Lemma cnt_cons : forall c tl need,
  cnt (c :: tl) need = cnt_loop tl need (Z.to_nat (Z.min c need + 1)) 0 0.
Proof. reflexivity. Qed.

Lemma cnt_nil : forall need, cnt [] need = if need =? 0 then 1 else 0.
Proof. reflexivity. Qed.

Lemma cnt_loop_S : forall tl need k v acc,
  cnt_loop tl need (S k) v acc = cnt_loop tl need k (v + 1) (acc + binomZ need v * cnt tl (need - v)).
Proof. reflexivity. Qed.

Definition pick_loop (tl : list Z) (need mult : Z) : nat -> Z -> Z -> option (list Z * Z) :=
  fix loop (k : nat) (v idx : Z) : option (list Z * Z) :=
    match k with
    | O => None
    | S k' =>
      let mult' := binomZ need v * mult in
      let sub := cnt tl (need - v) * mult' in
      if idx <? sub then
        match pick tl (need - v) idx mult' with
        | Some (vs, r) => Some (v :: vs, r)
        | None => None
        end
      else loop k' (v + 1) (idx - sub)
    end.

Lemma pick_cons : forall c tl need idx mult,
  pick (c :: tl) need idx mult = pick_loop tl need mult (Z.to_nat (Z.min c need + 1)) 0 idx.
Proof. reflexivity. Qed.

Lemma pick_nil : forall need idx mult,
  pick [] need idx mult = if (need =? 0) && (0 <=? idx) && (idx <? mult) then Some ([], idx) else None.
Proof. reflexivity. Qed.

Lemma pick_loop_S : forall tl need mult k v idx,
  pick_loop tl need mult (S k) v idx =
  if idx <? cnt tl (need - v) * (binomZ need v * mult) then
    match pick tl (need - v) idx (binomZ need v * mult) with
    | Some (vs, r) => Some (v :: vs, r)
    | None => None
    end
  else pick_loop tl need mult k (v + 1) (idx - cnt tl (need - v) * (binomZ need v * mult)).
Proof. reflexivity. Qed.

(** the number of indices owned by the subtree [v = u] *)
Definition term (tl : list Z) (need mult : Z) (u : nat) : Z :=
  cnt tl (need - Z.of_nat u) * (binomZ need (Z.of_nat u) * mult).

Lemma bucket_offset_cons : forall c ct need mult v vt,
  bucket_offset (c :: ct) need mult (v :: vt) =
  zsum (map (term ct need mult) (seq 0 (Z.to_nat v)))
  + bucket_offset ct (need - v) (binomZ need v * mult) vt.
Proof. reflexivity. Qed.

Lemma cnt_loop_sum : forall tl need mult k a acc,
  cnt_loop tl need k (Z.of_nat a) acc * mult =
  acc * mult + zsum (map (term tl need mult) (seq a k)).
Proof.
  intros tl need mult. induction k as [|k IH]; intros a acc.
  - cbn [cnt_loop seq map zsum]. lia.
  - rewrite cnt_loop_S. replace (Z.of_nat a + 1) with (Z.of_nat (S a)) by lia.
    rewrite IH. cbn [seq map zsum]. unfold term at 2. ring.
Qed.

(** step (1): [cnt (c :: tl) need] as a sum over [v = 0 .. min c need] *)
Lemma cnt_cons_sum : forall c tl need mult,
  cnt (c :: tl) need * mult =
  zsum (map (term tl need mult) (seq 0 (Z.to_nat (Z.min c need + 1)))).
Proof.
  intros c tl need mult. rewrite cnt_cons.
  pose proof (cnt_loop_sum tl need mult (Z.to_nat (Z.min c need + 1)) 0%nat 0) as H.
  cbn [Z.of_nat] in H. rewrite H. lia.
Qed.

Lemma cnt_loop_nonneg : forall tl need, (forall n', 0 <= cnt tl n') ->
  forall k v acc, 0 <= acc -> 0 <= cnt_loop tl need k v acc.
Proof.
  intros tl need Htl. induction k as [|k IH]; intros v acc Hacc.
  - exact Hacc.
  - rewrite cnt_loop_S. apply IH.
    pose proof (binomZ_nonneg need v). pose proof (Htl (need - v)). nia.
Qed.

Lemma cnt_nonneg : forall cs need, 0 <= cnt cs need.
Proof.
  induction cs as [|c tl IH]; intros need.
  - rewrite cnt_nil. destruct (need =? 0); lia.
  - rewrite cnt_cons. apply cnt_loop_nonneg; [exact IH|lia].
Qed.

Lemma term_nonneg : forall tl need mult u, 0 <= mult -> 0 <= term tl need mult u.
Proof.
  intros tl need mult u Hm. unfold term.
  pose proof (cnt_nonneg tl (need - Z.of_nat u)). pose proof (binomZ_nonneg need (Z.of_nat u)). nia.
Qed.

(** the loop of [pick] walks to the bucket containing the index *)
Lemma pick_loop_hit : forall tl need mult, 0 <= mult ->
  forall k a nv X, (a <= nv < a + k)%nat -> 0 <= X < term tl need mult nv ->
  pick_loop tl need mult k (Z.of_nat a) (zsum (map (term tl need mult) (seq a (nv - a))) + X) =
  match pick tl (need - Z.of_nat nv) X (binomZ need (Z.of_nat nv) * mult) with
  | Some (vs, r) => Some (Z.of_nat nv :: vs, r)
  | None => None
  end.
Proof.
  intros tl need mult Hm. induction k as [|k IH]; intros a nv X Hnv HX; [lia|].
  rewrite pick_loop_S. destruct (Nat.eq_dec a nv) as [->|Hne].
  - rewrite Nat.sub_diag. cbn [seq map zsum]. unfold term in HX.
    destruct (0 + X <? cnt tl (need - Z.of_nat nv) * (binomZ need (Z.of_nat nv) * mult)) eqn:E; [|lia].
    replace (0 + X) with X by lia. reflexivity.
  - replace (nv - a)%nat with (S (nv - S a)) by lia. cbn [seq map zsum].
    pose proof (zsum_map_nonneg nat (term tl need mult) (seq (S a) (nv - S a)) (fun u => term_nonneg tl need mult u Hm)) as Hs.
    fold (term tl need mult a).
    destruct (_ <? _) eqn:E; [lia|].
    replace (Z.of_nat a + 1) with (Z.of_nat (S a)) by lia.
    rewrite <- (IH (S a) nv X) by (lia || exact HX). f_equal. lia.
Qed.

(** * Allocations *)

Definition alloc_ok (cs : list Z) (need : Z) (vs : list Z) : Prop :=
  Forall2 (fun c v => 0 <= v <= c) cs vs /\ zsum vs = need.

Fixpoint alloc_mult (need : Z) (vs : list Z) : Z :=
  match vs with
  | [] => 1
  | v :: vt => binomZ need v * alloc_mult (need - v) vt
  end.

Lemma alloc_ok_nonneg : forall cs need vs, alloc_ok cs need vs -> Forall (fun v => 0 <= v) vs.
Proof.
  intros cs need vs [HF _]. induction HF as [|c v cs vs Hcv HF IH]; constructor; [lia|exact IH].
Qed.

Lemma alloc_ok_cs_nonneg : forall cs need vs, alloc_ok cs need vs -> Forall (fun c => 0 <= c) cs.
Proof.
  intros cs need vs [HF _]. induction HF as [|c v cs vs Hcv HF IH]; constructor; [lia|exact IH].
Qed.

Lemma alloc_ok_length : forall cs need vs, alloc_ok cs need vs -> length vs = length cs.
Proof.
  intros cs need vs [HF _]. induction HF as [|c v cs vs Hcv HF IH]; cbn [length]; [reflexivity|].
  rewrite IH. reflexivity.
Qed.

(** step (2) *)
Lemma alloc_mult_multinomial : forall vs need, Forall (fun v => 0 <= v) vs -> zsum vs = need ->
  alloc_mult need vs = multinomial vs.
Proof.
  induction vs as [|v vt IH]; intros need Hnn Hs; [reflexivity|].
  inversion Hnn as [|? ? Hv Hvt]; subst. cbn [alloc_mult multinomial].
  pose proof (zsum_nonneg vt Hvt) as Hz. cbn [zsum] in *.
  rewrite (IH (v + zsum vt - v)) by (exact Hvt || lia).
  rewrite binomZ_eq_binom by lia. reflexivity.
Qed.

Lemma alloc_mult_pos : forall vs need, Forall (fun v => 0 <= v) vs -> zsum vs = need ->
  0 < alloc_mult need vs.
Proof.
  induction vs as [|v vt IH]; intros need Hnn Hs; cbn [alloc_mult]; [lia|].
  inversion Hnn as [|? ? Hv Hvt]; subst. pose proof (zsum_nonneg vt Hvt) as Hz. cbn [zsum] in *.
  assert (0 < binomZ (v + zsum vt) v) by (apply binomZ_pos; lia).
  assert (0 < alloc_mult (v + zsum vt - v) vt) by (apply IH; [exact Hvt|lia]). nia.
Qed.

(** step (3): [pick] finds the allocation that owns [idx] *)
Lemma pick_fwd : forall cs need idx mult,
  Forall (fun c => 0 <= c) cs -> 0 <= need -> 0 < mult -> 0 <= idx < cnt cs need * mult ->
  exists vs r, pick cs need idx mult = Some (vs, r) /\ alloc_ok cs need vs /\
               0 <= r < mult * alloc_mult need vs /\
               idx = bucket_offset cs need mult vs + r.
Proof.
  induction cs as [|c tl IH]; intros need idx mult Hcs Hneed Hmult Hidx.
  - rewrite cnt_nil in Hidx. rewrite pick_nil.
    destruct (need =? 0) eqn:E; [|lia].
    destruct ((true && (0 <=? idx)) && (idx <? mult)) eqn:E2; [|lia].
    exists [], idx. split; [reflexivity|]. split.
    + split; [constructor|cbn [zsum]; lia].
    + cbn [alloc_mult bucket_offset]. lia.
  - inversion Hcs as [|? ? Hc Htl]; subst.
    rewrite cnt_cons_sum in Hidx.
    destruct (find_bucket (term tl need mult) (fun u => term_nonneg tl need mult u ltac:(lia)) _ _ _ Hidx)
      as (nv & X & Hnv & HX & He).
    rewrite Nat.sub_0_r in He.
    assert (Hv : 0 <= Z.of_nat nv <= Z.min c need) by lia.
    assert (Hb : 0 < binomZ need (Z.of_nat nv)) by (apply binomZ_pos; lia).
    destruct (IH (need - Z.of_nat nv) X (binomZ need (Z.of_nat nv) * mult) Htl ltac:(lia) ltac:(nia))
      as (vt & r & Hp & Hok & Hr & HeX).
    { unfold term in HX. exact HX. }
    exists (Z.of_nat nv :: vt), r.
    rewrite pick_cons.
    pose proof (pick_loop_hit tl need mult ltac:(lia) (Z.to_nat (Z.min c need + 1)) 0%nat nv X Hnv HX) as Hhit.
    rewrite Nat.sub_0_r in Hhit. cbn [Z.of_nat] in Hhit. rewrite <- He in Hhit.
    rewrite Hhit, Hp. split; [reflexivity|]. split.
    + destruct Hok as [HF Hz]. split; [constructor; [lia|exact HF]|]. cbn [zsum]. lia.
    + rewrite bucket_offset_cons. rewrite Nat2Z.id. cbn [alloc_mult]. split; [|lia].
      replace (mult * (binomZ need (Z.of_nat nv) * alloc_mult (need - Z.of_nat nv) vt))
        with (binomZ need (Z.of_nat nv) * mult * alloc_mult (need - Z.of_nat nv) vt) by ring.
      exact Hr.
Qed.

(** step (4): every index owned by a valid allocation is picked back *)
Lemma pick_bwd : forall cs need mult vs r,
  alloc_ok cs need vs -> 0 < mult -> 0 <= r < mult * alloc_mult need vs ->
  pick cs need (bucket_offset cs need mult vs + r) mult = Some (vs, r) /\
  0 <= bucket_offset cs need mult vs /\
  bucket_offset cs need mult vs + r < cnt cs need * mult.
Proof.
  induction cs as [|c tl IH]; intros need mult vs r [HF Hz] Hmult Hr.
  - inversion HF; subst. cbn [zsum bucket_offset alloc_mult] in *. rewrite pick_nil, cnt_nil.
    cbn [Z.eqb]. destruct ((true && (0 <=? 0 + r)) && (0 + r <? mult)) eqn:E; [|lia].
    replace (0 + r) with r by lia. split; [reflexivity|lia].
  - inversion HF as [|? v ? vt Hcv HFt]; subst. cbn [zsum alloc_mult] in *.
    assert (Hvt : Forall (fun v => 0 <= v) vt) by (apply (alloc_ok_nonneg tl (zsum vt) vt); split; [exact HFt|reflexivity]).
    pose proof (zsum_nonneg vt Hvt) as Hzt.
    set (need := v + zsum vt) in *.
    assert (Hb : 0 < binomZ need v) by (apply binomZ_pos; unfold need; lia).
    assert (Hok : alloc_ok tl (need - v) vt) by (split; [exact HFt|unfold need; lia]).
    destruct (IH (need - v) (binomZ need v * mult) vt r Hok ltac:(nia)) as (Hp & Hb0 & Hlt).
    { replace (binomZ need v * mult * alloc_mult (need - v) vt)
        with (mult * (binomZ need v * alloc_mult (need - v) vt)) by ring. exact Hr. }
    rewrite bucket_offset_cons.
    set (nv := Z.to_nat v). set (K := Z.to_nat (Z.min c need + 1)).
    assert (HnvK : (nv < K)%nat) by (unfold nv, K, need; lia).
    assert (Hvnv : Z.of_nat nv = v) by (unfold nv; lia).
    set (X := bucket_offset tl (need - v) (binomZ need v * mult) vt + r) in *.
    assert (HX : 0 <= X < term tl need mult nv) by (unfold term; rewrite Hvnv; lia).
    pose proof (fun u => term_nonneg tl need mult u ltac:(lia)) as Htn.
    pose proof (zsum_map_nonneg nat (term tl need mult) (seq 0 nv) Htn) as Hs0.
    split; [|split].
    + rewrite pick_cons. fold K.
      pose proof (pick_loop_hit tl need mult ltac:(lia) K 0%nat nv X ltac:(lia) HX) as Hhit.
      rewrite Nat.sub_0_r in Hhit. cbn [Z.of_nat] in Hhit. rewrite Hvnv in Hhit.
      rewrite <- Z.add_assoc. fold X. rewrite Hhit, Hp. reflexivity.
    + lia.
    + rewrite cnt_cons_sum. fold K. replace K with (nv + (K - nv))%nat by lia.
      rewrite seq_app, map_app, zsum_app. cbn [plus].
      replace (K - nv)%nat with (S (K - nv - 1)) by lia. cbn [seq map zsum].
      pose proof (zsum_map_nonneg nat (term tl need mult) (seq (S nv) (K - nv - 1)) Htn).
      lia.
Qed.

(** * Words and their usage vectors (step 5) *)

Lemma count_sym_cons : forall x w i,
  count_sym (x :: w) i = (if x =? i then 1 else 0) + count_sym w i.
Proof.
  intros x w i. unfold count_sym. cbn [count_occ].
  destruct (Z.eq_dec x i) as [E|E]; destruct (x =? i) eqn:E2; lia.
Qed.

Lemma count_sym_nonneg : forall w i, 0 <= count_sym w i.
Proof. intros. unfold count_sym. lia. Qed.

Lemma usage_length : forall q w, length (usage q w) = q.
Proof. intros. unfold usage. rewrite map_length, seq_length. reflexivity. Qed.

Lemma usage_nth : forall q w i, (i < q)%nat -> nth i (usage q w) 0 = count_sym w (Z.of_nat i).
Proof.
  intros q w i Hi. unfold usage.
  rewrite (nth_indep _ 0 ((fun j => count_sym w (Z.of_nat j)) 0%nat)) by (rewrite map_length, seq_length; exact Hi).
  rewrite (map_nth (fun j => count_sym w (Z.of_nat j))). rewrite seq_nth by exact Hi. reflexivity.
Qed.

Lemma usage_eq : forall q w vs, length vs = q ->
  (forall i, (i < q)%nat -> count_sym w (Z.of_nat i) = nth i vs 0) -> usage q w = vs.
Proof.
  intros q w vs Hlen H. apply (nth_ext _ _ 0 0).
  - rewrite usage_length. lia.
  - intros i Hi. rewrite usage_length in Hi. rewrite usage_nth by exact Hi. apply H. exact Hi.
Qed.

Lemma zsum_indicator : forall x k a,
  zsum (map (fun i => if x =? Z.of_nat i then 1 else 0) (seq a k)) =
  if (Z.of_nat a <=? x) && (x <? Z.of_nat (a + k)) then 1 else 0.
Proof.
  intros x. induction k as [|k IH]; intros a.
  - cbn [seq map zsum]. destruct (_ && _) eqn:E; lia.
  - cbn [seq map zsum]. rewrite IH.
    destruct (x =? Z.of_nat a) eqn:E1;
    destruct ((Z.of_nat (S a) <=? x) && (x <? Z.of_nat (S a + k))) eqn:E2;
    destruct ((Z.of_nat a <=? x) && (x <? Z.of_nat (a + S k))) eqn:E3; lia.
Qed.

Lemma zsum_usage : forall q w, symbols_below q w -> zsum (usage q w) = Z.of_nat (length w).
Proof.
  intros q w H. unfold symbols_below in H. induction H as [|x w Hx HF IH].
  - unfold usage. cbn [length Z.of_nat].
    generalize (seq 0 q). intros l. induction l as [|y l IHl]; cbn [map zsum]; [reflexivity|].
    rewrite IHl. reflexivity.
  - unfold usage in *.
    rewrite (map_ext _ (fun i => (fun i => if x =? Z.of_nat i then 1 else 0) i + (fun i => count_sym w (Z.of_nat i)) i))
      by (intros i; apply count_sym_cons).
    rewrite zsum_map_add, IH, zsum_indicator.
    cbn [length]. destruct ((Z.of_nat 0 <=? x) && (x <? Z.of_nat (0 + q))) eqn:E; lia.
Qed.

Lemma usage_nonneg : forall q w, Forall (fun v => 0 <= v) (usage q w).
Proof.
  intros q w. unfold usage. apply Forall_forall. intros v Hv.
  apply in_map_iff in Hv. destruct Hv as (i & <- & _). apply count_sym_nonneg.
Qed.

Lemma arrangement_usage : forall q w, symbols_below q w -> arrangement_of (usage q w) w.
Proof.
  intros q w H. split; rewrite usage_length; [exact H|].
  intros i Hi. rewrite usage_nth by exact Hi. reflexivity.
Qed.

Lemma arrangement_usage_eq : forall vs w, arrangement_of vs w -> usage (length vs) w = vs.
Proof. intros vs w [_ H]. apply usage_eq; [reflexivity|exact H]. Qed.

Lemma arrangement_length : forall vs w, arrangement_of vs w -> Z.of_nat (length w) = zsum vs.
Proof.
  intros vs w H. pose proof (arrangement_usage_eq vs w H) as E. destruct H as [Hs _].
  rewrite <- (zsum_usage _ _ Hs). rewrite E. reflexivity.
Qed.

Lemma bounded_word_alloc : forall cs n w,
  bounded_word cs n w <-> symbols_below (length cs) w /\ alloc_ok cs n (usage (length cs) w).
Proof.
  intros cs n w. split.
  - intros (Hlen & Hs & Hc). split; [exact Hs|]. split.
    + apply Forall2_of_nth; [rewrite usage_length; reflexivity|].
      intros i Hi. rewrite usage_nth by exact Hi.
      pose proof (count_sym_nonneg w (Z.of_nat i)). pose proof (Hc i Hi). lia.
    + rewrite zsum_usage by exact Hs. exact Hlen.
  - intros (Hs & HF & Hz). split; [|split; [exact Hs|]].
    + rewrite <- Hz. symmetry. apply zsum_usage. exact Hs.
    + intros i Hi. pose proof (Forall2_nth_get _ _ _ HF i Hi) as H. cbv beta in H.
      rewrite usage_nth in H by exact Hi. lia.
Qed.

(** * The bijection (step 6) *)

Theorem prefix_copies_bij_from_multi : multiperm_bij_stmt ->
  forall cs first_n, Forall (fun c => 0 <= c) cs -> 0 <= first_n ->
  (forall idx, 0 <= idx < cnt cs first_n ->
     exists w, prefix_unrank cs first_n idx = Some w /\ bounded_word cs first_n w /\ prefix_rank cs w = idx) /\
  (forall w, bounded_word cs first_n w ->
     0 <= prefix_rank cs w < cnt cs first_n /\ prefix_unrank cs first_n (prefix_rank cs w) = Some w).
Proof.
  intros HM cs first_n Hcs Hn. split.
  - intros idx Hidx.
    destruct (pick_fwd cs first_n idx 1 Hcs Hn ltac:(lia) ltac:(lia)) as (vs & r & Hp & Hok & Hr & He).
    pose proof (alloc_ok_nonneg _ _ _ Hok) as Hvs.
    pose proof (alloc_ok_length _ _ _ Hok) as Hlen.
    destruct Hok as [HF Hz].
    rewrite (alloc_mult_multinomial vs first_n Hvs Hz) in Hr.
    destruct (HM vs Hvs) as [HM1 _].
    destruct (HM1 r ltac:(lia)) as (w & Hc & Harr & Hrk).
    rewrite Hlen, Hz in Hc.
    exists w. split; [unfold prefix_unrank; rewrite Hp, Hc; reflexivity|].
    pose proof (arrangement_usage_eq vs w Harr) as Hu. rewrite Hlen in Hu.
    pose proof (arrangement_length vs w Harr) as Hlw. rewrite Hz in Hlw.
    split.
    + apply bounded_word_alloc. split.
      * destruct Harr as [Hs _]. rewrite Hlen in Hs. exact Hs.
      * rewrite Hu. split; [exact HF|exact Hz].
    + unfold prefix_rank. cbv zeta. rewrite Hu, Hlw, Hrk. lia.
  - intros w Hw. apply bounded_word_alloc in Hw. destruct Hw as [Hs Hok].
    set (vs := usage (length cs) w) in *.
    pose proof (alloc_ok_nonneg _ _ _ Hok) as Hvs.
    pose proof (arrangement_usage _ _ Hs) as Harr. fold vs in Harr.
    assert (Hlen : length vs = length cs) by (unfold vs; apply usage_length).
    assert (Hz : zsum vs = first_n) by (destruct Hok as [_ Hz]; exact Hz).
    assert (Hlw : Z.of_nat (length w) = first_n) by (rewrite <- Hz; unfold vs; symmetry; apply zsum_usage; exact Hs).
    destruct (HM vs Hvs) as [_ HM2].
    destruct (HM2 w Harr) as [Hrk Hc]. rewrite Hlen, Hz in Hc.
    destruct (pick_bwd cs first_n 1 vs (multi_rank vs w) Hok ltac:(lia)) as (Hp & Hb0 & Hlt).
    { rewrite (alloc_mult_multinomial vs first_n Hvs Hz). lia. }
    unfold prefix_rank. cbv zeta. fold vs. rewrite Hlw.
    split; [lia|]. unfold prefix_unrank. rewrite Hp, Hc. reflexivity.
Qed.

Print Assumptions prefix_copies_bij_from_multi.
