(** C13, mixed radix ([extract_components]) and l-digit base-n
    ([compute_jth_combination]): rank / unrank are mutually inverse. *)
From Coq Require Import ZArith List Bool Lia.
From SP Require Import Comb.CombModel Comb.CombSpec.
Import ListNotations.
Open Scope Z_scope.

Lemma prodZ_pos : forall sizes, Forall (fun s => 0 < s) sizes -> 0 < prodZ sizes.
Proof. induction 1; cbn [prodZ]; nia. Qed.

Lemma radix_unrank : forall sizes, Forall (fun s => 0 < s) sizes ->
  forall n, 0 <= n < prodZ sizes ->
  exists ds, extract_components sizes n = Ok ds /\ digits_ok sizes ds /\ radix_rank sizes ds = n.
Proof.
  induction 1 as [|s tl Hs Htl IH]; intros n Hn.
  - exists []. cbn in *. repeat split; [constructor | lia].
  - cbn [prodZ] in Hn. cbn [extract_components].
    destruct (s =? 0) eqn:E; [lia|].
    assert (Hq : 0 <= n / s < prodZ tl).
    { split; [apply Z.div_pos; lia|]. apply Z.div_lt_upper_bound; lia. }
    destruct (IH _ Hq) as (ds & E1 & E2 & E3).
    exists (n mod s :: ds). rewrite E1. cbn [bind]. repeat split.
    + constructor; [apply Z.mod_pos_bound; lia | exact E2].
    + cbn [radix_rank]. rewrite E3. pose proof (Z.div_mod n s). lia.
Qed.

Lemma radix_rank_unrank : forall sizes, Forall (fun s => 0 < s) sizes ->
  forall ds, digits_ok sizes ds ->
  0 <= radix_rank sizes ds < prodZ sizes /\ extract_components sizes (radix_rank sizes ds) = Ok ds.
Proof.
  induction 1 as [|s tl Hs Htl IH]; intros ds Hd; inversion Hd as [|s' d st dt Hd1 Hd2]; subst.
  - cbn. split; [lia | reflexivity].
  - destruct (IH _ Hd2) as (Hr & E1). cbn [radix_rank prodZ extract_components].
    destruct (s =? 0) eqn:E; [lia|].
    set (r := radix_rank tl dt) in *.
    assert (Hdiv : (d + s * r) / s = r).
    { symmetry. apply (Z.div_unique_pos _ _ r d); lia. }
    assert (Hmod : (d + s * r) mod s = d).
    { symmetry. apply (Z.mod_unique_pos _ _ r d); lia. }
    rewrite Hdiv, Hmod, E1. cbn [bind]. split; [nia | reflexivity].
Qed.

Theorem radix_bij : forall sizes, Forall (fun s => 0 < s) sizes ->
  (forall n, 0 <= n < prodZ sizes ->
     exists ds, extract_components sizes n = Ok ds /\ digits_ok sizes ds /\ radix_rank sizes ds = n) /\
  (forall ds, digits_ok sizes ds ->
     0 <= radix_rank sizes ds < prodZ sizes /\ extract_components sizes (radix_rank sizes ds) = Ok ds).
Proof. intros sizes H. split; [apply radix_unrank | apply radix_rank_unrank]; exact H. Qed.

(** ** base n, most significant digit first *)
Lemma comb_rank_snoc : forall n ds d, comb_rank n (ds ++ [d]) = comb_rank n ds * n + d.
Proof. intros. unfold comb_rank. rewrite fold_left_app. reflexivity. Qed.

Lemma comb_loop_unrank : forall n, 0 < n -> forall cnt j acc, 0 <= j < n ^ Z.of_nat cnt ->
  exists ds, jth_combination_loop cnt n j acc = Ok (ds ++ acc) /\ length ds = cnt /\
             Forall (fun d => 0 <= d < n) ds /\ comb_rank n ds = j.
Proof.
  intros n Hn. induction cnt as [|c IH]; intros j acc Hj.
  - exists []. cbn in *. repeat split; [constructor | lia].
  - cbn [jth_combination_loop]. destruct (n =? 0) eqn:E; [lia|].
    rewrite Nat2Z.inj_succ, Z.pow_succ_r in Hj by lia.
    assert (Hq : 0 <= j / n < n ^ Z.of_nat c).
    { split; [apply Z.div_pos; lia|]. apply Z.div_lt_upper_bound; lia. }
    destruct (IH (j / n) (j mod n :: acc) Hq) as (ds & E1 & E2 & E3 & E4).
    exists (ds ++ [j mod n]). rewrite E1, <- app_assoc. cbn [app]. repeat split.
    + rewrite app_length. cbn. lia.
    + apply Forall_app. split; [exact E3|]. constructor; [apply Z.mod_pos_bound; lia | constructor].
    + rewrite comb_rank_snoc, E4. pose proof (Z.div_mod j n). lia.
Qed.

Lemma snoc_of_length : forall (A : Type) (l : list A) c, length l = S c ->
  exists l' x, l = l' ++ [x] /\ length l' = c.
Proof.
  intros A l c H. destruct (exists_last (l := l)) as (l' & x & ->); [destruct l; discriminate|].
  exists l', x. split; [reflexivity|]. rewrite app_length in H. cbn in H. lia.
Qed.

Lemma comb_loop_rank : forall n, 0 < n -> forall cnt ds acc, length ds = cnt ->
  Forall (fun d => 0 <= d < n) ds ->
  0 <= comb_rank n ds < n ^ Z.of_nat cnt /\
  jth_combination_loop cnt n (comb_rank n ds) acc = Ok (ds ++ acc).
Proof.
  intros n Hn. induction cnt as [|c IH]; intros ds acc Hl Hd.
  - destruct ds; [|discriminate]. cbn. split; [lia | reflexivity].
  - destruct (snoc_of_length _ _ _ Hl) as (ds' & d & -> & Hl').
    apply Forall_app in Hd. destruct Hd as (Hd1 & Hd2). inversion Hd2 as [|? ? Hdd _]; subst.
    rewrite comb_rank_snoc. cbn [jth_combination_loop]. destruct (n =? 0) eqn:E; [lia|].
    destruct (IH ds' (d :: acc) eq_refl Hd1) as (Hr & E1).
    set (r := comb_rank n ds') in *.
    assert (Hdiv : (r * n + d) / n = r).
    { symmetry. apply (Z.div_unique_pos _ _ r d); lia. }
    assert (Hmod : (r * n + d) mod n = d).
    { symmetry. apply (Z.mod_unique_pos _ _ r d); lia. }
    rewrite Hdiv, Hmod, E1, <- app_assoc. cbn [app].
    rewrite Nat2Z.inj_succ, Z.pow_succ_r by lia. split; [nia | reflexivity].
Qed.

Theorem comb_bij : forall (l : nat) (n : Z), 0 < n ->
  (forall j, 0 <= j < n ^ Z.of_nat l ->
     exists ds, compute_jth_combination (Z.of_nat l) n j = Ok ds /\ length ds = l /\
                Forall (fun d => 0 <= d < n) ds /\ comb_rank n ds = j) /\
  (forall ds, length ds = l -> Forall (fun d => 0 <= d < n) ds ->
     0 <= comb_rank n ds < n ^ Z.of_nat l /\
     compute_jth_combination (Z.of_nat l) n (comb_rank n ds) = Ok ds).
Proof.
  intros l n Hn. unfold compute_jth_combination. rewrite Nat2Z.id. split.
  - intros j Hj. destruct (comb_loop_unrank n Hn l j [] Hj) as (ds & E1 & E2 & E3 & E4).
    exists ds. rewrite app_nil_r in E1. auto.
  - intros ds Hl Hd. destruct (comb_loop_rank n Hn l ds [] Hl Hd) as (Hr & E1).
    rewrite app_nil_r in E1. auto.
Qed.

Print Assumptions radix_bij.
Print Assumptions comb_bij.
