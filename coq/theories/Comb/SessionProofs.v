(** C13: the two dispatchers of the prefix sampler
    ([count_prefixes_of_permutations_with_copies],
    [compute_jth_prefix_of_permutations_with_copies]) and any session of calls
    on one shared memo table refine the clean count [cnt] / the rank functions,
    for all parameters.  Includes the binomial theorem for the Pascal [binom]
    (the uniform branch [first_n <= m] counts [q ^ first_n]).
    Proof file (no model definitions). *)
From Coq Require Import ZArith List Bool Lia ZifyBool.
From SP Require Import Comb.CombModel Comb.CombSpec Comb.BinomFacts Comb.RadixProofs
  Comb.MultiProofs Comb.PrefixProofs Comb.StackProofs Comb.DispatchProofs.
Import ListNotations.
Open Scope Z_scope.

(** * The binomial theorem: sum_u C(n,u) x^(n-u) = (x+1)^n *)

Lemma zsum_map_scale : forall (A : Type) (c : Z) (g : A -> Z) l,
  zsum (map (fun u => c * g u) l) = c * zsum (map g l).
Proof.
  intros A c g l. induction l as [|a l IH]; cbn [map zsum]; [lia|]. rewrite IH. lia.
Qed.

Lemma zsum_map_zero : forall (A : Type) (g : A -> Z) l,
  (forall u, In u l -> g u = 0) -> zsum (map g l) = 0.
Proof.
  intros A g l. induction l as [|a l IH]; intros H; cbn [map zsum]; [reflexivity|].
  rewrite H by (left; reflexivity). rewrite IH; [reflexivity|].
  intros u Hu. apply H. right. exact Hu.
Qed.

(** the general term; for [u > n] the coefficient is [0] (and the negative
    exponent makes the power [0] too) *)
Definition bterm (x : Z) (n u : nat) : Z := binom n u * x ^ (Z.of_nat n - Z.of_nat u).

Lemma bterm_S_0 : forall x n, bterm x (S n) 0 = x * bterm x n 0.
Proof.
  intros x n. unfold bterm. rewrite !binom_n_0.
  replace (Z.of_nat (S n) - Z.of_nat 0) with (Z.succ (Z.of_nat n - Z.of_nat 0)) by lia.
  rewrite Z.pow_succ_r by lia. lia.
Qed.

Lemma bterm_S_S : forall x n u, bterm x (S n) (S u) = bterm x n u + x * bterm x n (S u).
Proof.
  intros x n u. unfold bterm. rewrite binom_S_S.
  replace (Z.of_nat (S n) - Z.of_nat (S u)) with (Z.of_nat n - Z.of_nat u) by lia.
  destruct (le_lt_dec n u) as [H|H].
  - rewrite (binom_gt n (S u)) by lia. lia.
  - replace (Z.of_nat n - Z.of_nat u) with (Z.succ (Z.of_nat n - Z.of_nat (S u))) by lia.
    rewrite Z.pow_succ_r by lia. ring.
Qed.

Lemma zsum_seq_S : forall (g : nat -> Z) k,
  zsum (map g (seq 0 (S k))) = g 0%nat + zsum (map (fun u => g (S u)) (seq 0 k)).
Proof.
  intros g k. cbn [seq map zsum]. rewrite <- seq_shift, map_map. reflexivity.
Qed.

Theorem binomial_theorem : forall (x : Z) (n k : nat), (n < k)%nat ->
  zsum (map (bterm x n) (seq 0 k)) = (x + 1) ^ Z.of_nat n.
Proof.
  intros x. induction n as [|n IH]; intros k Hk.
  - destruct k as [|k]; [lia|]. rewrite zsum_seq_S.
    rewrite zsum_map_zero.
    + unfold bterm. cbn. reflexivity.
    + intros u _. unfold bterm. cbn [binom]. lia.
  - destruct k as [|k]; [lia|]. rewrite zsum_seq_S.
    rewrite (map_ext _ (fun u => bterm x n u + x * bterm x n (S u))) by (intros; apply bterm_S_S).
    rewrite zsum_map_add, zsum_map_scale, bterm_S_0.
    assert (E : x * bterm x n 0 + x * zsum (map (fun u => bterm x n (S u)) (seq 0 k))
                = x * zsum (map (bterm x n) (seq 0 (S k)))).
    { rewrite zsum_seq_S. ring. }
    rewrite (IH k) by lia.
    replace (x * bterm x n 0 +
             ((x + 1) ^ Z.of_nat n + x * zsum (map (fun u => bterm x n (S u)) (seq 0 k))))
      with ((x + 1) ^ Z.of_nat n + x * zsum (map (bterm x n) (seq 0 (S k)))) by lia.
    rewrite (IH (S k)) by lia.
    rewrite Nat2Z.inj_succ, Z.pow_succ_r by lia. ring.
Qed.

(** * 1. no bound can be reached: the clean count is [q ^ need] *)

Theorem cnt_uniform_small : forall (q : nat) (m need : Z), 0 <= need <= m ->
  cnt (repeat m q) need = Z.of_nat q ^ need.
Proof.
  induction q as [|q IH]; intros m need H.
  - cbn [repeat]. rewrite cnt_nil. destruct (need =? 0) eqn:E.
    + assert (need = 0) by lia. subst need. reflexivity.
    + cbn [Z.of_nat]. rewrite Z.pow_0_l by lia. reflexivity.
  - cbn [repeat].
    pose proof (cnt_cons_sum m (repeat m q) need 1) as Hs. rewrite Z.mul_1_r in Hs. rewrite Hs.
    replace (Z.min m need + 1) with (Z.of_nat (S (Z.to_nat need))) by lia. rewrite Nat2Z.id.
    rewrite (map_ext_in _ (bterm (Z.of_nat q) (Z.to_nat need))).
    + rewrite binomial_theorem by lia. rewrite Z2Nat.id by lia.
      replace (Z.of_nat q + 1) with (Z.of_nat (S q)) by lia. reflexivity.
    + intros u Hu. apply in_seq in Hu. unfold PrefixProofs.term, bterm.
      rewrite IH by lia. rewrite binomZ_eq_binom by lia. rewrite Nat2Z.id, Z2Nat.id by lia. ring.
Qed.

(** * 2. the dispatchers *)

Definition small_branch (mc : moc) (first_n : Z) : bool :=
  match mc with Uniform m => first_n <=? m | Counters _ => false end.
Definition dispatch_rank (q : Z) (mc : moc) (first_n : Z) (w : list Z) : Z :=
  if small_branch mc first_n then comb_rank q w else prefix_rank (cs_of q mc) w.

Lemma params_ok_q_nonneg : forall q mc, params_ok q mc -> 0 <= q.
Proof. intros q mc [H _]. lia. Qed.

Lemma params_ok_uniform_m : forall q m, params_ok q (Uniform m) -> 0 < q -> 0 <= m.
Proof.
  intros q m [_ H] Hq. cbn [cs_of] in H.
  destruct (Z.to_nat q) as [|k] eqn:E; [lia|]. cbn [repeat] in H. inversion H; assumption.
Qed.

(** the memoised recursion with no symbols at all *)
Lemma recur_count_prefixes_q0 : forall m first_n memo,
  recur_count_prefixes_of_permutations_with_copies 0 m first_n memo =
  Ok (cnt [] first_n, memo).
Proof.
  intros m first_n memo. unfold recur_count_prefixes_of_permutations_with_copies.
  rewrite recur_count_S, cnt_nil. destruct (first_n =? 0); reflexivity.
Qed.

Theorem count_dispatch_refines : forall q mc first_n memo v memo',
  params_ok q mc -> 0 <= first_n -> memo_valid q mc memo ->
  count_prefixes_of_permutations_with_copies q mc first_n memo = Ok (v, memo') ->
  v = KCount (cnt (cs_of q mc) first_n) /\ memo_valid q mc memo'.
Proof.
  intros q mc first_n memo v memo' Hp Hn Hval Hrun.
  unfold count_prefixes_of_permutations_with_copies in Hrun.
  destruct mc as [m|cs].
  2:{ eapply k_prefixes_count_refines; eassumption. }
  pose proof (params_ok_q_nonneg _ _ Hp) as Hq.
  destruct (first_n <=? m) eqn:Es.
  { inversion Hrun; subst v memo'. split; [|exact Hval]. cbn [cs_of].
    rewrite cnt_uniform_small by lia. rewrite Z2Nat.id by lia. reflexivity. }
  destruct ((first_n <? 100) && (q <? 100)) eqn:Eb.
  2:{ eapply k_prefixes_count_refines; eassumption. }
  destruct (recur_count_prefixes_of_permutations_with_copies q m first_n memo) as [[x mx]|e] eqn:Er;
    cbn [bind fst snd] in Hrun; [|discriminate].
  inversion Hrun; subst v memo'. cbn [cs_of].
  destruct (Z.eq_dec q 0) as [->|Hq0].
  - rewrite recur_count_prefixes_q0 in Er. inversion Er; subst x mx. cbn [Z.to_nat repeat].
    split; [reflexivity|exact Hval].
  - assert (Hm : 0 <= m) by (apply (params_ok_uniform_m q m Hp); lia).
    destruct (recur_count_prefixes_refines q m first_n memo x mx Hq Hm Hn Hval Er) as [Hx Hmx].
    subst x. split; [reflexivity|exact Hmx].
Qed.

Lemma prefix_unrank_bij : forall cs first_n j w,
  Forall (fun c => 0 <= c) cs -> 0 <= first_n -> 0 <= j < cnt cs first_n ->
  prefix_unrank cs first_n j = Some w ->
  bounded_word cs first_n w /\ prefix_rank cs w = j.
Proof.
  intros cs first_n j w Hcs Hn Hj Hu.
  destruct (prefix_copies_bij_from_multi multiperm_bij cs first_n Hcs Hn) as [H1 _].
  destruct (H1 j Hj) as (w' & Hu' & Hb & Hr). rewrite Hu in Hu'. inversion Hu'; subst w'.
  split; assumption.
Qed.

Lemma kprefix_unrank_dispatch : forall q mc first_n memo j v memo',
  params_ok q mc -> 0 <= first_n -> memo_valid q mc memo ->
  0 <= j < cnt (cs_of q mc) first_n ->
  k_prefixes_of_permutations_with_copies q mc first_n j memo = Ok (v, memo') ->
  (exists w, v = KPerm w /\ bounded_word (cs_of q mc) first_n w /\ prefix_rank (cs_of q mc) w = j) /\
  memo_valid q mc memo'.
Proof.
  intros q mc first_n memo j v memo' Hp Hn Hval Hj Hrun.
  destruct (k_prefixes_unrank_refines q mc first_n memo j v memo' Hp Hn Hval Hj Hrun)
    as [(w & Hv & Hu) Hm'].
  split; [|exact Hm']. exists w. split; [exact Hv|].
  destruct Hp as [_ Hnn]. apply (prefix_unrank_bij _ _ _ _ Hnn Hn Hj Hu).
Qed.

Theorem unrank_dispatch_refines : forall q mc first_n memo j v memo',
  params_ok q mc -> 0 <= first_n -> memo_valid q mc memo ->
  0 <= j < cnt (cs_of q mc) first_n ->
  compute_jth_prefix_of_permutations_with_copies q mc first_n j memo = Ok (v, memo') ->
  (exists w, v = KPerm w /\ bounded_word (cs_of q mc) first_n w /\ dispatch_rank q mc first_n w = j) /\
  memo_valid q mc memo'.
Proof.
  intros q mc first_n memo j v memo' Hp Hn Hval Hj Hrun.
  unfold compute_jth_prefix_of_permutations_with_copies in Hrun.
  unfold dispatch_rank.
  destruct mc as [m|cs]; cbn [small_branch].
  2:{ eapply kprefix_unrank_dispatch; eassumption. }
  pose proof (params_ok_q_nonneg _ _ Hp) as Hq.
  destruct (first_n <=? m) eqn:Es.
  2:{ eapply kprefix_unrank_dispatch; eassumption. }
  cbn [cs_of] in *.
  rewrite cnt_uniform_small in Hj by lia. rewrite Z2Nat.id in Hj by lia.
  destruct (compute_jth_combination first_n q j) as [p|e] eqn:Ec; cbn [bind] in Hrun; [|discriminate].
  inversion Hrun; subst v memo'. split; [|exact Hval]. exists p. split; [reflexivity|].
  destruct (Z.eq_dec q 0) as [->|Hq0].
  - destruct (Z.eq_dec first_n 0) as [->|Hn0].
    + assert (j = 0) by (cbn in Hj; lia). subst j.
      cbv in Ec. inversion Ec; subst p. cbn [Z.to_nat repeat].
      split; [|reflexivity]. unfold bounded_word, symbols_below. cbn [length].
      repeat split; [constructor|]. intros i Hi. lia.
    + rewrite Z.pow_0_l in Hj by lia. lia.
  - destruct (comb_bij (Z.to_nat first_n) q ltac:(lia)) as [H1 _].
    rewrite Z2Nat.id in H1 by lia.
    destruct (H1 j Hj) as (ds & Hc & Hl & Hd & Hr). rewrite Ec in Hc. inversion Hc; subst ds.
    split; [|exact Hr].
    apply uniform_small_words; [lia|]. split; [lia|].
    rewrite Z2Nat.id by lia. exact Hd.
Qed.

(** * 3. sessions on one shared memo *)

Definition op_in_range (q : Z) (mc : moc) (op : memo_op) : Prop :=
  match op with
  | OpCount fn => 0 <= fn
  | OpUnrank fn j => 0 <= fn /\ 0 <= j < cnt (cs_of q mc) fn
  end.
Definition op_result_ok (q : Z) (mc : moc) (op : memo_op) (r : res kres) : Prop :=
  match r with
  | Err _ => True
  | Ok v => match op with
            | OpCount fn => v = KCount (cnt (cs_of q mc) fn)
            | OpUnrank fn j => exists w, v = KPerm w /\ bounded_word (cs_of q mc) fn w /\ dispatch_rank q mc fn w = j
            end
  end.

Theorem session_refines : forall q mc ops memo, params_ok q mc ->
  Forall (op_in_range q mc) ops -> memo_valid q mc memo ->
  Forall2 (op_result_ok q mc) ops (fst (memo_session q mc ops memo)) /\
  memo_valid q mc (snd (memo_session q mc ops memo)).
Proof.
  intros q mc ops memo Hp. revert memo.
  induction ops as [|op tl IH]; intros memo Hr Hval.
  - cbn [memo_session fst snd]. split; [constructor|exact Hval].
  - inversion Hr as [|op' tl' Hop Htl]; subst op' tl'.
    cbn [memo_session].
    set (r := match op with
              | OpCount fn => count_prefixes_of_permutations_with_copies q mc fn memo
              | OpUnrank fn j => compute_jth_prefix_of_permutations_with_copies q mc fn j memo
              end).
    assert (Hstep : match r with
                    | Ok (v, memo') => op_result_ok q mc op (Ok v) /\ memo_valid q mc memo'
                    | Err _ => True
                    end).
    { destruct r as [[v memo']|e] eqn:Er; [|exact I]. subst r.
      destruct op as [fn|fn j]; cbn [op_in_range op_result_ok] in *.
      - apply (count_dispatch_refines q mc fn memo v memo' Hp Hop Hval Er).
      - destruct Hop as [Hfn Hj].
        apply (unrank_dispatch_refines q mc fn memo j v memo' Hp Hfn Hval Hj Er). }
    destruct r as [[v memo']|e].
    + destruct Hstep as [Hv Hm'].
      destruct (IH memo' Htl Hm') as [IH1 IH2].
      destruct (memo_session q mc tl memo') as [rs mf]. cbn [fst snd] in *.
      split; [constructor; assumption|exact IH2].
    + destruct (IH memo Htl Hval) as [IH1 IH2].
      destruct (memo_session q mc tl memo) as [rs mf]. cbn [fst snd] in *.
      split; [constructor; [exact I|assumption]|exact IH2].
Qed.

(** the statements are not vacuous: a session mixing both calls on the uniform
    large branch, on the small branch and on explicit counters *)
Example session_example :
  memo_session 3 (Uniform 2) [OpCount 4; OpUnrank 4 17; OpCount 2; OpUnrank 2 5] [] =
  ([Ok (KCount 54); Ok (KPerm [2; 2; 1; 0]); Ok (KCount 9); Ok (KPerm [1; 2])],
   snd (memo_session 3 (Uniform 2) [OpCount 4] [])).
Proof. vm_compute. reflexivity. Qed.

Print Assumptions cnt_uniform_small.
Print Assumptions count_dispatch_refines.
Print Assumptions unrank_dispatch_refines.
Print Assumptions session_refines.
