(** The explicit-continuation-stack, memoised machine [krun]
    ([k_prefixes_of_permutations_with_copies]) and the memoised recursion
    [recur_count] refine the clean, memo-free recursions [cnt] / [pick] /
    [prefix_unrank], relative to fuel (partial correctness: whenever the
    fuelled function returns [Ok], the result is the clean one and the memo
    table stays valid).  Proof file (no model definitions). *)
From Coq Require Import ZArith List Bool Lia ZifyBool Arith.Wf_nat.
From SP Require Import Comb.CombModel Comb.CombSpec Comb.BinomFacts Comb.MultiProofs Comb.PrefixProofs.
Import ListNotations.
Open Scope Z_scope.

Local Notation nonneg cs := (Forall (fun c => 0 <= c) cs).

(** * The setting *)
Definition cs_of (q : Z) (mc : moc) : list Z :=
  match mc with Counters cs => cs | Uniform m => repeat m (Z.to_nat q) end.

Definition params_ok (q : Z) (mc : moc) : Prop :=
  q = Z.of_nat (length (cs_of q mc)) /\ Forall (fun c => 0 <= c) (cs_of q mc).

(** every entry with a meaningful key holds the clean count of its suffix *)
Definition memo_valid (q : Z) (mc : moc) (memo : memo_t) : Prop :=
  forall s n v, memo_get (s, n) memo = Some v -> 0 <= s -> 0 < n ->
    v = cnt (skipn (Z.to_nat s) (cs_of q mc)) n.

(** * Tests of the statements on small instances *)
Definition test_count (q : Z) (mc : moc) (first_n : Z) : bool :=
  match k_prefixes_of_permutations_with_copies q mc first_n (-1) [] with
  | Ok (KCount z, _) => z =? cnt (cs_of q mc) first_n
  | _ => false
  end.
Definition list_eqb (a b : list Z) : bool :=
  (Nat.eqb (length a) (length b)) && forallb (fun p => fst p =? snd p) (combine a b).
Definition test_unrank (q : Z) (mc : moc) (first_n : Z) : bool :=
  forallb (fun j =>
    match k_prefixes_of_permutations_with_copies q mc first_n (Z.of_nat j) [],
          prefix_unrank (cs_of q mc) first_n (Z.of_nat j) with
    | Ok (KPerm w, _), Some w' => list_eqb w w'
    | _, _ => false
    end) (seq 0 (Z.to_nat (cnt (cs_of q mc) first_n))).
(** a session on a shared memo: count first, then unrank everything with the filled table *)
Definition test_unrank_shared (q : Z) (mc : moc) (first_n : Z) : bool :=
  match k_prefixes_of_permutations_with_copies q mc first_n (-1) [] with
  | Ok (_, memo) =>
    forallb (fun j =>
      match k_prefixes_of_permutations_with_copies q mc first_n (Z.of_nat j) memo,
            prefix_unrank (cs_of q mc) first_n (Z.of_nat j) with
      | Ok (KPerm w, _), Some w' => list_eqb w w'
      | _, _ => false
      end) (seq 0 (Z.to_nat (cnt (cs_of q mc) first_n)))
  | _ => false
  end.
Definition test_recur (q m first_n : Z) : bool :=
  match recur_count_prefixes_of_permutations_with_copies q m first_n [] with
  | Ok (z, _) => z =? cnt (repeat m (Z.to_nat q)) first_n
  | _ => false
  end.

Example test1 : test_count 3 (Counters [2;1;2]) 3 = true. Proof. vm_compute. reflexivity. Qed.
Example test2 : test_unrank 3 (Counters [2;1;2]) 3 = true. Proof. vm_compute. reflexivity. Qed.
Example test3 : test_unrank_shared 3 (Counters [2;1;2]) 3 = true. Proof. vm_compute. reflexivity. Qed.
Example test4 : test_unrank_shared 3 (Uniform 2) 4 = true. Proof. vm_compute. reflexivity. Qed.
Example test5 : test_count 4 (Uniform 2) 5 = true. Proof. vm_compute. reflexivity. Qed.
Example test6 : test_recur 4 2 5 = true. Proof. vm_compute. reflexivity. Qed.
Example test7 : test_unrank_shared 4 (Counters [0;2;0;3]) 4 = true. Proof. vm_compute. reflexivity. Qed.
Example test8 : cnt [2;1;2] 3 = 18. Proof. vm_compute. reflexivity. Qed.

(** * Arithmetic facts *)

Lemma count_interleavings_ok : forall v need, 0 <= v <= need ->
  count_interleavings v need = Ok (binomZ need v).
Proof.
  intros v need H. unfold count_interleavings.
  assert (Hnn : nonneg [need - v; v]) by (repeat constructor; lia).
  rewrite crp_eq_multinomial by exact Hnn. f_equal.
  pose proof (multinomial_pf [need - v; v] Hnn) as E. cbn [pf zsum] in E.
  replace (need - v + (v + 0)) with need in E by lia.
  unfold binomZ. rewrite <- E.
  replace (fact_nat (Z.to_nat (need - v)) * (fact_nat (Z.to_nat v) * 1))
    with (fact_nat (Z.to_nat v) * fact_nat (Z.to_nat (need - v))) by ring.
  symmetry. apply Z.div_mul.
  pose proof (fact_nat_pos (Z.to_nat v)). pose proof (fact_nat_pos (Z.to_nat (need - v))). nia.
Qed.

Lemma binomZ_0_0 : binomZ 0 0 = 1.
Proof. reflexivity. Qed.

(** * Facts on [cnt] and [pick] *)

Lemma cnt_zero : forall l, nonneg l -> cnt l 0 = 1.
Proof.
  induction 1 as [|c tl Hc Htl IH]; [reflexivity|].
  rewrite cnt_cons. replace (Z.to_nat (Z.min c 0 + 1)) with 1%nat by lia.
  rewrite cnt_loop_S. cbn [cnt_loop]. replace (0 - 0) with 0 by lia.
  rewrite IH, binomZ_0_0. reflexivity.
Qed.

Lemma cnt_loop_zero_terms : forall tl need k v acc,
  (forall u, v <= u < v + Z.of_nat k -> cnt tl (need - u) = 0) ->
  cnt_loop tl need k v acc = acc.
Proof.
  intros tl need. induction k as [|k IH]; intros v acc H; [reflexivity|].
  rewrite cnt_loop_S. rewrite (H v) by lia. rewrite IH by (intros u Hu; apply H; lia). lia.
Qed.

Lemma cnt_short : forall l, nonneg l -> forall need, 0 <= need -> zsum l < need -> cnt l need = 0.
Proof.
  induction 1 as [|c tl Hc Htl IH]; intros need Hn Hz.
  - rewrite cnt_nil. cbn [zsum] in Hz. destruct (need =? 0) eqn:E; lia.
  - cbn [zsum] in Hz. rewrite cnt_cons. apply cnt_loop_zero_terms.
    intros u Hu. apply IH; lia.
Qed.

Lemma cnt_loop_ge : forall tl need k v acc, acc <= cnt_loop tl need k v acc.
Proof.
  intros tl need. induction k as [|k IH]; intros v acc; [cbn [cnt_loop]; lia|].
  rewrite cnt_loop_S.
  pose proof (IH (v + 1) (acc + binomZ need v * cnt tl (need - v))).
  pose proof (binomZ_nonneg need v). pose proof (cnt_nonneg tl (need - v)). nia.
Qed.

Lemma pick_zero : forall l, nonneg l -> forall idx mult, 0 <= idx < mult ->
  pick l 0 idx mult = Some (repeat 0 (length l), idx).
Proof.
  induction 1 as [|c tl Hc Htl IH]; intros idx mult Hi.
  - rewrite pick_nil. cbn [Z.eqb length repeat].
    destruct ((true && (0 <=? idx)) && (idx <? mult)) eqn:E; [reflexivity|lia].
  - rewrite pick_cons. replace (Z.to_nat (Z.min c 0 + 1)) with 1%nat by lia.
    rewrite pick_loop_S. replace (0 - 0) with 0 by lia.
    rewrite cnt_zero by exact Htl. rewrite binomZ_0_0.
    replace (1 * (1 * mult)) with mult by lia. replace (1 * mult) with mult by lia.
    destruct (idx <? mult) eqn:E; [|lia].
    rewrite IH by exact Hi. reflexivity.
Qed.

(** * The memo table *)

Lemma key_eqb_true : forall a b c d, key_eqb (a, b) (c, d) = true <-> a = c /\ b = d.
Proof. intros. unfold key_eqb. cbn [fst snd]. lia. Qed.

Lemma key_eqb_refl : forall k, key_eqb k k = true.
Proof. intros [a b]. apply key_eqb_true. split; reflexivity. Qed.

Lemma key_eqb_trans_false : forall k k1 k2, key_eqb k k1 = false -> key_eqb k1 k2 = true -> key_eqb k k2 = false.
Proof. intros [a b] [c d] [e f]. unfold key_eqb. cbn [fst snd]. lia. Qed.

Lemma memo_get_remove : forall k k' m, key_eqb k' k = false ->
  memo_get k' (memo_remove k m) = memo_get k' m.
Proof.
  intros k k' m Hne. induction m as [|[k1 v1] t IH]; [reflexivity|].
  cbn [memo_remove memo_get]. destruct (key_eqb k k1) eqn:E1.
  - rewrite IH. destruct (key_eqb k' k1) eqn:E2; [|reflexivity].
    exfalso. destruct k as [a b], k' as [c d], k1 as [e f].
    unfold key_eqb in *. cbn [fst snd] in *. lia.
  - cbn [memo_get]. rewrite IH. reflexivity.
Qed.

Lemma memo_get_set : forall k k' v m,
  memo_get k' (memo_set k v m) = if key_eqb k' k then Some v else memo_get k' m.
Proof.
  intros k k' v m. unfold memo_set. cbn [memo_get].
  destruct (key_eqb k' k) eqn:E; [reflexivity|]. apply memo_get_remove. exact E.
Qed.

Lemma memo_truthy_some : forall k m v, memo_truthy k m = Some v -> memo_get k m = Some v /\ v <> 0.
Proof.
  intros k m v H. unfold memo_truthy in H. destruct (memo_get k m) as [x|]; [|discriminate].
  destruct (x =? 0) eqn:E; [discriminate|]. inversion H; subst. split; [reflexivity|lia].
Qed.

Lemma memo_valid_nil : forall q mc, memo_valid q mc [].
Proof. intros q mc s n v H. discriminate. Qed.

Lemma memo_valid_set : forall q mc memo s n v,
  memo_valid q mc memo -> v = cnt (skipn (Z.to_nat s) (cs_of q mc)) n ->
  memo_valid q mc (memo_set (s, n) v memo).
Proof.
  intros q mc memo s n v Hv He s' n' v' Hg Hs Hn.
  rewrite memo_get_set in Hg. destruct (key_eqb (s', n') (s, n)) eqn:E.
  - apply key_eqb_true in E. destruct E; subst. inversion Hg; subst. reflexivity.
  - apply Hv; assumption.
Qed.

(** * Suffixes of the counter list *)

Lemma skipn_nth_cons : forall (l : list Z) i, (i < length l)%nat ->
  skipn i l = nth i l 0 :: skipn (S i) l.
Proof.
  induction l as [|x l IH]; intros i Hi; cbn [length] in Hi; [lia|].
  destruct i as [|i]; [reflexivity|]. cbn [skipn nth]. rewrite IH by lia. reflexivity.
Qed.

Lemma skipn_cons_inv : forall (l : list Z) i c tl, skipn i l = c :: tl ->
  (i < length l)%nat /\ c = nth i l 0 /\ tl = skipn (S i) l.
Proof.
  intros l i c tl H.
  assert (Hi : (i < length l)%nat).
  { destruct (le_lt_dec (length l) i) as [Hge|Hlt]; [|exact Hlt].
    rewrite skipn_all2 in H by exact Hge. discriminate. }
  rewrite (skipn_nth_cons l i Hi) in H. inversion H; subst. repeat split. exact Hi.
Qed.

Lemma Forall_skipn : forall (P : Z -> Prop) l i, Forall P l -> Forall P (skipn i l).
Proof.
  intros P l. induction l as [|x l IH]; intros i H; destruct i; cbn [skipn]; try exact H.
  inversion H; subst. apply IH. assumption.
Qed.

Lemma zsum_repeat : forall m k, zsum (repeat m k) = Z.of_nat k * m.
Proof. induction k as [|k IH]; [reflexivity|]. cbn [repeat zsum]. rewrite IH. lia. Qed.

Lemma skipn_repeat : forall (m : Z) k i, skipn i (repeat m k) = repeat m (k - i).
Proof.
  intros m. induction k as [|k IH]; intros i; destruct i; cbn [skipn repeat Nat.sub]; try reflexivity.
  apply IH.
Qed.

Lemma nth_repeat_lt : forall (m : Z) k i, (i < k)%nat -> nth i (repeat m k) 0 = m.
Proof.
  intros m. induction k as [|k IH]; intros i Hi; [lia|]. destruct i; cbn [repeat nth]; [reflexivity|].
  apply IH. lia.
Qed.

Lemma available_after_ok : forall q mc i, params_ok q mc -> (i <= length (cs_of q mc))%nat ->
  available_after q mc (Z.of_nat i) = zsum (skipn i (cs_of q mc)).
Proof.
  intros q mc i [Hq _] Hi. destruct mc as [m|cs]; cbn [cs_of available_after] in *.
  - rewrite skipn_repeat, zsum_repeat. rewrite repeat_length in Hq, Hi.
    replace (Z.of_nat (Z.to_nat q - i)) with (q - Z.of_nat i) by lia. reflexivity.
  - rewrite Nat2Z.id, sumZ_zsum. reflexivity.
Qed.

Lemma available_at_ok : forall q mc i, (i < length (cs_of q mc))%nat ->
  available_at mc (Z.of_nat i) = Ok (nth i (cs_of q mc) 0).
Proof.
  intros q mc i Hi. destruct mc as [m|cs]; cbn [cs_of available_at] in *.
  - rewrite repeat_length in Hi. rewrite nth_repeat_lt by exact Hi. reflexivity.
  - destruct (Z.of_nat i <? 0) eqn:E; [lia|]. rewrite Nat2Z.id. apply get_nth. exact Hi.
Qed.

(** * Unfolding the machine one step *)

Lemma krun_nil : forall fuel q mc first_n value find memo,
  krun fuel q mc first_n [] value find memo = Ok (KCount value, memo).
Proof. intros. destruct fuel; reflexivity. Qed.

Lemma krun_DoRecord : forall f q mc first_n v s need count this_mult ks value find memo,
  krun (S f) q mc first_n (DoRecord v s need count this_mult :: ks) value find memo =
  krun f q mc first_n ks (count + value * this_mult) find
       (memo_set (s, need) (count + value * this_mult) memo).
Proof. reflexivity. Qed.

Lemma krun_DoNext : forall f q mc first_n v s need count b mult this_mult ks value find memo,
  krun (S f) q mc first_n (DoNext v s need count b mult this_mult :: ks) value find memo =
  (next_mult <- count_interleavings v need ;;
   aa <- available_at mc s ;;
   krun f q mc first_n
     (DoCount (s + 1) (need - v) (v :: b) (next_mult * mult)
      :: (if v <? Z.min aa need
          then DoNext (v + 1) s need (count + value * this_mult) b mult next_mult
          else DoRecord v s need (count + value * this_mult) next_mult) :: ks)
     value find memo).
Proof. reflexivity. Qed.

Lemma krun_DoCount : forall f q mc first_n s need b mult ks value find memo,
  krun (S f) q mc first_n (DoCount s need b mult :: ks) value find memo =
  if need =? 0 then
    if find >? -1 then
      if find <? mult then
        cs <- buckets_to_counters b q ;;
        p <- construct_with_copies find q first_n cs ;;
        Ok (KPerm p, memo)
      else krun f q mc first_n ks 1 (find - mult) memo
    else krun f q mc first_n ks 1 find memo
  else if s >=? q then krun f q mc first_n ks 0 find memo
  else if available_after q mc s <? need then krun f q mc first_n ks 0 find memo
  else
    match memo_truthy (s, need) memo with
    | Some mv =>
      if find >? -1 then
        if find <? mv * mult
        then krun f q mc first_n (DoNext 0 s need 0 b mult 0 :: ks) 0 find memo
        else krun f q mc first_n ks mv (find - mv * mult) memo
      else krun f q mc first_n ks mv find memo
    | None => krun f q mc first_n (DoNext 0 s need 0 b mult 0 :: ks) 0 find memo
    end.
Proof.
  intros. cbn [krun].
  destruct (need =? 0); [reflexivity|]. destruct (s >=? q); [reflexivity|].
  destruct (available_after q mc s <? need); [reflexivity|].
  destruct (memo_truthy (s, need) memo) as [mv|]; [|reflexivity].
  destruct (find >? -1); [|reflexivity]. destruct (find <? mv * mult); reflexivity.
Qed.

(** * The simulation *)
Section Sim.
Variables (q : Z) (mc : moc) (first_n : Z).
Hypothesis Hpar : params_ok q mc.
Local Notation cs := (cs_of q mc).

(** what running a sub-computation on top of the stack [ks] amounts to:
    [R] the value it delivers, [T] the number of indices it owns, [pk] the
    clean choice of the allocation below it *)
Definition post (fuel : nat) (ks : list frame) (R T find : Z) (b : list Z)
  (pk : option (list Z * Z)) (r : kres * memo_t) : Prop :=
  (find = -1 -> exists fuel' memo', (fuel' < fuel)%nat /\ memo_valid q mc memo' /\
      krun fuel' q mc first_n ks R (-1) memo' = Ok r) /\
  (0 <= find -> T <= find -> exists fuel' memo', (fuel' < fuel)%nat /\ memo_valid q mc memo' /\
      krun fuel' q mc first_n ks R (find - T) memo' = Ok r) /\
  (0 <= find < T -> exists vs res w memo', pk = Some (vs, res) /\
      construct_with_copies res q first_n (rev b ++ vs) = Ok w /\
      r = (KPerm w, memo') /\ memo_valid q mc memo').

Lemma post_weaken : forall f f' ks R T T' find b pk pk' r,
  post f ks R T find b pk r -> (f <= f')%nat -> T = T' -> pk = pk' -> post f' ks R T' find b pk' r.
Proof.
  intros f f' ks R T T' find b pk pk' r (H1 & H2 & H3) Hf <- <-. split; [|split].
  - intros E. destruct (H1 E) as (g & m & Hg & Hm & Hr). exists g, m. split; [lia|]. split; assumption.
  - intros E1 E2. destruct (H2 E1 E2) as (g & m & Hg & Hm & Hr). exists g, m. split; [lia|]. split; assumption.
  - exact H3.
Qed.

Lemma post_count : forall f ks R T b pk r memo, memo_valid q mc memo ->
  krun f q mc first_n ks R (-1) memo = Ok r -> post (S f) ks R T (-1) b pk r.
Proof.
  intros f ks R T b pk r memo Hv Hr. split; [|split].
  - intros _. exists f, memo. split; [lia|]. split; assumption.
  - intros; lia.
  - intros; lia.
Qed.

Lemma post_skip : forall f ks R T find b pk r memo, memo_valid q mc memo ->
  0 <= find -> T <= find ->
  krun f q mc first_n ks R (find - T) memo = Ok r -> post (S f) ks R T find b pk r.
Proof.
  intros f ks R T find b pk r memo Hv H0 HT Hr. split; [|split].
  - intros; lia.
  - intros _ _. exists f, memo. split; [lia|]. split; assumption.
  - intros; lia.
Qed.

Definition P (fuel : nat) : Prop := forall i need b mult ks value find memo r,
  (i <= length cs)%nat -> 0 <= need -> 0 < mult -> length b = i -> -1 <= find ->
  memo_valid q mc memo ->
  krun fuel q mc first_n (DoCount (Z.of_nat i) need b mult :: ks) value find memo = Ok r ->
  post fuel ks (cnt (skipn i cs) need) (cnt (skipn i cs) need * mult) find b
       (pick (skipn i cs) need find mult) r.

Definition Q (fuel : nat) : Prop :=
  forall i c tl need b mult ks value find memo r v count this_mult k,
  skipn i cs = c :: tl -> 0 < need -> 0 < mult -> length b = i -> -1 <= find ->
  memo_valid q mc memo -> 0 <= v -> (1 <= k)%nat -> Z.of_nat k = Z.min c need + 1 - v ->
  cnt_loop tl need k v (count + value * this_mult) = cnt (c :: tl) need ->
  krun fuel q mc first_n (DoNext v (Z.of_nat i) need count b mult this_mult :: ks) value find memo = Ok r ->
  post fuel ks (cnt (c :: tl) need) ((cnt (c :: tl) need - (count + value * this_mult)) * mult) find b
       (pick_loop tl need mult k v find) r.

Lemma P_0 : P 0.
Proof. intros i need b mult ks value find memo r _ _ _ _ _ _ H. cbn [krun] in H. discriminate. Qed.

Lemma Q_0 : Q 0.
Proof. intros i c tl need b mult ks value find memo r v count this_mult k _ _ _ _ _ _ _ _ _ _ H. cbn [krun] in H. discriminate. Qed.

Lemma P_step : forall f, Q f -> P (S f).
Proof.
  intros f HQ i need b mult ks value find memo r Hi Hneed Hmult Hlen Hfind Hval Hrun.
  rewrite krun_DoCount in Hrun.
  destruct Hpar as [Hq Hnn].
  assert (Hsuf : nonneg (skipn i cs)) by (apply Forall_skipn; exact Hnn).
  destruct (need =? 0) eqn:En.
  - assert (need = 0) by lia. subst need. rewrite cnt_zero by exact Hsuf.
    destruct (find >? -1) eqn:Ef.
    + destruct (find <? mult) eqn:Elt.
      * unfold buckets_to_counters in Hrun. rewrite rev_length in Hrun.
        destruct (Nat.ltb (Z.to_nat q) (length b)) eqn:Eb; [apply Nat.ltb_lt in Eb; lia|].
        cbn [bind] in Hrun.
        destruct (construct_with_copies find q first_n (rev b ++ repeat 0 (Z.to_nat q - length b))) as [p|e] eqn:Ec;
          cbn [bind] in Hrun; [|discriminate].
        inversion Hrun; subst r. split; [intros; lia|]. split; [intros; lia|]. intros _.
        exists (repeat 0 (length (skipn i cs))), find, p, memo.
        split; [apply pick_zero; [exact Hsuf|lia]|].
        split; [|split; [reflexivity|exact Hval]].
        rewrite skipn_length. replace (length cs - i)%nat with (Z.to_nat q - length b)%nat by lia.
        exact Ec.
      * apply (post_skip f ks 1 (1 * mult) find b _ r memo Hval); [lia|lia|].
        replace (find - 1 * mult) with (find - mult) by lia. exact Hrun.
    + assert (find = -1) by lia. subst find. apply (post_count f ks 1 _ b _ r memo Hval). exact Hrun.
  - assert (Hzero : cnt (skipn i cs) need = 0 ->
              krun f q mc first_n ks 0 find memo = Ok r ->
              post (S f) ks (cnt (skipn i cs) need) (cnt (skipn i cs) need * mult) find b
                   (pick (skipn i cs) need find mult) r).
    { intros Hz Hr. rewrite Hz. destruct (Z.eq_dec find (-1)) as [->|Hne].
      - apply (post_count f ks 0 _ b _ r memo Hval). exact Hr.
      - apply (post_skip f ks 0 (0 * mult) find b _ r memo Hval); [lia|lia|].
        replace (find - 0 * mult) with find by lia. exact Hr. }
    destruct (Z.of_nat i >=? q) eqn:Eq.
    { apply Hzero; [|exact Hrun]. rewrite skipn_all2 by lia. rewrite cnt_nil, En. reflexivity. }
    destruct (available_after q mc (Z.of_nat i) <? need) eqn:Ea.
    { apply Hzero; [|exact Hrun]. rewrite (available_after_ok q mc i (conj Hq Hnn)) in Ea by lia.
      apply cnt_short; [exact Hsuf|lia|lia]. }
    assert (Hil : (i < length cs)%nat) by lia.
    pose proof (skipn_nth_cons cs i Hil) as Hsk.
    set (c := nth i cs 0) in *. set (tl := skipn (S i) cs) in *.
    assert (Hc : 0 <= c) by (unfold c; apply nth_nonneg; exact Hnn).
    assert (Hnext : krun f q mc first_n (DoNext 0 (Z.of_nat i) need 0 b mult 0 :: ks) 0 find memo = Ok r ->
              post (S f) ks (cnt (skipn i cs) need) (cnt (skipn i cs) need * mult) find b
                   (pick (skipn i cs) need find mult) r).
    { intros Hr.
      apply (HQ i c tl need b mult ks 0 find memo r 0 0 0 (Z.to_nat (Z.min c need + 1)) Hsk) in Hr;
        try assumption; try lia.
      - rewrite Hsk. eapply post_weaken; [exact Hr|lia|ring|reflexivity].
      - replace (0 + 0 * 0) with 0 by lia. reflexivity. }
    destruct (memo_truthy (Z.of_nat i, need) memo) as [mv|] eqn:Em; [|apply Hnext; exact Hrun].
    apply memo_truthy_some in Em. destruct Em as [Hg Hmv].
    pose proof (Hval _ _ _ Hg ltac:(lia) ltac:(lia)) as Hg'. clear Hg. rename Hg' into Hg. rewrite Nat2Z.id in Hg.
    destruct (find >? -1) eqn:Ef.
    + destruct (find <? mv * mult) eqn:Elt; [apply Hnext; exact Hrun|].
      rewrite <- Hg. apply (post_skip f ks mv (mv * mult) find b _ r memo Hval); [lia|lia|exact Hrun].
    + assert (find = -1) by lia. subst find. rewrite <- Hg.
      apply (post_count f ks mv _ b _ r memo Hval). exact Hrun.
Qed.

Lemma Q_step : forall f, P f -> (forall f', (f' < f)%nat -> Q f') -> Q (S f).
Proof.
  intros f HP HQ i c tl need b mult ks value find memo r v count this_mult k
         Hsk Hneed Hmult Hlen Hfind Hval Hv Hk1 Hk Hinv Hrun.
  destruct Hpar as [Hq Hnn].
  set (acc := count + value * this_mult) in *.
  pose proof (skipn_cons_inv _ _ _ _ Hsk) as (Hi & Hc & Htl).
  assert (Hc0 : 0 <= c) by (rewrite Hc; apply nth_nonneg; exact Hnn).
  rewrite krun_DoNext in Hrun. rewrite count_interleavings_ok in Hrun by lia.
  rewrite (available_at_ok q mc i Hi) in Hrun. cbn [bind] in Hrun. rewrite <- Hc in Hrun.
  fold acc in Hrun.
  replace (Z.of_nat i + 1) with (Z.of_nat (S i)) in Hrun by lia.
  set (bn := binomZ need v) in *.
  assert (Hbn : 0 < bn) by (apply binomZ_pos; lia).
  set (R1 := cnt tl (need - v)).
  set (T1 := R1 * (bn * mult)).
  set (R := cnt (c :: tl) need) in *.
  destruct k as [|k0]; [lia|].
  rewrite cnt_loop_S in Hinv. fold bn R1 in Hinv.
  assert (Hge : acc + bn * R1 <= R) by (rewrite <- Hinv; apply cnt_loop_ge).
  assert (HR1 : 0 <= R1) by apply cnt_nonneg.
  assert (HT1 : T1 <= (R - acc) * mult) by (unfold T1; nia).
  set (k1 := if v <? Z.min c need
             then DoNext (v + 1) (Z.of_nat i) need acc b mult bn
             else DoRecord v (Z.of_nat i) need acc bn) in *.
  apply HP in Hrun; try assumption; try lia; [|cbn [length]; lia].
  rewrite <- Htl in Hrun. fold R1 T1 in Hrun.
  destruct Hrun as (Hc1 & Hc2 & Hc3).
  (* the index is inside the current child *)
  assert (Hin : 0 <= find < T1 -> exists vs res w memo',
             pick_loop tl need mult (S k0) v find = Some (vs, res) /\
             construct_with_copies res q first_n (rev b ++ vs) = Ok w /\
             r = (KPerm w, memo') /\ memo_valid q mc memo').
  { intros Hf. destruct (Hc3 Hf) as (vs & res & w & memo' & Hp & Hcw & Hr & Hm).
    exists (v :: vs), res, w, memo'. rewrite pick_loop_S. fold bn R1 T1.
    destruct (find <? T1) eqn:E; [|lia]. rewrite Hp.
    split; [reflexivity|]. split; [|split; assumption].
    cbn [rev] in Hcw. rewrite <- app_assoc in Hcw. exact Hcw. }
  destruct k0 as [|k'].
  - (* last iteration: the child returns to DoRecord *)
    assert (Ek : (v <? Z.min c need) = false) by lia. unfold k1 in *. rewrite Ek in *. clear k1.
    cbn [cnt_loop] in Hinv.
    assert (HT : (R - acc) * mult = T1) by (unfold T1; rewrite <- Hinv; ring).
    assert (Hrec : forall f' memo' fd, (f' < f)%nat -> memo_valid q mc memo' ->
              krun f' q mc first_n (DoRecord v (Z.of_nat i) need acc bn :: ks) R1 fd memo' = Ok r ->
              exists f'' memo'', (f'' < S f)%nat /\ memo_valid q mc memo'' /\
                krun f'' q mc first_n ks R fd memo'' = Ok r).
    { intros f' memo' fd Hlt Hm Hr. destruct f' as [|f'']; [cbn [krun] in Hr; discriminate|].
      rewrite krun_DoRecord in Hr.
      replace (acc + R1 * bn) with R in Hr by lia.
      exists f'', (memo_set (Z.of_nat i, need) R memo'). split; [lia|]. split; [|exact Hr].
      apply memo_valid_set; [exact Hm|]. rewrite Nat2Z.id, Hsk. reflexivity. }
    split; [|split].
    + intros Hf. destruct (Hc1 Hf) as (f' & memo' & Hlt & Hm & Hr).
      apply (Hrec f' memo' (-1) Hlt Hm Hr).
    + intros Hf0 HfT. rewrite HT in *.
      destruct (Hc2 Hf0 HfT) as (f' & memo' & Hlt & Hm & Hr).
      apply (Hrec f' memo' (find - T1) Hlt Hm Hr).
    + intros Hf. apply Hin. lia.
  - (* more iterations: the child returns to DoNext *)
    assert (Ek : (v <? Z.min c need) = true) by lia. unfold k1 in *. rewrite Ek in *. clear k1.
    set (acc' := acc + R1 * bn).
    set (T' := (R - acc') * mult).
    assert (HT : (R - acc) * mult = T' + T1) by (unfold T', T1, acc'; ring).
    assert (HT'0 : 0 <= T') by (unfold T', acc'; nia).
    assert (Hnxt : forall f' memo' fd, (f' < f)%nat -> memo_valid q mc memo' -> -1 <= fd ->
              krun f' q mc first_n (DoNext (v + 1) (Z.of_nat i) need acc b mult bn :: ks) R1 fd memo' = Ok r ->
              post f' ks R T' fd b (pick_loop tl need mult (S k') (v + 1) fd) r).
    { intros f' memo' fd Hlt Hm Hfd Hr.
      assert (Hinv' : cnt_loop tl need (S k') (v + 1) (acc + R1 * bn) = cnt (c :: tl) need).
      { fold acc' R. rewrite <- Hinv. f_equal. unfold acc'. ring. }
      exact (HQ f' Hlt i c tl need b mult ks R1 fd memo' r (v + 1) acc bn (S k') Hsk Hneed Hmult Hlen Hfd Hm
                ltac:(lia) ltac:(lia) ltac:(lia) Hinv' Hr). }
    split; [|split].
    + intros Hf. destruct (Hc1 Hf) as (f' & memo' & Hlt & Hm & Hr).
      apply Hnxt in Hr; [|lia|exact Hm|lia].
      destruct Hr as (Hr1 & _ & _). destruct (Hr1 eq_refl) as (f'' & memo'' & Hlt' & Hm' & Hr').
      exists f'', memo''. split; [lia|]. split; assumption.
    + intros Hf0 HfT. rewrite HT in HfT.
      destruct (Hc2 Hf0 ltac:(lia)) as (f' & memo' & Hlt & Hm & Hr).
      apply Hnxt in Hr; [|lia|exact Hm|lia].
      destruct Hr as (_ & Hr2 & _).
      destruct (Hr2 ltac:(lia) ltac:(lia)) as (f'' & memo'' & Hlt' & Hm' & Hr').
      exists f'', memo''. split; [lia|]. split; [exact Hm'|].
      replace (find - (R - acc) * mult) with (find - T1 - T') by lia. exact Hr'.
    + intros Hf. rewrite HT in Hf. destruct (Z_lt_dec find T1) as [Hlt1|Hge1]; [apply Hin; lia|].
      destruct (Hc2 ltac:(lia) ltac:(lia)) as (f' & memo' & Hlt & Hm & Hr).
      apply Hnxt in Hr; [|lia|exact Hm|lia].
      destruct Hr as (_ & _ & Hr3).
      destruct (Hr3 ltac:(lia)) as (vs & res & w & memo'' & Hp & Hcw & Hre & Hm').
      exists vs, res, w, memo''. split; [|split; [exact Hcw|split; assumption]].
      rewrite pick_loop_S. fold bn R1 T1. destruct (find <? T1) eqn:E; [lia|]. exact Hp.
Qed.

Lemma PQ_all : forall fuel, P fuel /\ Q fuel.
Proof.
  induction fuel as [fuel IH] using lt_wf_ind. destruct fuel as [|f].
  - split; [exact P_0|exact Q_0].
  - split.
    + apply P_step. apply IH. lia.
    + apply Q_step; [apply IH; lia|]. intros f' Hlt. apply IH. lia.
Qed.

Lemma sim_count : forall memo fuel v memo',
  0 <= first_n -> memo_valid q mc memo ->
  krun fuel q mc first_n [DoCount 0 first_n [] 1] 0 (-1) memo = Ok (v, memo') ->
  v = KCount (cnt cs first_n) /\ memo_valid q mc memo'.
Proof.
  intros memo fuel v memo' Hn Hval Hrun.
  destruct (PQ_all fuel) as [HP _].
  pose proof (HP 0%nat first_n [] 1 [] 0 (-1) memo (v, memo') ltac:(lia) Hn ltac:(lia) eq_refl ltac:(lia) Hval Hrun)
    as (H1 & _ & _).
  destruct (H1 eq_refl) as (f' & memo'' & _ & Hm & Hr).
  rewrite krun_nil in Hr. cbn [skipn] in Hr. inversion Hr; subst. split; [reflexivity|exact Hm].
Qed.

Lemma sim_unrank : forall memo fuel j v memo',
  0 <= first_n -> memo_valid q mc memo -> 0 <= j < cnt cs first_n ->
  krun fuel q mc first_n [DoCount 0 first_n [] 1] 0 j memo = Ok (v, memo') ->
  (exists w, v = KPerm w /\ prefix_unrank cs first_n j = Some w) /\ memo_valid q mc memo'.
Proof.
  intros memo fuel j v memo' Hn Hval Hj Hrun.
  destruct (PQ_all fuel) as [HP _].
  pose proof (HP 0%nat first_n [] 1 [] 0 j memo (v, memo') ltac:(lia) Hn ltac:(lia) eq_refl ltac:(lia) Hval Hrun)
    as (_ & _ & H3).
  cbn [skipn] in H3.
  destruct (H3 ltac:(lia)) as (vs & res & w & memo'' & Hp & Hcw & Hr & Hm).
  inversion Hr; subst. split; [|exact Hm]. exists w. split; [reflexivity|].
  unfold prefix_unrank. rewrite Hp. destruct Hpar as [Hq _]. rewrite <- Hq.
  cbn [rev app] in Hcw. rewrite Hcw. reflexivity.
Qed.

End Sim.

(** * The main theorems for the stack machine *)

Theorem kprefix_count_refines : forall q mc first_n memo fuel v memo',
  params_ok q mc -> 0 <= first_n -> memo_valid q mc memo ->
  krun fuel q mc first_n [DoCount 0 first_n [] 1] 0 (-1) memo = Ok (v, memo') ->
  v = KCount (cnt (cs_of q mc) first_n) /\ memo_valid q mc memo'.
Proof. intros q mc first_n memo fuel v memo' Hp. apply sim_count. exact Hp. Qed.

Theorem kprefix_unrank_refines : forall q mc first_n memo fuel j v memo',
  params_ok q mc -> 0 <= first_n -> memo_valid q mc memo ->
  0 <= j < cnt (cs_of q mc) first_n ->
  krun fuel q mc first_n [DoCount 0 first_n [] 1] 0 j memo = Ok (v, memo') ->
  (exists w, v = KPerm w /\ prefix_unrank (cs_of q mc) first_n j = Some w) /\ memo_valid q mc memo'.
Proof. intros q mc first_n memo fuel j v memo' Hp. apply sim_unrank. exact Hp. Qed.

(** the same for the function with its own fuel *)
Corollary k_prefixes_count_refines : forall q mc first_n memo v memo',
  params_ok q mc -> 0 <= first_n -> memo_valid q mc memo ->
  k_prefixes_of_permutations_with_copies q mc first_n (-1) memo = Ok (v, memo') ->
  v = KCount (cnt (cs_of q mc) first_n) /\ memo_valid q mc memo'.
Proof. intros q mc first_n memo v memo'. apply kprefix_count_refines. Qed.

Corollary k_prefixes_unrank_refines : forall q mc first_n memo j v memo',
  params_ok q mc -> 0 <= first_n -> memo_valid q mc memo ->
  0 <= j < cnt (cs_of q mc) first_n ->
  k_prefixes_of_permutations_with_copies q mc first_n j memo = Ok (v, memo') ->
  (exists w, v = KPerm w /\ prefix_unrank (cs_of q mc) first_n j = Some w) /\ memo_valid q mc memo'.
Proof. intros q mc first_n memo j v memo'. apply kprefix_unrank_refines. Qed.

(** * The memoised recursion [recur_count] *)

Definition rc_loop (f : nat) (s need q m : Z) : nat -> Z -> Z -> memo_t -> res (Z * memo_t) :=
  fix loop (cnt : nat) (v combos : Z) (memo : memo_t) : res (Z * memo_t) :=
    match cnt with
    | O => Ok (combos, memo)
    | S cnt' =>
      r <- recur_count f (s + 1) (need - v) q m memo ;;
      ci <- count_interleavings v need ;;
      loop cnt' (v + 1) (combos + fst r * ci) (snd r)
    end.

Lemma rc_loop_S : forall f s need q m k v combos memo,
  rc_loop f s need q m (S k) v combos memo =
  (r <- recur_count f (s + 1) (need - v) q m memo ;;
   ci <- count_interleavings v need ;;
   rc_loop f s need q m k (v + 1) (combos + fst r * ci) (snd r)).
Proof. reflexivity. Qed.

Lemma recur_count_S : forall f s need q m memo,
  recur_count (S f) s need q m memo =
  if need =? 0 then Ok (1, memo)
  else if s <? q then
    if (q - s) * m >=? need then
      match memo_truthy (s, need) memo with
      | Some combos => Ok (combos, memo)
      | None =>
        r <- rc_loop f s need q m (Z.to_nat (Z.min m need + 1)) 0 0 memo ;;
        Ok (fst r, memo_set (s, need) (fst r) (snd r))
      end
    else Ok (0, memo)
  else Ok (0, memo).
Proof. reflexivity. Qed.

Lemma params_ok_uniform : forall q m, 0 <= q -> 0 <= m -> params_ok q (Uniform m).
Proof.
  intros q m Hq Hm. split; cbn [cs_of].
  - rewrite repeat_length. lia.
  - apply Forall_forall. intros x Hx. apply repeat_spec in Hx. lia.
Qed.

Lemma recur_count_sim : forall q m, 0 <= q -> 0 <= m ->
  forall fuel i need memo v memo',
  (i <= Z.to_nat q)%nat -> 0 <= need -> memo_valid q (Uniform m) memo ->
  recur_count fuel (Z.of_nat i) need q m memo = Ok (v, memo') ->
  v = cnt (skipn i (repeat m (Z.to_nat q))) need /\ memo_valid q (Uniform m) memo'.
Proof.
  intros q m Hq Hm.
  pose proof (params_ok_uniform q m Hq Hm) as Hpar. destruct Hpar as [Hlq Hnn]. cbn [cs_of] in Hlq, Hnn.
  set (cs := repeat m (Z.to_nat q)) in *.
  assert (Hlen : length cs = Z.to_nat q) by (unfold cs; apply repeat_length). clear Hlq.
  induction fuel as [|f IH]; intros i need memo v memo' Hi Hneed Hval Hrun; [discriminate|].
  rewrite recur_count_S in Hrun.
  assert (Hsuf : nonneg (skipn i cs)) by (apply Forall_skipn; exact Hnn).
  destruct (need =? 0) eqn:En.
  { inversion Hrun; subst v memo'. assert (need = 0) by lia. subst need.
    rewrite cnt_zero by exact Hsuf. split; [reflexivity|exact Hval]. }
  destruct (Z.of_nat i <? q) eqn:Eq.
  2:{ inversion Hrun; subst v memo'. split; [|exact Hval].
      rewrite skipn_all2 by lia. rewrite cnt_nil, En. reflexivity. }
  destruct ((q - Z.of_nat i) * m >=? need) eqn:Ea.
  2:{ inversion Hrun; subst v memo'. split; [|exact Hval]. symmetry. apply cnt_short; [exact Hsuf|lia|].
      unfold cs. rewrite skipn_repeat, zsum_repeat.
      replace (Z.of_nat (Z.to_nat q - i)) with (q - Z.of_nat i) by lia. lia. }
  assert (Hil : (i < length cs)%nat) by lia.
  pose proof (skipn_nth_cons cs i Hil) as Hsk.
  assert (Hc : nth i cs 0 = m) by (unfold cs; apply nth_repeat_lt; lia).
  rewrite Hc in Hsk. set (tl := skipn (S i) cs) in *.
  destruct (memo_truthy (Z.of_nat i, need) memo) as [mv|] eqn:Em.
  { inversion Hrun; subst v memo'. split; [|exact Hval].
    apply memo_truthy_some in Em. destruct Em as [Hg _].
    pose proof (Hval _ _ _ Hg ltac:(lia) ltac:(lia)) as Hg'. rewrite Nat2Z.id in Hg'. exact Hg'. }
  assert (Hloop : forall k v0 combos memo0 r,
            memo_valid q (Uniform m) memo0 -> 0 <= v0 -> v0 + Z.of_nat k <= need + 1 ->
            rc_loop f (Z.of_nat i) need q m k v0 combos memo0 = Ok r ->
            fst r = cnt_loop tl need k v0 combos /\ memo_valid q (Uniform m) (snd r)).
  { induction k as [|k IHk]; intros v0 combos memo0 r Hv0 Hv0n Hk Hr.
    - cbn [rc_loop] in Hr. inversion Hr; subst r. cbn [fst snd cnt_loop]. split; [reflexivity|exact Hv0].
    - rewrite rc_loop_S in Hr.
      replace (Z.of_nat i + 1) with (Z.of_nat (S i)) in Hr by lia.
      destruct (recur_count f (Z.of_nat (S i)) (need - v0) q m memo0) as [[x mx]|e] eqn:Erc;
        cbn [bind] in Hr; [|discriminate].
      apply IH in Erc; [|lia|lia|exact Hv0]. destruct Erc as [Hx Hmx]. fold tl in Hx.
      rewrite count_interleavings_ok in Hr by lia. cbn [bind fst snd] in Hr.
      apply IHk in Hr; [|exact Hmx|lia|lia].
      rewrite cnt_loop_S. rewrite <- Hx.
      replace (combos + binomZ need v0 * x) with (combos + x * binomZ need v0) by ring. exact Hr. }
  destruct (rc_loop f (Z.of_nat i) need q m (Z.to_nat (Z.min m need + 1)) 0 0 memo) as [r|e] eqn:El;
    cbn [bind] in Hrun; [|discriminate].
  apply Hloop in El; [|exact Hval|lia|lia]. destruct El as [Hf Hm'].
  inversion Hrun; subst v memo'.
  assert (Hv : fst r = cnt (skipn i cs) need) by (rewrite Hsk, cnt_cons; exact Hf).
  split; [exact Hv|]. apply memo_valid_set; [exact Hm'|]. cbn [cs_of]. rewrite Nat2Z.id. exact Hv.
Qed.

Theorem recur_count_refines : forall q m first_n memo fuel v memo',
  0 <= q -> 0 <= m -> 0 <= first_n -> memo_valid q (Uniform m) memo ->
  recur_count fuel 0 first_n q m memo = Ok (v, memo') ->
  v = cnt (repeat m (Z.to_nat q)) first_n /\ memo_valid q (Uniform m) memo'.
Proof.
  intros q m first_n memo fuel v memo' Hq Hm Hn Hval Hrun.
  apply (recur_count_sim q m Hq Hm fuel 0%nat first_n memo v memo' ltac:(lia) Hn Hval Hrun).
Qed.

Corollary recur_count_prefixes_refines : forall q m first_n memo v memo',
  0 <= q -> 0 <= m -> 0 <= first_n -> memo_valid q (Uniform m) memo ->
  recur_count_prefixes_of_permutations_with_copies q m first_n memo = Ok (v, memo') ->
  v = cnt (repeat m (Z.to_nat q)) first_n /\ memo_valid q (Uniform m) memo'.
Proof. intros q m first_n memo v memo'. apply recur_count_refines. Qed.

(** the hypotheses are satisfiable, the empty table is valid *)
Example params_ok_example : params_ok 3 (Counters [2; 1; 2]) /\ memo_valid 3 (Counters [2; 1; 2]) [].
Proof. split; [split; [reflexivity|repeat constructor; lia]|apply memo_valid_nil]. Qed.

Print Assumptions kprefix_count_refines.
Print Assumptions kprefix_unrank_refines.
Print Assumptions recur_count_refines.
Print Assumptions k_prefixes_count_refines.
Print Assumptions k_prefixes_unrank_refines.
Print Assumptions recur_count_prefixes_refines.
