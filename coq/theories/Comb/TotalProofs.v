(** C13: TOTALITY of the explicit-stack / memo machine.

    [StackProofs] / [SessionProofs] show that [krun]
    ([k_prefixes_of_permutations_with_copies]), [recur_count], the two
    dispatchers and sessions compute the clean recursion *whenever they return
    [Ok]*.  Here: they always do.  The fuel the model supplies ([k_fuel] for
    the stack machine, [q + 2] for the memoised recursion) is sufficient for
    every parameter tuple and every valid memo table, and no other error value
    can come out.

    Measure for the stack machine (amortised over the memo table).  Let
    [L = q], [N = first_n], [C = 2 N + 4] and let [pend memo] be the number of
    keys [(s, nd)], [0 <= s < L], [1 <= nd <= N], that the table does not hold
    (a stored [0] counts as absent, as in the code).  A completed
    sub-computation [DoCount s nd ...] that does not contain the wanted index
    takes at most [1 + C * (pend memo - pend memo')] steps: an unmemoised key
    costs its own [DoCount], [k <= N + 1] [DoNext]s, one [DoRecord] and one
    step for each of its [k] children, i.e. [2 k + 2 <= C], and is then stored
    with a non-zero value (the count is positive whenever the symbols
    suffice), so [pend] drops by one; keys of the levels above are not
    touched meanwhile (frame property), so the key is still absent when
    [DoRecord] runs.  A sub-computation that contains the wanted index walks
    one root-to-leaf path: at most [C * (L - s) + 1] further steps.  Hence at
    most [C * L * (N + 1) + 1 <= k_fuel q first_n] steps in all.
    Proof file (no model definitions). *)
From Coq Require Import ZArith List Bool Lia ZifyBool.
From SP Require Import Comb.CombModel Comb.CombSpec Comb.BinomFacts Comb.RadixProofs
  Comb.MultiProofs Comb.PrefixProofs Comb.StackProofs Comb.DispatchProofs Comb.SessionProofs.
Import ListNotations.
Open Scope Z_scope.

Local Notation nonneg cs := (Forall (fun c => 0 <= c) cs).

(** * Counting by filters *)

Lemma filt_len_all : forall (A : Type) (f : A -> bool) l, (length (filter f l) <= length l)%nat.
Proof.
  intros A f. induction l as [|a l IH]; cbn [filter length]; [lia|].
  destruct (f a); cbn [length]; lia.
Qed.

Lemma filt_len_le : forall (A : Type) (f g : A -> bool) l,
  (forall x, In x l -> f x = true -> g x = true) ->
  (length (filter f l) <= length (filter g l))%nat.
Proof.
  intros A f g. induction l as [|a l IH]; intros H; cbn [filter]; [lia|].
  assert (IH' : (length (filter f l) <= length (filter g l))%nat).
  { apply IH. intros x Hx. apply H. right. exact Hx. }
  destruct (f a) eqn:Ef.
  - rewrite (H a (or_introl eq_refl) Ef). cbn [length]. lia.
  - destruct (g a); cbn [length]; lia.
Qed.

Lemma filt_len_lt : forall (A : Type) (f g : A -> bool) l a,
  (forall x, In x l -> f x = true -> g x = true) ->
  In a l -> f a = false -> g a = true ->
  (S (length (filter f l)) <= length (filter g l))%nat.
Proof.
  intros A f g. induction l as [|b l IH]; intros a H Hin Hf Hg; [destruct Hin|].
  cbn [filter].
  assert (Hle : (length (filter f l) <= length (filter g l))%nat).
  { apply filt_len_le. intros x Hx. apply H. right. exact Hx. }
  destruct Hin as [->|Hin].
  - rewrite Hf, Hg. cbn [length]. lia.
  - pose proof (IH a (fun x Hx => H x (or_intror Hx)) Hin Hf Hg) as IH'.
    destruct (f b) eqn:Ef.
    + rewrite (H b (or_introl eq_refl) Ef). cbn [length]. lia.
    + destruct (g b); cbn [length]; lia.
Qed.

(** * The potential: keys of the table not yet filled *)

Definition unset (memo : memo_t) (k : Z * Z) : bool :=
  match memo_truthy k memo with None => true | Some _ => false end.
Definition keys (L N : nat) : list (Z * Z) :=
  list_prod (map Z.of_nat (seq 0 L)) (map Z.of_nat (seq 1 N)).
Definition pend (L N : nat) (memo : memo_t) : nat := length (filter (unset memo) (keys L N)).

Lemma in_keys : forall L N i nd, (i < L)%nat -> 1 <= nd <= Z.of_nat N ->
  In (Z.of_nat i, nd) (keys L N).
Proof.
  intros L N i nd Hi Hnd. unfold keys. apply in_prod.
  - apply in_map. apply in_seq. lia.
  - replace nd with (Z.of_nat (Z.to_nat nd)) by lia. apply in_map. apply in_seq. lia.
Qed.

Lemma keys_length : forall L N, length (keys L N) = (L * N)%nat.
Proof. intros. unfold keys. rewrite prod_length, !map_length, !seq_length. reflexivity. Qed.

Lemma pend_le : forall L N memo, (pend L N memo <= L * N)%nat.
Proof. intros. unfold pend. rewrite <- keys_length. apply filt_len_all. Qed.

Lemma memo_truthy_set : forall k k' v m,
  memo_truthy k' (memo_set k v m) =
  if key_eqb k' k then (if v =? 0 then None else Some v) else memo_truthy k' m.
Proof.
  intros. unfold memo_truthy. rewrite memo_get_set. destruct (key_eqb k' k); reflexivity.
Qed.

Lemma unset_set_mono : forall k v memo x, v <> 0 ->
  unset (memo_set k v memo) x = true -> unset memo x = true.
Proof.
  intros k v memo x Hv Hx. unfold unset in *. rewrite memo_truthy_set in Hx.
  destruct (key_eqb x k).
  - destruct (v =? 0) eqn:E; [lia|discriminate].
  - exact Hx.
Qed.

Lemma pend_set_lt : forall L N k v memo, v <> 0 -> In k (keys L N) -> memo_truthy k memo = None ->
  (S (pend L N (memo_set k v memo)) <= pend L N memo)%nat.
Proof.
  intros L N k v memo Hv Hin Hnone. unfold pend. apply (filt_len_lt _ _ _ _ k).
  - intros x _ Hx. apply (unset_set_mono k v memo x Hv Hx).
  - exact Hin.
  - unfold unset. rewrite memo_truthy_set, key_eqb_refl. destruct (v =? 0) eqn:E; [lia|reflexivity].
  - unfold unset. rewrite Hnone. reflexivity.
Qed.

(** * The count is positive whenever the symbols suffice *)

Lemma cnt_loop_ge_term : forall tl need k v acc u, v <= u < v + Z.of_nat k ->
  acc + binomZ need u * cnt tl (need - u) <= cnt_loop tl need k v acc.
Proof.
  intros tl need. induction k as [|k IH]; intros v acc u Hu; [lia|].
  rewrite cnt_loop_S.
  destruct (Z.eq_dec u v) as [->|Hne].
  - apply cnt_loop_ge.
  - pose proof (IH (v + 1) (acc + binomZ need v * cnt tl (need - v)) u ltac:(lia)) as H.
    pose proof (binomZ_nonneg need v). pose proof (cnt_nonneg tl (need - v)). nia.
Qed.

Lemma cnt_pos : forall l, nonneg l -> forall need, 0 <= need <= zsum l -> 0 < cnt l need.
Proof.
  induction 1 as [|c tl Hc Htl IH]; intros need Hn.
  - cbn [zsum] in Hn. assert (need = 0) by lia. subst need. rewrite cnt_nil. cbn. lia.
  - cbn [zsum] in Hn. rewrite cnt_cons.
    pose proof (zsum_nonneg tl Htl) as Hz.
    pose proof (cnt_loop_ge_term tl need (Z.to_nat (Z.min c need + 1)) 0 0 (Z.min c need) ltac:(lia)) as H.
    pose proof (binomZ_pos need (Z.min c need) ltac:(lia)) as Hb.
    pose proof (IH (need - Z.min c need) ltac:(lia)) as Hc'.
    pose proof (Z.mul_pos_pos _ _ Hb Hc') as Hp. lia.
Qed.

(** * The multiplier of an allocation prefix *)

Lemma alloc_mult_app : forall l1 l2 n,
  alloc_mult n (l1 ++ l2) = alloc_mult n l1 * alloc_mult (n - zsum l1) l2.
Proof.
  induction l1 as [|a l1 IH]; intros l2 n; cbn [app alloc_mult zsum].
  - replace (n - 0) with n by lia. lia.
  - rewrite IH. replace (n - a - zsum l1) with (n - (a + zsum l1)) by lia. ring.
Qed.

Lemma alloc_mult_zeros : forall k, alloc_mult 0 (repeat 0 k) = 1.
Proof.
  induction k as [|k IH]; [reflexivity|]. cbn [repeat alloc_mult].
  change (0 - 0) with 0. rewrite IH, binomZ_0_0. reflexivity.
Qed.

Lemma zsum_zeros : forall k, zsum (repeat 0 k) = 0.
Proof. induction k as [|k IH]; cbn [repeat zsum]; lia. Qed.

Lemma nonneg_zeros : forall k, nonneg (repeat 0 k).
Proof. intros k. apply Forall_forall. intros x Hx. apply repeat_spec in Hx. lia. Qed.

Lemma nonneg_rev : forall l, nonneg l -> nonneg (rev l).
Proof. intros l H. apply Forall_forall. intros x Hx. apply in_rev in Hx. revert x Hx. apply Forall_forall. exact H. Qed.

(** the fuel of the model covers the step bound *)
Lemma fuel_covers : forall (L N steps p : nat) (q first_n : Z),
  q = Z.of_nat L -> first_n = Z.of_nat N -> (p <= L * N)%nat ->
  (steps <= (2 * N + 4) * L + 1 + (2 * N + 4) * p)%nat ->
  (steps <= k_fuel q first_n)%nat.
Proof.
  intros L N steps p q first_n -> -> Hp Hs. unfold k_fuel.
  assert (Hb : ((2 * N + 4) * p <= (2 * N + 4) * (L * N))%nat) by (apply Nat.mul_le_mono_l; exact Hp).
  replace (Z.max (Z.of_nat L) 0) with (Z.of_nat L) by lia.
  replace (Z.max (Z.of_nat N) 0) with (Z.of_nat N) by lia.
  apply Nat2Z.inj_le. rewrite Z2Nat.id by nia.
  assert (Hs' : Z.of_nat steps <= (2 * Z.of_nat N + 4) * Z.of_nat L + 1 + (2 * Z.of_nat N + 4) * (Z.of_nat L * Z.of_nat N)) by nia.
  set (l := Z.of_nat L) in *. set (n := Z.of_nat N) in *.
  assert (0 <= l) by (unfold l; lia). assert (0 <= n) by (unfold n; lia).
  assert (0 <= l * n) by nia. assert (0 <= l * n * n) by nia.
  nia.
Qed.

(** * The big-step analysis of the machine *)
Section Total.
Variables (q : Z) (mc : moc) (first_n : Z).
Hypothesis Hpar : params_ok q mc.
Hypothesis Hfn : 0 <= first_n.
Local Notation cs := (cs_of q mc).
Local Notation L := (length (cs_of q mc)).
Local Notation N := (Z.to_nat first_n).
Local Notation C := (2 * Z.to_nat first_n + 4)%nat.

Definition phi (memo : memo_t) : nat := (C * pend L N memo)%nat.
Definition pathc (i : nat) : nat := (C * (L - i))%nat.

Lemma pathc_S : forall i, (i < L)%nat -> pathc i = (C + pathc (S i))%nat.
Proof.
  intros i Hi. unfold pathc. replace (L - i)%nat with (S (L - S i)) by lia.
  rewrite Nat.mul_succ_r. lia.
Qed.

Lemma phi_set_lt : forall i nd v memo, (i < L)%nat -> 1 <= nd <= first_n -> v <> 0 ->
  memo_truthy (Z.of_nat i, nd) memo = None ->
  (phi (memo_set (Z.of_nat i, nd) v memo) + C <= phi memo)%nat.
Proof.
  intros i nd v memo Hi Hnd Hv Hnone. unfold phi.
  pose proof (pend_set_lt L N (Z.of_nat i, nd) v memo Hv (in_keys L N i nd Hi ltac:(lia)) Hnone) as H.
  apply (Nat.mul_le_mono_l _ _ C) in H. rewrite Nat.mul_succ_r in H. lia.
Qed.

(** the machine state [DoCount i need b mult] is consistent: [b] the
    allocation so far, [mult] its number of interleavings *)
Definition inv (i : nat) (need : Z) (b : list Z) (mult : Z) : Prop :=
  (i <= L)%nat /\ 0 <= need <= first_n /\ length b = i /\ nonneg b /\
  mult = alloc_mult first_n (rev b) /\ need = first_n - zsum (rev b) /\ 0 < mult.

(** the frame [fr] completes without finding the index: it hands [R] to the
    rest of the stack, with the index moved by [T] *)
Definition skip_out (i : nat) (fr : frame) (ks : list frame) (value find : Z) (memo : memo_t)
  (R T : Z) (cdrop cskip : nat) : Prop :=
  exists steps memo',
    memo_valid q mc memo' /\
    (forall s nd, s < Z.of_nat i -> memo_get (s, nd) memo' = memo_get (s, nd) memo) /\
    (steps + phi memo' + cdrop <= cskip + phi memo)%nat /\
    forall f, krun (steps + f) q mc first_n (fr :: ks) value find memo =
              krun f q mc first_n ks R (if find =? -1 then -1 else find - T) memo'.

(** the frame [fr] contains the index: the machine stops with a word *)
Definition found_out (fr : frame) (ks : list frame) (value find : Z) (memo : memo_t)
  (cfound : nat) : Prop :=
  exists steps memo' w,
    (steps + phi memo' <= cfound + phi memo)%nat /\
    forall f, krun (steps + f) q mc first_n (fr :: ks) value find memo = Ok (KPerm w, memo').

Definition Pst (i : nat) : Prop := forall need b mult ks value find memo,
  inv i need b mult -> -1 <= find -> memo_valid q mc memo ->
  ((find = -1 \/ cnt (skipn i cs) need * mult <= find) ->
     skip_out i (DoCount (Z.of_nat i) need b mult) ks value find memo
              (cnt (skipn i cs) need) (cnt (skipn i cs) need * mult) 0 1) /\
  (0 <= find < cnt (skipn i cs) need * mult ->
     found_out (DoCount (Z.of_nat i) need b mult) ks value find memo (pathc i + 1)).

Definition Qst (i k : nat) : Prop :=
  forall c tl need b mult ks value find memo v count this_mult,
  skipn i cs = c :: tl -> inv i need b mult -> 0 < need -> -1 <= find ->
  memo_valid q mc memo -> 0 <= v -> (1 <= k)%nat -> Z.of_nat k = Z.min c need + 1 - v ->
  need <= zsum (c :: tl) ->
  cnt_loop tl need k v (count + value * this_mult) = cnt (c :: tl) need ->
  ((find = -1 \/ (cnt (c :: tl) need - (count + value * this_mult)) * mult <= find) ->
     memo_truthy (Z.of_nat i, need) memo = None ->
     skip_out i (DoNext v (Z.of_nat i) need count b mult this_mult) ks value find memo
              (cnt (c :: tl) need) ((cnt (c :: tl) need - (count + value * this_mult)) * mult)
              C (2 * k + 1)) /\
  (0 <= find < (cnt (c :: tl) need - (count + value * this_mult)) * mult ->
     found_out (DoNext v (Z.of_nat i) need count b mult this_mult) ks value find memo
               (2 * k + pathc (S i))).

(** one machine step that skips *)
Lemma skip_one : forall i fr ks value find memo R T,
  memo_valid q mc memo ->
  (forall f, krun (S f) q mc first_n (fr :: ks) value find memo =
             krun f q mc first_n ks R (if find =? -1 then -1 else find - T) memo) ->
  skip_out i fr ks value find memo R T 0 1.
Proof.
  intros i fr ks value find memo R T Hval H. exists 1%nat, memo.
  split; [exact Hval|]. split; [reflexivity|]. split; [lia|].
  intros f. change (1 + f)%nat with (S f). apply H.
Qed.

Lemma inv_child : forall i need b mult v, inv i need b mult -> (i < L)%nat -> 0 <= v <= need ->
  inv (S i) (need - v) (v :: b) (binomZ need v * mult).
Proof.
  intros i need b mult v (Hi & Hn & Hlen & Hb & Hm & Hs & Hp) Hil Hv.
  pose proof (binomZ_pos need v Hv) as Hbn.
  unfold inv. cbn [rev length]. rewrite alloc_mult_app, zsum_app. cbn [alloc_mult zsum].
  rewrite <- Hm, <- Hs.
  repeat split; try lia; try nia.
  constructor; [lia|exact Hb].
Qed.

Lemma Q_vac : forall i k, (L <= i)%nat -> Qst i k.
Proof.
  intros i k Hi c tl need b mult ks value find memo v count this_mult Hsk.
  apply skipn_cons_inv in Hsk. lia.
Qed.

Lemma Q_step : forall i, Pst (S i) -> forall k, Qst i k.
Proof.
  intros i HP. induction k as [|k0 IHk];
    intros c tl need b mult ks value find memo v count this_mult
           Hsk Hinv Hneed Hfind Hval Hv Hk1 Hk Hav Hcl; [lia|].
  destruct Hpar as [Hq Hnn].
  set (acc := count + value * this_mult) in *.
  pose proof (skipn_cons_inv _ _ _ _ Hsk) as (Hi & Hc & Htl).
  assert (Hc0 : 0 <= c) by (rewrite Hc; apply nth_nonneg; exact Hnn).
  set (bn := binomZ need v) in *.
  assert (Hbn : 0 < bn) by (apply binomZ_pos; lia).
  set (R1 := cnt tl (need - v)).
  set (T1 := R1 * (bn * mult)).
  set (R := cnt (c :: tl) need) in *.
  rewrite cnt_loop_S in Hcl. fold bn R1 in Hcl.
  assert (Hge : acc + bn * R1 <= R) by (rewrite <- Hcl; apply cnt_loop_ge).
  assert (HR1 : 0 <= R1) by apply cnt_nonneg.
  pose proof Hinv as (_ & Hnd & _ & _ & _ & _ & Hmult).
  assert (HT1 : T1 <= (R - acc) * mult) by (unfold T1; nia).
  assert (HT10 : 0 <= T1) by (unfold T1; nia).
  pose proof (inv_child i need b mult v Hinv Hi ltac:(lia)) as Hinv'. fold bn in Hinv'.
  set (k1 := if v <? Z.min c need
             then DoNext (v + 1) (Z.of_nat i) need acc b mult bn
             else DoRecord v (Z.of_nat i) need acc bn).
  assert (Hstep : forall f vl fd mm,
            krun (S f) q mc first_n (DoNext v (Z.of_nat i) need count b mult this_mult :: ks) vl fd mm =
            krun f q mc first_n
                 (DoCount (Z.of_nat (S i)) (need - v) (v :: b) (bn * mult)
                  :: (if v <? Z.min c need
                      then DoNext (v + 1) (Z.of_nat i) need (count + vl * this_mult) b mult bn
                      else DoRecord v (Z.of_nat i) need (count + vl * this_mult) bn) :: ks) vl fd mm).
  { intros f vl fd mm. rewrite krun_DoNext. rewrite count_interleavings_ok by lia.
    rewrite (available_at_ok q mc i Hi). cbn [bind]. rewrite <- Hc.
    replace (Z.of_nat i + 1) with (Z.of_nat (S i)) by lia. reflexivity. }
  destruct (HP (need - v) (v :: b) (bn * mult) (k1 :: ks) value find memo Hinv' Hfind Hval) as [HPs HPf].
  rewrite <- Htl in HPs, HPf. fold R1 T1 in HPs, HPf.
  destruct k0 as [|k'].
  - (* last iteration: the child returns to DoRecord *)
    assert (Ek : (v <? Z.min c need) = false) by lia.
    cbn [cnt_loop] in Hcl.
    assert (HT : (R - acc) * mult = T1) by (unfold T1; rewrite <- Hcl; ring).
    assert (HRpos : R <> 0).
    { assert (0 < R); [|lia]. unfold R. apply cnt_pos.
      - rewrite <- Hsk. apply Forall_skipn. exact Hnn.
      - lia. }
    unfold k1 in HPs, HPf. rewrite Ek in HPs, HPf. clear k1.
    split.
    + intros Hmode Hnone.
      destruct (HPs ltac:(lia)) as (steps1 & memo1 & Hv1 & Hfr1 & Hb1 & Hrun1).
      exists (S (steps1 + 1)), (memo_set (Z.of_nat i, need) R memo1).
      split; [apply memo_valid_set; [exact Hv1|rewrite Nat2Z.id, Hsk; reflexivity]|].
      split.
      { intros s nd Hs. rewrite memo_get_set.
        destruct (key_eqb (s, nd) (Z.of_nat i, need)) eqn:E; [apply key_eqb_true in E; lia|].
        apply Hfr1. lia. }
      split.
      { assert (Hn1 : memo_truthy (Z.of_nat i, need) memo1 = None).
        { unfold memo_truthy. rewrite Hfr1 by lia. exact Hnone. }
        pose proof (phi_set_lt i need R memo1 Hi ltac:(lia) HRpos Hn1). lia. }
      intros f. replace (S (steps1 + 1) + f)%nat with (S (steps1 + S f)) by lia.
      rewrite Hstep, Ek. fold acc. rewrite Hrun1, krun_DoRecord.
      replace (acc + R1 * bn) with R by lia.
      rewrite HT. reflexivity.
    + intros Hf. rewrite HT in Hf.
      destruct (HPf Hf) as (steps1 & memo1 & w & Hb1 & Hrun1).
      exists (S steps1), memo1, w. split; [lia|].
      intros f. change (S steps1 + f)%nat with (S (steps1 + f)).
      rewrite Hstep, Ek. fold acc. apply Hrun1.
  - (* more iterations: the child returns to DoNext *)
    assert (Ek : (v <? Z.min c need) = true) by lia.
    unfold k1 in HPs, HPf. rewrite Ek in HPs, HPf. clear k1.
    set (T2 := (R - (acc + R1 * bn)) * mult).
    assert (HT : (R - acc) * mult = T2 + T1) by (unfold T2, T1; ring).
    assert (HT20 : 0 <= T2) by (unfold T2; nia).
    assert (Hcl' : cnt_loop tl need (S k') (v + 1) (acc + R1 * bn) = cnt (c :: tl) need).
    { fold R. rewrite <- Hcl. f_equal. ring. }
    split.
    + intros Hmode Hnone.
      destruct (HPs ltac:(lia)) as (steps1 & memo1 & Hv1 & Hfr1 & Hb1 & Hrun1).
      set (find1 := if find =? -1 then -1 else find - T1) in *.
      assert (Hn1 : memo_truthy (Z.of_nat i, need) memo1 = None).
      { unfold memo_truthy. rewrite Hfr1 by lia. exact Hnone. }
      assert (Hf1 : -1 <= find1) by (unfold find1; destruct (find =? -1) eqn:E; lia).
      destruct (IHk c tl need b mult ks R1 find1 memo1 (v + 1) acc bn Hsk Hinv Hneed
                  Hf1 Hv1 ltac:(lia) ltac:(lia) ltac:(lia) Hav Hcl') as [IHs _].
      fold R T2 in IHs.
      assert (Hm1 : find1 = -1 \/ T2 <= find1) by (unfold find1; destruct (find =? -1) eqn:E; lia).
      destruct (IHs Hm1 Hn1) as (steps2 & memo2 & Hv2 & Hfr2 & Hb2 & Hrun2).
      exists (S (steps1 + steps2)), memo2.
      split; [exact Hv2|]. split.
      { intros s nd Hs. rewrite Hfr2 by exact Hs. apply Hfr1. lia. }
      split; [lia|].
      intros f. replace (S (steps1 + steps2) + f)%nat with (S (steps1 + (steps2 + f))) by lia.
      rewrite Hstep, Ek. fold acc. rewrite Hrun1, Hrun2.
      f_equal. unfold find1. destruct (find =? -1) eqn:E; [reflexivity|].
      destruct (find - T1 =? -1) eqn:E2; lia.
    + intros Hf. rewrite HT in Hf.
      destruct (Z_lt_dec find T1) as [Hlt1|Hge1].
      * destruct (HPf ltac:(lia)) as (steps1 & memo1 & w & Hb1 & Hrun1).
        exists (S steps1), memo1, w. split; [lia|].
        intros f. change (S steps1 + f)%nat with (S (steps1 + f)).
        rewrite Hstep, Ek. fold acc. apply Hrun1.
      * destruct (HPs ltac:(lia)) as (steps1 & memo1 & Hv1 & Hfr1 & Hb1 & Hrun1).
        assert (Ef : (find =? -1) = false) by lia. rewrite Ef in Hrun1.
        destruct (IHk c tl need b mult ks R1 (find - T1) memo1 (v + 1) acc bn Hsk Hinv Hneed
                    ltac:(lia) Hv1 ltac:(lia) ltac:(lia) ltac:(lia) Hav Hcl') as [_ IHf].
        fold R T2 in IHf.
        destruct (IHf ltac:(lia)) as (steps2 & memo2 & w & Hb2 & Hrun2).
        exists (S (steps1 + steps2)), memo2, w. split; [lia|].
        intros f. replace (S (steps1 + steps2) + f)%nat with (S (steps1 + (steps2 + f))) by lia.
        rewrite Hstep, Ek. fold acc. rewrite Hrun1. apply Hrun2.
Qed.

Lemma P_step : forall i, (forall k, Qst i k) -> Pst i.
Proof.
  intros i HQ need b mult ks value find memo Hinv Hfind Hval.
  pose proof Hinv as (Hi & Hnd & Hlen & Hb & Hm & Hs & Hmult).
  destruct Hpar as [Hq Hnn].
  assert (Hsuf : nonneg (skipn i cs)) by (apply Forall_skipn; exact Hnn).
  destruct (need =? 0) eqn:En.
  - assert (Hn0 : need = 0) by lia.
    replace (cnt (skipn i cs) need) with 1 by (rewrite Hn0; symmetry; apply cnt_zero; exact Hsuf).
    split.
    + intros Hmode. apply skip_one; [exact Hval|]. intros f. rewrite krun_DoCount, En.
      destruct (find >? -1) eqn:Ef.
      * destruct (find <? mult) eqn:Elt; [lia|].
        f_equal. destruct (find =? -1) eqn:E; lia.
      * f_equal. destruct (find =? -1) eqn:E; lia.
    + intros Hf.
      set (cs' := rev b ++ repeat 0 (Z.to_nat q - length (rev b))).
      assert (Hnn' : nonneg cs') by (apply Forall_app; split; [apply nonneg_rev; exact Hb|apply nonneg_zeros]).
      assert (Hlen' : Z.of_nat (length cs') = q).
      { unfold cs'. rewrite app_length, repeat_length, rev_length. lia. }
      assert (Hz' : zsum cs' = first_n).
      { unfold cs'. rewrite zsum_app, zsum_zeros. lia. }
      assert (Hmn : multinomial cs' = mult).
      { rewrite <- (alloc_mult_multinomial cs' first_n Hnn' Hz'). unfold cs'.
        rewrite alloc_mult_app, <- Hm. replace (first_n - zsum (rev b)) with 0 by lia.
        rewrite alloc_mult_zeros. lia. }
      destruct (multiperm_bij cs' Hnn') as [Hfwd _].
      destruct (Hfwd find ltac:(lia)) as (w & Hw & _).
      rewrite Hlen', Hz' in Hw.
      exists 1%nat, memo, w. split; [lia|].
      intros f. change (1 + f)%nat with (S f). rewrite krun_DoCount, En.
      destruct (find >? -1) eqn:Ef; [|lia]. destruct (find <? mult) eqn:Elt; [|lia].
      unfold buckets_to_counters.
      destruct (Nat.ltb (Z.to_nat q) (length (rev b))) eqn:Eb;
        [apply Nat.ltb_lt in Eb; rewrite rev_length in Eb; lia|].
      cbn [bind]. fold cs'. rewrite Hw. reflexivity.
  - match goal with |- ?G =>
      assert (Hzero : cnt (skipn i cs) need = 0 ->
        (forall f, krun (S f) q mc first_n (DoCount (Z.of_nat i) need b mult :: ks) value find memo =
                   krun f q mc first_n ks 0 find memo) -> G) end.
    { intros Hz Hr. rewrite Hz. split.
      - intros _. apply skip_one; [exact Hval|]. intros f. rewrite Hr.
        f_equal. destruct (find =? -1) eqn:E; lia.
      - intros Hf. lia. }
    destruct (Z.of_nat i >=? q) eqn:Eq.
    { apply Hzero.
      - rewrite skipn_all2 by lia. rewrite cnt_nil, En. reflexivity.
      - intros f. rewrite krun_DoCount, En, Eq. reflexivity. }
    destruct (available_after q mc (Z.of_nat i) <? need) eqn:Ea.
    { apply Hzero.
      - pose proof Ea as Ea'. rewrite (available_after_ok q mc i (conj Hq Hnn)) in Ea' by lia.
        apply cnt_short; [exact Hsuf|lia|lia].
      - intros f. rewrite krun_DoCount, En, Eq, Ea. reflexivity. }
    clear Hzero.
    assert (Hil : (i < L)%nat) by lia.
    pose proof (skipn_nth_cons cs i Hil) as Hsk.
    set (c := nth i cs 0) in *. set (tl := skipn (S i) cs) in *.
    assert (Hc : 0 <= c) by (unfold c; apply nth_nonneg; exact Hnn).
    assert (Hav : need <= zsum (c :: tl)).
    { pose proof Ea as Ea'. rewrite (available_after_ok q mc i (conj Hq Hnn)) in Ea' by lia.
      rewrite Hsk in Ea'. lia. }
    set (k := Z.to_nat (Z.min c need + 1)).
    assert (Hk2 : (2 * k <= 2 * N + 2)%nat) by (unfold k; lia).
    assert (Hcl0 : cnt_loop tl need k 0 (0 + 0 * 0) = cnt (c :: tl) need).
    { replace (0 + 0 * 0) with 0 by lia. symmetry. apply cnt_cons. }
    destruct (HQ k c tl need b mult ks 0 find memo 0 0 0 Hsk Hinv ltac:(lia) Hfind Hval ltac:(lia)
                 ltac:(unfold k; lia) ltac:(unfold k; lia) Hav Hcl0) as [HQs HQf].
    replace ((cnt (c :: tl) need - (0 + 0 * 0)) * mult) with (cnt (c :: tl) need * mult) in HQs, HQf by ring.
    rewrite Hsk.
    assert (Hdf : (forall f, krun (S f) q mc first_n (DoCount (Z.of_nat i) need b mult :: ks) value find memo =
                             krun f q mc first_n (DoNext 0 (Z.of_nat i) need 0 b mult 0 :: ks) 0 find memo) ->
                  0 <= find < cnt (c :: tl) need * mult ->
                  found_out (DoCount (Z.of_nat i) need b mult) ks value find memo (pathc i + 1)).
    { intros Hd Hf. destruct (HQf Hf) as (steps & memo' & w & Hb' & Hrun').
      exists (S steps), memo', w. split; [rewrite (pathc_S i Hil); lia|].
      intros f. change (S steps + f)%nat with (S (steps + f)). rewrite Hd. apply Hrun'. }
    assert (Hds : (forall f, krun (S f) q mc first_n (DoCount (Z.of_nat i) need b mult :: ks) value find memo =
                             krun f q mc first_n (DoNext 0 (Z.of_nat i) need 0 b mult 0 :: ks) 0 find memo) ->
                  (find = -1 \/ cnt (c :: tl) need * mult <= find) ->
                  memo_truthy (Z.of_nat i, need) memo = None ->
                  skip_out i (DoCount (Z.of_nat i) need b mult) ks value find memo
                           (cnt (c :: tl) need) (cnt (c :: tl) need * mult) 0 1).
    { intros Hd Hmode Hnone. destruct (HQs Hmode Hnone) as (steps & memo' & Hv' & Hfr' & Hb' & Hrun').
      exists (S steps), memo'. split; [exact Hv'|]. split; [exact Hfr'|]. split; [lia|].
      intros f. change (S steps + f)%nat with (S (steps + f)). rewrite Hd. apply Hrun'. }
    destruct (memo_truthy (Z.of_nat i, need) memo) as [mv|] eqn:Em.
    + pose proof (memo_truthy_some _ _ _ Em) as [Hg Hmv].
      pose proof (Hval _ _ _ Hg ltac:(lia) ltac:(lia)) as Hg'. rewrite Nat2Z.id, Hsk in Hg'.
      split.
      * intros Hmode. apply skip_one; [exact Hval|]. intros f.
        rewrite krun_DoCount, En, Eq, Ea, Em. rewrite <- Hg'.
        destruct (find >? -1) eqn:Ef.
        -- destruct (find <? mv * mult) eqn:Elt; [rewrite <- Hg' in Hmode; lia|].
           f_equal. destruct (find =? -1) eqn:E; lia.
        -- f_equal. destruct (find =? -1) eqn:E; lia.
      * intros Hf. apply Hdf; [|exact Hf]. intros f.
        rewrite krun_DoCount, En, Eq, Ea, Em. rewrite <- Hg' in Hf.
        destruct (find >? -1) eqn:Ef; [|lia]. destruct (find <? mv * mult) eqn:Elt; [reflexivity|lia].
    + assert (Hd : forall f, krun (S f) q mc first_n (DoCount (Z.of_nat i) need b mult :: ks) value find memo =
                             krun f q mc first_n (DoNext 0 (Z.of_nat i) need 0 b mult 0 :: ks) 0 find memo).
      { intros f. rewrite krun_DoCount, En, Eq, Ea, Em. reflexivity. }
      split; [intros Hmode; apply Hds; [exact Hd|exact Hmode|reflexivity] | intros Hf; apply Hdf; assumption].
Qed.

Lemma P_all : forall i, Pst i.
Proof.
  assert (H : forall d i, (L - i <= d)%nat -> Pst i).
  { induction d as [|d IH]; intros i Hd.
    - apply P_step. intros k. apply Q_vac. lia.
    - apply P_step. apply Q_step. apply IH. lia. }
  intros i. apply (H (L - i)%nat). lia.
Qed.

Lemma inv_start : inv 0 first_n [] 1.
Proof. unfold inv. cbn [rev length alloc_mult zsum]. repeat split; try lia. constructor. Qed.

(** the machine started on the whole problem, with any fuel at least [k_fuel] *)
Lemma krun_count_total : forall memo fuel, memo_valid q mc memo -> (k_fuel q first_n <= fuel)%nat ->
  exists memo', krun fuel q mc first_n [DoCount 0 first_n [] 1] 0 (-1) memo =
                  Ok (KCount (cnt cs first_n), memo') /\ memo_valid q mc memo'.
Proof.
  intros memo fuel Hval Hfuel.
  destruct (P_all 0%nat first_n [] 1 [] 0 (-1) memo inv_start ltac:(lia) Hval) as [Hs _].
  destruct (Hs (or_introl eq_refl)) as (steps & memo' & Hv' & _ & Hb & Hrun).
  assert (Hle : (steps <= k_fuel q first_n)%nat).
  { destruct Hpar as [Hq _].
    apply (fuel_covers L N steps (pend L N memo) q first_n Hq ltac:(lia) (pend_le L N memo)).
    unfold phi in Hb. lia. }
  exists memo'. split; [|exact Hv'].
  replace fuel with (steps + (fuel - steps))%nat by lia.
  change (Z.of_nat 0) with 0 in Hrun. rewrite Hrun. rewrite krun_nil. reflexivity.
Qed.

Lemma krun_unrank_total : forall memo fuel j, memo_valid q mc memo -> 0 <= j < cnt cs first_n ->
  (k_fuel q first_n <= fuel)%nat ->
  exists w memo', krun fuel q mc first_n [DoCount 0 first_n [] 1] 0 j memo = Ok (KPerm w, memo').
Proof.
  intros memo fuel j Hval Hj Hfuel.
  destruct (P_all 0%nat first_n [] 1 [] 0 j memo inv_start ltac:(lia) Hval) as [_ Hf].
  cbn [skipn] in Hf.
  destruct (Hf ltac:(lia)) as (steps & memo' & w & Hb & Hrun).
  assert (Hle : (steps <= k_fuel q first_n)%nat).
  { destruct Hpar as [Hq _].
    apply (fuel_covers L N steps (pend L N memo) q first_n Hq ltac:(lia) (pend_le L N memo)).
    unfold phi, pathc in Hb. replace (L - 0)%nat with L in Hb by lia. lia. }
  exists w, memo'.
  replace fuel with (steps + (fuel - steps))%nat by lia.
  change (Z.of_nat 0) with 0 in Hrun. apply Hrun.
Qed.

End Total.

(** * Totality of the stack machine with the model's own fuel *)

Theorem k_prefixes_count_total : forall q mc first_n memo,
  params_ok q mc -> 0 <= first_n -> memo_valid q mc memo ->
  exists memo', k_prefixes_of_permutations_with_copies q mc first_n (-1) memo =
                  Ok (KCount (cnt (cs_of q mc) first_n), memo') /\ memo_valid q mc memo'.
Proof.
  intros q mc first_n memo Hp Hn Hval. unfold k_prefixes_of_permutations_with_copies.
  apply krun_count_total; try assumption. lia.
Qed.

Theorem k_prefixes_unrank_total : forall q mc first_n memo j,
  params_ok q mc -> 0 <= first_n -> memo_valid q mc memo -> 0 <= j < cnt (cs_of q mc) first_n ->
  exists w memo', k_prefixes_of_permutations_with_copies q mc first_n j memo = Ok (KPerm w, memo') /\
                  prefix_unrank (cs_of q mc) first_n j = Some w /\ memo_valid q mc memo'.
Proof.
  intros q mc first_n memo j Hp Hn Hval Hj.
  destruct (krun_unrank_total q mc first_n Hp Hn memo (k_fuel q first_n) j Hval Hj (Nat.le_refl _))
    as (w & memo' & Hrun).
  destruct (k_prefixes_unrank_refines q mc first_n memo j (KPerm w) memo' Hp Hn Hval Hj Hrun)
    as [(w' & Hw & Hu) Hm].
  inversion Hw; subst w'. exists w, memo'. split; [exact Hrun|]. split; assumption.
Qed.

(** * Totality of the memoised recursion: depth at most [q + 1 < q + 2] *)

Lemma rc_total : forall q m, 0 <= q -> forall fuel i need memo,
  (i <= Z.to_nat q)%nat -> 0 <= need -> (Z.to_nat q - i < fuel)%nat ->
  exists r, recur_count fuel (Z.of_nat i) need q m memo = Ok r.
Proof.
  intros q m Hq. induction fuel as [|f IH]; intros i need memo Hi Hneed Hf; [lia|].
  rewrite recur_count_S.
  destruct (need =? 0) eqn:En; [eexists; reflexivity|].
  destruct (Z.of_nat i <? q) eqn:Eq; [|eexists; reflexivity].
  destruct ((q - Z.of_nat i) * m >=? need) eqn:Ea; [|eexists; reflexivity].
  destruct (memo_truthy (Z.of_nat i, need) memo) as [mv|]; [eexists; reflexivity|].
  assert (Hloop : forall k v0 combos memo0, 0 <= v0 -> v0 + Z.of_nat k <= need + 1 ->
            exists r, rc_loop f (Z.of_nat i) need q m k v0 combos memo0 = Ok r).
  { induction k as [|k IHk]; intros v0 combos memo0 Hv0 Hk; [eexists; reflexivity|].
    rewrite rc_loop_S. replace (Z.of_nat i + 1) with (Z.of_nat (S i)) by lia.
    destruct (IH (S i) (need - v0) memo0 ltac:(lia) ltac:(lia) ltac:(lia)) as (r & Hr).
    rewrite Hr. cbn [bind]. rewrite count_interleavings_ok by lia. cbn [bind].
    apply IHk; lia. }
  destruct (Hloop (Z.to_nat (Z.min m need + 1)) 0 0 memo ltac:(lia) ltac:(lia)) as (r & Hr).
  rewrite Hr. cbn [bind]. eexists. reflexivity.
Qed.

Lemma recur_count_prefixes_ok : forall q m first_n memo, 0 <= q -> 0 <= first_n ->
  exists r, recur_count_prefixes_of_permutations_with_copies q m first_n memo = Ok r.
Proof.
  intros q m first_n memo Hq Hn. unfold recur_count_prefixes_of_permutations_with_copies.
  apply (rc_total q m Hq (S (Z.to_nat (q + 1))) 0%nat first_n memo); lia.
Qed.

Theorem recur_count_prefixes_total : forall q m first_n memo,
  0 <= q -> 0 <= m -> 0 <= first_n -> memo_valid q (Uniform m) memo ->
  exists memo', recur_count_prefixes_of_permutations_with_copies q m first_n memo =
                  Ok (cnt (repeat m (Z.to_nat q)) first_n, memo') /\ memo_valid q (Uniform m) memo'.
Proof.
  intros q m first_n memo Hq Hm Hn Hval.
  destruct (recur_count_prefixes_ok q m first_n memo Hq Hn) as ([v memo'] & Hr).
  destruct (recur_count_prefixes_refines q m first_n memo v memo' Hq Hm Hn Hval Hr) as [-> Hm'].
  exists memo'. split; assumption.
Qed.

(** * Totality of the dispatchers *)

Theorem count_dispatch_total : forall q mc first_n memo,
  params_ok q mc -> 0 <= first_n -> memo_valid q mc memo ->
  exists memo', count_prefixes_of_permutations_with_copies q mc first_n memo =
                  Ok (KCount (cnt (cs_of q mc) first_n), memo') /\ memo_valid q mc memo'.
Proof.
  intros q mc first_n memo Hp Hn Hval.
  assert (Hok : exists v memo', count_prefixes_of_permutations_with_copies q mc first_n memo = Ok (v, memo')).
  { destruct (k_prefixes_count_total q mc first_n memo Hp Hn Hval) as (mk & Hk & _).
    unfold count_prefixes_of_permutations_with_copies. destruct mc as [m|l]; [|eauto].
    destruct (first_n <=? m); [eauto|].
    destruct ((first_n <? 100) && (q <? 100)); [|eauto].
    destruct (recur_count_prefixes_ok q m first_n memo (params_ok_q_nonneg _ _ Hp) Hn) as ([x mx] & Hr).
    rewrite Hr. cbn [bind fst snd]. eauto. }
  destruct Hok as (v & memo' & H).
  destruct (count_dispatch_refines q mc first_n memo v memo' Hp Hn Hval H) as [-> Hm].
  exists memo'. split; assumption.
Qed.

Theorem unrank_dispatch_total : forall q mc first_n memo j,
  params_ok q mc -> 0 <= first_n -> memo_valid q mc memo -> 0 <= j < cnt (cs_of q mc) first_n ->
  exists w memo', compute_jth_prefix_of_permutations_with_copies q mc first_n j memo = Ok (KPerm w, memo') /\
                  bounded_word (cs_of q mc) first_n w /\ dispatch_rank q mc first_n w = j /\
                  memo_valid q mc memo'.
Proof.
  intros q mc first_n memo j Hp Hn Hval Hj.
  assert (Hok : exists v memo', compute_jth_prefix_of_permutations_with_copies q mc first_n j memo = Ok (v, memo')).
  { destruct (k_prefixes_unrank_total q mc first_n memo j Hp Hn Hval Hj) as (wk & mk & Hk & _).
    unfold compute_jth_prefix_of_permutations_with_copies. destruct mc as [m|l]; [|eauto].
    destruct (first_n <=? m) eqn:Es; [|eauto].
    pose proof (params_ok_q_nonneg _ _ Hp) as Hq.
    cbn [cs_of] in Hj. rewrite cnt_uniform_small in Hj by lia. rewrite Z2Nat.id in Hj by lia.
    destruct (Z.eq_dec q 0) as [->|Hq0].
    - destruct (Z.eq_dec first_n 0) as [->|Hn0]; [cbv; eauto|].
      rewrite Z.pow_0_l in Hj by lia. lia.
    - destruct (comb_bij (Z.to_nat first_n) q ltac:(lia)) as [H1 _].
      rewrite Z2Nat.id in H1 by lia.
      destruct (H1 j Hj) as (ds & Hc & _). rewrite Hc. cbn [bind]. eauto. }
  destruct Hok as (v & memo' & H).
  destruct (unrank_dispatch_refines q mc first_n memo j v memo' Hp Hn Hval Hj H) as [(w & -> & Hb & Hr) Hm].
  exists w, memo'. split; [exact H|]. split; [exact Hb|]. split; [exact Hr|exact Hm].
Qed.

(** * Sessions: every call whose arguments are in range returns [Ok] with the right value *)

Definition op_result_total (q : Z) (mc : moc) (op : memo_op) (r : res kres) : Prop :=
  exists v, r = Ok v /\ op_result_ok q mc op (Ok v).

Theorem session_total : forall q mc ops memo, params_ok q mc ->
  Forall (op_in_range q mc) ops -> memo_valid q mc memo ->
  Forall2 (op_result_total q mc) ops (fst (memo_session q mc ops memo)) /\
  memo_valid q mc (snd (memo_session q mc ops memo)).
Proof.
  intros q mc ops memo Hp. revert memo.
  induction ops as [|op tl IH]; intros memo Hr Hval.
  - cbn [memo_session fst snd]. split; [constructor|exact Hval].
  - inversion Hr as [|op' tl' Hop Htl]; subst op' tl'.
    assert (Hstep : exists v memo',
              match op with
              | OpCount fn => count_prefixes_of_permutations_with_copies q mc fn memo
              | OpUnrank fn j => compute_jth_prefix_of_permutations_with_copies q mc fn j memo
              end = Ok (v, memo') /\ op_result_ok q mc op (Ok v) /\ memo_valid q mc memo').
    { destruct op as [fn|fn j]; cbn [op_in_range op_result_ok] in *.
      - destruct (count_dispatch_total q mc fn memo Hp Hop Hval) as (memo' & H & Hm).
        exists (KCount (cnt (cs_of q mc) fn)), memo'. split; [exact H|]. split; [reflexivity|exact Hm].
      - destruct Hop as [Hfn Hj].
        destruct (unrank_dispatch_total q mc fn memo j Hp Hfn Hval Hj) as (w & memo' & H & Hb & Hrk & Hm).
        exists (KPerm w), memo'. split; [exact H|]. split; [|exact Hm].
        exists w. split; [reflexivity|]. split; assumption. }
    destruct Hstep as (v & memo' & He & Hv & Hm').
    cbn [memo_session]. rewrite He.
    destruct (IH memo' Htl Hm') as [IH1 IH2].
    destruct (memo_session q mc tl memo') as [rs mf]. cbn [fst snd] in *.
    split; [|exact IH2].
    constructor; [|exact IH1]. exists v. split; [reflexivity|exact Hv].
Qed.

(** the fuel of the stack machine is not generous by orders of magnitude: the
    machine really takes a number of steps quadratic in [first_n] *)
Example k_fuel_example :
  k_fuel 3 4 = 736%nat /\
  (exists r, krun 60 3 (Uniform 2) 4 [DoCount 0 4 [] 1] 0 (-1) [] = Ok r) /\
  krun 40 3 (Uniform 2) 4 [DoCount 0 4 [] 1] 0 (-1) [] = Err OutOfFuel.
Proof. split; [vm_compute; reflexivity|]. split; [vm_compute; eauto|vm_compute; reflexivity]. Qed.

Print Assumptions k_prefixes_count_total.
Print Assumptions k_prefixes_unrank_total.
Print Assumptions recur_count_prefixes_total.
Print Assumptions count_dispatch_total.
Print Assumptions unrank_dispatch_total.
Print Assumptions session_total.
