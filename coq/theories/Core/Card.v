(** Executable model of the cardinality assertions of [core/cnf.py]
    ([assert_k_of_n], [_inequality_assertion], [_make_same_length],
    [_convert_to_negative_twos_complement]), of [core/binary.py] and of
    [combine_cnf_with_requests] in [core/generate/utility.py]. *)
From Coq Require Import ZArith List Bool Lia.
From SP Require Import Base.Sat Core.CnfModel.
Import ListNotations.
Open Scope Z_scope.

(** [int_to_binary]: MSB first, digits in {-1, 1}; [] for 0. *)
Fixpoint to_bin_aux (fuel : nat) (v : Z) (acc : list Z) : list Z :=
  match fuel with
  | O => acc
  | S f => if v =? 0 then acc
           else to_bin_aux f (v / 2) ((if v mod 2 =? 0 then -1 else 1) :: acc)
  end.
Definition int_to_binary (k : Z) : list Z :=
  to_bin_aux (S (Z.to_nat (Z.log2 k) + 1)) k [].

Definition assert_k_of_n (k : Z) (vs : list Z) : M bool :=
  let bin := int_to_binary k in
  o <- pop_count vs (S (length bin)) ;;
  match o with
  | None => ret false
  | Some sum_bits =>
    if Nat.ltb (length sum_bits) (length bin) then
      (* k needs more bits than the pop count has: unsatisfiable *)
      match sum_bits with
      | [] => ret false
      | b :: _ => emit [[b]; [- b]] ;;; ret true
      end
    else
    let lp := firstn (length sum_bits) (rev bin) in
    let lp := rev (lp ++ repeat (-1) (length sum_bits - length lp)) in
    emit (map (fun p => [fst p * snd p]) (combine lp sum_bits)) ;;; ret true
  end.

(** [_make_same_length], including the swapped recursive call. *)
Definition make_same_length (xs ys : list Z) : M (list Z * list Z) :=
  if Nat.eqb (length xs) (length ys) then ret (xs, ys)
  else if Nat.ltb (length xs) (length ys) then
    zp <- nfresh (length ys - length xs + 1) ;; zero_out zp ;;;
    o <- nfresh 1 ;; zero_out o ;;; ret (zp ++ xs, o ++ ys)
  else
    zp <- nfresh (length xs - length ys + 1) ;; zero_out zp ;;;
    o <- nfresh 1 ;; zero_out o ;;; ret (o ++ xs, zp ++ ys).

Definition neg_twos (bits : list Z) : M (list Z) :=
  fl <- nfresh (length bits) ;;
  emit (flat_map (fun p => [[fst p; snd p]; [- fst p; - snd p]]) (combine fl bits)) ;;;
  ones <- nfresh (length bits) ;;
  zero_out (removelast ones) ;;;
  emit (match ones with [] => [] | _ => [[last ones 0]] end) ;;;
  r <- ripple_carry fl ones ;; ret (rev (snd r)).

Definition inequality (lt : bool) (k : Z) (vs : list Z) : M bool :=
  let bin := int_to_binary k in
  o <- pop_count vs (S (length bin)) ;;
  match o with
  | None => ret false
  | Some sum_bits =>
    kv <- nfresh (length bin) ;;
    emit (map (fun p => [fst p * snd p]) (combine kv bin)) ;;;
    p <- make_same_length kv sum_bits ;;
    p <- (if Nat.eqb (length (fst p)) (length bin)
             && negb (lt && (k =? 2 ^ (Z.of_nat (length bin) - 1)))
          then (* equal widths: add a sign bit to both *)
            z1 <- nfresh 1 ;; zero_out z1 ;;;
            z2 <- nfresh 1 ;; zero_out z2 ;;;
            ret (z1 ++ fst p, z2 ++ snd p)
          else ret p) ;;
    let '(kv', sb') := p in
    let '(kbs, nbs) := if lt then (sb', kv') else (kv', sb') in
    neg <- neg_twos nbs ;;
    r <- ripple_carry kbs neg ;;
    emit [[last (snd r) 0]] ;;; ret true
  end.

Inductive kind := EQ | LT | GT.
Definition request (kd : kind) (k : Z) (vs : list Z) : M bool :=
  match kd with
  | EQ => assert_k_of_n k vs
  | LT => inequality true k vs
  | GT => inequality false k vs
  end.

Definition run_request (nfr : Z) kd k vs :=
  let '(ok, s) := request kd k vs {| next := nfr; cls := [] |} in
  (ok, next s, cls s).

(** [combine_cnf_with_requests]: requests in order on a CNF with [fresh]
    variables pre-allocated, then the initial clauses appended. *)
Fixpoint run_requests (rs : list (kind * Z * list Z)) : M bool :=
  match rs with
  | [] => ret true
  | (kd, k, vs) :: rs' =>
    ok <- request kd k vs ;;
    if ok then run_requests rs' else ret false
  end.
Definition combine_requests (initial : cnf) (nfr : Z) (rs : list (kind * Z * list Z))
  : bool * Z * cnf :=
  let '(ok, s) := run_requests rs {| next := nfr; cls := [] |} in
  (ok, next s, cls s ++ initial).
