(** Proofs about the cardinality encoders of [Core/Card.v]:
    [assert_k_of_n] (exactly k), [inequality] (fewer / more than k). *)
From Coq Require Import ZArith List Bool Lia ZifyBool Arith.
From SP Require Import Base.Sat Base.Bits Core.CnfModel Core.CnfProofs
  Core.PopCountProofs Core.Card.
Import ListNotations.
Open Scope Z_scope.

(** * [int_to_binary] *)

Definition digit (d : Z) : Prop := d = 1 \/ d = -1.
(** Value of an MSB-first list of digits in {1, -1} (1 = set bit). *)
Definition pmv (ds : list Z) : Z := msbv (map (Z.ltb 0) ds).

Lemma to_bin_aux_spec f : forall v acc,
  0 <= v < 2 ^ Z.of_nat f ->
  exists ds, to_bin_aux f v acc = ds ++ acc /\ Forall digit ds /\ pmv ds = v /\
    (v = 0 -> ds = []) /\
    (0 < v -> 2 ^ (Z.of_nat (length ds) - 1) <= v < 2 ^ Z.of_nat (length ds)).
Proof.
  induction f as [|f IH]; intros v acc Hv.
  - change (Z.of_nat 0) with 0 in Hv. rewrite Z.pow_0_r in Hv.
    exists []. cbn [to_bin_aux app]. repeat split; try constructor; try lia.
    unfold pmv. cbn. lia.
  - cbn [to_bin_aux]. destruct (v =? 0) eqn:E.
    + exists []. cbn [app]. repeat split; try constructor; try lia.
      unfold pmv. cbn. lia.
    + rewrite pow2_S in Hv.
      set (d := if v mod 2 =? 0 then -1 else 1).
      destruct (IH (v / 2) (d :: acc)) as (ds & Hrun & Hdig & Hval & Hz & Hpos).
      { split; [apply Z.div_pos; lia|]. apply Z.div_lt_upper_bound; lia. }
      exists (ds ++ [d]). rewrite Hrun, <- app_assoc. split; [reflexivity|].
      pose proof (Z.div_mod v 2 ltac:(lia)) as Hdm.
      pose proof (Z.mod_pos_bound v 2 ltac:(lia)) as Hmb.
      split.
      { apply Forall_app. split; [assumption|]. constructor; [|constructor].
        unfold digit, d. destruct (v mod 2 =? 0); lia. }
      split.
      { unfold pmv in *. rewrite map_app, msbv_app, Hval. cbn [map length].
        rewrite msbv_cons, msbv_nil. cbn [length]. change (Z.of_nat 0) with 0.
        change (Z.of_nat 1) with 1. rewrite Z.pow_0_r, Z.pow_1_r.
        unfold d. destruct (v mod 2 =? 0) eqn:E2; cbn [Z.ltb Z.compare Z.b2z]; lia. }
      split; [lia|]. intros _. rewrite app_length. cbn [length].
      destruct (Z.eq_dec (v / 2) 0) as [E0|E0].
      * rewrite (Hz E0). cbn [length Nat.add]. change (Z.of_nat 1 - 1) with 0.
        change (Z.of_nat 1) with 1. rewrite Z.pow_0_r, Z.pow_1_r. lia.
      * assert (Hp : 0 < v / 2).
        { pose proof (Z.div_pos v 2 ltac:(lia) ltac:(lia)). lia. }
        specialize (Hpos Hp).
        replace (Z.of_nat (length ds + 1)) with (Z.succ (Z.of_nat (length ds))) by lia.
        rewrite Z.pow_succ_r by lia.
        replace (Z.succ (Z.of_nat (length ds)) - 1) with (Z.succ (Z.of_nat (length ds) - 1)) by lia.
        assert (0 <= Z.of_nat (length ds) - 1).
        { destruct ds; [|cbn [length]; lia]. cbn [length] in Hpos.
          change (Z.of_nat 0) with 0 in Hpos. rewrite Z.pow_0_r in Hpos. lia. }
        rewrite Z.pow_succ_r by lia. lia.
Qed.

Lemma int_to_binary_spec k :
  0 <= k ->
  let bin := int_to_binary k in
  Forall digit bin /\ pmv bin = k /\ k < 2 ^ Z.of_nat (length bin) /\
  (0 < k -> 2 ^ (Z.of_nat (length bin) - 1) <= k) /\
  (k = 0 -> bin = []).
Proof.
  intros Hk bin. unfold bin, int_to_binary.
  destruct (to_bin_aux_spec (S (Z.to_nat (Z.log2 k) + 1)) k []) as (ds & Hrun & Hdig & Hval & Hz & Hpos).
  { split; [assumption|]. destruct (Z.eq_dec k 0) as [->|Hk0].
    - apply pow2_pos.
    - pose proof (Z.log2_spec k ltac:(lia)) as [_ H]. pose proof (Z.log2_nonneg k).
      eapply Z.lt_le_trans; [exact H|]. apply Z.pow_le_mono_r; lia. }
  rewrite Hrun, app_nil_r. split; [assumption|]. split; [assumption|]. split.
  - destruct (Z.eq_dec k 0) as [->|Hk0]; [apply pow2_pos|]. apply Hpos. lia.
  - split; [intros H; now apply Hpos|assumption].
Qed.

(** * Builders ending in assertion clauses *)

Definition SpecA {A} (m : M A) (n : Z) (Q : A -> Z -> cnf -> cnf -> Prop) : Prop :=
  exists a n' defs asrt ext,
    (forall cs, m (mk n cs) = (a, mk n' (cs ++ defs ++ asrt)))
    /\ Defines n n' defs ext /\ vars_upto n' asrt /\ Q a n' defs asrt.

Lemma specA_bind {A B} (m : M A) (f : A -> M B) n Q1 (Q : B -> Z -> cnf -> cnf -> Prop) :
  Spec m n Q1 ->
  (forall a n1 new1, n <= n1 -> Q1 a n1 new1 ->
     SpecA (f a) n1 (fun b n2 defs asrt => Q b n2 (new1 ++ defs) asrt)) ->
  SpecA (bind m f) n Q.
Proof.
  intros (a & n1 & new1 & e1 & R1 & D1 & H1) Hf.
  pose proof (def_range _ _ _ _ D1) as Rg.
  destruct (Hf a n1 new1 ltac:(lia) H1) as (b & n2 & defs & asrt & e2 & R2 & D2 & V2 & H2).
  exists b, n2, (new1 ++ defs), asrt, (fun s => e2 (e1 s)). split; [|split; [|split]].
  - intros cs. unfold bind. rewrite R1, R2. now rewrite <- !app_assoc.
  - now apply (defines_seq n n1 n2).
  - exact V2.
  - exact H2.
Qed.

Lemma specA_prefix {B} (m m' : M B) n n1 new0 ext0 (Q : B -> Z -> cnf -> cnf -> Prop) :
  (forall cs, m (mk n cs) = m' (mk n1 (cs ++ new0))) ->
  Defines n n1 new0 ext0 ->
  SpecA m' n1 (fun b n2 defs asrt => Q b n2 (new0 ++ defs) asrt) ->
  SpecA m n Q.
Proof.
  intros Hrun D0 (b & n2 & defs & asrt & e2 & R2 & D2 & V2 & H2).
  exists b, n2, (new0 ++ defs), asrt, (fun s => e2 (ext0 s)). split; [|split; [|split]].
  - intros cs. rewrite Hrun, R2. now rewrite <- !app_assoc.
  - now apply (defines_seq n n1 n2).
  - exact V2.
  - exact H2.
Qed.

Lemma specA_conseq {A} (m : M A) n (Q Q' : A -> Z -> cnf -> cnf -> Prop) :
  SpecA m n Q ->
  (forall a n' defs asrt, n <= n' -> Q a n' defs asrt -> Q' a n' defs asrt) ->
  SpecA m n Q'.
Proof.
  intros (a & n1 & defs & asrt & e1 & R1 & D1 & V1 & H1) Himp.
  exists a, n1, defs, asrt, e1. split; [assumption|]. split; [assumption|].
  split; [assumption|]. apply Himp; [|assumption]. pose proof (def_range _ _ _ _ D1). lia.
Qed.

Lemma specA_emit {B} (c : cnf) (b : B) n (Q : B -> Z -> cnf -> cnf -> Prop) :
  0 <= n -> vars_upto n c -> Q b n [] c -> SpecA (emit c ;;; ret b) n Q.
Proof.
  intros Hn Hv HQ. exists b, n, [], c, (fun s => s). split; [|split; [|split]].
  - intros cs. reflexivity.
  - now apply defines_nil.
  - exact Hv.
  - exact HQ.
Qed.

(** What a successful request means: [defs] define the auxiliary variables,
    [asrt] holds exactly when the relation [P] does. *)
Definition card_post (P : asg -> Prop) (b : bool) (n' : Z) (defs asrt : cnf) : Prop :=
  b = true /\ forall s, sat s defs = true -> (sat s asrt = true <-> P s).

(** * Unit clauses built from digit lists *)

Definition digit_cls (ds bs : list Z) : cnf :=
  map (fun p => [fst p * snd p]) (combine ds bs).

Lemma digit_lit s d b : digit d -> b <> 0 ->
  (lit_true s (d * b) = true <-> lit_true s b = (0 <? d)).
Proof.
  intros [->| ->] Hb.
  - rewrite Z.mul_1_l. reflexivity.
  - replace (-1 * b) with (- b) by lia. rewrite lit_true_opp by assumption.
    change (0 <? -1) with false. destruct (lit_true s b); cbn; intuition congruence.
Qed.

Lemma digit_cls_sat s ds : forall bs,
  length ds = length bs -> Forall digit ds -> Forall (fun b => b <> 0) bs ->
  (sat s (digit_cls ds bs) = true <-> lits s bs = map (Z.ltb 0) ds).
Proof.
  induction ds as [|d ds IH]; intros [|b bs] Hl Hd Hb; try discriminate.
  - cbn. intuition.
  - inversion Hd; subst. inversion Hb; subst. cbn [length] in Hl.
    unfold digit_cls. cbn [combine map fst snd lits]. rewrite sat_cons, andb_true_iff.
    fold (digit_cls ds bs). fold (lits s bs). rewrite IH by (assumption || lia).
    unfold csat. cbn [existsb]. rewrite orb_false_r, digit_lit by assumption.
    split.
    + intros [E1 E2]. now f_equal.
    + intros E0. injection E0 as E1 E2. now split.
Qed.

Lemma digit_cls_vars n ds : forall bs,
  Forall digit ds -> Forall (inr n) bs -> vars_upto n (digit_cls ds bs).
Proof.
  induction ds as [|d ds IH]; intros [|b bs] Hd Hb;
    try (intros c l Hc; cbn in Hc; contradiction).
  inversion Hd as [|? ? Hd1 Hd2]; subst. inversion Hb as [|? ? Hb1 Hb2]; subst.
  unfold digit_cls. cbn [combine map fst snd]. fold (digit_cls ds bs).
  intros c0 l0 [<-|Hc] Hl0.
  - destruct Hl0 as [<-|[]]. unfold inr in Hb1. destruct Hd1 as [->| ->]; lia.
  - now apply (IH bs Hd2 Hb2 c0 l0).
Qed.

Lemma Forall_inr_nz n ls : Forall (inr n) ls -> Forall (fun b => b <> 0) ls.
Proof. apply Forall_impl. intros a. apply inr_nz. Qed.

Lemma rev_repeat {A} (x : A) k : rev (repeat x k) = repeat x k.
Proof.
  induction k as [|k IH]; [reflexivity|].
  cbn [repeat rev]. rewrite IH. clear IH.
  induction k as [|k IH]; [reflexivity|]. cbn [repeat app]. now rewrite IH.
Qed.

(** * Saturated value against a constant that fits in [L] bits *)

Lemma satv_eq_iff L N k :
  0 <= N -> 0 <= k < 2 ^ Z.of_nat L -> (satv (S L) N = k <-> N = k).
Proof.
  intros HN Hk. unfold satv. pose proof (pow2_pos L) as HM.
  pose proof (Z.mod_pos_bound N (2 ^ Z.of_nat L) HM) as B.
  destruct (2 ^ Z.of_nat L <=? N) eqn:E.
  - lia.
  - rewrite Z.mod_small by lia. lia.
Qed.

Lemma satv_lt_iff L N k :
  0 <= N -> 0 <= k < 2 ^ Z.of_nat L -> (satv (S L) N < k <-> N < k).
Proof.
  intros HN Hk. unfold satv. pose proof (pow2_pos L) as HM.
  pose proof (Z.mod_pos_bound N (2 ^ Z.of_nat L) HM) as B.
  destruct (2 ^ Z.of_nat L <=? N) eqn:E.
  - lia.
  - rewrite Z.mod_small by lia. lia.
Qed.

Lemma satv_gt_iff L N k :
  0 <= N -> 0 <= k < 2 ^ Z.of_nat L -> (k < satv (S L) N <-> k < N).
Proof.
  intros HN Hk. unfold satv. pose proof (pow2_pos L) as HM.
  pose proof (Z.mod_pos_bound N (2 ^ Z.of_nat L) HM) as B.
  destruct (2 ^ Z.of_nat L <=? N) eqn:E.
  - lia.
  - rewrite Z.mod_small by lia. lia.
Qed.

(** * [assert_k_of_n] *)

Lemma pow2_nat_Z (p : nat) : Z.of_nat (2 ^ p) = 2 ^ Z.of_nat p.
Proof. rewrite Nat2Z.inj_pow. reflexivity. Qed.

Lemma assert_k_of_n_spec n k vs :
  0 <= n -> 0 <= k -> vs <> [] -> Forall (inr n) vs ->
  SpecA (assert_k_of_n k vs) n (card_post (fun s => count s vs = k)).
Proof.
  intros Hn Hk Hne Hvs. unfold assert_k_of_n.
  pose proof (int_to_binary_spec k Hk) as Hspec. cbv zeta in Hspec.
  destruct Hspec as (Hdig & Hval & Hlt & Hge & Hz).
  set (bin := int_to_binary k) in *. set (L := length bin) in *.
  eapply specA_bind; [apply pop_count_spec; assumption|].
  intros o n1 new1 Hle (sb & -> & Hlsb & Hrsb & Hsem).
  set (p := clog2 (length vs)) in *.
  destruct (clog2_spec (length vs)) as [Hp1 _]. fold p in Hp1.
  destruct (length sb <? L)%nat eqn:E.
  - (* k needs more bits than the count has *)
    apply Nat.ltb_lt in E.
    destruct sb as [|b sb']; [cbn [wd length] in Hlsb; lia|].
    inversion Hrsb as [|? ? Hb _]; subst.
    apply specA_emit; [lia| |].
    { apply vars_upto_Forall. repeat constructor; unfold inr in *; lia. }
    split; [reflexivity|]. intros s Hs. rewrite app_nil_r in Hs.
    unfold sat, csat. cbn [forallb existsb]. rewrite lit_true_opp by (eapply inr_nz; eassumption).
    split; [destruct (lit_true s b); cbn; discriminate|].
    intros Hc. exfalso.
    pose proof (count_bounds s vs) as HN.
    assert (HpL : (S p < L)%nat) by (rewrite Hlsb in E; cbn [wd] in E; lia).
    assert (Hk0 : 0 < k).
    { destruct (Z.eq_dec k 0) as [E0|E0]; [|lia]. specialize (Hz E0). unfold L in HpL.
      rewrite Hz in HpL. cbn [length] in HpL. lia. }
    specialize (Hge Hk0).
    apply Nat2Z.inj_le in Hp1. rewrite pow2_nat_Z in Hp1.
    assert (2 ^ Z.of_nat (S p) <= 2 ^ (Z.of_nat L - 1)) by (apply Z.pow_le_mono_r; lia).
    rewrite pow2_S in *. pose proof (pow2_pos p). lia.
  - apply Nat.ltb_ge in E.
    assert (Hfn : firstn (length sb) (rev bin) = rev bin).
    { apply firstn_all2. rewrite rev_length. exact E. }
    rewrite Hfn, rev_app_distr, rev_involutive, rev_repeat, rev_length.
    fold L. set (pad := repeat (-1) (length sb - L) ++ bin).
    fold (digit_cls pad sb).
    assert (Hpd : Forall digit pad).
    { apply Forall_app. split; [|assumption]. apply Forall_forall. intros x Hx.
      apply repeat_spec in Hx. right. exact Hx. }
    assert (Hpl : length pad = length sb).
    { unfold pad. rewrite app_length, repeat_length. fold L. lia. }
    assert (Hpv : pmv pad = k).
    { unfold pmv, pad. rewrite map_app, map_repeat. change (0 <? -1) with false.
      rewrite msbv_repeat_false. exact Hval. }
    apply specA_emit; [lia| |].
    { now apply digit_cls_vars. }
    split; [reflexivity|]. intros s Hs. rewrite app_nil_r in Hs.
    rewrite digit_cls_sat by (try assumption; eapply Forall_inr_nz; eassumption).
    specialize (Hsem s Hs). pose proof (count_bounds s vs) as HN.
    rewrite <- (satv_eq_iff L (count s vs) k) by lia. rewrite <- Hsem. split.
    + intros H. rewrite H. exact Hpv.
    + intros H. apply msbv_inj; [now rewrite lits_length, map_length|].
      rewrite H. symmetry. exact Hpv.
Qed.
