(** Proofs about the cardinality encoders of [Core/Card.v]:
    [assert_k_of_n] (exactly k), [inequality] (fewer / more than k). *)
From Coq Require Import ZArith List Bool Lia ZifyBool Arith.
From SP Require Import Base.Sat Base.Bits Core.CnfModel Core.CnfProofs
  Core.PopCountProofs Core.Card.
Import ListNotations.
Open Scope Z_scope.

(** * [int_to_binary] *)

Definition digit (d : Z) : Prop := d = 1 \/ d = -1.
(** Value of an MSB-first list of digits in {1, -1} (1 = set bit). *)
Definition pmv (ds : list Z) : Z := msbv (map (Z.ltb 0) ds).

Lemma to_bin_aux_spec f : forall v acc,
  0 <= v < 2 ^ Z.of_nat f ->
  exists ds, to_bin_aux f v acc = ds ++ acc /\ Forall digit ds /\ pmv ds = v /\
    (v = 0 -> ds = []) /\
    (0 < v -> 2 ^ (Z.of_nat (length ds) - 1) <= v < 2 ^ Z.of_nat (length ds)).
Proof.
  induction f as [|f IH]; intros v acc Hv.
  - change (Z.of_nat 0) with 0 in Hv. rewrite Z.pow_0_r in Hv.
    exists []. cbn [to_bin_aux app]. repeat split; try constructor; try lia.
    unfold pmv. cbn. lia.
  - cbn [to_bin_aux]. destruct (v =? 0) eqn:E.
    + exists []. cbn [app]. repeat split; try constructor; try lia.
      unfold pmv. cbn. lia.
    + rewrite pow2_S in Hv.
      set (d := if v mod 2 =? 0 then -1 else 1).
      destruct (IH (v / 2) (d :: acc)) as (ds & Hrun & Hdig & Hval & Hz & Hpos).
      { split; [apply Z.div_pos; lia|]. apply Z.div_lt_upper_bound; lia. }
      exists (ds ++ [d]). rewrite Hrun, <- app_assoc. split; [reflexivity|].
      pose proof (Z.div_mod v 2 ltac:(lia)) as Hdm.
      pose proof (Z.mod_pos_bound v 2 ltac:(lia)) as Hmb.
      split.
      { apply Forall_app. split; [assumption|]. constructor; [|constructor].
        unfold digit, d. destruct (v mod 2 =? 0); lia. }
      split.
      { unfold pmv in *. rewrite map_app, msbv_app, Hval. cbn [map length].
        rewrite msbv_cons, msbv_nil. cbn [length]. change (Z.of_nat 0) with 0.
        change (Z.of_nat 1) with 1. rewrite Z.pow_0_r, Z.pow_1_r.
        unfold d. destruct (v mod 2 =? 0) eqn:E2; cbn [Z.ltb Z.compare Z.b2z]; lia. }
      split; [lia|]. intros _. rewrite app_length. cbn [length].
      destruct (Z.eq_dec (v / 2) 0) as [E0|E0].
      * rewrite (Hz E0). cbn [length Nat.add]. change (Z.of_nat 1 - 1) with 0.
        change (Z.of_nat 1) with 1. rewrite Z.pow_0_r, Z.pow_1_r. lia.
      * assert (Hp : 0 < v / 2).
        { pose proof (Z.div_pos v 2 ltac:(lia) ltac:(lia)). lia. }
        specialize (Hpos Hp).
        replace (Z.of_nat (length ds + 1)) with (Z.succ (Z.of_nat (length ds))) by lia.
        rewrite Z.pow_succ_r by lia.
        replace (Z.succ (Z.of_nat (length ds)) - 1) with (Z.succ (Z.of_nat (length ds) - 1)) by lia.
        assert (0 <= Z.of_nat (length ds) - 1).
        { destruct ds; [|cbn [length]; lia]. cbn [length] in Hpos.
          change (Z.of_nat 0) with 0 in Hpos. rewrite Z.pow_0_r in Hpos. lia. }
        rewrite Z.pow_succ_r by lia. lia.
Qed.

Lemma int_to_binary_spec k :
  0 <= k ->
  let bin := int_to_binary k in
  Forall digit bin /\ pmv bin = k /\ k < 2 ^ Z.of_nat (length bin) /\
  (0 < k -> 2 ^ (Z.of_nat (length bin) - 1) <= k) /\
  (k = 0 -> bin = []).
Proof.
  intros Hk bin. unfold bin, int_to_binary.
  destruct (to_bin_aux_spec (S (Z.to_nat (Z.log2 k) + 1)) k []) as (ds & Hrun & Hdig & Hval & Hz & Hpos).
  { split; [assumption|]. destruct (Z.eq_dec k 0) as [->|Hk0].
    - apply pow2_pos.
    - pose proof (Z.log2_spec k ltac:(lia)) as [_ H]. pose proof (Z.log2_nonneg k).
      eapply Z.lt_le_trans; [exact H|]. apply Z.pow_le_mono_r; lia. }
  rewrite Hrun, app_nil_r. split; [assumption|]. split; [assumption|]. split.
  - destruct (Z.eq_dec k 0) as [->|Hk0]; [apply pow2_pos|]. apply Hpos. lia.
  - split; [intros H; now apply Hpos|assumption].
Qed.

(** * Builders ending in assertion clauses *)

Definition SpecA {A} (m : M A) (n : Z) (Q : A -> Z -> cnf -> cnf -> Prop) : Prop :=
  exists a n' defs asrt ext,
    (forall cs, m (mk n cs) = (a, mk n' (cs ++ defs ++ asrt)))
    /\ Defines n n' defs ext /\ vars_upto n' asrt /\ Q a n' defs asrt.

Lemma specA_bind {A B} (m : M A) (f : A -> M B) n Q1 (Q : B -> Z -> cnf -> cnf -> Prop) :
  Spec m n Q1 ->
  (forall a n1 new1, n <= n1 -> Q1 a n1 new1 ->
     SpecA (f a) n1 (fun b n2 defs asrt => Q b n2 (new1 ++ defs) asrt)) ->
  SpecA (bind m f) n Q.
Proof.
  intros (a & n1 & new1 & e1 & R1 & D1 & H1) Hf.
  pose proof (def_range _ _ _ _ D1) as Rg.
  destruct (Hf a n1 new1 ltac:(lia) H1) as (b & n2 & defs & asrt & e2 & R2 & D2 & V2 & H2).
  exists b, n2, (new1 ++ defs), asrt, (fun s => e2 (e1 s)). split; [|split; [|split]].
  - intros cs. unfold bind. rewrite R1, R2. now rewrite <- !app_assoc.
  - now apply (defines_seq n n1 n2).
  - exact V2.
  - exact H2.
Qed.

Lemma specA_prefix {B} (m m' : M B) n n1 new0 ext0 (Q : B -> Z -> cnf -> cnf -> Prop) :
  (forall cs, m (mk n cs) = m' (mk n1 (cs ++ new0))) ->
  Defines n n1 new0 ext0 ->
  SpecA m' n1 (fun b n2 defs asrt => Q b n2 (new0 ++ defs) asrt) ->
  SpecA m n Q.
Proof.
  intros Hrun D0 (b & n2 & defs & asrt & e2 & R2 & D2 & V2 & H2).
  exists b, n2, (new0 ++ defs), asrt, (fun s => e2 (ext0 s)). split; [|split; [|split]].
  - intros cs. rewrite Hrun, R2. now rewrite <- !app_assoc.
  - now apply (defines_seq n n1 n2).
  - exact V2.
  - exact H2.
Qed.

Lemma specA_conseq {A} (m : M A) n (Q Q' : A -> Z -> cnf -> cnf -> Prop) :
  SpecA m n Q ->
  (forall a n' defs asrt, n <= n' -> Q a n' defs asrt -> Q' a n' defs asrt) ->
  SpecA m n Q'.
Proof.
  intros (a & n1 & defs & asrt & e1 & R1 & D1 & V1 & H1) Himp.
  exists a, n1, defs, asrt, e1. split; [assumption|]. split; [assumption|].
  split; [assumption|]. apply Himp; [|assumption]. pose proof (def_range _ _ _ _ D1). lia.
Qed.

Lemma specA_emit {B} (c : cnf) (b : B) n (Q : B -> Z -> cnf -> cnf -> Prop) :
  0 <= n -> vars_upto n c -> Q b n [] c -> SpecA (emit c ;;; ret b) n Q.
Proof.
  intros Hn Hv HQ. exists b, n, [], c, (fun s => s). split; [|split; [|split]].
  - intros cs. reflexivity.
  - now apply defines_nil.
  - exact Hv.
  - exact HQ.
Qed.

(** What a successful request means: [defs] define the auxiliary variables,
    [asrt] holds exactly when the relation [P] does. *)
Definition card_post (P : asg -> Prop) (b : bool) (n' : Z) (defs asrt : cnf) : Prop :=
  b = true /\ forall s, sat s defs = true -> (sat s asrt = true <-> P s).

(** * Unit clauses built from digit lists *)

Definition digit_cls (ds bs : list Z) : cnf :=
  map (fun p => [fst p * snd p]) (combine ds bs).

Lemma digit_lit s d b : digit d -> b <> 0 ->
  (lit_true s (d * b) = true <-> lit_true s b = (0 <? d)).
Proof.
  intros [->| ->] Hb.
  - rewrite Z.mul_1_l. reflexivity.
  - replace (-1 * b) with (- b) by lia. rewrite lit_true_opp by assumption.
    change (0 <? -1) with false. destruct (lit_true s b); cbn; intuition congruence.
Qed.

Lemma digit_cls_sat s ds : forall bs,
  length ds = length bs -> Forall digit ds -> Forall (fun b => b <> 0) bs ->
  (sat s (digit_cls ds bs) = true <-> lits s bs = map (Z.ltb 0) ds).
Proof.
  induction ds as [|d ds IH]; intros [|b bs] Hl Hd Hb; try discriminate.
  - cbn. intuition.
  - inversion Hd; subst. inversion Hb; subst. cbn [length] in Hl.
    unfold digit_cls. cbn [combine map fst snd lits]. rewrite sat_cons, andb_true_iff.
    fold (digit_cls ds bs). fold (lits s bs). rewrite IH by (assumption || lia).
    unfold csat. cbn [existsb]. rewrite orb_false_r, digit_lit by assumption.
    split.
    + intros [E1 E2]. now f_equal.
    + intros E0. injection E0 as E1 E2. now split.
Qed.

Lemma digit_cls_vars n ds : forall bs,
  Forall digit ds -> Forall (inr n) bs -> vars_upto n (digit_cls ds bs).
Proof.
  induction ds as [|d ds IH]; intros [|b bs] Hd Hb;
    try (intros c l Hc; cbn in Hc; contradiction).
  inversion Hd as [|? ? Hd1 Hd2]; subst. inversion Hb as [|? ? Hb1 Hb2]; subst.
  unfold digit_cls. cbn [combine map fst snd]. fold (digit_cls ds bs).
  intros c0 l0 [<-|Hc] Hl0.
  - destruct Hl0 as [<-|[]]. unfold inr in Hb1. destruct Hd1 as [->| ->]; lia.
  - now apply (IH bs Hd2 Hb2 c0 l0).
Qed.

Lemma Forall_inr_nz n ls : Forall (inr n) ls -> Forall (fun b => b <> 0) ls.
Proof. apply Forall_impl. intros a. apply inr_nz. Qed.

Lemma rev_repeat {A} (x : A) k : rev (repeat x k) = repeat x k.
Proof.
  induction k as [|k IH]; [reflexivity|].
  cbn [repeat rev]. rewrite IH. clear IH.
  induction k as [|k IH]; [reflexivity|]. cbn [repeat app]. now rewrite IH.
Qed.

Lemma map_repeat' {A B} (f : A -> B) x k : map f (repeat x k) = repeat (f x) k.
Proof. induction k as [|k IH]; [reflexivity|]. cbn [repeat map]. now rewrite IH. Qed.

(** * Saturated value against a constant that fits in [L] bits *)

Lemma satv_eq_iff L N k :
  0 <= N -> 0 <= k < 2 ^ Z.of_nat L -> (satv (S L) N = k <-> N = k).
Proof.
  intros HN Hk. unfold satv. pose proof (pow2_pos L) as HM.
  pose proof (Z.mod_pos_bound N (2 ^ Z.of_nat L) HM) as B.
  destruct (2 ^ Z.of_nat L <=? N) eqn:E.
  - lia.
  - rewrite Z.mod_small by lia. lia.
Qed.

Lemma satv_lt_iff L N k :
  0 <= N -> 0 <= k < 2 ^ Z.of_nat L -> (satv (S L) N < k <-> N < k).
Proof.
  intros HN Hk. unfold satv. pose proof (pow2_pos L) as HM.
  pose proof (Z.mod_pos_bound N (2 ^ Z.of_nat L) HM) as B.
  destruct (2 ^ Z.of_nat L <=? N) eqn:E.
  - lia.
  - rewrite Z.mod_small by lia. lia.
Qed.

Lemma satv_gt_iff L N k :
  0 <= N -> 0 <= k < 2 ^ Z.of_nat L -> (k < satv (S L) N <-> k < N).
Proof.
  intros HN Hk. unfold satv. pose proof (pow2_pos L) as HM.
  pose proof (Z.mod_pos_bound N (2 ^ Z.of_nat L) HM) as B.
  destruct (2 ^ Z.of_nat L <=? N) eqn:E.
  - lia.
  - rewrite Z.mod_small by lia. lia.
Qed.

(** * [assert_k_of_n] *)

Lemma pow2_nat_Z (p : nat) : Z.of_nat (2 ^ p) = 2 ^ Z.of_nat p.
Proof. rewrite Nat2Z.inj_pow. reflexivity. Qed.

Lemma assert_k_of_n_spec n k vs :
  0 <= n -> 0 <= k -> vs <> [] -> Forall (inr n) vs ->
  SpecA (assert_k_of_n k vs) n (card_post (fun s => count s vs = k)).
Proof.
  intros Hn Hk Hne Hvs. unfold assert_k_of_n.
  pose proof (int_to_binary_spec k Hk) as Hspec. cbv zeta in Hspec.
  destruct Hspec as (Hdig & Hval & Hlt & Hge & Hz).
  remember (int_to_binary k) as bin eqn:Ebin. remember (length bin) as L eqn:EL.
  eapply specA_bind; [apply pop_count_spec; assumption|].
  intros o n1 new1 Hle (sb & -> & Hlsb & Hrsb & Hsem).
  set (p := clog2 (length vs)) in *.
  destruct (clog2_spec (length vs)) as [Hp1 _]. fold p in Hp1.
  destruct (length sb <? L)%nat eqn:E.
  - (* k needs more bits than the count has *)
    apply Nat.ltb_lt in E.
    destruct sb as [|b sb']; [cbn [wd length] in Hlsb; lia|].
    pose proof (Forall_inv Hrsb) as Hb.
    apply specA_emit; [lia| |].
    { apply vars_upto_Forall. repeat constructor; unfold inr in *; lia. }
    split; [reflexivity|]. intros s Hs. rewrite app_nil_r in Hs.
    unfold sat, csat. cbn [forallb existsb]. rewrite lit_true_opp by (eapply inr_nz; eassumption).
    split; [destruct (lit_true s b); cbn; discriminate|].
    intros Hc. exfalso.
    pose proof (count_bounds s vs) as HN.
    assert (HpL : (S p < L)%nat) by (rewrite Hlsb in E; cbn [wd] in E; lia).
    assert (Hk0 : 0 < k).
    { destruct (Z.eq_dec k 0) as [E0|E0]; [|lia]. specialize (Hz E0). rewrite EL, Hz in HpL.
      cbn [length] in HpL. lia. }
    specialize (Hge Hk0).
    apply Nat2Z.inj_le in Hp1. rewrite pow2_nat_Z in Hp1.
    assert (2 ^ Z.of_nat (S p) <= 2 ^ (Z.of_nat L - 1)) by (apply Z.pow_le_mono_r; lia).
    rewrite pow2_S in *. pose proof (pow2_pos p). lia.
  - apply Nat.ltb_ge in E.
    assert (Hfn : firstn (length sb) (rev bin) = rev bin).
    { apply firstn_all2. rewrite rev_length, <- EL. exact E. }
    rewrite Hfn, rev_app_distr, rev_involutive, rev_repeat, rev_length.
    rewrite <- EL. set (pad := repeat (-1) (length sb - L) ++ bin).
    fold (digit_cls pad sb).
    assert (Hpd : Forall digit pad).
    { apply Forall_app. split; [|assumption]. apply Forall_forall. intros x Hx.
      apply repeat_spec in Hx. right. exact Hx. }
    assert (Hpl : length pad = length sb).
    { unfold pad. rewrite app_length, repeat_length. lia. }
    assert (Hpv : pmv pad = k).
    { unfold pmv, pad. rewrite map_app, map_repeat'. change (0 <? -1) with false.
      rewrite msbv_repeat_false. exact Hval. }
    apply specA_emit; [lia| |].
    { now apply digit_cls_vars. }
    split; [reflexivity|]. intros s Hs. rewrite app_nil_r in Hs.
    rewrite digit_cls_sat by (try assumption; eapply Forall_inr_nz; eassumption).
    specialize (Hsem s Hs). pose proof (count_bounds s vs) as HN.
    rewrite <- (satv_eq_iff L (count s vs) k) by lia. rewrite <- Hsem. split.
    + intros H. rewrite H. exact Hpv.
    + intros H. apply msbv_inj; [now rewrite lits_length, map_length|].
      rewrite H. symmetry. exact Hpv.
Qed.

(** * Zero padding *)

Lemma spec_fresh_zero {B} a (rest : list Z -> M B) n Q :
  0 <= n ->
  Spec (rest (zseq (n + 1) a)) (n + Z.of_nat a)
       (fun b n2 new2 => Q b n2 (zero_cls (zseq (n + 1) a) ++ new2)) ->
  Spec (zp <- nfresh a ;; zero_out zp ;;; rest zp) n Q.
Proof.
  intros Hn H. destruct (zero_cls_defines n a Hn) as [e0 D0].
  eapply (spec_prefix _ _ n (n + Z.of_nat a) _ e0); [|exact D0|exact H].
  intros cs. unfold bind. rewrite nfresh_run. unfold zero_out. rewrite emit_run. reflexivity.
Qed.

Lemma msbv_zeros_app s zs xs :
  Forall (fun v => lit_true s v = false) zs ->
  msbv (lits s (zs ++ xs)) = msbv (lits s xs).
Proof.
  induction 1 as [|z zs Hz _ IH]; [reflexivity|].
  cbn [app lits map]. rewrite Hz. fold (lits s (zs ++ xs)). now rewrite msbv_false_cons.
Qed.

Lemma zseq_inr n a m : 0 <= n -> n + Z.of_nat a <= m -> Forall (inr m) (zseq (n + 1) a).
Proof.
  intros Hn Hm. apply Forall_forall. intros v Hv. apply zseq_In in Hv. unfold inr. lia.
Qed.

Definition msl_post (n : Z) (xs ys : list Z) (r : list Z * list Z) (n' : Z) (new : cnf)
  : Prop :=
  length (fst r) = length (snd r) /\
  Forall (inr n') (fst r) /\ Forall (inr n') (snd r) /\
  (if Nat.eqb (length xs) (length ys) then r = (xs, ys)
   else length (fst r) = S (Nat.max (length xs) (length ys))) /\
  forall s, sat s new = true ->
    msbv (lits s (fst r)) = msbv (lits s xs) /\ msbv (lits s (snd r)) = msbv (lits s ys).

Lemma make_same_length_spec n xs ys :
  0 <= n -> Forall (inr n) xs -> Forall (inr n) ys ->
  Spec (make_same_length xs ys) n (msl_post n xs ys).
Proof.
  intros Hn Hxs Hys. unfold make_same_length, msl_post.
  destruct (Nat.eqb (length xs) (length ys)) eqn:E.
  - apply Nat.eqb_eq in E. apply spec_ret; [assumption|]. cbn [fst snd].
    repeat (split; try assumption); reflexivity.
  - apply Nat.eqb_neq in E. destruct (Nat.ltb (length xs) (length ys)) eqn:E2.
    + apply Nat.ltb_lt in E2.
      set (a := (length ys - length xs + 1)%nat).
      eapply spec_fresh_zero; [assumption|].
      eapply spec_fresh_zero; [lia|].
      apply spec_ret; [lia|]. cbn [fst snd].
      split; [rewrite !app_length, !zseq_length; lia|].
      split. { apply Forall_app. split; [apply zseq_inr; lia|]. eapply Forall_inr_le; [|eassumption]. lia. }
      split. { apply Forall_app. split; [apply zseq_inr; lia|]. eapply Forall_inr_le; [|eassumption]. lia. }
      split; [rewrite app_length, zseq_length; lia|].
      intros s Hs. rewrite app_nil_r, sat_app, andb_true_iff in Hs. destruct Hs as [Hs1 Hs2].
      apply zero_cls_sat in Hs1; [|apply zseq_pos; lia].
      apply zero_cls_sat in Hs2; [|apply zseq_pos; lia].
      split; now apply msbv_zeros_app.
    + apply Nat.ltb_ge in E2.
      set (a := (length xs - length ys + 1)%nat).
      eapply spec_fresh_zero; [assumption|].
      eapply spec_fresh_zero; [lia|].
      apply spec_ret; [lia|]. cbn [fst snd].
      split; [rewrite !app_length, !zseq_length; lia|].
      split. { apply Forall_app. split; [apply zseq_inr; lia|]. eapply Forall_inr_le; [|eassumption]. lia. }
      split. { apply Forall_app. split; [apply zseq_inr; lia|]. eapply Forall_inr_le; [|eassumption]. lia. }
      split; [rewrite app_length, zseq_length; lia|].
      intros s Hs. rewrite app_nil_r, sat_app, andb_true_iff in Hs. destruct Hs as [Hs1 Hs2].
      apply zero_cls_sat in Hs1; [|apply zseq_pos; lia].
      apply zero_cls_sat in Hs2; [|apply zseq_pos; lia].
      split; now apply msbv_zeros_app.
Qed.

(** The optional sign bits of [inequality]. *)
Definition sign_pad (c : bool) (p : list Z * list Z) : M (list Z * list Z) :=
  if c then
    z1 <- nfresh 1 ;; zero_out z1 ;;;
    z2 <- nfresh 1 ;; zero_out z2 ;;;
    ret (z1 ++ fst p, z2 ++ snd p)
  else ret p.

Definition sign_pad_post (c : bool) (p r : list Z * list Z) (n' : Z) (new : cnf) : Prop :=
  (if c then length (fst r) = S (length (fst p)) /\ length (snd r) = S (length (snd p))
   else r = p) /\
  Forall (inr n') (fst r) /\ Forall (inr n') (snd r) /\
  forall s, sat s new = true ->
    msbv (lits s (fst r)) = msbv (lits s (fst p)) /\
    msbv (lits s (snd r)) = msbv (lits s (snd p)).

Lemma sign_pad_spec n c p :
  0 <= n -> Forall (inr n) (fst p) -> Forall (inr n) (snd p) ->
  Spec (sign_pad c p) n (sign_pad_post c p).
Proof.
  intros Hn Hx Hy. unfold sign_pad, sign_pad_post. destruct c.
  - eapply spec_fresh_zero; [assumption|].
    eapply spec_fresh_zero; [lia|].
    apply spec_ret; [lia|]. cbn [fst snd].
    split; [split; reflexivity|].
    split. { apply Forall_app. split; [apply zseq_inr; lia|]. eapply Forall_inr_le; [|eassumption]. lia. }
    split. { apply Forall_app. split; [apply zseq_inr; lia|]. eapply Forall_inr_le; [|eassumption]. lia. }
    intros s Hs. rewrite app_nil_r, sat_app, andb_true_iff in Hs. destruct Hs as [Hs1 Hs2].
    apply zero_cls_sat in Hs1; [|apply zseq_pos; lia].
    apply zero_cls_sat in Hs2; [|apply zseq_pos; lia].
    split; now apply msbv_zeros_app.
  - apply spec_ret; [assumption|]. repeat (split; try assumption); reflexivity.
Qed.

(** * Two's complement negation *)

Definition flip_cls (fl bits : list Z) : cnf :=
  flat_map (fun p => [[fst p; snd p]; [- fst p; - snd p]]) (combine fl bits).

Lemma flip_gate_sat s f b : 0 < f -> b <> 0 ->
  (sat s [[f; b]; [- f; - b]] = true <-> s f = negb (lit_true s b)).
Proof.
  intros Hf Hb. unfold sat, csat. cbn [forallb existsb].
  rewrite (lit_true_pos s f Hf), (lit_true_neg s f Hf), lit_true_opp by assumption.
  destruct (s f), (lit_true s b); cbn; intuition congruence.
Qed.

Lemma flip_cls_defines bits : forall m n0,
  0 <= n0 <= m -> Forall (inr n0) bits ->
  exists ext, Defines m (m + Z.of_nat (length bits))
                (flip_cls (zseq (m + 1) (length bits)) bits) ext.
Proof.
  induction bits as [|b bits IH]; intros m n0 Hm Hb.
  - exists (fun s => s). cbn [length zseq flip_cls combine flat_map].
    replace (m + Z.of_nat 0) with m by lia. apply defines_nil. lia.
  - inversion Hb as [|? ? Hb1 Hb2]; subst.
    destruct (IH (m + 1) n0 ltac:(lia) Hb2) as [e2 D2].
    pose proof (inr_nz _ _ Hb1) as Hb0.
    destruct (gate_defines m [[m + 1; b]; [- (m + 1); - b]]
                (fun s => negb (lit_true s b))) as [e1 D1]; try lia.
    { apply vars_upto_Forall. unfold inr in *. repeat constructor; lia. }
    { intros s t A. f_equal. apply (lit_true_agree m); [assumption|]. unfold inr in *. lia. }
    { intros s. apply flip_gate_sat; [lia|assumption]. }
    exists (fun s => e2 (e1 s)). cbn [length zseq]. unfold flip_cls. cbn [combine flat_map fst snd].
    fold (flip_cls (zseq (m + 1 + 1) (length bits)) bits).
    replace (m + Z.of_nat (S (length bits))) with (m + 1 + Z.of_nat (length bits)) by lia.
    change ([m + 1; b] :: [- (m + 1); - b] :: flip_cls (zseq (m + 1 + 1) (length bits)) bits)
      with ([[m + 1; b]; [- (m + 1); - b]] ++ flip_cls (zseq (m + 1 + 1) (length bits)) bits).
    now apply (defines_seq m (m + 1)).
Qed.

Lemma flip_cls_sat s fl : forall bits,
  length fl = length bits -> Forall (fun v => 0 < v) fl -> Forall (fun b => b <> 0) bits ->
  sat s (flip_cls fl bits) = true -> lits s fl = map negb (lits s bits).
Proof.
  induction fl as [|f fl IH]; intros [|b bits] Hl Hf Hb Hs; try discriminate; [reflexivity|].
  inversion Hf; subst. inversion Hb; subst. cbn [length] in Hl.
  unfold flip_cls in Hs. cbn [combine flat_map fst snd] in Hs.
  change (sat s ([[f; b]; [- f; - b]] ++ flip_cls fl bits) = true) in Hs.
  rewrite sat_app, andb_true_iff in Hs. destruct Hs as [Hs1 Hs2].
  apply flip_gate_sat in Hs1; try assumption.
  cbn [lits map]. rewrite lit_true_pos by assumption. rewrite Hs1. f_equal.
  apply IH; try assumption. lia.
Qed.

Lemma lsbv_negb bs : lsbv (map negb bs) = 2 ^ Z.of_nat (length bs) - 1 - lsbv bs.
Proof.
  induction bs as [|b bs IH].
  - cbn [map lsbv length]. change (Z.of_nat 0) with 0. rewrite Z.pow_0_r. lia.
  - cbn [map lsbv length]. rewrite IH, pow2_S. destruct b; cbn [negb Z.b2z]; lia.
Qed.

Lemma msbv_negb bs : msbv (map negb bs) = 2 ^ Z.of_nat (length bs) - 1 - msbv bs.
Proof. unfold msbv. rewrite <- map_rev, lsbv_negb, rev_length. reflexivity. Qed.

Definition ones_cls (ones : list Z) : cnf :=
  zero_cls (removelast ones) ++ match ones with [] => [] | _ => [[last ones 0]] end.

Lemma zseq_S_last a k : zseq a (S k) = zseq a k ++ [a + Z.of_nat k].
Proof.
  replace (S k) with (k + 1)%nat by lia. rewrite zseq_app. reflexivity.
Qed.

Lemma ones_cls_zseq a k :
  ones_cls (zseq a (S k)) = units (map Z.opp (zseq a k) ++ [a + Z.of_nat k]).
Proof.
  unfold ones_cls. rewrite zseq_S_last, removelast_last, last_last.
  destruct (zseq a k ++ [a + Z.of_nat k]) eqn:E.
  { destruct (zseq a k); discriminate. }
  rewrite zero_cls_units. unfold units. now rewrite map_app.
Qed.

Lemma ones_cls_defines m W :
  0 <= m -> exists ext, Defines m (m + Z.of_nat W) (ones_cls (zseq (m + 1) W)) ext.
Proof.
  intros Hm. destruct W as [|k].
  - exists (fun s => s). cbn [zseq ones_cls removelast zero_cls map app].
    replace (m + Z.of_nat 0) with m by lia. now apply defines_nil.
  - rewrite ones_cls_zseq.
    destruct (defines_units (map Z.opp (zseq (m + 1) k) ++ [m + 1 + Z.of_nat k]) m Hm) as [e D].
    { apply units_ok_app; [now apply units_ok_opp_zseq|].
      rewrite map_length, zseq_length. cbn [units_ok]. split; [lia|exact I]. }
    rewrite app_length, map_length, zseq_length in D. cbn [length] in D.
    replace (k + 1)%nat with (S k) in D by lia. now exists e.
Qed.

Lemma ones_cls_sat s m W :
  0 <= m -> sat s (ones_cls (zseq (m + 1) W)) = true ->
  msbv (lits s (zseq (m + 1) W)) = (if Nat.eqb W 0 then 0 else 1).
Proof.
  intros Hm Hs. destruct W as [|k]; [reflexivity|]. cbn [Nat.eqb].
  rewrite ones_cls_zseq in Hs. apply sat_units in Hs. apply Forall_app in Hs.
  destruct Hs as [Hs1 Hs2]. rewrite zseq_S_last.
  rewrite msbv_zeros_app.
  - cbn [lits map]. inversion Hs2 as [|? ? Hl _]; subst. rewrite Hl. reflexivity.
  - rewrite Forall_forall in *. intros v Hv.
    specialize (Hs1 (- v) (in_map _ _ _ Hv)). apply zseq_In in Hv.
    rewrite lit_true_opp in Hs1 by lia. now destruct (lit_true s v).
Qed.

Definition neg_twos_post (n : Z) (bits : list Z) (out : list Z) (n' : Z) (new : cnf) : Prop :=
  length out = length bits /\ Forall (inr n') out /\
  forall s, sat s new = true ->
    msbv (lits s out)
    = (2 ^ Z.of_nat (length bits) - msbv (lits s bits)) mod 2 ^ Z.of_nat (length bits).

Lemma neg_twos_spec n bits :
  0 <= n -> Forall (inr n) bits -> Spec (neg_twos bits) n (neg_twos_post n bits).
Proof.
  intros Hn Hb. set (W := length bits).
  set (fl := zseq (n + 1) W). set (ones := zseq (n + Z.of_nat W + 1) W).
  destruct (flip_cls_defines bits n n ltac:(lia) Hb) as [e1 D1]. fold W in D1. fold fl in D1.
  destruct (ones_cls_defines (n + Z.of_nat W) W ltac:(lia)) as [e2 D2]. fold ones in D2.
  pose proof (defines_seq _ _ _ _ _ _ _ D1 D2) as D.
  eapply (spec_prefix _ (r <- ripple_carry fl ones ;; ret (rev (snd r))) n
            (n + Z.of_nat W + Z.of_nat W) _ _); [|exact D|].
  { intros cs. unfold neg_twos, bind. rewrite nfresh_run. fold W. fold fl.
    rewrite emit_run. rewrite nfresh_run. fold ones. unfold zero_out.
    rewrite !emit_run. unfold ones_cls, flip_cls, zero_cls. rewrite <- !app_assoc. reflexivity. }
  assert (Hlf : length fl = W) by apply zseq_length.
  assert (Hlo : length ones = W) by apply zseq_length.
  eapply spec_bind.
  { apply ripple_carry_spec; [lia|lia| |]; apply zseq_inr; lia. }
  intros [co sums] n1 new1 Hle (Hn1 & Hls & Hfr & _ & Hsem). cbn [fst snd] in *.
  apply spec_ret; [lia|]. unfold neg_twos_post. fold W.
  split; [rewrite rev_length; lia|].
  split. { apply Forall_rev. apply (Forall_fresh_inr (n + Z.of_nat W + Z.of_nat W)); [lia|assumption]. }
  intros s Hs. rewrite app_nil_r, !sat_app, !andb_true_iff in Hs.
  destruct Hs as [[Hs1 Hs2] Hs3].
  apply flip_cls_sat in Hs1; [|lia|apply zseq_pos; lia|eapply Forall_inr_nz; eassumption].
  apply ones_cls_sat in Hs2; [|lia]. fold ones in Hs2.
  specialize (Hsem s Hs3). rewrite Hs1, msbv_negb, Hs2, lits_length, Hlf in Hsem. fold W in Hsem.
  rewrite lits_rev, msbv_rev.
  pose proof (lsbv_bounds (lits s sums)) as B. rewrite lits_length, Hls, Hlf in B.
  pose proof (msbv_bounds (lits s bits)) as By. rewrite lits_length in By. fold W in By.
  pose proof (pow2_pos W) as HP.
  destruct W as [|W'] eqn:EW.
  - change (Z.of_nat 0) with 0 in *. rewrite Z.pow_0_r in *. rewrite Z.mod_1_r. lia.
  - cbn [Nat.eqb] in Hsem.
    replace (2 ^ Z.of_nat (S W') - msbv (lits s bits))
      with (lsbv (lits s sums) + Z.b2z (olit s co) * 2 ^ Z.of_nat (S W')) by lia.
    rewrite Z_mod_plus_full, Z.mod_small by lia. reflexivity.
Qed.

(** * The comparison tail of [inequality] *)

Definition cmp_tail (kbs nbs : list Z) : M bool :=
  neg <- neg_twos nbs ;;
  r <- ripple_carry kbs neg ;;
  emit [[last (snd r) 0]] ;;; ret true.

Definition cmp_tail_post (kbs nbs : list Z) (b : bool) (n' : Z) (defs asrt : cnf) : Prop :=
  b = true /\
  forall s, sat s defs = true ->
    exists (low : Z) (top : bool),
      0 <= low < 2 ^ (Z.of_nat (length kbs) - 1) /\
      (msbv (lits s kbs)
       + (2 ^ Z.of_nat (length kbs) - msbv (lits s nbs)) mod 2 ^ Z.of_nat (length kbs))
        mod 2 ^ Z.of_nat (length kbs)
      = Z.b2z top * 2 ^ (Z.of_nat (length kbs) - 1) + low /\
      (sat s asrt = true <-> top = true).

Lemma cmp_tail_spec n kbs nbs :
  0 <= n -> length kbs = length nbs -> (0 < length kbs)%nat ->
  Forall (inr n) kbs -> Forall (inr n) nbs ->
  SpecA (cmp_tail kbs nbs) n (cmp_tail_post kbs nbs).
Proof.
  intros Hn Hlen Hpos Hk Hnb. unfold cmp_tail.
  eapply specA_bind; [apply neg_twos_spec; assumption|].
  intros neg n1 new1 Hle1 (Hln & Hrn & Hsem1).
  eapply specA_bind.
  { apply (ripple_carry_spec n1 kbs neg); [lia|lia| |assumption].
    eapply Forall_inr_le; [|eassumption]. lia. }
  intros [co sums] n2 new2 Hle2 (Hn2 & Hls & Hfr & _ & Hsem2). cbn [fst snd] in *.
  assert (Hne : sums <> []) by (destruct sums; [cbn [length] in Hls; lia|discriminate]).
  pose proof (app_removelast_last 0 Hne) as Hsplit.
  set (low := removelast sums) in *. set (t := last sums 0) in *.
  assert (Hll : length low = (length kbs - 1)%nat).
  { rewrite Hsplit, app_length in Hls. cbn [length] in Hls. lia. }
  assert (Ht : fresh_in n1 n2 t).
  { rewrite Forall_forall in Hfr. apply Hfr. rewrite Hsplit. apply in_or_app. right. now left. }
  apply specA_emit; [lia| |].
  { apply vars_upto_Forall. repeat constructor; unfold fresh_in in Ht; lia. }
  split; [reflexivity|]. intros s Hs. rewrite app_nil_r, sat_app, andb_true_iff in Hs.
  destruct Hs as [Hs1 Hs2]. specialize (Hsem1 s Hs1). specialize (Hsem2 s Hs2).
  exists (lsbv (lits s low)), (lit_true s t).
  pose proof (lsbv_bounds (lits s low)) as Bl. rewrite lits_length, Hll in Bl.
  replace (Z.of_nat (length kbs - 1)) with (Z.of_nat (length kbs) - 1) in Bl by lia.
  split; [exact Bl|]. split.
  - rewrite <- Hlen in Hsem1. rewrite <- Hsem1.
    pose proof (lsbv_bounds (lits s sums)) as Bs. rewrite lits_length, Hls in Bs.
    replace (msbv (lits s kbs) + msbv (lits s neg))
      with (lsbv (lits s sums) + Z.b2z (olit s co) * 2 ^ Z.of_nat (length kbs)) by lia.
    rewrite Z_mod_plus_full, Z.mod_small by lia.
    rewrite Hsplit, lits_app, lsbv_app, lits_length, Hll. cbn [lits map lsbv].
    replace (Z.of_nat (length kbs - 1)) with (Z.of_nat (length kbs) - 1) by lia. lia.
  - unfold sat, csat. cbn [forallb existsb]. rewrite orb_false_r, andb_true_r. reflexivity.
Qed.

Lemma cmp_decide (lt : bool) (L w W1 W : nat) (k xs low : Z) (c top : bool) :
  (0 < w)%nat -> 0 <= k < 2 ^ Z.of_nat L -> 0 <= xs < 2 ^ Z.of_nat w ->
  (if Nat.eqb L w then W1 = L else W1 = S (Nat.max L w)) ->
  c = Nat.eqb W1 L && negb (lt && (k =? 2 ^ (Z.of_nat L - 1))) ->
  (if c then W = S W1 else W = W1) ->
  0 <= low < 2 ^ (Z.of_nat W - 1) ->
  ((if lt then xs else k)
   + (2 ^ Z.of_nat W - (if lt then k else xs)) mod 2 ^ Z.of_nat W) mod 2 ^ Z.of_nat W
  = Z.b2z top * 2 ^ (Z.of_nat W - 1) + low ->
  top = (if lt then xs <? k else k <? xs).
Proof.
  intros Hw Hk Hxs HW1 Hc HW Hlow Heq.
  assert (Hgen : 0 < Z.of_nat W -> k < 2 ^ (Z.of_nat W - 1) -> xs < 2 ^ (Z.of_nat W - 1) ->
                 top = (if lt then xs <? k else k <? xs)).
  { intros HWp Hkb Hxb. destruct lt.
    - eapply (twos_top_bit (Z.of_nat W) xs k); try eassumption; try lia; try reflexivity.
    - eapply (twos_top_bit (Z.of_nat W) k xs); try eassumption; try lia; try reflexivity. }
  destruct (Nat.eqb L w) eqn:E.
  - apply Nat.eqb_eq in E. subst w W1. rewrite Nat.eqb_refl in Hc. cbn [andb] in Hc.
    destruct c.
    + subst W. apply Hgen; [lia| |]; replace (Z.of_nat (S L) - 1) with (Z.of_nat L) by lia; lia.
    + subst W. symmetry in Hc. apply negb_false_iff, andb_true_iff in Hc. destruct Hc as [-> Hc].
      apply Z.eqb_eq in Hc. subst k.
      eapply (twos_top_bit_pow2 (Z.of_nat L) xs); try eassumption; try lia; try reflexivity.
  - apply Nat.eqb_neq in E. subst W1.
    replace (Nat.eqb (S (Nat.max L w)) L) with false in Hc by (symmetry; apply Nat.eqb_neq; lia).
    cbn [andb] in Hc. subst c. subst W.
    replace (Z.of_nat (S (Nat.max L w)) - 1) with (Z.of_nat (Nat.max L w)) in * by lia.
    pose proof (pow2_le_mono L (Nat.max L w) ltac:(lia)).
    pose proof (pow2_le_mono w (Nat.max L w) ltac:(lia)).
    apply Hgen; try lia.
    all: replace (Z.of_nat (S (Nat.max L w)) - 1) with (Z.of_nat (Nat.max L w)) by lia; lia.
Qed.

(** * [inequality] *)

Lemma digit_cls_swap a : forall b, digit_cls a b = digit_cls b a.
Proof.
  induction a as [|x a IH]; intros [|y b]; try reflexivity.
  unfold digit_cls. cbn [combine map fst snd]. fold (digit_cls a b). fold (digit_cls b a).
  rewrite IH. now rewrite Z.mul_comm.
Qed.

Lemma digit_cls_units a b : digit_cls a b = units (map (fun p => fst p * snd p) (combine a b)).
Proof. unfold digit_cls, units. now rewrite map_map. Qed.

Lemma units_ok_digits ds : forall n,
  0 <= n -> Forall digit ds ->
  units_ok n (map (fun p => fst p * snd p) (combine (zseq (n + 1) (length ds)) ds)).
Proof.
  induction ds as [|d ds IH]; intros n Hn Hd; [exact I|].
  inversion Hd as [|? ? Hd1 Hd2]; subst.
  cbn [length zseq combine map fst snd units_ok]. split.
  - destruct Hd1 as [->| ->]; lia.
  - apply IH; [lia|assumption].
Qed.

Definition ineq_rel (lt : bool) (N k : Z) : Prop := if lt then N < k else k < N.

Lemma inequality_spec n lt k vs :
  0 <= n -> 0 <= k -> vs <> [] -> Forall (inr n) vs ->
  SpecA (inequality lt k vs) n (card_post (fun s => ineq_rel lt (count s vs) k)).
Proof.
  intros Hn Hk Hne Hvs. unfold inequality.
  pose proof (int_to_binary_spec k Hk) as Hspec. cbv zeta in Hspec.
  destruct Hspec as (Hdig & Hval & Hlt & Hge & Hz).
  remember (int_to_binary k) as bin eqn:Ebin. remember (length bin) as L eqn:EL.
  eapply specA_bind; [apply pop_count_spec; assumption|].
  intros o n1 new1 Hle1 (sb & -> & Hlsb & Hrsb & Hsem1).
  set (w := wd (S L) (clog2 (length vs))) in *.
  assert (Hw : (0 < w)%nat) by (unfold w; cbn [wd]; lia).
  (* the constant k *)
  set (kv := zseq (n1 + 1) L).
  destruct (defines_units (map (fun p => fst p * snd p) (combine kv bin)) n1 ltac:(lia))
    as [e2 D2].
  { unfold kv. rewrite EL. apply units_ok_digits; [lia|assumption]. }
  rewrite <- digit_cls_units in D2.
  rewrite map_length, combine_length in D2. unfold kv in D2 at 1. rewrite zseq_length, <- EL in D2.
  rewrite Nat.min_id in D2. fold kv in D2.
  eapply (specA_prefix _ _ n1 (n1 + Z.of_nat L) (digit_cls kv bin) e2); [|exact D2|].
  { intros cs. unfold bind at 1 2. rewrite nfresh_run. fold kv. rewrite emit_run.
    fold (digit_cls kv bin). reflexivity. }
  assert (Hlkv : length kv = L) by apply zseq_length.
  assert (Hrkv : Forall (inr (n1 + Z.of_nat L)) kv) by (apply zseq_inr; lia).
  eapply specA_bind.
  { apply (make_same_length_spec (n1 + Z.of_nat L) kv sb); [lia|assumption|].
    eapply Forall_inr_le; [|eassumption]. lia. }
  intros [kv1 sb1] n3 new3 Hle3 (Hl1 & Hr1a & Hr1b & Hcase1 & Hsem3). cbn [fst snd] in *.
  set (c := Nat.eqb (length kv1) L && negb (lt && (k =? 2 ^ (Z.of_nat L - 1)))).
  eapply specA_bind.
  { apply (sign_pad_spec n3 c (kv1, sb1)); [lia|assumption|assumption]. }
  intros [kv2 sb2] n4 new4 Hle4 (Hcase2 & Hr2a & Hr2b & Hsem4). cbn [fst snd] in *.
  rewrite Hlkv, Hlsb in Hcase1.
  assert (HW1 : (if Nat.eqb L w then length kv1 = L else length kv1 = S (Nat.max L w))).
  { destruct (Nat.eqb L w) eqn:E; [|assumption]. injection Hcase1 as -> ->. assumption. }
  assert (HW : (if c then length kv2 = S (length kv1) else length kv2 = length kv1) /\
               length sb2 = length kv2).
  { destruct c.
    - destruct Hcase2 as [-> ->]. split; [reflexivity|lia].
    - injection Hcase2 as -> ->. split; [reflexivity|lia]. }
  destruct HW as [HW HW'].
  assert (Hpos : (0 < length kv2)%nat).
  { destruct (Nat.eqb L w) eqn:E; [apply Nat.eqb_eq in E|]; destruct c; lia. }
  (* semantic facts shared by both directions *)
  assert (Hfacts : forall s defs,
            sat s (new1 ++ digit_cls kv bin ++ new3 ++ new4 ++ defs) = true ->
            msbv (lits s kv2) = k /\ msbv (lits s sb2) = satv (S L) (count s vs) /\
            0 <= msbv (lits s sb2) < 2 ^ Z.of_nat w /\ sat s defs = true).
  { intros s defs Hs. rewrite !sat_app, !andb_true_iff in Hs.
    destruct Hs as (Hs1 & Hs2 & Hs3 & Hs4 & Hs5).
    destruct (Hsem3 s Hs3) as [E3a E3b]. destruct (Hsem4 s Hs4) as [E4a E4b].
    rewrite digit_cls_swap in Hs2.
    apply digit_cls_sat in Hs2; [|lia|assumption|].
    2:{ apply Forall_forall. intros v Hv. apply zseq_In in Hv. lia. }
    split. { rewrite E4a, E3a, Hs2. exact Hval. }
    split. { rewrite E4b, E3b. now apply Hsem1. }
    split; [|assumption]. rewrite E4b, E3b.
    pose proof (msbv_bounds (lits s sb)) as B. now rewrite lits_length, Hlsb in B. }
  destruct lt.
  - (* sum < k : kbs = sum bits, nbs = k *)
    cbn [andb] in c. fold (cmp_tail sb2 kv2).
    eapply specA_conseq.
    { apply (cmp_tail_spec n4 sb2 kv2); [lia|lia|lia|assumption|assumption]. }
    intros b n5 defs asrt Hle5 (-> & Hsem5). split; [reflexivity|].
    intros s Hs. destruct (Hfacts s defs Hs) as (Ek & Es & Bs & Hsd).
    destruct (Hsem5 s Hsd) as (low & top & Blow & Eq & Hiff).
    rewrite HW' in Blow, Eq. rewrite Ek in Eq.
    pose proof (count_bounds s vs) as HN.
    rewrite Hiff. unfold ineq_rel.
    rewrite <- (satv_lt_iff L (count s vs) k) by lia. rewrite <- Es.
    assert (Etop : top = (msbv (lits s sb2) <? k)).
    { apply (cmp_decide true L w (length kv1) (length kv2) k (msbv (lits s sb2)) low c top);
        try assumption; try lia; try reflexivity. }
    rewrite Etop. apply Z.ltb_lt.
  - cbn [andb negb] in c. fold (cmp_tail kv2 sb2).
    eapply specA_conseq.
    { apply (cmp_tail_spec n4 kv2 sb2); [lia|lia|lia|assumption|assumption]. }
    intros b n5 defs asrt Hle5 (-> & Hsem5). split; [reflexivity|].
    intros s Hs. destruct (Hfacts s defs Hs) as (Ek & Es & Bs & Hsd).
    destruct (Hsem5 s Hsd) as (low & top & Blow & Eq & Hiff).
    rewrite Ek in Eq.
    pose proof (count_bounds s vs) as HN.
    rewrite Hiff. unfold ineq_rel.
    rewrite <- (satv_gt_iff L (count s vs) k) by lia. rewrite <- Es.
    assert (Etop : top = (k <? msbv (lits s sb2))).
    { apply (cmp_decide false L w (length kv1) (length kv2) k (msbv (lits s sb2)) low c top);
        try assumption; try lia; try reflexivity. }
    rewrite Etop. apply Z.ltb_lt.
Qed.

(** * The three request kinds *)

Definition rel (kd : kind) (N k : Z) : Prop :=
  match kd with EQ => N = k | LT => N < k | GT => N > k end.

Lemma request_spec n kd k vs :
  0 <= n -> 0 <= k -> vs <> [] -> Forall (inr n) vs ->
  SpecA (request kd k vs) n (card_post (fun s => rel kd (count s vs) k)).
Proof.
  intros Hn Hk Hne Hvs. destruct kd; cbn [request].
  - now apply assert_k_of_n_spec.
  - eapply specA_conseq; [now apply inequality_spec|].
    intros b n' defs asrt _ H. exact H.
  - eapply specA_conseq; [now apply inequality_spec|].
    intros b n' defs asrt _ [Hb H]. split; [assumption|].
    intros s Hs. rewrite (H s Hs). unfold ineq_rel, rel. lia.
Qed.

Lemma request_correct : forall kd k vs n,
  0 <= n -> 0 <= k -> vs <> [] -> Forall (inr n) vs ->
  exists n' clauses,
    request kd k vs {| next := n; cls := [] |}
    = (true, {| next := n'; cls := clauses |}) /\
    n <= n' /\ vars_upto n' clauses /\
    (forall s, (exists t, agree_upto n s t /\ sat t clauses = true)
               <-> rel kd (count s vs) k) /\
    (forall t1 t2, agree_upto n t1 t2 ->
       sat t1 clauses = true -> sat t2 clauses = true -> agree_upto n' t1 t2).
Proof.
  intros kd k vs n Hn Hk Hne Hvs.
  destruct (request_spec n kd k vs Hn Hk Hne Hvs)
    as (b & n' & defs & asrt & ext & R & D & V & -> & Hiff).
  exists n', (defs ++ asrt). split; [exact (R [])|].
  pose proof (def_range _ _ _ _ D) as Rg. split; [lia|].
  split; [apply vars_upto_app; [apply (def_vars _ _ _ _ D)|exact V]|].
  split.
  - intros s. split.
    + intros (t & A & St). rewrite sat_app, andb_true_iff in St. destruct St as [St1 St2].
      rewrite (count_agree n s t vs A Hvs). now apply (Hiff t St1).
    + intros Hrel. exists (ext s).
      pose proof (defines_ext_agree _ _ _ _ s D Hn) as A.
      pose proof (defines_sat_ext _ _ _ _ s D) as S1.
      split; [exact A|]. rewrite sat_app, S1. cbn [andb]. apply (Hiff _ S1).
      now rewrite <- (count_agree n s (ext s) vs A Hvs).
  - intros t1 t2 A S1 S2. rewrite sat_app, andb_true_iff in S1, S2.
    destruct S1 as [S1 _], S2 as [S2 _]. exact (defines_unique _ _ _ _ _ _ D A S1 S2).
Qed.
