(** Executable model of [sweetpea/_internal/core/cnf.py] (class [CNF]):
    the clause builders, adders and population count, in the order and with the
    fresh-variable numbering of the Python code.  A [CNF] object is the state
    [st] ([_num_vars], [_vals]); note that [CNF.prepend] *appends* to [_vals].
    Places where the Python code raises are [None]. *)
From Coq Require Import ZArith List Bool Lia.
From SP Require Import Base.Sat.
Import ListNotations.
Open Scope Z_scope.

Record st := { next : Z; cls : cnf }.
Definition M (A : Type) := st -> A * st.
Definition ret {A} (a : A) : M A := fun s => (a, s).
Definition bind {A B} (m : M A) (f : A -> M B) : M B :=
  fun s => let '(a, s1) := m s in f a s1.
Notation "x <- m ;; f" := (bind m (fun x => f))
  (at level 61, m at next level, right associativity).
Notation "m ;;; f" := (bind m (fun _ => f)) (at level 61, right associativity).

(** [get_fresh] *)
Definition fresh : M Z :=
  fun s => (next s + 1, {| next := next s + 1; cls := cls s |}).
(** [get_n_fresh] *)
Fixpoint nfresh (n : nat) : M (list Z) :=
  match n with
  | O => ret []
  | S n' => v <- fresh ;; vs <- nfresh n' ;; ret (v :: vs)
  end.
(** [prepend] of a CNF (it extends [_vals] at the end) *)
Definition emit (c : cnf) : M unit :=
  fun s => (tt, {| next := next s; cls := cls s ++ c |}).
Definition zero_out (vs : list Z) : M unit := emit (map (fun v => [- v]) vs).

Definition half_adder (a b : Z) : M (Z * Z) :=
  c <- fresh ;; s <- fresh ;;
  emit [[-c; a]; [-c; b]; [c; -a; -b]] ;;;
  emit [[-s; a; b]; [-s; -a; -b]; [s; a; -b]; [s; -a; b]] ;;;
  ret (c, s).

Definition full_adder (a b : Z) (cin : option Z) : M (Z * Z) :=
  match cin with
  | None => half_adder a b
  | Some ci =>
    c <- fresh ;; s <- fresh ;;
    emit [[-c; a; b]; [-c; a; ci]; [-c; b; ci];
          [c; -a; -b]; [c; -a; -ci]; [c; -b; -ci]] ;;;
    emit [[-s; -a; -b; ci]; [-s; -a; b; -ci]; [-s; a; -b; -ci]; [-s; a; b; ci];
          [s; -a; -b; -ci]; [s; -a; b; ci]; [s; a; -b; ci]; [s; a; b; -ci]] ;;;
    ret (c, s)
  end.

Definition saturate_adder (a b : Z) (cin : option Z) : M Z :=
  s <- fresh ;;
  match cin with
  | Some ci => emit [[-s; a; b; ci]; [s; -a]; [s; -b]; [s; -ci]]
  | None => emit [[-s; a; b]; [s; -a]; [s; -b]]
  end ;;; ret s.

(** [ripple_carry]: zip of the reversed lists (truncating), returns the last
    carry ([None] for empty input) and the sums LSB first. *)
Fixpoint ripple_aux (ps : list (Z * Z)) (cin : option Z) (acc : list Z)
  : M (option Z * list Z) :=
  match ps with
  | [] => ret (cin, acc)
  | (x, y) :: ps' =>
    cs <- full_adder x y cin ;;
    ripple_aux ps' (Some (fst cs)) (acc ++ [snd cs])
  end.
Definition ripple_carry (xs ys : list Z) : M (option Z * list Z) :=
  ripple_aux (combine (rev xs) (rev ys)) None [].

Fixpoint rsat_aux (ps : list (Z * Z)) (i : nat) (sat_at : nat)
         (cin : option Z) (acc : list Z) : M (option Z * list Z) :=
  match ps with
  | [] => ret (cin, acc)
  | (x, y) :: ps' =>
    if Nat.eqb (S i) sat_at then
      s <- saturate_adder x y cin ;; rsat_aux ps' (S i) sat_at cin (acc ++ [s])
    else
      cs <- full_adder x y cin ;;
      rsat_aux ps' (S i) sat_at (Some (fst cs)) (acc ++ [snd cs])
  end.
(** [ripple_saturate]: result MSB first; [None] where Python would put [None]
    into the list (empty inputs with [saturate_at > 0]). *)
Definition ripple_saturate (xs ys : list Z) (sat_at : nat) : M (option (list Z)) :=
  r <- rsat_aux (combine (rev xs) (rev ys)) 0 sat_at None [] ;;
  let '(cin, acc) := r in
  if Nat.ltb (length xs) sat_at then
    match cin with
    | Some c => ret (Some (rev (acc ++ [c])))
    | None => ret None
    end
  else ret (Some (rev acc)).

Fixpoint layer_pairs (l r : list (list Z)) (sat_at : nat)
  : M (option (list (list Z))) :=
  match l, r with
  | x :: l', y :: r' =>
    o <- (if Nat.eqb sat_at 0 then
            cs <- ripple_carry x y ;;
            match fst cs with
            | Some c => ret (Some (c :: rev (snd cs)))
            | None => ret None
            end
          else ripple_saturate x y sat_at) ;;
    rest <- layer_pairs l' r' sat_at ;;
    ret (match o, rest with Some v, Some vs => Some (v :: vs) | _, _ => None end)
  | _, _ => ret (Some [])
  end.

(** [_pop_count_layer]; fuel bounds the recursion depth (halving). *)
Fixpoint pop_layer (fuel : nat) (bits : list (list Z)) (sat_at : nat)
  : M (option (list Z)) :=
  match fuel with
  | O => ret None
  | S f =>
    match bits with
    | [b] => ret (Some b)
    | _ =>
      let mid := Nat.div (length bits) 2 in
      o <- layer_pairs (firstn mid bits) (skipn mid bits) sat_at ;;
      match o with
      | Some vl => pop_layer f (rev vl) sat_at
      | None => ret None
      end
    end
  end.

(** least p' >= p with 2^p' >= n  (= ceil(log2 n) from p = 0) *)
Fixpoint log2_up_nat (fuel n p : nat) : nat :=
  match fuel with
  | O => p
  | S f => if Nat.leb n (Nat.pow 2 p) then p else log2_up_nat f n (S p)
  end.

Definition pop_count (vs : list Z) (sat_at : nat) : M (option (list Z)) :=
  match vs with
  | [] => ret None
  | _ =>
    let p := log2_up_nat (length vs) (length vs) 0 in
    aux <- nfresh (Nat.pow 2 p - length vs) ;;
    zero_out aux ;;;
    pop_layer (S (length vs)) (map (fun x => [x]) (vs ++ aux)) sat_at
  end.
