(** Proofs about the clause builders of [Core/CnfModel.v] (adders, ripple
    adders, population count).

    Every builder is shown to satisfy a [Spec]: run from the state
    [{| next := n; cls := cs |}] it returns a state
    [{| next := n'; cls := cs ++ new |}] where [new] is a definitional block
    ([Defines n n' new ext]: each assignment of 1..n has exactly one extension
    to 1..n' satisfying [new]) and every assignment satisfying [new] gives the
    outputs the intended values. *)
From Coq Require Import ZArith List Bool Lia ZifyBool Arith.
From SP Require Import Base.Sat Base.Bits Core.CnfModel.
Import ListNotations.
Open Scope Z_scope.

Definition mk (n : Z) (cs : cnf) : st := {| next := n; cls := cs |}.

(** * Specifications of monadic builders *)

Definition Spec {A} (m : M A) (n : Z) (Q : A -> Z -> cnf -> Prop) : Prop :=
  exists a n' new ext,
    (forall cs, m (mk n cs) = (a, mk n' (cs ++ new)))
    /\ Defines n n' new ext /\ Q a n' new.

Lemma spec_ret {A} (a : A) n (Q : A -> Z -> cnf -> Prop) :
  0 <= n -> Q a n [] -> Spec (ret a) n Q.
Proof.
  intros Hn HQ. exists a, n, [], (fun s => s). split; [|split].
  - intros cs. unfold ret. now rewrite app_nil_r.
  - now apply defines_nil.
  - exact HQ.
Qed.

Lemma spec_bind {A B} (m : M A) (f : A -> M B) n Q1 (Q : B -> Z -> cnf -> Prop) :
  Spec m n Q1 ->
  (forall a n1 new1, n <= n1 -> Q1 a n1 new1 ->
     Spec (f a) n1 (fun b n2 new2 => Q b n2 (new1 ++ new2))) ->
  Spec (bind m f) n Q.
Proof.
  intros (a & n1 & new1 & e1 & R1 & D1 & H1) Hf.
  pose proof (def_range _ _ _ _ D1) as Rg.
  destruct (Hf a n1 new1 ltac:(lia) H1) as (b & n2 & new2 & e2 & R2 & D2 & H2).
  exists b, n2, (new1 ++ new2), (fun s => e2 (e1 s)). split; [|split].
  - intros cs. unfold bind. rewrite R1, R2. now rewrite app_assoc.
  - now apply (defines_seq n n1 n2).
  - exact H2.
Qed.

Lemma spec_conseq {A} (m : M A) n (Q Q' : A -> Z -> cnf -> Prop) :
  Spec m n Q -> (forall a n' new, n <= n' -> Q a n' new -> Q' a n' new) -> Spec m n Q'.
Proof.
  intros (a & n1 & new1 & e1 & R1 & D1 & H1) Himp.
  exists a, n1, new1, e1. split; [assumption|split; [assumption|]].
  apply Himp; [|assumption]. pose proof (def_range _ _ _ _ D1). lia.
Qed.

(** Straight-line prefix that allocates variables and emits their definitions. *)
Lemma spec_prefix {B} (m m' : M B) n n1 new0 ext0 (Q : B -> Z -> cnf -> Prop) :
  (forall cs, m (mk n cs) = m' (mk n1 (cs ++ new0))) ->
  Defines n n1 new0 ext0 ->
  Spec m' n1 (fun b n2 new2 => Q b n2 (new0 ++ new2)) ->
  Spec m n Q.
Proof.
  intros Hrun D0 (b & n2 & new2 & e2 & R2 & D2 & H2).
  exists b, n2, (new0 ++ new2), (fun s => e2 (ext0 s)). split; [|split].
  - intros cs. rewrite Hrun, R2. now rewrite app_assoc.
  - now apply (defines_seq n n1 n2).
  - exact H2.
Qed.

Lemma spec_ext {A} (m m' : M A) n Q :
  (forall st, m st = m' st) -> Spec m' n Q -> Spec m n Q.
Proof.
  intros E (a & n1 & new1 & e1 & R1 & D1 & H1).
  exists a, n1, new1, e1. split; [|split; assumption].
  intros cs. now rewrite E.
Qed.

(** * Helpers for clause blocks *)

Lemma vars_upto_Forall n f : Forall (Forall (inr n)) f -> vars_upto n f.
Proof.
  intros H c l Hc Hl. rewrite Forall_forall in H. specialize (H c Hc).
  rewrite Forall_forall in H. exact (H l Hl).
Qed.

Lemma inr_opp n l : inr n l -> inr n (- l).
Proof. unfold inr. lia. Qed.

Lemma inr_nz n l : inr n l -> l <> 0.
Proof. unfold inr. lia. Qed.

Lemma inr_var n v : 0 < v <= n -> inr n v.
Proof. unfold inr. lia. Qed.

Definition olit (s : asg) (o : option Z) : bool :=
  match o with Some c => lit_true s c | None => false end.
Definition oinr (n : Z) (o : option Z) : Prop :=
  match o with Some c => inr n c | None => True end.

Lemma oinr_le n m o : n <= m -> oinr n o -> oinr m o.
Proof. destruct o; cbn; [apply inr_le|trivial]. Qed.

Lemma olit_agree n s t o : agree_upto n s t -> oinr n o -> olit s o = olit t o.
Proof. destruct o; cbn; [apply lit_true_agree|reflexivity]. Qed.

Ltac vars_tac :=
  apply vars_upto_Forall;
  repeat (constructor; try (apply inr_opp);
          try (eapply inr_le; [|eassumption]; lia); try (apply inr_var; lia)).

(** * Gates *)

Definition and_cls (c a b : Z) : cnf := [[-c; a]; [-c; b]; [c; -a; -b]].
Definition xor_cls (x a b : Z) : cnf :=
  [[-x; a; b]; [-x; -a; -b]; [x; a; -b]; [x; -a; b]].
Definition maj_cls (c a b ci : Z) : cnf :=
  [[-c; a; b]; [-c; a; ci]; [-c; b; ci]; [c; -a; -b]; [c; -a; -ci]; [c; -b; -ci]].
Definition xor3_cls (x a b ci : Z) : cnf :=
  [[-x; -a; -b; ci]; [-x; -a; b; -ci]; [-x; a; -b; -ci]; [-x; a; b; ci];
   [x; -a; -b; -ci]; [x; -a; b; ci]; [x; a; -b; ci]; [x; a; b; -ci]].
Definition or2_cls (x a b : Z) : cnf := [[-x; a; b]; [x; -a]; [x; -b]].
Definition or3_cls (x a b ci : Z) : cnf := [[-x; a; b; ci]; [x; -a]; [x; -b]; [x; -ci]].

Lemma and_cls_sat s c a b : 0 < c -> a <> 0 -> b <> 0 ->
  sat s (and_cls c a b) = true <-> s c = lit_true s a && lit_true s b.
Proof.
  intros Hc Ha Hb. unfold and_cls, sat, csat. cbn [forallb existsb].
  rewrite (lit_true_neg s c Hc), (lit_true_pos s c Hc), !lit_true_opp by assumption.
  destruct (s c), (lit_true s a), (lit_true s b); cbn; intuition congruence.
Qed.

Lemma xor_cls_sat s x a b : 0 < x -> a <> 0 -> b <> 0 ->
  sat s (xor_cls x a b) = true <-> s x = xorb (lit_true s a) (lit_true s b).
Proof.
  intros Hc Ha Hb. unfold xor_cls, sat, csat. cbn [forallb existsb].
  rewrite (lit_true_neg s x Hc), (lit_true_pos s x Hc), !lit_true_opp by assumption.
  destruct (s x), (lit_true s a), (lit_true s b); cbn; intuition congruence.
Qed.

Lemma maj_cls_sat s c a b ci : 0 < c -> a <> 0 -> b <> 0 -> ci <> 0 ->
  sat s (maj_cls c a b ci) = true <->
  s c = (lit_true s a && lit_true s b) || (lit_true s a && lit_true s ci)
        || (lit_true s b && lit_true s ci).
Proof.
  intros Hc Ha Hb Hi. unfold maj_cls, sat, csat. cbn [forallb existsb].
  rewrite (lit_true_neg s c Hc), (lit_true_pos s c Hc), !lit_true_opp by assumption.
  destruct (s c), (lit_true s a), (lit_true s b), (lit_true s ci); cbn; intuition congruence.
Qed.

Lemma xor3_cls_sat s x a b ci : 0 < x -> a <> 0 -> b <> 0 -> ci <> 0 ->
  sat s (xor3_cls x a b ci) = true <->
  s x = xorb (xorb (lit_true s a) (lit_true s b)) (lit_true s ci).
Proof.
  intros Hc Ha Hb Hi. unfold xor3_cls, sat, csat. cbn [forallb existsb].
  rewrite (lit_true_neg s x Hc), (lit_true_pos s x Hc), !lit_true_opp by assumption.
  destruct (s x), (lit_true s a), (lit_true s b), (lit_true s ci); cbn; intuition congruence.
Qed.

Lemma or2_cls_sat s x a b : 0 < x -> a <> 0 -> b <> 0 ->
  sat s (or2_cls x a b) = true <-> s x = lit_true s a || lit_true s b.
Proof.
  intros Hc Ha Hb. unfold or2_cls, sat, csat. cbn [forallb existsb].
  rewrite (lit_true_neg s x Hc), (lit_true_pos s x Hc), !lit_true_opp by assumption.
  destruct (s x), (lit_true s a), (lit_true s b); cbn; intuition congruence.
Qed.

Lemma or3_cls_sat s x a b ci : 0 < x -> a <> 0 -> b <> 0 -> ci <> 0 ->
  sat s (or3_cls x a b ci) = true <->
  s x = lit_true s a || lit_true s b || lit_true s ci.
Proof.
  intros Hc Ha Hb Hi. unfold or3_cls, sat, csat. cbn [forallb existsb].
  rewrite (lit_true_neg s x Hc), (lit_true_pos s x Hc), !lit_true_opp by assumption.
  destruct (s x), (lit_true s a), (lit_true s b), (lit_true s ci); cbn; intuition congruence.
Qed.

(** A gate block: one fresh variable [n+1] defined by [g]. *)
Lemma gate_defines n new (g : asg -> bool) :
  0 <= n -> vars_upto (n + 1) new ->
  (forall s t, agree_upto n s t -> g s = g t) ->
  (forall s, sat s new = true <-> s (n + 1) = g s) ->
  exists ext, Defines n (n + 1) new ext.
Proof. intros. exists (fun s => upd s (n + 1) (g s)). apply defines_gate; assumption. Qed.

(** ** half adder *)

Definition half_adder_post (n a b : Z) (r : Z * Z) (n' : Z) (new : cnf) : Prop :=
  r = (n + 1, n + 2) /\ n' = n + 2 /\
  forall s, sat s new = true ->
    s (n + 1) = lit_true s a && lit_true s b /\
    s (n + 2) = xorb (lit_true s a) (lit_true s b).

Lemma half_adder_spec n a b :
  0 <= n -> inr n a -> inr n b ->
  Spec (half_adder a b) n (half_adder_post n a b).
Proof.
  intros Hn Ha Hb.
  pose proof (inr_nz _ _ Ha) as Ha0. pose proof (inr_nz _ _ Hb) as Hb0.
  destruct (gate_defines n (and_cls (n + 1) a b)
              (fun s => lit_true s a && lit_true s b)) as [e1 D1]; try assumption.
  { unfold and_cls. vars_tac. }
  { intros s t A. now rewrite (lit_true_agree n s t a A Ha), (lit_true_agree n s t b A Hb). }
  { intros s. apply and_cls_sat; [lia|assumption..]. }
  destruct (gate_defines (n + 1) (xor_cls (n + 1 + 1) a b)
              (fun s => xorb (lit_true s a) (lit_true s b))) as [e2 D2]; try lia.
  { unfold xor_cls. vars_tac. }
  { intros s t A. apply (agree_upto_le _ n) in A; [|lia].
    now rewrite (lit_true_agree n s t a A Ha), (lit_true_agree n s t b A Hb). }
  { intros s. apply xor_cls_sat; [lia|assumption..]. }
  exists (n + 1, n + 2), (n + 2), (and_cls (n + 1) a b ++ xor_cls (n + 2) a b),
         (fun s => e2 (e1 s)).
  unfold half_adder_post. replace (n + 2) with (n + 1 + 1) by lia.
  split; [|split].
  - intros cs. unfold half_adder, bind, fresh, emit, ret, mk. cbn [next cls].
    now rewrite <- app_assoc.
  - now apply (defines_seq n (n + 1)).
  - split; [reflexivity|split; [reflexivity|]]. intros s Hs.
    rewrite sat_app, andb_true_iff in Hs. destruct Hs as [H1 H2].
    apply and_cls_sat in H1; [|lia|assumption..].
    apply xor_cls_sat in H2; [|lia|assumption..]. now split.
Qed.

(** ** full adder *)

Definition maj3 (a b c : bool) : bool := (a && b) || (a && c) || (b && c).

Definition full_adder_post (n a b : Z) (cin : option Z) (r : Z * Z) (n' : Z) (new : cnf)
  : Prop :=
  r = (n + 1, n + 2) /\ n' = n + 2 /\
  forall s, sat s new = true ->
    s (n + 1) = maj3 (lit_true s a) (lit_true s b) (olit s cin) /\
    s (n + 2) = xorb (xorb (lit_true s a) (lit_true s b)) (olit s cin).

Lemma full_adder_spec n a b cin :
  0 <= n -> inr n a -> inr n b -> oinr n cin ->
  Spec (full_adder a b cin) n (full_adder_post n a b cin).
Proof.
  intros Hn Ha Hb Hc. destruct cin as [ci|].
  2:{ cbn [full_adder]. eapply spec_conseq; [now apply half_adder_spec|].
      intros r n' new _ (Hr & Hn' & Hs). split; [assumption|split; [assumption|]].
      intros s Hsat. destruct (Hs s Hsat) as [H1 H2]. cbn [olit]. unfold maj3.
      rewrite H1, H2. destruct (lit_true s a), (lit_true s b); now cbn. }
  cbn [oinr] in Hc.
  pose proof (inr_nz _ _ Ha) as Ha0. pose proof (inr_nz _ _ Hb) as Hb0.
  pose proof (inr_nz _ _ Hc) as Hc0.
  destruct (gate_defines n (maj_cls (n + 1) a b ci)
              (fun s => maj3 (lit_true s a) (lit_true s b) (lit_true s ci)))
    as [e1 D1]; try assumption.
  { unfold maj_cls. vars_tac. }
  { intros s t A. now rewrite (lit_true_agree n s t a A Ha), (lit_true_agree n s t b A Hb),
      (lit_true_agree n s t ci A Hc). }
  { intros s. apply maj_cls_sat; [lia|assumption..]. }
  destruct (gate_defines (n + 1) (xor3_cls (n + 1 + 1) a b ci)
              (fun s => xorb (xorb (lit_true s a) (lit_true s b)) (lit_true s ci)))
    as [e2 D2]; try lia.
  { unfold xor3_cls. vars_tac. }
  { intros s t A. apply (agree_upto_le _ n) in A; [|lia].
    now rewrite (lit_true_agree n s t a A Ha), (lit_true_agree n s t b A Hb),
      (lit_true_agree n s t ci A Hc). }
  { intros s. apply xor3_cls_sat; [lia|assumption..]. }
  exists (n + 1, n + 2), (n + 2), (maj_cls (n + 1) a b ci ++ xor3_cls (n + 2) a b ci),
         (fun s => e2 (e1 s)).
  unfold full_adder_post. replace (n + 2) with (n + 1 + 1) by lia.
  split; [|split].
  - intros cs. unfold full_adder, bind, fresh, emit, ret, mk. cbn [next cls].
    now rewrite <- app_assoc.
  - now apply (defines_seq n (n + 1)).
  - split; [reflexivity|split; [reflexivity|]]. intros s Hs.
    rewrite sat_app, andb_true_iff in Hs. destruct Hs as [H1 H2].
    apply maj_cls_sat in H1; [|lia|assumption..].
    apply xor3_cls_sat in H2; [|lia|assumption..]. cbn [olit]. now split.
Qed.

(** Arithmetic reading of a full adder. *)
Lemma full_adder_arith (c sm a b ci : bool) :
  c = maj3 a b ci -> sm = xorb (xorb a b) ci ->
  Z.b2z sm + 2 * Z.b2z c = Z.b2z a + Z.b2z b + Z.b2z ci.
Proof. intros -> ->. now destruct a, b, ci. Qed.

(** ** saturating adder *)

Definition saturate_adder_post (n a b : Z) (cin : option Z) (r : Z) (n' : Z) (new : cnf)
  : Prop :=
  r = n + 1 /\ n' = n + 1 /\
  forall s, sat s new = true ->
    s (n + 1) = lit_true s a || lit_true s b || olit s cin.

Lemma saturate_adder_spec n a b cin :
  0 <= n -> inr n a -> inr n b -> oinr n cin ->
  Spec (saturate_adder a b cin) n (saturate_adder_post n a b cin).
Proof.
  intros Hn Ha Hb Hc.
  pose proof (inr_nz _ _ Ha) as Ha0. pose proof (inr_nz _ _ Hb) as Hb0.
  destruct cin as [ci|].
  - cbn [oinr] in Hc. pose proof (inr_nz _ _ Hc) as Hc0.
    destruct (gate_defines n (or3_cls (n + 1) a b ci)
                (fun s => lit_true s a || lit_true s b || lit_true s ci))
      as [e1 D1]; try assumption.
    { unfold or3_cls. vars_tac. }
    { intros s t A. now rewrite (lit_true_agree n s t a A Ha), (lit_true_agree n s t b A Hb),
        (lit_true_agree n s t ci A Hc). }
    { intros s. apply or3_cls_sat; [lia|assumption..]. }
    exists (n + 1), (n + 1), (or3_cls (n + 1) a b ci), e1. split; [|split].
    + intros cs. reflexivity.
    + exact D1.
    + split; [reflexivity|split; [reflexivity|]]. intros s Hs.
      apply or3_cls_sat in Hs; [|lia|assumption..]. exact Hs.
  - destruct (gate_defines n (or2_cls (n + 1) a b)
                (fun s => lit_true s a || lit_true s b))
      as [e1 D1]; try assumption.
    { unfold or2_cls. vars_tac. }
    { intros s t A. now rewrite (lit_true_agree n s t a A Ha), (lit_true_agree n s t b A Hb). }
    { intros s. apply or2_cls_sat; [lia|assumption..]. }
    exists (n + 1), (n + 1), (or2_cls (n + 1) a b), e1. split; [|split].
    + intros cs. reflexivity.
    + exact D1.
    + split; [reflexivity|split; [reflexivity|]]. intros s Hs.
      apply or2_cls_sat in Hs; [|lia|assumption..]. cbn [olit].
      now rewrite orb_false_r.
Qed.

(** * Ripple-carry adder *)

Definition pinr (n : Z) (p : Z * Z) : Prop := inr n (fst p) /\ inr n (snd p).

Lemma Forall_pinr_le n m ps : n <= m -> Forall (pinr n) ps -> Forall (pinr m) ps.
Proof.
  intros H. apply Forall_impl. intros [x y] [Hx Hy]. split; now apply (inr_le n).
Qed.

(** [ps] are the operand bit pairs, LSB first. *)
Definition ripple_aux_post (n : Z) (ps : list (Z * Z)) (cin : option Z) (acc : list Z)
  (r : option Z * list Z) (n' : Z) (new : cnf) : Prop :=
  n' = n + 2 * Z.of_nat (length ps) /\
  exists sums, snd r = acc ++ sums /\ length sums = length ps /\
    Forall (fresh_in n n') sums /\
    match ps with
    | [] => fst r = cin
    | _ => exists c, fst r = Some c /\ fresh_in n n' c
    end /\
    forall s, sat s new = true ->
      lsbv (lits s sums) + 2 ^ Z.of_nat (length ps) * Z.b2z (olit s (fst r))
      = lsbv (lits s (map fst ps)) + lsbv (lits s (map snd ps)) + Z.b2z (olit s cin).

Lemma ripple_aux_spec ps : forall n cin acc,
  0 <= n -> Forall (pinr n) ps -> oinr n cin ->
  Spec (ripple_aux ps cin acc) n (ripple_aux_post n ps cin acc).
Proof.
  induction ps as [|[x y] ps IH]; intros n cin acc Hn Hps Hcin.
  - cbn [ripple_aux]. apply spec_ret; [assumption|].
    split; [cbn [length]; lia|]. exists []. cbn [fst snd length].
    split; [now rewrite app_nil_r|]. split; [reflexivity|]. split; [constructor|].
    split; [reflexivity|]. intros s _. cbn [map lits lsbv]. change (Z.of_nat 0) with 0.
    rewrite Z.pow_0_r. lia.
  - cbn [ripple_aux]. inversion Hps as [|p ps' [Hx Hy] Hps']; subst. cbn [fst snd] in Hx, Hy.
    assert (Hp1 : 0 < n + 1) by lia. assert (Hp2 : 0 < n + 2) by lia.
    eapply spec_bind; [now apply full_adder_spec|].
    intros [c sm] n1 new1 Hle (Hr & Hn1 & Hfa). injection Hr as -> ->. subst n1.
    cbn [fst snd].
    eapply spec_conseq.
    { apply (IH (n + 2) (Some (n + 1)) (acc ++ [n + 2])); [lia| |].
      - apply (Forall_pinr_le n); [lia|assumption].
      - cbn [oinr]. apply inr_var. lia. }
    intros [co out] n2 new2 Hle2 (Hn2 & sums & Hout & Hlen & Hfr & Hco & Hsem).
    cbn [fst snd] in *.
    split; [cbn [length]; lia|]. exists ((n + 2) :: sums). cbn [fst snd].
    split; [rewrite Hout, <- app_assoc; reflexivity|].
    split; [cbn [length]; lia|].
    split.
    { constructor; [unfold fresh_in; lia|].
      apply (Forall_fresh_ge (n + 2)); [lia|assumption]. }
    split.
    { destruct ps as [|p ps'].
      - exists (n + 1). split; [assumption|]. unfold fresh_in. cbn [length] in Hn2. lia.
      - destruct Hco as (c & Hc1 & Hc2). exists c. split; [assumption|].
        unfold fresh_in in *. lia. }
    intros s Hs. rewrite sat_app, andb_true_iff in Hs. destruct Hs as [Hs1 Hs2].
    specialize (Hsem s Hs2). destruct (Hfa s Hs1) as [Hc Hsm].
    pose proof (full_adder_arith _ _ _ _ _ Hc Hsm) as Har.
    cbn [olit] in Hsem. rewrite (lit_true_pos s (n + 1) Hp1) in Hsem.
    cbn [map lits lsbv length fst snd]. fold (lits s sums).
    fold (lits s (map fst ps)). fold (lits s (map snd ps)).
    rewrite (lit_true_pos s (n + 2) Hp2). rewrite pow2_S.
    clear - Hsem Har. lia.
Qed.

Lemma combine_fst {A B} (l : list A) (r : list B) :
  length l = length r -> map fst (combine l r) = l.
Proof.
  revert r. induction l as [|a l IH]; intros [|b r] H; try discriminate; [reflexivity|].
  cbn [combine map fst]. f_equal. apply IH. cbn [length] in H. lia.
Qed.

Lemma combine_snd {A B} (l : list A) (r : list B) :
  length l = length r -> map snd (combine l r) = r.
Proof.
  revert r. induction l as [|a l IH]; intros [|b r] H; try discriminate; [reflexivity|].
  cbn [combine map snd]. f_equal. apply IH. cbn [length] in H. lia.
Qed.

Lemma Forall_pinr_combine n xs ys :
  Forall (inr n) xs -> Forall (inr n) ys -> Forall (pinr n) (combine xs ys).
Proof.
  intros Hx. revert ys. induction Hx as [|x xs Hx _ IH]; intros ys Hy; [constructor|].
  destruct Hy as [|y ys Hy Hys]; [constructor|].
  cbn [combine]. constructor; [now split|]. now apply IH.
Qed.

(** [ripple_carry] on two MSB-first operands of equal width: the returned
    sums (LSB first) and carry encode the sum. *)
Definition ripple_carry_post (n : Z) (xs ys : list Z)
  (r : option Z * list Z) (n' : Z) (new : cnf) : Prop :=
  n' = n + 2 * Z.of_nat (length xs) /\
  length (snd r) = length xs /\
  Forall (fresh_in n n') (snd r) /\
  match xs with
  | [] => fst r = None
  | _ => exists c, fst r = Some c /\ fresh_in n n' c
  end /\
  forall s, sat s new = true ->
    lsbv (lits s (snd r)) + 2 ^ Z.of_nat (length xs) * Z.b2z (olit s (fst r))
    = msbv (lits s xs) + msbv (lits s ys).

Lemma ripple_carry_spec n xs ys :
  0 <= n -> length xs = length ys -> Forall (inr n) xs -> Forall (inr n) ys ->
  Spec (ripple_carry xs ys) n (ripple_carry_post n xs ys).
Proof.
  intros Hn Hlen Hxs Hys. unfold ripple_carry.
  assert (Hl : length (combine (rev xs) (rev ys)) = length xs).
  { rewrite combine_length, !rev_length. lia. }
  eapply spec_conseq.
  { apply (ripple_aux_spec (combine (rev xs) (rev ys)) n None []); [assumption| |exact I].
    apply Forall_pinr_combine; now apply Forall_rev. }
  intros [co out] n' new Hle (Hn' & sums & Hout & Hlen' & Hfr & Hco & Hsem).
  cbn [fst snd app] in *. subst out. rewrite Hl in *.
  split; [assumption|]. split; [assumption|]. split; [assumption|]. split.
  - destruct xs as [|x xs]; [exact Hco|].
    destruct (combine (rev (x :: xs)) (rev ys)); [discriminate|exact Hco].
  - intros s Hs. cbn [fst snd]. rewrite (Hsem s Hs).
    rewrite combine_fst, combine_snd by (rewrite !rev_length; lia).
    cbn [olit Z.b2z]. unfold msbv. rewrite !lits_rev. lia.
Qed.

(** * Explicit statements (used by [Properties/C12.v]) *)

Lemma half_adder_correct : forall n a b,
  0 <= n -> inr n a -> inr n b ->
  exists new ext,
    (forall cs, half_adder a b {| next := n; cls := cs |}
                = ((n + 1, n + 2), {| next := n + 2; cls := cs ++ new |})) /\
    Defines n (n + 2) new ext /\
    forall s, sat s new = true ->
      s (n + 1) = lit_true s a && lit_true s b /\
      s (n + 2) = xorb (lit_true s a) (lit_true s b).
Proof.
  intros n a b Hn Ha Hb.
  destruct (half_adder_spec n a b Hn Ha Hb) as (r & n' & new & ext & R & D & -> & -> & H).
  exists new, ext. split; [exact R|]. split; [exact D|exact H].
Qed.

Lemma full_adder_correct : forall n a b cin,
  0 <= n -> inr n a -> inr n b -> oinr n cin ->
  exists new ext,
    (forall cs, full_adder a b cin {| next := n; cls := cs |}
                = ((n + 1, n + 2), {| next := n + 2; cls := cs ++ new |})) /\
    Defines n (n + 2) new ext /\
    forall s, sat s new = true ->
      s (n + 1) = maj3 (lit_true s a) (lit_true s b) (olit s cin) /\
      s (n + 2) = xorb (xorb (lit_true s a) (lit_true s b)) (olit s cin).
Proof.
  intros n a b cin Hn Ha Hb Hc.
  destruct (full_adder_spec n a b cin Hn Ha Hb Hc)
    as (r & n' & new & ext & R & D & -> & -> & H).
  exists new, ext. split; [exact R|]. split; [exact D|exact H].
Qed.

Lemma saturate_adder_correct : forall n a b cin,
  0 <= n -> inr n a -> inr n b -> oinr n cin ->
  exists new ext,
    (forall cs, saturate_adder a b cin {| next := n; cls := cs |}
                = (n + 1, {| next := n + 1; cls := cs ++ new |})) /\
    Defines n (n + 1) new ext /\
    forall s, sat s new = true ->
      s (n + 1) = lit_true s a || lit_true s b || olit s cin.
Proof.
  intros n a b cin Hn Ha Hb Hc.
  destruct (saturate_adder_spec n a b cin Hn Ha Hb Hc)
    as (r & n' & new & ext & R & D & -> & -> & H).
  exists new, ext. split; [exact R|]. split; [exact D|exact H].
Qed.

Lemma ripple_carry_correct : forall n xs ys,
  0 <= n -> length xs = length ys -> Forall (inr n) xs -> Forall (inr n) ys ->
  exists carry sums n' new ext,
    (forall cs, ripple_carry xs ys {| next := n; cls := cs |}
                = ((carry, sums), {| next := n'; cls := cs ++ new |})) /\
    Defines n n' new ext /\
    n' = n + 2 * Z.of_nat (length xs) /\
    length sums = length xs /\
    Forall (fresh_in n n') sums /\
    match xs with
    | [] => carry = None
    | _ => exists c, carry = Some c /\ fresh_in n n' c
    end /\
    forall s, sat s new = true ->
      lsbv (lits s sums) + 2 ^ Z.of_nat (length xs) * Z.b2z (olit s carry)
      = msbv (lits s xs) + msbv (lits s ys).
Proof.
  intros n xs ys Hn Hl Hx Hy.
  destruct (ripple_carry_spec n xs ys Hn Hl Hx Hy)
    as ([co sums] & n' & new & ext & R & D & H).
  exists co, sums, n', new, ext. split; [exact R|]. split; [exact D|exact H].
Qed.

(** * Fresh-variable blocks fixed by unit clauses *)

Fixpoint zseq (a : Z) (k : nat) : list Z :=
  match k with O => [] | S k' => a :: zseq (a + 1) k' end.

Lemma zseq_length a k : length (zseq a k) = k.
Proof. revert a. induction k as [|k IH]; intros a; cbn [zseq length]; [reflexivity|]. now rewrite IH. Qed.

Lemma zseq_In a k v : In v (zseq a k) <-> a <= v < a + Z.of_nat k.
Proof.
  revert a. induction k as [|k IH]; intros a; cbn [zseq In].
  - lia.
  - rewrite IH. lia.
Qed.

Lemma zseq_fresh n k : Forall (fresh_in n (n + Z.of_nat k)) (zseq (n + 1) k).
Proof.
  apply Forall_forall. intros v Hv. apply zseq_In in Hv. unfold fresh_in. lia.
Qed.

Lemma zseq_app a k j : zseq a (k + j) = zseq a k ++ zseq (a + Z.of_nat k) j.
Proof.
  revert a. induction k as [|k IH]; intros a.
  - cbn [Nat.add zseq app]. f_equal. lia.
  - cbn [Nat.add zseq app]. rewrite IH. do 3 f_equal. lia.
Qed.

Lemma nfresh_run k : forall n cs,
  nfresh k (mk n cs) = (zseq (n + 1) k, mk (n + Z.of_nat k) cs).
Proof.
  induction k as [|k IH]; intros n cs.
  - cbn [nfresh zseq]. unfold ret. replace (n + Z.of_nat 0) with n by lia. reflexivity.
  - cbn [nfresh zseq]. unfold bind, fresh, mk. cbn [next cls].
    fold (mk (n + 1) cs). rewrite IH. unfold ret.
    replace (n + 1 + Z.of_nat k) with (n + Z.of_nat (S k)) by lia. reflexivity.
Qed.

Lemma emit_run c n cs : emit c (mk n cs) = (tt, mk n (cs ++ c)).
Proof. reflexivity. Qed.

(** [ls] are literals of the consecutive variables [n+1, n+2, ...]. *)
Fixpoint units_ok (n : Z) (ls : list Z) : Prop :=
  match ls with
  | [] => True
  | l :: ls' => Z.abs l = n + 1 /\ units_ok (n + 1) ls'
  end.

Definition units (ls : list Z) : cnf := map (fun l => [l]) ls.

Lemma sat_units s ls : sat s (units ls) = true <-> Forall (fun l => lit_true s l = true) ls.
Proof.
  induction ls as [|l ls IH]; cbn [units map].
  - split; [constructor|reflexivity].
  - rewrite sat_cons, andb_true_iff. fold (units ls). rewrite IH.
    unfold csat. cbn [existsb]. rewrite orb_false_r. split.
    + intros [H1 H2]. now constructor.
    + intros H. inversion H; subst. now split.
Qed.

Lemma defines_units ls : forall n,
  0 <= n -> units_ok n ls ->
  exists ext, Defines n (n + Z.of_nat (length ls)) (units ls) ext.
Proof.
  induction ls as [|l ls IH]; intros n Hn Hok.
  - exists (fun s => s). cbn [length units map]. replace (n + Z.of_nat 0) with n by lia.
    now apply defines_nil.
  - destruct Hok as [Hl Hok].
    destruct (IH (n + 1) ltac:(lia) Hok) as [e2 D2].
    destruct (gate_defines n [[l]] (fun _ => 0 <? l)) as [e1 D1]; try assumption.
    { apply vars_upto_Forall. repeat constructor; unfold inr; lia. }
    { reflexivity. }
    { intros s. unfold sat, csat. cbn [forallb existsb]. rewrite orb_false_r, andb_true_r.
      destruct (0 <? l) eqn:E.
      - replace l with (n + 1) by lia. now rewrite lit_true_pos by lia.
      - replace l with (- (n + 1)) by lia. rewrite lit_true_neg by lia.
        destruct (s (n + 1)); cbn; intuition congruence. }
    exists (fun s => e2 (e1 s)). cbn [length units map]. fold (units ls).
    change ([l] :: units ls) with ([[l]] ++ units ls).
    replace (n + Z.of_nat (S (length ls))) with (n + 1 + Z.of_nat (length ls)) by lia.
    now apply (defines_seq n (n + 1)).
Qed.

Lemma units_ok_app n a b :
  units_ok n a -> units_ok (n + Z.of_nat (length a)) b -> units_ok n (a ++ b).
Proof.
  revert n. induction a as [|x a IH]; intros n Ha Hb.
  - cbn [app length] in *. now replace (n + Z.of_nat 0) with n in Hb by lia.
  - cbn [app units_ok length] in *. destruct Ha as [Hx Ha]. split; [assumption|].
    apply IH; [assumption|]. now replace (n + 1 + Z.of_nat (length a))
      with (n + Z.of_nat (S (length a))) by lia.
Qed.

Lemma units_ok_opp_zseq n k : 0 <= n -> units_ok n (map Z.opp (zseq (n + 1) k)).
Proof.
  revert n. induction k as [|k IH]; intros n Hn; cbn [zseq map units_ok]; [exact I|].
  split; [lia|]. apply IH. lia.
Qed.

Definition zero_cls (vs : list Z) : cnf := map (fun v => [- v]) vs.

Lemma zero_cls_units vs : zero_cls vs = units (map Z.opp vs).
Proof. unfold zero_cls, units. now rewrite map_map. Qed.

Lemma zero_cls_defines n k :
  0 <= n -> exists ext, Defines n (n + Z.of_nat k) (zero_cls (zseq (n + 1) k)) ext.
Proof.
  intros Hn. rewrite zero_cls_units.
  destruct (defines_units (map Z.opp (zseq (n + 1) k)) n Hn (units_ok_opp_zseq n k Hn))
    as [e D].
  rewrite map_length, zseq_length in D. now exists e.
Qed.

Lemma zero_cls_sat s vs :
  Forall (fun v => 0 < v) vs -> sat s (zero_cls vs) = true ->
  Forall (fun v => lit_true s v = false) vs.
Proof.
  intros Hpos Hs. rewrite zero_cls_units in Hs. apply sat_units in Hs.
  rewrite Forall_forall in *. intros v Hv.
  specialize (Hs (- v) (in_map _ _ _ Hv)). specialize (Hpos v Hv).
  rewrite lit_true_opp in Hs by lia. now destruct (lit_true s v).
Qed.

Lemma zseq_pos a k : 0 < a -> Forall (fun v => 0 < v) (zseq a k).
Proof. intros H. apply Forall_forall. intros v Hv. apply zseq_In in Hv. lia. Qed.
