(** Saturating ripple adder and population count of [Core/CnfModel.v]. *)
From Coq Require Import ZArith List Bool Lia ZifyBool Arith.
From SP Require Import Base.Sat Base.Bits Core.CnfModel Core.CnfProofs.
Import ListNotations.
Open Scope Z_scope.

(** * [rsat_aux] in terms of [ripple_aux] *)

Lemma rsat_aux_lt ps : forall i sa cin acc st,
  (i + length ps < sa)%nat ->
  rsat_aux ps i sa cin acc st = ripple_aux ps cin acc st.
Proof.
  induction ps as [|[x y] ps IH]; intros i sa cin acc st H; [reflexivity|].
  cbn [rsat_aux ripple_aux length] in *.
  replace (Nat.eqb (S i) sa) with false by (symmetry; apply Nat.eqb_neq; lia).
  unfold bind. destruct (full_adder x y cin st) as [[c s] st1]. apply IH. lia.
Qed.

Lemma rsat_aux_eq ps x y : forall i sa cin acc st,
  (i + length ps + 1 = sa)%nat ->
  rsat_aux (ps ++ [(x, y)]) i sa cin acc st
  = bind (ripple_aux ps cin acc)
         (fun r => s <- saturate_adder x y (fst r) ;; ret (fst r, snd r ++ [s])) st.
Proof.
  induction ps as [|[x' y'] ps IH]; intros i sa cin acc st H.
  - cbn [app rsat_aux ripple_aux length] in *.
    replace (Nat.eqb (S i) sa) with true by (symmetry; apply Nat.eqb_eq; lia).
    reflexivity.
  - cbn [app rsat_aux ripple_aux length] in *.
    replace (Nat.eqb (S i) sa) with false by (symmetry; apply Nat.eqb_neq; lia).
    unfold bind.
    destruct (full_adder x' y' cin st) as [[c s] st1]. rewrite IH by lia. reflexivity.
Qed.

Lemma combine_app {A B} (a a' : list A) (b b' : list B) :
  length a = length b -> combine (a ++ a') (b ++ b') = combine a b ++ combine a' b'.
Proof.
  revert b. induction a as [|x a IH]; intros [|y b] H; try discriminate; [reflexivity|].
  cbn [app combine]. f_equal. apply IH. cbn [length] in H. lia.
Qed.

(** * [ripple_saturate] on two MSB-first operands of equal width [w],
      [0 < w <= sa]. *)
Definition ripple_saturate_post (n : Z) (xs ys : list Z) (sa : nat)
  (o : option (list Z)) (n' : Z) (new : cnf) : Prop :=
  exists out, o = Some out /\ Forall (fresh_in n n') out /\
    if (length xs <? sa)%nat then
      length out = S (length xs) /\
      forall s, sat s new = true ->
        msbv (lits s out) = msbv (lits s xs) + msbv (lits s ys)
    else
      length out = length xs /\
      forall s, sat s new = true -> exists cr : bool,
        msbv (lits s (tl out)) + 2 ^ (Z.of_nat (length xs) - 1) * Z.b2z cr
        = msbv (lits s (tl xs)) + msbv (lits s (tl ys)) /\
        lit_true s (hd 0 out)
        = lit_true s (hd 0 xs) || lit_true s (hd 0 ys) || cr.

Lemma ripple_saturate_spec n xs ys sa :
  0 <= n -> length xs = length ys -> (0 < length xs <= sa)%nat ->
  Forall (inr n) xs -> Forall (inr n) ys ->
  Spec (ripple_saturate xs ys sa) n (ripple_saturate_post n xs ys sa).
Proof.
  intros Hn Hlen Hw Hxs Hys. unfold ripple_saturate, ripple_saturate_post.
  destruct (length xs <? sa)%nat eqn:E.
  - apply Nat.ltb_lt in E.
    assert (Hl : length (combine (rev xs) (rev ys)) = length xs).
    { rewrite combine_length, !rev_length. lia. }
    eapply spec_bind.
    { eapply spec_ext; [intros st; apply rsat_aux_lt; cbn; lia|].
      apply (ripple_aux_spec (combine (rev xs) (rev ys)) n None []); [assumption| |exact I].
      apply Forall_pinr_combine; now apply Forall_rev. }
    intros [co out] n1 new1 Hle (Hn1 & sums & Hout & Hlen' & Hfr & Hco & Hsem).
    cbn [fst snd app] in *. subst out. rewrite Hl in *.
    destruct (combine (rev xs) (rev ys)) as [|p ps] eqn:Ec.
    { cbn [length] in Hl. lia. }
    destruct Hco as (c & -> & Hc).
    apply spec_ret; [lia|].
    exists (rev (sums ++ [c])). split; [reflexivity|].
    split. { apply Forall_rev. apply Forall_app. split; [assumption|]. now constructor. }
    split. { rewrite rev_length, app_length. cbn [length]. lia. }
    intros s Hs. rewrite app_nil_r in Hs. specialize (Hsem s Hs).
    rewrite <- Ec in Hsem.
    rewrite combine_fst, combine_snd in Hsem by (rewrite !rev_length; lia).
    rewrite lits_rev, msbv_rev, lits_app, lsbv_app, lits_length.
    cbn [lits map lsbv olit Z.b2z] in *. unfold msbv. rewrite <- !lits_rev.
    cbn [lits]. rewrite Hlen'. lia.
  - apply Nat.ltb_ge in E. assert (Hsa : length xs = sa) by lia.
    destruct xs as [|xt xs']; [cbn [length] in Hw; lia|].
    destruct ys as [|yt ys']; [discriminate|].
    cbn [length] in Hlen, Hsa.
    inversion Hxs as [|? ? Hxt Hxs']; subst. inversion Hys as [|? ? Hyt Hys']; subst.
    assert (Hl : length (combine (rev xs') (rev ys')) = length xs').
    { rewrite combine_length, !rev_length. lia. }
    cbn [rev]. rewrite combine_app by (rewrite !rev_length; lia). cbn [combine].
    eapply spec_bind.
    { eapply spec_ext; [intros st; apply rsat_aux_eq; cbn; lia|].
      eapply spec_bind.
      { apply (ripple_aux_spec (combine (rev xs') (rev ys')) n None []); [assumption| |exact I].
        apply Forall_pinr_combine; now apply Forall_rev. }
      intros [co out] n1 new1 Hle (Hn1 & sums & Hout & Hlen' & Hfr & Hco & Hsem).
      cbn [fst snd app] in *. subst out.
      assert (Hco' : oinr n1 co).
      { destruct (combine (rev xs') (rev ys')).
        - subst co. exact I.
        - destruct Hco as (c & -> & Hc). cbn [oinr]. apply (fresh_in_inr n); assumption. }
      eapply spec_bind.
      { apply (saturate_adder_spec n1 xt yt co); [lia| | |assumption];
          eapply inr_le; try eassumption. }
      intros sv n2 new2 Hle2 (-> & -> & Hsat).
      apply spec_ret; [lia|].
      instantiate (1 := fun r n2 new =>
        n <= n2 /\ exists co sums, r = (co, sums ++ [n2]) /\ length sums = length xs' /\
          Forall (fresh_in n n2) sums /\ n < n2 /\
          forall s, sat s new = true ->
            (lsbv (lits s sums) + 2 ^ Z.of_nat (length xs') * Z.b2z (olit s co)
             = msbv (lits s xs') + msbv (lits s ys')) /\
            s n2 = lit_true s xt || lit_true s yt || olit s co).
      cbn beta. split; [lia|]. exists co, sums. split; [reflexivity|].
      split; [lia|]. split; [apply (Forall_fresh_le n n1); [lia|assumption]|].
      split; [lia|]. intros s Hs. rewrite app_nil_r in Hs.
      rewrite sat_app, andb_true_iff in Hs. destruct Hs as [Hs1 Hs2].
      split; [|now apply Hsat].
      specialize (Hsem s Hs1). rewrite Hl in Hsem.
      rewrite combine_fst, combine_snd in Hsem by (rewrite !rev_length; lia).
      unfold msbv. rewrite <- !lits_rev. cbn [olit Z.b2z] in Hsem. lia. }
    cbn beta.
    intros r n2 new2 Hle2 (Hle3 & co & sums & -> & Hls & Hfr & Hlt & Hsem).
    cbn [length].
    apply spec_ret; [lia|].
    exists (rev (sums ++ [n2])). split; [reflexivity|].
    split.
    { apply Forall_rev. apply Forall_app. split; [assumption|].
      constructor; [unfold fresh_in; lia|constructor]. }
    split. { rewrite rev_length, app_length. cbn [length]. lia. }
    intros s Hs. rewrite app_nil_r in Hs. destruct (Hsem s Hs) as [H1 H2].
    exists (olit s co). rewrite rev_app_distr. cbn [rev app hd tl].
    rewrite lits_rev, msbv_rev. split.
    + replace (Z.of_nat (S (length xs')) - 1) with (Z.of_nat (length xs')) by lia. exact H1.
    + rewrite lit_true_pos by lia. exact H2.
Qed.

(** * Population count *)

(** Width of the partial counts at level [lvl] (groups of [2^lvl] inputs). *)
Definition wd (sa lvl : nat) : nat :=
  match sa with O => S lvl | _ => Nat.min (S lvl) sa end.

(** [b] (MSB first) holds the saturated count [N] of a group of [2^lvl] inputs. *)
Definition Rep (sa lvl : nat) (s : asg) (b : list Z) (N : Z) : Prop :=
  msbv (lits s b) = satv sa N /\ 0 <= N <= 2 ^ Z.of_nat lvl.

Definition pair_add (x y : list Z) (sa : nat) : M (option (list Z)) :=
  if Nat.eqb sa 0 then
    cs <- ripple_carry x y ;;
    match fst cs with
    | Some c => ret (Some (c :: rev (snd cs)))
    | None => ret None
    end
  else ripple_saturate x y sa.

Definition pair_add_post (n : Z) (x y : list Z) (sa lvl : nat)
  (o : option (list Z)) (n' : Z) (new : cnf) : Prop :=
  exists out, o = Some out /\ length out = wd sa (S lvl) /\
    Forall (fresh_in n n') out /\
    forall s, sat s new = true -> forall Nx Ny,
      Rep sa lvl s x Nx -> Rep sa lvl s y Ny -> Rep sa (S lvl) s out (Nx + Ny).

Lemma pow2_le_mono (a b : nat) : (a <= b)%nat -> 2 ^ Z.of_nat a <= 2 ^ Z.of_nat b.
Proof. intros H. apply Z.pow_le_mono_r; lia. Qed.

Lemma pair_add_spec n x y sa lvl :
  0 <= n -> length x = wd sa lvl -> length y = wd sa lvl ->
  Forall (inr n) x -> Forall (inr n) y ->
  Spec (pair_add x y sa) n (pair_add_post n x y sa lvl).
Proof.
  intros Hn Hlx Hly Hx Hy. unfold pair_add, pair_add_post.
  destruct sa as [|m].
  - (* no saturation: ripple_carry *)
    cbn [Nat.eqb wd] in *.
    eapply spec_bind; [apply ripple_carry_spec; try assumption; lia|].
    intros [co sums] n1 new1 Hle (Hn1 & Hls & Hfr & Hco & Hsem). cbn [fst snd] in *.
    destruct x as [|x0 x']; [discriminate|].
    destruct Hco as (c & -> & Hc).
    apply spec_ret; [lia|].
    exists (c :: rev sums). split; [reflexivity|].
    split; [cbn [length]; rewrite rev_length; lia|].
    split; [constructor; [assumption|now apply Forall_rev]|].
    intros s Hs Nx Ny [Hx1 Hx2] [Hy1 Hy2]. rewrite app_nil_r in Hs.
    specialize (Hsem s Hs). cbn [satv] in *. split.
    + cbn [lits map]. rewrite msbv_cons. fold (lits s (rev sums)).
      rewrite lits_rev, msbv_rev, rev_length, lits_length, Hls.
      cbn [olit] in Hsem. cbn [satv]. lia.
    + rewrite pow2_S. lia.
  - cbn [Nat.eqb].
    assert (Hw : (0 < length x <= S m)%nat).
    { rewrite Hlx. cbn [wd]. lia. }
    eapply spec_conseq; [apply ripple_saturate_spec; try assumption; lia|].
    intros o n1 new1 Hle (out & -> & Hfr & Hcase).
    exists out. split; [reflexivity|].
    destruct (length x <? S m)%nat eqn:E.
    + apply Nat.ltb_lt in E. destruct Hcase as [Hlo Hsem].
      assert (Hlvl : (S lvl < S m)%nat).
      { rewrite Hlx in E. cbn [wd] in E. lia. }
      split. { rewrite Hlo, Hlx. cbn [wd]. lia. }
      split; [assumption|].
      intros s Hs Nx Ny [Hx1 Hx2] [Hy1 Hy2].
      pose proof (pow2_le_mono lvl m ltac:(lia)) as Hp1.
      pose proof (pow2_le_mono (S lvl) m ltac:(lia)) as Hp2.
      rewrite pow2_S in Hp2.
      replace (Z.of_nat m) with (Z.of_nat (S m) - 1) in Hp1, Hp2 by lia.
      rewrite satv_small in Hx1, Hy1 by (intros; lia).
      split; [|rewrite pow2_S; lia].
      rewrite (Hsem s Hs), satv_small by (intros; lia). lia.
    + apply Nat.ltb_ge in E. destruct Hcase as [Hlo Hsem].
      assert (Hlen : length x = S m) by lia.
      split. { rewrite Hlo. rewrite Hlx in *. cbn [wd] in *. lia. }
      split; [assumption|].
      intros s Hs Nx Ny [Hx1 Hx2] [Hy1 Hy2]. split; [|rewrite pow2_S; lia].
      destruct (Hsem s Hs) as (cr & Hlow & Htop).
      destruct x as [|xt x']; [discriminate|]. destruct y as [|yt y']; [cbn [wd length] in *; lia|].
      destruct out as [|ot out']; [cbn [length] in *; lia|].
      cbn [hd tl length] in *.
      assert (Hlx' : length x' = m) by lia.
      assert (Hly' : length y' = m) by lia.
      assert (Hlo' : length out' = m) by lia.
      cbn [lits map] in Hx1, Hy1 |- *. fold (lits s x') in *. fold (lits s y') in *.
      fold (lits s out') in *.
      rewrite msbv_cons, lits_length in Hx1, Hy1 |- *.
      rewrite Hlx' in Hx1. rewrite Hly' in Hy1. rewrite Hlo'.
      replace (Z.of_nat (S (length x')) - 1) with (Z.of_nat m) in Hlow by lia.
      pose proof (msbv_bounds (lits s x')) as Bx. rewrite lits_length, Hlx' in Bx.
      pose proof (msbv_bounds (lits s y')) as By. rewrite lits_length, Hly' in By.
      pose proof (msbv_bounds (lits s out')) as Bo. rewrite lits_length, Hlo' in Bo.
      rewrite Htop.
      apply (satv_add_full m Nx Ny (msbv (lits s x')) (msbv (lits s y'))); try assumption; lia.
Qed.

Definition sumZ (l : list Z) : Z := fold_right Z.add 0 l.

Lemma sumZ_cons x a : sumZ (x :: a) = x + sumZ a.
Proof. reflexivity. Qed.

Lemma sumZ_nil : sumZ [] = 0.
Proof. reflexivity. Qed.

Lemma sumZ_app a b : sumZ (a ++ b) = sumZ a + sumZ b.
Proof. unfold sumZ. induction a as [|x a IH]; cbn [app fold_right] in *; lia. Qed.

Lemma sumZ_rev a : sumZ (rev a) = sumZ a.
Proof.
  induction a as [|x a IH]; [reflexivity|].
  cbn [rev]. rewrite sumZ_app, IH, !sumZ_cons, sumZ_nil. lia.
Qed.

Lemma Forall2_rev {A B} (R : A -> B -> Prop) l l' :
  Forall2 R l l' -> Forall2 R (rev l) (rev l').
Proof.
  induction 1 as [|x y l l' Hxy _ IH]; [constructor|].
  cbn [rev]. apply Forall2_app; [assumption|]. now repeat constructor.
Qed.

Definition wf_bits (n : Z) (sa lvl : nat) (bits : list (list Z)) : Prop :=
  Forall (fun b => length b = wd sa lvl /\ Forall (inr n) b) bits.

Lemma wf_bits_le n m sa lvl bits : n <= m -> wf_bits n sa lvl bits -> wf_bits m sa lvl bits.
Proof.
  intros H. apply Forall_impl. intros b [H1 H2]. split; [assumption|].
  now apply (Forall_inr_le n).
Qed.

Definition layer_post (n : Z) (l r : list (list Z)) (sa lvl : nat)
  (o : option (list (list Z))) (n' : Z) (new : cnf) : Prop :=
  exists vl, o = Some vl /\ length vl = length l /\ wf_bits n' sa (S lvl) vl /\
    forall s, sat s new = true -> forall Nl Nr,
      Forall2 (Rep sa lvl s) l Nl -> Forall2 (Rep sa lvl s) r Nr ->
      exists Ns, Forall2 (Rep sa (S lvl) s) vl Ns /\ sumZ Ns = sumZ Nl + sumZ Nr.

Lemma layer_pairs_spec sa lvl l : forall r n,
  0 <= n -> length l = length r -> wf_bits n sa lvl l -> wf_bits n sa lvl r ->
  Spec (layer_pairs l r sa) n (layer_post n l r sa lvl).
Proof.
  induction l as [|x l IH]; intros r n Hn Hlen Hl Hr.
  - cbn [layer_pairs]. apply spec_ret; [assumption|].
    exists []. split; [reflexivity|]. split; [reflexivity|]. split; [constructor|].
    intros s _ Nl Nr HNl HNr. inversion HNl; subst. destruct r; [|discriminate].
    inversion HNr; subst. exists []. split; [constructor|reflexivity].
  - destruct r as [|y r]; [discriminate|]. cbn [length] in Hlen.
    inversion Hl as [|? ? [Hx1 Hx2] Hl']; subst. inversion Hr as [|? ? [Hy1 Hy2] Hr']; subst.
    cbn [layer_pairs]. fold (pair_add x y sa).
    eapply spec_bind; [apply (pair_add_spec n x y sa lvl); assumption|].
    intros o n1 new1 Hle (out & -> & Hlo & Hfo & Hsem1).
    eapply spec_bind.
    { apply (IH r n1); [lia|lia| |]; apply (wf_bits_le n); assumption || lia. }
    intros o2 n2 new2 Hle2 (vl & -> & Hlv & Hwv & Hsem2).
    apply spec_ret; [lia|].
    exists (out :: vl). split; [reflexivity|]. split; [cbn [length]; lia|].
    split.
    { constructor; [|assumption]. split; [assumption|].
      apply (Forall_inr_le n1); [lia|]. apply (Forall_fresh_inr n); assumption. }
    intros s Hs Nl Nr HNl HNr. rewrite app_nil_r in Hs.
    rewrite sat_app, andb_true_iff in Hs. destruct Hs as [Hs1 Hs2].
    inversion HNl as [|? Nx ? Nl' HRx HNl']; subst.
    inversion HNr as [|? Ny ? Nr' HRy HNr']; subst.
    destruct (Hsem2 s Hs2 Nl' Nr' HNl' HNr') as (Ns & HNs & Hsum).
    exists ((Nx + Ny) :: Ns). split.
    + constructor; [|assumption]. now apply (Hsem1 s Hs1).
    + rewrite !sumZ_cons. lia.
Qed.

Lemma pop_layer_step f bits sa :
  (2 <= length bits)%nat ->
  pop_layer (S f) bits sa
  = (o <- layer_pairs (firstn (Nat.div (length bits) 2) bits)
                      (skipn (Nat.div (length bits) 2) bits) sa ;;
     match o with
     | Some vl => pop_layer f (rev vl) sa
     | None => ret None
     end).
Proof.
  intros H. destruct bits as [|b1 [|b2 rest]]; cbn [length] in H; try lia. reflexivity.
Qed.

Lemma pow2_nat_pos j : (0 < 2 ^ j)%nat.
Proof. induction j; cbn [Nat.pow]; lia. Qed.

Definition pop_layer_post (sa lvl j : nat) (bits : list (list Z))
  (o : option (list Z)) (n' : Z) (new : cnf) : Prop :=
  exists out, o = Some out /\ length out = wd sa (lvl + j) /\ Forall (inr n') out /\
    forall s, sat s new = true -> forall Ns,
      Forall2 (Rep sa lvl s) bits Ns -> Rep sa (lvl + j) s out (sumZ Ns).

Lemma pop_layer_spec sa j : forall fuel bits n lvl,
  0 <= n -> (j < fuel)%nat -> length bits = (2 ^ j)%nat -> wf_bits n sa lvl bits ->
  Spec (pop_layer fuel bits sa) n (pop_layer_post sa lvl j bits).
Proof.
  induction j as [|j IH]; intros fuel bits n lvl Hn Hf Hlen Hwf.
  - destruct fuel as [|f]; [lia|].
    destruct bits as [|b [|b2 rest]]; try discriminate.
    cbn [pop_layer]. apply spec_ret; [assumption|].
    inversion Hwf as [|? ? [Hb1 Hb2] _]; subst.
    exists b. split; [reflexivity|]. rewrite Nat.add_0_r.
    split; [assumption|]. split; [assumption|].
    intros s _ Ns HNs. inversion HNs as [|? N ? ? HR HNs']; subst. inversion HNs'; subst.
    rewrite sumZ_cons, sumZ_nil. now rewrite Z.add_0_r.
  - destruct fuel as [|f]; [lia|].
    pose proof (pow2_nat_pos j) as Hp.
    assert (Hlen2 : length bits = (2 ^ j + 2 ^ j)%nat).
    { rewrite Hlen. cbn [Nat.pow]. lia. }
    rewrite pop_layer_step by lia.
    assert (Hmid : Nat.div (length bits) 2 = (2 ^ j)%nat).
    { rewrite Hlen2. replace (2 ^ j + 2 ^ j)%nat with (2 ^ j * 2)%nat by lia.
      apply Nat.div_mul. lia. }
    rewrite Hmid.
    set (l := firstn (2 ^ j) bits). set (r := skipn (2 ^ j) bits).
    assert (Hbits : bits = l ++ r) by (symmetry; apply firstn_skipn).
    assert (Hll : length l = (2 ^ j)%nat) by (unfold l; rewrite firstn_length; lia).
    assert (Hlr : length r = (2 ^ j)%nat) by (unfold r; rewrite skipn_length; lia).
    rewrite Hbits in Hwf. apply Forall_app in Hwf. destruct Hwf as [Hwl Hwr].
    eapply spec_bind; [apply (layer_pairs_spec sa lvl l r n); try assumption; lia|].
    intros o n1 new1 Hle (vl & -> & Hlv & Hwv & Hsem1).
    eapply spec_conseq.
    { apply (IH f (rev vl) n1 (S lvl)); [lia|lia| |].
      - rewrite rev_length. lia.
      - apply Forall_rev. exact Hwv. }
    intros o2 n2 new2 Hle2 (out & -> & Hlo & Hro & Hsem2).
    exists out. split; [reflexivity|].
    replace (lvl + S j)%nat with (S lvl + j)%nat by lia.
    split; [assumption|]. split; [assumption|].
    intros s Hs Ns HNs. rewrite sat_app, andb_true_iff in Hs. destruct Hs as [Hs1 Hs2].
    rewrite Hbits in HNs. apply Forall2_app_inv_l in HNs.
    destruct HNs as (Nl & Nr & HNl & HNr & ->).
    destruct (Hsem1 s Hs1 Nl Nr HNl HNr) as (Ns' & HNs' & Hsum).
    rewrite sumZ_app, <- Hsum, <- sumZ_rev.
    apply (Hsem2 s Hs2). now apply Forall2_rev.
Qed.

(** ** [log2_up_nat] *)

Lemma log2_up_nat_spec fuel : forall n p,
  (n <= 2 ^ (p + fuel))%nat ->
  let r := log2_up_nat fuel n p in
  (n <= 2 ^ r /\ p <= r /\ (r = p \/ 2 ^ (r - 1) < n))%nat.
Proof.
  induction fuel as [|f IH]; intros n p H; cbn [log2_up_nat].
  - rewrite Nat.add_0_r in H. lia.
  - destruct (Nat.leb n (2 ^ p)) eqn:E.
    + apply Nat.leb_le in E. lia.
    + apply Nat.leb_gt in E.
      destruct (IH n (S p)) as (H1 & H2 & H3).
      { replace (S p + f)%nat with (p + S f)%nat by lia. exact H. }
      split; [assumption|]. split; [lia|]. right. destruct H3 as [H3|H3]; [|assumption].
      rewrite H3. replace (S p - 1)%nat with p by lia. exact E.
Qed.

Definition clog2 (n : nat) : nat := log2_up_nat n n 0.

Lemma clog2_spec n :
  (n <= 2 ^ clog2 n /\ (clog2 n = 0 \/ 2 ^ (clog2 n - 1) < n))%nat.
Proof.
  unfold clog2. destruct (log2_up_nat_spec n n 0) as (H1 & _ & H3).
  - cbn [Nat.add]. apply Nat.lt_le_incl. apply Nat.pow_gt_lin_r. lia.
  - split; assumption.
Qed.

Lemma clog2_lt n : (clog2 n <= n)%nat.
Proof.
  destruct (clog2_spec n) as [_ [H|H]]; [lia|].
  pose proof (Nat.pow_gt_lin_r 2 (clog2 n - 1) ltac:(lia)). lia.
Qed.

(** ** [pop_count] *)

Definition pop_count_post (n : Z) (vs : list Z) (sa : nat)
  (o : option (list Z)) (n' : Z) (new : cnf) : Prop :=
  exists out, o = Some out /\ length out = wd sa (clog2 (length vs)) /\
    Forall (inr n') out /\
    forall s, sat s new = true -> msbv (lits s out) = satv sa (count s vs).

Lemma Rep_single sa s x : Rep sa 0 s [x] (Z.b2z (lit_true s x)).
Proof.
  split.
  - cbn [lits map]. rewrite msbv_cons, msbv_nil. cbn [length].
    change (Z.of_nat 0) with 0. rewrite Z.pow_0_r.
    rewrite satv_small; [lia|destruct (lit_true s x); cbn; lia|].
    intros Hsa. assert (0 < 2 ^ (Z.of_nat sa - 1)) by (apply Z.pow_pos_nonneg; lia).
    destruct (lit_true s x); cbn [Z.b2z]; lia.
  - change (Z.of_nat 0) with 0. rewrite Z.pow_0_r. destruct (lit_true s x); cbn; lia.
Qed.

Lemma Rep_singles sa s ls :
  Forall2 (Rep sa 0 s) (map (fun x => [x]) ls) (map (fun x => Z.b2z (lit_true s x)) ls).
Proof.
  induction ls as [|x ls IH]; cbn [map]; constructor; [apply Rep_single|assumption].
Qed.

Lemma sumZ_count s ls : sumZ (map (fun x => Z.b2z (lit_true s x)) ls) = count s ls.
Proof.
  induction ls as [|x ls IH]; [reflexivity|].
  cbn [map]. rewrite sumZ_cons, count_cons, IH. reflexivity.
Qed.

Lemma wd_0 sa : wd sa 0 = 1%nat.
Proof. destruct sa as [|m]; cbn [wd]; lia. Qed.

Lemma pop_count_unfold vs sa :
  vs <> [] ->
  pop_count vs sa
  = (aux <- nfresh (2 ^ clog2 (length vs) - length vs) ;;
     zero_out aux ;;;
     pop_layer (S (length vs)) (map (fun x => [x]) (vs ++ aux)) sa).
Proof. destruct vs; [congruence|reflexivity]. Qed.

Lemma pop_count_spec n vs sa :
  0 <= n -> vs <> [] -> Forall (inr n) vs ->
  Spec (pop_count vs sa) n (pop_count_post n vs sa).
Proof.
  intros Hn Hne Hvs. rewrite pop_count_unfold by assumption.
  set (p := clog2 (length vs)). set (k := (2 ^ p - length vs)%nat).
  destruct (clog2_spec (length vs)) as [Hp1 Hp2]. fold p in Hp1, Hp2.
  pose proof (clog2_lt (length vs)) as Hp3. fold p in Hp3.
  destruct (zero_cls_defines n k Hn) as [e0 D0].
  eapply (spec_prefix _ (pop_layer (S (length vs))
            (map (fun x => [x]) (vs ++ zseq (n + 1) k)) sa) n (n + Z.of_nat k)
            (zero_cls (zseq (n + 1) k)) e0).
  { intros cs. unfold bind. rewrite nfresh_run. unfold zero_out. rewrite emit_run.
    reflexivity. }
  { exact D0. }
  eapply spec_conseq.
  { apply (pop_layer_spec sa p (S (length vs)) _ (n + Z.of_nat k) 0%nat); [lia|lia| |].
    - rewrite map_length, app_length, zseq_length. unfold k. lia.
    - apply Forall_forall. intros b Hb. apply in_map_iff in Hb. destruct Hb as (x & <- & Hx).
      split; [now rewrite wd_0|]. constructor; [|constructor].
      apply in_app_or in Hx. destruct Hx as [Hx|Hx].
      + rewrite Forall_forall in Hvs. apply (inr_le n); [lia|]. now apply Hvs.
      + apply zseq_In in Hx. unfold inr. lia. }
  intros o n' new Hle (out & -> & Hlo & Hro & Hsem).
  exists out. split; [reflexivity|]. cbn [Nat.add] in Hlo. split; [assumption|].
  split; [assumption|].
  intros s Hs. rewrite sat_app, andb_true_iff in Hs. destruct Hs as [Hs0 Hs1].
  pose proof (Hsem s Hs1 _ (Rep_singles sa s _)) as [Hv _].
  rewrite sumZ_count, count_app in Hv. rewrite Hv. f_equal.
  rewrite (count_all_false s (zseq (n + 1) k)); [lia|].
  apply zero_cls_sat in Hs0; [|apply zseq_pos; lia].
  rewrite Forall_forall in Hs0. exact Hs0.
Qed.

(** * Explicit statements (used by [Properties/C12.v]) *)

Lemma ripple_saturate_correct : forall n xs ys sa,
  0 <= n -> length xs = length ys -> (0 < length xs <= sa)%nat ->
  Forall (inr n) xs -> Forall (inr n) ys ->
  exists out n' new ext,
    (forall cs, ripple_saturate xs ys sa {| next := n; cls := cs |}
                = (Some out, {| next := n'; cls := cs ++ new |})) /\
    Defines n n' new ext /\
    Forall (fresh_in n n') out /\
    if (length xs <? sa)%nat then
      length out = S (length xs) /\
      forall s, sat s new = true ->
        msbv (lits s out) = msbv (lits s xs) + msbv (lits s ys)
    else
      length out = length xs /\
      forall s, sat s new = true ->
        let low := msbv (lits s (tl xs)) + msbv (lits s (tl ys)) in
        let M := 2 ^ (Z.of_nat (length xs) - 1) in
        msbv (lits s (tl out)) = low mod M /\
        lit_true s (hd 0 out)
        = lit_true s (hd 0 xs) || lit_true s (hd 0 ys) || (M <=? low).
Proof.
  intros n xs ys sa Hn Hl Hw Hx Hy.
  destruct (ripple_saturate_spec n xs ys sa Hn Hl Hw Hx Hy)
    as (o & n' & new & ext & R & D & out & -> & Hfr & Hcase).
  exists out, n', new, ext. split; [exact R|]. split; [exact D|]. split; [exact Hfr|].
  destruct (length xs <? sa)%nat; [exact Hcase|].
  destruct Hcase as [Hlo Hsem]. split; [exact Hlo|].
  intros s Hs low M. destruct (Hsem s Hs) as (cr & H1 & H2). fold low in H1. fold M in H1.
  pose proof (msbv_bounds (lits s (tl out))) as B. rewrite lits_length in B.
  assert (Hlt : length (tl out) = (length xs - 1)%nat).
  { destruct out; cbn [tl length] in *; lia. }
  rewrite Hlt in B. replace (Z.of_nat (length xs - 1)) with (Z.of_nat (length xs) - 1) in B by lia.
  fold M in B. rewrite H2.
  destruct cr; cbn [Z.b2z] in H1.
  - replace low with (msbv (lits s (tl out)) + 1 * M) by lia.
    rewrite Z_mod_plus_full, Z.mod_small by lia. split; [reflexivity|].
    f_equal. symmetry. apply Z.leb_le. lia.
  - replace low with (msbv (lits s (tl out))) by lia.
    rewrite Z.mod_small by lia. split; [reflexivity|].
    f_equal. symmetry. apply Z.leb_gt. lia.
Qed.

Lemma satv_exact sa p N :
  0 <= N <= 2 ^ Z.of_nat p -> (sa = 0 \/ wd sa p < sa)%nat -> satv sa N = N.
Proof.
  intros HN Hc. apply satv_small; [lia|]. intros Hsa.
  destruct sa as [|m]; [congruence|]. destruct Hc as [Hc|Hc]; [discriminate|].
  cbn [wd] in Hc. pose proof (pow2_le_mono p m ltac:(lia)).
  replace (Z.of_nat (S m) - 1) with (Z.of_nat m) by lia. lia.
Qed.

Lemma satv_split sa (bits : list bool) N :
  0 <= N -> sa <> O -> length bits = sa -> msbv bits = satv sa N ->
  msbv (tl bits) = N mod 2 ^ (Z.of_nat sa - 1) /\
  hd false bits = (2 ^ (Z.of_nat sa - 1) <=? N).
Proof.
  intros HN Hsa Hl Hv. destruct sa as [|m]; [congruence|].
  replace (Z.of_nat (S m) - 1) with (Z.of_nat m) by lia.
  destruct bits as [|t r]; [discriminate|]. cbn [length hd tl] in *.
  rewrite msbv_cons in Hv. cbn [satv] in Hv.
  assert (Hr : length r = m) by lia. rewrite Hr in Hv.
  pose proof (msbv_bounds r) as B. rewrite Hr in B.
  pose proof (pow2_pos m) as HM.
  pose proof (Z.mod_pos_bound N (2 ^ Z.of_nat m) HM) as BN.
  destruct (decomp_unique (2 ^ Z.of_nat m) (msbv r) (Z.b2z t)
              (N mod 2 ^ Z.of_nat m) (if 2 ^ Z.of_nat m <=? N then 1 else 0)) as [E1 E2];
    try assumption.
  { destruct (2 ^ Z.of_nat m <=? N); lia. }
  split; [exact E1|]. destruct (2 ^ Z.of_nat m <=? N), t; cbn [Z.b2z] in E2; try reflexivity; lia.
Qed.

Lemma pop_count_correct : forall n vs sa,
  0 <= n -> vs <> [] -> Forall (inr n) vs ->
  exists out n' new ext,
    (forall cs, pop_count vs sa {| next := n; cls := cs |}
                = (Some out, {| next := n'; cls := cs ++ new |})) /\
    Defines n n' new ext /\
    let p := clog2 (length vs) in
    (length vs <= 2 ^ p /\ (p = 0 \/ 2 ^ (p - 1) < length vs))%nat /\
    length out = wd sa p /\ Forall (inr n') out /\
    forall s, sat s new = true ->
      let N := count s vs in
      msbv (lits s out) = satv sa N /\
      ((sa = 0 \/ length out < sa)%nat -> msbv (lits s out) = N) /\
      (length out = sa ->
         msbv (lits s (tl out)) = N mod 2 ^ (Z.of_nat sa - 1) /\
         lit_true s (hd 0 out) = (2 ^ (Z.of_nat sa - 1) <=? N)).
Proof.
  intros n vs sa Hn Hne Hvs.
  destruct (pop_count_spec n vs sa Hn Hne Hvs)
    as (o & n' & new & ext & R & D & out & -> & Hlo & Hro & Hsem).
  exists out, n', new, ext. split; [exact R|]. split; [exact D|].
  intros p. pose proof (clog2_spec (length vs)) as Hp. fold p in Hp.
  split; [exact Hp|]. split; [exact Hlo|]. split; [exact Hro|].
  intros s Hs N. specialize (Hsem s Hs). fold N in Hsem.
  pose proof (count_bounds s vs) as HN. fold N in HN.
  assert (HN2 : 0 <= N <= 2 ^ Z.of_nat p).
  { split; [lia|]. destruct Hp as [Hp _].
    apply Nat2Z.inj_le in Hp. rewrite Nat2Z.inj_pow in Hp. cbn in Hp. lia. }
  split; [exact Hsem|]. split.
  - intros Hc. rewrite Hsem. apply (satv_exact sa p); [assumption|]. fold p in Hlo. lia.
  - intros Hw.
    assert (Hsa : sa <> O).
    { intros ->. fold p in Hlo. rewrite Hlo in Hw. cbn [wd] in Hw. lia. }
    destruct (satv_split sa (lits s out) N) as [E1 E2]; try assumption; try lia.
    { now rewrite lits_length. }
    split.
    + destruct out; exact E1.
    + rewrite <- E2. destruct out; [cbn [length] in Hw; lia|reflexivity].
Qed.
