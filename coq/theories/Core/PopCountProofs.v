(** Saturating ripple adder and population count of [Core/CnfModel.v]. *)
From Coq Require Import ZArith List Bool Lia ZifyBool Arith.
From SP Require Import Base.Sat Base.Bits Core.CnfModel Core.CnfProofs.
Import ListNotations.
Open Scope Z_scope.

(** * [rsat_aux] in terms of [ripple_aux] *)

Lemma rsat_aux_lt ps : forall i sa cin acc st,
  (i + length ps < sa)%nat ->
  rsat_aux ps i sa cin acc st = ripple_aux ps cin acc st.
Proof.
  induction ps as [|[x y] ps IH]; intros i sa cin acc st H; [reflexivity|].
  cbn [rsat_aux ripple_aux length] in *.
  replace (Nat.eqb (S i) sa) with false by (symmetry; apply Nat.eqb_neq; lia).
  unfold bind. destruct (full_adder x y cin st) as [[c s] st1]. apply IH. lia.
Qed.

Lemma rsat_aux_eq ps x y : forall i sa cin acc st,
  (i + length ps + 1 = sa)%nat ->
  rsat_aux (ps ++ [(x, y)]) i sa cin acc st
  = bind (ripple_aux ps cin acc)
         (fun r => s <- saturate_adder x y (fst r) ;; ret (fst r, snd r ++ [s])) st.
Proof.
  induction ps as [|[x' y'] ps IH]; intros i sa cin acc st H.
  - cbn [app rsat_aux ripple_aux length] in *.
    replace (Nat.eqb (S i) sa) with true by (symmetry; apply Nat.eqb_eq; lia).
    reflexivity.
  - cbn [app rsat_aux ripple_aux length] in *.
    replace (Nat.eqb (S i) sa) with false by (symmetry; apply Nat.eqb_neq; lia).
    unfold bind.
    destruct (full_adder x' y' cin st) as [[c s] st1]. rewrite IH by lia. reflexivity.
Qed.

Lemma combine_app {A B} (a a' : list A) (b b' : list B) :
  length a = length b -> combine (a ++ a') (b ++ b') = combine a b ++ combine a' b'.
Proof.
  revert b. induction a as [|x a IH]; intros [|y b] H; try discriminate; [reflexivity|].
  cbn [app combine]. f_equal. apply IH. cbn [length] in H. lia.
Qed.

(** * [ripple_saturate] on two MSB-first operands of equal width [w],
      [0 < w <= sa]. *)
Definition ripple_saturate_post (n : Z) (xs ys : list Z) (sa : nat)
  (o : option (list Z)) (n' : Z) (new : cnf) : Prop :=
  exists out, o = Some out /\ Forall (fresh_in n n') out /\
    if (length xs <? sa)%nat then
      length out = S (length xs) /\
      forall s, sat s new = true ->
        msbv (lits s out) = msbv (lits s xs) + msbv (lits s ys)
    else
      length out = length xs /\
      forall s, sat s new = true -> exists cr : bool,
        msbv (lits s (tl out)) + 2 ^ (Z.of_nat (length xs) - 1) * Z.b2z cr
        = msbv (lits s (tl xs)) + msbv (lits s (tl ys)) /\
        lit_true s (hd 0 out)
        = lit_true s (hd 0 xs) || lit_true s (hd 0 ys) || cr.

Lemma ripple_saturate_spec n xs ys sa :
  0 <= n -> length xs = length ys -> (0 < length xs <= sa)%nat ->
  Forall (inr n) xs -> Forall (inr n) ys ->
  Spec (ripple_saturate xs ys sa) n (ripple_saturate_post n xs ys sa).
Proof.
  intros Hn Hlen Hw Hxs Hys. unfold ripple_saturate, ripple_saturate_post.
  destruct (length xs <? sa)%nat eqn:E.
  - apply Nat.ltb_lt in E.
    assert (Hl : length (combine (rev xs) (rev ys)) = length xs).
    { rewrite combine_length, !rev_length. lia. }
    eapply spec_bind.
    { eapply spec_ext; [intros st; apply rsat_aux_lt; cbn; lia|].
      apply (ripple_aux_spec (combine (rev xs) (rev ys)) n None []); [assumption| |exact I].
      apply Forall_pinr_combine; now apply Forall_rev. }
    intros [co out] n1 new1 Hle (Hn1 & sums & Hout & Hlen' & Hfr & Hco & Hsem).
    cbn [fst snd app] in *. subst out. rewrite Hl in *.
    destruct (combine (rev xs) (rev ys)) as [|p ps] eqn:Ec.
    { cbn [length] in Hl. lia. }
    destruct Hco as (c & -> & Hc).
    apply spec_ret; [lia|].
    exists (rev (sums ++ [c])). split; [reflexivity|].
    split. { apply Forall_rev. apply Forall_app. split; [assumption|]. now constructor. }
    split. { rewrite rev_length, app_length. cbn [length]. lia. }
    intros s Hs. rewrite app_nil_r in Hs. specialize (Hsem s Hs).
    rewrite <- Ec in Hsem.
    rewrite combine_fst, combine_snd in Hsem by (rewrite !rev_length; lia).
    rewrite lits_rev, msbv_rev, lits_app, lsbv_app, lits_length.
    cbn [lits map lsbv olit Z.b2z] in *. unfold msbv. rewrite <- !lits_rev.
    cbn [lits]. rewrite Hlen'. lia.
  - apply Nat.ltb_ge in E. assert (Hsa : length xs = sa) by lia.
    destruct xs as [|xt xs']; [cbn [length] in Hw; lia|].
    destruct ys as [|yt ys']; [discriminate|].
    cbn [length] in Hlen, Hsa.
    inversion Hxs as [|? ? Hxt Hxs']; subst. inversion Hys as [|? ? Hyt Hys']; subst.
    assert (Hl : length (combine (rev xs') (rev ys')) = length xs').
    { rewrite combine_length, !rev_length. lia. }
    cbn [rev]. rewrite combine_app by (rewrite !rev_length; lia). cbn [combine].
    eapply spec_bind.
    { eapply spec_ext; [intros st; apply rsat_aux_eq; cbn; lia|].
      eapply spec_bind.
      { apply (ripple_aux_spec (combine (rev xs') (rev ys')) n None []); [assumption| |exact I].
        apply Forall_pinr_combine; now apply Forall_rev. }
      intros [co out] n1 new1 Hle (Hn1 & sums & Hout & Hlen' & Hfr & Hco & Hsem).
      cbn [fst snd app] in *. subst out.
      assert (Hco' : oinr n1 co).
      { destruct (combine (rev xs') (rev ys')).
        - subst co. exact I.
        - destruct Hco as (c & -> & Hc). cbn [oinr]. apply (fresh_in_inr n); assumption. }
      eapply spec_bind.
      { apply (saturate_adder_spec n1 xt yt co); [lia| | |assumption];
          eapply inr_le; try eassumption. }
      intros sv n2 new2 Hle2 (-> & -> & Hsat).
      apply spec_ret; [lia|].
      instantiate (1 := fun r n2 new =>
        n <= n2 /\ exists co sums, r = (co, sums ++ [n2]) /\ length sums = length xs' /\
          Forall (fresh_in n n2) sums /\ n < n2 /\
          forall s, sat s new = true ->
            (lsbv (lits s sums) + 2 ^ Z.of_nat (length xs') * Z.b2z (olit s co)
             = msbv (lits s xs') + msbv (lits s ys')) /\
            s n2 = lit_true s xt || lit_true s yt || olit s co).
      cbn beta. split; [lia|]. exists co, sums. split; [reflexivity|].
      split; [lia|]. split; [apply (Forall_fresh_le n n1); [lia|assumption]|].
      split; [lia|]. intros s Hs. rewrite app_nil_r in Hs.
      rewrite sat_app, andb_true_iff in Hs. destruct Hs as [Hs1 Hs2].
      split; [|now apply Hsat].
      specialize (Hsem s Hs1). rewrite Hl in Hsem.
      rewrite combine_fst, combine_snd in Hsem by (rewrite !rev_length; lia).
      unfold msbv. rewrite <- !lits_rev. cbn [olit Z.b2z] in Hsem. lia. }
    cbn beta.
    intros r n2 new2 Hle2 (Hle3 & co & sums & -> & Hls & Hfr & Hlt & Hsem).
    cbn [length].
    apply spec_ret; [lia|].
    exists (rev (sums ++ [n2])). split; [reflexivity|].
    split.
    { apply Forall_rev. apply Forall_app. split; [assumption|].
      constructor; [unfold fresh_in; lia|constructor]. }
    split. { rewrite rev_length, app_length. cbn [length]. lia. }
    intros s Hs. rewrite app_nil_r in Hs. destruct (Hsem s Hs) as [H1 H2].
    exists (olit s co). rewrite rev_app_distr. cbn [rev app hd tl].
    rewrite lits_rev, msbv_rev. split.
    + replace (Z.of_nat (S (length xs')) - 1) with (Z.of_nat (length xs')) by lia. exact H1.
    + rewrite lit_true_pos by lia. exact H2.
Qed.
