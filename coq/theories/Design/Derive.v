(** Executable model of [DerivationProcessor.generate_derivations] and
    [shift_window] (sweetpea/_internal/derivation_processor.py) and of the
    per-trial level selection of derived factors in primitive.py / block.py
    ([DerivedLevel.get_dependent_cross_product], [_trial_arguments],
    [DerivedFactor.select_level_for_sample], [test_trial],
    [ElseLevel.derive_level_from_levels], [Block.add_implied_levels]).

    A derived factor is described by its window (the depended-on factors with
    their level counts and, for complex derived dependencies, their start: the
    [ready_at] of [levels_of]), and per level either the table of argument tuples
    its predicate accepts or the [ElseLevel] flag; the complement predicate of an
    else-level is computed here from the other levels' tables, as
    [derive_level_from_levels] does.  Tuples are flat: for each depended-on
    factor [width] cells, oldest first.

    Where Python raises the model returns an error constructor.  Not modelled:
    the construction of [Factor] itself (a factor whose levels are all
    [ElseLevel]s raises there), predicates that do not return [bool]. *)
From Coq Require Import ZArith List Bool Arith.
From SP Require Import Design.Flat Design.Layout.
Import ListNotations.

(** One argument of a predicate: the name of a level (by index in the
    depended-on factor), [None] ([BeforeStart] in the cross product), or the
    empty string [""] that [add_implied_levels] reads from the column of a
    dependency that does not apply at that trial (never part of a domain). *)
Inductive cell := CLevel (n : nat) | CBefore | CEmpty.
Definition tuple := list cell.

Definition cell_eqb (a b : cell) : bool :=
  match a, b with
  | CLevel x, CLevel y => Nat.eqb x y
  | CBefore, CBefore => true
  | CEmpty, CEmpty => true
  | _, _ => false
  end.

Fixpoint tuple_eqb (a b : tuple) : bool :=
  match a, b with
  | [], [] => true
  | x :: a', y :: b' => cell_eqb x y && tuple_eqb a' b'
  | _, _ => false
  end.

Record ddep := {
  dp_nlevels : nat;   (* len(factor.levels) of the depended-on factor *)
  dp_ready : nat      (* its window.start if it is a complex derived factor, else 0 *)
}.

Inductive dlevel := DTable (acc : list tuple) | DElse.

Record dfac := {
  df_deps : list ddep;
  df_width : nat;
  df_stride : nat;
  df_start : nat;            (* window.start after Window.__post_init__ *)
  df_levels : list dlevel
}.

(** * [get_dependent_cross_product] *)

(** [levels_of(factor, i)]: [ready_at > start - width + i + 1] over the integers. *)
Definition levels_of (d : dfac) (dp : ddep) (i : nat) : list cell :=
  map CLevel (seq 0 (dp_nlevels dp))
  ++ (if df_start d + i + 1 <? dp_ready dp + df_width d then [CBefore] else []).

(** [itertools.product]: the first component varies slowest. *)
Fixpoint product (ls : list (list cell)) : list tuple :=
  match ls with
  | [] => [[]]
  | l :: r => flat_map (fun x => map (cons x) (product r)) l
  end.

Definition domain_lists (d : dfac) : list (list cell) :=
  flat_map (fun dp => map (levels_of d dp) (seq 0 (df_width d))) (df_deps d).

Definition domain (d : dfac) : list tuple := product (domain_lists d).

(** * Predicates: table look-up; [ElseLevel] = no [DerivedLevel] of the factor accepts *)
Definition in_table (t : tuple) (tab : list tuple) : bool := existsb (tuple_eqb t) tab.

Definition table_levels (d : dfac) : list (list tuple) :=
  flat_map (fun l => match l with DTable tab => [tab] | DElse => [] end) (df_levels d).

Definition accepts_level (d : dfac) (l : dlevel) (t : tuple) : bool :=
  match l with
  | DTable tab => in_table t tab
  | DElse => negb (existsb (in_table t) (table_levels d))
  end.

Definition accepts (d : dfac) (li : nat) (t : tuple) : bool :=
  match nth_error (df_levels d) li with
  | Some l => accepts_level d l t
  | None => false
  end.

(** * [generate_derivations] for one factor *)

Inductive derr :=
| NoMatchLevel (level : nat) (crossed rcc : bool)   (* "No matches to the [crossed] factor ... predicate for level" *)
| Uncovered (t : tuple).                           (* "No level in [crossed] factor ... matches ..." *)

(** [show_errors] fails only on messages without "WARNING":
    [maybe_warning = "WARNING: " if (not in_crossing) or not require_complete_crossing]. *)
Definition is_warning (e : derr) : bool :=
  match e with
  | NoMatchLevel _ crossed rcc => negb crossed || negb rcc
  | Uncovered _ => false
  end.

Inductive doutcome :=
| DOverlap (l1 l2 : nat) (t : tuple)     (* ValueError "Factor f matches l1 and l2 with assignment ..." *)
| DBadIndex                              (* first_variable_for_level raises *)
| DOk (errs : list derr) (derivs : list (nat * list (list didx))).

(** What [generate_derivations] reads from the block for one factor. *)
Record dctx := {
  cx_crossed : bool;                        (* block.factor_in_crossing(factor) *)
  cx_rcc : bool;                            (* block.require_complete_crossing *)
  cx_in_act : bool;                         (* factor in block.act_design *)
  cx_dep_first : nat -> nat -> option nat;  (* first_variable_for_level(k-th window factor, its level) *)
  cx_own_first : nat -> option nat;         (* first_variable_for_level(factor, level) *)
  cx_trial_size : nat;                      (* block.variables_per_trial() *)
  cx_sustain : nat                          (* block.sustain_count(factor) *)
}.

(** [according_level]: a dict keyed by tuple. *)
Definition assoc := list (tuple * nat).
Fixpoint lookup (t : tuple) (a : assoc) : option nat :=
  match a with
  | [] => None
  | (t', l) :: r => if tuple_eqb t t' then Some l else lookup t r
  end.

(** the inner loop [for level_tuple in cross_product] for one level *)
Fixpoint scan (d : dfac) (li : nat) (l : dlevel) (cp : list tuple) (acc : assoc) (valid : list tuple)
  : (nat * nat * tuple) + (assoc * list tuple) :=
  match cp with
  | [] => inr (acc, valid)
  | t :: r =>
    if accepts_level d l t then
      match lookup t acc with
      | Some l0 => inl (l0, li, t)
      | None => scan d li l r ((t, li) :: acc) (valid ++ [t])
      end
    else scan d li l r acc valid
  end.

(** [valid_indices]: position p of a tuple belongs to window factor p / width. *)
Definition cell_index (d : dfac) (cx : dctx) (k : nat) (c : cell) : option didx :=
  match c with
  | CLevel n => option_map DIdx (cx_dep_first cx k n)
  | CBefore => option_map (fun dp => DBefore (dp_ready dp)) (nth_error (df_deps d) k)
  | CEmpty => None
  end.

Fixpoint indices_from (d : dfac) (cx : dctx) (p : nat) (t : tuple) : option (list didx) :=
  match t with
  | [] => Some []
  | c :: r =>
    match cell_index d cx (p / df_width d) c, indices_from d cx (S p) r with
    | Some x, Some xs => Some (x :: xs)
    | _, _ => None
    end
  end.

Fixpoint all_some' {A} (xs : list (option A)) : option (list A) :=
  match xs with
  | [] => Some []
  | Some x :: r => option_map (cons x) (all_some' r)
  | None :: _ => None
  end.

(** [chunk_list(it, size)]: [iter(lambda: list(islice(it, size)), [])]. *)
Fixpoint chunk_fuel {A} (fuel size : nat) (l : list A) : list (list A) :=
  match fuel with
  | O => []
  | S f =>
    match l with
    | [] => []
    | _ => firstn size l :: chunk_fuel f size (skipn size l)
    end
  end.
Definition chunk_list {A} (size : nat) (l : list A) : list (list A) :=
  if size =? 0 then [] else chunk_fuel (length l) size l.

Fixpoint shift_sub (ts su len i : nat) (sub : list didx) : list didx :=
  match sub with
  | [] => []
  | DBefore r :: rest => DBefore (r + (len - i - 1)) :: shift_sub ts su len (S i) rest
  | DIdx n :: rest => DIdx (n + i * su * ts) :: shift_sub ts su len (S i) rest
  end.

(** [shift_window(indices, window, trial_size, sustain_count)]
    ([len(idx_list) // argc] with argc = 0 would raise; a derived level always
    has at least one window factor). *)
Definition shift_window (d : dfac) (ts su : nat) (indices : list (list didx)) : list (list didx) :=
  if df_width d =? 1 then indices
  else map (fun il =>
              concat (map (fun sub => shift_sub ts su (length sub) 0 sub)
                          (chunk_list (length il / length (df_deps d)) il))) indices.

Definition derivation (d : dfac) (cx : dctx) (li : nat) (valid : list tuple) : option (nat * list (list didx)) :=
  match all_some' (map (indices_from d cx 0) valid), cx_own_first cx li with
  | Some vi, Some own => Some (own, shift_window d (cx_trial_size cx) (cx_sustain cx) vi)
  | _, _ => None
  end.

Inductive lstate :=
| LOverlap (l1 l2 : nat) (t : tuple)
| LBad
| LState (acc : assoc) (errs : list derr) (ders : list (nat * list (list didx))).

(** the loop [for level in factor.levels] *)
Fixpoint gen_levels (d : dfac) (cx : dctx) (cp : list tuple) (li : nat) (ls : list dlevel)
         (acc : assoc) (errs : list derr) (ders : list (nat * list (list didx))) : lstate :=
  match ls with
  | [] => LState acc errs ders
  | l :: r =>
    match scan d li l cp acc [] with
    | inl (l1, l2, t) => LOverlap l1 l2 t
    | inr (acc', valid) =>
      let errs' := match valid with
                   | [] => errs ++ [NoMatchLevel li (cx_crossed cx) (cx_rcc cx)]
                   | _ => errs
                   end in
      if cx_in_act cx then
        match derivation d cx li valid with
        | Some dv => gen_levels d cx cp (S li) r acc' errs' (ders ++ [dv])
        | None => LBad
        end
      else gen_levels d cx cp (S li) r acc' errs' ders
    end
  end.

Definition is_none {A} (o : option A) : bool := match o with None => true | Some _ => false end.

Definition gen_factor (d : dfac) (cx : dctx) : doutcome :=
  let cp := domain d in
  match gen_levels d cx cp 0 (df_levels d) [] [] [] with
  | LOverlap l1 l2 t => DOverlap l1 l2 t
  | LBad => DBadIndex
  | LState acc errs ders =>
    DOk (errs ++ map Uncovered (filter (fun t => is_none (lookup t acc)) cp)) ders
  end.

(** the error/overlap part alone (no variable indices are looked up) *)
Definition no_ctx (crossed rcc : bool) : dctx :=
  {| cx_crossed := crossed; cx_rcc := rcc; cx_in_act := false;
     cx_dep_first := fun _ _ => None; cx_own_first := fun _ => None;
     cx_trial_size := 0; cx_sustain := 1 |}.
Definition check_factor (d : dfac) (crossed rcc : bool) : doutcome := gen_factor d (no_ctx crossed rcc).

Definition outcome_fails (o : doutcome) : bool :=
  match o with
  | DOk errs _ => negb (forallb is_warning errs)
  | _ => true
  end.

(** * Selecting the level of a trial *)

(** [DerivedLevel._trial_arguments(sample, i, sustain_count)]: [cols] holds, per
    window factor, the column of the sample; [None] = IndexError. *)
Definition window_args (cols : list (list cell)) (width i su : nat) : option tuple :=
  option_map (@concat cell)
    (all_some' (map (fun col =>
                       all_some' (map (fun j =>
                                         let back := (width - 1 - j) * su in
                                         if back <=? i then nth_error col (i - back) else Some CBefore)
                                      (seq 0 width))) cols)).

Fixpoint first_accepting (d : dfac) (t : tuple) (li : nat) (ls : list dlevel) : option nat :=
  match ls with
  | [] => None
  | l :: r => if accepts_level d l t then Some li else first_accepting d t (S li) r
  end.

(** the loop of [select_level_for_sample] on given arguments; [None] = RuntimeError *)
Definition select_level (d : dfac) (t : tuple) : option nat := first_accepting d t 0 (df_levels d).

Inductive selres := SelLevel (l : nat) | SelNoMatch | SelIndexError.
Definition select_level_for_sample (d : dfac) (cols : list (list cell)) (i su : nat) : selres :=
  match window_args cols (df_width d) i su with
  | None => SelIndexError
  | Some t => match select_level d t with Some l => SelLevel l | None => SelNoMatch end
  end.

(** [DerivedFactor.test_trial] when the sequence holds level [li] at trial [i] *)
Definition test_trial (d : dfac) (cols : list (list cell)) (li i su : nat) : option bool :=
  match nth_error (df_levels d) li with
  | None => Some true
  | Some l => option_map (accepts_level d l) (window_args cols (df_width d) i su)
  end.

(** [Factor.applies_to_trial] on the 0-based trial-group index *)
Definition applies_group (d : dfac) (g : nat) : bool :=
  (df_start d <=? g) && (((g - df_start d) mod df_stride d) =? 0).

(** [add_implied_levels] for one implied factor (as of /repo commit 360565d): arguments
    are read from the columns at [rel_i - shift] (not scaled by the sustain count),
    an empty entry [""] of a dependency that does not apply yet is passed as [None]
    ([results[...] or None]), and the first accepting level is appended ([break]);
    if no level accepts nothing is appended.  The result is the flat [vals] list
    ([None] = ""). *)
Definition empty_to_none (c : cell) : cell := match c with CEmpty => CBefore | _ => c end.

Definition implied_args (cols : list (list cell)) (width i su : nat) : option tuple :=
  let rel_i := (i / su) * su in
  option_map (@concat cell)
    (all_some' (map (fun col =>
                       all_some' (map (fun j =>
                                         let shift := width - j - 1 in
                                         if shift <=? rel_i then option_map empty_to_none (nth_error col (rel_i - shift))
                                         else Some CBefore)
                                      (seq 0 width))) cols)).

Definition add_implied (d : dfac) (cols : list (list cell)) (n su : nat) : option (list (option nat)) :=
  option_map (@concat (option nat))
    (all_some' (map (fun i =>
                       if applies_group d (i / su) then
                         option_map (fun t => match select_level d t with Some l => [Some l] | None => [] end)
                                    (implied_args cols (df_width d) i su)
                       else Some [None]) (seq 0 n))).

(** * The whole block, on the flat record *)

Definition cell_of_opt (o : option nat) : cell := match o with Some n => CLevel n | None => CBefore end.

Definition ddep_of_flat (fb : flat) (g : nat) : ddep :=
  {| dp_nlevels := nlevels fb g;
     dp_ready := match factor_at fb g with
                 | Some fd => if ff_complex fd then match ff_window fd with Some w => win_start w | None => 0 end else 0
                 | None => 0
                 end |}.

Definition dfac_of_flat (fb : flat) (f : nat) : option dfac :=
  match factor_at fb f with
  | Some fd =>
    match ff_window fd with
    | Some w =>
      Some {| df_deps := map (ddep_of_flat fb) (win_deps w);
              df_width := win_width w; df_stride := win_stride w; df_start := win_start w;
              df_levels := map (fun lv => DTable (map (fun row => map cell_of_opt (concat row)) (lv_accepts lv)))
                               (ff_levels fd) |}
    | None => None
    end
  | None => None
  end.

Definition ctx_of_flat (fb : flat) (f : nat) (w : fwindow) : dctx :=
  {| cx_crossed := existsb (existsb (Nat.eqb f)) (fl_crossings fb);
     cx_rcc := fl_rcc fb;
     cx_in_act := existsb (Nat.eqb f) (fl_act fb);
     cx_dep_first := fun k n => match nth_error (win_deps w) k with
                                | Some g => first_variable_for_level fb g n
                                | None => None
                                end;
     cx_own_first := first_variable_for_level fb f;
     cx_trial_size := variables_per_trial fb;
     cx_sustain := sustain_of fb f |}.

Inductive gen_result :=
| GOverlap (f l1 l2 : nat) (t : tuple)
| GBadIndex (f : nat)
| GOk (errs : list (nat * derr)) (ders : list fconstraint).

Fixpoint gen_block (fb : flat) (fs : list nat) (errs : list (nat * derr)) (ders : list fconstraint) : gen_result :=
  match fs with
  | [] => GOk errs ders
  | f :: r =>
    match dfac_of_flat fb f, option_map (fun fd => ff_window fd) (factor_at fb f) with
    | Some d, Some (Some w) =>
      match gen_factor d (ctx_of_flat fb f w) with
      | DOverlap l1 l2 t => GOverlap f l1 l2 t
      | DBadIndex => GBadIndex f
      | DOk es ds =>
        gen_block fb r (errs ++ map (fun e => (f, e)) es)
                  (ders ++ map (fun p => FDerivation (fst p) (snd p) f) ds)
      end
    | _, _ => gen_block fb r errs ders
    end
  end.

Definition generate_derivations (fb : flat) : gen_result :=
  gen_block fb (seq 0 (length (fl_design fb))) [] [].

(** whether [show_errors] fails because of derivation errors *)
Definition derivation_errors_fail (fb : flat) : option bool :=
  match generate_derivations fb with
  | GOk errs _ => Some (negb (forallb (fun p => is_warning (snd p)) errs))
  | _ => None
  end.
