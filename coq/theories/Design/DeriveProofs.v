(** Proofs about Design/Derive.v (the model of generate_derivations):
    overlap is reported iff two levels accept a common tuple of the cross
    product, uncovered tuples and empty levels are reported exactly, an outcome
    without error means every tuple has exactly one accepting level (the one
    [select_level] returns), the [ElseLevel] predicate is the complement of the
    other levels, and the window of every applicable trial lies in the cross
    product (dependencies that are defined from the first trial on). *)
From Coq Require Import ZArith List Bool Arith Lia.
From SP Require Import Design.Flat Design.Layout Design.Derive.
Import ListNotations.

(** * Equality tests *)
Lemma cell_eqb_eq : forall a b, cell_eqb a b = true <-> a = b.
Proof.
  intros [x| |] [y| |]; cbn; split; intro H; try congruence; try reflexivity.
  - apply Nat.eqb_eq in H. congruence.
  - inversion H. apply Nat.eqb_refl.
Qed.

Lemma tuple_eqb_eq : forall a b, tuple_eqb a b = true <-> a = b.
Proof.
  induction a as [|x a IH]; intros [|y b]; cbn; split; intro H; try congruence; try reflexivity.
  - apply andb_true_iff in H. destruct H as [H1 H2]. apply cell_eqb_eq in H1. apply IH in H2. congruence.
  - inversion H. subst. apply andb_true_iff. split; [apply cell_eqb_eq | apply IH]; reflexivity.
Qed.

Lemma tuple_eqb_refl : forall a, tuple_eqb a a = true.
Proof. intro a. apply tuple_eqb_eq. reflexivity. Qed.

Lemma tuple_eqb_neq : forall a b, a <> b -> tuple_eqb a b = false.
Proof. intros a b H. destruct (tuple_eqb a b) eqn:E; [apply tuple_eqb_eq in E; contradiction | reflexivity]. Qed.

Lemma lookup_cons : forall t t' l a,
  lookup t ((t', l) :: a) = if tuple_eqb t t' then Some l else lookup t a.
Proof. reflexivity. Qed.

(** * The cross product has no repeated tuple *)
Lemma nodup_app {A} : forall a b : list A,
  NoDup a -> NoDup b -> (forall x, In x a -> ~ In x b) -> NoDup (a ++ b).
Proof.
  induction a as [|x a IH]; intros b Ha Hb Hd; cbn; [assumption|].
  inversion Ha; subst. constructor.
  - intro Hin. apply in_app_or in Hin. destruct Hin as [Hin|Hin]; [contradiction|].
    apply (Hd x); [left; reflexivity | assumption].
  - apply IH; [assumption | assumption | intros y Hy; apply Hd; right; assumption].
Qed.

Lemma nodup_map_inj {A B} (f : A -> B) : (forall x y, f x = f y -> x = y) ->
  forall l, NoDup l -> NoDup (map f l).
Proof.
  intros Hinj l H. induction H as [|x l Hx Hl IH]; cbn; constructor; [|assumption].
  intro Hin. apply in_map_iff in Hin. destruct Hin as [y [Hy Hin]]. apply Hinj in Hy. subst. contradiction.
Qed.

Lemma nodup_product : forall ls, Forall (@NoDup cell) ls -> NoDup (product ls).
Proof.
  induction ls as [|l r IH]; intro H; cbn.
  - constructor; [intros []|constructor].
  - inversion H as [|? ? Hl Hr]; subst. specialize (IH Hr).
    induction Hl as [|x l Hx Hl IHl]; cbn; [constructor|].
    apply nodup_app.
    + apply nodup_map_inj; [intros a b E; congruence | assumption].
    + apply IHl. constructor; [assumption | assumption].
    + intros t Ht Hin. apply in_map_iff in Ht. destruct Ht as [t0 [Ht0 _]]. subst t.
      apply in_flat_map in Hin. destruct Hin as [y [Hy Hin]].
      apply in_map_iff in Hin. destruct Hin as [t1 [Ht1 _]]. inversion Ht1. subst. contradiction.
Qed.

Lemma nodup_levels_of : forall d dp i, NoDup (levels_of d dp i).
Proof.
  intros d dp i. unfold levels_of. apply nodup_app.
  - apply nodup_map_inj; [intros a b E; congruence | apply seq_NoDup].
  - destruct (_ <? _); constructor; [intros [] | constructor].
  - intros x Hx Hin. apply in_map_iff in Hx. destruct Hx as [n [Hn _]]. subst x.
    destruct (_ <? _); cbn in Hin; [destruct Hin as [E|[]]; discriminate | contradiction].
Qed.

Lemma nodup_domain : forall d, NoDup (domain d).
Proof.
  intro d. apply nodup_product. unfold domain_lists. apply Forall_forall. intros l Hl.
  apply in_flat_map in Hl. destruct Hl as [dp [_ Hl]]. apply in_map_iff in Hl.
  destruct Hl as [i [Hi _]]. subst l. apply nodup_levels_of.
Qed.

(** * The inner loop over the cross product *)
Lemma scan_inr : forall d li l cp acc valid acc' valid',
  scan d li l cp acc valid = inr (acc', valid') ->
  valid' = valid ++ filter (accepts_level d l) cp /\
  (forall t, In t cp -> accepts_level d l t = true -> lookup t acc = None /\ lookup t acc' = Some li) /\
  (forall t, lookup t acc' = lookup t acc \/
             (In t cp /\ accepts_level d l t = true /\ lookup t acc = None /\ lookup t acc' = Some li)).
Proof.
  intros d li l cp. induction cp as [|t0 r IH]; intros acc valid acc' valid' H; cbn in H.
  - inversion H; subst. cbn. rewrite app_nil_r. split; [reflexivity|]. split; [intros t []|]. intro t. left. reflexivity.
  - destruct (accepts_level d l t0) eqn:Eacc.
    + destruct (lookup t0 acc) eqn:El; [discriminate|].
      apply IH in H. destruct H as [Hv [H2 H3]].
      split; [|split].
      * cbn. rewrite Eacc. rewrite Hv. rewrite <- app_assoc. reflexivity.
      * intros t [Ht|Ht] Ha.
        -- subst t. split; [assumption|].
           destruct (H3 t0) as [E|[_ [_ [_ E]]]]; [|assumption].
           rewrite E. rewrite lookup_cons. rewrite tuple_eqb_refl. reflexivity.
        -- destruct (H2 t Ht Ha) as [E1 E2]. split; [|assumption].
           rewrite lookup_cons in E1. destruct (tuple_eqb t t0); [discriminate|assumption].
      * intro t. destruct (H3 t) as [E|[Hin [Ha [E1 E2]]]].
        -- rewrite lookup_cons in E. destruct (tuple_eqb t t0) eqn:Et.
           ++ apply tuple_eqb_eq in Et. subst t. right. repeat split; try assumption. left; reflexivity.
           ++ left. assumption.
        -- rewrite lookup_cons in E1. destruct (tuple_eqb t t0); [discriminate|].
           right. repeat split; try assumption. right; assumption.
    + apply IH in H. destruct H as [Hv [H2 H3]].
      split; [|split].
      * cbn. rewrite Eacc. assumption.
      * intros t [Ht|Ht] Ha; [subst t; congruence | apply H2; assumption].
      * intro t. destruct (H3 t) as [E|[Hin [Ha [E1 E2]]]]; [left; assumption|].
        right. repeat split; try assumption. right; assumption.
Qed.

Lemma scan_inl : forall d li l cp acc valid l0 l2 t,
  NoDup cp -> scan d li l cp acc valid = inl (l0, l2, t) ->
  l2 = li /\ In t cp /\ accepts_level d l t = true /\ lookup t acc = Some l0.
Proof.
  intros d li l cp. induction cp as [|t0 r IH]; intros acc valid l0 l2 t Hnd H; cbn in H; [discriminate|].
  inversion Hnd as [|? ? Hnot Hr]; subst.
  destruct (accepts_level d l t0) eqn:Eacc.
  - destruct (lookup t0 acc) eqn:El.
    + inversion H; subst. repeat split; try assumption. left; reflexivity.
    + apply IH in H; [|assumption]. destruct H as [E [Hin [Ha Hl]]].
      repeat split; try assumption; [right; assumption|].
      rewrite lookup_cons in Hl. rewrite tuple_eqb_neq in Hl; [assumption|].
      intro E2. subst. contradiction.
  - apply IH in H; [|assumption]. destruct H as [E [Hin [Ha Hl]]].
    repeat split; try assumption. right; assumption.
Qed.

(** * The loop over the levels *)
Definition Inv (d : dfac) (cp : list tuple) (li : nat) (acc : assoc) : Prop :=
  (forall t l0, lookup t acc = Some l0 -> l0 < li /\ In t cp /\ accepts d l0 t = true) /\
  (forall t l0, l0 < li -> In t cp -> accepts d l0 t = true -> lookup t acc = Some l0).

Lemma accepts_at : forall d pre l r t, df_levels d = pre ++ l :: r ->
  accepts d (length pre) t = accepts_level d l t.
Proof.
  intros d pre l r t H. unfold accepts. rewrite H. rewrite nth_error_app2 by lia.
  rewrite Nat.sub_diag. reflexivity.
Qed.

Lemma accepts_lt : forall d l t, accepts d l t = true -> l < length (df_levels d).
Proof.
  intros d l t H. unfold accepts in H. destruct (nth_error (df_levels d) l) eqn:E; [|discriminate].
  apply nth_error_Some. congruence.
Qed.

Lemma filter_nil_iff {A} (f : A -> bool) : forall l, filter f l = [] <-> forall x, In x l -> f x = false.
Proof.
  induction l as [|x l IH]; cbn; [split; [intros _ y []|reflexivity]|].
  destruct (f x) eqn:E; split; intro H.
  - discriminate.
  - specialize (H x (or_introl eq_refl)). congruence.
  - intros y [Hy|Hy]; [subst; assumption | apply IH; assumption].
  - apply IH. intros y Hy. apply H. right; assumption.
Qed.

Definition errs_spec (d : dfac) (cx : dctx) (cp : list tuple) (lo hi : nat) (errs errs' : list derr) : Prop :=
  forall e, In e errs' <->
    In e errs \/ exists l, lo <= l < hi /\ e = NoMatchLevel l (cx_crossed cx) (cx_rcc cx) /\
                           forall t, In t cp -> accepts d l t = false.

Lemma gen_levels_state : forall d cx cp, NoDup cp ->
  forall ls pre acc errs ders acc' errs' ders',
  df_levels d = pre ++ ls -> Inv d cp (length pre) acc ->
  gen_levels d cx cp (length pre) ls acc errs ders = LState acc' errs' ders' ->
  Inv d cp (length (df_levels d)) acc' /\ errs_spec d cx cp (length pre) (length (df_levels d)) errs errs'.
Proof.
  intros d cx cp Hnd. induction ls as [|l r IH]; intros pre acc errs ders acc' errs' ders' Hlev Hinv H; cbn in H.
  - inversion H; subst. rewrite Hlev. rewrite app_nil_r. split; [assumption|].
    intro e. split; [intro He; left; assumption|]. intros [He|[l [Hl _]]]; [assumption|lia].
  - destruct (scan d (length pre) l cp acc []) as [[[l1 l2] t]|[acc1 valid]] eqn:Es; [discriminate|].
    apply scan_inr in Es. destruct Es as [Hv [H2 H3]]. cbn in Hv.
    assert (Hacc : forall t, accepts d (length pre) t = accepts_level d l t) by (intro t; eapply accepts_at; eassumption).
    assert (Hinv1 : Inv d cp (S (length pre)) acc1).
    { destruct Hinv as [I1 I2]. split.
      - intros t l0 Hl. destruct (H3 t) as [E|[Hin [Ha [E1 E2]]]].
        + rewrite E in Hl. destruct (I1 t l0 Hl) as [A [B C]]. repeat split; try assumption. lia.
        + rewrite E2 in Hl. inversion Hl; subst. repeat split; try assumption; [lia|]. rewrite Hacc. assumption.
      - intros t l0 Hlt Hin Ha. assert (Hc : l0 < length pre \/ l0 = length pre) by lia. destruct Hc as [Hc|Hc].
        + pose proof (I2 t l0 Hc Hin Ha) as E. destruct (H3 t) as [E3|[_ [_ [E1 _]]]]; [congruence|congruence].
        + subst l0. rewrite Hacc in Ha. apply (H2 t Hin Ha). }
    assert (Hlev1 : df_levels d = (pre ++ [l]) ++ r) by (rewrite <- app_assoc; assumption).
    assert (Hlen : length (pre ++ [l]) = S (length pre)) by (rewrite app_length; cbn; lia).
    assert (Hlt : length pre < length (df_levels d)) by (rewrite Hlev, app_length; cbn; lia).
    set (errs1 := match valid with [] => errs ++ [NoMatchLevel (length pre) (cx_crossed cx) (cx_rcc cx)] | _ => errs end) in *.
    assert (Hstep : errs_spec d cx cp (length pre) (S (length pre)) errs errs1).
    { intro e. unfold errs1. destruct valid as [|v vs] eqn:Ev.
      - symmetry in Hv. pose proof (proj1 (filter_nil_iff _ _) Hv) as Hv'. clear Hv. rename Hv' into Hv. rewrite in_app_iff. cbn. split.
        + intros [He|[He|[]]]; [left; assumption|]. right. exists (length pre). repeat split; try lia; [congruence|].
          intros t Ht. rewrite Hacc. apply Hv; assumption.
        + intros [He|[l0 [Hl [He _]]]]; [left; assumption|]. right. left. assert (l0 = length pre) by lia. subst. reflexivity.
      - split; [intro He; left; assumption|]. intros [He|[l0 [Hl [He Hno]]]]; [assumption|].
        assert (l0 = length pre) by lia. subst l0. exfalso.
        assert (Hin : In v (filter (accepts_level d l) cp)) by (rewrite <- Hv; left; reflexivity).
        apply filter_In in Hin. destruct Hin as [Hin Ha]. specialize (Hno v Hin). rewrite Hacc in Hno. congruence. }
    assert (Hcomb : forall errs2, errs_spec d cx cp (S (length pre)) (length (df_levels d)) errs1 errs2 ->
                                  errs_spec d cx cp (length pre) (length (df_levels d)) errs errs2).
    { intros errs2 Hs e. rewrite (Hs e). rewrite (Hstep e). split.
      - intros [[He|[l0 [Hl Hr]]]|[l0 [Hl Hr]]]; [left; assumption | right; exists l0; split; [lia|assumption] | right; exists l0; split; [lia|assumption]].
      - intros [He|[l0 [Hl Hr]]]; [left; left; assumption|].
        assert (Hc : l0 = length pre \/ S (length pre) <= l0) by lia. destruct Hc as [Hc|Hc].
        + left. right. exists l0. split; [lia|assumption].
        + right. exists l0. split; [lia|assumption]. }
    destruct (cx_in_act cx).
    + destruct (derivation d cx (length pre) valid) as [dv|]; [|discriminate].
      rewrite <- Hlen in H, Hinv1. destruct (IH _ _ _ _ _ _ _ Hlev1 Hinv1 H) as [A B]. split; [assumption|].
      apply Hcomb. rewrite Hlen in B. assumption.
    + rewrite <- Hlen in H, Hinv1. destruct (IH _ _ _ _ _ _ _ Hlev1 Hinv1 H) as [A B]. split; [assumption|].
      apply Hcomb. rewrite Hlen in B. assumption.
Qed.

Lemma gen_levels_overlap : forall d cx cp, NoDup cp ->
  forall ls pre acc errs ders l1 l2 t,
  df_levels d = pre ++ ls -> Inv d cp (length pre) acc ->
  gen_levels d cx cp (length pre) ls acc errs ders = LOverlap l1 l2 t ->
  l1 < l2 /\ In t cp /\ accepts d l1 t = true /\ accepts d l2 t = true.
Proof.
  intros d cx cp Hnd. induction ls as [|l r IH]; intros pre acc errs ders l1 l2 t Hlev Hinv H; cbn in H; [discriminate|].
  assert (Hacc : forall t, accepts d (length pre) t = accepts_level d l t) by (intro t0; eapply accepts_at; eassumption).
  destruct (scan d (length pre) l cp acc []) as [[[a b] t0]|[acc1 valid]] eqn:Es.
  - inversion H; subst. apply scan_inl in Es; [|assumption]. destruct Es as [E [Hin [Ha Hl]]]. subst.
    destruct Hinv as [I1 _]. destruct (I1 _ _ Hl) as [A [B C]]. repeat split; try assumption. rewrite Hacc. assumption.
  - apply scan_inr in Es. destruct Es as [Hv [H2 H3]].
    assert (Hinv1 : Inv d cp (S (length pre)) acc1).
    { destruct Hinv as [I1 I2]. split.
      - intros t1 l0 Hl. destruct (H3 t1) as [E|[Hin [Ha [E1 E2]]]].
        + rewrite E in Hl. destruct (I1 t1 l0 Hl) as [A [B C]]. repeat split; try assumption. lia.
        + rewrite E2 in Hl. inversion Hl; subst. repeat split; try assumption; [lia|]. rewrite Hacc. assumption.
      - intros t1 l0 Hlt Hin Ha. assert (Hc : l0 < length pre \/ l0 = length pre) by lia. destruct Hc as [Hc|Hc].
        + pose proof (I2 t1 l0 Hc Hin Ha) as E. destruct (H3 t1) as [E3|[_ [_ [E1 _]]]]; [congruence|congruence].
        + subst l0. rewrite Hacc in Ha. apply (H2 t1 Hin Ha). }
    assert (Hlev1 : df_levels d = (pre ++ [l]) ++ r) by (rewrite <- app_assoc; assumption).
    assert (Hlen : length (pre ++ [l]) = S (length pre)) by (rewrite app_length; cbn; lia).
    rewrite <- Hlen in H, Hinv1.
    destruct (cx_in_act cx).
    + destruct (derivation d cx (length pre) valid) as [dv|]; [|discriminate].
      eapply IH; eassumption.
    + eapply IH; eassumption.
Qed.

Lemma inv_init : forall d cp, Inv d cp 0 [].
Proof. intros d cp. split; [intros t l0 H; discriminate | intros t l0 H; lia]. Qed.

(** * Theorems about [gen_factor] *)
Definition ambiguous (d : dfac) : Prop :=
  exists l1 l2 t, l1 <> l2 /\ In t (domain d) /\ accepts d l1 t = true /\ accepts d l2 t = true.

Lemma gen_factor_ok_inv : forall d cx errs ders, gen_factor d cx = DOk errs ders ->
  exists acc errs0, Inv d (domain d) (length (df_levels d)) acc /\
    errs_spec d cx (domain d) 0 (length (df_levels d)) [] errs0 /\
    errs = errs0 ++ map Uncovered (filter (fun t => is_none (lookup t acc)) (domain d)).
Proof.
  intros d cx errs ders H. unfold gen_factor in H.
  destruct (gen_levels d cx (domain d) 0 (df_levels d) [] [] []) as [? ? ?| |acc errs0 ders0] eqn:E; try discriminate.
  inversion H; subst. exists acc, errs0.
  pose proof (gen_levels_state d cx (domain d) (nodup_domain d) (df_levels d) [] [] [] [] _ _ _ eq_refl (inv_init d _) E) as [A B].
  split; [exact A|]. split; [exact B|]. reflexivity.
Qed.

Theorem overlap_witness : forall d cx l1 l2 t, gen_factor d cx = DOverlap l1 l2 t ->
  l1 < l2 /\ In t (domain d) /\ accepts d l1 t = true /\ accepts d l2 t = true.
Proof.
  intros d cx l1 l2 t H. unfold gen_factor in H.
  destruct (gen_levels d cx (domain d) 0 (df_levels d) [] [] []) as [a b t0| |acc errs0 ders0] eqn:E; try discriminate.
  inversion H; subst.
  exact (gen_levels_overlap d cx (domain d) (nodup_domain d) (df_levels d) [] [] [] [] l1 l2 t eq_refl (inv_init d _) E).
Qed.

Theorem ok_unique : forall d cx errs ders, gen_factor d cx = DOk errs ders ->
  forall t l1 l2, In t (domain d) -> accepts d l1 t = true -> accepts d l2 t = true -> l1 = l2.
Proof.
  intros d cx errs ders H t l1 l2 Hin H1 H2.
  destruct (gen_factor_ok_inv _ _ _ _ H) as [acc [errs0 [[I1 I2] _]]].
  pose proof (I2 t l1 (accepts_lt _ _ _ H1) Hin H1) as E1.
  pose proof (I2 t l2 (accepts_lt _ _ _ H2) Hin H2) as E2. congruence.
Qed.

Theorem overlap_rejected : forall d cx, gen_factor d cx <> DBadIndex ->
  ((exists l1 l2 t, gen_factor d cx = DOverlap l1 l2 t) <-> ambiguous d).
Proof.
  intros d cx Hbad. split.
  - intros [l1 [l2 [t H]]]. apply overlap_witness in H. destruct H as [A [B [C D]]].
    exists l1, l2, t. repeat split; try assumption. lia.
  - intros [l1 [l2 [t [Hne [Hin [H1 H2]]]]]].
    destruct (gen_factor d cx) as [a b t0| |errs ders] eqn:E.
    + exists a, b, t0. reflexivity.
    + contradiction.
    + exfalso. apply Hne. eapply ok_unique; eassumption.
Qed.

Lemma gen_levels_not_bad : forall d cx cp, cx_in_act cx = false ->
  forall ls li acc errs ders, gen_levels d cx cp li ls acc errs ders <> LBad.
Proof.
  intros d cx cp Hact. induction ls as [|l r IH]; intros li acc errs ders; cbn; [discriminate|].
  destruct (scan d li l cp acc []) as [[[a b] t0]|[acc1 valid]]; [discriminate|].
  rewrite Hact. apply IH.
Qed.

Theorem check_factor_not_bad : forall d crossed rcc, check_factor d crossed rcc <> DBadIndex.
Proof.
  intros d crossed rcc. unfold check_factor, gen_factor.
  destruct (gen_levels d (no_ctx crossed rcc) (domain d) 0 (df_levels d) [] [] []) eqn:E; try discriminate.
  exfalso. eapply gen_levels_not_bad; [|eassumption]. reflexivity.
Qed.

Theorem uncovered_reported : forall d cx errs ders, gen_factor d cx = DOk errs ders ->
  forall t, In (Uncovered t) errs <-> (In t (domain d) /\ forall l, accepts d l t = false).
Proof.
  intros d cx errs ders H t.
  destruct (gen_factor_ok_inv _ _ _ _ H) as [acc [errs0 [[I1 I2] [Hs He]]]]. subst errs.
  rewrite in_app_iff. split.
  - intros [Hin|Hin].
    + apply Hs in Hin. destruct Hin as [[]|[l [_ [E _]]]]. discriminate.
    + apply in_map_iff in Hin. destruct Hin as [t0 [E Hin]]. inversion E; subst t0.
      apply filter_In in Hin. destruct Hin as [Hin Hn]. split; [assumption|].
      intro l. destruct (accepts d l t) eqn:Ea; [|reflexivity].
      rewrite (I2 t l (accepts_lt _ _ _ Ea) Hin Ea) in Hn. discriminate.
  - intros [Hin Hno]. right. apply in_map_iff. exists t. split; [reflexivity|].
    apply filter_In. split; [assumption|].
    destruct (lookup t acc) eqn:El; [|reflexivity].
    destruct (I1 _ _ El) as [_ [_ C]]. rewrite Hno in C. discriminate.
Qed.

Theorem nomatch_reported : forall d cx errs ders, gen_factor d cx = DOk errs ders ->
  forall l c r, In (NoMatchLevel l c r) errs <->
    (l < length (df_levels d) /\ c = cx_crossed cx /\ r = cx_rcc cx /\
     forall t, In t (domain d) -> accepts d l t = false).
Proof.
  intros d cx errs ders H l c r.
  destruct (gen_factor_ok_inv _ _ _ _ H) as [acc [errs0 [_ [Hs He]]]]. subst errs.
  rewrite in_app_iff. split.
  - intros [Hin|Hin].
    + apply Hs in Hin. destruct Hin as [[]|[l0 [Hl [E Hno]]]]. inversion E; subst. repeat split; try assumption; lia.
    + apply in_map_iff in Hin. destruct Hin as [t0 [E _]]. discriminate.
  - intros [Hl [Hc [Hr Hno]]]. subst. left. apply Hs. right. exists l. repeat split; try assumption; lia.
Qed.

(** * [select_level] *)
Lemma first_accepting_some : forall d t ls li,
  (exists k lv, nth_error ls k = Some lv /\ accepts_level d lv t = true) ->
  exists k lv, first_accepting d t li ls = Some (li + k) /\ nth_error ls k = Some lv /\ accepts_level d lv t = true.
Proof.
  intros d t. induction ls as [|l r IH]; intros li [k [lv [Hn Ha]]]; [destruct k; discriminate|].
  cbn. destruct (accepts_level d l t) eqn:E.
  - exists 0, l. rewrite Nat.add_0_r. repeat split; assumption.
  - destruct k as [|k]; [cbn in Hn; inversion Hn; subst; congruence|].
    destruct (IH (S li) (ex_intro _ k (ex_intro _ lv (conj Hn Ha)))) as [k' [lv' [A [B C]]]].
    exists (S k'), lv'. repeat split; try assumption. rewrite A. f_equal. lia.
Qed.

Lemma first_accepting_none : forall d t ls li,
  first_accepting d t li ls = None -> forall k lv, nth_error ls k = Some lv -> accepts_level d lv t = false.
Proof.
  intros d t. induction ls as [|l r IH]; intros li H k lv Hn; [destruct k; discriminate|].
  cbn in H. destruct (accepts_level d l t) eqn:E; [discriminate|].
  destruct k as [|k]; [cbn in Hn; inversion Hn; subst; assumption|]. eapply IH; eassumption.
Qed.

Lemma first_accepting_sound : forall d t ls li l, first_accepting d t li ls = Some l ->
  exists k lv, l = li + k /\ nth_error ls k = Some lv /\ accepts_level d lv t = true.
Proof.
  intros d t. induction ls as [|x r IH]; intros li l H; cbn in H; [discriminate|].
  destruct (accepts_level d x t) eqn:Ea.
  - inversion H; subst. exists 0, x. repeat split; [lia | assumption].
  - destruct (IH _ _ H) as [k [lv [A [B C]]]]. exists (S k), lv. repeat split; [lia | assumption | assumption].
Qed.

Theorem select_level_accepts : forall d t l, select_level d t = Some l -> accepts d l t = true.
Proof.
  intros d t l H. unfold select_level in H.
  destruct (first_accepting_sound _ _ _ _ _ H) as [k [lv [A [B C]]]]. cbn in A. subst l.
  unfold accepts. rewrite B. assumption.
Qed.

Theorem select_level_none : forall d t, select_level d t = None -> forall l, accepts d l t = false.
Proof.
  intros d t H l. unfold accepts. destruct (nth_error (df_levels d) l) eqn:E; [|reflexivity].
  eapply first_accepting_none; eassumption.
Qed.

Theorem derive_ok_unique : forall d cx errs ders,
  gen_factor d cx = DOk errs ders -> forallb is_warning errs = true ->
  forall t, In t (domain d) ->
  exists l, accepts d l t = true /\ (forall l', accepts d l' t = true -> l' = l) /\ select_level d t = Some l.
Proof.
  intros d cx errs ders H Hw t Hin.
  destruct (select_level d t) as [l|] eqn:Es.
  - exists l. pose proof (select_level_accepts _ _ _ Es) as Ha. repeat split; try assumption.
    intros l' Hl'. eapply ok_unique; eassumption.
  - exfalso. assert (Hu : In (Uncovered t) errs).
    { apply (uncovered_reported _ _ _ _ H). split; [assumption | apply select_level_none; assumption]. }
    rewrite forallb_forall in Hw. specialize (Hw _ Hu). discriminate.
Qed.

(** * ElseLevel *)
Lemma in_table_levels : forall d tab, In tab (table_levels d) <-> exists l, nth_error (df_levels d) l = Some (DTable tab).
Proof.
  intros d tab. unfold table_levels. rewrite in_flat_map. split.
  - intros [lv [Hin Ht]]. destruct lv as [tab0|]; [|destruct Ht].
    destruct Ht as [E|[]]. subst. apply In_nth_error in Hin. assumption.
  - intros [l Hl]. exists (DTable tab). split; [eapply nth_error_In; eassumption | left; reflexivity].
Qed.

Theorem else_complement : forall d l, nth_error (df_levels d) l = Some DElse ->
  forall t, accepts d l t = true <->
            (forall l' tab, nth_error (df_levels d) l' = Some (DTable tab) -> accepts d l' t = false).
Proof.
  intros d l Hl t. unfold accepts at 1. rewrite Hl. cbn. rewrite negb_true_iff. split.
  - intros H l' tab Hl'. unfold accepts. rewrite Hl'. cbn.
    destruct (in_table t tab) eqn:E; [|reflexivity].
    assert (Hex : existsb (in_table t) (table_levels d) = true).
    { apply existsb_exists. exists tab. split; [apply in_table_levels; exists l'; assumption | assumption]. }
    congruence.
  - intro H. destruct (existsb (in_table t) (table_levels d)) eqn:E; [|reflexivity].
    apply existsb_exists in E. destruct E as [tab [Hin Ht]]. apply in_table_levels in Hin. destruct Hin as [l' Hl'].
    specialize (H l' tab Hl'). unfold accepts in H. rewrite Hl' in H. cbn in H. congruence.
Qed.

Theorem else_total : forall d l, nth_error (df_levels d) l = Some DElse ->
  forall t, exists l', accepts d l' t = true.
Proof.
  intros d l Hl t. destruct (accepts d l t) eqn:E; [exists l; assumption|].
  unfold accepts in E. rewrite Hl in E. cbn in E. apply negb_false_iff in E.
  apply existsb_exists in E. destruct E as [tab [Hin Ht]]. apply in_table_levels in Hin. destruct Hin as [l' Hl'].
  exists l'. unfold accepts. rewrite Hl'. assumption.
Qed.

Theorem else_never_uncovered : forall d cx l errs ders, nth_error (df_levels d) l = Some DElse ->
  gen_factor d cx = DOk errs ders -> forall t, ~ In (Uncovered t) errs.
Proof.
  intros d cx l errs ders Hl H t Hin. apply (uncovered_reported _ _ _ _ H) in Hin. destruct Hin as [_ Hno].
  destruct (else_total d l Hl t) as [l' Hl']. rewrite Hno in Hl'. discriminate.
Qed.

(** * The window of an applicable trial lies in the cross product *)
Lemma in_product : forall ls t, In t (product ls) <-> Forall2 (fun c l => In c l) t ls.
Proof.
  induction ls as [|l r IH]; intro t; cbn.
  - split; [intros [E|[]]; subst; constructor | intro H; inversion H; left; reflexivity].
  - rewrite in_flat_map. split.
    + intros [x [Hx Hin]]. apply in_map_iff in Hin. destruct Hin as [t0 [E Hin]]. subst t.
      constructor; [assumption | apply IH; assumption].
    + intro H. inversion H as [|c ? t0 ? Hc Hr]; subst. exists c. split; [assumption|].
      apply in_map_iff. exists t0. split; [reflexivity | apply IH; assumption].
Qed.

Lemma all_some_map_Forall2 {A B} (f : A -> option B) (P : B -> A -> Prop) : forall l,
  (forall a, In a l -> exists b, f a = Some b /\ P b a) ->
  exists bs, all_some' (map f l) = Some bs /\ Forall2 P bs l.
Proof.
  induction l as [|a l IH]; intro H; cbn.
  - exists []. split; [reflexivity|constructor].
  - destruct (H a (or_introl eq_refl)) as [b [Hb Hp]]. rewrite Hb.
    destruct IH as [bs [Hbs Hf]]; [intros a0 Ha0; apply H; right; assumption|].
    rewrite Hbs. exists (b :: bs). split; [reflexivity | constructor; assumption].
Qed.

Lemma Forall2_map_right {A B C} (P : A -> C -> Prop) (g : B -> C) : forall xs ys,
  Forall2 (fun x y => P x (g y)) xs ys -> Forall2 P xs (map g ys).
Proof. intros xs ys H. induction H; cbn; constructor; assumption. Qed.

Definition col_ok (n : nat) (dp : ddep) (col : list cell) : Prop :=
  length col = n /\ Forall (fun c => exists k, c = CLevel k /\ k < dp_nlevels dp) col.

Definition wcell (w su i : nat) (col : list cell) (j : nat) : option cell :=
  let back := (w - 1 - j) * su in if back <=? i then nth_error col (i - back) else Some CBefore.

Lemma window_args_eq : forall cols w i su,
  window_args cols w i su =
  option_map (@concat cell) (all_some' (map (fun col => all_some' (map (wcell w su i col) (seq 0 w))) cols)).
Proof. reflexivity. Qed.

Lemma all_some_concat_product : forall (f : list cell -> option (list cell)) cols lss,
  Forall2 (fun col ls => exists cs, f col = Some cs /\ Forall2 (fun c l => In c l) cs ls) cols lss ->
  exists t, option_map (@concat cell) (all_some' (map f cols)) = Some t /\ In t (product (concat lss)).
Proof.
  intros f cols lss H. induction H as [|col ls cols lss [cs [Hcs Hf]] Hrest IH]; cbn.
  - exists []. split; [reflexivity | left; reflexivity].
  - destruct IH as [t [Ht Hin]]. rewrite Hcs.
    destruct (all_some' (map f cols)) as [rest|]; [|discriminate]. cbn in Ht. inversion Ht; subst t.
    cbn. exists (cs ++ concat rest). split; [reflexivity|].
    apply in_product. apply Forall2_app; [assumption | apply in_product; assumption].
Qed.

Theorem window_in_domain : forall d cols n su g,
  1 <= su ->
  Forall (fun dp => dp_ready dp = 0) (df_deps d) ->
  Forall2 (col_ok n) (df_deps d) cols ->
  df_start d <= g -> g * su < n ->
  exists t, window_args cols (df_width d) (g * su) su = Some t /\ In t (domain d).
Proof.
  intros d cols n su g Hsu Hready Hcols Hstart Hlt.
  rewrite window_args_eq. unfold domain, domain_lists. rewrite flat_map_concat_map.
  apply all_some_concat_product.
  remember (df_width d) as w eqn:Ew.
  remember (df_deps d) as deps0 eqn:Ed. clear Ed.
  revert Hready. induction Hcols as [|dp col deps cols' [Hlen Hall] Hrest IH]; intro Hready; cbn; [constructor|].
  pose proof (Forall_inv Hready) as Hr. pose proof (Forall_inv_tail Hready) as Hready'. cbn in Hr.
  constructor; [|apply IH; assumption].
  destruct (all_some_map_Forall2 (wcell w su (g * su) col) (fun c j => In c (levels_of d dp j)) (seq 0 w)) as [cs [Hcs Hf]].
  - intros j Hj. apply in_seq in Hj. unfold wcell. cbn zeta. destruct ((w - 1 - j) * su <=? g * su) eqn:Eb.
    + apply Nat.leb_le in Eb.
      destruct (nth_error col (g * su - (w - 1 - j) * su)) as [c|] eqn:En.
      * exists c. split; [reflexivity|]. apply nth_error_In in En. rewrite Forall_forall in Hall.
        destruct (Hall _ En) as [k [Ek Hk]]. subst c. unfold levels_of. apply in_or_app. left.
        apply in_map. apply in_seq. lia.
      * exfalso. apply nth_error_None in En. rewrite Hlen in En. clear - En Hlt. lia.
    + apply Nat.leb_gt in Eb. exists CBefore. split; [reflexivity|].
      unfold levels_of. apply in_or_app. right. rewrite Hr. rewrite <- Ew.
      assert (Hgw : g < w - 1 - j) by nia.
      assert (Hc : df_start d + j + 1 <? 0 + w = true) by (apply Nat.ltb_lt; lia).
      rewrite Hc. left. reflexivity.
  - exists cs. split; [assumption|]. apply Forall2_map_right. assumption.
Qed.

(** the level a trial receives: unique, and the one [select_level_for_sample] picks *)
Theorem trial_unique : forall d cx errs ders cols n su g,
  gen_factor d cx = DOk errs ders -> forallb is_warning errs = true ->
  1 <= su -> Forall (fun dp => dp_ready dp = 0) (df_deps d) ->
  Forall2 (col_ok n) (df_deps d) cols ->
  applies_group d g = true -> g * su < n ->
  exists t l, window_args cols (df_width d) (g * su) su = Some t /\
              select_level_for_sample d cols (g * su) su = SelLevel l /\
              accepts d l t = true /\ forall l', accepts d l' t = true -> l' = l.
Proof.
  intros d cx errs ders cols n su g H Hw Hsu Hr Hc Happ Hlt.
  unfold applies_group in Happ. apply andb_true_iff in Happ. destruct Happ as [Hs _]. apply Nat.leb_le in Hs.
  destruct (window_in_domain d cols n su g Hsu Hr Hc Hs Hlt) as [t [Ht Hin]].
  destruct (derive_ok_unique _ _ _ _ H Hw t Hin) as [l [Ha [Hu Hsel]]].
  exists t, l. repeat split; try assumption.
  unfold select_level_for_sample. rewrite Ht, Hsel. reflexivity.
Qed.

(** * The whole block (flat record) *)
Lemma dfac_of_flat_window : forall fb f d, dfac_of_flat fb f = Some d ->
  exists fd w, factor_at fb f = Some fd /\ ff_window fd = Some w.
Proof.
  intros fb f d H. unfold dfac_of_flat in H. destruct (factor_at fb f) as [fd|] eqn:Ef; [|discriminate].
  destruct (ff_window fd) as [w|] eqn:Ew; [|discriminate]. exists fd, w. split; [reflexivity|assumption].
Qed.

Lemma gen_block_ok : forall fb fs errs ders errs' ders',
  gen_block fb fs errs ders = GOk errs' ders' ->
  (forall x, In x errs -> In x errs') /\
  forall f d, In f fs -> dfac_of_flat fb f = Some d ->
    exists w es ds, gen_factor d (ctx_of_flat fb f w) = DOk es ds /\ forall e, In e es -> In (f, e) errs'.
Proof.
  intros fb. induction fs as [|f0 r IH]; intros errs ders errs' ders' H; cbn in H.
  - inversion H; subst. split; [auto | intros f d []].
  - destruct (dfac_of_flat fb f0) as [d0|] eqn:Ed.
    + destruct (dfac_of_flat_window _ _ _ Ed) as [fd [w [Ef Ew]]]. rewrite Ef in H. cbn in H. rewrite Ew in H.
      destruct (gen_factor d0 (ctx_of_flat fb f0 w)) as [| |es ds] eqn:Eg; try discriminate.
      destruct (IH _ _ _ _ H) as [Hmono Hrest]. split.
      * intros x Hx. apply Hmono. apply in_or_app. left. assumption.
      * intros f d [Hf|Hf] Hd.
        -- subst f0. rewrite Ed in Hd. inversion Hd; subst d0. exists w, es, ds. split; [assumption|].
           intros e He. apply Hmono. apply in_or_app. right. apply in_map_iff. exists e. split; [reflexivity|assumption].
        -- apply Hrest; assumption.
    + assert (H' : gen_block fb r errs ders = GOk errs' ders').
      { destruct (option_map (fun fd => ff_window fd) (factor_at fb f0)) as [[w|]|]; assumption. }
      destruct (IH _ _ _ _ H') as [Hmono Hrest]. split; [assumption|].
      intros f d [Hf|Hf] Hd; [subst f0; congruence | apply Hrest; assumption].
Qed.

Lemma gen_block_overlap : forall fb fs errs ders f l1 l2 t,
  gen_block fb fs errs ders = GOverlap f l1 l2 t ->
  exists d w, dfac_of_flat fb f = Some d /\ gen_factor d (ctx_of_flat fb f w) = DOverlap l1 l2 t.
Proof.
  intros fb. induction fs as [|f0 r IH]; intros errs ders f l1 l2 t H; cbn in H; [discriminate|].
  destruct (dfac_of_flat fb f0) as [d0|] eqn:Ed.
  - destruct (dfac_of_flat_window _ _ _ Ed) as [fd [w [Ef Ew]]]. rewrite Ef in H. cbn in H. rewrite Ew in H.
    destruct (gen_factor d0 (ctx_of_flat fb f0 w)) as [a b t0| |es ds] eqn:Eg; try discriminate.
    + inversion H; subst. exists d0, w. split; assumption.
    + eapply IH; eassumption.
  - assert (H' : gen_block fb r errs ders = GOverlap f l1 l2 t).
    { destruct (option_map (fun fd => ff_window fd) (factor_at fb f0)) as [[w|]|]; assumption. }
    eapply IH; eassumption.
Qed.

Theorem block_overlap_sound : forall fb f l1 l2 t, generate_derivations fb = GOverlap f l1 l2 t ->
  exists d, dfac_of_flat fb f = Some d /\ l1 < l2 /\ In t (domain d) /\ accepts d l1 t = true /\ accepts d l2 t = true.
Proof.
  intros fb f l1 l2 t H. apply gen_block_overlap in H. destruct H as [d [w [Hd Hg]]].
  exists d. split; [assumption|]. eapply overlap_witness; eassumption.
Qed.

Theorem block_ok_unique : forall fb errs ders, generate_derivations fb = GOk errs ders ->
  forallb (fun p => is_warning (snd p)) errs = true ->
  forall f d, dfac_of_flat fb f = Some d -> forall t, In t (domain d) ->
  exists l, accepts d l t = true /\ (forall l', accepts d l' t = true -> l' = l) /\ select_level d t = Some l.
Proof.
  intros fb errs ders H Hw f d Hd t Hin.
  destruct (gen_block_ok _ _ _ _ _ _ H) as [_ Hall].
  assert (Hf : In f (seq 0 (length (fl_design fb)))).
  { destruct (dfac_of_flat_window _ _ _ Hd) as [fd [w [Ef _]]]. unfold factor_at in Ef.
    apply in_seq. split; [lia|]. cbn. apply nth_error_Some. congruence. }
  destruct (Hall f d Hf Hd) as [w [es [ds [Hg Hes]]]].
  eapply derive_ok_unique; [eassumption| |assumption].
  apply forallb_forall. intros e He. rewrite forallb_forall in Hw. apply (Hw (f, e)). apply Hes. assumption.
Qed.

Theorem uncovered_fails : forall d cx errs ders t, gen_factor d cx = DOk errs ders ->
  In t (domain d) -> (forall l, accepts d l t = false) -> outcome_fails (gen_factor d cx) = true.
Proof.
  intros d cx errs ders t H Hin Hno. rewrite H. cbn. apply negb_true_iff.
  destruct (forallb is_warning errs) eqn:E; [|reflexivity].
  rewrite forallb_forall in E.
  specialize (E (Uncovered t) (proj2 (uncovered_reported d cx errs ders H t) (conj Hin Hno))). discriminate.
Qed.
