(** [doc_sem]: the documented meaning of a *program* as a [Sem.sem], inside Coq.

    Mirror, function by function, of harness/docsem.py (which was written from
    docs/_source/api/*.rst and DESIGN.md Appendix B and never reads a real block
    object).  The harness runs the extracted [doc_sem] beside docsem.py on every
    generated program (harness/docsem_corr.py, extract/drv_docsem.ml).

    Conventions of the mirror
    - a program is the factor table plus the main block expression as a tree
      (the JSON IR refers to blocks and constraints by id; harness/docsem_corr.py
      [program_wire] inlines them; a cyclic reference is not a program);
    - integers of the IR that are sizes (weights, k, trials, width, stride,
      start) are [nat]; [Pin]'s index is [Z];
    - [docsem.Unsupported] is [Unsup e]; any other Python exception (KeyError on
      an unknown id, IndexError, ValueError of [list.index], RecursionError on a
      cyclic dependency, which here is fuel exhaustion) is [Crash];
    - Python dicts are association lists with [dict_set] (replace in place, else
      append), Python sets are duplicate-free lists.
    No proofs here (Design/DocSemProofs.v). *)
From Coq Require Import ZArith List Bool Arith String Ascii.
From SP Require Import Design.Sem Design.Flat.
Import ListNotations.

(** * Programs *)
Definition name := string.
(** one accepted window: per depended-on factor a list of [width] level names
    ([None] = no value yet), oldest first *)
Definition entry := list (list (option name)).

Record pdlevel := {
  dl_name : name;
  dl_weight : nat;
  dl_else : bool;
  dl_table : list entry
}.

Inductive pwtype :=
| WWithin
| WTransition
| WWindow (width stride : nat) (start : option nat).

Record pwindow := { pw_type : pwtype; pw_deps : list nat }.

Inductive pfkind :=
| FSimple (levels : list (name * nat))
| FDerived (w : pwindow) (levels : list pdlevel)
| FContinuous.

Record pfactor := { pf_id : nat; pf_name : string; pf_kind : pfkind }.

Inductive ptarget := TLevel (f : nat) (n : name) | TFactor (f : nat).
Inductive krow := RAtMost | RAtLeast | RExactlyRow | RExactlyK.

Inductive pcons :=
| PKRow (kd : krow) (k : nat) (tg : ptarget)
| PExclude (f : nat) (n : name)
| PPin (index : Z) (f : nat) (n : name)
| PSequential (f : nat)
| PLatin (fs : list nat)
| PMinimumTrials (trials : nat)
| PContinuous
| POther (kind : string).

Inductive dmode := DWeight | DRepeat | DEqual.

Inductive pblock :=
| PCross (design crossing : list nat) (cs : list pcons) (rcc : bool)
| PMulti (design : list nat) (crossings : list (list nat)) (cs : list pcons) (rcc : bool)
         (mode : dmode) (al : alignment)
| PRepeat (b : pblock) (cs : list pcons)
| PMerge (bs : list pblock) (cs : list pcons) (mode : dmode) (al : option alignment)
| PNest (outer inner : pblock) (cs : list pcons) (al : option alignment).

Record program := { p_factors : list pfactor; p_main : pblock }.

(** * Results *)
Inductive uerr :=
| UNestPreamble          (* "Nest with preamble trials" *)
| UEqualPreamble         (* "constructor rejects: EQUAL_PREAMBLE with different preambles" *)
| UEqualSizes            (* "constructor rejects: EQUAL with different sizes" *)
| UAlignments            (* "constructor rejects: different alignments" *)
| UDegenerateStep        (* "degenerate repetition step" *)
| UDepOutside            (* "derived factor depends on a factor outside the design" *)
| UEmptyCrossing         (* "empty crossing" *)
| UStrided               (* "run-length constraint on a strided factor: documentation silent" *)
| UHeldDerived           (* "held derived factor over dependencies that are not held with it: outside the reference semantics" *)
| UKind (kind : string). (* the constraint kind *)

Inductive res (A : Type) :=
| Ok (a : A)
| Unsup (e : uerr)
| Crash (why : string).
Arguments Ok {A} a.
Arguments Unsup {A} e.
Arguments Crash {A} why.

Definition bind {A B} (r : res A) (f : A -> res B) : res B :=
  match r with
  | Ok a => f a
  | Unsup e => Unsup e
  | Crash w => Crash w
  end.
Notation "x <- r ;; k" := (bind r (fun x => k)) (at level 61, r at next level, right associativity).
Notation "' p <- r ;; k" := (bind r (fun p => k)) (at level 61, p pattern, r at next level, right associativity).

Fixpoint mapM {A B} (f : A -> res B) (l : list A) : res (list B) :=
  match l with
  | [] => Ok []
  | x :: r => y <- f x ;; ys <- mapM f r ;; Ok (y :: ys)
  end.

Fixpoint filterM {A} (f : A -> res bool) (l : list A) : res (list A) :=
  match l with
  | [] => Ok []
  | x :: r => b <- f x ;; ys <- filterM f r ;; Ok (if b : bool then x :: ys else ys)
  end.

Definition of_option {A} (why : string) (o : option A) : res A :=
  match o with Some a => Ok a | None => Crash why end.

(** * Small library: sets, dicts, products, sorting *)
Definition mem (f : nat) (l : list nat) : bool := existsb (Nat.eqb f) l.

Definition oname_eqb (a b : option name) : bool :=
  match a, b with
  | None, None => true
  | Some x, Some y => String.eqb x y
  | _, _ => false
  end.
Definition entry_eqb : entry -> entry -> bool := list_eqb (list_eqb oname_eqb).
Definition names_eqb : list name -> list name -> bool := list_eqb String.eqb.

Definition memb {A} (eqb : A -> A -> bool) (x : A) (l : list A) : bool := existsb (eqb x) l.

(** a Python set built by adding the elements in order *)
Definition dedupe {A} (eqb : A -> A -> bool) (l : list A) : list A :=
  fold_left (fun acc x => if memb eqb x acc then acc else acc ++ [x]) l [].

(** [d[k] = v] *)
Fixpoint dict_set {K V} (eqb : K -> K -> bool) (k : K) (v : V) (d : list (K * V)) : list (K * V) :=
  match d with
  | [] => [(k, v)]
  | (k', v') :: r => if eqb k k' then (k', v) :: r else (k', v') :: dict_set eqb k v r
  end.
Definition dict_get {K V} (eqb : K -> K -> bool) (k : K) (d : list (K * V)) : option V :=
  option_map snd (find (fun kv => eqb k (fst kv)) d).
(** [dict(pairs)] *)
Definition dict_of {K V} (eqb : K -> K -> bool) (kvs : list (K * V)) : list (K * V) :=
  fold_left (fun d kv => dict_set eqb (fst kv) (snd kv) d) kvs [].
(** [d.update(e)] *)
Definition dict_update {K V} (eqb : K -> K -> bool) (d e : list (K * V)) : list (K * V) :=
  fold_left (fun d kv => dict_set eqb (fst kv) (snd kv) d) e d.

(** [itertools.product] of the domains: the leftmost domain varies slowest *)
Fixpoint product {A} (doms : list (list A)) : list (list A) :=
  match doms with
  | [] => [[]]
  | d :: r => flat_map (fun x => map (cons x) (product r)) d
  end.

(** [l.index(x)] *)
Fixpoint index_of {A} (eqb : A -> A -> bool) (x : A) (l : list A) : option nat :=
  match l with
  | [] => None
  | y :: r => if eqb x y then Some 0 else option_map S (index_of eqb x r)
  end.

(** stable insertion sort by a key *)
Fixpoint insert_by {A} (leb : A -> A -> bool) (x : A) (l : list A) : list A :=
  match l with
  | [] => [x]
  | y :: r => if leb y x then y :: insert_by leb x r else x :: l
  end.
Definition sort_by {A} (leb : A -> A -> bool) (l : list A) : list A :=
  fold_left (fun acc x => insert_by leb x acc) l [].

Definition ceil_div (a b : nat) : nat := (a + b - 1) / b.

(** ** Python [repr] of the table entries ([sorted(e, key=repr)]).
    Bytes >= 128 are kept as they are (UTF-8 of a printable character; byte
    order of UTF-8 is code-point order). *)
Definition hex_digit (n : nat) : ascii :=
  nth n ["0";"1";"2";"3";"4";"5";"6";"7";"8";"9";"a";"b";"c";"d";"e";"f"]%char "0"%char.

Fixpoint contains_char (c : ascii) (s : string) : bool :=
  match s with
  | EmptyString => false
  | String d r => Ascii.eqb c d || contains_char c r
  end.

Fixpoint repr_chars (q : ascii) (s : string) : string :=
  match s with
  | EmptyString => EmptyString
  | String c r =>
    let n := nat_of_ascii c in
    let rest := repr_chars q r in
    if Ascii.eqb c q || Ascii.eqb c "\"%char then String "\"%char (String c rest)
    else if n =? 9 then String "\"%char (String "t"%char rest)
    else if n =? 10 then String "\"%char (String "n"%char rest)
    else if n =? 13 then String "\"%char (String "r"%char rest)
    else if (n <? 32) || (n =? 127) then
      String "\"%char (String "x"%char (String (hex_digit (n / 16)) (String (hex_digit (n mod 16)) rest)))
    else String c rest
  end.

Definition repr_name (s : name) : string :=
  let q := if contains_char "'"%char s && negb (contains_char """"%char s) then """"%char else "'"%char in
  String q (repr_chars q s ++ String q EmptyString).

Definition repr_oname (o : option name) : string :=
  match o with None => "None"%string | Some s => repr_name s end.

Definition repr_tuple (parts : list string) : string :=
  match parts with
  | [] => "()"%string
  | [x] => ("(" ++ x ++ ",)")%string
  | _ => ("(" ++ String.concat ", " parts ++ ")")%string
  end.

Definition repr_entry (e : entry) : string :=
  repr_tuple (map (fun col => repr_tuple (map repr_oname col)) e).

Definition sort_entries (es : list entry) : list entry :=
  sort_by (fun a b => String.leb (repr_entry a) (repr_entry b)) es.

(** tuples of level names compare lexicographically, names by code points *)
Fixpoint names_leb (a b : list name) : bool :=
  match a, b with
  | [], _ => true
  | _ :: _, [] => false
  | x :: a', y :: b' =>
    match String.compare x y with
    | Lt => true
    | Gt => false
    | Eq => names_leb a' b'
    end
  end.

(** * The factor table *)
Section Program.
Variable p : program.

(** [_fmap(program)[fid]]: a later declaration of an id replaces an earlier one *)
Definition fm (fid : nat) : res pfactor :=
  of_option "KeyError: factor id" (find (fun f => pf_id f =? fid) (rev (p_factors p))).

Definition level_names (fd : pfactor) : res (list name) :=
  match pf_kind fd with
  | FSimple levels => Ok (map fst levels)
  | FDerived _ levels => Ok (map dl_name levels)
  | FContinuous => Crash "KeyError: levels"
  end.

Definition level_weights (fd : pfactor) : res (list nat) :=
  match pf_kind fd with
  | FSimple levels => Ok (map snd levels)
  | FDerived _ levels => Ok (map dl_weight levels)
  | FContinuous => Crash "KeyError: levels"
  end.

Definition nlevels (fd : pfactor) : res nat :=
  match pf_kind fd with
  | FSimple levels => Ok (List.length levels)
  | FDerived _ levels => Ok (List.length levels)
  | FContinuous => Crash "KeyError: levels"
  end.

Definition is_derived (fd : pfactor) : bool :=
  match pf_kind fd with FDerived _ _ => true | _ => false end.
Definition is_simple (fd : pfactor) : bool :=
  match pf_kind fd with FSimple _ => true | _ => false end.
Definition is_continuous (fd : pfactor) : bool :=
  match pf_kind fd with FContinuous => true | _ => false end.

Definition fdeps (fd : pfactor) : list nat :=
  match pf_kind fd with FDerived w _ => pw_deps w | _ => [] end.

(** (deps, width, stride, start) *)
Definition wparams := (list nat * nat * nat * nat)%type.
Definition wp_start (q : wparams) : nat := snd q.

Definition fuel0 : nat := S (List.length (p_factors p)).

(** [window_params] and [is_complex] call each other through the dependencies;
    one level of fuel per dependency step. *)
Fixpoint wp_cx (n : nat) : (pfactor -> res wparams) * (pfactor -> res bool) :=
  match n with
  | O => (fun _ => Crash "RecursionError", fun _ => Crash "RecursionError")
  | S n' =>
    let r := wp_cx n' in
    let wp' := fst r in
    let cx' := snd r in
    let wp := fun fd : pfactor =>
      match pf_kind fd with
      | FDerived w _ =>
        let '(width, stride, start) :=
            match pw_type w with
            | WWithin => (1, 1, None)
            | WTransition => (2, 1, Some 1)
            | WWindow wd st sa => (wd, st, sa)
            end in
        default <-
          fold_left (fun acc d =>
                       default <- acc ;;
                       dd <- fm d ;;
                       if is_derived dd then
                         q <- wp' dd ;;
                         c <- cx' dd ;;
                         Ok (if c : bool then Nat.max default (wp_start q + width - 1) else default)
                       else Ok default)
                    (pw_deps w) (Ok (width - 1)) ;;
        Ok (pw_deps w, width, stride, match start with Some s => s | None => default end)
      | _ => Crash "KeyError: window"
      end in
    let cx := fun fd : pfactor =>
      if negb (is_derived fd) then Ok false
      else
        '(deps, width, stride, start) <- wp fd ;;
        if (1 <? width) || (1 <? stride) || (0 <? start) then Ok true
        else match deps with
             | [] => Crash "IndexError: deps[0]"
             | d0 :: _ => dd <- fm d0 ;; if negb (is_derived dd) then Ok false else cx' dd
             end in
    (wp, cx)
  end.

Definition window_params (fd : pfactor) : res wparams := fst (wp_cx fuel0) fd.
Definition is_complex (fd : pfactor) : res bool := snd (wp_cx fuel0) fd.

(** [flat[i*width:(i+1)*width] for i in range(ndeps)] *)
Definition regroup (width ndeps : nat) (flat : list (option name)) : entry :=
  map (fun i => firstn width (skipn (i * width) flat)) (seq 0 ndeps).

Definition accepted_tables (fd : pfactor) : res (list (list entry)) :=
  '(deps, width, stride, start) <- window_params fd ;;
  doms <- mapM (fun d => dd <- fm d ;; names <- level_names dd ;;
                         Ok (repeat (map Some names ++ [None]) width)) deps ;;
  match pf_kind fd with
  | FDerived _ levels =>
    let explicit := map (fun lev => if dl_else lev then None else Some (dedupe entry_eqb (dl_table lev))) levels in
    let union := flat_map (fun e => match e with Some s => s | None => [] end) explicit in
    let others := filter (fun cols => negb (memb entry_eqb cols union))
                         (map (regroup width (List.length deps)) (product (List.concat doms))) in
    Ok (map (fun e => match e with None => others | Some s => sort_entries s end) explicit)
  | _ => Crash "KeyError: levels"
  end.

(** ** Within-trial values and feasible combinations *)
Definition assignment := list (nat * name).

Fixpoint within_value (n : nat) (fd : pfactor) (assign : assignment) : res (option name) :=
  match n with
  | O => Crash "RecursionError"
  | S n' =>
    '(deps, width, stride, start) <- window_params fd ;;
    args <-
      (fix go (ds : list nat) : res (option (list name)) :=
         match ds with
         | [] => Ok (Some [])
         | d :: r =>
           dd <- fm d ;;
           v <- (if is_derived dd then
                   c <- is_complex dd ;;
                   if c : bool then Ok None else within_value n' dd assign
                 else Ok (dict_get Nat.eqb d assign)) ;;
           match v with
           | None => Ok None
           | Some x => rest <- go r ;; Ok (option_map (cons x) rest)
           end
         end) deps ;;
    match args with
    | None => Ok None
    | Some vs =>
      tabs <- accepted_tables fd ;;
      names <- level_names fd ;;
      let key : entry := map (fun v => [Some v]) vs in
      let hit := map fst (filter (fun nt => memb entry_eqb key (snd nt)) (combine names tabs)) in
      Ok (match hit with [x] => Some x | _ => None end)
    end
  end.

(** [collect(fid)]: the basic factors a design factor is computed from *)
Fixpoint collect (n : nat) (basics : list nat) (fid : nat) (extra : list nat) : res (list nat) :=
  match n with
  | O => Crash "RecursionError"
  | S n' =>
    fd <- fm fid ;;
    match pf_kind fd with
    | FDerived w _ => fold_left (fun acc d => e <- acc ;; collect n' basics d e) (pw_deps w) (Ok extra)
    | FSimple _ => Ok (if negb (mem fid basics) && negb (mem fid extra) then extra ++ [fid] else extra)
    | FContinuous => Ok extra
    end
  end.

Definition level_eqb (a b : nat * name) : bool := (fst a =? fst b) && String.eqb (snd a) (snd b).

Definition combo_weight (crossing : list nat) (combo : list name) : res nat :=
  fold_left (fun acc fn =>
               w <- acc ;;
               fd <- fm (fst fn) ;;
               ws <- level_weights fd ;;
               ns <- level_names fd ;;
               i <- of_option "ValueError: index" (index_of String.eqb (snd fn) ns) ;;
               x <- of_option "IndexError: weights" (nth_error ws i) ;;
               Ok (w * x))
            (combine crossing combo) (Ok 1).

Definition combos := list (list name * nat).

Definition feasible_combos (design crossing : list nat) (excludes : list (nat * name)) : res combos :=
  kinds <- mapM (fun f => fd <- fm f ;; Ok (f, fd)) design ;;
  let basics := map fst (filter (fun x => is_simple (snd x)) kinds) in
  extra <- fold_left (fun acc f => e <- acc ;; collect fuel0 basics f e) design (Ok []) ;;
  let allb := basics ++ extra in
  within <- filterM (fun x => if is_derived (snd x) then c <- is_complex (snd x) ;; Ok (negb c) else Ok false)
                    kinds ;;
  excl <- filterM (fun fn => if mem (fst fn) crossing then Ok true else fd <- fm (fst fn) ;; Ok (is_derived fd))
                  excludes ;;
  doms <- mapM (fun b => fd <- fm b ;; level_names fd) allb ;;
  fold_left
    (fun acc vals =>
       feasible <- acc ;;
       let assign := dict_of Nat.eqb (combine allb vals) in
       if existsb (fun bv => mem (fst bv) design && memb level_eqb bv excl) assign then Ok feasible
       else
         (* the within-trial derived factors of the design, in order; [None] = skip this assignment *)
         wv <- fold_left (fun acc x =>
                            o <- acc ;;
                            match o with
                            | None => Ok None
                            | Some wv =>
                              v <- within_value fuel0 (snd x) assign ;;
                              match v with
                              | None => Ok None
                              | Some l => if memb level_eqb (fst x, l) excl then Ok None
                                          else Ok (Some (dict_set Nat.eqb (fst x) l wv))
                              end
                            end) within (Ok (Some [])) ;;
         match wv with
         | None => Ok feasible
         | Some wv =>
           parts <- mapM (fun f =>
                            fd <- fm f ;;
                            if is_simple fd then
                              v <- of_option "KeyError: assign" (dict_get Nat.eqb f assign) ;; Ok [v]
                            else match dict_get Nat.eqb f wv with
                                 | Some v => Ok [v]
                                 | None => ns <- level_names fd ;;
                                           Ok (filter (fun n => negb (memb level_eqb (f, n) excl)) ns)
                                 end) crossing ;;
           fold_left (fun acc combo =>
                        d <- acc ;; w <- combo_weight crossing combo ;; Ok (dict_set names_eqb combo w d))
                     (product parts) (Ok feasible)
         end)
    (product doms) (Ok []).

Definition crossing_preamble (crossing : list nat) : res nat :=
  fold_left (fun acc f =>
               m <- acc ;;
               fd <- fm f ;;
               if is_derived fd then q <- window_params fd ;; Ok (Nat.max m (wp_start q)) else Ok m)
            crossing (Ok 0).

(** reading decision 8: a run-length constraint on a window factor of stride > 1 is outside
    the reference semantics *)
Definition strided (fd : pfactor) : bool :=
  match pf_kind fd with
  | FDerived w _ => match pw_type w with WWindow _ stride _ => 1 <? stride | _ => false end
  | _ => false
  end.

Definition is_run_kind (kd : krow) : bool :=
  match kd with RExactlyK => false | _ => true end.

Definition target_factor (tg : ptarget) : nat :=
  match tg with TLevel f _ => f | TFactor f => f end.

Definition expand_constraint (c : pcons) : res (list pcons) :=
  match c with
  | PKRow kd k tg =>
    ok <- (if is_run_kind kd then fd <- fm (target_factor tg) ;; if strided fd then Unsup UStrided else Ok tt
           else Ok tt) ;;
    match tg with
    | TFactor f => fd <- fm f ;; ns <- level_names fd ;; Ok (map (fun n => PKRow kd k (TLevel f n)) ns)
    | TLevel _ _ => Ok [c]
    end
  | _ => Ok [c]
  end.

(** * Blocks *)
Record dcross := {
  x_factors : list nat;
  x_S : nat;               (* size *)
  x_P : nat;               (* preamble *)
  x_su : nat;              (* sustain *)
  x_cw : nat;              (* crossing weight *)
  x_combos : combos;
  x_complete : bool;
  x_rcc : bool             (* "rcc_required" *)
}.

Inductive scope :=
| ScNone                                   (* the whole sequence *)
| ScRep (inner : scope) (Tb Pb off : nat)  (* each repetition of a block *)
| ScScaled (inner : scope) (n : nat).      (* outer block of a Nest *)

Record blockdoc := {
  b_design : list nat;
  b_crossings : list dcross;
  b_T : nat;
  b_P : nat;
  b_constraints : list (pcons * scope);
  b_min_trials : nat;
  b_alignment : alignment;
  b_sustain : list (nat * nat);
  b_rcc : bool
}.

Definition alignment_eqb (a b : alignment) : bool :=
  match a, b with
  | PostPreamble, PostPreamble | ParallelStart, ParallelStart | EqualPreamble, EqualPreamble => true
  | _, _ => false
  end.

Definition set_cw (c : dcross) (w : nat) : dcross :=
  {| x_factors := x_factors c; x_S := x_S c; x_P := x_P c; x_su := x_su c; x_cw := w;
     x_combos := x_combos c; x_complete := x_complete c; x_rcc := x_rcc c |}.
Definition set_su (c : dcross) (su : nat) : dcross :=
  {| x_factors := x_factors c; x_S := x_S c; x_P := x_P c; x_su := su; x_cw := x_cw c;
     x_combos := x_combos c; x_complete := x_complete c; x_rcc := x_rcc c |}.

(** the trial count [_finish] arrives at *)
Definition finish_T (al : alignment) (cs : list dcross) (min_trials : nat) : nat :=
  let T0 := match al with
            | PostPreamble => list_max (map x_P cs) + list_max (map (fun c => x_S c * x_su c) cs)
            | _ => list_max (map (fun c => (x_P c + x_S c) * x_su c) cs)
            end in
  let m := fold_left (fun m c => if m mod x_su c =? 0 then m else (m / x_su c + 1) * x_su c) cs min_trials in
  Nat.max (Nat.max T0 1) m.

Definition finish_cw (mode : dmode) (T : nat) (c : dcross) : res dcross :=
  if x_S c =? 0 then Ok c
  else
    let w := ceil_div (T / x_su c - x_P c) (x_S c) in
    if w =? x_cw c then Ok c
    else match mode with DEqual => Unsup UEqualSizes | _ => Ok (set_cw c w) end.

(** the block's preamble: the first crossing's; under POST_PREAMBLE the unified one (reading decision 9) *)
Definition block_P (al : alignment) (cs : list dcross) : nat :=
  match al with
  | PostPreamble => list_max (map (fun c => x_P c * x_su c) cs)
  | _ => match cs with c :: _ => x_P c * x_su c | [] => 0 end
  end.

(** [_finish(program, bd, mode)]: trial count and crossing weights *)
Definition finish (bd : blockdoc) (mode : dmode) : res blockdoc :=
  let cs := b_crossings bd in
  let T := finish_T (b_alignment bd) cs (b_min_trials bd) in
  let P := block_P (b_alignment bd) cs in
  if alignment_eqb (b_alignment bd) EqualPreamble
     && negb (match cs with [] => true | c0 :: _ => forallb (fun c => x_P c =? x_P c0) cs end)
  then Unsup UEqualPreamble
  else
    cs' <- (match mode with DRepeat => Ok cs | _ => mapM (finish_cw mode T) cs end) ;;
    Ok {| b_design := b_design bd; b_crossings := cs'; b_T := T; b_P := P;
          b_constraints := b_constraints bd; b_min_trials := b_min_trials bd;
          b_alignment := b_alignment bd; b_sustain := b_sustain bd; b_rcc := b_rcc bd |}.

Definition min_trials_of (cs : list pcons) : list nat :=
  flat_map (fun c => match c with PMinimumTrials n => [n] | _ => [] end) cs.
Definition is_min_trials (c : pcons) : bool :=
  match c with PMinimumTrials _ => true | _ => false end.
Definition own_constraints (cs : list pcons) : list (pcons * scope) :=
  map (fun c => (c, ScNone)) (filter (fun c => negb (is_min_trials c)) cs).
Definition excludes_of (cs : list pcons) : list (nat * name) :=
  flat_map (fun c => match c with PExclude f n => [(f, n)] | _ => [] end) cs.

(** every combination of the crossed levels with the product of the weights *)
Definition all_combos (cr : list nat) : res combos :=
  doms <- mapM (fun f => fd <- fm f ;; level_names fd) cr ;;
  fold_left (fun acc combo => d <- acc ;; w <- combo_weight cr combo ;; Ok (dict_set names_eqb combo w d))
            (product doms) (Ok []).

Definition sum_values (d : combos) : nat := fold_left (fun a kv => a + snd kv) d 0.

(** [set(feas) == set(allc)] *)
Definition same_keys (a b : combos) : bool :=
  forallb (fun kv => memb names_eqb (fst kv) (map fst b)) a &&
  forallb (fun kv => memb names_eqb (fst kv) (map fst a)) b.

Definition doc_crossing (design : list nat) (excludes : list (nat * name)) (rcc : bool) (cr : list nat)
  : res dcross :=
  allc <- all_combos cr ;;
  feas <- feasible_combos design cr excludes ;;
  let complete := same_keys feas allc in
  let cmb := if rcc then allc else feas in
  P <- crossing_preamble cr ;;
  Ok {| x_factors := cr; x_S := sum_values cmb; x_P := P; x_su := 1; x_cw := 1;
        x_combos := cmb; x_complete := complete; x_rcc := rcc |}.

Definition nonempty {A} (l : list A) : bool := match l with [] => false | _ => true end.

(** [CrossBlock] / [MultiCrossBlock] *)
Definition doc_cross (design : list nat) (crossings : list (list nat)) (cs : list pcons) (rcc : bool)
           (mode : dmode) (al : alignment) : res blockdoc :=
  kinds <- mapM (fun f => fd <- fm f ;; Ok (f, fd)) design ;;
  let design' := map fst (filter (fun x => negb (is_continuous (snd x))) kinds) in
  xs <- mapM (doc_crossing design' (excludes_of cs) rcc) (filter nonempty crossings) ;;
  bd <- finish {| b_design := design'; b_crossings := xs; b_T := 0; b_P := 0; b_constraints := [];
                  b_min_trials := list_max (min_trials_of cs); b_alignment := al; b_sustain := [];
                  b_rcc := rcc |} mode ;;
  Ok {| b_design := b_design bd; b_crossings := b_crossings bd; b_T := b_T bd; b_P := b_P bd;
        b_constraints := own_constraints cs; b_min_trials := b_min_trials bd;
        b_alignment := b_alignment bd; b_sustain := b_sustain bd; b_rcc := b_rcc bd |}.

Definition add_new (design fs : list nat) : list nat :=
  fold_left (fun d f => if mem f d then d else d ++ [f]) fs design.

(** [_merge(program, inners, cs, mode, alignment, nest)] *)
Definition merge (inners : list blockdoc) (cs : list pcons) (mode : dmode) (al : alignment) (nest : bool)
  : res blockdoc :=
  if negb nest && negb (forallb (fun b => alignment_eqb (b_alignment b) al) inners) then Unsup UAlignments
  else
    bd <- finish {| b_design := fold_left (fun d b => add_new d (b_design b)) inners [];
                    b_crossings := flat_map b_crossings inners; b_T := 0; b_P := 0; b_constraints := [];
                    b_min_trials := list_max (min_trials_of cs ++ map b_min_trials inners);
                    b_alignment := al;
                    b_sustain := fold_left (fun d b => dict_update Nat.eqb d (b_sustain b)) inners [];
                    b_rcc := forallb b_rcc inners |} mode ;;
    let maxp := list_max (map (fun c => x_P c * x_su c) (b_crossings bd)) in
    let inherited :=
        flat_map (fun b =>
                    let off := match al with PostPreamble => maxp - b_P b | _ => 0 end in
                    map (fun csc => (fst csc, ScRep (snd csc) (b_T b) (b_P b) off)) (b_constraints b))
                 inners in
    Ok {| b_design := b_design bd; b_crossings := b_crossings bd; b_T := b_T bd; b_P := b_P bd;
          b_constraints := inherited ++ own_constraints cs; b_min_trials := b_min_trials bd;
          b_alignment := b_alignment bd; b_sustain := b_sustain bd; b_rcc := b_rcc bd |}.

(** the outer block of a [Nest], scaled by the inner List.length *)
Definition scale_outer (outer : blockdoc) (n : nat) : blockdoc :=
  {| b_design := b_design outer;
     b_crossings := map (fun c => set_su c (x_su c * n)) (b_crossings outer);
     b_T := b_T outer * n; b_P := b_P outer * n;
     b_constraints := map (fun csc => (fst csc, ScScaled (snd csc) n)) (b_constraints outer);
     b_min_trials := b_min_trials outer * n;
     b_alignment := b_alignment outer;
     b_sustain :=
       fold_left (fun d c => fold_left (fun d f => dict_set Nat.eqb f (x_su c * n) d) (x_factors c) d)
                 (b_crossings outer)
                 (map (fun fn => (fst fn, snd fn * n)) (b_sustain outer));
     b_rcc := b_rcc outer |}.

Fixpoint doc_block (b : pblock) : res blockdoc :=
  match b with
  | PCross design crossing cs rcc => doc_cross design [crossing] cs rcc DWeight EqualPreamble
  | PMulti design crossings cs rcc mode al => doc_cross design crossings cs rcc mode al
  | PRepeat b' cs => inner <- doc_block b' ;; merge [inner] cs DRepeat EqualPreamble false
  | PMerge bs cs mode al =>
    inners <- (fix go (l : list pblock) : res (list blockdoc) :=
                 match l with
                 | [] => Ok []
                 | x :: r => y <- doc_block x ;; ys <- go r ;; Ok (y :: ys)
                 end) bs ;;
    al' <- match al with
           | Some a => Ok a
           | None => match inners with b0 :: _ => Ok (b_alignment b0) | [] => Crash "IndexError: inners[0]" end
           end ;;
    merge inners cs mode al' false
  | PNest o i cs al =>
    outer <- doc_block o ;;
    inner <- doc_block i ;;
    if existsb (fun c => negb (x_P c =? 0)) (b_crossings outer ++ b_crossings inner) then Unsup UNestPreamble
    else
      let scaled := scale_outer outer (b_T inner - b_P inner) in
      merge [scaled; inner] cs DRepeat (match al with Some a => a | None => b_alignment outer end) true
  end.

(** * Constraint scopes *)
Fixpoint rep_windows (fuel : nat) (base : list (nat * nat)) (step T Pb start : nat) : list (nat * nat) :=
  match fuel with
  | O => []
  | S fuel' =>
    if start <? T - Pb then
      flat_map (fun ab => let lo := start + fst ab in let hi := Nat.min (start + snd ab) T in
                          if lo <? hi then [(lo, hi)] else []) base
      ++ rep_windows fuel' base step T Pb (start + step)
    else []
  end.

(** trial ranges over which a constraint applies, and the trial-group scale *)
Fixpoint scope_windows (sc : scope) (T : nat) : res (list (nat * nat) * nat) :=
  match sc with
  | ScNone => Ok ([(0, T)], 1)
  | ScRep inner Tb Pb off =>
    '(base, scale) <- scope_windows inner Tb ;;
    if Tb <=? Pb then Unsup UDegenerateStep
    else Ok (rep_windows (S T) base (Tb - Pb) T Pb off, scale)
  | ScScaled inner n =>
    '(base, scale) <- scope_windows inner (T / n) ;;
    Ok (map (fun ab => (fst ab * n, snd ab * n)) base, scale * n)
  end.

(** * doc_sem *)
Fixpoint depth (n : nat) (fid : nat) : res nat :=
  match n with
  | O => Crash "RecursionError"
  | S n' =>
    fd <- fm fid ;;
    match pf_kind fd with
    | FDerived w _ =>
      ds <- mapM (depth n') (pw_deps w) ;;
      match ds with [] => Crash "ValueError: max of empty" | _ => Ok (1 + list_max ds) end
    | _ => Ok 0
    end
  end.

(** [{f: i for i, f in enumerate(forder)}[f]]: the last position *)
Definition pos_of (forder : list nat) (f : nat) : res nat :=
  of_option "KeyError: pos"
            (fold_left (fun acc ix => if snd ix =? f then Some (fst ix) else acc)
                       (combine (seq 0 (List.length forder)) forder) None).

Definition level_index (fid : nat) (ln : name) : res nat :=
  fd <- fm fid ;; ns <- level_names fd ;; of_option "ValueError: level name" (index_of String.eqb ln ns).

Definition sustain_get (bd : blockdoc) (f : nat) : nat :=
  match dict_get Nat.eqb f (b_sustain bd) with Some n => n | None => 1 end.

Definition enc_table (deps : list nat) (tabs : list (list entry)) : res (list (list (list (list (option nat))))) :=
  mapM (mapM (fun cols : entry =>
                mapM (fun dc : nat * list (option name) =>
                        dd <- fm (fst dc) ;;
                        ns <- level_names dd ;;
                        mapM (fun o : option name =>
                                match o with
                                | None => Ok None
                                | Some n => i <- of_option "ValueError: table name" (index_of String.eqb n ns) ;;
                                            Ok (Some i)
                                end) (snd dc))
                     (combine deps cols))) tabs.

Definition sem_factor (bd : blockdoc) (forder : list nat) (f : nat) : res dfactor :=
  fd <- fm f ;;
  let su := sustain_get bd f in
  nl <- nlevels fd ;;
  if is_simple fd then Ok {| f_nlevels := nl; f_sustain := su; f_derived := None |}
  else
    '(deps, width, stride, start) <- window_params fd ;;
    (* reading decision 10: Sem reads the window of a held derived factor at the group start only *)
    if (1 <? su) && existsb (fun d => negb (sustain_get bd d =? su)) deps then Unsup UHeldDerived else
    tabs <- accepted_tables fd ;;
    enc <- enc_table deps tabs ;;
    pdeps <- mapM (pos_of forder) deps ;;
    Ok {| f_nlevels := nl; f_sustain := su;
          f_derived := Some {| w_deps := pdeps; w_width := width; w_stride := stride; w_start := start;
                               w_table := enc |} |}.

Definition crossing_first (bd : blockdoc) (maxp : nat) (c : dcross) : nat :=
  match b_alignment bd with PostPreamble => maxp | _ => x_P c * x_su c end.

Definition sem_crossing (bd : blockdoc) (forder : list nat) (maxp : nat) (c : dcross) : res dcrossing :=
  let chunk := x_S c * x_cw c * x_su c in
  if chunk =? 0 then Unsup UEmptyCrossing
  else
    mult <- mapM (fun cw : list name * nat =>
                    idx <- mapM (fun fn => level_index (fst fn) (snd fn)) (combine (x_factors c) (fst cw)) ;;
                    Ok (idx, snd cw * x_cw c * x_su c))
                 (sort_by (fun a b => names_leb (fst a) (fst b)) (x_combos c)) ;;
    fs <- mapM (pos_of forder) (x_factors c) ;;
    Ok {| c_factors := fs; c_first := crossing_first bd maxp c; c_chunk := chunk; c_mult := mult |}.

(** first crossing trial of the last crossing that contains [fid] (0 if none) *)
Definition first_of (bd : blockdoc) (maxp : nat) (fid : nat) : nat :=
  fold_left (fun acc c => if mem fid (x_factors c) then crossing_first bd maxp c else acc) (b_crossings bd) 0.

Definition krow_kind (kd : krow) (k scale : nat) : ckind :=
  match kd with
  | RAtMost => KAtMost k
  | RAtLeast => KAtLeast k
  | RExactlyRow => KExactlyInARow k
  | RExactlyK => KExactlyK (k * scale)
  end.

Definition sem_constraint (bd : blockdoc) (forder : list nat) (maxp T : nat) (c : pcons) (sc : scope)
  : res (list dconstraint) :=
  '(wins, scale) <- scope_windows sc T ;;
  match c with
  | PKRow kd k (TLevel fid ln) =>
    pf <- pos_of forder fid ;; li <- level_index fid ln ;;
    Ok [{| k_kind := krow_kind kd k scale; k_factor := pf; k_level := li; k_windows := wins |}]
  | PKRow _ _ (TFactor _) => Crash "KeyError: level"
  | PExclude fid ln =>
    pf <- pos_of forder fid ;; li <- level_index fid ln ;;
    Ok [{| k_kind := KExclude; k_factor := pf; k_level := li; k_windows := [] |}]
  | PPin index fid ln =>
    pf <- pos_of forder fid ;; li <- level_index fid ln ;;
    Ok [{| k_kind := KPin index (sustain_get bd fid); k_factor := pf; k_level := li; k_windows := wins |}]
  | PSequential fid =>
    pf <- pos_of forder fid ;;
    Ok [{| k_kind := KSequential (first_of bd maxp fid) (sustain_get bd fid); k_factor := pf; k_level := 0;
           k_windows := [] |}]
  | PLatin fids =>
    match fids with
    | [] | [_] => Ok []
    | f0 :: _ =>
      lens <- mapM (fun f => fd <- fm f ;; n <- nlevels fd ;; Ok (f, n)) fids ;;
      let n := list_max (map snd lens) in
      main <- of_option "IndexError: main" (option_map fst (hd_error (rev (filter (fun fnl => snd fnl =? n) lens)))) ;;
      others <- mapM (fun fnl : nat * nat => pf <- pos_of forder (fst fnl) ;; Ok (pf, snd fnl))
                     (filter (fun fnl => negb (fst fnl =? main)) lens) ;;
      pm <- pos_of forder main ;;
      Ok [{| k_kind := KLatin others n (first_of bd maxp f0) (sustain_get bd f0); k_factor := pm; k_level := 0;
             k_windows := [] |}]
    end
  | PContinuous | PMinimumTrials _ => Ok []
  | POther kind => Unsup (UKind kind)
  end.

Record docsem := {
  ds_sem : sem;
  ds_T : nat;
  ds_forder : list nat;
  ds_unsat : bool;
  ds_block : blockdoc
}.

Definition sem_of_block (bd : blockdoc) : res docsem :=
  let needed := b_design bd in
  (* every dependency of a derived design factor lies in the design (the Python walks the
     dependency closure from each design factor; it stops at the first dependency outside
     the design, so only design factors are ever visited) *)
  kinds <- mapM (fun f => fd <- fm f ;; Ok (f, fd)) needed ;;
  if negb (forallb (fun x => forallb (fun d => mem d needed) (fdeps (snd x))) kinds) then Unsup UDepOutside
  else
    depths <- mapM (fun f => d <- depth fuel0 f ;; Ok (f, d)) needed ;;
    let forder := map fst (sort_by (fun a b => snd a <=? snd b) depths) in
    let T := b_T bd in
    factors <- mapM (sem_factor bd forder) forder ;;
    let maxp := list_max (map (fun c => x_P c * x_su c) (b_crossings bd)) in
    crossings <- mapM (sem_crossing bd forder maxp) (b_crossings bd) ;;
    constraints <- mapM (fun csc =>
                           cs <- expand_constraint (fst csc) ;;
                           ks <- mapM (fun c => sem_constraint bd forder maxp T c (snd csc)) cs ;;
                           Ok (List.concat ks)) (b_constraints bd) ;;
    let unsat := existsb (fun c => negb (x_complete c) && x_rcc c) (b_crossings bd) in
    let extra := if unsat && nonempty forder
                 then [{| k_kind := KExactlyK (T + 1); k_factor := 0; k_level := 0; k_windows := [(0, T)] |}]
                 else [] in
    Ok {| ds_sem := {| s_trials := T; s_factors := factors; s_crossings := crossings;
                       s_constraints := List.concat constraints ++ extra |};
          ds_T := T; ds_forder := forder; ds_unsat := unsat; ds_block := bd |}.

Definition doc_sem_block (b : pblock) : res docsem := bd <- doc_block b ;; sem_of_block bd.

End Program.

Definition doc_sem (p : program) : res docsem := doc_sem_block p (p_main p).
