(** [doc_sem] on plain designs (every design factor simple): closed form of
    [feasible_combos], and the law "an Exclude of a crossed level removes exactly the
    combinations that contain it". *)
From Coq Require Import ZArith List Bool Arith Lia String.
From SP Require Import Design.Sem Design.Flat Design.DocSem Design.DocSemProofs.
Import ListNotations.
Local Open Scope nat_scope.
Local Open Scope list_scope.

(** * general lemmas *)
Lemma mapM_all_ok : forall {A B} (f : A -> res B) (g : A -> B) l,
  (forall x, In x l -> f x = Ok (g x)) -> mapM f l = Ok (map g l).
Proof.
  intros A B f g l H. induction l as [|x l IH]; [reflexivity|]. cbn. rewrite (H x (or_introl eq_refl)). cbn.
  rewrite IH; [reflexivity|]. intros y Hy. apply H. right. exact Hy.
Qed.

Lemma filterM_all_ok : forall {A} (f : A -> res bool) (g : A -> bool) l,
  (forall x, In x l -> f x = Ok (g x)) -> filterM f l = Ok (filter g l).
Proof.
  intros A f g l H. induction l as [|x l IH]; [reflexivity|]. cbn. rewrite (H x (or_introl eq_refl)). cbn.
  rewrite IH; [reflexivity|]. intros y Hy. apply H. right. exact Hy.
Qed.

Lemma fold_left_ext_in : forall {A B} (F G : A -> B -> A) l a,
  (forall a x, In x l -> F a x = G a x) -> fold_left F l a = fold_left G l a.
Proof.
  intros A B F G l. induction l as [|x l IH]; intros a H; [reflexivity|]. cbn. rewrite (H a x (or_introl eq_refl)).
  apply IH. intros a' y Hy. apply H. right. exact Hy.
Qed.

Lemma in_product_length : forall {A} (doms : list (list A)) (vals : list A),
  In vals (product doms) -> List.length vals = List.length doms.
Proof.
  intros A doms. induction doms as [|d doms IH]; intros vals H; cbn in H.
  - destruct H as [<-|[]]. reflexivity.
  - apply in_flat_map in H. destruct H as [x [_ H]]. apply in_map_iff in H. destruct H as [r [<- Hr]]. cbn. f_equal. apply IH. exact Hr.
Qed.

Lemma in_product_iff : forall {A} (doms : list (list A)) (vals : list A),
  In vals (product doms) <-> Forall2 (fun v d => In v d) vals doms.
Proof.
  intros A doms. induction doms as [|d doms IH]; intros vals; cbn.
  - split; [intros [<-|[]]; constructor|]. intro H. inversion H. left. reflexivity.
  - rewrite in_flat_map. split.
    + intros [x [Hx H]]. apply in_map_iff in H. destruct H as [r [<- Hr]]. constructor; [exact Hx|]. apply IH. exact Hr.
    + intro H. inversion H as [|v d' r doms' Hv Hr]; subst. exists v. split; [exact Hv|]. apply in_map. apply IH. exact Hr.
Qed.

Lemma product_singletons : forall {A} (l : list A), product (map (fun x => [x]) l) = [l].
Proof. intros A l. induction l as [|x l IH]; [reflexivity|]. cbn. rewrite IH. reflexivity. Qed.

(** ** dictionaries with [nat] keys *)
Lemma dict_get_in : forall {V} (d : list (nat * V)) k v, NoDup (map fst d) -> In (k, v) d -> dict_get Nat.eqb k d = Some v.
Proof.
  intros V d k v. induction d as [|[k0 v0] d IH]; intros Hnd Hin; [contradiction|]. unfold dict_get. cbn.
  inversion Hnd; subst. destruct Hin as [E|Hin].
  - inversion E; subst. rewrite Nat.eqb_refl. reflexivity.
  - destruct (Nat.eqb_spec k k0) as [->|Hne].
    + exfalso. apply H1. apply in_map_iff. exists (k0, v). split; [reflexivity|exact Hin].
    + apply IH; assumption.
Qed.

Lemma dict_get_some_in : forall {V} (d : list (nat * V)) k v, dict_get Nat.eqb k d = Some v -> In (k, v) d.
Proof.
  intros V d k v. induction d as [|[k0 v0] d IH]; unfold dict_get; cbn; intro H; [discriminate|].
  destruct (Nat.eqb_spec k k0) as [->|Hne]; cbn in H; [inversion H; left; reflexivity|]. right. apply IH. exact H.
Qed.

Lemma dict_set_key_in : forall {V} k (v : V) d k', In k' (map fst (dict_set Nat.eqb k v d)) <-> In k' (map fst d) \/ k' = k.
Proof.
  intros V k v d k'. induction d as [|[k0 v0] d IH]; cbn.
  - intuition congruence.
  - destruct (Nat.eqb_spec k k0) as [->|Hne]; cbn.
    + intuition congruence.
    + rewrite IH. tauto.
Qed.

Lemma dict_of_keys : forall {V} (kvs : list (nat * V)) k, In k (map fst (dict_of Nat.eqb kvs)) <-> In k (map fst kvs).
Proof.
  intros V kvs k. unfold dict_of.
  assert (G : forall d, In k (map fst (fold_left (fun d kv => dict_set Nat.eqb (fst kv) (snd kv) d) kvs d)) <->
                        In k (map fst d) \/ In k (map fst kvs)).
  { induction kvs as [|[k0 v0] kvs IH]; intro d; cbn [fold_left map]; [cbn; tauto|].
    rewrite IH. cbn [fst snd]. rewrite dict_set_key_in. cbn. intuition. }
  rewrite G. cbn. tauto.
Qed.

Lemma dict_of_nodup : forall {V} (kvs : list (nat * V)), NoDup (map fst (dict_of Nat.eqb kvs)).
Proof. intros V kvs. apply (dict_update_keys kvs []). constructor. Qed.

Lemma dict_get_present : forall {V} (d : list (nat * V)) k, In k (map fst d) -> exists v, dict_get Nat.eqb k d = Some v.
Proof.
  intros V d k. induction d as [|[k0 v0] d IH]; intro H; [contradiction|]. unfold dict_get. cbn.
  destruct (Nat.eqb_spec k k0) as [->|Hne]; [exists v0; reflexivity|]. destruct H as [E|H]; [cbn in E; congruence|]. apply IH. exact H.
Qed.

Lemma map_fst_combine : forall {A B} (l : list A) (m : list B), List.length l = List.length m -> map fst (combine l m) = l.
Proof. intros A B l. induction l as [|x l IH]; intros [|y m] H; cbn in *; try discriminate; [reflexivity|]. f_equal. apply IH. lia. Qed.

(** * plain designs *)
Section Plain.
Variable p : program.

Definition simple_id (f : nat) : Prop := exists fd, fm p f = Ok fd /\ is_simple fd = true.

Definition fd_of (f : nat) : pfactor :=
  match fm p f with Ok fd => fd | _ => {| pf_id := f; pf_name := EmptyString; pf_kind := FContinuous |} end.

Definition names_of (f : nat) : list name :=
  match pf_kind (fd_of f) with
  | FSimple levels => map fst levels
  | FDerived _ levels => map dl_name levels
  | FContinuous => []
  end.

Lemma simple_fm : forall f, simple_id f -> fm p f = Ok (fd_of f) /\ is_simple (fd_of f) = true.
Proof. intros f [fd [H1 H2]]. unfold fd_of. rewrite H1. split; [reflexivity|exact H2]. Qed.

Lemma simple_not_derived : forall fd, is_simple fd = true -> is_derived fd = false.
Proof. intros fd H. unfold is_simple, is_derived in *. destruct (pf_kind fd); congruence. Qed.

Lemma simple_names : forall f, simple_id f -> level_names (fd_of f) = Ok (names_of f).
Proof.
  intros f H. destruct (simple_fm f H) as [_ Hs]. unfold level_names, names_of, is_simple in *.
  destruct (pf_kind (fd_of f)); try discriminate. reflexivity.
Qed.

Definition assign_of (design : list nat) (vals : list name) : assignment := dict_of Nat.eqb (combine design vals).
Definition aval (a : assignment) (f : nat) : name :=
  match dict_get Nat.eqb f a with Some v => v | None => EmptyString end.

Definition plain_excl (cr : list nat) (excludes : list (nat * name)) : list (nat * name) :=
  filter (fun fn => DocSem.mem (fst fn) cr) excludes.

Definition skip (design : list nat) (excl : list (nat * name)) (a : assignment) : bool :=
  existsb (fun bv => DocSem.mem (fst bv) design && memb level_eqb bv excl) a.

Definition plain_step (design cr : list nat) (excl : list (nat * name)) (acc : res combos) (vals : list name) : res combos :=
  feasible <- acc ;;
  let a := assign_of design vals in
  if skip design excl a then Ok feasible
  else w <- combo_weight p cr (map (aval a) cr) ;; Ok (dict_set names_eqb (map (aval a) cr) w feasible).

Definition plain_feasible (design cr : list nat) (excludes : list (nat * name)) : res combos :=
  fold_left (plain_step design cr (plain_excl cr excludes)) (product (map names_of design)) (Ok []).

Lemma basics_plain : forall design, Forall simple_id design ->
  map fst (filter (fun x : nat * pfactor => is_simple (snd x)) (map (fun f => (f, fd_of f)) design)) = design.
Proof.
  intros design H. induction H as [|f design Hf _ IH]; [reflexivity|]. cbn. destruct (simple_fm f Hf) as [_ ->]. cbn. f_equal. exact IH.
Qed.

Lemma collect_simple : forall design f e, simple_id f -> In f design -> collect p (fuel0 p) design f e = Ok e.
Proof.
  intros design f e Hf Hin. unfold fuel0. cbn [collect]. destruct (simple_fm f Hf) as [E Hs]. rewrite E. cbn [bind].
  unfold is_simple in Hs. destruct (pf_kind (fd_of f)); try discriminate.
  assert (M : DocSem.mem f design = true).
  { unfold DocSem.mem. apply existsb_exists. exists f. split; [exact Hin|apply Nat.eqb_refl]. }
  rewrite M. reflexivity.
Qed.

Lemma extra_plain : forall design l, Forall simple_id l -> incl l design ->
  fold_left (fun acc f => e <- acc ;; collect p (fuel0 p) design f e) l (Ok []) = Ok [].
Proof.
  intros design l H. induction H as [|f l Hf _ IH]; intro Hincl; [reflexivity|]. cbn [fold_left bind].
  rewrite collect_simple; [|exact Hf|apply Hincl; left; reflexivity].
  apply IH. intros x Hx. apply Hincl. right. exact Hx.
Qed.

Lemma filter_false : forall {A} (l : list A), filter (fun _ => false) l = [].
Proof. intros A l. induction l; [reflexivity|exact IHl]. Qed.

Theorem feasible_plain : forall design cr excludes,
  Forall simple_id design -> incl cr design -> Forall (fun fn => simple_id (fst fn)) excludes ->
  feasible_combos p design cr excludes = plain_feasible design cr excludes.
Proof.
  intros design cr excludes Hd Hcr Hex. rewrite Forall_forall in Hd, Hex. unfold feasible_combos.
  rewrite (mapM_all_ok _ (fun f => (f, fd_of f))) by (intros f Hf; destruct (simple_fm f (Hd f Hf)) as [-> _]; reflexivity).
  cbn [bind]. rewrite (basics_plain design) by (apply Forall_forall; exact Hd).
  rewrite (extra_plain design design) by (try (apply Forall_forall; exact Hd); apply incl_refl).
  cbn [bind]. rewrite app_nil_r.
  rewrite (filterM_all_ok _ (fun _ => false)).
  2:{ intros [f fd] Hin. apply in_map_iff in Hin. destruct Hin as [f' [E Hf']]. inversion E; subst. cbn [snd].
      destruct (simple_fm f (Hd f Hf')) as [_ Hs]. rewrite (simple_not_derived _ Hs). reflexivity. }
  cbn [bind]. rewrite filter_false.
  rewrite (filterM_all_ok _ (fun fn => DocSem.mem (fst fn) cr)).
  2:{ intros fn Hin. destruct (DocSem.mem (fst fn) cr); [reflexivity|].
      destruct (simple_fm _ (Hex fn Hin)) as [-> Hs]. cbn [bind]. rewrite (simple_not_derived _ Hs). reflexivity. }
  cbn [bind].
  rewrite (mapM_all_ok _ names_of).
  2:{ intros f Hf. destruct (simple_fm f (Hd f Hf)) as [-> _]. cbn [bind]. apply simple_names. exact (Hd f Hf). }
  cbn [bind]. unfold plain_feasible. apply fold_left_ext_in. intros acc vals Hvals.
  unfold plain_step. destruct acc as [feasible|e|w]; cbn [bind]; try reflexivity.
  fold (assign_of design vals). fold (plain_excl cr excludes). fold (skip design (plain_excl cr excludes) (assign_of design vals)).
  destruct (skip _ _ _); [reflexivity|]. cbn [fold_left bind].
  assert (Hlen : List.length vals = List.length design) by (rewrite (in_product_length _ _ Hvals), map_length; reflexivity).
  rewrite (mapM_all_ok _ (fun f => [aval (assign_of design vals) f])).
  2:{ intros f Hf. destruct (simple_fm f (Hd f (Hcr f Hf))) as [-> Hs]. cbn [bind]. rewrite Hs.
      destruct (dict_get_present (assign_of design vals) f) as [v Hv].
      { unfold assign_of. apply dict_of_keys. rewrite map_fst_combine by (symmetry; exact Hlen). apply Hcr. exact Hf. }
      unfold aval. rewrite Hv. reflexivity. }
  cbn [bind]. rewrite <- (map_map (aval (assign_of design vals)) (fun x => [x])). rewrite product_singletons.
  cbn [fold_left bind]. reflexivity.
Qed.

(** ** which combinations are feasible *)
Lemma names_eqb_refl : forall a, names_eqb a a = true.
Proof. unfold names_eqb. induction a as [|x a IH]; [reflexivity|]. cbn. rewrite String.eqb_refl, IH. reflexivity. Qed.

Lemma dict_set_names_key_in : forall {V} k (v : V) d k',
  In k' (map fst (dict_set names_eqb k v d)) <-> In k' (map fst d) \/ k' = k.
Proof.
  intros V k v d k'. induction d as [|[k0 v0] d IH]; cbn.
  - intuition congruence.
  - destruct (names_eqb k k0) eqn:E; cbn.
    + apply names_eqb_eq in E. subst. intuition congruence.
    + rewrite IH. tauto.
Qed.

Lemma plain_fold_err : forall design cr excl l (r : res combos), (forall d, r <> Ok d) ->
  forall d, fold_left (plain_step design cr excl) l r <> Ok d.
Proof.
  intros design cr excl l. induction l as [|x l IH]; intros r Hr d; cbn [fold_left]; [apply Hr|].
  apply IH. intros d' E. unfold plain_step in E. destruct r as [d0|e|w]; cbn in E; try discriminate. exact (Hr d0 eq_refl).
Qed.

Lemma plain_fold_keys : forall design cr excl l d0 d,
  fold_left (plain_step design cr excl) l (Ok d0) = Ok d ->
  forall combo, In combo (map fst d) <->
                In combo (map fst d0) \/
                exists vals, In vals l /\ skip design excl (assign_of design vals) = false /\
                             map (aval (assign_of design vals)) cr = combo.
Proof.
  intros design cr excl l. induction l as [|x l IH]; intros d0 d H combo; cbn [fold_left] in H.
  - inversion H; subst. split; [intro Hc; left; exact Hc|intros [Hc|[vals [[] _]]]; exact Hc].
  - unfold plain_step at 2 in H. cbn [bind] in H. cbv zeta in H. destruct (skip design excl (assign_of design x)) eqn:Sk.
    + rewrite (IH _ _ H combo). split; intros [Hc|[vals [Hin [Hs Hp]]]]; auto.
      * right. exists vals. split; [right; exact Hin|split; assumption].
      * destruct Hin as [->|Hin]; [congruence|]. right. exists vals. split; [exact Hin|split; assumption].
    + destruct (combo_weight p cr (map (aval (assign_of design x)) cr)) as [w|e|s] eqn:W; cbn [bind] in H.
      * rewrite (IH _ _ H combo). rewrite dict_set_names_key_in. split.
        -- intros [[Hc|Hc]|[vals [Hin [Hs Hp]]]]; auto.
           ++ right. exists x. split; [left; reflexivity|split; [exact Sk|congruence]].
           ++ right. exists vals. split; [right; exact Hin|split; assumption].
        -- intros [Hc|[vals [Hin [Hs Hp]]]]; auto. destruct Hin as [->|Hin]; [left; right; congruence|].
           right. exists vals. split; [exact Hin|split; assumption].
      * exfalso. eapply plain_fold_err; [|exact H]. intros d'; discriminate.
      * exfalso. eapply plain_fold_err; [|exact H]. intros d'; discriminate.
Qed.

Lemma plain_fold_weight : forall design cr excl l d0 d,
  fold_left (plain_step design cr excl) l (Ok d0) = Ok d ->
  (forall k v, In (k, v) d0 -> combo_weight p cr k = Ok v) ->
  forall k v, In (k, v) d -> combo_weight p cr k = Ok v.
Proof.
  intros design cr excl l. induction l as [|x l IH]; intros d0 d H H0 k v Hin; cbn [fold_left] in H.
  - inversion H; subst. apply H0. exact Hin.
  - unfold plain_step at 2 in H. cbn [bind] in H. cbv zeta in H. destruct (skip design excl (assign_of design x)).
    + eapply IH; eauto.
    + destruct (combo_weight p cr (map (aval (assign_of design x)) cr)) as [w|e|s] eqn:W; cbn [bind] in H.
      * eapply IH; [exact H| |exact Hin]. intros k' v' Hin'. apply dict_set_in in Hin'.
        destruct Hin' as [Hin'|[-> ->]]; [apply H0; exact Hin'|exact W].
      * exfalso. eapply plain_fold_err; [|exact H]. intros d'; discriminate.
      * exfalso. eapply plain_fold_err; [|exact H]. intros d'; discriminate.
Qed.

(** ** Exclude of a crossed level removes exactly the combinations that contain it *)
Lemma level_eqb_eq : forall a b, level_eqb a b = true <-> a = b.
Proof.
  intros [f n] [g m]. unfold level_eqb. cbn. rewrite andb_true_iff, Nat.eqb_eq, String.eqb_eq. split; [intros [-> ->]; reflexivity|intro E; inversion E; auto].
Qed.

Lemma skip_app : forall design excl f n a, In f design ->
  skip design (excl ++ [(f, n)]) a = false <-> skip design excl a = false /\ ~ In (f, n) a.
Proof.
  intros design excl f n a Hf. unfold skip. rewrite <- !not_true_iff_false. split.
  - intro H. split.
    + intro E. apply H. apply existsb_exists in E. destruct E as [bv [Hbv E]]. apply existsb_exists. exists bv. split; [exact Hbv|].
      apply andb_true_iff in E. destruct E as [E1 E2]. rewrite E1. cbn. unfold memb in *. rewrite existsb_app, E2. reflexivity.
    + intro Hin. apply H. apply existsb_exists. exists (f, n). split; [exact Hin|]. cbn [fst].
      assert (M : DocSem.mem f design = true) by (unfold DocSem.mem; apply existsb_exists; exists f; split; [exact Hf|apply Nat.eqb_refl]).
      rewrite M. cbn. unfold memb. rewrite existsb_app. cbn. rewrite (proj2 (level_eqb_eq (f, n) (f, n)) eq_refl). rewrite !orb_true_r. reflexivity.
  - intros [H1 H2] E. apply existsb_exists in E. destruct E as [bv [Hbv E]]. apply andb_true_iff in E. destruct E as [E1 E2].
    unfold memb in E2. rewrite existsb_app in E2. apply orb_true_iff in E2. destruct E2 as [E2|E2].
    + apply H1. apply existsb_exists. exists bv. split; [exact Hbv|]. rewrite E1. exact E2.
    + cbn in E2. rewrite orb_false_r in E2. apply level_eqb_eq in E2. subst bv. contradiction.
Qed.

Lemma in_combine_map : forall {A B} (g : A -> B) l x y, In (x, y) (combine l (map g l)) <-> In x l /\ y = g x.
Proof.
  intros A B g l x y. induction l as [|z l IH]; cbn; [tauto|]. rewrite IH. split.
  - intros [E|[H1 H2]]; [inversion E; auto|auto].
  - intros [[->|H1] H2]; [left; congruence|right; auto].
Qed.

Lemma assign_in_aval : forall design vals f n, List.length vals = List.length design -> In f design ->
  In (f, n) (assign_of design vals) <-> aval (assign_of design vals) f = n.
Proof.
  intros design vals f n Hlen Hf. unfold aval.
  assert (Hk : In f (map fst (assign_of design vals))).
  { unfold assign_of. apply dict_of_keys. rewrite map_fst_combine by (symmetry; exact Hlen). exact Hf. }
  destruct (dict_get_present _ _ Hk) as [v Hv]. rewrite Hv. split.
  - intro Hin. pose proof (dict_get_in _ _ _ (dict_of_nodup _) Hin) as E. unfold assign_of in Hv. congruence.
  - intros <-. apply dict_get_some_in. exact Hv.
Qed.

Theorem exclude_removes_exactly : forall design cr excludes f n fe fe',
  Forall simple_id design -> incl cr design -> Forall (fun fn => simple_id (fst fn)) excludes -> In f cr ->
  feasible_combos p design cr excludes = Ok fe ->
  feasible_combos p design cr (excludes ++ [(f, n)]) = Ok fe' ->
  forall combo, In combo (map fst fe') <-> In combo (map fst fe) /\ ~ In (f, n) (combine cr combo).
Proof.
  intros design cr excludes f n fe fe' Hd Hcr Hex Hf H H' combo.
  assert (Hfd : In f design) by (apply Hcr; exact Hf).
  assert (Hex' : Forall (fun fn => simple_id (fst fn)) (excludes ++ [(f, n)])).
  { apply Forall_app. split; [exact Hex|]. constructor; [|constructor]. cbn. rewrite Forall_forall in Hd. apply Hd. exact Hfd. }
  rewrite feasible_plain in H, H' by assumption. unfold plain_feasible in H, H'.
  assert (Ee : plain_excl cr (excludes ++ [(f, n)]) = plain_excl cr excludes ++ [(f, n)]).
  { unfold plain_excl. rewrite filter_app. cbn.
    assert (M : DocSem.mem f cr = true) by (unfold DocSem.mem; apply existsb_exists; exists f; split; [exact Hf|apply Nat.eqb_refl]).
    rewrite M. reflexivity. }
  rewrite Ee in H'.
  rewrite (plain_fold_keys _ _ _ _ _ _ H' combo), (plain_fold_keys _ _ _ _ _ _ H combo). cbn [map]. split.
  - intros [[]|[vals [Hin [Hs Hp]]]].
    assert (Hlen : List.length vals = List.length design) by (rewrite (in_product_length _ _ Hin), map_length; reflexivity).
    apply (skip_app design _ f n _ Hfd) in Hs. destruct Hs as [Hs Hn]. split.
    + right. exists vals. split; [exact Hin|split; assumption].
    + subst combo. rewrite in_combine_map. intros [_ E]. apply Hn. apply (assign_in_aval design vals f n Hlen Hfd). symmetry. exact E.
  - intros [[[]|[vals [Hin [Hs Hp]]]] Hn]. right. exists vals. split; [exact Hin|]. split; [|exact Hp].
    assert (Hlen : List.length vals = List.length design) by (rewrite (in_product_length _ _ Hin), map_length; reflexivity).
    apply (skip_app design _ f n _ Hfd). split; [exact Hs|]. intro Hin'. apply Hn. subst combo. rewrite in_combine_map.
    split; [exact Hf|]. symmetry. apply (assign_in_aval design vals f n Hlen Hfd). exact Hin'.
Qed.

End Plain.

(** the same for the crossing of the block ([require_complete_crossing = False]) *)
Corollary exclude_removes_exactly_crossing : forall p design cr excludes f n x x',
  Forall (simple_id p) design -> incl cr design -> Forall (fun fn => simple_id p (fst fn)) excludes -> In f cr ->
  doc_crossing p design excludes false cr = Ok x ->
  doc_crossing p design (excludes ++ [(f, n)]) false cr = Ok x' ->
  forall combo, In combo (map fst (x_combos x')) <-> In combo (map fst (x_combos x)) /\ ~ In (f, n) (combine cr combo).
Proof.
  intros p design cr excludes f n x x' Hd Hcr Hex Hf H H'. unfold doc_crossing in H, H'.
  inv_bind H as allc Ha H. inv_bind H as feas Hfe H. inv_bind H as P HP H.
  inv_bind H' as allc' Ha' H'. inv_bind H' as feas' Hfe' H'. inv_bind H' as P' HP' H'.
  inversion H; inversion H'; subst; cbn [x_combos]. eapply exclude_removes_exactly; eauto.
Qed.

(** every feasible combination of a plain design carries the product of its level weights *)
Corollary feasible_plain_weight : forall p design cr excludes fe combo w,
  Forall (simple_id p) design -> incl cr design -> Forall (fun fn => simple_id p (fst fn)) excludes ->
  feasible_combos p design cr excludes = Ok fe -> In (combo, w) fe -> combo_weight p cr combo = Ok w.
Proof.
  intros p design cr excludes fe combo w Hd Hcr Hex H Hin. rewrite feasible_plain in H by assumption.
  eapply plain_fold_weight; [exact H| |exact Hin]. intros k v [].
Qed.
