(** Theorems about [doc_sem] (Design/DocSem.v): well-formedness of the semantic
    normal form it produces, and the documented laws of the block combinators as
    statements about [doc_sem] itself. *)
From Coq Require Import ZArith List Bool Arith Lia String.
From SP Require Import Design.Sem Design.Flat Design.DocSem.
Import ListNotations.
Local Open Scope nat_scope.
Local Open Scope list_scope.

(** * The result monad *)
Lemma bind_ok : forall {A B} (r : res A) (f : A -> res B) b,
  bind r f = Ok b -> exists a, r = Ok a /\ f a = Ok b.
Proof. intros A B [a|e|w] f b H; cbn in H; try discriminate. eauto. Qed.

Ltac inv_bind H :=
  match type of H with
  | bind _ _ = Ok _ =>
    let a := fresh "a" in let Ha := fresh "Ha" in let Hb := fresh "Hb" in
    destruct (bind_ok _ _ _ H) as [a [Ha Hb]]; clear H
  end.

Tactic Notation "inv_bind" hyp(H) "as" ident(a) ident(Ha) ident(Hb) :=
  let X := fresh "X" in pose proof (bind_ok _ _ _ H) as X; clear H; destruct X as [a [Ha Hb]].

Lemma mapM_ok : forall {A B} (f : A -> res B) l ys,
  mapM f l = Ok ys -> Forall2 (fun x y => f x = Ok y) l ys.
Proof.
  intros A B f l. induction l as [|x l IH]; intros ys H; cbn in H.
  - inversion H. constructor.
  - inv_bind H as y Hy H. inv_bind H as ys' Hys H. inversion H; subst. constructor; [assumption|]. apply IH. assumption.
Qed.

Lemma mapM_length : forall {A B} (f : A -> res B) l ys, mapM f l = Ok ys -> List.length ys = List.length l.
Proof. intros A B f l ys H. apply mapM_ok in H. induction H; cbn; congruence. Qed.

Lemma mapM_in : forall {A B} (f : A -> res B) l ys y,
  mapM f l = Ok ys -> In y ys -> exists x, In x l /\ f x = Ok y.
Proof.
  intros A B f l ys y H Hy. apply mapM_ok in H. induction H; [contradiction|].
  destruct Hy as [->|Hy]; [exists x; split; [left; reflexivity|assumption]|].
  destruct (IHForall2 Hy) as [x' [Hx' Hf]]. exists x'. split; [right|]; assumption.
Qed.

Lemma mapM_ext : forall {A B} (f g : A -> res B) l, (forall x, In x l -> f x = g x) -> mapM f l = mapM g l.
Proof.
  intros A B f g l H. induction l as [|x l IH]; [reflexivity|]. cbn. rewrite (H x (or_introl eq_refl)).
  rewrite IH; [reflexivity|]. intros y Hy. apply H. right. exact Hy.
Qed.

(** * Well-formedness of a semantic normal form
    what the theorems that consume a [sem] assume of it (Front/NestSem.v [nestable_spec],
    Encode/CrossChunks.v, Random/Frag0Sem.v: positive chunk lengths; factor indices inside
    the factor table; constraint windows inside the trial range). *)
Definition wf_window (T : nat) (w : nat * nat) : Prop := fst w < snd w /\ snd w <= T.

Definition wf_kind (nf : nat) (k : ckind) : Prop :=
  match k with
  | KLatin others _ _ _ => forall fn, In fn others -> fst fn < nf
  | _ => True
  end.

Record wf_sem (S : sem) : Prop := {
  wf_trials : 0 < s_trials S;
  wf_tables : forall fd w, In fd (s_factors S) -> f_derived fd = Some w ->
              List.length (w_table w) = f_nlevels fd /\ forall d, In d (w_deps w) -> d < List.length (s_factors S);
  wf_crossings : forall c, In c (s_crossings S) ->
                 0 < c_chunk c /\ forall f, In f (c_factors c) -> f < List.length (s_factors S);
  wf_constraints : forall k, In k (s_constraints S) ->
                   k_factor k < List.length (s_factors S) /\ wf_kind (List.length (s_factors S)) (k_kind k) /\
                   forall w, In w (k_windows k) -> wf_window (s_trials S) w
}.

(** ** positions *)
Lemma pos_fold : forall f l s acc i,
  fold_left (fun acc ix => if snd ix =? f then Some (fst ix) else acc) (combine (seq s (List.length l)) l) acc = Some i ->
  acc = Some i \/ (s <= i < s + List.length l).
Proof.
  intros f l. induction l as [|x l IH]; intros s acc i H; cbn in H.
  - left. exact H.
  - apply IH in H. destruct H as [H|H]; [|right; cbn; lia].
    cbn in H. destruct (x =? f); [inversion H; subst; right; cbn; lia|left; exact H].
Qed.

Lemma pos_of_lt : forall forder f i, pos_of forder f = Ok i -> i < List.length forder.
Proof.
  intros forder f i H. unfold pos_of, of_option in H.
  destruct (fold_left _ _ None) as [j|] eqn:E; [|discriminate]. inversion H; subst j.
  apply pos_fold in E. destruct E as [E|E]; [discriminate|lia].
Qed.

Lemma mapM_pos_lt : forall forder fs ps p, mapM (pos_of forder) fs = Ok ps -> In p ps -> p < List.length forder.
Proof.
  intros forder fs ps p H Hp. destruct (mapM_in _ _ _ _ H Hp) as [f [_ Hf]]. eapply pos_of_lt; eauto.
Qed.

(** ** trial counts *)
Lemma finish_T_pos : forall al cs m, 0 < finish_T al cs m.
Proof. intros. unfold finish_T. lia. Qed.

Lemma finish_T_eq : forall bd mode bd', finish bd mode = Ok bd' ->
  b_T bd' = finish_T (b_alignment bd) (b_crossings bd) (b_min_trials bd) /\
  b_constraints bd' = b_constraints bd /\ b_alignment bd' = b_alignment bd /\ b_design bd' = b_design bd /\
  b_sustain bd' = b_sustain bd /\ b_rcc bd' = b_rcc bd /\ b_min_trials bd' = b_min_trials bd.
Proof.
  intros bd mode bd' H. unfold finish in H.
  destruct (_ && _); [discriminate|]. inv_bind H as cs' Hcs H. inversion H; subst; cbn. repeat split; reflexivity.
Qed.

Definition top_scope (sc : scope) : Prop := match sc with ScScaled _ _ => False | _ => True end.

Lemma own_top : forall cs, Forall (fun csc : pcons * scope => top_scope (snd csc)) (own_constraints cs).
Proof. intro cs. unfold own_constraints. apply Forall_forall. intros x Hx. apply in_map_iff in Hx. destruct Hx as [c [<- _]]. exact I. Qed.

Lemma doc_cross_inv : forall p d crs cs rcc mode al bd,
  doc_cross p d crs cs rcc mode al = Ok bd ->
  0 < b_T bd /\ Forall (fun csc => top_scope (snd csc)) (b_constraints bd).
Proof.
  intros p d crs cs rcc mode al bd H. unfold doc_cross in H.
  inv_bind H as kinds Hk H. inv_bind H as xs Hxs H. inv_bind H as bd0 Hf H.
  inversion H; subst; cbn. apply finish_T_eq in Hf. destruct Hf as [-> _]. split; [apply finish_T_pos|apply own_top].
Qed.

Lemma merge_inv : forall inners cs mode al nest bd,
  merge inners cs mode al nest = Ok bd ->
  0 < b_T bd /\ Forall (fun csc => top_scope (snd csc)) (b_constraints bd).
Proof.
  intros inners cs mode al nest bd H. unfold merge in H. destruct (_ && _); [discriminate|]. inv_bind H as bd0 Hf H.
  inversion H; subst; cbn. apply finish_T_eq in Hf. destruct Hf as [-> _]. split; [apply finish_T_pos|].
  apply Forall_app. split; [|apply own_top]. apply Forall_forall. intros x Hx. apply in_flat_map in Hx.
  destruct Hx as [b [_ Hx]]. apply in_map_iff in Hx. destruct Hx as [c [<- _]]. exact I.
Qed.

Lemma doc_block_inv : forall p b bd, doc_block p b = Ok bd ->
  0 < b_T bd /\ Forall (fun csc => top_scope (snd csc)) (b_constraints bd).
Proof.
  intros p b bd H. destruct b; cbn [doc_block] in H.
  - eapply doc_cross_inv; eauto.
  - eapply doc_cross_inv; eauto.
  - inv_bind H as inner Hi H. eapply merge_inv; eauto.
  - inv_bind H as inners Hi H. inv_bind H as al' Hal H. eapply merge_inv; eauto.
  - inv_bind H as outer Ho H. inv_bind H as inner Hi H. destruct (existsb _ _); [discriminate|]. eapply merge_inv; eauto.
Qed.


(** ** constraint windows *)
Lemma rep_windows_good : forall fuel base step T Pb start w,
  In w (rep_windows fuel base step T Pb start) -> wf_window T w.
Proof.
  induction fuel as [|fuel IH]; cbn [rep_windows]; intros base step T Pb start w H; [contradiction|].
  destruct (start <? T - Pb); [|contradiction]. apply in_app_or in H. destruct H as [H|H]; [|eauto].
  apply in_flat_map in H. destruct H as [ab [_ H]]. destruct (_ <? _) eqn:E; [|contradiction].
  destruct H as [<-|[]]. apply Nat.ltb_lt in E. split; cbn; lia.
Qed.

Lemma scope_windows_good : forall sc T ws scale,
  top_scope sc -> 0 < T -> scope_windows sc T = Ok (ws, scale) -> forall w, In w ws -> wf_window T w.
Proof.
  intros [|inner Tb Pb off|inner n] T ws scale Ht HT H w Hw; cbn [scope_windows top_scope] in *.
  - inversion H; subst. destruct Hw as [<-|[]]. split; cbn; lia.
  - inv_bind H as bs Hbs H. destruct bs as [base sc']. destruct (Tb <=? Pb); [discriminate|].
    assert (E : ws = rep_windows (S T) base (Tb - Pb) T Pb off) by congruence. rewrite E in Hw.
    exact (rep_windows_good _ _ _ _ _ _ _ Hw).
  - contradiction.
Qed.

Lemma sem_constraint_good : forall p bd forder maxp T c sc ks,
  top_scope sc -> 0 < T -> sem_constraint p bd forder maxp T c sc = Ok ks ->
  forall k, In k ks ->
    k_factor k < List.length forder /\ wf_kind (List.length forder) (k_kind k) /\
    forall w, In w (k_windows k) -> wf_window T w.
Proof.
  intros p bd forder maxp T c sc ks Ht HT H k Hk. unfold sem_constraint in H.
  inv_bind H as wsc Hws H. destruct wsc as [wins scale].
  pose proof (scope_windows_good _ _ _ _ Ht HT Hws) as Hgood.
  destruct c as [kd k0 [fid ln|fid]|fid ln|ix fid ln|fid|fids|n| |kind]; try discriminate.
  - inv_bind H as pf Hpf H. inv_bind H as li Hli H. inversion H; subst. destruct Hk as [<-|[]]. cbn.
    split; [eapply pos_of_lt; eauto|]. split; [destruct kd; exact I|exact Hgood].
  - inv_bind H as pf Hpf H. inv_bind H as li Hli H. inversion H; subst. destruct Hk as [<-|[]]. cbn.
    split; [eapply pos_of_lt; eauto|]. split; [exact I|intros w []].
  - inv_bind H as pf Hpf H. inv_bind H as li Hli H. inversion H; subst. destruct Hk as [<-|[]]. cbn.
    split; [eapply pos_of_lt; eauto|]. split; [exact I|exact Hgood].
  - inv_bind H as pf Hpf H. inversion H; subst. destruct Hk as [<-|[]]. cbn.
    split; [eapply pos_of_lt; eauto|]. split; [exact I|intros w []].
  - destruct fids as [|f0 [|f1 fr]]; try (inversion H; subst; contradiction).
    inv_bind H as lens Hl H. inv_bind H as main Hm H. inv_bind H as others Ho H. inv_bind H as pm Hpm H.
    inversion H; subst. destruct Hk as [<-|[]]. cbn.
    split; [eapply pos_of_lt; eauto|]. split; [|intros w []].
    intros fn Hfn. destruct (mapM_in _ _ _ _ Ho Hfn) as [x [_ Hx]]. inv_bind Hx as pf Hpf Hx. inversion Hx; subst. cbn.
    eapply pos_of_lt; eauto.
  - inversion H; subst. contradiction.
  - inversion H; subst. contradiction.
Qed.

(** ** the factor table *)
Lemma enc_table_length : forall p deps tabs enc, enc_table p deps tabs = Ok enc -> List.length enc = List.length tabs.
Proof. intros p deps tabs enc H. unfold enc_table in H. eapply mapM_length; eauto. Qed.

Lemma accepted_tables_length : forall p fd tabs, accepted_tables p fd = Ok tabs ->
  nlevels fd = Ok (List.length tabs).
Proof.
  intros p fd tabs H. unfold accepted_tables in H. inv_bind H as q Hq H. destruct q as [[[deps width] stride] start].
  inv_bind H as doms Hd H. unfold nlevels. destruct (pf_kind fd); try discriminate.
  inversion H; subst. rewrite !map_length. reflexivity.
Qed.

Lemma sem_factor_good : forall p bd forder f fd, sem_factor p bd forder f = Ok fd ->
  forall w, f_derived fd = Some w ->
    List.length (w_table w) = f_nlevels fd /\ forall d, In d (w_deps w) -> d < List.length forder.
Proof.
  intros p bd forder f fd H w Hw. unfold sem_factor in H. inv_bind H as pfd Hfd H. inv_bind H as nl Hnl H.
  destruct (is_simple pfd); [inversion H; subst; discriminate|].
  inv_bind H as q Hq H. destruct q as [[[deps width] stride] start].
  inv_bind H as tabs Ht H. inv_bind H as enc He H. inv_bind H as pdeps Hp H. inversion H; subst. cbn in Hw. inversion Hw; subst. cbn.
  split.
  - rewrite (enc_table_length _ _ _ _ He). apply accepted_tables_length in Ht. rewrite Ht in Hnl. inversion Hnl. reflexivity.
  - intros d Hd. eapply mapM_pos_lt; eauto.
Qed.

(** * (a) the semantic normal form of a program is well formed *)
Theorem sem_of_block_wf : forall p bd ds,
  0 < b_T bd -> Forall (fun csc => top_scope (snd csc)) (b_constraints bd) ->
  sem_of_block p bd = Ok ds -> wf_sem (ds_sem ds) /\ ds_T ds = s_trials (ds_sem ds) /\ ds_T ds = b_T bd /\
  List.length (ds_forder ds) = List.length (s_factors (ds_sem ds)).
Proof.
  intros p bd ds HT Hsc H. unfold sem_of_block in H.
  inv_bind H as kinds Hk H. destruct (negb _); [discriminate|].
  inv_bind H as depths Hd H. set (forder := map fst (sort_by _ depths)) in *.
  inv_bind H as factors Hf H. inv_bind H as crossings Hx H. inv_bind H as constraints Hc H.
  inversion H; subst; cbn. clear H.
  pose proof (mapM_length _ _ _ Hf) as Hlen.
  split; [|repeat split; congruence]. constructor; cbn.
  - exact HT.
  - intros fd w Hin Hw. destruct (mapM_in _ _ _ _ Hf Hin) as [f [_ Hsf]]. rewrite Hlen.
    eapply sem_factor_good; eauto.
  - intros c Hin. destruct (mapM_in _ _ _ _ Hx Hin) as [x [_ Hsx]]. unfold sem_crossing in Hsx.
    destruct (_ =? 0) eqn:E; [discriminate|]. apply Nat.eqb_neq in E.
    inv_bind Hsx as mult Hm Hsx. inv_bind Hsx as fs Hfs Hsx. inversion Hsx; subst; cbn.
    split; [lia|]. intros f Hfin. rewrite Hlen. eapply mapM_pos_lt; eauto.
  - intros k Hin. rewrite Hlen. apply in_app_or in Hin. destruct Hin as [Hin|Hin].
    + apply in_concat in Hin. destruct Hin as [ks [Hks Hin]].
      destruct (mapM_in _ _ _ _ Hc Hks) as [csc [Hcsc Hsem]].
      inv_bind Hsem as cs Hcs Hsem. inv_bind Hsem as kss Hkss Hsem. inversion Hsem; subst.
      apply in_concat in Hin. destruct Hin as [ks' [Hks' Hin]].
      destruct (mapM_in _ _ _ _ Hkss Hks') as [c [_ Hsc']].
      rewrite Forall_forall in Hsc. eapply sem_constraint_good; eauto.
    + destruct (_ && _) eqn:E; [|contradiction]. destruct Hin as [<-|[]]. cbn.
      apply andb_true_iff in E. destruct E as [_ E]. split; [destruct forder; [discriminate|cbn; lia]|].
      split; [exact I|]. intros w [<-|[]]. split; cbn; lia.
Qed.

Theorem doc_sem_block_wf : forall p b ds, doc_sem_block p b = Ok ds ->
  wf_sem (ds_sem ds) /\ ds_T ds = s_trials (ds_sem ds) /\ List.length (ds_forder ds) = List.length (s_factors (ds_sem ds)).
Proof.
  intros p b ds H. unfold doc_sem_block in H. inv_bind H as bd Hbd H.
  destruct (doc_block_inv _ _ _ Hbd) as [HT Hsc].
  destruct (sem_of_block_wf _ _ _ HT Hsc H) as [H1 [H2 [_ H3]]]. split; [assumption|split; assumption].
Qed.

Theorem doc_sem_wf : forall p ds, doc_sem p = Ok ds -> wf_sem (ds_sem ds).
Proof. intros p ds H. apply (doc_sem_block_wf p (p_main p) ds H). Qed.
