(** Theorems about [doc_sem] (Design/DocSem.v): well-formedness of the semantic
    normal form it produces, and the documented laws of the block combinators as
    statements about [doc_sem] itself. *)
From Coq Require Import ZArith List Bool Arith Lia String.
From SP Require Import Design.Sem Design.Flat Design.DocSem.
Import ListNotations.
Local Open Scope nat_scope.
Local Open Scope list_scope.

(** * The result monad *)
Lemma bind_ok : forall {A B} (r : res A) (f : A -> res B) b,
  bind r f = Ok b -> exists a, r = Ok a /\ f a = Ok b.
Proof. intros A B [a|e|w] f b H; cbn in H; try discriminate. eauto. Qed.

Ltac inv_bind H :=
  match type of H with
  | bind _ _ = Ok _ =>
    let a := fresh "a" in let Ha := fresh "Ha" in let Hb := fresh "Hb" in
    destruct (bind_ok _ _ _ H) as [a [Ha Hb]]; clear H
  end.

Tactic Notation "inv_bind" hyp(H) "as" ident(a) ident(Ha) ident(Hb) :=
  let X := fresh "X" in pose proof (bind_ok _ _ _ H) as X; clear H; destruct X as [a [Ha Hb]].

Lemma mapM_ok : forall {A B} (f : A -> res B) l ys,
  mapM f l = Ok ys -> Forall2 (fun x y => f x = Ok y) l ys.
Proof.
  intros A B f l. induction l as [|x l IH]; intros ys H; cbn in H.
  - inversion H. constructor.
  - inv_bind H as y Hy H. inv_bind H as ys' Hys H. inversion H; subst. constructor; [assumption|]. apply IH. assumption.
Qed.

Lemma mapM_length : forall {A B} (f : A -> res B) l ys, mapM f l = Ok ys -> List.length ys = List.length l.
Proof. intros A B f l ys H. apply mapM_ok in H. induction H; cbn; congruence. Qed.

Lemma mapM_in : forall {A B} (f : A -> res B) l ys y,
  mapM f l = Ok ys -> In y ys -> exists x, In x l /\ f x = Ok y.
Proof.
  intros A B f l ys y H Hy. apply mapM_ok in H. induction H; [contradiction|].
  destruct Hy as [->|Hy]; [exists x; split; [left; reflexivity|assumption]|].
  destruct (IHForall2 Hy) as [x' [Hx' Hf]]. exists x'. split; [right|]; assumption.
Qed.

Lemma mapM_ext : forall {A B} (f g : A -> res B) l, (forall x, In x l -> f x = g x) -> mapM f l = mapM g l.
Proof.
  intros A B f g l H. induction l as [|x l IH]; [reflexivity|]. cbn. rewrite (H x (or_introl eq_refl)).
  rewrite IH; [reflexivity|]. intros y Hy. apply H. right. exact Hy.
Qed.

(** * Well-formedness of a semantic normal form
    what the theorems that consume a [sem] assume of it (Front/NestSem.v [nestable_spec],
    Encode/CrossChunks.v, Random/Frag0Sem.v: positive chunk lengths; factor indices inside
    the factor table; constraint windows inside the trial range). *)
Definition wf_window (T : nat) (w : nat * nat) : Prop := fst w < snd w /\ snd w <= T.

Definition wf_kind (nf : nat) (k : ckind) : Prop :=
  match k with
  | KLatin others _ _ _ => forall fn, In fn others -> fst fn < nf
  | _ => True
  end.

Record wf_sem (S : sem) : Prop := {
  wf_trials : 0 < s_trials S;
  wf_tables : forall fd w, In fd (s_factors S) -> f_derived fd = Some w ->
              List.length (w_table w) = f_nlevels fd /\ forall d, In d (w_deps w) -> d < List.length (s_factors S);
  wf_crossings : forall c, In c (s_crossings S) ->
                 0 < c_chunk c /\ forall f, In f (c_factors c) -> f < List.length (s_factors S);
  wf_constraints : forall k, In k (s_constraints S) ->
                   k_factor k < List.length (s_factors S) /\ wf_kind (List.length (s_factors S)) (k_kind k) /\
                   forall w, In w (k_windows k) -> wf_window (s_trials S) w
}.

(** ** positions *)
Lemma pos_fold : forall f l s acc i,
  fold_left (fun acc ix => if snd ix =? f then Some (fst ix) else acc) (combine (seq s (List.length l)) l) acc = Some i ->
  acc = Some i \/ (s <= i < s + List.length l).
Proof.
  intros f l. induction l as [|x l IH]; intros s acc i H; cbn in H.
  - left. exact H.
  - apply IH in H. destruct H as [H|H]; [|right; cbn; lia].
    cbn in H. destruct (x =? f); [inversion H; subst; right; cbn; lia|left; exact H].
Qed.

Lemma pos_of_lt : forall forder f i, pos_of forder f = Ok i -> i < List.length forder.
Proof.
  intros forder f i H. unfold pos_of, of_option in H.
  destruct (fold_left _ _ None) as [j|] eqn:E; [|discriminate]. inversion H; subst j.
  apply pos_fold in E. destruct E as [E|E]; [discriminate|lia].
Qed.

Lemma mapM_pos_lt : forall forder fs ps p, mapM (pos_of forder) fs = Ok ps -> In p ps -> p < List.length forder.
Proof.
  intros forder fs ps p H Hp. destruct (mapM_in _ _ _ _ H Hp) as [f [_ Hf]]. eapply pos_of_lt; eauto.
Qed.

(** ** trial counts *)
Lemma finish_T_pos : forall al cs m, 0 < finish_T al cs m.
Proof. intros. unfold finish_T. lia. Qed.

Lemma finish_T_eq : forall bd mode bd', finish bd mode = Ok bd' ->
  b_T bd' = finish_T (b_alignment bd) (b_crossings bd) (b_min_trials bd) /\
  b_constraints bd' = b_constraints bd /\ b_alignment bd' = b_alignment bd /\ b_design bd' = b_design bd /\
  b_sustain bd' = b_sustain bd /\ b_rcc bd' = b_rcc bd /\ b_min_trials bd' = b_min_trials bd.
Proof.
  intros bd mode bd' H. unfold finish in H.
  destruct (_ && _); [discriminate|]. inv_bind H as cs' Hcs H. inversion H; subst; cbn. repeat split; reflexivity.
Qed.

Definition top_scope (sc : scope) : Prop := match sc with ScScaled _ _ => False | _ => True end.

Lemma own_top : forall cs, Forall (fun csc : pcons * scope => top_scope (snd csc)) (own_constraints cs).
Proof. intro cs. unfold own_constraints. apply Forall_forall. intros x Hx. apply in_map_iff in Hx. destruct Hx as [c [<- _]]. exact I. Qed.

Lemma doc_cross_inv : forall p d crs cs rcc mode al bd,
  doc_cross p d crs cs rcc mode al = Ok bd ->
  0 < b_T bd /\ Forall (fun csc => top_scope (snd csc)) (b_constraints bd).
Proof.
  intros p d crs cs rcc mode al bd H. unfold doc_cross in H.
  inv_bind H as kinds Hk H. inv_bind H as xs Hxs H. inv_bind H as bd0 Hf H.
  inversion H; subst; cbn. apply finish_T_eq in Hf. destruct Hf as [-> _]. split; [apply finish_T_pos|apply own_top].
Qed.

Lemma merge_inv : forall inners cs mode al nest bd,
  merge inners cs mode al nest = Ok bd ->
  0 < b_T bd /\ Forall (fun csc => top_scope (snd csc)) (b_constraints bd).
Proof.
  intros inners cs mode al nest bd H. unfold merge in H. destruct (_ && _); [discriminate|]. inv_bind H as bd0 Hf H.
  inversion H; subst; cbn. apply finish_T_eq in Hf. destruct Hf as [-> _]. split; [apply finish_T_pos|].
  apply Forall_app. split; [|apply own_top]. apply Forall_forall. intros x Hx. apply in_flat_map in Hx.
  destruct Hx as [b [_ Hx]]. apply in_map_iff in Hx. destruct Hx as [c [<- _]]. exact I.
Qed.

Lemma doc_block_inv : forall p b bd, doc_block p b = Ok bd ->
  0 < b_T bd /\ Forall (fun csc => top_scope (snd csc)) (b_constraints bd).
Proof.
  intros p b bd H. destruct b; cbn [doc_block] in H.
  - eapply doc_cross_inv; eauto.
  - eapply doc_cross_inv; eauto.
  - inv_bind H as inner Hi H. eapply merge_inv; eauto.
  - inv_bind H as inners Hi H. inv_bind H as al' Hal H. eapply merge_inv; eauto.
  - inv_bind H as outer Ho H. inv_bind H as inner Hi H. destruct (existsb _ _); [discriminate|]. eapply merge_inv; eauto.
Qed.


(** ** constraint windows *)
Lemma rep_windows_good : forall fuel base step T Pb start w,
  In w (rep_windows fuel base step T Pb start) -> wf_window T w.
Proof.
  induction fuel as [|fuel IH]; cbn [rep_windows]; intros base step T Pb start w H; [contradiction|].
  destruct (start <? T - Pb); [|contradiction]. apply in_app_or in H. destruct H as [H|H]; [|eauto].
  apply in_flat_map in H. destruct H as [ab [_ H]]. destruct (_ <? _) eqn:E; [|contradiction].
  destruct H as [<-|[]]. apply Nat.ltb_lt in E. split; cbn; lia.
Qed.

Lemma scope_windows_good : forall sc T ws scale,
  top_scope sc -> 0 < T -> scope_windows sc T = Ok (ws, scale) -> forall w, In w ws -> wf_window T w.
Proof.
  intros [|inner Tb Pb off|inner n] T ws scale Ht HT H w Hw; cbn [scope_windows top_scope] in *.
  - inversion H; subst. destruct Hw as [<-|[]]. split; cbn; lia.
  - inv_bind H as bs Hbs H. destruct bs as [base sc']. destruct (Tb <=? Pb); [discriminate|].
    assert (E : ws = rep_windows (S T) base (Tb - Pb) T Pb off) by congruence. rewrite E in Hw.
    exact (rep_windows_good _ _ _ _ _ _ _ Hw).
  - contradiction.
Qed.

Lemma sem_constraint_good : forall p bd forder maxp T c sc ks,
  top_scope sc -> 0 < T -> sem_constraint p bd forder maxp T c sc = Ok ks ->
  forall k, In k ks ->
    k_factor k < List.length forder /\ wf_kind (List.length forder) (k_kind k) /\
    forall w, In w (k_windows k) -> wf_window T w.
Proof.
  intros p bd forder maxp T c sc ks Ht HT H k Hk. unfold sem_constraint in H.
  inv_bind H as wsc Hws H. destruct wsc as [wins scale].
  pose proof (scope_windows_good _ _ _ _ Ht HT Hws) as Hgood.
  destruct c as [kd k0 [fid ln|fid]|fid ln|ix fid ln|fid|fids|n| |kind]; try discriminate.
  - inv_bind H as pf Hpf H. inv_bind H as li Hli H. inversion H; subst. destruct Hk as [<-|[]]. cbn.
    split; [eapply pos_of_lt; eauto|]. split; [destruct kd; exact I|exact Hgood].
  - inv_bind H as pf Hpf H. inv_bind H as li Hli H. inversion H; subst. destruct Hk as [<-|[]]. cbn.
    split; [eapply pos_of_lt; eauto|]. split; [exact I|intros w []].
  - inv_bind H as pf Hpf H. inv_bind H as li Hli H. inversion H; subst. destruct Hk as [<-|[]]. cbn.
    split; [eapply pos_of_lt; eauto|]. split; [exact I|exact Hgood].
  - inv_bind H as pf Hpf H. inversion H; subst. destruct Hk as [<-|[]]. cbn.
    split; [eapply pos_of_lt; eauto|]. split; [exact I|intros w []].
  - destruct fids as [|f0 [|f1 fr]]; try (inversion H; subst; contradiction).
    inv_bind H as lens Hl H. inv_bind H as main Hm H. inv_bind H as others Ho H. inv_bind H as pm Hpm H.
    inversion H; subst. destruct Hk as [<-|[]]. cbn.
    split; [eapply pos_of_lt; eauto|]. split; [|intros w []].
    intros fn Hfn. destruct (mapM_in _ _ _ _ Ho Hfn) as [x [_ Hx]]. inv_bind Hx as pf Hpf Hx. inversion Hx; subst. cbn.
    eapply pos_of_lt; eauto.
  - inversion H; subst. contradiction.
  - inversion H; subst. contradiction.
Qed.

(** ** the factor table *)
Lemma enc_table_length : forall p deps tabs enc, enc_table p deps tabs = Ok enc -> List.length enc = List.length tabs.
Proof. intros p deps tabs enc H. unfold enc_table in H. eapply mapM_length; eauto. Qed.

Lemma accepted_tables_length : forall p fd tabs, accepted_tables p fd = Ok tabs ->
  nlevels fd = Ok (List.length tabs).
Proof.
  intros p fd tabs H. unfold accepted_tables in H. inv_bind H as q Hq H. destruct q as [[[deps width] stride] start].
  inv_bind H as doms Hd H. unfold nlevels. destruct (pf_kind fd); try discriminate.
  inversion H; subst. rewrite !map_length. reflexivity.
Qed.

Lemma sem_factor_good : forall p bd forder f fd, sem_factor p bd forder f = Ok fd ->
  forall w, f_derived fd = Some w ->
    List.length (w_table w) = f_nlevels fd /\ forall d, In d (w_deps w) -> d < List.length forder.
Proof.
  intros p bd forder f fd H w Hw. unfold sem_factor in H. inv_bind H as pfd Hfd H. inv_bind H as nl Hnl H.
  destruct (is_simple pfd); [inversion H; subst; discriminate|].
  inv_bind H as q Hq H. destruct q as [[[deps width] stride] start].
  match type of H with (if ?c then _ else _) = _ => destruct c; [discriminate|] end.
  inv_bind H as tabs Ht H. inv_bind H as enc He H. inv_bind H as pdeps Hp H. inversion H; subst. cbn in Hw. inversion Hw; subst. cbn.
  split.
  - rewrite (enc_table_length _ _ _ _ He). apply accepted_tables_length in Ht. rewrite Ht in Hnl. inversion Hnl. reflexivity.
  - intros d Hd. eapply mapM_pos_lt; eauto.
Qed.

(** * (a) the semantic normal form of a program is well formed *)
Theorem sem_of_block_wf : forall p bd ds,
  0 < b_T bd -> Forall (fun csc => top_scope (snd csc)) (b_constraints bd) ->
  sem_of_block p bd = Ok ds -> wf_sem (ds_sem ds) /\ ds_T ds = s_trials (ds_sem ds) /\ ds_T ds = b_T bd /\
  List.length (ds_forder ds) = List.length (s_factors (ds_sem ds)).
Proof.
  intros p bd ds HT Hsc H. unfold sem_of_block in H.
  inv_bind H as kinds Hk H. destruct (negb _); [discriminate|].
  inv_bind H as depths Hd H. set (forder := map fst (sort_by _ depths)) in *.
  inv_bind H as factors Hf H. inv_bind H as crossings Hx H. inv_bind H as constraints Hc H.
  inversion H; subst; cbn. clear H.
  pose proof (mapM_length _ _ _ Hf) as Hlen.
  split; [|repeat split; congruence]. constructor; cbn.
  - exact HT.
  - intros fd w Hin Hw. destruct (mapM_in _ _ _ _ Hf Hin) as [f [_ Hsf]]. rewrite Hlen.
    eapply sem_factor_good; eauto.
  - intros c Hin. destruct (mapM_in _ _ _ _ Hx Hin) as [x [_ Hsx]]. unfold sem_crossing in Hsx.
    destruct (_ =? 0) eqn:E; [discriminate|]. apply Nat.eqb_neq in E.
    inv_bind Hsx as mult Hm Hsx. inv_bind Hsx as fs Hfs Hsx. inversion Hsx; subst; cbn.
    split; [lia|]. intros f Hfin. rewrite Hlen. eapply mapM_pos_lt; eauto.
  - intros k Hin. rewrite Hlen. apply in_app_or in Hin. destruct Hin as [Hin|Hin].
    + apply in_concat in Hin. destruct Hin as [ks [Hks Hin]].
      destruct (mapM_in _ _ _ _ Hc Hks) as [csc [Hcsc Hsem]].
      inv_bind Hsem as cs Hcs Hsem. inv_bind Hsem as kss Hkss Hsem. inversion Hsem; subst.
      apply in_concat in Hin. destruct Hin as [ks' [Hks' Hin]].
      destruct (mapM_in _ _ _ _ Hkss Hks') as [c [_ Hsc']].
      rewrite Forall_forall in Hsc. eapply sem_constraint_good; eauto.
    + destruct (_ && _) eqn:E; [|contradiction]. destruct Hin as [<-|[]]. cbn.
      apply andb_true_iff in E. destruct E as [_ E]. split; [destruct forder; [discriminate|cbn; lia]|].
      split; [exact I|]. intros w [<-|[]]. split; cbn; lia.
Qed.

Theorem doc_sem_block_wf : forall p b ds, doc_sem_block p b = Ok ds ->
  wf_sem (ds_sem ds) /\ ds_T ds = s_trials (ds_sem ds) /\ List.length (ds_forder ds) = List.length (s_factors (ds_sem ds)).
Proof.
  intros p b ds H. unfold doc_sem_block in H. inv_bind H as bd Hbd H.
  destruct (doc_block_inv _ _ _ Hbd) as [HT Hsc].
  destruct (sem_of_block_wf _ _ _ HT Hsc H) as [H1 [H2 [_ H3]]]. split; [assumption|split; assumption].
Qed.

Theorem doc_sem_wf : forall p ds, doc_sem p = Ok ds -> wf_sem (ds_sem ds).
Proof. intros p ds H. apply (doc_sem_block_wf p (p_main p) ds H). Qed.

(** * (b) the documented laws, about [doc_sem] itself *)

(** ** CrossBlock(d, c, cs, rcc) is MultiCrossBlock(d, [c], cs, rcc, WEIGHT) (EQUAL_PREAMBLE) *)
Theorem cross_is_multi_weight : forall p d c cs rcc,
  doc_sem_block p (PCross d c cs rcc) = doc_sem_block p (PMulti d [c] cs rcc DWeight EqualPreamble).
Proof. reflexivity. Qed.

(** ** MinimumTrials: the trial count is monotone in the bound and reaches it *)
Definition round_up (su m : nat) : nat := if m mod su =? 0 then m else (m / su + 1) * su.

Lemma round_up_mono : forall su m m', m <= m' -> round_up su m <= round_up su m'.
Proof.
  intros su m m' H. unfold round_up. destruct su as [|k].
  - cbn. destruct m, m'; cbn; lia.
  - pose proof (Nat.div_mod m (S k) ltac:(lia)) as E1. pose proof (Nat.div_mod m' (S k) ltac:(lia)) as E2.
    pose proof (Nat.mod_upper_bound m (S k) ltac:(lia)) as B1. pose proof (Nat.mod_upper_bound m' (S k) ltac:(lia)) as B2.
    pose proof (Nat.div_le_mono m m' (S k) ltac:(lia) H) as D.
    remember (S k) as s eqn:Es. assert (Hs : 0 < s) by lia. clear Es k.
    remember (m / s) as q eqn:Eq. remember (m' / s) as q' eqn:Eq'. remember (m mod s) as r eqn:Er. remember (m' mod s) as r' eqn:Er'.
    clear Eq Eq' Er Er'.
    destruct (Nat.eqb_spec r 0) as [Z1|Z1]; destruct (Nat.eqb_spec r' 0) as [Z2|Z2].
    + exact H.
    + assert ((q' + 1) * s = s * q' + s) by ring. lia.
    + assert (q < q').
      { destruct (Nat.lt_ge_cases q q') as [L|G]; [exact L|].
        assert (s * q' <= s * q) by (apply Nat.mul_le_mono_l; lia). lia. }
      assert (s * (q + 1) <= s * q') by (apply Nat.mul_le_mono_l; lia).
      assert ((q + 1) * s = s * (q + 1)) by ring. lia.
    + assert (s * q <= s * q') by (apply Nat.mul_le_mono_l; lia).
      assert ((q + 1) * s = s * q + s) by ring. assert ((q' + 1) * s = s * q' + s) by ring. lia.
Qed.

Lemma round_fold_mono : forall cs m m', m <= m' ->
  fold_left (fun m c => if m mod x_su c =? 0 then m else (m / x_su c + 1) * x_su c) cs m <=
  fold_left (fun m c => if m mod x_su c =? 0 then m else (m / x_su c + 1) * x_su c) cs m'.
Proof.
  induction cs as [|c cs IH]; intros m m' H; cbn [fold_left]; [exact H|]. apply IH. apply (round_up_mono (x_su c) m m' H).
Qed.

Lemma round_fold_su1 : forall cs m, Forall (fun c => x_su c = 1) cs ->
  fold_left (fun m c => if m mod x_su c =? 0 then m else (m / x_su c + 1) * x_su c) cs m = m.
Proof.
  induction cs as [|c cs IH]; intros m H; cbn [fold_left]; [reflexivity|]. inversion H; subst.
  rewrite H2. rewrite Nat.mod_1_r. cbn. apply IH. assumption.
Qed.

Lemma finish_T_mono : forall al cs m m', m <= m' -> finish_T al cs m <= finish_T al cs m'.
Proof. intros al cs m m' H. unfold finish_T. pose proof (round_fold_mono cs m m' H). lia. Qed.

Lemma finish_T_ge_su1 : forall al cs m, Forall (fun c => x_su c = 1) cs -> m <= finish_T al cs m.
Proof. intros al cs m H. unfold finish_T. rewrite (round_fold_su1 cs m H). lia. Qed.

Lemma list_max_cons : forall n l, list_max (n :: l) = Nat.max n (list_max l).
Proof. reflexivity. Qed.

Lemma doc_crossing_su : forall p d ex rcc cr x, doc_crossing p d ex rcc cr = Ok x -> x_su x = 1.
Proof.
  intros p d ex rcc cr x H. unfold doc_crossing in H. inv_bind H as allc Ha H. inv_bind H as feas Hf H.
  inv_bind H as P HP H. inversion H; subst. reflexivity.
Qed.

(** the trial count of a (Multi)CrossBlock as a function of its constraint list *)
Lemma doc_cross_T : forall p d crs cs rcc mode al bd, doc_cross p d crs cs rcc mode al = Ok bd ->
  exists xs, mapM (doc_crossing p (b_design bd) (excludes_of cs) rcc) (filter nonempty crs) = Ok xs /\
             b_T bd = finish_T al xs (list_max (min_trials_of cs)).
Proof.
  intros p d crs cs rcc mode al bd H. unfold doc_cross in H.
  inv_bind H as kinds Hk H. inv_bind H as xs Hxs H. inv_bind H as bd0 Hf H.
  apply finish_T_eq in Hf. cbn in Hf. destruct Hf as [HT [_ [_ [Hd _]]]].
  inversion H; subst; cbn. exists xs. rewrite Hd. split; assumption.
Qed.

Theorem minimum_trials_monotone : forall p d crs cs rcc mode al n n' bd bd',
  n <= n' ->
  doc_cross p d crs (PMinimumTrials n :: cs) rcc mode al = Ok bd ->
  doc_cross p d crs (PMinimumTrials n' :: cs) rcc mode al = Ok bd' ->
  n <= b_T bd /\ b_T bd <= b_T bd'.
Proof.
  intros p d crs cs rcc mode al n n' bd bd' Hn H H'.
  assert (Hdes : b_design bd = b_design bd').
  { unfold doc_cross in H, H'. inv_bind H as k1 Hk1 H. inv_bind H' as k2 Hk2 H'. rewrite Hk1 in Hk2. inversion Hk2; subst k2.
    inv_bind H as x1 Hx1 H. inv_bind H as b1 Hb1 H. inv_bind H' as x2 Hx2 H'. inv_bind H' as b2 Hb2 H'.
    apply finish_T_eq in Hb1, Hb2. cbn in Hb1, Hb2. inversion H; inversion H'; subst; cbn.
    destruct Hb1 as [_ [_ [_ [-> _]]]]. destruct Hb2 as [_ [_ [_ [-> _]]]]. reflexivity. }
  destruct (doc_cross_T _ _ _ _ _ _ _ _ H) as [xs [Hxs HT]].
  destruct (doc_cross_T _ _ _ _ _ _ _ _ H') as [xs' [Hxs' HT']].
  cbn [excludes_of flat_map app] in Hxs, Hxs'. rewrite <- Hdes in Hxs'. rewrite Hxs in Hxs'. inversion Hxs'; subst xs'.
  cbn [min_trials_of flat_map app] in HT, HT'. rewrite list_max_cons in HT, HT'. rewrite HT, HT'.
  assert (Hsu : Forall (fun c => x_su c = 1) xs).
  { apply Forall_forall. intros x Hx. destruct (mapM_in _ _ _ _ Hxs Hx) as [cr [_ Hcr]]. eapply doc_crossing_su; eauto. }
  split.
  - pose proof (finish_T_ge_su1 al xs (Nat.max n (list_max (flat_map (fun c => match c with PMinimumTrials n0 => [n0] | _ => [] end) cs))) Hsu). lia.
  - apply finish_T_mono. lia.
Qed.

(** the same for the programs themselves: [CrossBlock(d, c, MinimumTrials(n) :: cs, rcc)] *)
Theorem minimum_trials_cross : forall p d c cs rcc n n' ds ds',
  n <= n' ->
  doc_sem_block p (PCross d c (PMinimumTrials n :: cs) rcc) = Ok ds ->
  doc_sem_block p (PCross d c (PMinimumTrials n' :: cs) rcc) = Ok ds' ->
  n <= s_trials (ds_sem ds) /\ s_trials (ds_sem ds) <= s_trials (ds_sem ds').
Proof.
  intros p d c cs rcc n n' ds ds' Hn H H'. unfold doc_sem_block in H, H'. cbn [doc_block] in H, H'.
  inv_bind H as bd Hbd H. inv_bind H' as bd' Hbd' H'.
  destruct (doc_cross_inv _ _ _ _ _ _ _ _ Hbd) as [HT Hsc]. destruct (doc_cross_inv _ _ _ _ _ _ _ _ Hbd') as [HT' Hsc'].
  destruct (sem_of_block_wf _ _ _ HT Hsc H) as [_ [E1 [E2 _]]]. destruct (sem_of_block_wf _ _ _ HT' Hsc' H') as [_ [E1' [E2' _]]].
  rewrite <- E1, <- E1', E2, E2'. eapply minimum_trials_monotone; eauto.
Qed.

(** ** Repeat(b, []) and Merge([b]) denote what b denotes *)

(** *** dictionaries and sets *)
Lemma dict_set_fresh : forall {V} k (v : V) d, ~ In k (map fst d) -> dict_set Nat.eqb k v d = d ++ [(k, v)].
Proof.
  intros V k v d. induction d as [|[k' v'] d IH]; intro H; cbn; [reflexivity|].
  destruct (Nat.eqb_spec k k') as [->|Hne]; [exfalso; apply H; left; reflexivity|].
  rewrite IH; [reflexivity|]. intro Hin. apply H. right. exact Hin.
Qed.

Lemma dict_update_fresh : forall {V} (e d : list (nat * V)),
  NoDup (map fst d ++ map fst e) -> dict_update Nat.eqb d e = d ++ e.
Proof.
  intros V e. induction e as [|[k v] e IH]; intros d H; unfold dict_update in *; cbn [fold_left].
  - rewrite app_nil_r. reflexivity.
  - cbn [fst snd]. rewrite dict_set_fresh.
    + rewrite IH; [rewrite <- app_assoc; reflexivity|]. rewrite map_app. cbn. rewrite <- app_assoc. exact H.
    + cbn in H. apply NoDup_remove_2 in H. intro Hin. apply H. apply in_or_app. left. exact Hin.
Qed.

Lemma dict_set_keys : forall {V} k (v : V) d, NoDup (map fst d) -> NoDup (map fst (dict_set Nat.eqb k v d)).
Proof.
  intros V k v d. induction d as [|[k' v'] d IH]; intro H; cbn.
  - constructor; [intros []|constructor].
  - destruct (Nat.eqb_spec k k') as [->|Hne]; [exact H|]. cbn. inversion H; subst. constructor; [|apply IH; assumption].
    intro Hin. apply H2. clear -Hin Hne. induction d as [|[k2 v2] d IH]; cbn in *.
    + destruct Hin as [E|[]]. congruence.
    + destruct (Nat.eqb_spec k k2); cbn in Hin; [exact Hin|]. destruct Hin as [E|Hin]; [left; exact E|right; apply IH; exact Hin].
Qed.

Lemma dict_update_keys : forall {V} (e d : list (nat * V)), NoDup (map fst d) -> NoDup (map fst (dict_update Nat.eqb d e)).
Proof.
  intros V e. induction e as [|[k v] e IH]; intros d H; unfold dict_update in *; cbn [fold_left]; [exact H|].
  apply IH. apply dict_set_keys. exact H.
Qed.

Lemma mem_false : forall f l, ~ In f l -> DocSem.mem f l = false.
Proof.
  intros f l H. unfold DocSem.mem. destruct (existsb _ _) eqn:E; [|reflexivity]. apply existsb_exists in E.
  destruct E as [x [Hx E]]. apply Nat.eqb_eq in E. subst. contradiction.
Qed.

Lemma add_new_fresh : forall fs acc, NoDup (acc ++ fs) -> DocSem.add_new acc fs = acc ++ fs.
Proof.
  induction fs as [|f fs IH]; intros acc H; unfold DocSem.add_new in *; cbn [fold_left]; [rewrite app_nil_r; reflexivity|].
  rewrite mem_false.
  - rewrite IH; [rewrite <- app_assoc; reflexivity|]. rewrite <- app_assoc. exact H.
  - apply NoDup_remove_2 in H. intro Hin. apply H. apply in_or_app. left. exact Hin.
Qed.

(** *** what [_finish] establishes *)
Definition geom (c : dcross) : nat * nat * nat := (x_P c, x_S c, x_su c).

Definition ep_check (al : alignment) (cs : list dcross) : bool :=
  alignment_eqb al EqualPreamble &&
  negb (match cs with [] => true | c0 :: _ => forallb (fun c => x_P c =? x_P c0) cs end).


Lemma finish_cw_geom : forall mode T c c', finish_cw mode T c = Ok c' -> geom c' = geom c.
Proof.
  intros mode T c c' H. unfold finish_cw in H. destruct (x_S c =? 0); [inversion H; reflexivity|].
  destruct (_ =? x_cw c); [inversion H; reflexivity|]. destruct mode; inversion H; reflexivity.
Qed.

Lemma mapM_finish_cw_geom : forall mode T cs cs', mapM (finish_cw mode T) cs = Ok cs' -> map geom cs' = map geom cs.
Proof.
  intros mode T cs cs' H. apply mapM_ok in H. induction H; cbn; [reflexivity|]. f_equal; [eapply finish_cw_geom; eauto|assumption].
Qed.

Lemma fold_su_geom : forall cs cs' m, map geom cs = map geom cs' ->
  fold_left (fun m c => if m mod x_su c =? 0 then m else (m / x_su c + 1) * x_su c) cs m =
  fold_left (fun m c => if m mod x_su c =? 0 then m else (m / x_su c + 1) * x_su c) cs' m.
Proof.
  induction cs as [|c cs IH]; intros [|c' cs'] m H; cbn [map] in H; try discriminate; [reflexivity|].
  assert (Hc : geom c = geom c') by congruence. assert (Hr : map geom cs = map geom cs') by congruence. cbn [fold_left]. assert (E : x_su c = x_su c') by (unfold geom in Hc; congruence).
  rewrite E. apply IH. assumption.
Qed.

Lemma map_geom_f : forall (f : nat * nat * nat -> nat) cs cs', map geom cs = map geom cs' ->
  map (fun c => f (geom c)) cs = map (fun c => f (geom c)) cs'.
Proof. intros f cs cs' H. rewrite <- !(map_map geom f). rewrite H. reflexivity. Qed.

Lemma finish_T_geom : forall al cs cs' m, map geom cs = map geom cs' -> finish_T al cs m = finish_T al cs' m.
Proof.
  intros al cs cs' m H. unfold finish_T. rewrite (fold_su_geom cs cs' m H).
  assert (E1 : map x_P cs = map x_P cs') by exact (map_geom_f (fun t => fst (fst t)) cs cs' H).
  assert (E2 : map (fun c => x_S c * x_su c) cs = map (fun c => x_S c * x_su c) cs')
    by exact (map_geom_f (fun t => snd (fst t) * snd t) cs cs' H).
  assert (E3 : map (fun c => (x_P c + x_S c) * x_su c) cs = map (fun c => (x_P c + x_S c) * x_su c) cs')
    by exact (map_geom_f (fun t => (fst (fst t) + snd (fst t)) * snd t) cs cs' H).
  rewrite E1, E2, E3. reflexivity.
Qed.

Lemma block_P_geom : forall al cs cs', map geom cs = map geom cs' -> block_P al cs = block_P al cs'.
Proof.
  intros al cs cs' H. unfold block_P. destruct al.
  - assert (E : map (fun c => x_P c * x_su c) cs = map (fun c => x_P c * x_su c) cs')
      by exact (map_geom_f (fun t => fst (fst t) * snd t) cs cs' H).
    rewrite E. reflexivity.
  - destruct cs as [|c cs], cs' as [|c' cs']; cbn [map] in H; try discriminate; [reflexivity|].
    assert (Hc : geom c = geom c') by congruence. unfold geom in Hc. congruence.
  - destruct cs as [|c cs], cs' as [|c' cs']; cbn [map] in H; try discriminate; [reflexivity|].
    assert (Hc : geom c = geom c') by congruence. unfold geom in Hc. congruence.
Qed.

Lemma forallb_geom : forall (f : nat * nat * nat -> bool) cs cs', map geom cs = map geom cs' ->
  forallb (fun c => f (geom c)) cs = forallb (fun c => f (geom c)) cs'.
Proof.
  induction cs as [|c cs IH]; intros [|c' cs'] H; cbn [map] in H; try discriminate; [reflexivity|].
  assert (Hc : geom c = geom c') by congruence. assert (Hr : map geom cs = map geom cs') by congruence. cbn [forallb]. rewrite Hc. f_equal. apply IH. assumption.
Qed.

Lemma ep_check_geom : forall al cs cs', map geom cs = map geom cs' -> ep_check al cs = ep_check al cs'.
Proof.
  intros al cs cs' H. unfold ep_check. f_equal. f_equal.
  destruct cs as [|c0 cs], cs' as [|c0' cs']; cbn [map] in H; try discriminate; [reflexivity|].
  assert (E0 : x_P c0 = x_P c0') by (assert (Hc : geom c0 = geom c0') by congruence; unfold geom in Hc; congruence).
  rewrite E0.
  exact (forallb_geom (fun t => fst (fst t) =? x_P c0') (c0 :: cs) (c0' :: cs') H).
Qed.

Record fin (bd : blockdoc) : Prop := {
  fin_T : b_T bd = finish_T (b_alignment bd) (b_crossings bd) (b_min_trials bd);
  fin_P : b_P bd = block_P (b_alignment bd) (b_crossings bd);
  fin_ep : ep_check (b_alignment bd) (b_crossings bd) = false;
  fin_keys : NoDup (map fst (b_sustain bd));
  fin_top : Forall (fun csc : pcons * scope => top_scope (snd csc)) (b_constraints bd)
}.

Lemma finish_fin : forall bd mode bd', finish bd mode = Ok bd' ->
  b_T bd' = finish_T (b_alignment bd') (b_crossings bd') (b_min_trials bd') /\
  b_P bd' = block_P (b_alignment bd') (b_crossings bd') /\
  ep_check (b_alignment bd') (b_crossings bd') = false /\
  b_sustain bd' = b_sustain bd /\ b_design bd' = b_design bd /\ b_rcc bd' = b_rcc bd /\
  b_alignment bd' = b_alignment bd /\ b_min_trials bd' = b_min_trials bd /\
  map geom (b_crossings bd') = map geom (b_crossings bd).
Proof.
  intros bd mode bd' H. unfold finish in H. cbv zeta in H.
  fold (ep_check (b_alignment bd) (b_crossings bd)) in H.
  destruct (ep_check _ _) eqn:E; [discriminate|]. inv_bind H as cs' Hcs H.
  assert (Hg : map geom cs' = map geom (b_crossings bd)).
  { destruct mode; [eapply mapM_finish_cw_geom; eauto|inversion Hcs; reflexivity|eapply mapM_finish_cw_geom; eauto]. }
  inversion H; subst; cbn [b_design b_crossings b_T b_P b_constraints b_min_trials b_alignment b_sustain b_rcc].
  rewrite (finish_T_geom _ _ _ _ Hg), (block_P_geom _ _ _ Hg), (ep_check_geom _ _ _ Hg).
  repeat split; try reflexivity; assumption.
Qed.

Lemma doc_cross_fin : forall p d crs cs rcc mode al bd, doc_cross p d crs cs rcc mode al = Ok bd -> fin bd.
Proof.
  intros p d crs cs rcc mode al bd H. unfold doc_cross in H.
  inv_bind H as kinds Hk H. inv_bind H as xs Hxs H. inv_bind H as bd0 Hf H.
  apply finish_fin in Hf. cbn in Hf. destruct Hf as [H1 [H2 [H3 [H4 _]]]].
  inversion H; subst; cbn. constructor; cbn; try assumption.
  - rewrite H4. constructor.
  - apply own_top.
Qed.

Lemma fold_update_keys : forall inners d, NoDup (map fst d) ->
  NoDup (map fst (fold_left (fun d b => dict_update Nat.eqb d (b_sustain b)) inners d)).
Proof.
  induction inners as [|b inners IH]; intros d H; cbn [fold_left]; [exact H|]. apply IH. apply dict_update_keys. exact H.
Qed.

Lemma merge_fin : forall inners cs mode al nest bd, merge inners cs mode al nest = Ok bd -> fin bd.
Proof.
  intros inners cs mode al nest bd H. pose proof (merge_inv _ _ _ _ _ _ H) as [_ Htop].
  unfold merge in H. destruct (_ && _); [discriminate|]. inv_bind H as bd0 Hf H.
  apply finish_fin in Hf. cbn in Hf. destruct Hf as [H1 [H2 [H3 [H4 _]]]].
  inversion H; subst; cbn in *. constructor; cbn; try assumption.
  rewrite H4. apply fold_update_keys. constructor.
Qed.

Lemma doc_block_fin : forall p b bd, doc_block p b = Ok bd -> fin bd.
Proof.
  intros p b bd H. destruct b; cbn [doc_block] in H.
  - eapply doc_cross_fin; eauto.
  - eapply doc_cross_fin; eauto.
  - inv_bind H as inner Hi H. eapply merge_fin; eauto.
  - inv_bind H as inners Hi H. inv_bind H as al' Hal H. eapply merge_fin; eauto.
  - inv_bind H as outer Ho H. inv_bind H as inner Hi H. destruct (existsb _ _); [discriminate|]. eapply merge_fin; eauto.
Qed.

(** *** one repetition window over the whole block is the block's own scope *)
Lemma rep_step_id : forall base T, (forall w, In w base -> wf_window T w) ->
  flat_map (fun ab : nat * nat => if 0 + fst ab <? Nat.min (0 + snd ab) T then [(0 + fst ab, Nat.min (0 + snd ab) T)] else [])
           base = base.
Proof.
  induction base as [|[a b] base IH]; intros T Hw; [reflexivity|]. cbn [flat_map fst snd].
  destruct (Hw (a, b) (or_introl eq_refl)) as [Hab HbT]. cbn [fst snd] in Hab, HbT.
  rewrite !Nat.add_0_l. rewrite (Nat.min_l b T HbT). replace (a <? b) with true by (symmetry; apply Nat.ltb_lt; lia).
  cbn [app]. f_equal. apply IH. intros w Hin. apply Hw. right. exact Hin.
Qed.

Lemma rep_windows_id : forall base T P, 0 < T -> P < T -> (forall w, In w base -> wf_window T w) ->
  rep_windows (S T) base (T - P) T P 0 = base.
Proof.
  intros base T P HT HP Hw. cbn [rep_windows]. replace (0 <? T - P) with true by (symmetry; apply Nat.ltb_lt; lia).
  rewrite (rep_step_id base T Hw). destruct T as [|T']; [lia|]. cbn [rep_windows].
  rewrite Nat.add_0_l, Nat.ltb_irrefl. apply app_nil_r.
Qed.

Lemma scope_windows_rep : forall sc T P, top_scope sc -> 0 < T -> P < T ->
  scope_windows (ScRep sc T P 0) T = scope_windows sc T.
Proof.
  intros sc T P Ht HT HP. cbn [scope_windows]. destruct (scope_windows sc T) as [[base scale]|e|w] eqn:E; cbn [bind]; try reflexivity.
  replace (T <=? P) with false by (symmetry; apply Nat.leb_gt; lia).
  rewrite rep_windows_id; [reflexivity|assumption|assumption|]. eapply scope_windows_good; eauto.
Qed.

Definition with_constraints (bd : blockdoc) (cs : list (pcons * scope)) : blockdoc :=
  {| b_design := b_design bd; b_crossings := b_crossings bd; b_T := b_T bd; b_P := b_P bd;
     b_constraints := cs; b_min_trials := b_min_trials bd; b_alignment := b_alignment bd;
     b_sustain := b_sustain bd; b_rcc := b_rcc bd |}.

Definition rescope (bd : blockdoc) : list (pcons * scope) :=
  map (fun csc => (fst csc, ScRep (snd csc) (b_T bd) (b_P bd) 0)) (b_constraints bd).

Lemma mapM_map : forall {A B C} (f : B -> res C) (g : A -> B) l, mapM f (map g l) = mapM (fun x => f (g x)) l.
Proof. intros A B C f g l. induction l as [|x l IH]; [reflexivity|]. cbn. rewrite IH. reflexivity. Qed.

(** [sem_of_block] does not see the difference *)
Lemma sem_of_block_rescope : forall p bd ds,
  fin bd -> 0 < b_T bd -> b_P bd < b_T bd ->
  sem_of_block p bd = Ok ds ->
  exists ds', sem_of_block p (with_constraints bd (rescope bd)) = Ok ds' /\
              ds_sem ds' = ds_sem ds /\ ds_forder ds' = ds_forder ds /\ ds_T ds' = ds_T ds /\ ds_unsat ds' = ds_unsat ds.
Proof.
  intros p bd ds Hfin HT HP H. unfold sem_of_block in H |- *.
  change (b_design (with_constraints bd (rescope bd))) with (b_design bd).
  change (b_T (with_constraints bd (rescope bd))) with (b_T bd).
  change (b_crossings (with_constraints bd (rescope bd))) with (b_crossings bd).
  change (b_constraints (with_constraints bd (rescope bd))) with (rescope bd).
  inv_bind H as kinds Hk H. rewrite Hk. cbn [bind]. destruct (negb _); [discriminate|].
  inv_bind H as depths Hd H. rewrite Hd. cbn [bind]. set (forder := map fst (sort_by _ depths)) in *.
  inv_bind H as factors Hf H. change (sem_factor p (with_constraints bd (rescope bd))) with (sem_factor p bd).
  rewrite Hf. cbn [bind].
  inv_bind H as crossings Hx H. change (sem_crossing p (with_constraints bd (rescope bd))) with (sem_crossing p bd).
  rewrite Hx. cbn [bind].
  inv_bind H as constraints Hc H.
  assert (Hc' : mapM (fun csc : pcons * scope =>
                        cs <- expand_constraint p (fst csc) ;;
                        ks <- mapM (fun c => sem_constraint p (with_constraints bd (rescope bd)) forder
                                                            (list_max (map (fun c0 => x_P c0 * x_su c0) (b_crossings bd)))
                                                            (b_T bd) c (snd csc)) cs ;;
                        Ok (List.concat ks)) (rescope bd) = Ok constraints).
  { rewrite <- Hc. unfold rescope. rewrite mapM_map. apply mapM_ext. intros csc Hin. cbn [fst snd].
    destruct (expand_constraint p (fst csc)) as [cs|e|w]; cbn [bind]; try reflexivity.
    f_equal. apply mapM_ext. intros c _.
    change (sem_constraint p (with_constraints bd (rescope bd))) with (sem_constraint p bd).
    unfold sem_constraint. rewrite scope_windows_rep; [reflexivity| |assumption|assumption].
    pose proof (fin_top _ Hfin) as Htop. rewrite Forall_forall in Htop. apply (Htop csc Hin). }
  rewrite Hc'. cbn [bind]. inversion H; subst. eexists. split; [reflexivity|]. cbn. repeat split; reflexivity.
Qed.

Lemma alignment_eqb_refl : forall a, alignment_eqb a a = true.
Proof. destruct a; reflexivity. Qed.

(** the [Merge] of one block, in REPEAT mode and with the block's own alignment *)
Lemma merge_single : forall inner, fin inner -> NoDup (b_design inner) ->
  merge [inner] [] DRepeat (b_alignment inner) false = Ok (with_constraints inner (rescope inner)).
Proof.
  intros inner [HT HP Hep Hk Htop] Hnd. destruct inner as [d cs T P k m al su rcc].
  cbn [b_design b_crossings b_T b_P b_constraints b_min_trials b_alignment b_sustain b_rcc] in *.
  unfold merge, finish, with_constraints, rescope. cbv zeta.
  cbn [b_design b_crossings b_T b_P b_constraints b_min_trials b_alignment b_sustain b_rcc
       forallb negb andb flat_map fold_left map app min_trials_of own_constraints filter].
  rewrite alignment_eqb_refl. cbn [negb andb]. rewrite !app_nil_r.
  fold (ep_check al cs). rewrite Hep. cbn [bind].
  cbn [b_design b_crossings b_T b_P b_constraints b_min_trials b_alignment b_sustain b_rcc].
  f_equal. f_equal.
  - apply (add_new_fresh d []). exact Hnd.
  - rewrite HT. cbn [list_max fold_right]. rewrite Nat.max_0_r. reflexivity.
  - rewrite HP. reflexivity.
  - rewrite !app_nil_r. destruct al; try reflexivity.
    unfold block_P in HP. rewrite <- HP, Nat.sub_diag. reflexivity.
  - cbn [list_max fold_right]. apply Nat.max_0_r.
  - apply (dict_update_fresh su []). exact Hk.
  - apply andb_true_r.
Qed.

(** *** a crossing with a preamble has sustain count 1 (Nest refuses preambles) *)
Section PblockInd.
Variable Q : pblock -> Prop.
Hypothesis Hcross : forall d c cs rcc, Q (PCross d c cs rcc).
Hypothesis Hmulti : forall d crs cs rcc mode al, Q (PMulti d crs cs rcc mode al).
Hypothesis Hrepeat : forall b cs, Q b -> Q (PRepeat b cs).
Hypothesis Hmerge : forall bs cs mode al, Forall Q bs -> Q (PMerge bs cs mode al).
Hypothesis Hnest : forall o i cs al, Q o -> Q i -> Q (PNest o i cs al).
Fixpoint pblock_ind' (b : pblock) : Q b :=
  match b with
  | PCross d c cs rcc => Hcross d c cs rcc
  | PMulti d crs cs rcc mode al => Hmulti d crs cs rcc mode al
  | PRepeat b' cs => Hrepeat b' cs (pblock_ind' b')
  | PMerge bs cs mode al =>
    Hmerge bs cs mode al ((fix go (l : list pblock) : Forall Q l :=
                             match l with
                             | [] => Forall_nil Q
                             | x :: r => Forall_cons x (pblock_ind' x) (go r)
                             end) bs)
  | PNest o i cs al => Hnest o i cs al (pblock_ind' o) (pblock_ind' i)
  end.
End PblockInd.

Lemma go_ok : forall p bs inners,
  (fix go (l : list pblock) : res (list blockdoc) :=
     match l with
     | [] => Ok []
     | x :: r => y <- doc_block p x ;; ys <- go r ;; Ok (y :: ys)
     end) bs = Ok inners ->
  Forall2 (fun b bd => doc_block p b = Ok bd) bs inners.
Proof.
  intros p bs. induction bs as [|b bs IH]; intros inners H.
  - inversion H. constructor.
  - inv_bind H as y Hy H. inv_bind H as ys Hys H. inversion H; subst. constructor; [exact Hy|]. apply IH. exact Hys.
Qed.

Definition suP (c : dcross) : Prop := x_su c = 1 \/ x_P c = 0.

Lemma Forall_suP_geom : forall cs cs', map geom cs = map geom cs' -> Forall suP cs' -> Forall suP cs.
Proof.
  induction cs as [|c cs IH]; intros [|c' cs'] H H'; cbn [map] in H; try discriminate; constructor.
  - assert (Hc : geom c = geom c') by congruence. unfold geom in Hc. inversion H'; subst. unfold suP in *.
    assert (x_su c = x_su c') by congruence. assert (x_P c = x_P c') by congruence. lia.
  - inversion H'; subst. apply (IH cs'); [congruence|assumption].
Qed.

Lemma merge_crossings : forall inners cs mode al nest bd, merge inners cs mode al nest = Ok bd ->
  map geom (b_crossings bd) = map geom (flat_map b_crossings inners).
Proof.
  intros inners cs mode al nest bd H. unfold merge in H. destruct (_ && _); [discriminate|]. inv_bind H as bd0 Hf H.
  apply finish_fin in Hf. cbn in Hf. inversion H; subst; cbn. apply Hf.
Qed.

Lemma doc_block_suP : forall p b bd, doc_block p b = Ok bd -> Forall suP (b_crossings bd).
Proof.
  intros p b. induction b as [d c cs rcc|d crs cs rcc mode al|b cs IH|bs cs mode al IH|o i cs al IHo IHi] using pblock_ind';
    intros bd H; cbn [doc_block] in H.
  - unfold doc_cross in H. inv_bind H as kinds Hk H. inv_bind H as xs Hxs H. inv_bind H as bd0 Hf H.
    apply finish_fin in Hf. cbn in Hf. inversion H; subst; cbn. eapply Forall_suP_geom; [apply Hf|].
    apply Forall_forall. intros x Hx. destruct (mapM_in _ _ _ _ Hxs Hx) as [cr [_ Hcr]]. left. eapply doc_crossing_su; eauto.
  - unfold doc_cross in H. inv_bind H as kinds Hk H. inv_bind H as xs Hxs H. inv_bind H as bd0 Hf H.
    apply finish_fin in Hf. cbn in Hf. inversion H; subst; cbn. eapply Forall_suP_geom; [apply Hf|].
    apply Forall_forall. intros x Hx. destruct (mapM_in _ _ _ _ Hxs Hx) as [cr [_ Hcr]]. left. eapply doc_crossing_su; eauto.
  - inv_bind H as inner Hi H. eapply Forall_suP_geom; [eapply merge_crossings; eauto|]. cbn. rewrite app_nil_r. apply IH. exact Hi.
  - inv_bind H as inners Hi H. inv_bind H as al' Hal H. eapply Forall_suP_geom; [eapply merge_crossings; eauto|].
    apply go_ok in Hi. clear -IH Hi. induction Hi as [|b bd bs inners Hb _ IHi]; cbn; [constructor|].
    inversion IH; subst. apply Forall_app. split; [eauto|apply IHi; assumption].
  - inv_bind H as outer Ho H. inv_bind H as inner Hi H. destruct (existsb _ _) eqn:E; [discriminate|].
    eapply Forall_suP_geom; [eapply merge_crossings; eauto|]. cbn. rewrite app_nil_r. apply Forall_app. split.
    + apply Forall_forall. intros x Hx. apply in_map_iff in Hx. destruct Hx as [c [<- Hc]]. right. cbn.
      destruct (x_P c =? 0) eqn:Z; [apply Nat.eqb_eq; exact Z|]. exfalso.
      assert (existsb (fun c => negb (x_P c =? 0)) (b_crossings outer ++ b_crossings inner) = true).
      { apply existsb_exists. exists c. split; [apply in_or_app; left; exact Hc|rewrite Z; reflexivity]. }
      congruence.
    + apply IHi. exact Hi.
Qed.

Lemma list_max_in : forall x l, In x l -> x <= list_max l.
Proof. intros x l H. pose proof (proj1 (list_max_le l (list_max l)) (le_n _)) as F. rewrite Forall_forall in F. apply F. exact H. Qed.

Lemma suP_max : forall cs, Forall suP cs -> list_max (map (fun c => x_P c * x_su c) cs) <= list_max (map x_P cs).
Proof.
  induction cs as [|c cs IH]; intro H; [cbn; lia|]. inversion H as [|c' cs' Hc Hcs]; subst. specialize (IH Hcs).
  change (Nat.max (x_P c * x_su c) (list_max (map (fun c => x_P c * x_su c) cs)) <= Nat.max (x_P c) (list_max (map x_P cs))).
  destruct Hc as [E|E]; rewrite E; lia.
Qed.

Lemma preamble_lt_trials : forall p bd ds, fin bd -> Forall suP (b_crossings bd) ->
  sem_of_block p bd = Ok ds -> b_P bd < b_T bd.
Proof.
  intros p bd ds [HT HP _ _ _] HsuP H. rewrite HT, HP. destruct (b_crossings bd) as [|c0 cs] eqn:Ecs.
  - unfold block_P. destruct (b_alignment bd); cbn [map list_max fold_right]; apply finish_T_pos.
  - unfold sem_of_block in H. inv_bind H as kinds Hk H. destruct (negb _); [discriminate|].
    inv_bind H as depths Hd H. inv_bind H as factors Hf H. inv_bind H as crossings Hx H.
    rewrite Ecs in Hx. cbn [mapM] in Hx. inv_bind Hx as y Hy Hx. unfold sem_crossing in Hy.
    destruct (_ =? 0) eqn:E; [discriminate|]. apply Nat.eqb_neq in E.
    assert (HS : 0 < x_S c0 * x_su c0) by nia.
    unfold finish_T, block_P. destruct (b_alignment bd).
    + pose proof (suP_max _ HsuP) as M.
      assert (x_S c0 * x_su c0 <= list_max (map (fun c => x_S c * x_su c) (c0 :: cs))) by (cbn [map list_max fold_right]; lia).
      lia.
    + cbn [map list_max fold_right]. nia.
    + cbn [map list_max fold_right]. nia.
Qed.

(** Merge([b]) (REPEAT mode, b's own alignment) and Repeat(b, []) have the semantic normal form
    of b itself, whenever b has one (design without repeated factors) *)
Theorem merge_one_same : forall p b bd ds,
  doc_block p b = Ok bd -> sem_of_block p bd = Ok ds -> NoDup (b_design bd) ->
  exists ds', doc_sem_block p (PMerge [b] [] DRepeat None) = Ok ds' /\
              ds_sem ds' = ds_sem ds /\ ds_forder ds' = ds_forder ds /\ ds_T ds' = ds_T ds /\ ds_unsat ds' = ds_unsat ds.
Proof.
  intros p b bd ds Hbd Hds Hnd. pose proof (doc_block_fin _ _ _ Hbd) as Hfin.
  destruct (doc_block_inv _ _ _ Hbd) as [HT _].
  unfold doc_sem_block. cbn [doc_block]. rewrite Hbd. cbn [bind]. rewrite (merge_single bd Hfin Hnd). cbn [bind].
  apply sem_of_block_rescope; try assumption. eapply preamble_lt_trials; eauto. eapply doc_block_suP; eauto.
Qed.

Theorem repeat_nil_same : forall p b bd ds,
  doc_block p b = Ok bd -> sem_of_block p bd = Ok ds ->
  b_alignment bd = EqualPreamble -> NoDup (b_design bd) ->
  exists ds', doc_sem_block p (PRepeat b []) = Ok ds' /\
              ds_sem ds' = ds_sem ds /\ ds_forder ds' = ds_forder ds /\ ds_T ds' = ds_T ds /\ ds_unsat ds' = ds_unsat ds.
Proof.
  intros p b bd ds Hbd Hds Hal Hnd. pose proof (doc_block_fin _ _ _ Hbd) as Hfin.
  destruct (doc_block_inv _ _ _ Hbd) as [HT _].
  unfold doc_sem_block. cbn [doc_block]. rewrite Hbd. cbn [bind]. rewrite <- Hal. rewrite (merge_single bd Hfin Hnd). cbn [bind].
  apply sem_of_block_rescope; try assumption. eapply preamble_lt_trials; eauto. eapply doc_block_suP; eauto.
Qed.

(** ... hence the same valid sequences *)
Lemma sem_of_block_block : forall p bd ds, sem_of_block p bd = Ok ds -> ds_block ds = bd.
Proof.
  intros p bd ds H. unfold sem_of_block in H. inv_bind H as kinds Hk H. destruct (negb _); [discriminate|].
  inv_bind H as depths Hd H. inv_bind H as factors Hf H. inv_bind H as crossings Hx H. inv_bind H as constraints Hc H.
  inversion H; reflexivity.
Qed.

Corollary repeat_nil_valid : forall p b ds,
  doc_sem_block p b = Ok ds -> b_alignment (ds_block ds) = EqualPreamble -> NoDup (b_design (ds_block ds)) ->
  exists ds', doc_sem_block p (PRepeat b []) = Ok ds' /\ forall s, valid_b (ds_sem ds') s = valid_b (ds_sem ds) s.
Proof.
  intros p b ds H Hal Hnd. unfold doc_sem_block in H. inv_bind H as bd Hbd H.
  rewrite (sem_of_block_block _ _ _ H) in Hal, Hnd. destruct (repeat_nil_same p b bd ds Hbd H Hal Hnd) as [ds' [H1 [H2 _]]].
  exists ds'. split; [exact H1|]. intro s. rewrite H2. reflexivity.
Qed.

Corollary merge_one_valid : forall p b ds,
  doc_sem_block p b = Ok ds -> NoDup (b_design (ds_block ds)) ->
  exists ds', doc_sem_block p (PMerge [b] [] DRepeat None) = Ok ds' /\ forall s, valid_b (ds_sem ds') s = valid_b (ds_sem ds) s.
Proof.
  intros p b ds H Hnd. unfold doc_sem_block in H. inv_bind H as bd Hbd H.
  rewrite (sem_of_block_block _ _ _ H) in Hnd. destruct (merge_one_same p b bd ds Hbd H Hnd) as [ds' [H1 [H2 _]]].
  exists ds'. split; [exact H1|]. intro s. rewrite H2. reflexivity.
Qed.

(** ** weights multiply: the multiplicity of a combination is the product of its level weights
    ([combo_weight]) times the crossing weight times the sustain count *)
Lemma names_eqb_eq : forall a b, names_eqb a b = true -> a = b.
Proof.
  unfold names_eqb. induction a as [|x a IH]; intros [|y b] H; cbn in H; try discriminate; [reflexivity|].
  apply andb_true_iff in H. destruct H as [H1 H2]. apply String.eqb_eq in H1. subst. f_equal. apply IH. exact H2.
Qed.

Lemma dict_set_in : forall {V} k (v : V) d k' v',
  In (k', v') (dict_set names_eqb k v d) -> In (k', v') d \/ (k' = k /\ v' = v).
Proof.
  intros V k v d k' v'. induction d as [|[k0 v0] d IH]; cbn; intro H.
  - destruct H as [H|[]]. inversion H. right. split; reflexivity.
  - destruct (names_eqb k k0) eqn:E.
    + destruct H as [H|H]; [|left; right; exact H]. inversion H; subst. apply names_eqb_eq in E. right. split; congruence.
    + destruct H as [H|H]; [left; left; exact H|]. destruct (IH H) as [H'|H']; [left; right; exact H'|right; exact H'].
Qed.

Lemma fold_combos_err : forall p cr l (r : res combos), (forall d, r <> Ok d) ->
  forall d, fold_left (fun acc combo => d <- acc ;; w <- combo_weight p cr combo ;; Ok (dict_set names_eqb combo w d)) l r <> Ok d.
Proof.
  intros p cr l. induction l as [|x l IH]; intros r Hr d; cbn [fold_left]; [apply Hr|].
  apply IH. intros d' E. destruct r as [d0|e|w]; cbn in E; try discriminate. exact (Hr d0 eq_refl).
Qed.

Lemma fold_combos_weight : forall p cr l d0 d,
  fold_left (fun acc combo => d <- acc ;; w <- combo_weight p cr combo ;; Ok (dict_set names_eqb combo w d)) l (Ok d0) = Ok d ->
  (forall k v, In (k, v) d0 -> combo_weight p cr k = Ok v) ->
  forall k v, In (k, v) d -> combo_weight p cr k = Ok v.
Proof.
  intros p cr l. induction l as [|x l IH]; intros d0 d H H0 k v Hin; cbn [fold_left] in H.
  - inversion H; subst. apply H0. exact Hin.
  - cbn [bind] in H. destruct (combo_weight p cr x) as [w|e|s] eqn:E; cbn [bind] in H.
    + eapply IH; [exact H| |exact Hin]. intros k' v' Hin'. apply dict_set_in in Hin'.
      destruct Hin' as [Hin'|[-> ->]]; [apply H0; exact Hin'|exact E].
    + exfalso. eapply fold_combos_err; [|exact H]. intros d'; discriminate.
    + exfalso. eapply fold_combos_err; [|exact H]. intros d'; discriminate.
Qed.

Theorem all_combos_weight : forall p cr d combo w,
  all_combos p cr = Ok d -> In (combo, w) d -> combo_weight p cr combo = Ok w.
Proof.
  intros p cr d combo w H Hin. unfold all_combos in H. inv_bind H as doms Hd H.
  eapply fold_combos_weight; [exact H| |exact Hin]. intros k v [].
Qed.

Lemma in_insert_by : forall {A} (leb : A -> A -> bool) x y l, In y (insert_by leb x l) -> y = x \/ In y l.
Proof.
  intros A leb x y l. induction l as [|z l IH]; cbn; intro H.
  - destruct H as [H|[]]; left; congruence.
  - destruct (leb z x); cbn in H.
    + destruct H as [H|H]; [right; left; exact H|]. destruct (IH H) as [H'|H']; [left; exact H'|right; right; exact H'].
    + destruct H as [H|H]; [left; congruence|right; exact H].
Qed.

Lemma in_sort_by : forall {A} (leb : A -> A -> bool) l y, In y (sort_by leb l) -> In y l.
Proof.
  intros A leb l y. unfold sort_by.
  assert (G : forall acc, In y (fold_left (fun acc x => insert_by leb x acc) l acc) -> In y acc \/ In y l).
  { induction l as [|x l IH]; intros acc H; cbn [fold_left] in H; [left; exact H|].
    destruct (IH _ H) as [H'|H']; [|right; right; exact H'].
    apply in_insert_by in H'. destruct H' as [->|H']; [right; left; reflexivity|left; exact H']. }
  intro H. destruct (G [] H) as [[]|H']. exact H'.
Qed.

Theorem crossing_multiplicity : forall p bd forder maxp c dc idx m,
  sem_crossing p bd forder maxp c = Ok dc -> In (idx, m) (c_mult dc) ->
  exists combo w, In (combo, w) (x_combos c) /\ m = w * x_cw c * x_su c.
Proof.
  intros p bd forder maxp c dc idx m H Hin. unfold sem_crossing in H. destruct (_ =? 0); [discriminate|].
  inv_bind H as mult Hm H. inv_bind H as fs Hfs H. inversion H; subst. cbn in Hin.
  destruct (mapM_in _ _ _ _ Hm Hin) as [[combo w] [Hcw Hx]]. apply in_sort_by in Hcw.
  inv_bind Hx as idx' Hidx Hx. inversion Hx; subst. exists combo, w. split; [exact Hcw|reflexivity].
Qed.

(** for a crossing whose every combination is required ([require_complete_crossing]) *)
Theorem crossing_multiplicity_rcc : forall p d ex cr x bd forder maxp dc idx m,
  doc_crossing p d ex true cr = Ok x -> sem_crossing p bd forder maxp x = Ok dc -> In (idx, m) (c_mult dc) ->
  exists combo w, combo_weight p cr combo = Ok w /\ m = w * x_cw x * x_su x.
Proof.
  intros p d ex cr x bd forder maxp dc idx m Hx Hdc Hin.
  destruct (crossing_multiplicity _ _ _ _ _ _ _ _ Hdc Hin) as [combo [w [Hc Hm]]].
  unfold doc_crossing in Hx. inv_bind Hx as allc Ha Hx. inv_bind Hx as feas Hf Hx. inv_bind Hx as P HP Hx.
  assert (Ex : x_combos x = allc) by (inversion Hx; reflexivity).
  rewrite Ex in Hc. exists combo, w. split; [|exact Hm]. eapply all_combos_weight; eauto.
Qed.

(** * more well-formedness: constraint levels are levels of the constrained factor *)
Lemma pos_fold_nth : forall f l s acc i,
  fold_left (fun acc ix => if snd ix =? f then Some (fst ix) else acc) (combine (seq s (List.length l)) l) acc = Some i ->
  acc = Some i \/ (s <= i < s + List.length l /\ nth (i - s) l 0 = f).
Proof.
  intros f l. induction l as [|x l IH]; intros s acc i H; cbn in H.
  - left. exact H.
  - apply IH in H. destruct H as [H|[H1 H2]].
    + cbn in H. destruct (Nat.eqb_spec x f) as [->|Hne]; [|left; exact H]. inversion H; subst. right.
      split; [cbn; lia|]. rewrite Nat.sub_diag. reflexivity.
    + right. split; [cbn; lia|]. replace (i - s) with (S (i - S s)) by lia. exact H2.
Qed.

Lemma pos_of_nth : forall forder f i, pos_of forder f = Ok i -> i < List.length forder /\ nth i forder 0 = f.
Proof.
  intros forder f i H. unfold pos_of, of_option in H.
  destruct (fold_left _ _ None) as [j|] eqn:E; [|discriminate]. inversion H; subst j.
  apply pos_fold_nth in E. destruct E as [E|[E1 E2]]; [discriminate|]. rewrite Nat.sub_0_r in E2. split; [lia|exact E2].
Qed.

Lemma mapM_nth : forall {A B} (f : A -> res B) l ys dA dB i,
  mapM f l = Ok ys -> i < List.length l -> f (nth i l dA) = Ok (nth i ys dB).
Proof.
  intros A B f l ys dA dB i H. apply mapM_ok in H. revert i. induction H as [|x y l ys Hxy _ IH]; intros i Hi; cbn in Hi; [lia|].
  destruct i as [|i]; cbn; [exact Hxy|]. apply IH. lia.
Qed.

Lemma index_of_lt : forall {A} (eqb : A -> A -> bool) x l i, index_of eqb x l = Some i -> i < List.length l.
Proof.
  intros A eqb x l. induction l as [|y l IH]; intros i H; cbn in H; [discriminate|].
  destruct (eqb x y); [inversion H; cbn; lia|]. destruct (index_of eqb x l) as [j|]; [|discriminate].
  inversion H; subst. cbn. specialize (IH j eq_refl). lia.
Qed.

Lemma level_names_nlevels : forall fd ns, level_names fd = Ok ns -> nlevels fd = Ok (List.length ns).
Proof.
  intros fd ns H. unfold level_names, nlevels in *. destruct (pf_kind fd); inversion H; subst; rewrite map_length; reflexivity.
Qed.

Lemma level_index_lt : forall p fid ln li, level_index p fid ln = Ok li ->
  exists fd n, fm p fid = Ok fd /\ nlevels fd = Ok n /\ li < n.
Proof.
  intros p fid ln li H. unfold level_index in H. inv_bind H as fd Hfd H. inv_bind H as ns Hns H.
  unfold of_option in H. destruct (index_of String.eqb ln ns) as [i|] eqn:E; [|discriminate]. inversion H; subst i.
  exists fd, (List.length ns). split; [exact Hfd|]. split; [apply level_names_nlevels; exact Hns|eapply index_of_lt; eauto].
Qed.

Lemma sem_factor_nlevels : forall p bd forder f dfd, sem_factor p bd forder f = Ok dfd ->
  exists fd, fm p f = Ok fd /\ nlevels fd = Ok (f_nlevels dfd).
Proof.
  intros p bd forder f dfd H. unfold sem_factor in H. inv_bind H as fd Hfd H. inv_bind H as nl Hnl H.
  exists fd. split; [exact Hfd|]. destruct (is_simple fd); [inversion H; subst; exact Hnl|].
  inv_bind H as q Hq H. destruct q as [[[deps width] stride] start].
  match type of H with (if ?c then _ else _) = _ => destruct c; [discriminate|] end.
  inv_bind H as tabs Ht H. inv_bind H as enc He H. inv_bind H as pdeps Hp H. inversion H; subst. exact Hnl.
Qed.

Definition dfactor0 : dfactor := {| f_nlevels := 0; f_sustain := 0; f_derived := None |}.

Definition level_ok (S : sem) (k : dconstraint) : Prop :=
  k_level k = 0 \/ k_level k < f_nlevels (nth (k_factor k) (s_factors S) dfactor0).

Lemma sem_constraint_level : forall p bd forder maxp T c sc ks factors,
  mapM (sem_factor p bd forder) forder = Ok factors ->
  sem_constraint p bd forder maxp T c sc = Ok ks ->
  forall k, In k ks -> k_level k = 0 \/ k_level k < f_nlevels (nth (k_factor k) factors dfactor0).
Proof.
  intros p bd forder maxp T c sc ks factors Hf H k Hk. unfold sem_constraint in H.
  inv_bind H as wsc Hws H. destruct wsc as [wins scale].
  assert (G : forall fid ln pf li, pos_of forder fid = Ok pf -> level_index p fid ln = Ok li ->
                                   li < f_nlevels (nth pf factors dfactor0)).
  { intros fid ln pf li Hpf Hli. destruct (pos_of_nth _ _ _ Hpf) as [Hlt Hnth].
    pose proof (mapM_nth _ _ _ 0 dfactor0 pf Hf Hlt) as Hsf. rewrite Hnth in Hsf.
    destruct (sem_factor_nlevels _ _ _ _ _ Hsf) as [fd [E1 E2]].
    destruct (level_index_lt _ _ _ _ Hli) as [fd' [n [E1' [E2' Hlt']]]]. rewrite E1 in E1'. inversion E1'; subst fd'.
    rewrite E2 in E2'. inversion E2'; subst. exact Hlt'. }
  destruct c as [kd k0 [fid ln|fid]|fid ln|ix fid ln|fid|fids|n| |kind]; try discriminate.
  - inv_bind H as pf Hpf H. inv_bind H as li Hli H. inversion H; subst. destruct Hk as [<-|[]]. cbn. right. eapply G; eauto.
  - inv_bind H as pf Hpf H. inv_bind H as li Hli H. inversion H; subst. destruct Hk as [<-|[]]. cbn. right. eapply G; eauto.
  - inv_bind H as pf Hpf H. inv_bind H as li Hli H. inversion H; subst. destruct Hk as [<-|[]]. cbn. right. eapply G; eauto.
  - inv_bind H as pf Hpf H. inversion H; subst. destruct Hk as [<-|[]]. left. reflexivity.
  - destruct fids as [|f0 [|f1 fr]]; try (inversion H; subst; contradiction).
    inv_bind H as lens Hl H. inv_bind H as main Hm H. inv_bind H as others Ho H. inv_bind H as pm Hpm H.
    inversion H; subst. destruct Hk as [<-|[]]. left. reflexivity.
  - inversion H; subst. contradiction.
  - inversion H; subst. contradiction.
Qed.

Theorem doc_sem_levels : forall p ds, doc_sem p = Ok ds ->
  forall k, In k (s_constraints (ds_sem ds)) -> level_ok (ds_sem ds) k.
Proof.
  intros p ds H k Hin. unfold doc_sem, doc_sem_block in H. inv_bind H as bd Hbd H. unfold sem_of_block in H.
  inv_bind H as kinds Hk H. destruct (negb _); [discriminate|].
  inv_bind H as depths Hd H. set (forder := map fst (sort_by _ depths)) in *.
  inv_bind H as factors Hf H. inv_bind H as crossings Hx H. inv_bind H as constraints Hc H.
  inversion H; subst; cbn in *. clear H. unfold level_ok. cbn [s_factors].
  apply in_app_or in Hin. destruct Hin as [Hin|Hin].
  - apply in_concat in Hin. destruct Hin as [ks [Hks Hin]].
    destruct (mapM_in _ _ _ _ Hc Hks) as [csc [Hcsc Hsem]].
    inv_bind Hsem as cs Hcs Hsem. inv_bind Hsem as kss Hkss Hsem. inversion Hsem; subst.
    apply in_concat in Hin. destruct Hin as [ks' [Hks' Hin]].
    destruct (mapM_in _ _ _ _ Hkss Hks') as [c [_ Hsc']].
    eapply sem_constraint_level; eauto.
  - destruct (_ && _); [|contradiction]. destruct Hin as [<-|[]]. left. reflexivity.
Qed.

(** * more well-formedness: sustain counts are positive *)
Definition su_pos (bd : blockdoc) : Prop :=
  Forall (fun c => 0 < x_su c) (b_crossings bd) /\ Forall (fun kv : nat * nat => 0 < snd kv) (b_sustain bd).

Lemma Forall_su_geom : forall cs cs', map geom cs = map geom cs' -> Forall (fun c => 0 < x_su c) cs' -> Forall (fun c => 0 < x_su c) cs.
Proof.
  induction cs as [|c cs IH]; intros [|c' cs'] H H'; cbn [map] in H; try discriminate; constructor.
  - assert (Hc : geom c = geom c') by congruence. unfold geom in Hc. inversion H'; subst.
    assert (x_su c = x_su c') by congruence. lia.
  - inversion H'; subst. apply (IH cs'); [congruence|assumption].
Qed.

Lemma dict_set_vals : forall (Q : nat -> Prop) k v (d : list (nat * nat)),
  Forall (fun kv => Q (snd kv)) d -> Q v -> Forall (fun kv => Q (snd kv)) (dict_set Nat.eqb k v d).
Proof.
  intros Q k v d H Hv. induction H as [|[k0 v0] d H0 Hd IH]; cbn.
  - constructor; [exact Hv|constructor].
  - destruct (k =? k0); constructor; [exact Hv|exact Hd|exact H0|exact IH].
Qed.

Lemma dict_update_vals : forall (Q : nat -> Prop) (e d : list (nat * nat)),
  Forall (fun kv => Q (snd kv)) d -> Forall (fun kv => Q (snd kv)) e -> Forall (fun kv => Q (snd kv)) (dict_update Nat.eqb d e).
Proof.
  intros Q e. induction e as [|[k v] e IH]; intros d Hd He; unfold dict_update in *; cbn [fold_left]; [exact Hd|].
  inversion He; subst. apply IH; [|assumption]. apply dict_set_vals; assumption.
Qed.

Lemma merge_su_pos : forall inners cs mode al nest bd, merge inners cs mode al nest = Ok bd ->
  Forall su_pos inners -> su_pos bd.
Proof.
  intros inners cs mode al nest bd H Hin. pose proof (merge_crossings _ _ _ _ _ _ H) as Hg.
  unfold merge in H. destruct (_ && _); [discriminate|]. inv_bind H as bd0 Hf H.
  apply finish_fin in Hf. cbn in Hf. destruct Hf as [_ [_ [_ [Hs _]]]]. inversion H; subst; cbn in *. split; cbn.
  - eapply Forall_su_geom; [exact Hg|]. clear -Hin. induction Hin as [|b bs [Hb _] _ IH]; cbn; [constructor|].
    apply Forall_app. split; assumption.
  - rewrite Hs. clear -Hin.
    assert (G : forall d, Forall (fun kv : nat * nat => 0 < snd kv) d ->
                          Forall (fun kv : nat * nat => 0 < snd kv) (fold_left (fun d b => dict_update Nat.eqb d (b_sustain b)) inners d)).
    { induction Hin as [|b bs [_ Hb] _ IH]; intros d Hd; cbn [fold_left]; [exact Hd|]. apply IH.
      apply (dict_update_vals (fun n => 0 < n)); assumption. }
    apply G. constructor.
Qed.

Lemma block_P_zero : forall al cs, Forall (fun c => x_P c = 0) cs -> block_P al cs = 0.
Proof.
  intros al cs H. unfold block_P. destruct al.
  - induction H as [|c cs Hc _ IH]; [reflexivity|]. cbn [map list_max fold_right] in *. rewrite Hc. cbn. exact IH.
  - destruct H as [|c cs Hc _]; [reflexivity|]. rewrite Hc. reflexivity.
  - destruct H as [|c cs Hc _]; [reflexivity|]. rewrite Hc. reflexivity.
Qed.

Lemma doc_block_su_pos : forall p b bd, doc_block p b = Ok bd -> su_pos bd.
Proof.
  intros p b. induction b as [d c cs rcc|d crs cs rcc mode al|b cs IH|bs cs mode al IH|o i cs al IHo IHi] using pblock_ind';
    intros bd H; cbn [doc_block] in H.
  - unfold doc_cross in H. inv_bind H as kinds Hk H. inv_bind H as xs Hxs H. inv_bind H as bd0 Hf H.
    apply finish_fin in Hf. cbn in Hf. destruct Hf as [_ [_ [_ [Hs [_ [_ [_ [_ Hg]]]]]]]]. inversion H; subst; cbn. split; cbn.
    + eapply Forall_su_geom; [exact Hg|]. apply Forall_forall. intros x Hx.
      destruct (mapM_in _ _ _ _ Hxs Hx) as [cr [_ Hcr]]. rewrite (doc_crossing_su _ _ _ _ _ _ Hcr). lia.
    + rewrite Hs. constructor.
  - unfold doc_cross in H. inv_bind H as kinds Hk H. inv_bind H as xs Hxs H. inv_bind H as bd0 Hf H.
    apply finish_fin in Hf. cbn in Hf. destruct Hf as [_ [_ [_ [Hs [_ [_ [_ [_ Hg]]]]]]]]. inversion H; subst; cbn. split; cbn.
    + eapply Forall_su_geom; [exact Hg|]. apply Forall_forall. intros x Hx.
      destruct (mapM_in _ _ _ _ Hxs Hx) as [cr [_ Hcr]]. rewrite (doc_crossing_su _ _ _ _ _ _ Hcr). lia.
    + rewrite Hs. constructor.
  - inv_bind H as inner Hi H. eapply merge_su_pos; [exact H|]. constructor; [apply IH; exact Hi|constructor].
  - inv_bind H as inners Hi H. inv_bind H as al' Hal H. eapply merge_su_pos; [exact H|].
    apply go_ok in Hi. clear -IH Hi. induction Hi as [|b bd bs inners Hb _ IHi]; [constructor|].
    inversion IH; subst. constructor; [eauto|apply IHi; assumption].
  - inv_bind H as outer Ho H. inv_bind H as inner Hi H. destruct (existsb _ _) eqn:E; [discriminate|].
    eapply merge_su_pos; [exact H|]. constructor; [|constructor; [apply IHi; exact Hi|constructor]].
    (* the inner length is positive: no preambles, so it is the inner trial count *)
    assert (HP0 : Forall (fun c => x_P c = 0) (b_crossings inner)).
    { apply Forall_forall. intros c Hc. destruct (x_P c =? 0) eqn:Z; [apply Nat.eqb_eq; exact Z|]. exfalso.
      assert (existsb (fun c => negb (x_P c =? 0)) (b_crossings outer ++ b_crossings inner) = true).
      { apply existsb_exists. exists c. split; [apply in_or_app; right; exact Hc|rewrite Z; reflexivity]. }
      congruence. }
    pose proof (doc_block_fin _ _ _ Hi) as Hfin. destruct (doc_block_inv _ _ _ Hi) as [HTi _].
    assert (Hn : 0 < b_T inner - b_P inner) by (rewrite (fin_P _ Hfin), (block_P_zero _ _ HP0); lia).
    destruct (IHo _ Ho) as [Hoc Hos]. split; cbn.
    + apply Forall_forall. intros x Hx. apply in_map_iff in Hx. destruct Hx as [c [<- Hc]]. cbn.
      rewrite Forall_forall in Hoc. specialize (Hoc c Hc). nia.
    + assert (G : forall cs0 d, Forall (fun c => 0 < x_su c) cs0 -> Forall (fun kv : nat * nat => 0 < snd kv) d ->
                   Forall (fun kv : nat * nat => 0 < snd kv)
                          (fold_left (fun d c => fold_left (fun d f => dict_set Nat.eqb f (x_su c * (b_T inner - b_P inner)) d) (x_factors c) d) cs0 d)).
      { induction cs0 as [|c cs0 IHc]; intros d Hcs Hd; cbn [fold_left]; [exact Hd|]. inversion Hcs; subst. apply IHc; [assumption|].
        generalize (x_factors c). intro fs. revert d Hd. induction fs as [|f fs IHf]; intros d Hd; cbn [fold_left]; [exact Hd|].
        apply IHf. apply (dict_set_vals (fun n => 0 < n)); [exact Hd|nia]. }
      apply G; [exact Hoc|]. apply Forall_forall. intros kv Hkv. apply in_map_iff in Hkv. destruct Hkv as [[f n] [<- Hfn]]. cbn.
      rewrite Forall_forall in Hos. specialize (Hos (f, n) Hfn). cbn in Hos. nia.
Qed.

Theorem doc_sem_sustain_pos : forall p ds, doc_sem p = Ok ds ->
  forall fd, In fd (s_factors (ds_sem ds)) -> 0 < f_sustain fd.
Proof.
  intros p ds H fd Hin. unfold doc_sem, doc_sem_block in H. inv_bind H as bd Hbd H.
  destruct (doc_block_su_pos _ _ _ Hbd) as [_ Hsu]. unfold sem_of_block in H.
  inv_bind H as kinds Hk H. destruct (negb _); [discriminate|].
  inv_bind H as depths Hd H. inv_bind H as factors Hf H. inv_bind H as crossings Hx H. inv_bind H as constraints Hc H.
  inversion H; subst; cbn in Hin. destruct (mapM_in _ _ _ _ Hf Hin) as [f [_ Hsf]].
  assert (Hg : 0 < sustain_get bd f).
  { unfold sustain_get. destruct (dict_get Nat.eqb f (b_sustain bd)) as [n|] eqn:E; [|lia].
    unfold dict_get in E. destruct (find _ _) as [[k v]|] eqn:Ef; [|discriminate]. apply find_some in Ef. destruct Ef as [Ef _].
    cbn in E. inversion E; subst. rewrite Forall_forall in Hsu. exact (Hsu _ Ef). }
  unfold sem_factor in Hsf. inv_bind Hsf as pfd Hpfd Hsf. inv_bind Hsf as nl Hnl Hsf.
  destruct (is_simple pfd); [inversion Hsf; subst; exact Hg|].
  inv_bind Hsf as q Hq Hsf. destruct q as [[[deps width] stride] start].
  match type of Hsf with (if ?c then _ else _) = _ => destruct c; [discriminate|] end.
  inv_bind Hsf as tabs Ht Hsf. inv_bind Hsf as enc He Hsf. inv_bind Hsf as pdeps Hp Hsf. inversion Hsf; subst. exact Hg.
Qed.
