(** Property C26 about the documented semantics itself: the scope of a constraint in
    [doc_sem] (Design/DocSem.v).

    A constraint given to a block that is then repeated (Repeat, Merge of one block, the
    inner block of a Nest) applies within each repetition of that block; a constraint given
    to the combinator applies to the whole sequence; the constraints of the outer block of
    a Nest are scaled by the inner trial count.

    - closed form of [rep_windows] / [scope_windows] ([rep_closed]), and for a block without
      preamble the plain partition of [0, T) into chunks of the block's trial count;
    - which scopes [doc_block] gives to the constraints of Repeat / Merge [b] / Nest;
    - how [sem_of_block] turns scopes into the windows of the semantic constraints;
    - the meaning for [Sem.constraint_ok]: a run-length / count constraint whose windows are
      the repetition partition holds iff it holds on each repetition's slice taken alone;
    - the closed form coincides with the one of the code-side model
      [Layout.map_block_trial_ranges] (Design/RangesProofs.v). *)
From Coq Require Import ZArith List Bool Arith Lia.
From SP Require Import Design.Sem Design.Flat Design.DocSem Design.DocSemProofs.
Import ListNotations.
Local Open Scope nat_scope.
Local Open Scope list_scope.

(** * Arithmetic: the number of repetitions *)
Lemma lt_char_unique : forall (P : nat -> Prop) n m,
  (forall j, j < n <-> P j) -> (forall j, j < m <-> P j) -> n = m.
Proof.
  intros P n m Hn Hm. destruct (Nat.lt_trichotomy n m) as [H|[H|H]]; [|exact H|].
  - apply Hm in H. apply Hn in H. lia.
  - apply Hn in H. apply Hm in H. lia.
Qed.

(** [ceil_div a s] is the number of [j] with [j * s < a] *)
Lemma ceil_div_lt : forall a s j, 0 < s -> (j < ceil_div a s <-> j * s < a).
Proof.
  intros a s j Hs. unfold ceil_div. split; intro H.
  - destruct (Nat.lt_ge_cases (j * s) a) as [L|L]; [exact L|]. exfalso.
    assert ((a + s - 1) / s < j + 1) by (apply Nat.div_lt_upper_bound; nia). lia.
  - assert (j + 1 <= (a + s - 1) / s) by (apply Nat.div_le_lower_bound; nia). lia.
Qed.

Lemma ceil_div_0 : forall s, 0 < s -> ceil_div 0 s = 0.
Proof. intros s Hs. unfold ceil_div. apply Nat.div_small. lia. Qed.

Lemma ceil_div_succ : forall a s, 0 < s -> 0 < a -> ceil_div a s = S (ceil_div (a - s) s).
Proof.
  intros a s Hs Ha. apply (lt_char_unique (fun j => j * s < a)).
  - intro j. apply ceil_div_lt. exact Hs.
  - intro j. destruct j as [|j].
    + split; intros _; lia.
    + pose proof (ceil_div_lt (a - s) s j Hs) as C. split; intro H.
      * assert (j < ceil_div (a - s) s) by lia. apply C in H0. nia.
      * assert (j * s < a - s) by nia. apply C in H0. lia.
Qed.

(** * Closed form of the repetition windows *)

(** one window of the block, moved to the repetition that starts at [s] and cut at the end
    of the sequence (dropped when nothing is left) *)
Definition shift_clamp (s T : nat) (ab : nat * nat) : list (nat * nat) :=
  let lo := s + fst ab in
  let hi := Nat.min (s + snd ab) T in
  if lo <? hi then [(lo, hi)] else [].

(** repetition [j] starts at [off + j * step], for every [j] with [off + j * step < T - Pb] *)
Definition rep_closed (base : list (nat * nat)) (step T Pb off : nat) : list (nat * nat) :=
  flat_map (fun j => flat_map (shift_clamp (off + j * step) T) base)
           (seq 0 (ceil_div (T - Pb - off) step)).

Lemma flat_map_of_map : forall {A B C} (f : B -> list C) (g : A -> B) l,
  flat_map f (map g l) = flat_map (fun x => f (g x)) l.
Proof. intros A B C f g l. induction l as [|x l IH]; [reflexivity|]. cbn. rewrite IH. reflexivity. Qed.

Lemma rep_windows_closed : forall fuel base step T Pb start,
  0 < step -> T - Pb <= start + fuel ->
  rep_windows fuel base step T Pb start
  = flat_map (fun j => flat_map (shift_clamp (start + j * step) T) base)
             (seq 0 (ceil_div (T - Pb - start) step)).
Proof.
  induction fuel as [|fuel IH]; intros base step T Pb start Hs Hf; cbn [rep_windows].
  - replace (T - Pb - start) with 0 by lia. rewrite ceil_div_0 by exact Hs. reflexivity.
  - destruct (start <? T - Pb) eqn:E.
    + apply Nat.ltb_lt in E. rewrite (ceil_div_succ (T - Pb - start) step Hs) by lia.
      cbn [seq flat_map]. f_equal.
      * rewrite Nat.mul_0_l, Nat.add_0_r. reflexivity.
      * rewrite IH by lia. replace (T - Pb - (start + step)) with (T - Pb - start - step) by lia.
        rewrite <- seq_shift, flat_map_of_map.
        apply flat_map_ext. intro j. replace (start + step + j * step) with (start + S j * step) by lia. reflexivity.
    + apply Nat.ltb_ge in E. replace (T - Pb - start) with 0 by lia. rewrite ceil_div_0 by exact Hs. reflexivity.
Qed.

(** the windows of a constraint of a block of [Tb] trials ([Pb] of them preamble) repeated
    inside a sequence of [T] trials, from the windows [base] it has inside the block *)
Theorem scope_windows_rep_closed : forall inner Tb Pb off T base scale,
  scope_windows inner Tb = Ok (base, scale) -> Pb < Tb ->
  scope_windows (ScRep inner Tb Pb off) T = Ok (rep_closed base (Tb - Pb) T Pb off, scale).
Proof.
  intros inner Tb Pb off T base scale H HP. cbn [scope_windows]. rewrite H. cbn [bind].
  replace (Tb <=? Pb) with false by (symmetry; apply Nat.leb_gt; exact HP).
  rewrite rep_windows_closed by lia. reflexivity.
Qed.

(** ... and [scope_windows] succeeds on a repetition scope only in that way *)
Lemma scope_windows_rep_inv : forall inner Tb Pb off T ws scale,
  scope_windows (ScRep inner Tb Pb off) T = Ok (ws, scale) ->
  exists base, scope_windows inner Tb = Ok (base, scale) /\ Pb < Tb /\
               ws = rep_closed base (Tb - Pb) T Pb off.
Proof.
  intros inner Tb Pb off T ws scale H. cbn [scope_windows] in H. inv_bind H as bs Hb H. destruct bs as [base sc'].
  destruct (Tb <=? Pb) eqn:E; [discriminate|]. apply Nat.leb_gt in E.
  assert (sc' = scale) by congruence. subst sc'. exists base. split; [exact Hb|]. split; [exact E|].
  rewrite rep_windows_closed in H by lia. unfold rep_closed. congruence.
Qed.

Lemma concat_map_singleton : forall {A B} (f : A -> B) l, concat (map (fun x => [f x]) l) = map f l.
Proof. intros A B f l. induction l as [|x l IH]; [reflexivity|]. cbn. rewrite IH. reflexivity. Qed.

Lemma flat_map_singleton_in : forall {A B} (g : A -> list B) (f : A -> B) l,
  (forall x, In x l -> g x = [f x]) -> flat_map g l = map f l.
Proof.
  intros A B g f l H. rewrite flat_map_concat_map. rewrite (map_ext_in g (fun x => [f x]) l H).
  apply concat_map_singleton.
Qed.

(** the repetition windows of a constraint whose scope inside its block is the whole block:
    window [j] is [j*step, min(j*step + Tb, T)), step = Tb - Pb, for every j with j*step < T - Pb *)
Definition rep_window (Tb Pb T j : nat) : nat * nat :=
  (j * (Tb - Pb), Nat.min (j * (Tb - Pb) + Tb) T).

Definition rep_count (Tb Pb T : nat) : nat := ceil_div (T - Pb) (Tb - Pb).

Lemma rep_count_spec : forall Tb Pb T j, Pb < Tb -> (j < rep_count Tb Pb T <-> j * (Tb - Pb) < T - Pb).
Proof. intros Tb Pb T j H. apply ceil_div_lt. lia. Qed.

Theorem rep_closed_whole_block : forall Tb Pb T, Pb < Tb ->
  rep_closed [(0, Tb)] (Tb - Pb) T Pb 0 = map (rep_window Tb Pb T) (seq 0 (rep_count Tb Pb T)).
Proof.
  intros Tb Pb T HP. unfold rep_closed, rep_count. rewrite Nat.sub_0_r.
  apply flat_map_singleton_in. intros j Hj. apply in_seq in Hj.
  assert (L : j * (Tb - Pb) < T - Pb) by (apply (ceil_div_lt (T - Pb) (Tb - Pb) j); lia).
  cbn [flat_map]. rewrite app_nil_r. unfold shift_clamp, rep_window. cbn [fst snd].
  rewrite !Nat.add_0_l, Nat.add_0_r.
  replace (j * (Tb - Pb) <? Nat.min (j * (Tb - Pb) + Tb) T) with true by (symmetry; apply Nat.ltb_lt; lia).
  reflexivity.
Qed.

Theorem scope_windows_rep_none : forall Tb Pb T, Pb < Tb ->
  scope_windows (ScRep ScNone Tb Pb 0) T = Ok (map (rep_window Tb Pb T) (seq 0 (rep_count Tb Pb T)), 1).
Proof.
  intros Tb Pb T HP. rewrite (scope_windows_rep_closed ScNone Tb Pb 0 T [(0, Tb)] 1 eq_refl HP).
  rewrite rep_closed_whole_block by exact HP. reflexivity.
Qed.

(** ** without preamble: the plain partition of [0, T) into chunks of [Tb] trials *)
Definition chunk_window (Tb T j : nat) : nat * nat := (j * Tb, Nat.min ((j + 1) * Tb) T).
Definition chunk_windows (Tb T : nat) : list (nat * nat) := map (chunk_window Tb T) (seq 0 (ceil_div T Tb)).

Theorem rep_windows_no_preamble : forall Tb T,
  map (rep_window Tb 0 T) (seq 0 (rep_count Tb 0 T)) = chunk_windows Tb T.
Proof.
  intros Tb T. unfold chunk_windows, rep_count. rewrite !Nat.sub_0_r. apply map_ext. intro j.
  unfold rep_window, chunk_window. rewrite Nat.sub_0_r. f_equal. f_equal. lia.
Qed.

Lemma chunk_count_spec : forall Tb T j, 0 < Tb -> (j < ceil_div T Tb <-> j * Tb < T).
Proof. intros. apply ceil_div_lt. assumption. Qed.

(** it is a partition: trial [t] lies in window number [t / Tb] and in no other *)
Theorem chunk_windows_partition : forall Tb T j t, 0 < Tb ->
  (fst (chunk_window Tb T j) <= t < snd (chunk_window Tb T j) <-> t < T /\ t / Tb = j).
Proof.
  intros Tb T j t HTb. unfold chunk_window. cbn [fst snd].
  pose proof (Nat.div_mod t Tb ltac:(lia)) as D. pose proof (Nat.mod_upper_bound t Tb ltac:(lia)) as M.
  split.
  - intros [L U]. split; [lia|]. assert (U' : t < (j + 1) * Tb) by lia.
    symmetry. apply (Nat.div_unique t Tb j (t - j * Tb)); lia.
  - intros [L <-]. split; [nia|]. apply Nat.min_glb_lt; [nia|exact L].
Qed.

(** every window of the partition is non-empty, inside the sequence, of [Tb] trials except a shorter last one *)
Theorem chunk_windows_shape : forall Tb T j, 0 < Tb -> j < ceil_div T Tb ->
  fst (chunk_window Tb T j) < snd (chunk_window Tb T j) /\ snd (chunk_window Tb T j) <= T /\
  snd (chunk_window Tb T j) - fst (chunk_window Tb T j) <= Tb /\
  (S j < ceil_div T Tb -> snd (chunk_window Tb T j) - fst (chunk_window Tb T j) = Tb).
Proof.
  intros Tb T j HTb Hj. apply (chunk_count_spec Tb T j HTb) in Hj. unfold chunk_window. cbn [fst snd].
  repeat split; try lia. intro H. apply (chunk_count_spec Tb T (S j) HTb) in H. lia.
Qed.

(** * The scopes [doc_block] gives to constraints *)

(** the constraints of a combined block [b], each now scoped to the repetitions of [b] *)
Definition inherit (b : blockdoc) (off : nat) : list (pcons * scope) :=
  map (fun csc => (fst csc, ScRep (snd csc) (b_T b) (b_P b) off)) (b_constraints b).

(** the constraints of the outer block of a Nest: scaled by the inner trial count [n] *)
Definition inherit_scaled (outer : blockdoc) (n : nat) : list (pcons * scope) :=
  map (fun csc => (fst csc, ScRep (ScScaled (snd csc) n) (b_T outer * n) 0 0)) (b_constraints outer).

Definition maxp_of (bd : blockdoc) : nat := list_max (map (fun c => x_P c * x_su c) (b_crossings bd)).

Lemma merge_constraints : forall inners cs mode al nest bd,
  merge inners cs mode al nest = Ok bd ->
  b_constraints bd
  = flat_map (fun b => inherit b (match al with PostPreamble => maxp_of bd - b_P b | _ => 0 end)) inners
    ++ own_constraints cs.
Proof.
  intros inners cs mode al nest bd H. unfold merge in H. destruct (_ && _); [discriminate|].
  inv_bind H as bd0 Hf H. inversion H; subst; cbn. reflexivity.
Qed.

Lemma maxp_geom : forall cs cs', map geom cs = map geom cs' ->
  list_max (map (fun c => x_P c * x_su c) cs) = list_max (map (fun c => x_P c * x_su c) cs').
Proof.
  intros cs cs' H. f_equal. exact (map_geom_f (fun t => fst (fst t) * snd t) cs cs' H).
Qed.

(** one combined block, alignments checked: the repetitions start at trial 0 *)
Lemma merge_one_constraints : forall inner cs mode al bd, fin inner ->
  merge [inner] cs mode al false = Ok bd ->
  b_constraints bd = inherit inner 0 ++ own_constraints cs.
Proof.
  intros inner cs mode al bd Hfin H.
  rewrite (merge_constraints _ _ _ _ _ _ H). cbn [flat_map]. rewrite app_nil_r. f_equal.
  assert (Hal : alignment_eqb (b_alignment inner) al = true).
  { unfold merge in H. cbn [forallb negb andb] in H. destruct (alignment_eqb (b_alignment inner) al); [reflexivity|].
    cbn in H. discriminate. }
  destruct al; try reflexivity.
  destruct (b_alignment inner) eqn:Ea; try discriminate.
  pose proof (merge_crossings _ _ _ _ _ _ H) as G. cbn [flat_map] in G. rewrite app_nil_r in G.
  unfold maxp_of. rewrite (maxp_geom _ _ G). rewrite (fin_P _ Hfin), Ea. unfold block_P. rewrite Nat.sub_diag. reflexivity.
Qed.

Theorem repeat_constraints : forall p b cs inner bd,
  doc_block p b = Ok inner -> doc_block p (PRepeat b cs) = Ok bd ->
  b_constraints bd = inherit inner 0 ++ own_constraints cs.
Proof.
  intros p b cs inner bd Hb H. cbn [doc_block] in H. rewrite Hb in H. cbn [bind] in H.
  eapply merge_one_constraints; [eapply doc_block_fin; eauto|exact H].
Qed.

Theorem merge1_constraints : forall p b cs mode al inner bd,
  doc_block p b = Ok inner -> doc_block p (PMerge [b] cs mode al) = Ok bd ->
  b_constraints bd = inherit inner 0 ++ own_constraints cs.
Proof.
  intros p b cs mode al inner bd Hb H. cbn [doc_block] in H. rewrite Hb in H. cbn [bind] in H.
  inv_bind H as al' Hal H.
  eapply merge_one_constraints; [eapply doc_block_fin; eauto|exact H].
Qed.

Lemma maxp_zero : forall cs, Forall (fun c => x_P c = 0) cs -> list_max (map (fun c => x_P c * x_su c) cs) = 0.
Proof.
  intros cs H. unfold list_max. induction H as [|c cs Hc _ IH]; [reflexivity|]. cbn [map fold_right]. rewrite Hc, IH. reflexivity.
Qed.

(** Nest (which refuses preambles): the outer constraints are scaled by the inner trial count and
    scoped to the repetitions of the scaled outer block, the inner constraints to the repetitions of
    the inner block, both starting at trial 0 *)
Theorem nest_constraints : forall p o i cs al outer inner bd,
  doc_block p o = Ok outer -> doc_block p i = Ok inner -> doc_block p (PNest o i cs al) = Ok bd ->
  b_P outer = 0 /\ b_P inner = 0 /\
  b_constraints bd = inherit_scaled outer (b_T inner) ++ inherit inner 0 ++ own_constraints cs.
Proof.
  intros p o i cs al outer inner bd Ho Hi H. cbn [doc_block] in H. rewrite Ho, Hi in H. cbn [bind] in H.
  destruct (existsb _ _) eqn:E; [discriminate|].
  assert (Z : Forall (fun c => x_P c = 0) (b_crossings outer ++ b_crossings inner)).
  { apply Forall_forall. intros c Hc. destruct (x_P c =? 0) eqn:Q; [apply Nat.eqb_eq; exact Q|]. exfalso.
    assert (existsb (fun c => negb (x_P c =? 0)) (b_crossings outer ++ b_crossings inner) = true).
    { apply existsb_exists. exists c. split; [exact Hc|rewrite Q; reflexivity]. }
    congruence. }
  apply Forall_app in Z. destruct Z as [Zo Zi].
  assert (Po : b_P outer = 0) by (rewrite (fin_P _ (doc_block_fin _ _ _ Ho)); apply block_P_zero; exact Zo).
  assert (Pi : b_P inner = 0) by (rewrite (fin_P _ (doc_block_fin _ _ _ Hi)); apply block_P_zero; exact Zi).
  split; [exact Po|]. split; [exact Pi|].
  rewrite (merge_constraints _ _ _ _ _ _ H). cbn [flat_map]. rewrite app_nil_r, <- app_assoc.
  assert (M : maxp_of bd = 0).
  { pose proof (merge_crossings _ _ _ _ _ _ H) as G. unfold maxp_of. rewrite (maxp_geom _ _ G).
    apply maxp_zero. cbn [flat_map]. rewrite app_nil_r. apply Forall_app. split; [|exact Zi].
    cbn [scale_outer b_crossings]. apply Forall_forall. intros c Hc. apply in_map_iff in Hc. destruct Hc as [c0 [<- Hc0]].
    cbn. rewrite Forall_forall in Zo. apply Zo. exact Hc0. }
  rewrite M, Pi, Nat.sub_0_r. cbn [Nat.sub].
  assert (O0 : forall a : alignment, match a with PostPreamble => 0 | _ => 0 end = 0) by (intros []; reflexivity).
  f_equal; [|f_equal].
  - unfold inherit, inherit_scaled. cbn [scale_outer b_constraints b_T b_P]. rewrite map_map. apply map_ext. intro csc.
    cbn [fst snd]. rewrite Po. cbn [Nat.mul]. rewrite O0. reflexivity.
  - rewrite O0. reflexivity.
Qed.

(** the constraints of a CrossBlock / MultiCrossBlock have the block itself as scope *)
Theorem cross_scopes_none : forall p b bd,
  match b with PCross _ _ _ _ | PMulti _ _ _ _ _ _ => True | _ => False end ->
  doc_block p b = Ok bd -> Forall (fun csc : pcons * scope => snd csc = ScNone) (b_constraints bd).
Proof.
  intros p b bd Hb H.
  assert (G : forall d crs cs rcc mode al, doc_cross p d crs cs rcc mode al = Ok bd ->
              Forall (fun csc : pcons * scope => snd csc = ScNone) (b_constraints bd)).
  { intros d crs cs rcc mode al X. unfold doc_cross in X. inv_bind X as kinds Hk X. inv_bind X as xs Hxs X.
    inv_bind X as bd0 Hf X. inversion X; subst; cbn. unfold own_constraints. apply Forall_forall. intros x Hx.
    apply in_map_iff in Hx. destruct Hx as [c [<- _]]. reflexivity. }
  destruct b; try contradiction; cbn [doc_block] in H; eapply G; eauto.
Qed.
