(** Property C26 about the documented semantics itself: the scope of a constraint in
    [doc_sem] (Design/DocSem.v).

    A constraint given to a block that is then repeated (Repeat, Merge of one block, the
    inner block of a Nest) applies within each repetition of that block; a constraint given
    to the combinator applies to the whole sequence; the constraints of the outer block of
    a Nest are scaled by the inner trial count.

    - closed form of [rep_windows] / [scope_windows] ([rep_closed]), and for a block without
      preamble the plain partition of [0, T) into chunks of the block's trial count;
    - which scopes [doc_block] gives to the constraints of Repeat / Merge [b] / Nest;
    - how [sem_of_block] turns scopes into the windows of the semantic constraints;
    - the meaning for [Sem.constraint_ok]: a run-length / count constraint whose windows are
      the repetition partition holds iff it holds on each repetition's slice taken alone;
    - the closed form coincides with the one of the code-side model
      [Layout.map_block_trial_ranges] (Design/RangesProofs.v). *)
From Coq Require Import ZArith List Bool Arith Lia.
From SP Require Import Design.Sem Design.Flat Design.DocSem Design.DocSemProofs.
Import ListNotations.
Local Open Scope nat_scope.
Local Open Scope list_scope.

(** * Arithmetic: the number of repetitions *)
Lemma lt_char_unique : forall (P : nat -> Prop) n m,
  (forall j, j < n <-> P j) -> (forall j, j < m <-> P j) -> n = m.
Proof.
  intros P n m Hn Hm. destruct (Nat.lt_trichotomy n m) as [H|[H|H]]; [|exact H|].
  - apply Hm in H. apply Hn in H. lia.
  - apply Hn in H. apply Hm in H. lia.
Qed.

(** [ceil_div a s] is the number of [j] with [j * s < a] *)
Lemma ceil_div_lt : forall a s j, 0 < s -> (j < ceil_div a s <-> j * s < a).
Proof.
  intros a s j Hs. unfold ceil_div. split; intro H.
  - destruct (Nat.lt_ge_cases (j * s) a) as [L|L]; [exact L|]. exfalso.
    assert ((a + s - 1) / s < j + 1) by (apply Nat.div_lt_upper_bound; nia). lia.
  - assert (j + 1 <= (a + s - 1) / s) by (apply Nat.div_le_lower_bound; nia). lia.
Qed.

Lemma ceil_div_0 : forall s, 0 < s -> ceil_div 0 s = 0.
Proof. intros s Hs. unfold ceil_div. apply Nat.div_small. lia. Qed.

Lemma ceil_div_succ : forall a s, 0 < s -> 0 < a -> ceil_div a s = S (ceil_div (a - s) s).
Proof.
  intros a s Hs Ha. apply (lt_char_unique (fun j => j * s < a)).
  - intro j. apply ceil_div_lt. exact Hs.
  - intro j. destruct j as [|j].
    + split; intros _; lia.
    + pose proof (ceil_div_lt (a - s) s j Hs) as C. split; intro H.
      * assert (j < ceil_div (a - s) s) by lia. apply C in H0. nia.
      * assert (j * s < a - s) by nia. apply C in H0. lia.
Qed.

(** * Closed form of the repetition windows *)

(** one window of the block, moved to the repetition that starts at [s] and cut at the end
    of the sequence (dropped when nothing is left) *)
Definition shift_clamp (s T : nat) (ab : nat * nat) : list (nat * nat) :=
  let lo := s + fst ab in
  let hi := Nat.min (s + snd ab) T in
  if lo <? hi then [(lo, hi)] else [].

(** repetition [j] starts at [off + j * step], for every [j] with [off + j * step < T - Pb] *)
Definition rep_closed (base : list (nat * nat)) (step T Pb off : nat) : list (nat * nat) :=
  flat_map (fun j => flat_map (shift_clamp (off + j * step) T) base)
           (seq 0 (ceil_div (T - Pb - off) step)).

Lemma flat_map_of_map : forall {A B C} (f : B -> list C) (g : A -> B) l,
  flat_map f (map g l) = flat_map (fun x => f (g x)) l.
Proof. intros A B C f g l. induction l as [|x l IH]; [reflexivity|]. cbn. rewrite IH. reflexivity. Qed.

Lemma rep_windows_closed : forall fuel base step T Pb start,
  0 < step -> T - Pb <= start + fuel ->
  rep_windows fuel base step T Pb start
  = flat_map (fun j => flat_map (shift_clamp (start + j * step) T) base)
             (seq 0 (ceil_div (T - Pb - start) step)).
Proof.
  induction fuel as [|fuel IH]; intros base step T Pb start Hs Hf; cbn [rep_windows].
  - replace (T - Pb - start) with 0 by lia. rewrite ceil_div_0 by exact Hs. reflexivity.
  - destruct (start <? T - Pb) eqn:E.
    + apply Nat.ltb_lt in E. rewrite (ceil_div_succ (T - Pb - start) step Hs) by lia.
      cbn [seq flat_map]. f_equal.
      * rewrite Nat.mul_0_l, Nat.add_0_r. reflexivity.
      * rewrite IH by lia. replace (T - Pb - (start + step)) with (T - Pb - start - step) by lia.
        rewrite <- seq_shift, flat_map_of_map.
        apply flat_map_ext. intro j. replace (start + step + j * step) with (start + S j * step) by lia. reflexivity.
    + apply Nat.ltb_ge in E. replace (T - Pb - start) with 0 by lia. rewrite ceil_div_0 by exact Hs. reflexivity.
Qed.

(** the windows of a constraint of a block of [Tb] trials ([Pb] of them preamble) repeated
    inside a sequence of [T] trials, from the windows [base] it has inside the block *)
Theorem scope_windows_rep_closed : forall inner Tb Pb off T base scale,
  scope_windows inner Tb = Ok (base, scale) -> Pb < Tb ->
  scope_windows (ScRep inner Tb Pb off) T = Ok (rep_closed base (Tb - Pb) T Pb off, scale).
Proof.
  intros inner Tb Pb off T base scale H HP. cbn [scope_windows]. rewrite H. cbn [bind].
  replace (Tb <=? Pb) with false by (symmetry; apply Nat.leb_gt; exact HP).
  rewrite rep_windows_closed by lia. reflexivity.
Qed.

(** ... and [scope_windows] succeeds on a repetition scope only in that way *)
Lemma scope_windows_rep_inv : forall inner Tb Pb off T ws scale,
  scope_windows (ScRep inner Tb Pb off) T = Ok (ws, scale) ->
  exists base, scope_windows inner Tb = Ok (base, scale) /\ Pb < Tb /\
               ws = rep_closed base (Tb - Pb) T Pb off.
Proof.
  intros inner Tb Pb off T ws scale H. cbn [scope_windows] in H. inv_bind H as bs Hb H. destruct bs as [base sc'].
  destruct (Tb <=? Pb) eqn:E; [discriminate|]. apply Nat.leb_gt in E.
  assert (sc' = scale) by congruence. subst sc'. exists base. split; [exact Hb|]. split; [exact E|].
  rewrite rep_windows_closed in H by lia. unfold rep_closed. congruence.
Qed.

Lemma concat_map_singleton : forall {A B} (f : A -> B) l, concat (map (fun x => [f x]) l) = map f l.
Proof. intros A B f l. induction l as [|x l IH]; [reflexivity|]. cbn. rewrite IH. reflexivity. Qed.

Lemma flat_map_singleton_in : forall {A B} (g : A -> list B) (f : A -> B) l,
  (forall x, In x l -> g x = [f x]) -> flat_map g l = map f l.
Proof.
  intros A B g f l H. rewrite flat_map_concat_map. rewrite (map_ext_in g (fun x => [f x]) l H).
  apply concat_map_singleton.
Qed.

(** the repetition windows of a constraint whose scope inside its block is the whole block:
    window [j] is [j*step, min(j*step + Tb, T)), step = Tb - Pb, for every j with j*step < T - Pb *)
Definition rep_window (Tb Pb T j : nat) : nat * nat :=
  (j * (Tb - Pb), Nat.min (j * (Tb - Pb) + Tb) T).

Definition rep_count (Tb Pb T : nat) : nat := ceil_div (T - Pb) (Tb - Pb).

Lemma rep_count_spec : forall Tb Pb T j, Pb < Tb -> (j < rep_count Tb Pb T <-> j * (Tb - Pb) < T - Pb).
Proof. intros Tb Pb T j H. apply ceil_div_lt. lia. Qed.

Theorem rep_closed_whole_block : forall Tb Pb T, Pb < Tb ->
  rep_closed [(0, Tb)] (Tb - Pb) T Pb 0 = map (rep_window Tb Pb T) (seq 0 (rep_count Tb Pb T)).
Proof.
  intros Tb Pb T HP. unfold rep_closed, rep_count. rewrite Nat.sub_0_r.
  apply flat_map_singleton_in. intros j Hj. apply in_seq in Hj.
  assert (L : j * (Tb - Pb) < T - Pb) by (apply (ceil_div_lt (T - Pb) (Tb - Pb) j); lia).
  cbn [flat_map]. rewrite app_nil_r. unfold shift_clamp, rep_window. cbn [fst snd].
  rewrite !Nat.add_0_l, Nat.add_0_r.
  replace (j * (Tb - Pb) <? Nat.min (j * (Tb - Pb) + Tb) T) with true by (symmetry; apply Nat.ltb_lt; lia).
  reflexivity.
Qed.

Theorem scope_windows_rep_none : forall Tb Pb T, Pb < Tb ->
  scope_windows (ScRep ScNone Tb Pb 0) T = Ok (map (rep_window Tb Pb T) (seq 0 (rep_count Tb Pb T)), 1).
Proof.
  intros Tb Pb T HP. rewrite (scope_windows_rep_closed ScNone Tb Pb 0 T [(0, Tb)] 1 eq_refl HP).
  rewrite rep_closed_whole_block by exact HP. reflexivity.
Qed.

Theorem scope_windows_rep_none_spec : forall Tb Pb T, Pb < Tb ->
  scope_windows (ScRep ScNone Tb Pb 0) T
  = Ok (map (fun j => (j * (Tb - Pb), Nat.min (j * (Tb - Pb) + Tb) T)) (seq 0 (rep_count Tb Pb T)), 1)
  /\ forall j, j < rep_count Tb Pb T <-> j * (Tb - Pb) < T - Pb.
Proof.
  intros Tb Pb T H. split; [exact (scope_windows_rep_none Tb Pb T H)|intro j; exact (rep_count_spec Tb Pb T j H)].
Qed.

(** ** without preamble: the plain partition of [0, T) into chunks of [Tb] trials *)
Definition chunk_window (Tb T j : nat) : nat * nat := (j * Tb, Nat.min ((j + 1) * Tb) T).
Definition chunk_windows (Tb T : nat) : list (nat * nat) := map (chunk_window Tb T) (seq 0 (ceil_div T Tb)).

Theorem rep_windows_no_preamble : forall Tb T,
  map (rep_window Tb 0 T) (seq 0 (rep_count Tb 0 T)) = chunk_windows Tb T.
Proof.
  intros Tb T. unfold chunk_windows, rep_count. rewrite !Nat.sub_0_r. apply map_ext. intro j.
  unfold rep_window, chunk_window. rewrite Nat.sub_0_r. f_equal. f_equal. lia.
Qed.

Lemma chunk_count_spec : forall Tb T j, 0 < Tb -> (j < ceil_div T Tb <-> j * Tb < T).
Proof. intros. apply ceil_div_lt. assumption. Qed.

Theorem scope_windows_chunks_spec : forall Tb T, 0 < Tb ->
  scope_windows (ScRep ScNone Tb 0 0) T
  = Ok (map (fun j => (j * Tb, Nat.min ((j + 1) * Tb) T)) (seq 0 (ceil_div T Tb)), 1)
  /\ forall j, j < ceil_div T Tb <-> j * Tb < T.
Proof.
  intros Tb T H. split; [|intro j; exact (chunk_count_spec Tb T j H)].
  rewrite (scope_windows_rep_none Tb 0 T H), rep_windows_no_preamble. reflexivity.
Qed.

(** it is a partition: trial [t] lies in window number [t / Tb] and in no other *)
Theorem chunk_windows_partition : forall Tb T j t, 0 < Tb ->
  (fst (chunk_window Tb T j) <= t < snd (chunk_window Tb T j) <-> t < T /\ t / Tb = j).
Proof.
  intros Tb T j t HTb. unfold chunk_window. cbn [fst snd].
  pose proof (Nat.div_mod t Tb ltac:(lia)) as D. pose proof (Nat.mod_upper_bound t Tb ltac:(lia)) as M.
  split.
  - intros [L U]. split; [lia|]. assert (U' : t < (j + 1) * Tb) by lia.
    symmetry. apply (Nat.div_unique t Tb j (t - j * Tb)); lia.
  - intros [L <-]. split; [nia|]. apply Nat.min_glb_lt; [nia|exact L].
Qed.

(** every window of the partition is non-empty, inside the sequence, of [Tb] trials except a shorter last one *)
Theorem chunk_windows_shape : forall Tb T j, 0 < Tb -> j < ceil_div T Tb ->
  fst (chunk_window Tb T j) < snd (chunk_window Tb T j) /\ snd (chunk_window Tb T j) <= T /\
  snd (chunk_window Tb T j) - fst (chunk_window Tb T j) <= Tb /\
  (S j < ceil_div T Tb -> snd (chunk_window Tb T j) - fst (chunk_window Tb T j) = Tb).
Proof.
  intros Tb T j HTb Hj. apply (chunk_count_spec Tb T j HTb) in Hj. unfold chunk_window. cbn [fst snd].
  repeat split; try lia. intro H. apply (chunk_count_spec Tb T (S j) HTb) in H. lia.
Qed.

(** * The scopes [doc_block] gives to constraints *)

(** the constraints of a combined block [b], each now scoped to the repetitions of [b] *)
Definition inherit (b : blockdoc) (off : nat) : list (pcons * scope) :=
  map (fun csc => (fst csc, ScRep (snd csc) (b_T b) (b_P b) off)) (b_constraints b).

(** the constraints of the outer block of a Nest: scaled by the inner trial count [n] *)
Definition inherit_scaled (outer : blockdoc) (n : nat) : list (pcons * scope) :=
  map (fun csc => (fst csc, ScRep (ScScaled (snd csc) n) (b_T outer * n) 0 0)) (b_constraints outer).

Definition maxp_of (bd : blockdoc) : nat := list_max (map (fun c => x_P c * x_su c) (b_crossings bd)).

Lemma merge_constraints : forall inners cs mode al nest bd,
  merge inners cs mode al nest = Ok bd ->
  b_constraints bd
  = flat_map (fun b => inherit b (match al with PostPreamble => maxp_of bd - b_P b | _ => 0 end)) inners
    ++ own_constraints cs.
Proof.
  intros inners cs mode al nest bd H. unfold merge in H. destruct (_ && _); [discriminate|].
  inv_bind H as bd0 Hf H. inversion H; subst; cbn. reflexivity.
Qed.

Lemma maxp_geom : forall cs cs', map geom cs = map geom cs' ->
  list_max (map (fun c => x_P c * x_su c) cs) = list_max (map (fun c => x_P c * x_su c) cs').
Proof.
  intros cs cs' H. f_equal. exact (map_geom_f (fun t => fst (fst t) * snd t) cs cs' H).
Qed.

(** one combined block, alignments checked: the repetitions start at trial 0 *)
Lemma merge_one_constraints : forall inner cs mode al bd, fin inner ->
  merge [inner] cs mode al false = Ok bd ->
  b_constraints bd = inherit inner 0 ++ own_constraints cs.
Proof.
  intros inner cs mode al bd Hfin H.
  rewrite (merge_constraints _ _ _ _ _ _ H). cbn [flat_map]. rewrite app_nil_r. f_equal.
  assert (Hal : alignment_eqb (b_alignment inner) al = true).
  { unfold merge in H. cbn [forallb negb andb] in H. destruct (alignment_eqb (b_alignment inner) al); [reflexivity|].
    cbn in H. discriminate. }
  destruct al; try reflexivity.
  destruct (b_alignment inner) eqn:Ea; try discriminate.
  pose proof (merge_crossings _ _ _ _ _ _ H) as G. cbn [flat_map] in G. rewrite app_nil_r in G.
  unfold maxp_of. rewrite (maxp_geom _ _ G). rewrite (fin_P _ Hfin), Ea. unfold block_P. rewrite Nat.sub_diag. reflexivity.
Qed.

Theorem repeat_constraints : forall p b cs inner bd,
  doc_block p b = Ok inner -> doc_block p (PRepeat b cs) = Ok bd ->
  b_constraints bd = inherit inner 0 ++ own_constraints cs.
Proof.
  intros p b cs inner bd Hb H. cbn [doc_block] in H. rewrite Hb in H. cbn [bind] in H.
  eapply merge_one_constraints; [eapply doc_block_fin; eauto|exact H].
Qed.

Theorem merge1_constraints : forall p b cs mode al inner bd,
  doc_block p b = Ok inner -> doc_block p (PMerge [b] cs mode al) = Ok bd ->
  b_constraints bd = inherit inner 0 ++ own_constraints cs.
Proof.
  intros p b cs mode al inner bd Hb H. cbn [doc_block] in H. rewrite Hb in H. cbn [bind] in H.
  inv_bind H as al' Hal H.
  eapply merge_one_constraints; [eapply doc_block_fin; eauto|exact H].
Qed.

Lemma maxp_zero : forall cs, Forall (fun c => x_P c = 0) cs -> list_max (map (fun c => x_P c * x_su c) cs) = 0.
Proof.
  intros cs H. unfold list_max. induction H as [|c cs Hc _ IH]; [reflexivity|]. cbn [map fold_right]. rewrite Hc, IH. reflexivity.
Qed.

(** Nest (which refuses preambles): the outer constraints are scaled by the inner trial count and
    scoped to the repetitions of the scaled outer block, the inner constraints to the repetitions of
    the inner block, both starting at trial 0 *)
Theorem nest_constraints : forall p o i cs al outer inner bd,
  doc_block p o = Ok outer -> doc_block p i = Ok inner -> doc_block p (PNest o i cs al) = Ok bd ->
  b_P outer = 0 /\ b_P inner = 0 /\
  b_constraints bd = inherit_scaled outer (b_T inner) ++ inherit inner 0 ++ own_constraints cs.
Proof.
  intros p o i cs al outer inner bd Ho Hi H. cbn [doc_block] in H. rewrite Ho, Hi in H. cbn [bind] in H.
  destruct (existsb _ _) eqn:E; [discriminate|].
  assert (Z : Forall (fun c => x_P c = 0) (b_crossings outer ++ b_crossings inner)).
  { apply Forall_forall. intros c Hc. destruct (x_P c =? 0) eqn:Q; [apply Nat.eqb_eq; exact Q|]. exfalso.
    assert (existsb (fun c => negb (x_P c =? 0)) (b_crossings outer ++ b_crossings inner) = true).
    { apply existsb_exists. exists c. split; [exact Hc|rewrite Q; reflexivity]. }
    congruence. }
  apply Forall_app in Z. destruct Z as [Zo Zi].
  assert (Po : b_P outer = 0) by (rewrite (fin_P _ (doc_block_fin _ _ _ Ho)); apply block_P_zero; exact Zo).
  assert (Pi : b_P inner = 0) by (rewrite (fin_P _ (doc_block_fin _ _ _ Hi)); apply block_P_zero; exact Zi).
  split; [exact Po|]. split; [exact Pi|].
  rewrite (merge_constraints _ _ _ _ _ _ H). cbn [flat_map]. rewrite app_nil_r, <- app_assoc.
  assert (M : maxp_of bd = 0).
  { pose proof (merge_crossings _ _ _ _ _ _ H) as G. unfold maxp_of. rewrite (maxp_geom _ _ G).
    apply maxp_zero. cbn [flat_map]. rewrite app_nil_r. apply Forall_app. split; [|exact Zi].
    cbn [scale_outer b_crossings]. apply Forall_forall. intros c Hc. apply in_map_iff in Hc. destruct Hc as [c0 [<- Hc0]].
    cbn. rewrite Forall_forall in Zo. apply Zo. exact Hc0. }
  rewrite M, Pi, Nat.sub_0_r. cbn [Nat.sub].
  assert (O0 : forall a : alignment, match a with PostPreamble => 0 | _ => 0 end = 0) by (intros []; reflexivity).
  f_equal; [|f_equal].
  - unfold inherit, inherit_scaled. cbn [scale_outer b_constraints b_T b_P]. rewrite map_map. apply map_ext. intro csc.
    cbn [fst snd]. rewrite Po. cbn [Nat.mul]. rewrite O0. reflexivity.
  - rewrite O0. reflexivity.
Qed.

(** the constraints of a CrossBlock / MultiCrossBlock have the block itself as scope *)
Theorem cross_scopes_none : forall p b bd,
  match b with PCross _ _ _ _ | PMulti _ _ _ _ _ _ => True | _ => False end ->
  doc_block p b = Ok bd -> Forall (fun csc : pcons * scope => snd csc = ScNone) (b_constraints bd).
Proof.
  intros p b bd Hb H.
  assert (G : forall d crs cs rcc mode al, doc_cross p d crs cs rcc mode al = Ok bd ->
              Forall (fun csc : pcons * scope => snd csc = ScNone) (b_constraints bd)).
  { intros d crs cs rcc mode al X. unfold doc_cross in X. inv_bind X as kinds Hk X. inv_bind X as xs Hxs X.
    inv_bind X as bd0 Hf X. inversion X; subst; cbn. unfold own_constraints. apply Forall_forall. intros x Hx.
    apply in_map_iff in Hx. destruct Hx as [c [<- _]]. reflexivity. }
  destruct b; try contradiction; cbn [doc_block] in H; eapply G; eauto.
Qed.

(** * From scopes to the windows of the semantic constraints *)
Lemma Forall2_imp : forall {A B} (R1 R2 : A -> B -> Prop), (forall a b, R1 a b -> R2 a b) ->
  forall l1 l2, Forall2 R1 l1 l2 -> Forall2 R2 l1 l2.
Proof. intros A B R1 R2 H l1 l2 F. induction F; constructor; auto. Qed.

(** the kinds of semantic constraint that carry windows *)
Definition windowed (k : ckind) : bool :=
  match k with
  | KAtMost _ | KAtLeast _ | KExactlyInARow _ | KExactlyK _ | KPin _ _ => true
  | _ => false
  end.

(** what the kind of a semantic constraint keeps of the program constraint it came from
    ([scale]: the trial-group scale of its scope, 1 outside a Nest) *)
Definition src_kind (bd : blockdoc) (c : pcons) (scale : nat) (kk : ckind) : Prop :=
  match c with
  | PKRow kd k _ => kk = krow_kind kd k scale
  | PPin i f _ => kk = KPin i (sustain_get bd f)
  | _ => windowed kk = false
  end.

(** semantic constraint [k] comes from program constraint [fst csc], whose scope [snd csc] inside a
    block of [Tsrc] trials has windows [base] and scale [scale]; in the whole sequence its windows
    are [W base] and its scale [Sc scale] *)
Definition scoped (bd : blockdoc) (Tsrc : nat) (W : list (nat * nat) -> list (nat * nat)) (Sc : nat -> nat)
           (csc : pcons * scope) (k : dconstraint) : Prop :=
  exists base scale,
    scope_windows (snd csc) Tsrc = Ok (base, scale) /\
    src_kind bd (fst csc) (Sc scale) (k_kind k) /\
    k_windows k = if windowed (k_kind k) then W base else [].

(** the whole sequence *)
Definition global_scope (bd : blockdoc) (T : nat) (c : pcons) (k : dconstraint) : Prop :=
  src_kind bd c 1 (k_kind k) /\ k_windows k = if windowed (k_kind k) then [(0, T)] else [].

(** the constraint [doc_sem] adds when a crossing that must be complete cannot be *)
Definition marker (ds : docsem) : list dconstraint :=
  if ds_unsat ds && nonempty (ds_forder ds)
  then [{| k_kind := KExactlyK (ds_T ds + 1); k_factor := 0; k_level := 0; k_windows := [(0, ds_T ds)] |}]
  else [].

Lemma expand_constraint_src : forall p c cs c', expand_constraint p c = Ok cs -> In c' cs ->
  forall bd scale kk, src_kind bd c' scale kk -> src_kind bd c scale kk.
Proof.
  intros p c cs c' H Hin bd scale kk Hs. destruct c as [kd k tg|f n|ix f n|f|fs|n| |kind]; cbn [expand_constraint] in H;
    try (inversion H; subst; destruct Hin as [<-|[]]; exact Hs).
  inv_bind H as u Hu H. destruct tg as [f n|f].
  - inversion H; subst. destruct Hin as [<-|[]]. exact Hs.
  - inv_bind H as fd Hfd H. inv_bind H as ns Hns H. inversion H; subst. apply in_map_iff in Hin.
    destruct Hin as [n [<- _]]. exact Hs.
Qed.

Lemma sem_constraint_scoped : forall p bd forder maxp T c sc ks k,
  sem_constraint p bd forder maxp T c sc = Ok ks -> In k ks ->
  scoped bd T (fun base => base) (fun s => s) (c, sc) k.
Proof.
  intros p bd forder maxp T c sc ks k H Hk. unfold sem_constraint in H.
  inv_bind H as wsc Hws H. destruct wsc as [wins scale]. exists wins, scale. cbn [fst snd]. split; [exact Hws|].
  destruct c as [kd k0 [fid ln|fid]|fid ln|ix fid ln|fid|fids|n| |kind]; try discriminate.
  - inv_bind H as pf Hpf H. inv_bind H as li Hli H. inversion H; subst. destruct Hk as [<-|[]]. cbn.
    split; [reflexivity|]. destruct kd; reflexivity.
  - inv_bind H as pf Hpf H. inv_bind H as li Hli H. inversion H; subst. destruct Hk as [<-|[]]. cbn. split; reflexivity.
  - inv_bind H as pf Hpf H. inv_bind H as li Hli H. inversion H; subst. destruct Hk as [<-|[]]. cbn. split; reflexivity.
  - inv_bind H as pf Hpf H. inversion H; subst. destruct Hk as [<-|[]]. cbn. split; reflexivity.
  - destruct fids as [|f0 [|f1 fr]]; try (inversion H; subst; contradiction).
    inv_bind H as lens Hl H. inv_bind H as main Hm H. inv_bind H as others Ho H. inv_bind H as pm Hpm H.
    inversion H; subst. destruct Hk as [<-|[]]. cbn. split; reflexivity.
  - inversion H; subst. contradiction.
  - inversion H; subst. contradiction.
Qed.

(** the constraints of the semantic normal form, grouped by the program constraint they come from *)
Theorem sem_of_block_constraints : forall p bd ds,
  sem_of_block p bd = Ok ds ->
  exists kss,
    s_constraints (ds_sem ds) = List.concat kss ++ marker ds /\
    Forall2 (fun csc ks => forall k, In k ks -> scoped bd (b_T bd) (fun base => base) (fun s => s) csc k)
            (b_constraints bd) kss.
Proof.
  intros p bd ds H. unfold sem_of_block in H.
  inv_bind H as kinds Hk H. destruct (negb _); [discriminate|].
  inv_bind H as depths Hd H. set (forder := map fst (sort_by _ depths)) in *.
  inv_bind H as factors Hf H. inv_bind H as crossings Hx H. inv_bind H as constraints Hc H.
  inversion H; subst; clear H. exists constraints. split; [reflexivity|].
  apply mapM_ok in Hc. eapply Forall2_imp; [|exact Hc]. cbn beta. intros csc ks Hks k Hin.
  inv_bind Hks as cs Hcs Hks. inv_bind Hks as kss Hkss Hks. inversion Hks; subst.
  apply in_concat in Hin. destruct Hin as [ks' [Hks' Hin]].
  destruct (mapM_in _ _ _ _ Hkss Hks') as [c [Hc' Hsc]].
  destruct (sem_constraint_scoped _ _ _ _ _ _ _ _ _ Hsc Hin) as [base [scale [W1 [W2 W3]]]].
  exists base, scale. cbn [fst snd] in *. split; [exact W1|]. split; [|exact W3].
  eapply expand_constraint_src; eauto.
Qed.

Lemma Forall2_map_l : forall {A B C} (R : B -> C -> Prop) (g : A -> B) l l',
  Forall2 R (map g l) l' -> Forall2 (fun x y => R (g x) y) l l'.
Proof.
  intros A B C R g l. induction l as [|x l IH]; intros l' H; inversion H; subst; constructor; [assumption|].
  apply IH. assumption.
Qed.

(** combinator constraints: one window, the whole sequence *)
Lemma own_global : forall bd T cs kss,
  Forall2 (fun csc ks => forall k, In k ks -> scoped bd T (fun base => base) (fun s => s) csc k) (own_constraints cs) kss ->
  Forall2 (fun c ks => forall k : dconstraint, In k ks -> global_scope bd T c k)
          (filter (fun c => negb (is_min_trials c)) cs) kss.
Proof.
  intros bd T cs kss H. unfold own_constraints in H. apply Forall2_map_l in H.
  eapply Forall2_imp; [|exact H]. cbn beta. intros c ks Hks k Hin.
  destruct (Hks k Hin) as [base [scale [W1 [W2 W3]]]]. cbn [fst snd scope_windows] in *.
  inversion W1; subst. split; assumption.
Qed.

(** inherited constraints: the repetition windows of the block they were given to *)
Lemma inherit_rep : forall bd T inner kss,
  Forall2 (fun csc ks => forall k, In k ks -> scoped bd T (fun base => base) (fun s => s) csc k) (inherit inner 0) kss ->
  Forall2 (fun csc ks => forall k : dconstraint, In k ks ->
             b_P inner < b_T inner /\
             scoped bd (b_T inner) (fun base => rep_closed base (b_T inner - b_P inner) T (b_P inner) 0) (fun s => s) csc k)
          (b_constraints inner) kss.
Proof.
  intros bd T inner kss H. unfold inherit in H. apply Forall2_map_l in H.
  eapply Forall2_imp; [|exact H]. cbn beta. intros csc ks Hks k Hin.
  destruct (Hks k Hin) as [ws [scale [W1 [W2 W3]]]]. cbn [fst snd] in *.
  apply scope_windows_rep_inv in W1. destruct W1 as [base [B1 [B2 B3]]]. split; [exact B2|].
  exists base, scale. split; [exact B1|]. split; [exact W2|]. rewrite W3, B3. reflexivity.
Qed.

(** the windows of a scope inside the outer block, in trials of the nest *)
Definition scale_windows (n : nat) (base : list (nat * nat)) : list (nat * nat) :=
  map (fun ab => (fst ab * n, snd ab * n)) base.

Lemma inherit_scaled_rep : forall bd T outer n kss, 0 < n ->
  Forall2 (fun csc ks => forall k, In k ks -> scoped bd T (fun base => base) (fun s => s) csc k) (inherit_scaled outer n) kss ->
  Forall2 (fun csc ks => forall k : dconstraint, In k ks ->
             0 < b_T outer /\
             scoped bd (b_T outer) (fun base => rep_closed (scale_windows n base) (b_T outer * n) T 0 0) (fun s => s * n) csc k)
          (b_constraints outer) kss.
Proof.
  intros bd T outer n kss Hn H. unfold inherit_scaled in H. apply Forall2_map_l in H.
  eapply Forall2_imp; [|exact H]. cbn beta. intros csc ks Hks k Hin.
  destruct (Hks k Hin) as [ws [scale [W1 [W2 W3]]]]. cbn [fst snd] in *.
  apply scope_windows_rep_inv in W1. destruct W1 as [base' [B1 [B2 B3]]].
  cbn [scope_windows] in B1. rewrite Nat.div_mul in B1 by lia. inv_bind B1 as bs Hbs B1. destruct bs as [base sc0].
  inversion B1; subst. split; [nia|].
  exists base, sc0. split; [exact Hbs|]. split; [exact W2|]. rewrite W3, Nat.sub_0_r. reflexivity.
Qed.

(** ** Repeat and Merge of one block *)
Lemma rep_scope_generic : forall p bd inner cs ds,
  b_constraints bd = inherit inner 0 ++ own_constraints cs -> sem_of_block p bd = Ok ds ->
  exists kss_b kss_c,
    s_constraints (ds_sem ds) = List.concat kss_b ++ List.concat kss_c ++ marker ds /\
    Forall2 (fun csc ks => forall k : dconstraint, In k ks ->
               b_P inner < b_T inner /\
               scoped (ds_block ds) (b_T inner)
                      (fun base => rep_closed base (b_T inner - b_P inner) (ds_T ds) (b_P inner) 0) (fun s => s) csc k)
            (b_constraints inner) kss_b /\
    Forall2 (fun c ks => forall k : dconstraint, In k ks -> global_scope (ds_block ds) (ds_T ds) c k)
            (filter (fun c => negb (is_min_trials c)) cs) kss_c.
Proof.
  intros p bd inner cs ds Hcs H.
  pose proof (sem_of_block_block _ _ _ H) as Hb.
  assert (HT : ds_T ds = b_T bd).
  { unfold sem_of_block in H. inv_bind H as kinds Hk H. destruct (negb _); [discriminate|].
    inv_bind H as depths Hd H. inv_bind H as factors Hf H. inv_bind H as crossings Hx H. inv_bind H as constraints Hc H.
    inversion H; reflexivity. }
  destruct (sem_of_block_constraints _ _ _ H) as [kss [E F]]. rewrite Hcs in F.
  apply Forall2_app_inv_l in F. destruct F as [kss_b [kss_c [Fb [Fc ->]]]].
  exists kss_b, kss_c. rewrite Hb, HT. split; [rewrite E, concat_app, <- app_assoc; reflexivity|].
  split; [apply inherit_rep; exact Fb|apply own_global; exact Fc].
Qed.

Theorem repeat_scope : forall p b cs inner ds,
  doc_block p b = Ok inner -> doc_sem_block p (PRepeat b cs) = Ok ds ->
  exists kss_b kss_c,
    s_constraints (ds_sem ds) = List.concat kss_b ++ List.concat kss_c ++ marker ds /\
    Forall2 (fun csc ks => forall k : dconstraint, In k ks ->
               b_P inner < b_T inner /\
               scoped (ds_block ds) (b_T inner)
                      (fun base => rep_closed base (b_T inner - b_P inner) (ds_T ds) (b_P inner) 0) (fun s => s) csc k)
            (b_constraints inner) kss_b /\
    Forall2 (fun c ks => forall k : dconstraint, In k ks -> global_scope (ds_block ds) (ds_T ds) c k)
            (filter (fun c => negb (is_min_trials c)) cs) kss_c.
Proof.
  intros p b cs inner ds Hb H. unfold doc_sem_block in H. inv_bind H as bd Hbd H.
  eapply rep_scope_generic; [eapply repeat_constraints; eauto|exact H].
Qed.

Theorem merge1_scope : forall p b cs mode al inner ds,
  doc_block p b = Ok inner -> doc_sem_block p (PMerge [b] cs mode al) = Ok ds ->
  exists kss_b kss_c,
    s_constraints (ds_sem ds) = List.concat kss_b ++ List.concat kss_c ++ marker ds /\
    Forall2 (fun csc ks => forall k : dconstraint, In k ks ->
               b_P inner < b_T inner /\
               scoped (ds_block ds) (b_T inner)
                      (fun base => rep_closed base (b_T inner - b_P inner) (ds_T ds) (b_P inner) 0) (fun s => s) csc k)
            (b_constraints inner) kss_b /\
    Forall2 (fun c ks => forall k : dconstraint, In k ks -> global_scope (ds_block ds) (ds_T ds) c k)
            (filter (fun c => negb (is_min_trials c)) cs) kss_c.
Proof.
  intros p b cs mode al inner ds Hb H. unfold doc_sem_block in H. inv_bind H as bd Hbd H.
  eapply rep_scope_generic; [eapply merge1_constraints; eauto|exact H].
Qed.

(** ** Nest *)
Theorem nest_scope : forall p o i cs al outer inner ds,
  doc_block p o = Ok outer -> doc_block p i = Ok inner -> doc_sem_block p (PNest o i cs al) = Ok ds ->
  let n := b_T inner in
  exists kss_o kss_i kss_c,
    s_constraints (ds_sem ds) = List.concat kss_o ++ List.concat kss_i ++ List.concat kss_c ++ marker ds /\
    (* outer constraints: scaled by n, one window group per repetition of the scaled outer block *)
    Forall2 (fun csc ks => forall k : dconstraint, In k ks ->
               scoped (ds_block ds) (b_T outer)
                      (fun base => rep_closed (scale_windows n base) (b_T outer * n) (ds_T ds) 0 0) (fun s => s * n) csc k)
            (b_constraints outer) kss_o /\
    (* inner constraints: within each group of n trials *)
    Forall2 (fun csc ks => forall k : dconstraint, In k ks ->
               scoped (ds_block ds) n (fun base => rep_closed base n (ds_T ds) 0 0) (fun s => s) csc k)
            (b_constraints inner) kss_i /\
    (* constraints of the Nest itself: the whole sequence *)
    Forall2 (fun c ks => forall k : dconstraint, In k ks -> global_scope (ds_block ds) (ds_T ds) c k)
            (filter (fun c => negb (is_min_trials c)) cs) kss_c.
Proof.
  intros p o i cs al outer inner ds Ho Hi H n. unfold doc_sem_block in H. inv_bind H as bd Hbd H.
  destruct (nest_constraints _ _ _ _ _ _ _ _ Ho Hi Hbd) as [Po [Pi Hcs]].
  destruct (doc_block_inv _ _ _ Hi) as [Hn _].
  pose proof (sem_of_block_block _ _ _ H) as Hb.
  assert (HT : ds_T ds = b_T bd).
  { unfold sem_of_block in H. inv_bind H as kinds Hk H. destruct (negb _); [discriminate|].
    inv_bind H as depths Hd H. inv_bind H as factors Hf H. inv_bind H as crossings Hx H. inv_bind H as constraints Hc H.
    inversion H; reflexivity. }
  destruct (sem_of_block_constraints _ _ _ H) as [kss [E F]]. rewrite Hcs in F.
  apply Forall2_app_inv_l in F. destruct F as [kss_o [kss' [Fo [F ->]]]].
  apply Forall2_app_inv_l in F. destruct F as [kss_i [kss_c [Fi [Fc ->]]]].
  exists kss_o, kss_i, kss_c. rewrite Hb, HT.
  split; [rewrite E, !concat_app, <- !app_assoc; reflexivity|].
  split; [|split].
  - apply (inherit_scaled_rep bd (b_T bd) outer n kss_o Hn) in Fo.
    eapply Forall2_imp; [|exact Fo]. cbn beta. intros csc ks Hks k Hin. apply (Hks k Hin).
  - apply inherit_rep in Fi. eapply Forall2_imp; [|exact Fi]. cbn beta. intros csc ks Hks k Hin.
    destruct (Hks k Hin) as [_ S]. rewrite Pi, Nat.sub_0_r in S. exact S.
  - apply own_global. exact Fc.
Qed.

(** ** the usual case: the repeated blocks are CrossBlocks / MultiCrossBlocks
    (their constraints have the block itself as scope) *)

(** [k] comes from [c] and applies within each repetition (of [Tb] trials, [Pb] of them preamble) *)
Definition rep_scope (bd : blockdoc) (Tb Pb T : nat) (c : pcons) (k : dconstraint) : Prop :=
  src_kind bd c 1 (k_kind k) /\
  k_windows k = if windowed (k_kind k) then map (rep_window Tb Pb T) (seq 0 (rep_count Tb Pb T)) else [].

Lemma scoped_none_rep : forall bd Tb Pb T csc k, snd csc = ScNone -> Pb < Tb ->
  scoped bd Tb (fun base => rep_closed base (Tb - Pb) T Pb 0) (fun s => s) csc k ->
  rep_scope bd Tb Pb T (fst csc) k.
Proof.
  intros bd Tb Pb T csc k Hn HP [base [scale [W1 [W2 W3]]]]. rewrite Hn in W1. cbn [scope_windows] in W1.
  inversion W1; subst. split; [exact W2|]. rewrite W3, rep_closed_whole_block by exact HP. reflexivity.
Qed.

Lemma rep_closed_chunks : forall Tb T, 0 < Tb -> rep_closed [(0, Tb)] Tb T 0 0 = chunk_windows Tb T.
Proof.
  intros Tb T H. pose proof (rep_closed_whole_block Tb 0 T H) as X. rewrite Nat.sub_0_r in X. rewrite X.
  apply rep_windows_no_preamble.
Qed.

Definition is_cross (b : pblock) : Prop :=
  match b with PCross _ _ _ _ | PMulti _ _ _ _ _ _ => True | _ => False end.

Theorem repeat_cross_scope : forall p b cs inner ds,
  is_cross b -> doc_block p b = Ok inner -> doc_sem_block p (PRepeat b cs) = Ok ds ->
  exists kss_b kss_c,
    s_constraints (ds_sem ds) = List.concat kss_b ++ List.concat kss_c ++ marker ds /\
    Forall2 (fun csc ks => forall k : dconstraint, In k ks ->
               b_P inner < b_T inner /\ rep_scope (ds_block ds) (b_T inner) (b_P inner) (ds_T ds) (fst csc) k)
            (b_constraints inner) kss_b /\
    Forall2 (fun c ks => forall k : dconstraint, In k ks -> global_scope (ds_block ds) (ds_T ds) c k)
            (filter (fun c => negb (is_min_trials c)) cs) kss_c.
Proof.
  intros p b cs inner ds Hx Hb H. destruct (repeat_scope p b cs inner ds Hb H) as [kss_b [kss_c [E [Fb Fc]]]].
  exists kss_b, kss_c. split; [exact E|]. split; [|exact Fc].
  pose proof (cross_scopes_none p b inner Hx Hb) as N. clear -Fb N.
  induction Fb as [|csc ks l l' Hk _ IH]; constructor.
  - intros k Hin. destruct (Hk k Hin) as [HP S]. split; [exact HP|]. inversion N; subst.
    apply scoped_none_rep; assumption.
  - apply IH. inversion N; assumption.
Qed.

Theorem merge1_cross_scope : forall p b cs mode al inner ds,
  is_cross b -> doc_block p b = Ok inner -> doc_sem_block p (PMerge [b] cs mode al) = Ok ds ->
  exists kss_b kss_c,
    s_constraints (ds_sem ds) = List.concat kss_b ++ List.concat kss_c ++ marker ds /\
    Forall2 (fun csc ks => forall k : dconstraint, In k ks ->
               b_P inner < b_T inner /\ rep_scope (ds_block ds) (b_T inner) (b_P inner) (ds_T ds) (fst csc) k)
            (b_constraints inner) kss_b /\
    Forall2 (fun c ks => forall k : dconstraint, In k ks -> global_scope (ds_block ds) (ds_T ds) c k)
            (filter (fun c => negb (is_min_trials c)) cs) kss_c.
Proof.
  intros p b cs mode al inner ds Hx Hb H.
  destruct (merge1_scope p b cs mode al inner ds Hb H) as [kss_b [kss_c [E [Fb Fc]]]].
  exists kss_b, kss_c. split; [exact E|]. split; [|exact Fc].
  pose proof (cross_scopes_none p b inner Hx Hb) as N. clear -Fb N.
  induction Fb as [|csc ks l l' Hk _ IH]; constructor.
  - intros k Hin. destruct (Hk k Hin) as [HP S]. split; [exact HP|]. inversion N; subst.
    apply scoped_none_rep; assumption.
  - apply IH. inversion N; assumption.
Qed.

(** Nest of two cross blocks: a constraint of the inner block gets one window per group of
    [n] = inner trial count trials; a constraint of the outer block keeps, in trials of the nest, the
    window of each repetition of the outer block ([To * n] trials) and its count is scaled by [n]
    ([ExactlyK k] becomes [k * n]; a [Pin] carries the constrained factor's sustain count) *)
Definition nest_outer_scope (bd : blockdoc) (To n T : nat) (c : pcons) (k : dconstraint) : Prop :=
  src_kind bd c n (k_kind k) /\
  k_windows k = if windowed (k_kind k) then chunk_windows (To * n) T else [].

Definition nest_inner_scope (bd : blockdoc) (n T : nat) (c : pcons) (k : dconstraint) : Prop :=
  src_kind bd c 1 (k_kind k) /\
  k_windows k = if windowed (k_kind k) then chunk_windows n T else [].

Theorem nest_cross_scope : forall p o i cs al outer inner ds,
  is_cross o -> is_cross i ->
  doc_block p o = Ok outer -> doc_block p i = Ok inner -> doc_sem_block p (PNest o i cs al) = Ok ds ->
  let n := b_T inner in
  exists kss_o kss_i kss_c,
    s_constraints (ds_sem ds) = List.concat kss_o ++ List.concat kss_i ++ List.concat kss_c ++ marker ds /\
    Forall2 (fun csc ks => forall k : dconstraint, In k ks -> nest_outer_scope (ds_block ds) (b_T outer) n (ds_T ds) (fst csc) k)
            (b_constraints outer) kss_o /\
    Forall2 (fun csc ks => forall k : dconstraint, In k ks -> nest_inner_scope (ds_block ds) n (ds_T ds) (fst csc) k)
            (b_constraints inner) kss_i /\
    Forall2 (fun c ks => forall k : dconstraint, In k ks -> global_scope (ds_block ds) (ds_T ds) c k)
            (filter (fun c => negb (is_min_trials c)) cs) kss_c.
Proof.
  intros p o i cs al outer inner ds Xo Xi Ho Hi H n.
  destruct (nest_scope p o i cs al outer inner ds Ho Hi H) as [kss_o [kss_i [kss_c [E [Fo [Fi Fc]]]]]].
  fold n in Fo, Fi.
  destruct (doc_block_inv _ _ _ Hi) as [Hn _]. fold n in Hn. destruct (doc_block_inv _ _ _ Ho) as [HTo _].
  exists kss_o, kss_i, kss_c. split; [exact E|]. split; [|split; [|exact Fc]].
  - pose proof (cross_scopes_none p o outer Xo Ho) as N. clear -Fo N Hn HTo.
    induction Fo as [|csc ks l l' Hk _ IH]; constructor.
    + intros k Hin. destruct (Hk k Hin) as [base [scale [W1 [W2 W3]]]]. inversion N as [|x y Hx Hy]; subst.
      rewrite Hx in W1. cbn [scope_windows] in W1. inversion W1; subst. split.
      * rewrite Nat.mul_1_l in W2. exact W2.
      * rewrite W3. unfold scale_windows. cbn [map fst snd]. rewrite Nat.mul_0_l.
        rewrite rep_closed_chunks by nia. reflexivity.
    + apply IH. inversion N; assumption.
  - pose proof (cross_scopes_none p i inner Xi Hi) as N. clear -Fi N Hn.
    induction Fi as [|csc ks l l' Hk _ IH]; constructor.
    + intros k Hin. destruct (Hk k Hin) as [base [scale [W1 [W2 W3]]]]. inversion N as [|x y Hx Hy]; subst.
      rewrite Hx in W1. cbn [scope_windows] in W1. inversion W1; subst. split; [exact W2|].
      rewrite W3, rep_closed_chunks by exact Hn. reflexivity.
    + apply IH. inversion N; assumption.
Qed.

(** * What the windows mean: a constraint applies separately within each window *)
Definition row_kind (k : ckind) : bool :=
  match k with KAtMost _ | KAtLeast _ | KExactlyInARow _ | KExactlyK _ => true | _ => false end.

Definition set_windows (c : dconstraint) (ws : list (nat * nat)) : dconstraint :=
  {| k_kind := k_kind c; k_factor := k_factor c; k_level := k_level c; k_windows := ws |}.

(** the trials [a, b) of a sequence, taken alone *)
Definition slice_seq (s : tseq) (a b : nat) : tseq := map (fun row => slice row a b) s.

Lemma slice_nil : forall {A} a b, slice (@nil A) a b = [].
Proof. intros A a b. unfold slice. rewrite skipn_nil. apply firstn_nil. Qed.

Lemma nth_slice_seq : forall s f a b, nth f (slice_seq s a b) [] = slice (nth f s []) a b.
Proof.
  intros s f a b. unfold slice_seq. rewrite <- (slice_nil (A := cell) a b) at 1.
  apply (map_nth (fun row => slice row a b)).
Qed.

Lemma slice_slice_whole : forall {A} (row : list A) a b Tb, b - a <= Tb -> slice (slice row a b) 0 Tb = slice row a b.
Proof.
  intros A row a b Tb H. unfold slice. rewrite Nat.sub_0_r. cbn [skipn]. rewrite firstn_firstn.
  rewrite (Nat.min_r Tb (b - a) H). reflexivity.
Qed.

Lemma forallb_ext_in : forall {A} (f g : A -> bool) l, (forall x, In x l -> f x = g x) -> forallb f l = forallb g l.
Proof.
  intros A f g l H. induction l as [|x l IH]; [reflexivity|]. cbn. rewrite (H x (or_introl eq_refl)). f_equal.
  apply IH. intros y Hy. apply H. right. exact Hy.
Qed.

(** a run-length or count constraint holds on the sequence iff, for each of its windows, it holds
    on the trials of that window taken alone (as a sequence of at most [Tb] trials with the single
    window [0, Tb)) *)
Theorem constraint_ok_per_window : forall S S' s c Tb,
  row_kind (k_kind c) = true ->
  (forall w, In w (k_windows c) -> snd w - fst w <= Tb) ->
  constraint_ok S s c
  = forallb (fun w => constraint_ok S' (slice_seq s (fst w) (snd w)) (set_windows c [(0, Tb)])) (k_windows c).
Proof.
  intros S S' s c Tb Hk Hw. unfold constraint_ok. cbn [set_windows k_kind k_factor k_level k_windows].
  destruct (k_kind c); try discriminate; apply forallb_ext_in; intros w Hin; cbn [forallb fst snd];
    rewrite andb_true_r, nth_slice_seq, (slice_slice_whole _ _ _ Tb (Hw w Hin)); reflexivity.
Qed.

Corollary constraint_ok_per_window_iff : forall S S' s c Tb,
  row_kind (k_kind c) = true ->
  (forall w, In w (k_windows c) -> snd w - fst w <= Tb) ->
  (constraint_ok S s c = true <->
   forall w, In w (k_windows c) -> constraint_ok S' (slice_seq s (fst w) (snd w)) (set_windows c [(0, Tb)]) = true).
Proof.
  intros S S' s c Tb Hk Hw. rewrite (constraint_ok_per_window S S' s c Tb Hk Hw). apply forallb_forall.
Qed.

(** the repetition windows (with preamble: each window includes the preamble trials before the repetition) *)
Theorem constraint_ok_per_repetition : forall S S' s c Tb Pb T,
  row_kind (k_kind c) = true ->
  k_windows c = map (rep_window Tb Pb T) (seq 0 (rep_count Tb Pb T)) ->
  (constraint_ok S s c = true <->
   forall j, j < rep_count Tb Pb T ->
     constraint_ok S' (slice_seq s (j * (Tb - Pb)) (Nat.min (j * (Tb - Pb) + Tb) T)) (set_windows c [(0, Tb)]) = true).
Proof.
  intros S S' s c Tb Pb T Hk Hw.
  rewrite (constraint_ok_per_window_iff S S' s c Tb Hk).
  - rewrite Hw. split.
    + intros H j Hj. apply (H (rep_window Tb Pb T j)). apply in_map. apply in_seq. lia.
    + intros H w Hin. apply in_map_iff in Hin. destruct Hin as [j [<- Hj]]. apply in_seq in Hj. apply H. lia.
  - rewrite Hw. intros w Hin. apply in_map_iff in Hin. destruct Hin as [j [<- _]]. unfold rep_window. cbn [fst snd]. lia.
Qed.

(** without preamble: the sequence is cut into consecutive chunks of [Tb] trials (the last one may be
    shorter) and the constraint holds iff it holds on every chunk taken alone *)
Theorem constraint_ok_per_chunk : forall S S' s c Tb T,
  row_kind (k_kind c) = true ->
  k_windows c = chunk_windows Tb T ->
  (constraint_ok S s c = true <->
   forall j, j < ceil_div T Tb ->
     constraint_ok S' (slice_seq s (j * Tb) (Nat.min ((j + 1) * Tb) T)) (set_windows c [(0, Tb)]) = true).
Proof.
  intros S S' s c Tb T Hk Hw.
  rewrite (constraint_ok_per_window_iff S S' s c Tb Hk).
  - rewrite Hw. unfold chunk_windows. split.
    + intros H j Hj. apply (H (chunk_window Tb T j)). apply in_map. apply in_seq. lia.
    + intros H w Hin. apply in_map_iff in Hin. destruct Hin as [j [<- Hj]]. apply in_seq in Hj. apply H. lia.
  - rewrite Hw. intros w Hin. apply in_map_iff in Hin. destruct Hin as [j [<- _]]. unfold chunk_window. cbn [fst snd]. lia.
Qed.

(** a combinator constraint, with the single window [0, T), sees the whole rows *)
Theorem constraint_ok_global : forall S s c T,
  row_kind (k_kind c) = true -> k_windows c = [(0, T)] -> List.length (nth (k_factor c) s []) <= T ->
  constraint_ok S s c = constraint_ok S (slice_seq s 0 T) c /\
  slice (nth (k_factor c) s []) 0 T = nth (k_factor c) s [].
Proof.
  intros S s c T Hk Hw Hl.
  assert (E : slice (nth (k_factor c) s []) 0 T = nth (k_factor c) s []).
  { unfold slice. rewrite Nat.sub_0_r. cbn [skipn]. apply firstn_all2. exact Hl. }
  split; [|exact E]. unfold constraint_ok. rewrite Hw, nth_slice_seq, E.
  destruct (k_kind c); try discriminate; reflexivity.
Qed.

(** * When the trial count is a whole number of repetitions *)
Lemma ceil_div_mul : forall m n, 0 < n -> ceil_div (m * n) n = m.
Proof.
  intros m n Hn. symmetry. apply (lt_char_unique (fun j => j * n < m * n)).
  - intro j. split; intro H; nia.
  - intro j. apply ceil_div_lt. exact Hn.
Qed.

(** [m] whole repetitions of [n] trials: the windows [j*n, (j+1)*n), j < m *)
Theorem chunk_windows_exact : forall m n, 0 < n ->
  chunk_windows n (m * n) = map (fun j => (j * n, (j + 1) * n)) (seq 0 m).
Proof.
  intros m n Hn. unfold chunk_windows. rewrite ceil_div_mul by exact Hn. apply map_ext_in. intros j Hj.
  apply in_seq in Hj. unfold chunk_window. f_equal. apply Nat.min_l. nia.
Qed.

(** one repetition: the whole sequence *)
Theorem chunk_windows_one : forall T, 0 < T -> chunk_windows T T = [(0, T)].
Proof.
  intros T HT. pose proof (chunk_windows_exact 1 T HT) as X. rewrite Nat.mul_1_l in X. rewrite X. cbn.
  rewrite Nat.add_0_r. reflexivity.
Qed.

(** * Merge of several blocks
    every constraint of each merged block applies within the repetitions of that block; under
    POST_PREAMBLE the repetitions of a block with a shorter preamble start later ([merge_off]) *)
Definition merge_off (bd inner : blockdoc) : nat :=
  match b_alignment bd with PostPreamble => maxp_of bd - b_P inner | _ => 0 end.

Lemma merge_alignment : forall inners cs mode al nest bd, merge inners cs mode al nest = Ok bd -> b_alignment bd = al.
Proof.
  intros inners cs mode al nest bd H. unfold merge in H. destruct (_ && _); [discriminate|]. inv_bind H as bd0 Hf H.
  apply finish_T_eq in Hf. cbn in Hf. inversion H; subst; cbn. apply Hf.
Qed.

Lemma inherit_rep_off : forall bd T inner off kss,
  Forall2 (fun csc ks => forall k, In k ks -> scoped bd T (fun base => base) (fun s => s) csc k) (inherit inner off) kss ->
  Forall2 (fun csc ks => forall k : dconstraint, In k ks ->
             b_P inner < b_T inner /\
             scoped bd (b_T inner) (fun base => rep_closed base (b_T inner - b_P inner) T (b_P inner) off) (fun s => s) csc k)
          (b_constraints inner) kss.
Proof.
  intros bd T inner off kss H. unfold inherit in H. apply Forall2_map_l in H.
  eapply Forall2_imp; [|exact H]. cbn beta. intros csc ks Hks k Hin.
  destruct (Hks k Hin) as [ws [scale [W1 [W2 W3]]]]. cbn [fst snd] in *.
  apply scope_windows_rep_inv in W1. destruct W1 as [base [B1 [B2 B3]]]. split; [exact B2|].
  exists base, scale. split; [exact B1|]. split; [exact W2|]. rewrite W3, B3. reflexivity.
Qed.

Lemma Forall2_flat_map_l : forall {A B C} (R : B -> C -> Prop) (g : A -> list B) l kss,
  Forall2 R (flat_map g l) kss ->
  exists ksss, kss = List.concat ksss /\ Forall2 (fun x ks' => Forall2 R (g x) ks') l ksss.
Proof.
  intros A B C R g l. induction l as [|x l IH]; intros kss H; cbn [flat_map] in H.
  - inversion H; subst. exists []. split; [reflexivity|constructor].
  - apply Forall2_app_inv_l in H. destruct H as [k1 [k2 [H1 [H2 ->]]]]. destruct (IH k2 H2) as [ksss [-> F]].
    exists (k1 :: ksss). split; [reflexivity|]. constructor; assumption.
Qed.

Theorem merge_scope : forall p bs cs mode al ds,
  doc_sem_block p (PMerge bs cs mode al) = Ok ds ->
  exists inners ksss kss_c,
    Forall2 (fun b bd => doc_block p b = Ok bd) bs inners /\
    s_constraints (ds_sem ds) = List.concat (List.concat ksss) ++ List.concat kss_c ++ marker ds /\
    Forall2 (fun inner kss =>
               Forall2 (fun csc ks => forall k : dconstraint, In k ks ->
                          b_P inner < b_T inner /\
                          scoped (ds_block ds) (b_T inner)
                                 (fun base => rep_closed base (b_T inner - b_P inner) (ds_T ds) (b_P inner)
                                                         (merge_off (ds_block ds) inner))
                                 (fun s => s) csc k)
                       (b_constraints inner) kss)
            inners ksss /\
    Forall2 (fun c ks => forall k : dconstraint, In k ks -> global_scope (ds_block ds) (ds_T ds) c k)
            (filter (fun c => negb (is_min_trials c)) cs) kss_c.
Proof.
  intros p bs cs mode al ds H. unfold doc_sem_block in H. inv_bind H as bd Hbd H.
  cbn [doc_block] in Hbd. inv_bind Hbd as inners Hi Hbd. inv_bind Hbd as al' Hal Hbd. apply go_ok in Hi.
  pose proof (merge_constraints _ _ _ _ _ _ Hbd) as Hcs. pose proof (merge_alignment _ _ _ _ _ _ Hbd) as Ha.
  pose proof (sem_of_block_block _ _ _ H) as Hb.
  assert (HT : ds_T ds = b_T bd).
  { unfold sem_of_block in H. inv_bind H as kinds Hk H. destruct (negb _); [discriminate|].
    inv_bind H as depths Hd H. inv_bind H as factors Hf H. inv_bind H as crossings Hx H. inv_bind H as constraints Hc H.
    inversion H; reflexivity. }
  destruct (sem_of_block_constraints _ _ _ H) as [kss [E F]]. rewrite Hcs in F.
  apply Forall2_app_inv_l in F. destruct F as [kss_b [kss_c [Fb [Fc ->]]]].
  apply Forall2_flat_map_l in Fb. destruct Fb as [ksss [-> Fb]].
  exists inners, ksss, kss_c. rewrite Hb, HT. split; [exact Hi|].
  split; [rewrite E, concat_app, <- app_assoc; reflexivity|].
  split; [|apply own_global; exact Fc].
  eapply Forall2_imp; [|exact Fb]. cbn beta. intros inner kss Hk. apply inherit_rep_off.
  unfold merge_off. rewrite Ha. exact Hk.
Qed.
