(** Example programs for Properties/C26.v (the scope statements about [doc_sem]). *)
From Coq Require Import List String.
From SP Require Import Design.Sem Design.DocSem.
Import ListNotations.
Local Open Scope string_scope.

Definition exd_f := {| pf_id := 0; pf_name := "f"; pf_kind := FSimple [("a", 1); ("b", 1)] |}.
Definition exd_g := {| pf_id := 1; pf_name := "g"; pf_kind := FSimple [("x", 1); ("y", 1); ("z", 1)] |}.
(** t = Transition on f: "same" / "diff" (else) *)
Definition exd_t :=
  {| pf_id := 2; pf_name := "t";
     pf_kind := FDerived {| pw_type := WTransition; pw_deps := [0] |}
                  [ {| dl_name := "same"; dl_weight := 1; dl_else := false;
                       dl_table := [ [[Some "a"; Some "a"]]; [[Some "b"; Some "b"]] ] |};
                    {| dl_name := "diff"; dl_weight := 1; dl_else := true; dl_table := [] |} ] |}.

(** CrossBlock([f], [f], [AtMostKInARow(1, (f, "a"))]): 2 trials *)
Definition exd_cross := PCross [0] [0] [PKRow RAtMost 1 (TLevel 0 "a")] false.
(** Repeat(that, [MinimumTrials(5), AtMostKInARow(2, (f, "b"))]) *)
Definition exd_repeat : program :=
  {| p_factors := [exd_f];
     p_main := PRepeat exd_cross [PMinimumTrials 5; PKRow RAtMost 2 (TLevel 0 "b")] |}.
(** Merge([that], [MinimumTrials(5), AtMostKInARow(2, (f, "b"))], REPEAT) *)
Definition exd_merge : program :=
  {| p_factors := [exd_f];
     p_main := PMerge [exd_cross] [PMinimumTrials 5; PKRow RAtMost 2 (TLevel 0 "b")] DRepeat None |}.

(** CrossBlock([f, t], [t], [AtMostKInARow(1, (t, "same"))]): 3 trials, the first one preamble *)
Definition exd_pre_cross := PCross [0; 2] [2] [PKRow RAtMost 1 (TLevel 2 "same")] false.
Definition exd_pre : program :=
  {| p_factors := [exd_f; exd_t]; p_main := PRepeat exd_pre_cross [PMinimumTrials 5] |}.

(** Nest(CrossBlock([f], [f], [ExactlyK(1, (f, "a"))]), CrossBlock([g], [g], [AtMostKInARow(1, (g, "x"))]),
         [AtMostKInARow(2, (g, "y"))]) *)
Definition exd_outer := PCross [0] [0] [PKRow RExactlyK 1 (TLevel 0 "a")] false.
Definition exd_inner := PCross [1] [1] [PKRow RAtMost 1 (TLevel 1 "x")] false.
Definition exd_nest : program :=
  {| p_factors := [exd_f; exd_g];
     p_main := PNest exd_outer exd_inner [PKRow RAtMost 2 (TLevel 1 "y")] None |}.

(** Merge([CrossBlock([f], [f], [AtMostKInARow(1, (f, "a"))]), CrossBlock([g], [g], [AtMostKInARow(1, (g, "x"))])],
          [MinimumTrials(6)], REPEAT) *)
Definition exd_merge2 : program :=
  {| p_factors := [exd_f; exd_g];
     p_main := PMerge [exd_cross; exd_inner] [PMinimumTrials 6] DRepeat None |}.

(** kind, level and windows of the constraints of the semantic normal form *)
Definition sem_constraints_of (p : program) : list (ckind * nat * list (nat * nat)) :=
  match doc_sem p with
  | Ok ds => map (fun k => (k_kind k, k_level k, k_windows k)) (s_constraints (ds_sem ds))
  | _ => []
  end.

(** trial count and preamble of a block, trial count of the program *)
Definition sizes_of (p : program) (b : pblock) : option (nat * nat * nat) :=
  match doc_block p b, doc_sem p with
  | Ok bd, Ok ds => Some (b_T bd, b_P bd, ds_T ds)
  | _, _ => None
  end.
