(** Property C26, documentation side = code side: the windows the documented semantics
    ([DocSem.scope_windows], Design/DocSemScope.v) gives to a constraint of a repeated block are
    literally the trial ranges the model of the code ([Layout.map_block_trial_ranges],
    Design/RangesProofs.v) computes for a constraint carrying that block's geometry. *)
From Coq Require Import List Arith Lia.
From SP Require Import Design.Flat Design.Layout Design.RangesProofs.
From SP Require Import Design.DocSem Design.DocSemScope.
Import ListNotations.

(** a constraint given to a block of [g_trials g] trials, [g_preamble g] of them preamble, inside a
    sequence of [fl_trials fb] trials (alignment other than POST_PREAMBLE, where the code shifts the
    start of the windows and not their end) *)
Theorem doc_scope_eq_code_ranges : forall (fb : flat) (g : geometry),
  g_preamble g < g_trials g ->
  fl_alignment fb <> PostPreamble ->
  exists ws,
    scope_windows (ScRep ScNone (g_trials g) (g_preamble g) 0) (fl_trials fb) = Ok (ws, 1) /\
    map_block_trial_ranges fb (Some g) = Some ws /\
    ws = map (rep_window (g_trials g) (g_preamble g) (fl_trials fb))
             (seq 0 (rep_count (g_trials g) (g_preamble g) (fl_trials fb))).
Proof.
  intros fb g HP Hal. eexists. split; [apply scope_windows_rep_none; exact HP|]. split; [|reflexivity].
  destruct (ranges_spec fb g HP Hal) as [n [E Hn]]. rewrite E. f_equal.
  assert (N : n = rep_count (g_trials g) (g_preamble g) (fl_trials fb)).
  { apply (lt_char_unique (fun j => j * (g_trials g - g_preamble g) < fl_trials fb - g_preamble g)).
    - exact Hn.
    - intro j. apply rep_count_spec. exact HP. }
  rewrite N. apply map_ext. intro j. reflexivity.
Qed.

(** a constraint given to the outermost combinator: the whole sequence on both sides *)
Theorem doc_scope_eq_code_ranges_none : forall fb : flat,
  0 < fl_trials fb ->
  scope_windows ScNone (fl_trials fb) = Ok ([(0, fl_trials fb)], 1) /\
  map_block_trial_ranges fb None = Some [(0, fl_trials fb)].
Proof. intros fb H. split; [reflexivity|apply ranges_none; exact H]. Qed.
