(** More well-formedness of the semantic normal form [doc_sem] produces:
    a derived factor is listed after the factors it depends on ([Sem.all_valid] fills the
    rows in list order); the combinations of a crossing have one in-range level per crossed factor. *)
From Coq Require Import ZArith List Bool Arith Lia String Sorted.
From SP Require Import Design.Sem Design.Flat Design.DocSem Design.DocSemProofs Design.DocSemPlain.
Import ListNotations.
Local Open Scope nat_scope.
Local Open Scope list_scope.

(** * insertion sort by a numeric key is sorted *)
Section SortKey.
Variable A : Type.
Variable key : A -> nat.
Let leb (a b : A) : bool := key a <=? key b.
Let le (a b : A) : Prop := key a <= key b.

Lemma insert_sorted : forall x l, StronglySorted le l -> StronglySorted le (insert_by leb x l).
Proof.
  intros x l H. induction H as [|y l Hl IH Hy]; cbn; [constructor; constructor|].
  unfold leb at 1. destruct (Nat.leb_spec (key y) (key x)) as [Hle|Hlt].
  - constructor; [exact IH|]. apply Forall_forall. intros z Hz. apply in_insert_by in Hz. destruct Hz as [->|Hz]; [exact Hle|].
    rewrite Forall_forall in Hy. apply Hy. exact Hz.
  - constructor; [constructor; assumption|]. constructor; [unfold le; lia|]. rewrite Forall_forall in Hy |- *.
    intros z Hz. specialize (Hy z Hz). unfold le in *. lia.
Qed.

Lemma sort_by_sorted : forall l, StronglySorted le (sort_by leb l).
Proof.
  intro l. unfold sort_by.
  assert (G : forall acc, StronglySorted le acc -> StronglySorted le (fold_left (fun acc x => insert_by leb x acc) l acc)).
  { induction l as [|x l IH]; intros acc H; cbn [fold_left]; [exact H|]. apply IH. apply insert_sorted. exact H. }
  apply G. constructor.
Qed.

Lemma sorted_nth : forall l d a b, StronglySorted le l -> a < b -> b < List.length l -> key (nth a l d) <= key (nth b l d).
Proof.
  intros l d a b H. revert a b. induction H as [|y l Hl IH Hy]; intros a b Hab Hb; [cbn in Hb; lia|].
  destruct b as [|b]; [lia|]. cbn in Hb. destruct a as [|a]; cbn.
  - rewrite Forall_forall in Hy. apply Hy. apply nth_In. lia.
  - apply IH; lia.
Qed.
End SortKey.

(** * depth *)
Lemma mapM_impl : forall {A B} (f g : A -> res B) l ys, (forall x y, In x l -> f x = Ok y -> g x = Ok y) -> mapM f l = Ok ys -> mapM g l = Ok ys.
Proof.
  intros A B f g l. induction l as [|x l IH]; intros ys H Hm; [exact Hm|]. cbn in Hm |- *.
  inv_bind Hm as y Hy Hm. inv_bind Hm as ys' Hys Hm. rewrite (H x y (or_introl eq_refl) Hy). cbn.
  rewrite (IH ys' (fun a b Ha => H a b (or_intror Ha)) Hys). exact Hm.
Qed.

Lemma depth_unfold : forall p n f,
  depth p (S n) f =
  (fd <- fm p f ;;
   match pf_kind fd with
   | FDerived w _ => ds <- mapM (depth p n) (pw_deps w) ;;
                     match ds with [] => Crash "ValueError: max of empty" | _ => Ok (1 + list_max ds) end
   | _ => Ok 0
   end).
Proof. reflexivity. Qed.

Lemma depth_mono : forall p n f d, depth p n f = Ok d -> depth p (S n) f = Ok d.
Proof.
  intros p n. induction n as [|n IH]; intros f d H; [discriminate|]. rewrite depth_unfold in H. rewrite (depth_unfold p (S n)).
  destruct (fm p f) as [fd| |]; cbn [bind] in *; try discriminate. destruct (pf_kind fd) as [|w levels|]; try exact H.
  inv_bind H as ds Hds H. rewrite (mapM_impl _ (depth p (S n)) _ ds (fun x y _ => IH x y) Hds). exact H.
Qed.

Lemma depth_deps : forall p n f fd w levels df, fm p f = Ok fd -> pf_kind fd = FDerived w levels ->
  depth p (S n) f = Ok df -> forall d, In d (pw_deps w) -> exists dd, depth p n d = Ok dd /\ dd < df.
Proof.
  intros p n f fd w levels df Hfm Hk H d Hd. rewrite depth_unfold in H. rewrite Hfm in H. cbn [bind] in H. rewrite Hk in H.
  inv_bind H as ds Hds H. destruct ds as [|x ds]; [discriminate|]. assert (Edf : df = 1 + list_max (x :: ds)) by congruence. subst df. clear H.
  apply mapM_ok in Hds. revert Hd. revert Hds. generalize (x :: ds). generalize (pw_deps w). intros l0 ys0 Hds Hd.
  induction Hds as [|a b l ys Hab _ IH]; [contradiction|]. destruct Hd as [->|Hd].
  - exists b. split; [exact Hab|]. rewrite list_max_cons. lia.
  - destruct (IH Hd) as [dd [E1 E2]]. exists dd. split; [exact E1|]. rewrite list_max_cons. lia.
Qed.

Lemma window_params_deps : forall p fd deps width stride start, window_params p fd = Ok (deps, width, stride, start) ->
  exists w levels, pf_kind fd = FDerived w levels /\ deps = pw_deps w.
Proof.
  intros p fd deps width stride start H. unfold window_params, fuel0 in H. cbn [wp_cx fst] in H.
  destruct (pf_kind fd) as [|w levels|]; try discriminate. exists w, levels. split; [reflexivity|].
  destruct (pw_type w) as [| |wd st sa]; inv_bind H as dflt Hd H; inversion H; reflexivity.
Qed.

(** * a derived factor is listed after its dependencies *)
Theorem sem_of_block_deps_before : forall p bd ds, sem_of_block p bd = Ok ds ->
  forall i fd w, nth_error (s_factors (ds_sem ds)) i = Some fd -> f_derived fd = Some w ->
  forall pd, In pd (w_deps w) -> pd < i.
Proof.
  intros p bd ds H i fd w Hi Hw pd Hpd. unfold sem_of_block in H.
  inv_bind H as kinds Hk H. destruct (negb _); [discriminate|].
  inv_bind H as depths Hd H. set (sorted := sort_by (fun a b : nat * nat => snd a <=? snd b) depths) in *.
  set (forder := map fst sorted) in *.
  inv_bind H as factors Hf H. inv_bind H as crossings Hx H. inv_bind H as constraints Hc H.
  inversion H; subst ds; cbn [ds_sem s_factors] in Hi. clear H.
  assert (Hlt : i < List.length forder) by (rewrite <- (mapM_length _ _ _ Hf); apply nth_error_Some; congruence).
  pose proof (mapM_nth _ _ _ 0 dfactor0 i Hf Hlt) as Hsf. rewrite (nth_error_nth _ _ dfactor0 Hi) in Hsf.
  set (f := nth i forder 0) in *.
  unfold sem_factor in Hsf. inv_bind Hsf as pfd Hpfd Hsf. inv_bind Hsf as nl Hnl Hsf.
  destruct (is_simple pfd); [inversion Hsf; subst fd; discriminate|].
  inv_bind Hsf as q Hq Hsf. destruct q as [[[deps width] stride] start].
  match type of Hsf with (if ?c then _ else _) = _ => destruct c; [discriminate|] end.
  inv_bind Hsf as tabs Ht Hsf. inv_bind Hsf as enc He Hsf. inv_bind Hsf as pdeps Hp Hsf. inversion Hsf; subst fd. cbn in Hw. inversion Hw; subst w. cbn in Hpd.
  destruct (mapM_in _ _ _ _ Hp Hpd) as [d [Hdin Hpos]]. destruct (pos_of_nth _ _ _ Hpos) as [Hpdlt Hnth].
  destruct (window_params_deps _ _ _ _ _ _ Hq) as [w' [levels [Hkind ->]]].
  (* the entries of the sorted list carry the depths *)
  assert (Hent : forall j, j < List.length sorted -> depth p (fuel0 p) (fst (nth j sorted (0, 0))) = Ok (snd (nth j sorted (0, 0)))).
  { intros j Hj. assert (Hin : In (nth j sorted (0, 0)) depths) by (apply (in_sort_by (fun a b : nat * nat => snd a <=? snd b) depths); apply nth_In; exact Hj).
    destruct (mapM_in _ _ _ _ Hd Hin) as [g [_ Hg]]. inv_bind Hg as dg Hdg Hg.
    assert (E : nth j sorted (0, 0) = (g, dg)) by congruence. rewrite E. exact Hdg. }
  assert (Hls : List.length sorted = List.length forder) by (unfold forder; rewrite map_length; reflexivity).
  assert (Ef : fst (nth i sorted (0, 0)) = f) by (unfold f, forder; symmetry; exact (map_nth fst sorted (0, 0) i)).
  assert (Ed : fst (nth pd sorted (0, 0)) = d) by (rewrite <- Hnth; unfold forder; symmetry; exact (map_nth fst sorted (0, 0) pd)).
  pose proof (Hent i ltac:(lia)) as Df. pose proof (Hent pd ltac:(lia)) as Dd. rewrite Ef in Df. rewrite Ed in Dd.
  unfold fuel0 in Df. destruct (depth_deps p _ f pfd w' levels _ Hpfd Hkind Df d Hdin) as [dd [Edd Hdd]].
  apply depth_mono in Edd. fold (fuel0 p) in Edd. rewrite Dd in Edd. inversion Edd as [E]. rewrite E in *. clear Edd.
  destruct (Nat.lt_ge_cases pd i) as [Hlt'|Hge]; [exact Hlt'|]. exfalso.
  destruct (Nat.eq_dec i pd) as [->|Hne]; [lia|].
  pose proof (sorted_nth _ snd sorted (0, 0) i pd (sort_by_sorted _ snd depths) ltac:(lia) ltac:(lia)). lia.
Qed.

Theorem doc_sem_deps_before : forall p ds, doc_sem p = Ok ds ->
  forall i fd w, nth_error (s_factors (ds_sem ds)) i = Some fd -> f_derived fd = Some w ->
  forall pd, In pd (w_deps w) -> pd < i.
Proof.
  intros p ds H. unfold doc_sem, doc_sem_block in H. inv_bind H as bd Hbd H. eapply sem_of_block_deps_before; eauto.
Qed.

(** * the combinations of a crossing have one level per crossed factor *)
Lemma fold_set_inv : forall p cr (Q : list name -> Prop) l d0 d,
  fold_left (fun acc combo => d <- acc ;; w <- combo_weight p cr combo ;; Ok (dict_set names_eqb combo w d)) l (Ok d0) = Ok d ->
  (forall kv, In kv d0 -> Q (fst kv)) -> (forall c, In c l -> Q c) -> forall kv, In kv d -> Q (fst kv).
Proof.
  intros p cr Q l. induction l as [|x l IH]; intros d0 d H H0 Hl kv Hin; cbn [fold_left] in H.
  - inversion H; subst. apply H0. exact Hin.
  - cbn [bind] in H. destruct (combo_weight p cr x) as [w|e|s] eqn:E; cbn [bind] in H.
    + eapply IH; [exact H| |intros c Hc; apply Hl; right; exact Hc|exact Hin].
      intros [k' v'] Hin'. apply dict_set_in in Hin'. destruct Hin' as [Hin'|[-> _]]; [apply (H0 _ Hin')|apply Hl; left; reflexivity].
    + exfalso. eapply fold_combos_err; [|exact H]. intros d'; discriminate.
    + exfalso. eapply fold_combos_err; [|exact H]. intros d'; discriminate.
Qed.

Lemma all_combos_len : forall p cr d, all_combos p cr = Ok d -> forall kv, In kv d -> List.length (fst kv) = List.length cr.
Proof.
  intros p cr d H. unfold all_combos in H. inv_bind H as doms Hd H.
  apply (fold_set_inv p cr (fun k => List.length k = List.length cr) _ _ _ H); [intros kv []|].
  intros c Hc. rewrite (in_product_length _ _ Hc). apply (mapM_length _ _ _ Hd).
Qed.

Lemma fold_res_err : forall {A B} (F : res A -> B -> res A), (forall e x, F (Unsup e) x = Unsup e) -> (forall w x, F (Crash w) x = Crash w) ->
  forall l r, (forall d, r <> Ok d) -> forall d, fold_left F l r <> Ok d.
Proof.
  intros A B F H1 H2 l. induction l as [|x l IH]; intros r Hr d; cbn [fold_left]; [apply Hr|]. apply IH.
  destruct r as [a|e|w]; [exfalso; exact (Hr a eq_refl)|rewrite H1; discriminate|rewrite H2; discriminate].
Qed.

Lemma feasible_len : forall p design crossing ex fe, feasible_combos p design crossing ex = Ok fe ->
  forall kv, In kv fe -> List.length (fst kv) = List.length crossing.
Proof.
  intros p design crossing ex fe H. unfold feasible_combos in H.
  inv_bind H as kinds Hk H. inv_bind H as extra Hextra H. inv_bind H as within Hw H. inv_bind H as excl He H. inv_bind H as doms Hd H.
  match type of H with fold_left ?F _ _ = _ => set (STEP := F) in * end.
  set (inv := fun d : combos => forall kv, In kv d -> List.length (fst kv) = List.length crossing).
  assert (Hstep : forall d0 vals r, STEP (Ok d0) vals = Ok r -> inv d0 -> inv r).
  { intros d0 vals r Hr Hi. unfold STEP in Hr. cbn [bind] in Hr. cbv zeta in Hr.
    match type of Hr with (if ?c then _ else _) = _ => destruct c end; [inversion Hr; subst; exact Hi|].
    inv_bind Hr as wv Hwv Hr. destruct wv as [wv|]; [|inversion Hr; subst; exact Hi].
    inv_bind Hr as parts Hp Hr.
    intros kv Hin. apply (fold_set_inv p crossing (fun k => List.length k = List.length crossing) _ _ _ Hr); [exact Hi| |exact Hin].
    intros c Hc. rewrite (in_product_length _ _ Hc). apply (mapM_length _ _ _ Hp). }
  assert (G : forall l acc d, fold_left STEP l acc = Ok d -> (forall d0, acc = Ok d0 -> inv d0) -> inv d).
  { induction l as [|x l IH]; intros acc d Hf Hacc; cbn [fold_left] in Hf; [apply Hacc; exact Hf|].
    destruct acc as [d0|e|w].
    - apply (IH _ _ Hf). intros d1 E. apply (Hstep d0 x d1 E). apply Hacc. reflexivity.
    - exfalso. assert (E : STEP (Unsup e) x = Unsup e) by reflexivity. rewrite E in Hf.
      revert Hf. apply fold_res_err; try (intros; reflexivity). intros d'; discriminate.
    - exfalso. assert (E : STEP (Crash w) x = Crash w) by reflexivity. rewrite E in Hf.
      revert Hf. apply fold_res_err; try (intros; reflexivity). intros d'; discriminate. }
  apply (G _ _ _ H). intros d0 E. inversion E; subst. intros kv [].
Qed.

Definition combos_len (c : dcross) : Prop := forall kv, In kv (x_combos c) -> List.length (fst kv) = List.length (x_factors c).

Lemma doc_crossing_len : forall p d ex rcc cr x, doc_crossing p d ex rcc cr = Ok x -> combos_len x.
Proof.
  intros p d ex rcc cr x H. unfold doc_crossing in H. inv_bind H as allc Ha H. inv_bind H as feas Hf H. inv_bind H as P HP H.
  inversion H; subst. unfold combos_len. cbn [x_combos x_factors]. destruct rcc; [apply (all_combos_len _ _ _ Ha)|apply (feasible_len _ _ _ _ _ Hf)].
Qed.

(** [_finish] and the Nest scaling keep the factors and combinations of every crossing *)
Definition fc (c : dcross) : list nat * combos := (x_factors c, x_combos c).

Lemma Forall_len_fc : forall cs cs', map fc cs = map fc cs' -> Forall combos_len cs' -> Forall combos_len cs.
Proof.
  induction cs as [|c cs IH]; intros [|c' cs'] H H'; cbn [map] in H; try discriminate; constructor.
  - assert (Hc : fc c = fc c') by congruence. unfold fc in Hc. inversion H' as [|? ? Hc' _]; subst. unfold combos_len in *.
    assert (E1 : x_factors c = x_factors c') by congruence. assert (E2 : x_combos c = x_combos c') by congruence. rewrite E1, E2. exact Hc'.
  - inversion H'; subst. apply (IH cs'); [congruence|assumption].
Qed.

Lemma finish_fc : forall bd mode bd', finish bd mode = Ok bd' -> map fc (b_crossings bd') = map fc (b_crossings bd).
Proof.
  intros bd mode bd' H. unfold finish in H. match type of H with (if ?c then _ else _) = _ => destruct c; [discriminate|] end.
  inv_bind H as cs' Hcs H. inversion H; subst; cbn [b_crossings].
  assert (G : forall T cs cs0, mapM (finish_cw mode T) cs = Ok cs0 -> map fc cs0 = map fc cs).
  { intros T cs cs0 Hm. apply mapM_ok in Hm. induction Hm as [|a b l m Hab _ IH]; [reflexivity|]. cbn [map]. f_equal; [|exact IH].
    unfold finish_cw in Hab. destruct (x_S a =? 0); [inversion Hab; reflexivity|]. destruct (_ =? x_cw a); [inversion Hab; reflexivity|].
    destruct mode; inversion Hab; reflexivity. }
  destruct mode; [eapply G; eauto|inversion Hcs; reflexivity|eapply G; eauto].
Qed.

Lemma merge_len : forall inners cs mode al nest bd, merge inners cs mode al nest = Ok bd ->
  Forall (fun b => Forall combos_len (b_crossings b)) inners -> Forall combos_len (b_crossings bd).
Proof.
  intros inners cs mode al nest bd H Hin. unfold merge in H. destruct (_ && _); [discriminate|]. inv_bind H as bd0 Hf H.
  apply finish_fc in Hf. cbn [b_crossings] in Hf. inversion H; subst; cbn [b_crossings]. eapply Forall_len_fc; [exact Hf|].
  clear -Hin. induction Hin as [|b bs Hb _ IH]; cbn; [constructor|]. apply Forall_app. split; assumption.
Qed.

Lemma doc_block_len : forall p b bd, doc_block p b = Ok bd -> Forall combos_len (b_crossings bd).
Proof.
  intros p b. induction b as [d c cs rcc|d crs cs rcc mode al|b cs IH|bs cs mode al IH|o i cs al IHo IHi] using pblock_ind';
    intros bd H; cbn [doc_block] in H.
  - unfold doc_cross in H. inv_bind H as kinds Hk H. inv_bind H as xs Hxs H. inv_bind H as bd0 Hf H.
    apply finish_fc in Hf. cbn [b_crossings] in Hf. inversion H; subst; cbn [b_crossings]. eapply Forall_len_fc; [exact Hf|].
    apply Forall_forall. intros x Hx. destruct (mapM_in _ _ _ _ Hxs Hx) as [cr [_ Hcr]]. eapply doc_crossing_len; eauto.
  - unfold doc_cross in H. inv_bind H as kinds Hk H. inv_bind H as xs Hxs H. inv_bind H as bd0 Hf H.
    apply finish_fc in Hf. cbn [b_crossings] in Hf. inversion H; subst; cbn [b_crossings]. eapply Forall_len_fc; [exact Hf|].
    apply Forall_forall. intros x Hx. destruct (mapM_in _ _ _ _ Hxs Hx) as [cr [_ Hcr]]. eapply doc_crossing_len; eauto.
  - inv_bind H as inner Hi H. eapply merge_len; [exact H|]. constructor; [apply IH; exact Hi|constructor].
  - inv_bind H as inners Hi H. inv_bind H as al' Hal H. eapply merge_len; [exact H|].
    apply go_ok in Hi. clear -IH Hi. induction Hi as [|b bd bs inners Hb _ IHi]; [constructor|].
    inversion IH; subst. constructor; [eauto|apply IHi; assumption].
  - inv_bind H as outer Ho H. inv_bind H as inner Hi H. destruct (existsb _ _); [discriminate|].
    eapply merge_len; [exact H|]. constructor; [|constructor; [apply IHi; exact Hi|constructor]].
    cbn [scale_outer b_crossings]. apply Forall_forall. intros x Hx. apply in_map_iff in Hx. destruct Hx as [c [<- Hc]].
    specialize (IHo _ Ho). rewrite Forall_forall in IHo. exact (IHo c Hc).
Qed.

(** the multiplicity list of a crossing of the normal form *)
Theorem doc_sem_mult_shape : forall p ds, doc_sem p = Ok ds ->
  forall c, In c (s_crossings (ds_sem ds)) -> forall im, In im (c_mult c) -> List.length (fst im) = List.length (c_factors c).
Proof.
  intros p ds H c Hc im Him. unfold doc_sem, doc_sem_block in H. inv_bind H as bd Hbd H.
  pose proof (doc_block_len _ _ _ Hbd) as Hlen. unfold sem_of_block in H.
  inv_bind H as kinds Hk H. destruct (negb _); [discriminate|].
  inv_bind H as depths Hd H. inv_bind H as factors Hf H. inv_bind H as crossings Hx H. inv_bind H as constraints Hcs H.
  inversion H; subst ds; cbn [ds_sem s_crossings] in Hc. clear H.
  destruct (mapM_in _ _ _ _ Hx Hc) as [x [Hxin Hsx]]. unfold sem_crossing in Hsx. destruct (_ =? 0); [discriminate|].
  inv_bind Hsx as mult Hm Hsx. inv_bind Hsx as fs Hfs Hsx. inversion Hsx; subst c. cbn [c_mult c_factors] in *.
  destruct (mapM_in _ _ _ _ Hm Him) as [[combo v] [Hin Hf']]. apply in_sort_by in Hin. cbn [fst snd] in Hf'.
  inv_bind Hf' as idx Hidx Hf'. inversion Hf'; subst im. cbn [fst].
  rewrite (mapM_length _ _ _ Hidx), (mapM_length _ _ _ Hfs), combine_length.
  rewrite Forall_forall in Hlen. pose proof (Hlen x Hxin (combo, v) Hin) as E. cbn [fst] in E. rewrite E. apply Nat.min_id.
Qed.

(** * levels in range: the combinations of the crossings and the cells of the acceptance tables *)
Lemma level_lt_at : forall p bd forder factors fid ln pf li,
  mapM (sem_factor p bd forder) forder = Ok factors ->
  pos_of forder fid = Ok pf -> level_index p fid ln = Ok li -> li < f_nlevels (nth pf factors dfactor0).
Proof.
  intros p bd forder factors fid ln pf li Hf Hpf Hli. destruct (pos_of_nth _ _ _ Hpf) as [Hlt Hnth].
  pose proof (mapM_nth _ _ _ 0 dfactor0 pf Hf Hlt) as Hsf. rewrite Hnth in Hsf.
  destruct (sem_factor_nlevels _ _ _ _ _ Hsf) as [fd [E1 E2]].
  destruct (level_index_lt _ _ _ _ Hli) as [fd' [n [E1' [E2' Hlt']]]]. rewrite E1 in E1'. inversion E1'; subst fd'.
  rewrite E2 in E2'. inversion E2'; subst. exact Hlt'.
Qed.

Lemma mult_levels_gen : forall p bd forder factors (xf : list nat) (combo : list name) idx fs,
  mapM (sem_factor p bd forder) forder = Ok factors ->
  mapM (fun fn : nat * name => level_index p (fst fn) (snd fn)) (combine xf combo) = Ok idx ->
  mapM (pos_of forder) xf = Ok fs -> List.length combo = List.length xf ->
  Forall2 (fun l cf => l < f_nlevels (nth cf factors dfactor0)) idx fs.
Proof.
  intros p bd forder factors xf. induction xf as [|f xf IH]; intros combo idx fs Hf Hidx Hfs Hlen.
  - cbn in Hidx, Hfs. inversion Hidx; inversion Hfs. constructor.
  - destruct combo as [|n combo]; [discriminate|]. cbn [combine mapM fst snd] in Hidx, Hfs.
    inv_bind Hidx as l Hl Hidx. inv_bind Hidx as idx' Hidx' Hidx. inversion Hidx; subst idx.
    inv_bind Hfs as cf Hcf Hfs. inv_bind Hfs as fs' Hfs' Hfs. inversion Hfs; subst fs.
    constructor; [eapply level_lt_at; eauto|]. eapply IH; eauto.
Qed.

Theorem doc_sem_mult_levels : forall p ds, doc_sem p = Ok ds ->
  forall c, In c (s_crossings (ds_sem ds)) -> forall im, In im (c_mult c) ->
  Forall2 (fun l cf => l < f_nlevels (nth cf (s_factors (ds_sem ds)) dfactor0)) (fst im) (c_factors c).
Proof.
  intros p ds H c Hc im Him. unfold doc_sem, doc_sem_block in H. inv_bind H as bd Hbd H.
  pose proof (doc_block_len _ _ _ Hbd) as Hlen. unfold sem_of_block in H.
  inv_bind H as kinds Hk H. destruct (negb _); [discriminate|].
  inv_bind H as depths Hd H. inv_bind H as factors Hf H. inv_bind H as crossings Hx H. inv_bind H as constraints Hcs H.
  inversion H; subst ds; cbn [ds_sem s_crossings s_factors] in *. clear H.
  destruct (mapM_in _ _ _ _ Hx Hc) as [x [Hxin Hsx]]. unfold sem_crossing in Hsx. destruct (_ =? 0); [discriminate|].
  inv_bind Hsx as mult Hm Hsx. inv_bind Hsx as fs Hfs Hsx. inversion Hsx; subst c. cbn [c_mult c_factors] in *.
  destruct (mapM_in _ _ _ _ Hm Him) as [[combo v] [Hin Hf']]. apply in_sort_by in Hin. cbn [fst snd] in Hf'.
  inv_bind Hf' as idx Hidx Hf'. inversion Hf'; subst im. cbn [fst].
  rewrite Forall_forall in Hlen. pose proof (Hlen x Hxin (combo, v) Hin) as E. cbn [fst] in E.
  eapply mult_levels_gen; eauto.
Qed.

(** the acceptance table of a derived factor: every row has at most one column per dependency, and
    every cell that names a level names a level of that dependency *)
Definition row_ok (factors : list dfactor) (deps : list nat) (row : list (list (option nat))) : Prop :=
  List.length row <= List.length deps /\
  forall j col, nth_error row j = Some col ->
    forall i, In (Some i) col -> i < f_nlevels (nth (nth j deps 0) factors dfactor0).

Lemma enc_row_ok : forall p bd forder factors (deps pdeps : list nat) (cols : entry) row,
  mapM (sem_factor p bd forder) forder = Ok factors -> mapM (pos_of forder) deps = Ok pdeps ->
  mapM (fun dc : nat * list (option name) =>
          dd <- fm p (fst dc) ;; ns <- level_names dd ;;
          mapM (fun o : option name => match o with
                                       | None => Ok None
                                       | Some n => i <- of_option "ValueError: table name" (index_of String.eqb n ns) ;; Ok (Some i)
                                       end) (snd dc)) (combine deps cols) = Ok row ->
  row_ok factors pdeps row.
Proof.
  intros p bd forder factors deps. induction deps as [|d deps IH]; intros pdeps cols row Hf Hp Hrow.
  - cbn in Hrow. inversion Hrow. split; [cbn; lia|]. intros j col Hj. destruct j; discriminate.
  - cbn [mapM] in Hp. inv_bind Hp as pd Hpd Hp. inv_bind Hp as pdeps' Hp' Hp. inversion Hp; subst pdeps.
    destruct cols as [|col cols]; [cbn in Hrow; inversion Hrow; split; [cbn; lia|intros j c Hj; destruct j; discriminate]|].
    cbn [combine mapM fst snd] in Hrow. inv_bind Hrow as ecol Hecol Hrow. inv_bind Hrow as row' Hrow' Hrow. inversion Hrow; subst row.
    destruct (IH pdeps' cols row' Hf Hp' Hrow') as [IH1 IH2]. split; [cbn; lia|].
    intros j c Hj i Hi. destruct j as [|j]; cbn in Hj |- *.
    + inversion Hj; subst c. inv_bind Hecol as dd Hdd Hecol. inv_bind Hecol as ns Hns Hecol.
      destruct (mapM_in _ _ _ _ Hecol Hi) as [o [_ Ho]]. destruct o as [n|]; [|discriminate].
      inv_bind Ho as i' Hi' Ho. inversion Ho; subst i'.
      eapply (level_lt_at p bd forder factors d n pd i Hf Hpd). unfold level_index. rewrite Hdd. cbn [bind]. rewrite Hns. cbn [bind].
      unfold of_option in Hi' |- *. destruct (index_of String.eqb n ns); [exact Hi'|discriminate].
    + eapply IH2; eauto.
Qed.

Theorem doc_sem_tables_shape : forall p ds, doc_sem p = Ok ds ->
  forall fd w, In fd (s_factors (ds_sem ds)) -> f_derived fd = Some w ->
  forall rows, In rows (w_table w) -> forall row, In row rows -> row_ok (s_factors (ds_sem ds)) (w_deps w) row.
Proof.
  intros p ds H fd w Hfd Hw rows Hrows row Hrow. unfold doc_sem, doc_sem_block in H. inv_bind H as bd Hbd H. unfold sem_of_block in H.
  inv_bind H as kinds Hk H. destruct (negb _); [discriminate|].
  inv_bind H as depths Hd H. set (forder := map fst (sort_by _ depths)) in *.
  inv_bind H as factors Hf H. inv_bind H as crossings Hx H. inv_bind H as constraints Hcs H.
  inversion H; subst ds; cbn [ds_sem s_factors] in *. clear H.
  destruct (mapM_in _ _ _ _ Hf Hfd) as [f [_ Hsf]]. unfold sem_factor in Hsf.
  inv_bind Hsf as pfd Hpfd Hsf. inv_bind Hsf as nl Hnl Hsf.
  destruct (is_simple pfd); [inversion Hsf; subst fd; discriminate|].
  inv_bind Hsf as q Hq Hsf. destruct q as [[[deps width] stride] start].
  match type of Hsf with (if ?c then _ else _) = _ => destruct c; [discriminate|] end.
  inv_bind Hsf as tabs Ht Hsf. inv_bind Hsf as enc He Hsf. inv_bind Hsf as pdeps Hp Hsf. inversion Hsf; subst fd. cbn in Hw. inversion Hw; subst w.
  cbn [w_table w_deps] in *. unfold enc_table in He.
  destruct (mapM_in _ _ _ _ He Hrows) as [tab [_ Htab]]. destruct (mapM_in _ _ _ _ Htab Hrow) as [cols [_ Hcols]].
  eapply enc_row_ok; eauto.
Qed.
