(** More well-formedness of the semantic normal form [doc_sem] produces:
    a derived factor is listed after the factors it depends on ([Sem.all_valid] fills the
    rows in list order); the combinations of a crossing have one in-range level per crossed factor. *)
From Coq Require Import ZArith List Bool Arith Lia String Sorted.
From SP Require Import Design.Sem Design.Flat Design.DocSem Design.DocSemProofs.
Import ListNotations.
Local Open Scope nat_scope.
Local Open Scope list_scope.

(** * insertion sort by a numeric key is sorted *)
Section SortKey.
Variable A : Type.
Variable key : A -> nat.
Let leb (a b : A) : bool := key a <=? key b.
Let le (a b : A) : Prop := key a <= key b.

Lemma insert_sorted : forall x l, StronglySorted le l -> StronglySorted le (insert_by leb x l).
Proof.
  intros x l H. induction H as [|y l Hl IH Hy]; cbn; [constructor; constructor|].
  unfold leb at 1. destruct (Nat.leb_spec (key y) (key x)) as [Hle|Hlt].
  - constructor; [exact IH|]. apply Forall_forall. intros z Hz. apply in_insert_by in Hz. destruct Hz as [->|Hz]; [exact Hle|].
    rewrite Forall_forall in Hy. apply Hy. exact Hz.
  - constructor; [constructor; assumption|]. constructor; [unfold le; lia|]. rewrite Forall_forall in Hy |- *.
    intros z Hz. specialize (Hy z Hz). unfold le in *. lia.
Qed.

Lemma sort_by_sorted : forall l, StronglySorted le (sort_by leb l).
Proof.
  intro l. unfold sort_by.
  assert (G : forall acc, StronglySorted le acc -> StronglySorted le (fold_left (fun acc x => insert_by leb x acc) l acc)).
  { induction l as [|x l IH]; intros acc H; cbn [fold_left]; [exact H|]. apply IH. apply insert_sorted. exact H. }
  apply G. constructor.
Qed.

Lemma sorted_nth : forall l d a b, StronglySorted le l -> a < b -> b < List.length l -> key (nth a l d) <= key (nth b l d).
Proof.
  intros l d a b H. revert a b. induction H as [|y l Hl IH Hy]; intros a b Hab Hb; [cbn in Hb; lia|].
  destruct b as [|b]; [lia|]. cbn in Hb. destruct a as [|a]; cbn.
  - rewrite Forall_forall in Hy. apply Hy. apply nth_In. lia.
  - apply IH; lia.
Qed.
End SortKey.

(** * depth *)
Lemma mapM_impl : forall {A B} (f g : A -> res B) l ys, (forall x y, In x l -> f x = Ok y -> g x = Ok y) -> mapM f l = Ok ys -> mapM g l = Ok ys.
Proof.
  intros A B f g l. induction l as [|x l IH]; intros ys H Hm; [exact Hm|]. cbn in Hm |- *.
  inv_bind Hm as y Hy Hm. inv_bind Hm as ys' Hys Hm. rewrite (H x y (or_introl eq_refl) Hy). cbn.
  rewrite (IH ys' (fun a b Ha => H a b (or_intror Ha)) Hys). exact Hm.
Qed.

Lemma depth_unfold : forall p n f,
  depth p (S n) f =
  (fd <- fm p f ;;
   match pf_kind fd with
   | FDerived w _ => ds <- mapM (depth p n) (pw_deps w) ;;
                     match ds with [] => Crash "ValueError: max of empty" | _ => Ok (1 + list_max ds) end
   | _ => Ok 0
   end).
Proof. reflexivity. Qed.

Lemma depth_mono : forall p n f d, depth p n f = Ok d -> depth p (S n) f = Ok d.
Proof.
  intros p n. induction n as [|n IH]; intros f d H; [discriminate|]. rewrite depth_unfold in H. rewrite (depth_unfold p (S n)).
  destruct (fm p f) as [fd| |]; cbn [bind] in *; try discriminate. destruct (pf_kind fd) as [|w levels|]; try exact H.
  inv_bind H as ds Hds H. rewrite (mapM_impl _ (depth p (S n)) _ ds (fun x y _ => IH x y) Hds). exact H.
Qed.

Lemma depth_deps : forall p n f fd w levels df, fm p f = Ok fd -> pf_kind fd = FDerived w levels ->
  depth p (S n) f = Ok df -> forall d, In d (pw_deps w) -> exists dd, depth p n d = Ok dd /\ dd < df.
Proof.
  intros p n f fd w levels df Hfm Hk H d Hd. rewrite depth_unfold in H. rewrite Hfm in H. cbn [bind] in H. rewrite Hk in H.
  inv_bind H as ds Hds H. destruct ds as [|x ds]; [discriminate|]. assert (Edf : df = 1 + list_max (x :: ds)) by congruence. subst df. clear H.
  apply mapM_ok in Hds. revert Hd. revert Hds. generalize (x :: ds). generalize (pw_deps w). intros l0 ys0 Hds Hd.
  induction Hds as [|a b l ys Hab _ IH]; [contradiction|]. destruct Hd as [->|Hd].
  - exists b. split; [exact Hab|]. rewrite list_max_cons. lia.
  - destruct (IH Hd) as [dd [E1 E2]]. exists dd. split; [exact E1|]. rewrite list_max_cons. lia.
Qed.

Lemma window_params_deps : forall p fd deps width stride start, window_params p fd = Ok (deps, width, stride, start) ->
  exists w levels, pf_kind fd = FDerived w levels /\ deps = pw_deps w.
Proof.
  intros p fd deps width stride start H. unfold window_params, fuel0 in H. cbn [wp_cx fst] in H.
  destruct (pf_kind fd) as [|w levels|]; try discriminate. exists w, levels. split; [reflexivity|].
  destruct (pw_type w) as [| |wd st sa]; inv_bind H as dflt Hd H; inversion H; reflexivity.
Qed.

(** * a derived factor is listed after its dependencies *)
Theorem sem_of_block_deps_before : forall p bd ds, sem_of_block p bd = Ok ds ->
  forall i fd w, nth_error (s_factors (ds_sem ds)) i = Some fd -> f_derived fd = Some w ->
  forall pd, In pd (w_deps w) -> pd < i.
Proof.
  intros p bd ds H i fd w Hi Hw pd Hpd. unfold sem_of_block in H.
  inv_bind H as kinds Hk H. destruct (negb _); [discriminate|].
  inv_bind H as depths Hd H. set (sorted := sort_by (fun a b : nat * nat => snd a <=? snd b) depths) in *.
  set (forder := map fst sorted) in *.
  inv_bind H as factors Hf H. inv_bind H as crossings Hx H. inv_bind H as constraints Hc H.
  inversion H; subst ds; cbn [ds_sem s_factors] in Hi. clear H.
  assert (Hlt : i < List.length forder) by (rewrite <- (mapM_length _ _ _ Hf); apply nth_error_Some; congruence).
  pose proof (mapM_nth _ _ _ 0 dfactor0 i Hf Hlt) as Hsf. rewrite (nth_error_nth _ _ dfactor0 Hi) in Hsf.
  set (f := nth i forder 0) in *.
  unfold sem_factor in Hsf. inv_bind Hsf as pfd Hpfd Hsf. inv_bind Hsf as nl Hnl Hsf.
  destruct (is_simple pfd); [inversion Hsf; subst fd; discriminate|].
  inv_bind Hsf as q Hq Hsf. destruct q as [[[deps width] stride] start].
  match type of Hsf with (if ?c then _ else _) = _ => destruct c; [discriminate|] end.
  inv_bind Hsf as tabs Ht Hsf. inv_bind Hsf as enc He Hsf. inv_bind Hsf as pdeps Hp Hsf. inversion Hsf; subst fd. cbn in Hw. inversion Hw; subst w. cbn in Hpd.
  destruct (mapM_in _ _ _ _ Hp Hpd) as [d [Hdin Hpos]]. destruct (pos_of_nth _ _ _ Hpos) as [Hpdlt Hnth].
  destruct (window_params_deps _ _ _ _ _ _ Hq) as [w' [levels [Hkind ->]]].
  (* the entries of the sorted list carry the depths *)
  assert (Hent : forall j, j < List.length sorted -> depth p (fuel0 p) (fst (nth j sorted (0, 0))) = Ok (snd (nth j sorted (0, 0)))).
  { intros j Hj. assert (Hin : In (nth j sorted (0, 0)) depths) by (apply (in_sort_by (fun a b : nat * nat => snd a <=? snd b) depths); apply nth_In; exact Hj).
    destruct (mapM_in _ _ _ _ Hd Hin) as [g [_ Hg]]. inv_bind Hg as dg Hdg Hg.
    assert (E : nth j sorted (0, 0) = (g, dg)) by congruence. rewrite E. exact Hdg. }
  assert (Hls : List.length sorted = List.length forder) by (unfold forder; rewrite map_length; reflexivity).
  assert (Ef : fst (nth i sorted (0, 0)) = f) by (unfold f, forder; symmetry; exact (map_nth fst sorted (0, 0) i)).
  assert (Ed : fst (nth pd sorted (0, 0)) = d) by (rewrite <- Hnth; unfold forder; symmetry; exact (map_nth fst sorted (0, 0) pd)).
  pose proof (Hent i ltac:(lia)) as Df. pose proof (Hent pd ltac:(lia)) as Dd. rewrite Ef in Df. rewrite Ed in Dd.
  unfold fuel0 in Df. destruct (depth_deps p _ f pfd w' levels _ Hpfd Hkind Df d Hdin) as [dd [Edd Hdd]].
  apply depth_mono in Edd. fold (fuel0 p) in Edd. rewrite Dd in Edd. inversion Edd as [E]. rewrite E in *. clear Edd.
  destruct (Nat.lt_ge_cases pd i) as [Hlt'|Hge]; [exact Hlt'|]. exfalso.
  destruct (Nat.eq_dec i pd) as [->|Hne]; [lia|].
  pose proof (sorted_nth _ snd sorted (0, 0) i pd (sort_by_sorted _ snd depths) ltac:(lia) ltac:(lia)). lia.
Qed.

Theorem doc_sem_deps_before : forall p ds, doc_sem p = Ok ds ->
  forall i fd w, nth_error (s_factors (ds_sem ds)) i = Some fd -> f_derived fd = Some w ->
  forall pd, In pd (w_deps w) -> pd < i.
Proof.
  intros p ds H. unfold doc_sem, doc_sem_block in H. inv_bind H as bd Hbd H. eapply sem_of_block_deps_before; eauto.
Qed.
