(** The flat record of a block: what the block constructors of
    [cross_block.py] / [block.py] produce and everything downstream (variable
    layout, compilation to CNF, decoding, mismatch checking, RandomGen) consumes.
    The harness extracts it from the *real* block object (harness/flat.py) by
    reading attributes only, so that models of the downstream code can be run on
    exactly the data the real code sees.  Factors are referred to by their index
    in [fl_design], levels by their index in the factor's level list. *)
From Coq Require Import ZArith List Bool String.
Import ListNotations.

Record fwindow := {
  win_deps : list nat;           (* window.factors, as indices into fl_design *)
  win_width : nat;
  win_stride : nat;
  win_start : nat;
  win_start_delta : Z
}.

(** A derived level: the accepted argument tuples as computed by calling the
    user predicate on every tuple of the dependent cross product
    ([get_dependent_cross_product], where [None] stands for [BeforeStart]):
    per depended-on factor a list of [width] optional level indices, oldest first. *)
Record flevel := {
  lv_name : string;
  lv_weight : nat;
  lv_accepts : list (list (list (option nat)))
}.

Record ffactor := {
  ff_name : string;
  ff_hidden : bool;              (* HiddenName: introduced by weight desugaring *)
  ff_levels : list flevel;
  ff_window : option fwindow;    (* Some for derived factors (first level's window) *)
  ff_complex : bool              (* has_complex_window *)
}.

Record geometry := {
  g_trials : nat;
  g_preamble : nat;
  g_sustain : list (nat * nat)   (* factor index -> sustain count *)
}.

Inductive didx := DIdx (n : nat) | DBefore (ready_at : nat).

Inductive fconstraint :=
| FCross | FConsistency | FSustain
| FDerivation (derived_idx : nat) (deps : list (list didx)) (factor : nat)
| FAtMost (k : nat) (f l : nat) (wb : option geometry)
| FAtLeast (k : nat) (f l : nat) (wb : option geometry)
| FExactlyK (k : nat) (f l : nat) (wb : option geometry)
| FExactlyKInARow (k : nat) (f l : nat) (wb : option geometry)
| FExactlyKMultiple (k : nat) (f l : nat) (wb : option geometry)
| FExclude (f l : nat)
| FPin (index : Z) (f l : nat) (wb : option geometry)
| FReify (f : nat)
| FMinimumTrials (n : Z)
| FContinuous
| FLatin (fs : list nat)
| FSequential (f : nat)
| FOther (name : string).

Inductive alignment := PostPreamble | ParallelStart | EqualPreamble.

Record flat := {
  fl_design : list ffactor;
  fl_act : list nat;                       (* act_design *)
  fl_crossings : list (list nat);
  fl_sustains : list nat;                  (* crossing_sustain_counts *)
  fl_weights : list nat;                   (* crossing_weights *)
  fl_sizes : list nat;                     (* crossing_sizes *)
  fl_preambles : list nat;                 (* preamble_sizes *)
  fl_alignment : alignment;
  fl_alignment_preamble : nat;
  fl_min_trials : nat;
  fl_trials : nat;                         (* trials_per_sample() *)
  fl_rcc : bool;
  fl_exclude : list (nat * nat);
  fl_excluded_derived : list (list (nat * nat));
  fl_constraints : list fconstraint;
  fl_errors_fail : bool                    (* show_errors() would report failure *)
}.

Definition sustain_of (fb : flat) (f : nat) : nat :=
  (* factor_to_sustain_count: last crossing containing f wins; 1 otherwise *)
  fold_left (fun acc cs => if existsb (Nat.eqb f) (fst cs) then snd cs else acc)
            (combine (fl_crossings fb) (fl_sustains fb)) 1.
