(** Executable model of the variable layout of [sweetpea/_internal/block.py] and
    [cross_block.py] on the flat record: which SAT variable stands for which
    (trial, factor, level), the per-level variable lists the constraints use, the
    repetition windows ([map_block_trial_ranges]) and trial numbers.  Variables
    and counts are [nat]; [None] is returned where the Python code raises. *)
From Coq Require Import ZArith List Bool Arith.
From SP Require Import Design.Flat.
Import ListNotations.

Section Layout.
Variable fb : flat.

Definition factor_at (f : nat) : option ffactor := nth_error (fl_design fb) f.
Definition nlevels (f : nat) : nat :=
  match factor_at f with Some fd => length (ff_levels fd) | None => 0 end.
Definition is_complex (f : nat) : bool :=
  match factor_at f with Some fd => ff_complex fd | None => false end.
Definition is_derived (f : nat) : bool :=
  match factor_at f with Some fd => match ff_window fd with Some _ => true | None => false end | None => false end.
Definition trials : nat := fl_trials fb.
Definition sustain (f : nat) : nat := sustain_of fb f.

(** [Factor.applies_to_trial] (trial numbers are 1-based there). *)
Definition applies_to_trial (f : nat) (n : nat) : bool :=
  match factor_at f with
  | Some fd =>
    match ff_window fd with
    | None => true
    | Some w => (win_start w + 1 <=? n) && (((n - (win_start w + 1)) mod win_stride w) =? 0)
    end
  | None => true
  end.

(** does factor f apply at (1-based) trial t of the sequence, given its sustain count *)
Definition applies_at (f t : nat) : bool := applies_to_trial f ((t - 1) / sustain f + 1).

Definition simple_act : list nat := filter (fun f => negb (is_complex f)) (fl_act fb).
Definition complex_act : list nat := filter is_complex (fl_act fb).

Definition variables_per_trial : nat := fold_left (fun acc f => acc + nlevels f) simple_act 0.
Definition grid_variables : nat := trials * variables_per_trial.

(** [variables_for_factor(f, start, end)]; [end = 0] means "to the last trial"
    exactly as [end if end else ...] does. *)
Definition variables_for_factor (f start e : nat) : nat :=
  let last := if e =? 0 then trials else e in
  fold_left (fun acc t => if applies_at f t then acc + nlevels f else acc)
            (seq (1 + start) (last - start)) 0.

Definition variables_per_sample : nat :=
  fold_left (fun acc f => acc + variables_for_factor f 0 0) (fl_act fb) 0.

Fixpoint index_of (x : nat) (xs : list nat) : option nat :=
  match xs with
  | [] => None
  | y :: ys => if x =? y then Some 0 else option_map S (index_of x ys)
  end.

(** offset of level l of simple factor f in [get_all_levels(simple factors)] *)
Fixpoint simple_offset (fs : list nat) (f : nat) : option nat :=
  match fs with
  | [] => None
  | g :: gs => if g =? f then Some 0 else option_map (fun o => nlevels g + o) (simple_offset gs f)
  end.

Fixpoint complex_offset (fs : list nat) (f l : nat) : nat :=
  match fs with
  | [] => 0
  | g :: gs => if g =? f then l else variables_for_factor g 0 0 + complex_offset gs f l
  end.

(** [first_variable_for_level] (0-based). *)
Definition first_variable_for_level (f l : nat) : option nat :=
  if is_complex f then Some (grid_variables + complex_offset complex_act f l)
  else if l <? nlevels f then option_map (fun o => o + l) (simple_offset simple_act f) else None.

(** [_get_previous_trials_variable_count]: the cache is modelled by its meaning. *)
Definition previous_trials_count (f trial : nat) : nat :=
  length (filter (fun t => applies_at f t) (seq 1 (trial - 1))).

Definition encode_variable (f l trial : nat) : option nat :=
  match first_variable_for_level f l with
  | None => None
  | Some off =>
    let prev := previous_trials_count f trial in
    Some (off + (if is_complex f then nlevels f * prev else variables_per_trial * prev) + 1)
  end.

Definition excluded (f l : nat) : bool :=
  existsb (fun p => (fst p =? f) && (snd p =? l)) (fl_exclude fb).

Fixpoint all_some {A} (xs : list (option A)) : option (list A) :=
  match xs with
  | [] => Some []
  | Some x :: r => option_map (cons x) (all_some r)
  | None :: _ => None
  end.

Definition factor_variables_for_trial (f t : nat) : option (list nat) :=
  if negb (applies_at f t) then None
  else
    let prev := previous_trials_count f t in
    let offset := if is_complex f then nlevels f * prev else variables_per_trial * prev in
    option_map (map (fun n => n + offset + 1))
      (all_some (map (first_variable_for_level f)
                     (filter (fun l => negb (excluded f l)) (seq 0 (nlevels f))))).

Definition variable_list_for_trial (t : nat) : option (list (list nat)) :=
  all_some (map (fun f => if applies_at f t then factor_variables_for_trial f t else Some []) (fl_act fb)).

Definition support_variables : option (list nat) :=
  option_map (@concat nat)
    (all_some (flat_map (fun t => map (fun f => factor_variables_for_trial f (t + 1))
                                    (filter (fun f => negb (is_derived f)) (fl_act fb)))
                        (seq 0 trials))).

(** [decode_variable]: (factor, level) of a 1-based variable. *)
Fixpoint nth_simple_tuple (fs : list nat) (i : nat) : option (nat * nat) :=
  match fs with
  | [] => None
  | g :: gs => if i <? nlevels g then Some (g, i) else nth_simple_tuple gs (i - nlevels g)
  end.

Definition decode_variable (v : nat) : option (nat * nat) :=
  let v0 := v - 1 in
  if v0 <? grid_variables then nth_simple_tuple simple_act (v0 mod variables_per_trial)
  else
    let fix go (fs : list nat) : option (nat * nat) :=
        match fs with
        | [] => None
        | g :: gs =>
          match first_variable_for_level g 0 with
          | Some start =>
            if (start <=? v0) && (v0 <? start + variables_for_factor g 0 0)
            then Some (g, (v0 - start) mod nlevels g) else go gs
          | None => go gs
          end
        end in
    go complex_act.

(** [preamble_size()] with no argument, as used by [map_block_trial_ranges]
    under POST_PREAMBLE. *)
Definition post_preamble_size : nat :=
  Nat.max (fl_alignment_preamble fb) (fold_left Nat.max (fl_preambles fb) 0).

(** [map_block_trial_ranges]: the list of (start, min(end, num_trials)) the
    [while] loop visits (the clamp is /repo commit 2f184ec, "fix: repetition
    windows ran past the last trial").
    Negative starts cannot be represented: under POST_PREAMBLE the start is
    [preamble_size() - within_block.preamble_size], [None] if that is negative. *)
Fixpoint ranges_loop (fuel start e step stop : nat) : list (nat * nat) :=
  match fuel with
  | O => []
  | S fuel' =>
    if start <? stop then (start, Nat.min e trials) :: ranges_loop fuel' (start + step) (e + step) step stop
    else []
  end.

Definition map_block_trial_ranges (wb : option geometry) : option (list (nat * nat)) :=
  match wb with
  | None => Some (ranges_loop (S trials) 0 trials trials trials)
  | Some g =>
    let step := g_trials g - g_preamble g in
    if (g_trials g <=? g_preamble g) && (0 <? trials - g_preamble g) then None  (* step <= 0: the Python loop would not terminate *)
    else
      match fl_alignment fb with
      | PostPreamble =>
        if post_preamble_size <? g_preamble g then None
        else Some (ranges_loop (S trials) (post_preamble_size - g_preamble g) (g_trials g) step (trials - g_preamble g))
      | _ => Some (ranges_loop (S trials) 0 (g_trials g) step (trials - g_preamble g))
      end
  end.

(** [build_variable_lists]: per range, the variables of level l of factor f. *)
Definition simple_range_vars (first : nat) (start e : nat) : list nat :=
  map (fun i => first + 1 + start * variables_per_trial + i * variables_per_trial) (seq 0 (e - start)).

Definition complex_range_vars (f : nat) (first : nat) (start e : nat) : list nat :=
  let n := variables_for_factor f start e / nlevels f in
  (* offset: the applicable trials before [start] (/repo commit "fix: windowed
     variable lists of complex derived factors were shifted") *)
  map (fun v => first + 1 + (v + previous_trials_count f (start + 1)) * nlevels f) (seq 0 n).

Definition build_variable_lists (f l : nat) (wb : option geometry) : option (list (list nat)) :=
  match first_variable_for_level f l, map_block_trial_ranges wb with
  | Some first, Some rs =>
    Some (map (fun r => if is_complex f then complex_range_vars f first (fst r) (snd r)
                        else simple_range_vars first (fst r) (snd r)) rs)
  | _, _ => None
  end.

(** [get_trial_numbers]: 0-based trial numbers pinned by index [b] in each range. *)
Definition geometry_sustain (wb : option geometry) (f : nat) : nat :=
  match wb with
  | None => sustain f
  | Some g =>
    match find (fun p => fst p =? f) (g_sustain g) with
    | Some p => snd p
    | None => 1
    end
  end.

Definition get_trial_numbers (f : nat) (b : Z) (wb : option geometry) : option (list nat) :=
  let su := geometry_sustain wb f in
  option_map
    (fun rs =>
       flat_map (fun r =>
                   let trial_no := (if (b <? 0)%Z then Z.of_nat (snd r) + Z.of_nat su * b
                                    else Z.of_nat (fst r) + Z.of_nat su * b)%Z in
                   if ((Z.of_nat (fst r) <=? trial_no) && (trial_no <? Z.of_nat (snd r)))%Z
                   then map (fun i => Z.to_nat trial_no + i) (seq 0 su) else []) rs)
    (map_block_trial_ranges wb).

End Layout.
