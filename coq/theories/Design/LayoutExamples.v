(** Concrete flat records used by the [Example]s of Properties/C14.v and C26.v
    (they show that the hypotheses of the theorems are satisfiable by
    non-trivial objects).  [ex_repeat] is what harness/flat.py reads from
      Repeat(CrossBlock([f, t], [f], [AtMostKInARow(1, (t, "same"))]), [MinimumTrials(5)])
    with f = Factor("f", ["a", "b"]) and t a Transition factor on f. *)
From Coq Require Import ZArith List Bool String.
From SP Require Import Design.Flat.
Import ListNotations.
Open Scope string_scope.

Definition ex_geom : geometry := {| g_trials := 2; g_preamble := 0; g_sustain := [(0, 1)] |}.
Definition ex_geom_pre : geometry := {| g_trials := 3; g_preamble := 1; g_sustain := [] |}.

Definition ex_f : ffactor :=
  {| ff_name := "f"; ff_hidden := false;
     ff_levels := [ {| lv_name := "a"; lv_weight := 1; lv_accepts := [] |};
                    {| lv_name := "b"; lv_weight := 1; lv_accepts := [] |} ];
     ff_window := None; ff_complex := false |}.

Definition ex_t : ffactor :=
  {| ff_name := "t"; ff_hidden := false;
     ff_levels := [ {| lv_name := "same"; lv_weight := 1;
                       lv_accepts := [[[Some 0; Some 0]]; [[Some 1; Some 1]]] |};
                    {| lv_name := "diff"; lv_weight := 1;
                       lv_accepts := [[[Some 0; Some 1]]; [[Some 1; Some 0]]] |} ];
     ff_window := Some {| win_deps := [0]; win_width := 2; win_stride := 1; win_start := 1; win_start_delta := 0 |};
     ff_complex := true |}.

Definition ex_repeat : flat :=
  {| fl_design := [ex_f; ex_t];
     fl_act := [0; 1];
     fl_crossings := [[0]];
     fl_sustains := [1];
     fl_weights := [1];
     fl_sizes := [2];
     fl_preambles := [0];
     fl_alignment := EqualPreamble;
     fl_alignment_preamble := 1;
     fl_min_trials := 5;
     fl_trials := 5;
     fl_rcc := true;
     fl_exclude := [];
     fl_excluded_derived := [];
     fl_constraints := [FCross; FConsistency; FAtMost 1 1 0 (Some ex_geom); FMinimumTrials 5;
                        FDerivation 10 [[DIdx 0; DIdx 2]; [DIdx 1; DIdx 3]] 1;
                        FDerivation 11 [[DIdx 0; DIdx 3]; [DIdx 1; DIdx 2]] 1];
     fl_errors_fail := false |}.
