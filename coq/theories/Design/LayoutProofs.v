(** Proofs about the variable layout (Design/Layout.v), property C14:
    [encode_variable] is injective on the applicable (factor, level, trial)
    triples, its image is exactly 1..variables_per_sample, and
    [decode_variable] inverts it. *)
From Coq Require Import List Bool Arith Lia.
From SP Require Import Design.Flat Design.Layout Design.LayoutWf.
Import ListNotations.

(** * Generic list facts *)

Lemma fold_add_sum {A} (h : A -> nat) (l : list A) (a : nat) :
  fold_left (fun acc x => acc + h x) l a = a + list_sum (map h l).
Proof.
  revert a. induction l as [|x l IH]; intros a; simpl.
  - lia.
  - rewrite IH. lia.
Qed.

Lemma fold_cond_count {A} (p : A -> bool) (k : nat) (l : list A) (a : nat) :
  fold_left (fun acc t => if p t then acc + k else acc) l a = a + k * length (filter p l).
Proof.
  revert a. induction l as [|x l IH]; intros a; cbn [fold_left filter].
  - cbn. lia.
  - rewrite IH. destruct (p x); cbn [length]; lia.
Qed.

Lemma sum_split {A} (h : A -> nat) (p : A -> bool) (l : list A) :
  list_sum (map h l)
  = list_sum (map h (filter (fun x => negb (p x)) l)) + list_sum (map h (filter p l)).
Proof.
  induction l as [|x l IH]; simpl; [reflexivity|].
  destruct (p x); simpl; lia.
Qed.

Lemma sum_scaled {A} (h k : A -> nat) (c : nat) (l : list A) :
  (forall x, In x l -> h x = k x * c) -> list_sum (map h l) = c * list_sum (map k l).
Proof.
  induction l as [|x l IH]; intros H; simpl; [lia|].
  rewrite IH by (intros y Hy; apply H; right; exact Hy).
  rewrite (H x) by (left; reflexivity). lia.
Qed.

Lemma filter_all_true {A} (p : A -> bool) (l : list A) :
  (forall x, In x l -> p x = true) -> filter p l = l.
Proof.
  induction l as [|x l IH]; intros H; cbn [filter]; [reflexivity|].
  rewrite (H x) by (left; reflexivity). f_equal. apply IH. intros y Hy. apply H. right. exact Hy.
Qed.

Lemma filter_cons_true {A} (p : A -> bool) (x : A) (l : list A) :
  p x = true -> filter p (x :: l) = x :: filter p l.
Proof. intros H. simpl. rewrite H. reflexivity. Qed.

Lemma flat_map_len {A B} (g : A -> list B) (l : list A) :
  length (flat_map g l) = list_sum (map (fun x => length (g x)) l).
Proof.
  induction l as [|x l IH]; simpl; [reflexivity|].
  rewrite app_length, IH. reflexivity.
Qed.

Lemma NoDup_app_intro {A} (l1 l2 : list A) :
  NoDup l1 -> NoDup l2 -> (forall a, In a l1 -> ~ In a l2) -> NoDup (l1 ++ l2).
Proof.
  induction l1 as [|x l1 IH]; intros H1 H2 Hd; cbn [app]; [exact H2|].
  inversion H1 as [|? ? Hx Hl]; subst. constructor.
  - intros Hin. apply in_app_or in Hin. destruct Hin as [Hin|Hin]; [contradiction|].
    apply (Hd x); [left; reflexivity | exact Hin].
  - apply IH; [exact Hl | exact H2 |]. intros a Ha. apply Hd. right. exact Ha.
Qed.

Lemma NoDup_flat_map {A B} (g : A -> list B) (l : list A) :
  NoDup l ->
  (forall x, In x l -> NoDup (g x)) ->
  (forall x y b, In x l -> In y l -> In b (g x) -> In b (g y) -> x = y) ->
  NoDup (flat_map g l).
Proof.
  induction l as [|x l IH]; intros Hnd Hg Hdis; cbn [flat_map]; [constructor|].
  inversion Hnd as [|? ? Hx Hl]; subst.
  apply NoDup_app_intro.
  - apply Hg. left. reflexivity.
  - apply IH; [exact Hl | intros y Hy; apply Hg; right; exact Hy |].
    intros y z b Hy Hz. apply Hdis; right; assumption.
  - intros b Hb Hin. apply in_flat_map in Hin. destruct Hin as [y [Hy Hby]].
    assert (x = y) by (apply (Hdis x y b); [left; reflexivity | right; exact Hy | exact Hb | exact Hby]).
    subst y. contradiction.
Qed.

Lemma NoDup_map_on {A B} (h : A -> B) (l : list A) :
  NoDup l -> (forall x y, In x l -> In y l -> h x = h y -> x = y) -> NoDup (map h l).
Proof.
  induction l as [|x l IH]; intros Hnd Hinj; cbn [map]; [constructor|].
  inversion Hnd as [|? ? Hx Hl]; subst. constructor.
  - intros Hin. apply in_map_iff in Hin. destruct Hin as [y [Hy Hyl]].
    assert (y = x) by (apply Hinj; [right; exact Hyl | left; reflexivity | exact Hy]).
    subst y. contradiction.
  - apply IH; [exact Hl|]. intros y z Hy Hz. apply Hinj; right; assumption.
Qed.

Lemma nodupb_NoDup (l : list nat) : nodupb l = true -> NoDup l.
Proof.
  induction l as [|x l IH]; intros H; [constructor|].
  cbn [nodupb] in H. apply andb_prop in H. destruct H as [Hx Hl]. constructor.
  - intros Hin. apply negb_true_iff in Hx.
    assert (existsb (Nat.eqb x) l = true).
    { apply existsb_exists. exists x. split; [exact Hin | apply Nat.eqb_refl]. }
    congruence.
  - apply IH. exact Hl.
Qed.

Lemma divmod_unique (b r q r' q' : nat) :
  r < b -> r' < b -> r + b * q = r' + b * q' -> r = r' /\ q = q'.
Proof.
  intros Hr Hr' H.
  assert (q = q').
  { rewrite (Nat.div_unique (r + b * q) b q r Hr ltac:(lia)).
    rewrite (Nat.div_unique (r + b * q) b q' r' Hr' ltac:(lia)). reflexivity. }
  subst q'. split; lia.
Qed.

(** [lia] does not see that a product [a * (t - 1)] of naturals is non-negative *)
Ltac pos_products :=
  repeat match goal with
         | |- context [?a * (?t - 1)] =>
           lazymatch goal with
           | _ : 0 <= a * (t - 1) |- _ => fail
           | _ => pose proof (Nat.le_0_l (a * (t - 1)))
           end
         | _ : context [?a * (?t - 1)] |- _ =>
           lazymatch goal with
           | _ : 0 <= a * (t - 1) |- _ => fail
           | _ => pose proof (Nat.le_0_l (a * (t - 1)))
           end
         end.
Ltac plia := pos_products; lia.

(** * The layout of one flat record *)
Section LayoutProofs.
Variable fb : flat.

Notation A := (fl_act fb).
Notation SA := (simple_act fb).
Notation CA := (complex_act fb).
Notation T := (fl_trials fb).
Notation nl := (nlevels fb).
Notation vpt := (variables_per_trial fb).
Notation grid := (grid_variables fb).
Notation vps := (variables_per_sample fb).
Notation vff := (fun f => variables_for_factor fb f 0 0).

Definition count (f : nat) : nat := length (filter (applies_at fb f) (seq 1 T)).

(** an applicable choice: a level of a factor of [act_design] at a trial (1-based)
    of the sequence to which the factor applies *)
Definition applicable (f l t : nat) : Prop :=
  In f A /\ l < nl f /\ 1 <= t <= T /\ applies_at fb f t = true.

Lemma vpt_sum : vpt = list_sum (map nl SA).
Proof. unfold variables_per_trial. rewrite fold_add_sum. reflexivity. Qed.

Lemma vff_count : forall f, variables_for_factor fb f 0 0 = nl f * count f.
Proof.
  intros f. unfold variables_for_factor, count, trials. cbn [Nat.eqb Nat.add].
  rewrite Nat.sub_0_r, fold_cond_count. reflexivity.
Qed.

Lemma in_SA : forall f, In f SA <-> In f A /\ is_complex fb f = false.
Proof.
  intros f. unfold simple_act. rewrite filter_In. rewrite negb_true_iff. reflexivity.
Qed.

Lemma in_CA : forall f, In f CA <-> In f A /\ is_complex fb f = true.
Proof. intros f. unfold complex_act. rewrite filter_In. reflexivity. Qed.

Hypothesis wf : wf_layout fb = true.

Lemma act_nodup : NoDup A.
Proof.
  unfold wf_layout in wf. apply andb_prop in wf. destruct wf as [_ H]. apply nodupb_NoDup. exact H.
Qed.

Lemma simple_applies : forall f t, In f SA -> applies_at fb f t = true.
Proof.
  intros f t Hf. apply in_SA in Hf. destruct Hf as [HfA Hc].
  unfold wf_layout in wf. apply andb_prop in wf. destruct wf as [Hall _].
  rewrite forallb_forall in Hall. specialize (Hall f HfA). rewrite Hc in Hall. cbn [orb] in Hall.
  unfold applies_at, applies_to_trial. unfold always_applies in Hall.
  destruct (factor_at fb f) as [fd|]; [|reflexivity].
  destruct (ff_window fd) as [w|]; [|reflexivity].
  apply andb_prop in Hall. destruct Hall as [Hs Hst].
  apply Nat.eqb_eq in Hs. apply Nat.eqb_eq in Hst. rewrite Hs, Hst.
  rewrite Nat.mod_1_r. cbn [Nat.eqb andb Nat.add].
  apply andb_true_intro. split; [apply Nat.leb_le; lia | reflexivity].
Qed.

Lemma simple_count : forall f, In f SA -> count f = T.
Proof.
  intros f Hf. unfold count. rewrite filter_all_true.
  - apply seq_length.
  - intros t _. apply simple_applies. exact Hf.
Qed.

Lemma grid_sum : grid = list_sum (map vff SA).
Proof.
  unfold grid_variables, trials. rewrite vpt_sum. symmetry. apply sum_scaled.
  intros f Hf. rewrite vff_count, simple_count by exact Hf. reflexivity.
Qed.

Lemma vps_split : vps = grid + list_sum (map vff CA).
Proof.
  unfold variables_per_sample. rewrite fold_add_sum. cbn [Nat.add].
  rewrite (sum_split vff (is_complex fb) A). rewrite grid_sum. reflexivity.
Qed.

(** ** previous_trials_count *)

Definition prev (f t : nat) : nat := previous_trials_count fb f t.

Lemma prev_simple : forall f t, In f SA -> prev f t = t - 1.
Proof.
  intros f t Hf. unfold prev, previous_trials_count. rewrite filter_all_true.
  - apply seq_length.
  - intros x _. apply simple_applies. exact Hf.
Qed.

Lemma seq_split3 : forall a n, 1 <= a <= n -> seq 1 n = seq 1 (a - 1) ++ a :: seq (S a) (n - a).
Proof.
  intros a n H.
  replace n with ((a - 1) + S (n - a)) at 1 by lia.
  rewrite seq_app. f_equal. cbn [seq]. replace (1 + (a - 1)) with a by lia. reflexivity.
Qed.

Lemma prev_lt_count : forall f t, 1 <= t <= T -> applies_at fb f t = true -> prev f t < count f.
Proof.
  intros f t Ht Happ. unfold prev, previous_trials_count, count.
  change (fun t0 : nat => applies_at fb f t0) with (applies_at fb f).
  rewrite (seq_split3 t T Ht), filter_app, (filter_cons_true _ _ _ Happ).
  rewrite app_length. simpl length. lia.
Qed.

Lemma prev_mono : forall f t t', 1 <= t -> t < t' -> applies_at fb f t = true -> prev f t < prev f t'.
Proof.
  intros f t t' H1 Hlt Happ. unfold prev, previous_trials_count.
  change (fun t0 : nat => applies_at fb f t0) with (applies_at fb f).
  rewrite (seq_split3 t (t' - 1) ltac:(lia)), filter_app, (filter_cons_true _ _ _ Happ).
  rewrite app_length. simpl length. lia.
Qed.

Lemma prev_inj : forall f t t',
    1 <= t -> 1 <= t' -> applies_at fb f t = true -> applies_at fb f t' = true ->
    prev f t = prev f t' -> t = t'.
Proof.
  intros f t t' H1 H1' Ha Ha' Heq.
  destruct (Nat.lt_trichotomy t t') as [Hlt|[Heq'|Hgt]]; [|exact Heq'|].
  - pose proof (prev_mono f t t' H1 Hlt Ha). lia.
  - pose proof (prev_mono f t' t H1' Hgt Ha'). lia.
Qed.

(** ** offsets in the grid (simple factors) *)

Lemma so_some : forall fs f, In f fs ->
  exists o, simple_offset fb fs f = Some o /\ o + nl f <= list_sum (map nl fs).
Proof.
  induction fs as [|g fs IH]; intros f Hin; [contradiction|].
  simpl. destruct (g =? f) eqn:E.
  - apply Nat.eqb_eq in E. subst g. exists 0. split; [reflexivity | lia].
  - destruct Hin as [Hin|Hin]; [subst g; rewrite Nat.eqb_refl in E; discriminate|].
    destruct (IH f Hin) as [o [Ho Hb]]. rewrite Ho. exists (nl g + o). split; [reflexivity | lia].
Qed.

Lemma so_bound : forall fs f o, simple_offset fb fs f = Some o -> o + nl f <= list_sum (map nl fs).
Proof.
  induction fs as [|g fs IH]; intros f o H; [discriminate|].
  simpl in *. destruct (g =? f) eqn:E.
  - apply Nat.eqb_eq in E. subst g. injection H as <-. lia.
  - destruct (simple_offset fb fs f) as [o'|] eqn:Ho; [|discriminate].
    cbn [option_map] in H. injection H as <-. specialize (IH f o' Ho). lia.
Qed.

Lemma so_disjoint : forall fs f f' o o',
    simple_offset fb fs f = Some o -> simple_offset fb fs f' = Some o' -> f <> f' ->
    o + nl f <= o' \/ o' + nl f' <= o.
Proof.
  induction fs as [|g fs IH]; intros f f' o o' H H' Hne; [discriminate|].
  cbn [simple_offset] in H, H'.
  destruct (g =? f) eqn:E; destruct (g =? f') eqn:E'.
  - apply Nat.eqb_eq in E. apply Nat.eqb_eq in E'. congruence.
  - apply Nat.eqb_eq in E. subst g. injection H as <-.
    destruct (simple_offset fb fs f') as [p|]; [|discriminate]. cbn [option_map] in H'. injection H' as <-.
    left. lia.
  - apply Nat.eqb_eq in E'. subst g. injection H' as <-.
    destruct (simple_offset fb fs f) as [p|]; [|discriminate]. cbn [option_map] in H. injection H as <-.
    right. lia.
  - destruct (simple_offset fb fs f) as [p|] eqn:Hp; [|discriminate].
    destruct (simple_offset fb fs f') as [p'|] eqn:Hp'; [|discriminate].
    cbn [option_map] in H, H'. injection H as <-. injection H' as <-.
    destruct (IH f f' p p' Hp Hp' Hne); [left|right]; lia.
Qed.

Lemma so_nth : forall fs f o l,
    simple_offset fb fs f = Some o -> l < nl f -> nth_simple_tuple fb fs (o + l) = Some (f, l).
Proof.
  induction fs as [|g fs IH]; intros f o l H Hl; [discriminate|].
  cbn [simple_offset] in H. cbn [nth_simple_tuple]. destruct (g =? f) eqn:E.
  - apply Nat.eqb_eq in E. subst g. injection H as <-. cbn [Nat.add].
    replace (l <? nl f) with true by (symmetry; apply Nat.ltb_lt; exact Hl). reflexivity.
  - destruct (simple_offset fb fs f) as [p|] eqn:Hp; [|discriminate].
    cbn [option_map] in H. injection H as <-.
    replace (nl g + p + l <? nl g) with false by (symmetry; apply Nat.ltb_ge; lia).
    replace (nl g + p + l - nl g) with (p + l) by lia. apply IH; assumption.
Qed.

(** ** offsets after the grid (complex factors) *)

Lemma co_l : forall fs f l, In f fs -> complex_offset fb fs f l = complex_offset fb fs f 0 + l.
Proof.
  induction fs as [|g fs IH]; intros f l Hin; [contradiction|].
  cbn [complex_offset]. destruct (g =? f) eqn:E; [lia|].
  destruct Hin as [Hin|Hin]; [subst g; rewrite Nat.eqb_refl in E; discriminate|].
  rewrite (IH f l Hin). lia.
Qed.

Lemma co_bound : forall fs f, In f fs ->
  complex_offset fb fs f 0 + variables_for_factor fb f 0 0 <= list_sum (map vff fs).
Proof.
  induction fs as [|g fs IH]; intros f Hin; [contradiction|].
  simpl. destruct (g =? f) eqn:E.
  - apply Nat.eqb_eq in E. subst g. lia.
  - destruct Hin as [Hin|Hin]; [subst g; rewrite Nat.eqb_refl in E; discriminate|].
    specialize (IH f Hin). lia.
Qed.

Lemma co_disjoint : forall fs f f', In f fs -> In f' fs -> f <> f' ->
  complex_offset fb fs f 0 + variables_for_factor fb f 0 0 <= complex_offset fb fs f' 0 \/
  complex_offset fb fs f' 0 + variables_for_factor fb f' 0 0 <= complex_offset fb fs f 0.
Proof.
  induction fs as [|g fs IH]; intros f f' Hin Hin' Hne; [contradiction|].
  cbn [complex_offset].
  destruct (g =? f) eqn:E; destruct (g =? f') eqn:E'.
  - apply Nat.eqb_eq in E. apply Nat.eqb_eq in E'. congruence.
  - apply Nat.eqb_eq in E. subst g. left. lia.
  - apply Nat.eqb_eq in E'. subst g. right. lia.
  - destruct Hin as [Hin|Hin]; [subst g; rewrite Nat.eqb_refl in E; discriminate|].
    destruct Hin' as [Hin'|Hin']; [subst g; rewrite Nat.eqb_refl in E'; discriminate|].
    destruct (IH f f' Hin Hin' Hne); [left|right]; lia.
Qed.

(** ** closed forms of [encode_variable] *)

Lemma enc_simple : forall f l t,
    In f SA -> l < nl f ->
    exists o, simple_offset fb SA f = Some o /\
              encode_variable fb f l t = Some (o + l + vpt * (t - 1) + 1).
Proof.
  intros f l t Hf Hl. pose proof Hf as Hf'. apply in_SA in Hf'. destruct Hf' as [_ Hc].
  destruct (so_some SA f Hf) as [o [Ho _]]. exists o. split; [exact Ho|].
  unfold encode_variable, first_variable_for_level. rewrite Hc.
  replace (l <? nl f) with true by (symmetry; apply Nat.ltb_lt; exact Hl).
  rewrite Ho. cbn [option_map]. fold (prev f t). rewrite prev_simple by exact Hf. reflexivity.
Qed.

Lemma enc_complex : forall f l t,
    In f CA ->
    encode_variable fb f l t
    = Some (grid + complex_offset fb CA f 0 + l + nl f * prev f t + 1).
Proof.
  intros f l t Hf. pose proof Hf as Hf'. apply in_CA in Hf'. destruct Hf' as [_ Hc].
  unfold encode_variable, first_variable_for_level. rewrite Hc.
  rewrite (co_l CA f l Hf). fold (prev f t). f_equal. lia.
Qed.

Lemma act_cases : forall f, In f A -> In f SA \/ In f CA.
Proof.
  intros f Hf. destruct (is_complex fb f) eqn:E.
  - right. apply in_CA. split; assumption.
  - left. apply in_SA. split; assumption.
Qed.

Lemma simple_var_bounds : forall f l t o,
    In f SA -> l < nl f -> 1 <= t <= T -> simple_offset fb SA f = Some o ->
    o + l < vpt /\ o + l + vpt * (t - 1) + 1 <= grid.
Proof.
  intros f l t o Hf Hl Ht Ho. pose proof (so_bound SA f o Ho) as Hb. rewrite <- vpt_sum in Hb.
  split; [plia|]. unfold grid_variables, trials.
  assert (vpt * (t - 1) + vpt <= T * vpt) by nia. plia.
Qed.

Lemma complex_var_bounds : forall f l t,
    In f CA -> l < nl f -> 1 <= t <= T -> applies_at fb f t = true ->
    l + nl f * prev f t < variables_for_factor fb f 0 0 /\
    grid + complex_offset fb CA f 0 + l + nl f * prev f t + 1 <= vps.
Proof.
  intros f l t Hf Hl Ht Happ. pose proof (prev_lt_count f t Ht Happ) as Hp.
  pose proof (co_bound CA f Hf) as Hb. rewrite vps_split. rewrite vff_count in *.
  assert (l + nl f * prev f t < nl f * count f) by nia. split; plia.
Qed.

(** ** the theorems *)

Theorem encode_range : forall f l t,
    applicable f l t -> exists v, encode_variable fb f l t = Some v /\ 1 <= v <= vps.
Proof.
  intros f l t [HfA [Hl [Ht Happ]]]. destruct (act_cases f HfA) as [Hf|Hf].
  - destruct (enc_simple f l t Hf Hl) as [o [Ho He]]. rewrite He. eexists. split; [reflexivity|].
    destruct (simple_var_bounds f l t o Hf Hl Ht Ho) as [_ Hg]. rewrite vps_split. plia.
  - rewrite (enc_complex f l t Hf). eexists. split; [reflexivity|].
    destruct (complex_var_bounds f l t Hf Hl Ht Happ) as [_ Hg]. plia.
Qed.

Theorem encode_inj : forall f l t f' l' t',
    applicable f l t -> applicable f' l' t' ->
    encode_variable fb f l t = encode_variable fb f' l' t' ->
    f = f' /\ l = l' /\ t = t'.
Proof.
  intros f l t f' l' t' [HfA [Hl [Ht Happ]]] [HfA' [Hl' [Ht' Happ']]] Heq.
  destruct (act_cases f HfA) as [Hf|Hf]; destruct (act_cases f' HfA') as [Hf'|Hf'].
  - (* both in the grid *)
    destruct (enc_simple f l t Hf Hl) as [o [Ho He]].
    destruct (enc_simple f' l' t' Hf' Hl') as [o' [Ho' He']].
    rewrite He, He' in Heq. injection Heq as Heq.
    destruct (simple_var_bounds f l t o Hf Hl Ht Ho) as [Hb _].
    destruct (simple_var_bounds f' l' t' o' Hf' Hl' Ht' Ho') as [Hb' _].
    destruct (divmod_unique vpt (o + l) (t - 1) (o' + l') (t' - 1) Hb Hb' ltac:(plia)) as [Hol Htt].
    destruct (Nat.eq_dec f f') as [->|Hne].
    + rewrite Ho in Ho'. injection Ho' as <-. repeat split; plia.
    + destruct (so_disjoint SA f f' o o' Ho Ho' Hne); plia.
  - (* grid vs. complex: different regions *)
    destruct (enc_simple f l t Hf Hl) as [o [Ho He]].
    rewrite He, (enc_complex f' l' t' Hf') in Heq. injection Heq as Heq.
    destruct (simple_var_bounds f l t o Hf Hl Ht Ho) as [_ Hg]. plia.
  - destruct (enc_simple f' l' t' Hf' Hl') as [o' [Ho' He']].
    rewrite He', (enc_complex f l t Hf) in Heq. injection Heq as Heq.
    destruct (simple_var_bounds f' l' t' o' Hf' Hl' Ht' Ho') as [_ Hg]. plia.
  - (* both complex *)
    rewrite (enc_complex f l t Hf), (enc_complex f' l' t' Hf') in Heq. injection Heq as Heq.
    destruct (complex_var_bounds f l t Hf Hl Ht Happ) as [Hb _].
    destruct (complex_var_bounds f' l' t' Hf' Hl' Ht' Happ') as [Hb' _].
    destruct (Nat.eq_dec f f') as [<-|Hne].
    + destruct (divmod_unique (nl f) l (prev f t) l' (prev f t') Hl Hl' ltac:(plia)) as [Hll Hpp].
      repeat split; [exact Hll|]. apply (prev_inj f); try assumption; plia.
    + destruct (co_disjoint CA f f' Hf Hf' Hne); plia.
Qed.

(** the search of [decode_variable] among the complex factors, as a global function *)
Definition dgo (v0 : nat) : list nat -> option (nat * nat) :=
  fix go (fs : list nat) : option (nat * nat) :=
    match fs with
    | [] => None
    | g :: gs =>
      match first_variable_for_level fb g 0 with
      | Some start =>
        if (start <=? v0) && (v0 <? start + variables_for_factor fb g 0 0)
        then Some (g, (v0 - start) mod nlevels fb g) else go gs
      | None => go gs
      end
    end.

Lemma dgo_cons : forall v0 g gs,
    dgo v0 (g :: gs)
    = match first_variable_for_level fb g 0 with
      | Some start =>
        if (start <=? v0) && (v0 <? start + variables_for_factor fb g 0 0)
        then Some (g, (v0 - start) mod nlevels fb g) else dgo v0 gs
      | None => dgo v0 gs
      end.
Proof. reflexivity. Qed.

Lemma decode_variable_unfold : forall v,
    decode_variable fb v
    = if v - 1 <? grid then nth_simple_tuple fb SA ((v - 1) mod vpt) else dgo (v - 1) CA.
Proof. intros v. reflexivity. Qed.

Lemma dgo_spec : forall fs pre f v0,
    CA = pre ++ fs -> In f fs -> ~ In f pre ->
    grid + complex_offset fb CA f 0 <= v0 < grid + complex_offset fb CA f 0 + variables_for_factor fb f 0 0 ->
    dgo v0 fs = Some (f, (v0 - (grid + complex_offset fb CA f 0)) mod nl f).
Proof.
  induction fs as [|g fs IH]; intros pre f v0 Hca Hin Hpre Hv; [contradiction|].
  assert (HgCA : In g CA) by (rewrite Hca; apply in_or_app; right; left; reflexivity).
  assert (HfCA : In f CA) by (rewrite Hca; apply in_or_app; right; exact Hin).
  pose proof HgCA as Hgc. apply in_CA in Hgc. destruct Hgc as [_ Hgc].
  rewrite dgo_cons. unfold first_variable_for_level. rewrite Hgc.
  destruct (Nat.eq_dec g f) as [->|Hne].
  - replace ((grid + complex_offset fb CA f 0 <=? v0) &&
             (v0 <? grid + complex_offset fb CA f 0 + variables_for_factor fb f 0 0)) with true.
    + reflexivity.
    + symmetry. apply andb_true_intro. split; [apply Nat.leb_le | apply Nat.ltb_lt]; lia.
  - replace ((grid + complex_offset fb CA g 0 <=? v0) &&
             (v0 <? grid + complex_offset fb CA g 0 + variables_for_factor fb g 0 0)) with false.
    + apply (IH (pre ++ [g])).
      * rewrite <- app_assoc. exact Hca.
      * destruct Hin as [Hin|Hin]; [congruence | exact Hin].
      * intros H. apply in_app_or in H. destruct H as [H|[H|[]]]; [contradiction | congruence].
      * exact Hv.
    + symmetry. apply andb_false_iff.
      destruct (co_disjoint CA g f HgCA HfCA Hne).
      * right. apply Nat.ltb_ge. lia.
      * left. apply Nat.leb_gt. lia.
Qed.

Theorem decode_encode : forall f l t v,
    applicable f l t -> encode_variable fb f l t = Some v -> decode_variable fb v = Some (f, l).
Proof.
  intros f l t v [HfA [Hl [Ht Happ]]] He. rewrite decode_variable_unfold.
  destruct (act_cases f HfA) as [Hf|Hf].
  - destruct (enc_simple f l t Hf Hl) as [o [Ho He']]. rewrite He' in He. injection He as <-.
    destruct (simple_var_bounds f l t o Hf Hl Ht Ho) as [Hb Hg].
    replace (o + l + vpt * (t - 1) + 1 - 1) with (o + l + (t - 1) * vpt) by plia.
    replace (o + l + (t - 1) * vpt <? grid) with true by (symmetry; apply Nat.ltb_lt; plia).
    rewrite Nat.mod_add by plia. rewrite Nat.mod_small by exact Hb.
    apply so_nth; assumption.
  - rewrite (enc_complex f l t Hf) in He. injection He as <-.
    destruct (complex_var_bounds f l t Hf Hl Ht Happ) as [Hb Hg].
    set (v0 := grid + complex_offset fb CA f 0 + l + nl f * prev f t + 1 - 1).
    replace (v0 <? grid) with false by (symmetry; apply Nat.ltb_ge; unfold v0; plia).
    rewrite (dgo_spec CA [] f v0 eq_refl Hf ltac:(intros []) ltac:(unfold v0; plia)).
    f_equal. f_equal. unfold v0.
    replace (grid + complex_offset fb CA f 0 + l + nl f * prev f t + 1 - 1 - (grid + complex_offset fb CA f 0))
      with (l + prev f t * nl f) by plia.
    rewrite Nat.mod_add by plia. apply Nat.mod_small. exact Hl.
Qed.

(** ** onto: the list of all applicable triples, and pigeonhole *)

Definition triples : list (nat * nat * nat) :=
  flat_map (fun f => flat_map (fun t => map (fun l => (f, l, t)) (seq 0 (nl f)))
                              (filter (applies_at fb f) (seq 1 T))) A.

Lemma in_triples : forall f l t, In (f, l, t) triples <-> applicable f l t.
Proof.
  intros f l t. unfold triples, applicable. rewrite in_flat_map. split.
  - intros [f0 [Hf0 Hin]]. apply in_flat_map in Hin. destruct Hin as [t0 [Ht0 Hin]].
    apply in_map_iff in Hin. destruct Hin as [l0 [Heq Hl0]]. injection Heq as <- <- <-.
    apply filter_In in Ht0. destruct Ht0 as [Ht0 Happ]. apply in_seq in Ht0. apply in_seq in Hl0.
    repeat split; try assumption; lia.
  - intros [HfA [Hl [Ht Happ]]]. exists f. split; [exact HfA|].
    apply in_flat_map. exists t. split.
    + apply filter_In. split; [apply in_seq; lia | exact Happ].
    + apply in_map_iff. exists l. split; [reflexivity | apply in_seq; lia].
Qed.

Lemma triples_length : length triples = vps.
Proof.
  unfold triples. rewrite flat_map_len. unfold variables_per_sample. rewrite fold_add_sum. cbn [Nat.add].
  f_equal. apply map_ext. intros f. rewrite vff_count, flat_map_len.
  unfold count. induction (filter (applies_at fb f) (seq 1 T)) as [|t ts IH]; simpl.
  - lia.
  - rewrite IH, map_length, seq_length. lia.
Qed.

Lemma triples_nodup : NoDup triples.
Proof.
  unfold triples. apply NoDup_flat_map.
  - exact act_nodup.
  - intros f _. apply NoDup_flat_map.
    + apply NoDup_filter. apply seq_NoDup.
    + intros t _. apply NoDup_map_on; [apply seq_NoDup|]. intros x y _ _ H. congruence.
    + intros t t' b _ _ Hb Hb'. apply in_map_iff in Hb. apply in_map_iff in Hb'.
      destruct Hb as [x [<- _]]. destruct Hb' as [y [Hy _]]. congruence.
  - intros f f' b _ _ Hb Hb'. apply in_flat_map in Hb. apply in_flat_map in Hb'.
    destruct Hb as [t [_ Hb]]. destruct Hb' as [t' [_ Hb']].
    apply in_map_iff in Hb. apply in_map_iff in Hb'.
    destruct Hb as [x [<- _]]. destruct Hb' as [y [Hy _]]. congruence.
Qed.

Definition enc_or_0 (x : nat * nat * nat) : nat :=
  match encode_variable fb (fst (fst x)) (snd (fst x)) (snd x) with Some v => v | None => 0 end.

Theorem encode_onto : forall v,
    1 <= v <= vps -> exists f l t, applicable f l t /\ encode_variable fb f l t = Some v.
Proof.
  intros v Hv.
  assert (Hnd : NoDup (map enc_or_0 triples)).
  { apply NoDup_map_on; [exact triples_nodup|].
    intros [[f l] t] [[f' l'] t'] Hx Hy Heq. apply in_triples in Hx. apply in_triples in Hy.
    unfold enc_or_0 in Heq. cbn [fst snd] in Heq.
    destruct (encode_range f l t Hx) as [a [Ha _]]. destruct (encode_range f' l' t' Hy) as [a' [Ha' _]].
    rewrite Ha, Ha' in Heq. subst a'.
    destruct (encode_inj f l t f' l' t' Hx Hy ltac:(congruence)) as [-> [-> ->]]. reflexivity. }
  assert (Hincl : incl (map enc_or_0 triples) (seq 1 vps)).
  { intros a Ha. apply in_map_iff in Ha. destruct Ha as [[[f l] t] [Hea Hx]]. apply in_triples in Hx.
    unfold enc_or_0 in Hea. cbn [fst snd] in Hea.
    destruct (encode_range f l t Hx) as [b [Hb Hr]]. rewrite Hb in Hea. subst b. apply in_seq. lia. }
  assert (Hback : incl (seq 1 vps) (map enc_or_0 triples)).
  { apply NoDup_length_incl; [exact Hnd | rewrite map_length, triples_length, seq_length; lia | exact Hincl]. }
  assert (Hin : In v (map enc_or_0 triples)) by (apply Hback; apply in_seq; lia).
  apply in_map_iff in Hin. destruct Hin as [[[f l] t] [Hea Hx]]. apply in_triples in Hx.
  exists f, l, t. split; [exact Hx|].
  unfold enc_or_0 in Hea. cbn [fst snd] in Hea.
  destruct (encode_range f l t Hx) as [b [Hb _]]. rewrite Hb in Hea. subst b. exact Hb.
Qed.

Theorem fresh_above : forall f l t v,
    applicable f l t -> encode_variable fb f l t = Some v -> v < vps + 1.
Proof.
  intros f l t v Happ He. destruct (encode_range f l t Happ) as [v' [He' Hr]].
  rewrite He in He'. injection He' as <-. lia.
Qed.

End LayoutProofs.
