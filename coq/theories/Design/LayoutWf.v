(** Well-formedness of a flat record as far as the variable layout reads it
    (hypothesis of the C14 theorems; executable, so that the harness can check
    on every accepted design that the real block satisfies it).

    - a factor of [act_design] without complex window applies to every trial
      (it is not derived, or its window has start 0 and stride 1): this is what
      [has_complex_window = False] means in primitive.py;
    - [act_design] lists no factor twice. *)
From Coq Require Import List Bool Arith String.
From SP Require Import Design.Flat Design.Layout.
Import ListNotations.

Fixpoint nodupb (l : list nat) : bool :=
  match l with
  | [] => true
  | x :: r => negb (existsb (Nat.eqb x) r) && nodupb r
  end.

Definition always_applies (fb : flat) (f : nat) : bool :=
  match factor_at fb f with
  | Some fd =>
    match ff_window fd with
    | None => true
    | Some w => (win_start w =? 0) && (win_stride w =? 1)
    end
  | None => true
  end.

Definition wf_layout (fb : flat) : bool :=
  forallb (fun f => is_complex fb f || always_applies fb f) (fl_act fb) && nodupb (fl_act fb).
