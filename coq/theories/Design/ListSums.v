(** List algebra for the T2(c) proof: cartesian products ([DocSem.product]) of mapped domains,
    sums over products (sum of products = product of sums), sums over a filter and its complement. *)
From Coq Require Import List Arith Lia Bool Ring.
From SP Require Import Design.DocSem.
Import ListNotations.

Definition zipw {A B C} (g : A -> B -> C) (xs : list A) (ys : list B) : list C :=
  map (fun xy => g (fst xy) (snd xy)) (combine xs ys).

Lemma flat_map_map : forall {A B C} (f : B -> list C) (g : A -> B) l, flat_map f (map g l) = flat_map (fun x => f (g x)) l.
Proof. intros. induction l as [|x l IH]; [reflexivity|]. cbn. rewrite IH. reflexivity. Qed.

Lemma map_flat_map : forall {A B C} (f : A -> list B) (g : B -> C) l, map g (flat_map f l) = flat_map (fun x => map g (f x)) l.
Proof. intros. induction l as [|x l IH]; [reflexivity|]. cbn. rewrite map_app, IH. reflexivity. Qed.

Lemma flat_map_ext_in : forall {A B} (f g : A -> list B) l, (forall x, In x l -> f x = g x) -> flat_map f l = flat_map g l.
Proof.
  intros A B f g l H. induction l as [|x l IH]; [reflexivity|]. cbn. rewrite (H x (or_introl eq_refl)), IH; [reflexivity|].
  intros y Hy. apply H. right. exact Hy.
Qed.

(** the product of mapped domains is the image of the product of the domains *)
Lemma product_map2 : forall {A B C} (g : A -> B -> C) (D : A -> list B) (xs : list A),
  product (map (fun x => map (g x) (D x)) xs) = map (zipw g xs) (product (map D xs)).
Proof.
  intros A B C g D xs. induction xs as [|x xs IH]; [reflexivity|]. cbn [map product]. rewrite IH.
  rewrite flat_map_map, map_flat_map. apply flat_map_ext_in. intros b _. rewrite !map_map. reflexivity.
Qed.

(** sums *)
Lemma list_sum_cons : forall x l, list_sum (x :: l) = x + list_sum l.
Proof. reflexivity. Qed.

Lemma fold_add_sum : forall {A} (g : A -> nat) l a, fold_left (fun acc x => acc + g x) l a = a + list_sum (map g l).
Proof. intros A g l. induction l as [|x l IH]; intro a; cbn [fold_left map]; [cbn; lia|]. rewrite IH, list_sum_cons. lia. Qed.

Lemma list_sum_flat_map : forall {A B} (f : A -> list B) (g : B -> nat) l,
  list_sum (map g (flat_map f l)) = list_sum (map (fun x => list_sum (map g (f x))) l).
Proof. intros. induction l as [|x l IH]; [reflexivity|]. cbn [flat_map map]. rewrite map_app, list_sum_app, IH, list_sum_cons. reflexivity. Qed.

Lemma list_sum_map_mul : forall {A} (g : A -> nat) k l, list_sum (map (fun x => k * g x) l) = k * list_sum (map g l).
Proof. intros. induction l as [|x l IH]; cbn [map]; [cbn; lia|]. rewrite !list_sum_cons, IH. lia. Qed.

Definition prod_list (t : list nat) : nat := fold_left Nat.mul t 1.

Lemma fold_mul_acc : forall t a, fold_left Nat.mul t a = a * fold_left Nat.mul t 1.
Proof. induction t as [|x t IH]; intro a; cbn [fold_left]; [lia|]. rewrite (IH (a * x)), (IH (1 * x)). ring. Qed.

Lemma prod_list_cons : forall x t, prod_list (x :: t) = x * prod_list t.
Proof. intros. unfold prod_list. cbn [fold_left]. rewrite fold_mul_acc. ring. Qed.

Lemma list_sum_mul_r : forall k l, list_sum (map (fun x => x * k) l) = list_sum l * k.
Proof. intros. induction l as [|x l IH]; cbn [map]; [reflexivity|]. rewrite !list_sum_cons, IH. ring. Qed.

(** sum of products = product of sums *)
Lemma sum_product : forall (Ds : list (list nat)),
  list_sum (map prod_list (product Ds)) = prod_list (map (fun d => list_sum d) Ds).
Proof.
  induction Ds as [|d Ds IH]; [reflexivity|]. cbn [product map]. rewrite prod_list_cons, <- IH.
  rewrite list_sum_flat_map.
  rewrite (map_ext _ (fun x => x * list_sum (map prod_list (product Ds)))).
  - apply list_sum_mul_r.
  - intro x. rewrite map_map. rewrite (map_ext _ (fun t => x * prod_list t)) by (intro t; apply prod_list_cons).
    apply list_sum_map_mul.
Qed.

(** a filter and its complement *)
Lemma list_sum_filter_split : forall {A} (P : A -> bool) (g : A -> nat) l,
  list_sum (map g l) = list_sum (map g (filter P l)) + list_sum (map g (filter (fun x => negb (P x)) l)).
Proof.
  intros. induction l as [|x l IH]; [reflexivity|]. cbn [filter map]. destruct (P x); cbn [negb map]; rewrite !list_sum_cons; lia.
Qed.

Lemma fold_cond_sum : forall {A} (P : A -> bool) (g : A -> nat) l a,
  fold_left (fun acc x => if P x then acc + g x else acc) l a = a + list_sum (map g (filter P l)).
Proof.
  intros A P g l. induction l as [|x l IH]; intro a; cbn [fold_left filter]; [cbn; lia|]. rewrite IH.
  destruct (P x); cbn [map]; rewrite ?list_sum_cons; lia.
Qed.

Lemma fold_mul_map : forall {A} (g : A -> nat) l a, fold_left (fun n x => n * g x) l a = fold_left Nat.mul (map g l) a.
Proof. intros A g l. induction l as [|x l IH]; intro a; [reflexivity|]. cbn. apply IH. Qed.
