(** Proofs about [Layout.map_block_trial_ranges] (property C26): the windows a
    block-level constraint is applied to. *)
From Coq Require Import List Bool Arith Lia.
From SP Require Import Design.Flat Design.Layout.
Import ListNotations.

Section Ranges.
Variable fb : flat.

Let T := fl_trials fb.

(** the [while] loop, closed form: windows number 0 .. n-1, where n is the number
    of j with start + j*step < stop *)
Lemma ranges_loop_closed :
  forall fuel start e step stop,
    0 < step -> stop <= start + fuel ->
    exists n,
      ranges_loop fb fuel start e step stop
      = map (fun j => (start + j * step, Nat.min (e + j * step) T)) (seq 0 n)
      /\ (forall j, j < n <-> start + j * step < stop).
Proof.
  induction fuel as [|fuel IH]; intros start e step stop Hstep Hfuel.
  - exists 0. split; [reflexivity|]. intros j. split; [lia|]. intros H. nia.
  - cbn [ranges_loop]. destruct (start <? stop) eqn:Hlt.
    + apply Nat.ltb_lt in Hlt.
      destruct (IH (start + step) (e + step) step stop Hstep ltac:(lia)) as [n [Heq Hn]].
      exists (S n). split.
      * rewrite Heq. cbn [seq map]. f_equal.
        { unfold trials, T. f_equal; lia. }
        rewrite <- seq_shift, map_map. apply map_ext. intros j.
        f_equal; [|f_equal]; cbn [Nat.mul]; lia.
      * intros j. destruct j as [|j].
        { split; intros _; lia. }
        { specialize (Hn j). cbn [Nat.mul]. split; intros H.
          - assert (j < n) by lia. apply Hn in H0. lia.
          - assert (start + step + j * step < stop) by lia. apply Hn in H0. lia. }
    + apply Nat.ltb_ge in Hlt. exists 0. split; [reflexivity|].
      intros j. split; [lia|]. intros H. nia.
Qed.

Definition window_of (g : geometry) (j : nat) : nat * nat :=
  let step := g_trials g - g_preamble g in
  (j * step, Nat.min (j * step + g_trials g) T).

(** Block-level constraints ([within_block = Some g], alignment other than
    POST_PREAMBLE): window j is [j*step, min(j*step + num_trials_b, T)) for every
    j with j*step < T - preamble_b, in order, where step = num_trials_b - preamble_b. *)
Lemma ranges_spec :
  forall g,
    g_preamble g < g_trials g ->
    fl_alignment fb <> PostPreamble ->
    exists n,
      map_block_trial_ranges fb (Some g) = Some (map (window_of g) (seq 0 n))
      /\ (forall j, j < n <-> j * (g_trials g - g_preamble g) < T - g_preamble g).
Proof.
  intros g Hp Hal. unfold map_block_trial_ranges.
  replace (g_trials g <=? g_preamble g) with false by (symmetry; apply Nat.leb_gt; exact Hp).
  cbn [andb].
  destruct (ranges_loop_closed (S (trials fb)) 0 (g_trials g) (g_trials g - g_preamble g)
                               (trials fb - g_preamble g) ltac:(lia) ltac:(unfold trials; lia))
    as [n [Heq Hn]].
  exists n. split.
  - assert (Hl : ranges_loop fb (S (trials fb)) 0 (g_trials g) (g_trials g - g_preamble g) (trials fb - g_preamble g)
                 = map (window_of g) (seq 0 n)).
    { rewrite Heq. apply map_ext. intros j. unfold window_of. f_equal. f_equal. lia. }
    destruct (fl_alignment fb); [contradiction Hal; reflexivity| |]; rewrite Hl; reflexivity.
  - intros j. specialize (Hn j). unfold trials in Hn. fold T in Hn. cbn [Nat.add] in Hn. exact Hn.
Qed.

(** Combinator-level / top-level constraints ([within_block = None]): the whole sequence. *)
Lemma ranges_none : 0 < T -> map_block_trial_ranges fb None = Some [(0, T)].
Proof.
  intros HT. unfold map_block_trial_ranges. f_equal.
  destruct (ranges_loop_closed (S (trials fb)) 0 (trials fb) (trials fb) (trials fb) HT ltac:(lia))
    as [n [Heq Hn]].
  rewrite Heq.
  assert (n = 1).
  { destruct n as [|[|n]]; [| reflexivity |].
    - assert (0 < 0) by (apply Hn; cbn; exact HT). lia.
    - assert (0 + 1 * trials fb < trials fb) by (apply Hn; lia). lia. }
  subst n. cbn [seq map]. unfold trials, T. f_equal. f_equal; lia.
Qed.

(** every window is a non-empty range inside [0, T) *)
Lemma ranges_inside :
  forall g rs s e,
    g_preamble g < g_trials g ->
    fl_alignment fb <> PostPreamble ->
    map_block_trial_ranges fb (Some g) = Some rs ->
    In (s, e) rs -> s < e /\ e <= T.
Proof.
  intros g rs s e Hp Hal Hrs Hin.
  destruct (ranges_spec g Hp Hal) as [n [Heq Hn]].
  rewrite Heq in Hrs. injection Hrs as <-.
  apply in_map_iff in Hin. destruct Hin as [j [Hj Hjn]].
  apply in_seq in Hjn. assert (Hlt : j < n) by lia. apply Hn in Hlt.
  unfold window_of in Hj. injection Hj as <- <-. split; lia.
Qed.

(** every trial lies in some window *)
Lemma ranges_cover :
  forall g rs t,
    g_preamble g < g_trials g ->
    g_preamble g < T ->
    fl_alignment fb <> PostPreamble ->
    map_block_trial_ranges fb (Some g) = Some rs ->
    t < T ->
    exists s e, In (s, e) rs /\ s <= t < e.
Proof.
  intros g rs t Hp HpT Hal Hrs Ht.
  destruct (ranges_spec g Hp Hal) as [n [Heq Hn]].
  rewrite Heq in Hrs. injection Hrs as <-.
  set (step := g_trials g - g_preamble g) in *.
  assert (Hstep : 0 < step) by (unfold step; lia).
  assert (Hn0 : 0 < n) by (apply Hn; lia).
  (* the window index: t / step if that window exists, else the last one *)
  destruct (Nat.lt_ge_cases (t / step) n) as [Hq|Hq].
  - exists ((t / step) * step), (Nat.min ((t / step) * step + g_trials g) T). split.
    + apply in_map_iff. exists (t / step). split; [reflexivity|]. apply in_seq. lia.
    + pose proof (Nat.div_mod t step ltac:(lia)) as Hdm.
      pose proof (Nat.mod_upper_bound t step ltac:(lia)) as Hmb.
      split; [nia|]. apply Nat.min_glb_lt; [|exact Ht].
      unfold step in *. nia.
  - exists ((n - 1) * step), (Nat.min ((n - 1) * step + g_trials g) T). split.
    + apply in_map_iff. exists (n - 1). split; [reflexivity|]. apply in_seq. lia.
    + assert (Hlast : ~ n * step < T - g_preamble g) by (intros H; apply Hn in H; lia).
      pose proof (Nat.div_mod t step ltac:(lia)) as Hdm.
      split.
      * assert ((n - 1) * step <= (t / step) * step) by (apply Nat.mul_le_mono_r; lia). nia.
      * apply Nat.min_glb_lt; [|exact Ht].
        assert (n * step = (n - 1) * step + step) by nia.
        unfold step in *. lia.
Qed.

End Ranges.
