(** Reference semantics of an experiment design, written from the documentation
    (docs/_source/api/*.rst, guide) and *not* from the code: DESIGN.md Appendix B.

    [sem] is the semantic normal form of a design; a trial sequence [tseq] gives,
    per factor, one cell per trial: [Some l] (level index) or [None] (the factor
    does not apply: the empty string in the library's output).  [valid_b] decides
    validity.  Nothing here shares definitions with the models of the code
    (Layout / Compile / Mismatch / Random). *)
From Coq Require Import ZArith List Bool Lia Arith.
Import ListNotations.

(** A derivation window: the factors it reads, width, stride, start (0-based
    trial-group index of the first application) and, per level, the accepted
    argument tuples: one entry per depended-on factor, each a list of [width]
    cells, oldest first. *)
Record dwindow := {
  w_deps : list nat;
  w_width : nat;
  w_stride : nat;
  w_start : nat;
  w_table : list (list (list (list (option nat))))
}.

Record dfactor := {
  f_nlevels : nat;
  f_sustain : nat;
  f_derived : option dwindow
}.

(** A crossing: crossed factors, first crossing trial, chunk length, and the
    required number of occurrences per full chunk of each allowed combination
    (combinations not listed must not occur at all in crossing trials). *)
Record dcrossing := {
  c_factors : list nat;
  c_first : nat;
  c_chunk : nat;
  c_mult : list (list nat * nat)
}.

Inductive ckind :=
| KAtMost (k : nat) | KAtLeast (k : nat) | KExactlyInARow (k : nat) | KExactlyK (k : nat)
| KExclude
| KPin (i : Z) (sustain : nat)
| KSequential (first sustain : nat)
| KLatin (others : list (nat * nat)) (main_nlevels first sustain : nat).
(* KLatin: the constrained factor [k_factor] is the main factor; [others] lists
   the remaining factors with their level counts, in declaration order with the
   main factor removed; see [latin_ok]. *)

Record dconstraint := {
  k_kind : ckind;
  k_factor : nat;
  k_level : nat;
  k_windows : list (nat * nat)   (* half-open trial ranges [a, b) *)
}.

Record sem := {
  s_trials : nat;
  s_factors : list dfactor;
  s_crossings : list dcrossing;
  s_constraints : list dconstraint
}.

Definition cell := option nat.
Definition tseq := list (list cell).

Definition cell_eqb (a b : cell) : bool :=
  match a, b with
  | None, None => true
  | Some x, Some y => Nat.eqb x y
  | _, _ => false
  end.

Fixpoint list_eqb {A} (eqb : A -> A -> bool) (a b : list A) : bool :=
  match a, b with
  | [], [] => true
  | x :: a', y :: b' => eqb x y && list_eqb eqb a' b'
  | _, _ => false
  end.

Definition get_cell (s : tseq) (f t : nat) : cell := nth t (nth f s []) None.

(** V2: where a factor applies. *)
Definition applies (fd : dfactor) (t : nat) : bool :=
  match f_derived fd with
  | None => true
  | Some w =>
    let g := t / f_sustain fd in
    (w_start w <=? g) && (((g - w_start w) mod w_stride w) =? 0)
  end.

(** V3: the window argument of derived factor [fd] at trial [t]. *)
Definition window_args (s : tseq) (fd : dfactor) (w : dwindow) (t : nat) : list (list cell) :=
  let su := f_sustain fd in
  let t0 := (t / su) * su in
  map (fun d =>
         map (fun j =>
                let back := (w_width w - 1 - j) * su in
                if back <=? t0 then get_cell s d (t0 - back) else None)
             (List.seq 0 (w_width w)))
      (w_deps w).

Definition args_eqb : list (list cell) -> list (list cell) -> bool :=
  list_eqb (list_eqb cell_eqb).

Definition accepts (w : dwindow) (l : nat) (args : list (list cell)) : bool :=
  existsb (args_eqb args) (nth l (w_table w) []).

Definition factor_ok (S : sem) (s : tseq) (f : nat) (fd : dfactor) : bool :=
  (length (nth f s []) =? s_trials S) &&
  forallb (fun t =>
    match get_cell s f t with
    | Some l =>
      applies fd t && (l <? f_nlevels fd) &&
      cell_eqb (get_cell s f ((t / f_sustain fd) * f_sustain fd)) (Some l) &&
      match f_derived fd with
      | None => true
      | Some w => accepts w l (window_args s fd w t)
      end
    | None => negb (applies fd t)
    end) (List.seq 0 (s_trials S)).

(** V5: crossings. *)
Definition combo_at (s : tseq) (fs : list nat) (t : nat) : list cell :=
  map (fun f => get_cell s f t) fs.

Definition combo_eqb (c : list nat) (cs : list cell) : bool :=
  list_eqb cell_eqb (map Some c) cs.

Definition count_combo (s : tseq) (fs : list nat) (c : list nat) (a b : nat) : nat :=
  length (filter (fun t => combo_eqb c (combo_at s fs t)) (List.seq a (b - a))).

Fixpoint chunks_ok (fuel : nat) (S : sem) (s : tseq) (c : dcrossing) (a : nat) : bool :=
  match fuel with
  | O => true
  | S fuel' =>
    if s_trials S <=? a then true
    else
      let b := a + c_chunk c in
      let full := b <=? s_trials S in
      let b' := Nat.min b (s_trials S) in
      forallb (fun cm =>
                 let n := count_combo s (c_factors c) (fst cm) a b' in
                 if full then n =? snd cm else n <=? snd cm) (c_mult c) &&
      forallb (fun t => existsb (fun cm => combo_eqb (fst cm) (combo_at s (c_factors c) t)) (c_mult c))
              (List.seq a (b' - a)) &&
      chunks_ok fuel' S s c b
  end.

Definition crossing_ok (S : sem) (s : tseq) (c : dcrossing) : bool :=
  (0 <? c_chunk c) && chunks_ok (Datatypes.S (s_trials S)) S s c (c_first c).

(** V6: constraints.  Maximal runs of [Some l] inside a list of cells. *)
Fixpoint runs_aux (l : nat) (cells : list cell) (cur : nat) : list nat :=
  match cells with
  | [] => if cur =? 0 then [] else [cur]
  | c :: rest =>
    if cell_eqb c (Some l) then runs_aux l rest (Datatypes.S cur)
    else if cur =? 0 then runs_aux l rest 0 else cur :: runs_aux l rest 0
  end.
Definition runs (l : nat) (cells : list cell) : list nat := runs_aux l cells 0.

Definition slice {A} (xs : list A) (a b : nat) : list A := firstn (b - a) (skipn a xs).

Definition count_level (l : nat) (cells : list cell) : nat :=
  length (filter (fun c => cell_eqb c (Some l)) cells).

(** LatinSquare (trial groups of [sustain] trials; [sustain] = 1 outside Nest):
    segment [r] (of [N = main_nlevels] trial groups) uses the
    rotation vector = [r] written in mixed radix over the other factors (last
    factor fastest); within a segment, if the main factor has level [k] then
    the other factor [i] has level [(k + rot_i) mod n_i]; and each main level
    occurs at most once per segment. *)
Fixpoint rotations (others : list (nat * nat)) (r : nat) : list nat :=
  (* digits of r, last factor fastest; computed right to left *)
  match others with
  | [] => []
  | _ :: _ =>
    let fix go (rev_others : list (nat * nat)) (r : nat) : list nat :=
        match rev_others with
        | [] => []
        | (_, n) :: tl => (r mod n) :: go tl (r / n)
        end in
    rev (go (rev others) r)
  end.

Definition latin_ok (S : sem) (s : tseq) (mainf : nat) (others : list (nat * nat))
           (nmain first sustain : nat) : bool :=
  let T := s_trials S in
  let grp (t : nat) := (t - first) / sustain in
  forallb (fun t =>
    if (t <? first) then true else
    let seg := grp t / nmain in
    match get_cell s mainf t with
    | None => false
    | Some k =>
      let rots := rotations others seg in
      forallb (fun p =>
                 let '((f, n), rot) := p in
                 cell_eqb (get_cell s f t) (Some ((k + rot) mod n)))
              (combine others rots) &&
      (* each main level at most once (one trial group) per segment *)
      forallb (fun t' =>
                 if (first <=? t') && (grp t' / nmain =? seg) && negb (grp t' =? grp t)
                 then negb (cell_eqb (get_cell s mainf t') (Some k)) else true)
              (List.seq 0 T)
    end) (List.seq 0 T).

Definition in_range (p a b : Z) : bool := ((a <=? p) && (p <? b))%Z.

Definition constraint_ok (S : sem) (s : tseq) (c : dconstraint) : bool :=
  let row := nth (k_factor c) s [] in
  let l := k_level c in
  match k_kind c with
  | KAtMost k => forallb (fun w => forallb (fun n => n <=? k) (runs l (slice row (fst w) (snd w)))) (k_windows c)
  | KAtLeast k => forallb (fun w => forallb (fun n => k <=? n) (runs l (slice row (fst w) (snd w)))) (k_windows c)
  | KExactlyInARow k => forallb (fun w => forallb (fun n => n =? k) (runs l (slice row (fst w) (snd w)))) (k_windows c)
  | KExactlyK k => forallb (fun w => count_level l (slice row (fst w) (snd w)) =? k) (k_windows c)
  | KExclude => count_level l row =? 0
  | KPin i su =>
    let pos (w : nat * nat) : Z :=
        (if (0 <=? i)%Z then Z.of_nat (fst w) + i * Z.of_nat su
         else Z.of_nat (snd w) + i * Z.of_nat su)%Z in
    existsb (fun w => in_range (pos w) (Z.of_nat (fst w)) (Z.of_nat (snd w))) (k_windows c) &&
    forallb (fun w =>
               let p := pos w in
               if in_range p (Z.of_nat (fst w)) (Z.of_nat (snd w)) then
                 forallb (fun j => cell_eqb (nth (Z.to_nat p + j) row None) (Some l)) (List.seq 0 su)
               else true) (k_windows c)
  | KSequential first su =>
    let n := match nth_error (s_factors S) (k_factor c) with Some fd => f_nlevels fd | None => 0 end in
    forallb (fun t =>
               if (t <? first) then true
               else cell_eqb (nth t row None) (Some (((t - first) / su) mod n)))
            (List.seq 0 (s_trials S))
  | KLatin others nmain first su => latin_ok S s (k_factor c) others nmain first su
  end.

Definition index_list {A} (xs : list A) : list (nat * A) := combine (List.seq 0 (length xs)) xs.

Definition valid_b (S : sem) (s : tseq) : bool :=
  (length s =? length (s_factors S)) &&
  forallb (fun p => factor_ok S s (fst p) (snd p)) (index_list (s_factors S)) &&
  forallb (crossing_ok S s) (s_crossings S) &&
  forallb (constraint_ok S s) (s_constraints S).

Definition Valid (S : sem) (s : tseq) : Prop := valid_b S s = true.

(** * Enumeration of all valid sequences: assign every non-derived factor one
    level per sustain group, fill derived factors (in list order: a derived
    factor may only depend on factors listed before it) with the first
    accepting level, keep what [valid_b] accepts. *)
Fixpoint all_words (nl : nat) (len : nat) : list (list nat) :=
  match len with
  | O => [[]]
  | Datatypes.S len' => flat_map (fun w => map (fun l => l :: w) (List.seq 0 nl)) (all_words nl len')
  end.

Definition expand_groups (su T : nat) (w : list nat) : list cell :=
  map (fun t => Some (nth (t / su) w 0)) (List.seq 0 T).

Definition ngroups (su T : nat) : nat := (T + su - 1) / su.

Definition derive_row (S : sem) (s : tseq) (f : nat) (fd : dfactor) (w : dwindow) : option (list cell) :=
  (* s holds rows for factors < f already; rows >= f are missing *)
  let fix go (ts : list nat) : option (list cell) :=
      match ts with
      | [] => Some []
      | t :: ts' =>
        match go ts' with
        | None => None
        | Some rest =>
          if applies fd t then
            let args := window_args s fd w t in
            match find (fun l => accepts w l args) (List.seq 0 (f_nlevels fd)) with
            | Some l => Some (Some l :: rest)
            | None => None
            end
          else Some (None :: rest)
        end
      end in
  go (List.seq 0 (s_trials S)).

Fixpoint complete (S : sem) (fds : list (nat * dfactor)) (partial : list tseq) : list tseq :=
  match fds with
  | [] => partial
  | (f, fd) :: rest =>
    let next :=
        match f_derived fd with
        | None =>
          let words := all_words (f_nlevels fd) (ngroups (f_sustain fd) (s_trials S)) in
          flat_map (fun s => map (fun w => s ++ [expand_groups (f_sustain fd) (s_trials S) w]) words) partial
        | Some w =>
          flat_map (fun s => match derive_row S s f fd w with
                             | Some row => [s ++ [row]]
                             | None => []
                             end) partial
        end in
    complete S rest next
  end.

Definition all_valid (S : sem) : list tseq :=
  filter (valid_b S) (complete S (index_list (s_factors S)) [[]]).

Definition candidates_count (S : sem) : nat := length (complete S (index_list (s_factors S)) [[]]).
