(** Two semantic normal forms that differ only in the order (and repetition) of the
    (combination, multiplicity) pairs of their crossings have the same valid sequences.
    [sem_eqv] is the relation decided per program by extract/drv_t2.ml between
    [code_sem (create_flat (plain_input p))] and [ds_sem (doc_sem p)]. *)
From Coq Require Import ZArith List Bool Arith Lia.
From SP Require Import Design.Sem.
Import ListNotations.

Definition same_set {A} (l1 l2 : list A) : Prop := forall x, In x l1 <-> In x l2.

Definition crossing_eqv (c1 c2 : dcrossing) : Prop :=
  c_factors c1 = c_factors c2 /\ c_first c1 = c_first c2 /\ c_chunk c1 = c_chunk c2 /\
  same_set (c_mult c1) (c_mult c2).

Definition sem_eqv (S1 S2 : sem) : Prop :=
  s_trials S1 = s_trials S2 /\ s_factors S1 = s_factors S2 /\ s_constraints S1 = s_constraints S2 /\
  Forall2 crossing_eqv (s_crossings S1) (s_crossings S2).

Lemma forallb_same_set : forall {A} (P : A -> bool) l1 l2, same_set l1 l2 -> forallb P l1 = forallb P l2.
Proof.
  intros A P l1 l2 H. destruct (forallb P l1) eqn:E1; destruct (forallb P l2) eqn:E2; try reflexivity.
  - rewrite forallb_forall in E1. assert (forallb P l2 = true) by (apply forallb_forall; intros x Hx; apply E1; apply H; exact Hx). congruence.
  - rewrite forallb_forall in E2. assert (forallb P l1 = true) by (apply forallb_forall; intros x Hx; apply E2; apply H; exact Hx). congruence.
Qed.

Lemma existsb_same_set : forall {A} (P : A -> bool) l1 l2, same_set l1 l2 -> existsb P l1 = existsb P l2.
Proof.
  intros A P l1 l2 H. destruct (existsb P l1) eqn:E1; destruct (existsb P l2) eqn:E2; try reflexivity.
  - apply existsb_exists in E1. destruct E1 as [x [Hx Px]].
    assert (existsb P l2 = true) by (apply existsb_exists; exists x; split; [apply H; exact Hx|exact Px]). congruence.
  - apply existsb_exists in E2. destruct E2 as [x [Hx Px]].
    assert (existsb P l1 = true) by (apply existsb_exists; exists x; split; [apply H; exact Hx|exact Px]). congruence.
Qed.

Lemma forallb_ext_all : forall {A} (P Q : A -> bool) l, (forall x, P x = Q x) -> forallb P l = forallb Q l.
Proof. intros A P Q l H. induction l as [|x l IH]; [reflexivity|]. cbn. rewrite H, IH. reflexivity. Qed.

Lemma chunks_ok_eqv : forall S1 S2 s c1 c2, s_trials S1 = s_trials S2 -> crossing_eqv c1 c2 ->
  forall fuel a, chunks_ok fuel S1 s c1 a = chunks_ok fuel S2 s c2 a.
Proof.
  intros S1 S2 s c1 c2 HT [Hf [_ [Hc Hm]]] fuel. induction fuel as [|fuel IH]; intro a; [reflexivity|].
  cbn [chunks_ok]. rewrite HT, Hc, Hf, IH.
  rewrite (forallb_same_set _ _ _ Hm).
  rewrite (forallb_ext_all _ (fun t => existsb (fun cm => combo_eqb (fst cm) (combo_at s (c_factors c2) t)) (c_mult c2)));
    [reflexivity|]. intro t. apply existsb_same_set. exact Hm.
Qed.

Lemma crossing_ok_eqv : forall S1 S2 s c1 c2, s_trials S1 = s_trials S2 -> crossing_eqv c1 c2 ->
  crossing_ok S1 s c1 = crossing_ok S2 s c2.
Proof.
  intros S1 S2 s c1 c2 HT H. unfold crossing_ok. rewrite (chunks_ok_eqv S1 S2 s c1 c2 HT H).
  destruct H as [_ [Hfi [Hc _]]]. rewrite HT, Hfi, Hc. reflexivity.
Qed.

Theorem sem_eqv_valid : forall S1 S2, sem_eqv S1 S2 -> forall s, valid_b S1 s = valid_b S2 s.
Proof.
  intros S1 S2 [HT [HF [HK HX]]] s. unfold valid_b. rewrite HF, HK.
  assert (E1 : forall fds, forallb (fun p => factor_ok S1 s (fst p) (snd p)) fds = forallb (fun p => factor_ok S2 s (fst p) (snd p)) fds).
  { intro fds. apply forallb_ext_all. intro x. unfold factor_ok. rewrite HT. reflexivity. }
  assert (E2 : forallb (crossing_ok S1 s) (s_crossings S1) = forallb (crossing_ok S2 s) (s_crossings S2)).
  { induction HX as [|c1 c2 l1 l2 Hc _ IH]; [reflexivity|]. cbn [forallb]. rewrite IH, (crossing_ok_eqv S1 S2 s c1 c2 HT Hc). reflexivity. }
  assert (E3 : forall k, constraint_ok S1 s k = constraint_ok S2 s k).
  { intro k. unfold constraint_ok. rewrite HT, HF. destruct (k_kind k); try reflexivity. unfold latin_ok. rewrite HT. reflexivity. }
  rewrite E1, E2. f_equal. apply forallb_ext_all. exact E3.
Qed.
