(** [sem_eqv_t]: [sem_eqv] (Design/SemEqv.v) up to the presentation of the acceptance tables of
    within-trial derived factors.  The flat record lists the accepted argument tuples of a derived
    level in cross-product order, [doc_sem] sorted by [repr]; and the documented else level also
    accepts tuples with a "no value yet" cell, which a window of width 1 over non-derived factors
    never reads in a valid sequence.  So two tables are identified when they accept the same tuples
    *without a [None] cell*; the windows concerned have width 1 and read non-derived factors.

    [sem_eqv_t_valid]: related normal forms have the same valid sequences.
    [sem_eqv_tb]: a boolean decision procedure, sound for [sem_eqv_t]; it is what the driver
    (extract/drv_t2.ml, command t2derived) evaluates per program between
    [code_sem (create_flat (derived_input p))] and [ds_sem (doc_sem p)]. *)
From Coq Require Import ZArith List Bool Arith Lia.
From SP Require Import Design.Sem Design.SemEqv.
Import ListNotations.

Definition all_some_args (args : list (list cell)) : Prop :=
  Forall (Forall (fun c : cell => c <> None)) args.

Definition window_eqv (w1 w2 : dwindow) : Prop :=
  w_deps w1 = w_deps w2 /\ w_width w1 = w_width w2 /\ w_stride w1 = w_stride w2 /\ w_start w1 = w_start w2 /\
  forall l args, all_some_args args -> accepts w1 l args = accepts w2 l args.

Definition plain_dep (fs : list dfactor) (d : nat) : Prop :=
  exists fd, nth_error fs d = Some fd /\ f_derived fd = None.

Definition factor_eqv_t (fs : list dfactor) (fd1 fd2 : dfactor) : Prop :=
  f_nlevels fd1 = f_nlevels fd2 /\ f_sustain fd1 = f_sustain fd2 /\
  match f_derived fd1, f_derived fd2 with
  | None, None => True
  | Some w1, Some w2 => w1 = w2 \/ (window_eqv w1 w2 /\ w_width w1 = 1 /\ Forall (plain_dep fs) (w_deps w1))
  | _, _ => False
  end.

Definition sem_eqv_t (S1 S2 : sem) : Prop :=
  s_trials S1 = s_trials S2 /\
  Forall2 (factor_eqv_t (s_factors S1)) (s_factors S1) (s_factors S2) /\
  s_constraints S1 = s_constraints S2 /\
  Forall2 crossing_eqv (s_crossings S1) (s_crossings S2).

(** * [sem_eqv] is the special case of equal tables *)
Lemma sem_eqv_sem_eqv_t : forall S1 S2, sem_eqv S1 S2 -> sem_eqv_t S1 S2.
Proof.
  intros S1 S2 [HT [HF [HK HX]]]. repeat split; try assumption. rewrite <- HF.
  assert (H : forall fs0 l, Forall2 (factor_eqv_t fs0) l l).
  { intros fs0 l. induction l as [|fd l IH]; constructor; [|exact IH].
    repeat split. destruct (f_derived fd); [left; reflexivity|exact I]. }
  apply H.
Qed.

(** * Validity *)
Lemma forallb_index_from : forall {A} (P : nat -> A -> bool) (xs : list A) a,
  forallb (fun p => P (fst p) (snd p)) (combine (seq a (length xs)) xs) = true <->
  (forall f x, nth_error xs f = Some x -> P (a + f) x = true).
Proof.
  intros A P xs. induction xs as [|x xs IH]; intro a; cbn.
  - split; [intros _ f x H; destruct f; discriminate|reflexivity].
  - rewrite andb_true_iff, IH. split.
    + intros [H0 H] [|f] y Hy; cbn in Hy.
      * inversion Hy; subst. rewrite Nat.add_0_r. exact H0.
      * replace (a + S f) with (S a + f) by lia. apply H. exact Hy.
    + intro H. split.
      * specialize (H 0 x eq_refl). rewrite Nat.add_0_r in H. exact H.
      * intros f y Hy. replace (S a + f) with (a + S f) by lia. apply H. exact Hy.
Qed.

Lemma forallb_index_list : forall {A} (P : nat -> A -> bool) (xs : list A),
  forallb (fun p => P (fst p) (snd p)) (index_list xs) = true <->
  (forall f x, nth_error xs f = Some x -> P f x = true).
Proof. intros A P xs. unfold index_list. rewrite forallb_index_from. reflexivity. Qed.

(** a non-derived factor that is [factor_ok] has a level in every trial *)
Lemma plain_cells_some : forall S s d fd t,
  f_derived fd = None -> factor_ok S s d fd = true -> t < s_trials S -> get_cell s d t <> None.
Proof.
  intros S s d fd t Hn Hok Ht. unfold factor_ok in Hok. apply andb_true_iff in Hok. destruct Hok as [_ Hall].
  rewrite forallb_forall in Hall. specialize (Hall t). rewrite in_seq in Hall. specialize (Hall ltac:(lia)).
  intro E. rewrite E in Hall. unfold applies in Hall. rewrite Hn in Hall. discriminate.
Qed.

Lemma group_start_le : forall t su, (t / su) * su <= t.
Proof.
  intros t su. destruct su as [|su]; [cbn; lia|]. rewrite Nat.mul_comm. apply Nat.mul_div_le. lia.
Qed.

Lemma window_args_width1 : forall s fd w t, w_width w = 1 ->
  window_args s fd w t = map (fun d => [get_cell s d ((t / f_sustain fd) * f_sustain fd)]) (w_deps w).
Proof.
  intros s fd w t Hw. unfold window_args. rewrite Hw. apply map_ext. intro d. cbn [seq map].
  replace ((1 - 1 - 0) * f_sustain fd) with 0 by (cbn; lia). cbn. rewrite Nat.sub_0_r. reflexivity.
Qed.

Lemma forallb_ext_in' : forall {A} (P Q : A -> bool) l, (forall x, In x l -> P x = Q x) -> forallb P l = forallb Q l.
Proof.
  intros A P Q l H. induction l as [|x l IH]; [reflexivity|]. cbn. rewrite (H x (or_introl eq_refl)), IH; [reflexivity|].
  intros y Hy. apply H. right. exact Hy.
Qed.

Lemma factor_ok_transfer : forall S1 S2 s f fs fd1 fd2,
  s_trials S1 = s_trials S2 -> factor_eqv_t fs fd1 fd2 ->
  (forall d, plain_dep fs d -> forall t, t < s_trials S1 -> get_cell s d t <> None) ->
  factor_ok S1 s f fd1 = factor_ok S2 s f fd2.
Proof.
  intros S1 S2 s f fs fd1 fd2 HT [Hn [Hsu Hd]] Hcells. unfold factor_ok. rewrite <- HT. f_equal.
  apply forallb_ext_in'. intros t Ht. apply in_seq in Ht.
  destruct (f_derived fd1) as [w1|] eqn:E1; destruct (f_derived fd2) as [w2|] eqn:E2; try contradiction.
  - destruct Hd as [->|[[Hdeps [Hwd [Hst [Hsa Hacc]]]] [Hw1 Hpl]]].
    + unfold applies. rewrite E1, E2, Hn, Hsu. unfold window_args. rewrite Hsu. reflexivity.
    + assert (Happ : applies fd1 t = applies fd2 t) by (unfold applies; rewrite E1, E2, Hsu, Hst, Hsa; reflexivity).
      rewrite Happ, Hn, Hsu. destruct (get_cell s f t) as [l|]; [|reflexivity].
      f_equal. rewrite (window_args_width1 s fd1 w1 t Hw1), (window_args_width1 s fd2 w2 t ltac:(congruence)).
      rewrite <- Hdeps, Hsu. apply Hacc.
      unfold all_some_args. apply Forall_forall. intros a Ha. apply in_map_iff in Ha. destruct Ha as [d [<- Hdin]].
      constructor; [|constructor]. apply Hcells.
      * rewrite Forall_forall in Hpl. apply Hpl. exact Hdin.
      * pose proof (group_start_le t (f_sustain fd2)). lia.
  - unfold applies. rewrite E1, E2, Hn, Hsu. reflexivity.
Qed.

Lemma Forall2_nth_error_l : forall {A B} (R : A -> B -> Prop) l1 l2 f x,
  Forall2 R l1 l2 -> nth_error l1 f = Some x -> exists y, nth_error l2 f = Some y /\ R x y.
Proof.
  intros A B R l1 l2 f x H. revert f. induction H as [|a b l1 l2 Hab _ IH]; intros [|f] Hf; cbn in *; try discriminate.
  - inversion Hf; subst. exists b. split; [reflexivity|exact Hab].
  - apply IH. exact Hf.
Qed.

Lemma Forall2_nth_error_r : forall {A B} (R : A -> B -> Prop) l1 l2 f y,
  Forall2 R l1 l2 -> nth_error l2 f = Some y -> exists x, nth_error l1 f = Some x /\ R x y.
Proof.
  intros A B R l1 l2 f y H. revert f. induction H as [|a b l1 l2 Hab _ IH]; intros [|f] Hf; cbn in *; try discriminate.
  - inversion Hf; subst. exists a. split; [reflexivity|exact Hab].
  - apply IH. exact Hf.
Qed.

Lemma factors_ok_eqv : forall S1 S2 s,
  s_trials S1 = s_trials S2 -> Forall2 (factor_eqv_t (s_factors S1)) (s_factors S1) (s_factors S2) ->
  forallb (fun p => factor_ok S1 s (fst p) (snd p)) (index_list (s_factors S1)) =
  forallb (fun p => factor_ok S2 s (fst p) (snd p)) (index_list (s_factors S2)).
Proof.
  intros S1 S2 s HT HF.
  destruct (forallb (fun p => factor_ok S1 s (fst p) (snd p)) (index_list (s_factors S1))) eqn:F1;
  destruct (forallb (fun p => factor_ok S2 s (fst p) (snd p)) (index_list (s_factors S2))) eqn:F2; try reflexivity; exfalso.
  - (* S1 ok: the plain factors have cells, so every factor transfers *)
    rewrite (forallb_index_list (fun f fd => factor_ok S1 s f fd)) in F1.
    assert (Hcells : forall d, plain_dep (s_factors S1) d -> forall t, t < s_trials S1 -> get_cell s d t <> None).
    { intros d [fd [Hd Hn]] t Ht. eapply plain_cells_some; [exact Hn|apply F1; exact Hd|exact Ht]. }
    assert (F2' : forallb (fun p => factor_ok S2 s (fst p) (snd p)) (index_list (s_factors S2)) = true).
    { apply (forallb_index_list (fun f fd => factor_ok S2 s f fd)). intros f fd2 Hf2.
      destruct (Forall2_nth_error_r _ _ _ _ _ HF Hf2) as [fd1 [Hf1 HR]].
      rewrite <- (factor_ok_transfer S1 S2 s f _ fd1 fd2 HT HR Hcells). apply F1. exact Hf1. }
    congruence.
  - rewrite (forallb_index_list (fun f fd => factor_ok S2 s f fd)) in F2.
    assert (Hcells : forall d, plain_dep (s_factors S1) d -> forall t, t < s_trials S1 -> get_cell s d t <> None).
    { intros d [fd [Hd Hn]] t Ht. destruct (Forall2_nth_error_l _ _ _ _ _ HF Hd) as [fd2 [Hd2 [_ [_ HR]]]].
      rewrite Hn in HR. destruct (f_derived fd2) eqn:E2; [contradiction|].
      eapply plain_cells_some; [exact E2|apply F2; exact Hd2|rewrite <- HT; exact Ht]. }
    assert (F1' : forallb (fun p => factor_ok S1 s (fst p) (snd p)) (index_list (s_factors S1)) = true).
    { apply (forallb_index_list (fun f fd => factor_ok S1 s f fd)). intros f fd1 Hf1.
      destruct (Forall2_nth_error_l _ _ _ _ _ HF Hf1) as [fd2 [Hf2 HR]].
      rewrite (factor_ok_transfer S1 S2 s f _ fd1 fd2 HT HR Hcells). apply F2. exact Hf2. }
    congruence.
Qed.

Lemma nlevels_at_eqv : forall fs0 fs1 fs2 i, Forall2 (factor_eqv_t fs0) fs1 fs2 ->
  match nth_error fs1 i with Some fd => f_nlevels fd | None => 0 end =
  match nth_error fs2 i with Some fd => f_nlevels fd | None => 0 end.
Proof.
  intros fs0 fs1 fs2 i H. revert i. induction H as [|a b l1 l2 [Hn _] _ IH]; intros [|i]; cbn; try reflexivity.
  - exact Hn.
  - apply IH.
Qed.

Lemma Forall2_len : forall {A B} (R : A -> B -> Prop) l1 l2, Forall2 R l1 l2 -> length l1 = length l2.
Proof. intros A B R l1 l2 H. induction H; cbn; congruence. Qed.

Theorem sem_eqv_t_valid : forall S1 S2, sem_eqv_t S1 S2 -> forall s, valid_b S1 s = valid_b S2 s.
Proof.
  intros S1 S2 [HT [HF [HK HX]]] s. unfold valid_b.
  rewrite (factors_ok_eqv S1 S2 s HT HF), (Forall2_len _ _ _ HF), HK.
  assert (E2 : forallb (crossing_ok S1 s) (s_crossings S1) = forallb (crossing_ok S2 s) (s_crossings S2)).
  { induction HX as [|c1 c2 l1 l2 Hc _ IH]; [reflexivity|]. cbn [forallb]. rewrite IH, (crossing_ok_eqv S1 S2 s c1 c2 HT Hc). reflexivity. }
  assert (E3 : forall k, constraint_ok S1 s k = constraint_ok S2 s k).
  { intro k. unfold constraint_ok. rewrite HT, (nlevels_at_eqv _ _ _ (k_factor k) HF).
    destruct (k_kind k); try reflexivity. unfold latin_ok. rewrite HT. reflexivity. }
  rewrite E2. f_equal. apply forallb_ext_all. exact E3.
Qed.
