(** [sem_eqv_tb]: boolean decision procedure for the relation [sem_eqv_t] (Design/SemEqvT.v) on the
    shapes the within-trial fragment produces (derived windows of width 1 over non-derived factors).
    Extracted and evaluated per program by the driver (extract/drv_t2.ml, command t2derived);
    soundness in Design/SemEqvTBProofs.v.  Model-style file: executable definitions only. *)
From Coq Require Import ZArith List Bool Arith.
From SP Require Import Design.Sem.
Import ListNotations.

Fixpoint forall2b {A B} (f : A -> B -> bool) (l1 : list A) (l2 : list B) : bool :=
  match l1, l2 with
  | [], [] => true
  | x :: r, y :: s => f x y && forall2b f r s
  | _, _ => false
  end.

Definition nat_list_eqb : list nat -> list nat -> bool := list_eqb Nat.eqb.

Definition cell_some (c : cell) : bool := match c with Some _ => true | None => false end.
Definition entry_some (e : list (list cell)) : bool := forallb (forallb cell_some) e.

(** every entry of [t1] without a [None] cell is an entry of [t2] *)
Definition table_incl_b (t1 t2 : list (list (list cell))) : bool :=
  forallb (fun e => existsb (args_eqb e) t2) (filter entry_some t1).
Definition table_eqb (t1 t2 : list (list (list cell))) : bool := table_incl_b t1 t2 && table_incl_b t2 t1.

Definition window_eqb (w1 w2 : dwindow) : bool :=
  nat_list_eqb (w_deps w1) (w_deps w2) && (w_width w1 =? w_width w2) && (w_stride w1 =? w_stride w2) &&
  (w_start w1 =? w_start w2) &&
  forallb (fun l => table_eqb (nth l (w_table w1) []) (nth l (w_table w2) []))
          (seq 0 (Nat.max (length (w_table w1)) (length (w_table w2)))).

Definition plain_dep_b (fs : list dfactor) (d : nat) : bool :=
  match nth_error fs d with
  | Some fd => match f_derived fd with None => true | Some _ => false end
  | None => false
  end.

Definition factor_eqv_tb (fs : list dfactor) (fd1 fd2 : dfactor) : bool :=
  (f_nlevels fd1 =? f_nlevels fd2) && (f_sustain fd1 =? f_sustain fd2) &&
  match f_derived fd1, f_derived fd2 with
  | None, None => true
  | Some w1, Some w2 => window_eqb w1 w2 && (w_width w1 =? 1) && forallb (plain_dep_b fs) (w_deps w1)
  | _, _ => false
  end.

Definition natpair_eqb (a b : nat * nat) : bool := (fst a =? fst b) && (snd a =? snd b).

Definition ckind_eqb (a b : ckind) : bool :=
  match a, b with
  | KAtMost x, KAtMost y => x =? y
  | KAtLeast x, KAtLeast y => x =? y
  | KExactlyInARow x, KExactlyInARow y => x =? y
  | KExactlyK x, KExactlyK y => x =? y
  | KExclude, KExclude => true
  | KPin i s, KPin j t => (i =? j)%Z && (s =? t)
  | KSequential f s, KSequential g t => (f =? g) && (s =? t)
  | KLatin o n f s, KLatin o' n' f' s' => list_eqb natpair_eqb o o' && (n =? n') && (f =? f') && (s =? s')
  | _, _ => false
  end.

Definition dconstraint_eqb (a b : dconstraint) : bool :=
  ckind_eqb (k_kind a) (k_kind b) && (k_factor a =? k_factor b) && (k_level a =? k_level b) &&
  list_eqb natpair_eqb (k_windows a) (k_windows b).

Definition mult_eqb (a b : list nat * nat) : bool := nat_list_eqb (fst a) (fst b) && (snd a =? snd b).
Definition mult_incl_b (m1 m2 : list (list nat * nat)) : bool := forallb (fun x => existsb (mult_eqb x) m2) m1.

Definition crossing_eqvb (c1 c2 : dcrossing) : bool :=
  nat_list_eqb (c_factors c1) (c_factors c2) && (c_first c1 =? c_first c2) && (c_chunk c1 =? c_chunk c2) &&
  mult_incl_b (c_mult c1) (c_mult c2) && mult_incl_b (c_mult c2) (c_mult c1).

Definition sem_eqv_tb (S1 S2 : sem) : bool :=
  (s_trials S1 =? s_trials S2) &&
  forall2b (factor_eqv_tb (s_factors S1)) (s_factors S1) (s_factors S2) &&
  list_eqb dconstraint_eqb (s_constraints S1) (s_constraints S2) &&
  forall2b crossing_eqvb (s_crossings S1) (s_crossings S2).
