(** Soundness of the checker [sem_eqv_tb] (Design/SemEqvTB.v) for [sem_eqv_t] (Design/SemEqvT.v),
    hence: when the checker says yes, the two normal forms have the same valid sequences. *)
From Coq Require Import ZArith List Bool Arith Lia.
From SP Require Import Design.Sem Design.SemEqv Design.SemEqvT Design.SemEqvTB.
Import ListNotations.

Lemma list_eqb_sound : forall {A} (eqb : A -> A -> bool), (forall x y, eqb x y = true -> x = y) ->
  forall a b, list_eqb eqb a b = true -> a = b.
Proof.
  intros A eqb H a. induction a as [|x a IH]; intros [|y b] E; cbn in E; try discriminate; [reflexivity|].
  apply andb_true_iff in E. destruct E as [E1 E2]. f_equal; [apply H; exact E1|apply IH; exact E2].
Qed.

Lemma list_eqb_refl : forall {A} (eqb : A -> A -> bool), (forall x, eqb x x = true) -> forall a, list_eqb eqb a a = true.
Proof. intros A eqb H a. induction a as [|x a IH]; cbn; [reflexivity|]. rewrite H, IH. reflexivity. Qed.

Lemma cell_eqb_sound : forall a b, cell_eqb a b = true -> a = b.
Proof. intros [x|] [y|] E; cbn in E; try discriminate; [|reflexivity]. apply Nat.eqb_eq in E. congruence. Qed.

Lemma cell_eqb_refl : forall a, cell_eqb a a = true.
Proof. intros [x|]; cbn; [apply Nat.eqb_refl|reflexivity]. Qed.

Lemma args_eqb_sound : forall a b, args_eqb a b = true -> a = b.
Proof. unfold args_eqb. apply list_eqb_sound. apply list_eqb_sound. exact cell_eqb_sound. Qed.

Lemma args_eqb_refl : forall a, args_eqb a a = true.
Proof. unfold args_eqb. apply list_eqb_refl. apply list_eqb_refl. exact cell_eqb_refl. Qed.

Lemma nat_list_eqb_sound : forall a b, nat_list_eqb a b = true -> a = b.
Proof. unfold nat_list_eqb. apply list_eqb_sound. intros x y E. apply Nat.eqb_eq. exact E. Qed.

Lemma existsb_args_in : forall args t, existsb (args_eqb args) t = true <-> In args t.
Proof.
  intros args t. rewrite existsb_exists. split.
  - intros [e [He E]]. apply args_eqb_sound in E. subst. exact He.
  - intro H. exists args. split; [exact H|apply args_eqb_refl].
Qed.

Lemma entry_some_iff : forall args, entry_some args = true <-> all_some_args args.
Proof.
  intro args. unfold entry_some, all_some_args. rewrite forallb_forall, Forall_forall. split; intros H col Hc.
  - specialize (H col Hc). rewrite forallb_forall in H. apply Forall_forall. intros c Hin E. specialize (H c Hin). subst. discriminate.
  - specialize (H col Hc). rewrite Forall_forall in H. apply forallb_forall. intros c Hin. specialize (H c Hin). destruct c; [reflexivity|congruence].
Qed.

Lemma table_incl_sound : forall t1 t2 args, table_incl_b t1 t2 = true -> all_some_args args -> In args t1 -> In args t2.
Proof.
  intros t1 t2 args H Hs Hin. unfold table_incl_b in H. rewrite forallb_forall in H.
  apply existsb_args_in. rewrite existsb_exists.
  specialize (H args). rewrite filter_In in H. specialize (H (conj Hin (proj2 (entry_some_iff args) Hs))).
  rewrite existsb_exists in H. destruct H as [e [He E]]. apply args_eqb_sound in E. subst e.
  exists args. split; [exact He|apply args_eqb_refl].
Qed.

Lemma table_eqb_sound : forall t1 t2 args, table_eqb t1 t2 = true -> all_some_args args ->
  existsb (args_eqb args) t1 = existsb (args_eqb args) t2.
Proof.
  intros t1 t2 args H Hs. unfold table_eqb in H. apply andb_true_iff in H. destruct H as [H1 H2].
  destruct (existsb (args_eqb args) t1) eqn:E1; destruct (existsb (args_eqb args) t2) eqn:E2; try reflexivity; exfalso.
  - apply existsb_args_in in E1. apply (table_incl_sound _ _ _ H1 Hs) in E1. apply existsb_args_in in E1. congruence.
  - apply existsb_args_in in E2. apply (table_incl_sound _ _ _ H2 Hs) in E2. apply existsb_args_in in E2. congruence.
Qed.

Lemma window_eqb_sound : forall w1 w2, window_eqb w1 w2 = true -> window_eqv w1 w2.
Proof.
  intros w1 w2 H. unfold window_eqb in H. rewrite !andb_true_iff in H. destruct H as [[[[H1 H2] H3] H4] H5].
  apply nat_list_eqb_sound in H1. apply Nat.eqb_eq in H2, H3, H4.
  repeat split; try assumption. intros l args Hs. unfold accepts.
  rewrite forallb_forall in H5.
  destruct (Nat.lt_ge_cases l (Nat.max (length (w_table w1)) (length (w_table w2)))) as [Hl|Hl].
  - apply table_eqb_sound; [|exact Hs]. apply H5. apply in_seq. lia.
  - rewrite (nth_overflow (w_table w1)) by lia. rewrite (nth_overflow (w_table w2)) by lia. reflexivity.
Qed.

Lemma plain_dep_b_sound : forall fs d, plain_dep_b fs d = true -> plain_dep fs d.
Proof.
  intros fs d H. unfold plain_dep_b in H. destruct (nth_error fs d) as [fd|] eqn:E; [|discriminate].
  exists fd. split; [exact E|]. destruct (f_derived fd); [discriminate|reflexivity].
Qed.

Lemma factor_eqv_tb_sound : forall fs fd1 fd2, factor_eqv_tb fs fd1 fd2 = true -> factor_eqv_t fs fd1 fd2.
Proof.
  intros fs fd1 fd2 H. unfold factor_eqv_tb in H. rewrite !andb_true_iff in H. destruct H as [[H1 H2] H3].
  apply Nat.eqb_eq in H1, H2. unfold factor_eqv_t. repeat split; try assumption.
  destruct (f_derived fd1) as [w1|]; destruct (f_derived fd2) as [w2|]; try discriminate; [|exact I].
  rewrite !andb_true_iff in H3. destruct H3 as [[Hw Hwd] Hp]. right. split; [|split].
  - apply window_eqb_sound. exact Hw.
  - apply Nat.eqb_eq. exact Hwd.
  - apply Forall_forall. intros d Hd. rewrite forallb_forall in Hp. apply plain_dep_b_sound. apply Hp. exact Hd.
Qed.

Lemma forall2b_sound : forall {A B} (f : A -> B -> bool) (R : A -> B -> Prop),
  (forall x y, f x y = true -> R x y) -> forall l1 l2, forall2b f l1 l2 = true -> Forall2 R l1 l2.
Proof.
  intros A B f R H l1. induction l1 as [|x l1 IH]; intros [|y l2] E; cbn in E; try discriminate; [constructor|].
  apply andb_true_iff in E. destruct E as [E1 E2]. constructor; [apply H; exact E1|apply IH; exact E2].
Qed.

Lemma natpair_eqb_sound : forall a b, natpair_eqb a b = true -> a = b.
Proof.
  intros [a1 a2] [b1 b2] E. unfold natpair_eqb in E. cbn in E. apply andb_true_iff in E. destruct E as [E1 E2].
  apply Nat.eqb_eq in E1, E2. congruence.
Qed.

Lemma ckind_eqb_sound : forall a b, ckind_eqb a b = true -> a = b.
Proof.
  intros a b E. destruct a, b; cbn in E; try discriminate; try reflexivity;
    try (apply Nat.eqb_eq in E; congruence).
  - apply andb_true_iff in E. destruct E as [E1 E2]. apply Z.eqb_eq in E1. apply Nat.eqb_eq in E2. congruence.
  - apply andb_true_iff in E. destruct E as [E1 E2]. apply Nat.eqb_eq in E1, E2. congruence.
  - rewrite !andb_true_iff in E. destruct E as [[[E1 E2] E3] E4].
    apply (list_eqb_sound natpair_eqb natpair_eqb_sound) in E1. apply Nat.eqb_eq in E2, E3, E4. congruence.
Qed.

Lemma dconstraint_eqb_sound : forall a b, dconstraint_eqb a b = true -> a = b.
Proof.
  intros [k1 f1 l1 w1] [k2 f2 l2 w2] E. unfold dconstraint_eqb in E. cbn in E.
  rewrite !andb_true_iff in E. destruct E as [[[E1 E2] E3] E4].
  apply ckind_eqb_sound in E1. apply Nat.eqb_eq in E2, E3.
  apply (list_eqb_sound natpair_eqb natpair_eqb_sound) in E4. congruence.
Qed.

Lemma mult_eqb_sound : forall a b, mult_eqb a b = true -> a = b.
Proof.
  intros [a1 a2] [b1 b2] E. unfold mult_eqb in E. cbn in E. apply andb_true_iff in E. destruct E as [E1 E2].
  apply nat_list_eqb_sound in E1. apply Nat.eqb_eq in E2. congruence.
Qed.

Lemma mult_incl_sound : forall m1 m2 x, mult_incl_b m1 m2 = true -> In x m1 -> In x m2.
Proof.
  intros m1 m2 x H Hin. unfold mult_incl_b in H. rewrite forallb_forall in H. specialize (H x Hin).
  rewrite existsb_exists in H. destruct H as [y [Hy E]]. apply mult_eqb_sound in E. subst. exact Hy.
Qed.

Lemma crossing_eqvb_sound : forall c1 c2, crossing_eqvb c1 c2 = true -> crossing_eqv c1 c2.
Proof.
  intros c1 c2 H. unfold crossing_eqvb in H. rewrite !andb_true_iff in H. destruct H as [[[[H1 H2] H3] H4] H5].
  apply nat_list_eqb_sound in H1. apply Nat.eqb_eq in H2, H3. repeat split; try assumption.
  - apply mult_incl_sound. exact H4.
  - apply mult_incl_sound. exact H5.
Qed.

Theorem sem_eqv_tb_sound : forall S1 S2, sem_eqv_tb S1 S2 = true -> sem_eqv_t S1 S2.
Proof.
  intros S1 S2 H. unfold sem_eqv_tb in H. rewrite !andb_true_iff in H. destruct H as [[[H1 H2] H3] H4].
  repeat split.
  - apply Nat.eqb_eq. exact H1.
  - eapply forall2b_sound; [|exact H2]. apply factor_eqv_tb_sound.
  - eapply list_eqb_sound; [|exact H3]. exact dconstraint_eqb_sound.
  - eapply forall2b_sound; [|exact H4]. exact crossing_eqvb_sound.
Qed.

Corollary sem_eqv_tb_valid : forall S1 S2, sem_eqv_tb S1 S2 = true -> forall s, valid_b S1 s = valid_b S2 s.
Proof. intros S1 S2 H. apply sem_eqv_t_valid. apply sem_eqv_tb_sound. exact H. Qed.
