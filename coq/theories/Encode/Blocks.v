(** Compositional reading of a backend request (DESIGN.md 3.1).

    [DefinesA lo hi cls reqs ext P]: the clauses and requests one constraint
    contributes mention only variables 1..hi, and hold under [s] exactly when
    the variables lo+1..hi of [s] carry the values [ext s] computes for them
    from the variables 1..lo *and* the assertion [P s] holds.  Contributions in
    sequence compose ([definesA_seq]); the whole request of [apply_all] is one
    such block over the trial variables ([apply_all_block]).  Per-kind
    instances: request-only kinds, unit-clause kinds, everything that goes
    through [cnf_fn] (Tseitin). *)
From Coq Require Import ZArith List Bool Lia.
From SP Require Import Base.Sat Base.Bits Core.Card Core.CardProofs.
From SP Require Import Logic.Formula Logic.Tseitin Logic.TseitinProofs.
From SP Require Import Design.Flat Encode.Compile Encode.Generic.
Import ListNotations.
Open Scope Z_scope.

Definition ct_sem (s : asg) (cls : cnf) (reqs : list req) : Prop :=
  sat s cls = true /\ Forall (req_rel s) reqs.

Record DefinesA (lo hi : Z) (cls : cnf) (reqs : list req) (ext : asg -> asg) (P : asg -> Prop) : Prop := {
  da_range : 0 <= lo <= hi;
  da_vars : vars_upto hi cls;
  da_reqs : Forall (req_ok hi) reqs;
  da_sem : forall s, ct_sem s cls reqs <-> (forall v, lo < v <= hi -> s v = ext s v) /\ P s;
  da_out : forall s v, ~ (lo < v <= hi) -> ext s v = s v;
  da_local : forall s t, agree_upto lo s t -> forall v, lo < v <= hi -> ext s v = ext t v
}.

Lemma ct_sem_app s c1 c2 r1 r2 :
  ct_sem s (c1 ++ c2) (r1 ++ r2) <-> ct_sem s c1 r1 /\ ct_sem s c2 r2.
Proof.
  unfold ct_sem. rewrite sat_app, andb_true_iff, Forall_app. tauto.
Qed.

Lemma definesA_nil lo : 0 <= lo -> DefinesA lo lo [] [] (fun s => s) (fun _ => True).
Proof.
  intros H. constructor.
  - lia.
  - intros c l [].
  - constructor.
  - intros s. unfold ct_sem. split.
    + intros _. split; [intros v Hv; lia|exact I].
    + intros _. split; [reflexivity|constructor].
  - reflexivity.
  - intros s t _ v Hv. lia.
Qed.

Lemma definesA_seq lo mid hi c1 r1 e1 P1 c2 r2 e2 P2 :
  DefinesA lo mid c1 r1 e1 P1 -> DefinesA mid hi c2 r2 e2 P2 ->
  DefinesA lo hi (c1 ++ c2) (r1 ++ r2) (fun s => e2 (e1 s)) (fun s => P1 s /\ P2 s).
Proof.
  intros D1 D2.
  pose proof (da_range _ _ _ _ _ _ D1) as R1. pose proof (da_range _ _ _ _ _ _ D2) as R2.
  constructor.
  - lia.
  - apply vars_upto_app; [|apply (da_vars _ _ _ _ _ _ D2)].
    apply (vars_upto_le mid); [lia|apply (da_vars _ _ _ _ _ _ D1)].
  - apply Forall_app. split; [|apply (da_reqs _ _ _ _ _ _ D2)].
    eapply Forall_impl; [|apply (da_reqs _ _ _ _ _ _ D1)]. intros r. apply req_ok_le. lia.
  - intros s. rewrite ct_sem_app, (da_sem _ _ _ _ _ _ D1), (da_sem _ _ _ _ _ _ D2). split.
    + intros [[H1 Q1] [H2 Q2]]. split; [|now split]. intros v Hv.
      assert (A : agree_upto mid s (e1 s)).
      { intros w Hw. destruct (Z_lt_le_dec lo w).
        - apply H1. lia.
        - symmetry. apply (da_out _ _ _ _ _ _ D1). lia. }
      destruct (Z_lt_le_dec mid v) as [Hm|Hm].
      * rewrite H2 by lia. apply (da_local _ _ _ _ _ _ D2); [assumption|lia].
      * rewrite (da_out _ _ _ _ _ _ D2) by lia. apply H1. lia.
    + intros [H [Q1 Q2]].
      assert (H1 : forall v, lo < v <= mid -> s v = e1 s v).
      { intros v Hv. rewrite H by lia. apply (da_out _ _ _ _ _ _ D2). lia. }
      split; [now split|]. split; [|assumption].
      assert (A : agree_upto mid s (e1 s)).
      { intros w Hw. destruct (Z_lt_le_dec lo w).
        - apply H1. lia.
        - symmetry. apply (da_out _ _ _ _ _ _ D1). lia. }
      intros v Hv. rewrite H by lia. symmetry.
      apply (da_local _ _ _ _ _ _ D2); [assumption|lia].
  - intros s v Hv. rewrite (da_out _ _ _ _ _ _ D2) by lia. apply (da_out _ _ _ _ _ _ D1). lia.
  - intros s t Hst v Hv.
    assert (A : agree_upto mid (e1 s) (e1 t)).
    { intros w Hw. destruct (Z_lt_le_dec lo w).
      - apply (da_local _ _ _ _ _ _ D1); [assumption|lia].
      - rewrite !(da_out _ _ _ _ _ _ D1) by lia. apply Hst. lia. }
    destruct (Z_lt_le_dec mid v) as [Hm|Hm].
    + apply (da_local _ _ _ _ _ _ D2); [assumption|lia].
    + rewrite !(da_out _ _ _ _ _ _ D2) by lia. apply A. lia.
Qed.

(** a block whose assertion pins further variables lo+1..mid by equations
    [s v = e1 s v] (the state variables of [Cross], asserted through Iff's):
    they join the defined variables *)
Lemma definesA_absorb lo mid hi cls reqs e1 e2 (P1 P2 : asg -> Prop) :
  0 <= lo <= mid ->
  (forall s v, ~ (lo < v <= mid) -> e1 s v = s v) ->
  (forall s t, agree_upto lo s t -> forall v, lo < v <= mid -> e1 s v = e1 t v) ->
  DefinesA mid hi cls reqs e2 P2 ->
  (forall s, P2 s <-> (forall v, lo < v <= mid -> s v = e1 s v) /\ P1 s) ->
  DefinesA lo hi cls reqs (fun s => e2 (e1 s)) P1.
Proof.
  intros R1 O1 L1 D2 HP. pose proof (da_range _ _ _ _ _ _ D2) as R2.
  constructor.
  - lia.
  - apply (da_vars _ _ _ _ _ _ D2).
  - apply (da_reqs _ _ _ _ _ _ D2).
  - intros s. rewrite (da_sem _ _ _ _ _ _ D2), HP. split.
    + intros [H2 [H1 Q1]]. split; [|exact Q1]. intros v Hv.
      assert (A : agree_upto mid s (e1 s)).
      { intros w Hw. destruct (Z_lt_le_dec lo w).
        - apply H1. lia.
        - symmetry. apply O1. lia. }
      destruct (Z_lt_le_dec mid v) as [Hm|Hm].
      * rewrite H2 by lia. apply (da_local _ _ _ _ _ _ D2); [assumption|lia].
      * rewrite (da_out _ _ _ _ _ _ D2) by lia. apply H1. lia.
    + intros [H Q1].
      assert (H1 : forall v, lo < v <= mid -> s v = e1 s v).
      { intros v Hv. rewrite H by lia. apply (da_out _ _ _ _ _ _ D2). lia. }
      assert (A : agree_upto mid s (e1 s)).
      { intros w Hw. destruct (Z_lt_le_dec lo w).
        - apply H1. lia.
        - symmetry. apply O1. lia. }
      split; [|now split]. intros v Hv. rewrite H by lia. symmetry.
      apply (da_local _ _ _ _ _ _ D2); [assumption|lia].
  - intros s v Hv. rewrite (da_out _ _ _ _ _ _ D2) by lia. apply O1. lia.
  - intros s t Hst v Hv.
    assert (A : agree_upto mid (e1 s) (e1 t)).
    { intros w Hw. destruct (Z_lt_le_dec lo w).
      - apply L1; [assumption|lia].
      - rewrite !O1 by lia. apply Hst. lia. }
    destruct (Z_lt_le_dec mid v) as [Hm|Hm].
    + apply (da_local _ _ _ _ _ _ D2); [assumption|lia].
    + rewrite !(da_out _ _ _ _ _ _ D2) by lia. apply A. lia.
Qed.

Lemma definesA_conseq lo hi cls reqs ext (P Q : asg -> Prop) :
  DefinesA lo hi cls reqs ext P -> (forall s, P s <-> Q s) -> DefinesA lo hi cls reqs ext Q.
Proof.
  intros D H. constructor; try apply D.
  intros s. rewrite (da_sem _ _ _ _ _ _ D). now rewrite H.
Qed.

(** what a block over the variables above [lo] says about assignments of 1..lo *)
Lemma definesA_models lo hi cls reqs ext P :
  DefinesA lo hi cls reqs ext P ->
  (forall s t, agree_upto lo s t -> (P s <-> P t)) ->
  (forall s, (exists t, agree_upto lo s t /\ ct_sem t cls reqs) <-> P s) /\
  (forall t1 t2, agree_upto lo t1 t2 -> ct_sem t1 cls reqs -> ct_sem t2 cls reqs -> agree_upto hi t1 t2).
Proof.
  intros D L. pose proof (da_range _ _ _ _ _ _ D) as R. split.
  - intros s. split.
    + intros (t & A & St). apply (da_sem _ _ _ _ _ _ D) in St. apply (L s t A). apply St.
    + intros HP. exists (ext s).
      assert (A : agree_upto lo s (ext s)).
      { intros v Hv. symmetry. apply (da_out _ _ _ _ _ _ D). lia. }
      split; [exact A|]. apply (da_sem _ _ _ _ _ _ D). split.
      * intros v Hv. apply (da_local _ _ _ _ _ _ D); [exact A|exact Hv].
      * now apply (L s (ext s) A).
  - intros t1 t2 A S1 S2 v Hv.
    apply (da_sem _ _ _ _ _ _ D) in S1. apply (da_sem _ _ _ _ _ _ D) in S2.
    destruct (Z_lt_le_dec lo v) as [Hl|Hl].
    + rewrite (proj1 S1), (proj1 S2) by lia. apply (da_local _ _ _ _ _ _ D); [assumption|lia].
    + apply A. lia.
Qed.

(** * Per-kind instances *)

(** kinds that only add requests on existing variables *)
Lemma definesA_requests lo reqs :
  0 <= lo -> Forall (req_ok lo) reqs ->
  DefinesA lo lo [] reqs (fun s => s) (fun s => Forall (req_rel s) reqs).
Proof.
  intros H Hr. constructor.
  - lia.
  - intros c l [].
  - exact Hr.
  - intros s. unfold ct_sem. split.
    + intros [_ F]. split; [intros v Hv; lia|exact F].
    + intros [_ F]. split; [reflexivity|exact F].
  - reflexivity.
  - intros s t _ v Hv. lia.
Qed.

(** kinds that only add raw clauses on existing variables *)
Lemma definesA_clauses lo cls :
  0 <= lo -> vars_upto lo cls ->
  DefinesA lo lo cls [] (fun s => s) (fun s => sat s cls = true).
Proof.
  intros H Hv. constructor.
  - lia.
  - exact Hv.
  - constructor.
  - intros s. unfold ct_sem. split.
    + intros [S _]. split; [intros v Hv'; lia|exact S].
    + intros [_ S]. split; [exact S|constructor].
  - reflexivity.
  - intros s t _ v Hv'. lia.
Qed.

(** everything that goes through [block.cnf_fn]: the Tseitin variables are
    defined, the formula is asserted *)
Lemma definesA_tseitin fs fresh cls fresh' :
  1 <= fresh ->
  (forall z, In z (leaves (FAnd fs)) -> z <> 0 /\ Z.abs z < fresh) ->
  cnf_fn fs fresh = (cls, fresh') ->
  exists ext, DefinesA (fresh - 1) (fresh' - 1) cls [] ext (fun s => eval s (FAnd fs) = true).
Proof.
  intros Hf HL E. unfold cnf_fn in E.
  destruct (tseitin_correct (FAnd fs) fresh cls fresh' Hf HL E) as (defs & r & ext & Ec & Hle & D & S & V).
  exists ext. constructor.
  - lia.
  - intros c l Hc Hl. destruct (V c l Hc Hl) as [[X|X]|X].
    + apply HL in X. lia.
    + apply HL in X. lia.
    + lia.
  - constructor.
  - intros s. unfold ct_sem. subst cls. rewrite sat_app, andb_true_iff, (def_sat _ _ _ _ D).
    cbn [sat forallb csat existsb]. rewrite orb_false_r, andb_true_r.
    assert (Key : (forall v, fresh - 1 < v <= fresh' - 1 -> s v = ext s v) -> lit_true s r = eval s (FAnd fs)).
    { intros H. rewrite <- S, sat_app, (defines_sat_ext _ _ _ _ s D). cbn [andb sat forallb csat existsb].
      rewrite orb_false_r, andb_true_r.
      assert (Eq : forall v, s v = ext s v).
      { intros v. destruct (Z_lt_le_dec (fresh - 1) v) as [H1|H1]; [destruct (Z_le_gt_dec v (fresh' - 1)) as [H2|H2]|].
        - apply H. lia.
        - symmetry. apply (def_out _ _ _ _ D). lia.
        - symmetry. apply (def_out _ _ _ _ D). lia. }
      unfold lit_true. destruct (0 <? r); now rewrite Eq. }
    split.
    + intros [[H Hr] _]. split; [exact H|]. now rewrite <- Key.
    + intros [H Ev]. split; [|constructor]. split; [exact H|]. now rewrite Key.
  - apply (def_out _ _ _ _ D).
  - apply (def_local _ _ _ _ D).
Qed.

(** * The fold of [build_backend_request] *)
Section Fold.
Variable fb : flat.
Variable Pc : fconstraint -> asg -> Prop.
Variable G : Z.   (* the trial variables are 1..G; fresh starts at G+1 *)

Definition step_ok (c : fconstraint) : Prop :=
  forall fresh ct, G < fresh -> apply_constraint fb c fresh = COk ct ->
    exists ext, DefinesA (fresh - 1) (ct_fresh ct - 1) (ct_clauses ct) (ct_requests ct) ext (Pc c).

Lemma apply_all_block cs : forall b0 b e0 P0,
  Forall step_ok cs ->
  DefinesA G (b_fresh b0 - 1) (b_clauses b0) (b_requests b0) e0 P0 ->
  apply_all fb cs b0 = COk b ->
  exists ext, DefinesA G (b_fresh b - 1) (b_clauses b) (b_requests b) ext
                       (fun s => P0 s /\ Forall (fun c => Pc c s) cs).
Proof.
  induction cs as [|c cs IH]; intros b0 b e0 P0 Hs D0 E.
  - cbn [apply_all] in E. inversion E. subst b. exists e0.
    apply (definesA_conseq _ _ _ _ _ P0); [exact D0|]. intros s. split; [intros H; split; [exact H|constructor]|tauto].
  - cbn [apply_all] in E. inversion Hs as [|? ? Hc Hcs]; subst.
    destruct (apply_constraint fb c (b_fresh b0)) as [ct|e] eqn:Ec; cbn [cbind] in E; [|discriminate].
    pose proof (da_range _ _ _ _ _ _ D0) as R0.
    destruct (Hc (b_fresh b0) ct ltac:(lia) Ec) as (e1 & D1).
    pose proof (definesA_seq _ _ _ _ _ _ _ _ _ _ _ D0 D1) as D01.
    destruct (IH {| b_fresh := ct_fresh ct; b_clauses := b_clauses b0 ++ ct_clauses ct;
                     b_requests := b_requests b0 ++ ct_requests ct |} b _ _ Hcs D01 E) as (ext & D).
    exists ext. apply (definesA_conseq _ _ _ _ _ _ _ D). intros s. split.
    + intros [[A B] C]. split; [exact A|]. now constructor.
    + intros [A F]. inversion F; subst. tauto.
Qed.

Theorem compile_block b :
  G = zn (Layout.variables_per_sample fb) ->
  Forall step_ok (fl_constraints fb) ->
  compile fb = COk b ->
  exists ext, DefinesA G (b_fresh b - 1) (b_clauses b) (b_requests b) ext
                       (fun s => Forall (fun c => Pc c s) (fl_constraints fb)).
Proof.
  intros EG Hs E. unfold compile in E. rewrite <- EG in E.
  assert (HG : 0 <= G) by (rewrite EG; unfold zn; lia).
  destruct (apply_all_block (fl_constraints fb) {| b_fresh := 1 + G; b_clauses := []; b_requests := [] |}
                            b (fun s => s) (fun _ => True) Hs) as (ext & D).
  - cbn [b_fresh b_clauses b_requests]. replace (1 + G - 1) with G by lia. now apply definesA_nil.
  - exact E.
  - exists ext. apply (definesA_conseq _ _ _ _ _ _ _ D). intros s. tauto.
Qed.
End Fold.

(** * From the block to the final formula: (G) applied to a compiled request *)
Theorem block_full_cnf G b ext P :
  DefinesA G (b_fresh b - 1) (b_clauses b) (b_requests b) ext P ->
  (forall s t, agree_upto G s t -> (P s <-> P t)) ->
  exists n' final,
    full_cnf b = (true, n', final) /\ b_fresh b - 1 <= n' /\ vars_upto n' final /\
    (forall s, (exists t, agree_upto G s t /\ sat t final = true) <-> P s) /\
    (forall t1 t2, agree_upto G t1 t2 -> sat t1 final = true -> sat t2 final = true -> agree_upto n' t1 t2).
Proof.
  intros D L. pose proof (da_range _ _ _ _ _ _ D) as R.
  destruct (full_cnf_denotes b ltac:(lia) (da_reqs _ _ _ _ _ _ D) (da_vars _ _ _ _ _ _ D))
    as (n' & final & E & Hn & V & Hsem & Huniq).
  destruct (definesA_models _ _ _ _ _ _ D L) as [M U].
  exists n', final. split; [exact E|]. split; [exact Hn|]. split; [exact V|]. split.
  - intros s. rewrite <- M. split.
    + intros (t & A & St).
      destruct (proj1 (Hsem t) (ex_intro _ t (conj (agree_upto_refl _ t) St))) as [Sc Fr].
      exists t. split; [exact A|]. now split.
    + intros (t & A & [Sc Fr]).
      destruct (proj2 (Hsem t) (conj Sc Fr)) as (u & Au & Su).
      exists u. split; [|exact Su]. apply (agree_upto_trans _ _ t); [exact A|].
      apply (agree_upto_le (b_fresh b - 1)); [lia|exact Au].
  - intros t1 t2 A S1 S2. apply Huniq; [|exact S1|exact S2].
    apply U; [exact A| |].
    + apply (Hsem t1). exists t1. split; [apply agree_upto_refl|exact S1].
    + apply (Hsem t2). exists t2. split; [apply agree_upto_refl|exact S2].
Qed.
