(** [code_sem : flat -> Sem.sem]: the flat record read the way
    [constraint.py] / [block.py] / [cross_block.py] consume it (DESIGN.md
    Appendix B), as an instance of the reference semantics [Design/Sem.v]:
    trial count, factor table with the acceptance tables of derived levels,
    per crossing (factors, first crossing trial = preamble size, chunk length =
    crossing size x crossing weight, multiplicity of every admitted combination
    = product of level weights x sustain x crossing weight), per constraint its
    kind, parameters and windows ([map_block_trial_ranges]).

    [in_f1] is the (boolean, executable) fragment F1 of the compilation
    theorem [compile_denotes] (Encode/CompileProofs.v).
    Model-style file: executable definitions only. *)
From Coq Require Import ZArith List Bool Arith.
From SP Require Import Design.Flat Design.Layout Design.Sem Encode.Compile.
Import ListNotations.
Close Scope Z_scope.
Open Scope nat_scope.

Section CodeSem.
Variable fb : flat.

Definition code_factor (f : nat) (fd : ffactor) : dfactor :=
  {| f_nlevels := length (ff_levels fd);
     f_sustain := sustain_of fb f;
     f_derived :=
       match ff_window fd with
       | None => None
       | Some w => Some {| w_deps := win_deps w; w_width := win_width w; w_stride := win_stride w;
                           w_start := win_start w; w_table := map lv_accepts (ff_levels fd) |}
       end |}.

(** the reference window of a derived factor *)
Definition dwin (fd : ffactor) (w : fwindow) : dwindow :=
  {| w_deps := win_deps w; w_width := win_width w; w_stride := win_stride w;
     w_start := win_start w; w_table := map lv_accepts (ff_levels fd) |}.

Definition code_crossing (i : nat) (c : list nat) : dcrossing :=
  let cw := crossing_weight fb c in
  {| c_factors := c;
     c_first := preamble_size fb i;
     c_chunk := nth i (fl_sizes fb) 0 * cw;
     c_mult := map (fun di => (map snd di, combination_weight fb di * sustain_of fb (hd 0 c) * cw))
                   (trial_combinations_of fb c) |}.

Definition windows_of (wb : option geometry) : list (nat * nat) :=
  match map_block_trial_ranges fb wb with Some rs => rs | None => [] end.

Definition pre_of (f : nat) : nat :=
  match factor_preamble_size fb f with COk p => p | CErr _ => 0 end.

Definition mk_c (kd : ckind) (f l : nat) (ws : list (nat * nat)) : dconstraint :=
  {| k_kind := kd; k_factor := f; k_level := l; k_windows := ws |}.

Definition code_constraint (c : fconstraint) : list dconstraint :=
  match c with
  | FAtMost k f l wb => [mk_c (KAtMost k) f l (windows_of wb)]
  | FAtLeast k f l wb => [mk_c (KAtLeast k) f l (windows_of wb)]
  | FExactlyK k f l wb => [mk_c (KExactlyK k) f l (windows_of wb)]
  | FExactlyKInARow k f l wb => [mk_c (KExactlyInARow k) f l (windows_of wb)]
  | FExclude f l => [mk_c KExclude f l []]
  | FPin i f l wb => [mk_c (KPin i (geometry_sustain fb wb f)) f l (windows_of wb)]
  | FSequential f => [mk_c (KSequential (pre_of f) (sustain_of fb f)) f 0 []]
  | FLatin fs =>
    match fs with
    | [] | [_] => []
    | f0 :: _ =>
      let nls := map (nlevels fb) fs in
      let diag := fold_left Nat.max nls 0 in
      let main_idx := last_index_where (fun n => n =? diag) nls in
      let others := flat_map (fun ixf => if fst ixf =? main_idx then [] else [(snd ixf, nlevels fb (snd ixf))])
                             (combine (seq 0 (length fs)) fs) in
      [mk_c (KLatin others diag (pre_of f0) (sustain_of fb f0)) (nth main_idx fs 0) 0 []]
    end
  | _ => []   (* Cross / Consistency / Sustain / Derivation are the factor table and the crossings;
                 ExactlyKMultipleInARow has no documented meaning in Sem *)
  end.

Fixpoint code_crossings (i : nat) (cs : list (list nat)) : list dcrossing :=
  match cs with
  | [] => []
  | c :: r => code_crossing i c :: code_crossings (S i) r
  end.

Definition code_sem : sem :=
  {| s_trials := fl_trials fb;
     s_factors := map (fun p => code_factor (fst p) (snd p)) (combine (seq 0 (length (fl_design fb))) (fl_design fb));
     s_crossings := code_crossings 0 (fl_crossings fb);
     s_constraints := flat_map code_constraint (fl_constraints fb) |}.

(** * The fragment F1

    the factors of [act_design] are simple, WithinTrial, or have a complex window
    (width, stride, start >= width - 1) over simple / WithinTrial factors of
    [act_design]; the factors outside [act_design] (implied) are derived from
    such factors through any window that never reads before the first trial, by
    tables one level of which accepts every argument tuple; positive sustain counts
    ([sustains_ok]: Nest / Repeat), crossings
    after their preambles (a crossed complex factor has stride 1 and starts no
    later than the crossing), exclusions from a crossing only through Exclude
    constraints and inconsistent derived levels, constraint kinds Consistency / Cross / Derivation (simple) /
    AtMostKInARow / AtLeastKInARow / ExactlyKInARow / ExactlyK / Exclude / Pin /
    Sequential (and the kinds that compile to nothing), unambiguous derived-level tables that the [Derivation]
    constraints of the record reproduce literally. *)
Definition factor_f1 (fd : ffactor) : bool :=
  (0 <? length (ff_levels fd)) &&
  match ff_window fd with
  | None => negb (ff_complex fd)
  | Some w =>
    if ff_complex fd
    then (* Transition / Window(width, stride, start): never reads before the first trial *)
      (0 <? win_width w) && (0 <? win_stride w) && (win_width w - 1 <=? win_start w) &&
      (win_start_delta w =? Z.of_nat (win_start w - (win_width w - 1)))%Z
    else (win_width w =? 1) && (win_stride w =? 1) && (win_start w =? 0)
  end.

(** a factor outside [act_design] (implied: no variables, its row is computed
    after solving): any window shape; in the first trials a window that is not
    yet full reads [None] cells *)
Definition factor_impl_f1 (fd : ffactor) : bool :=
  (0 <? length (ff_levels fd)) &&
  match ff_window fd with
  | None => false
  | Some w => (0 <? win_width w) && (0 <? win_stride w)
  end.

Definition col_ok (dep : nat) (col : list (option nat)) : bool :=
  match col with [Some x] => x <? nlevels fb dep | _ => false end.

Fixpoint entry_ok (deps : list nat) (entry : list (list (option nat))) : bool :=
  match deps, entry with
  | [], [] => true
  | d :: ds, col :: e => col_ok d col && entry_ok ds e
  | _, _ => false
  end.

(** the same for a window of [width] trials: per depended-on factor [width] in-range levels *)
Definition colw_ok (width dep : nat) (col : list (option nat)) : bool :=
  (length col =? width) && forallb (fun c => match c with Some x => x <? nlevels fb dep | None => false end) col.

Fixpoint entryw_ok (width : nat) (deps : list nat) (entry : list (list (option nat))) : bool :=
  match deps, entry with
  | [], [] => true
  | d :: ds, col :: e => colw_ok width d col && entryw_ok width ds e
  | _, _ => false
  end.

(** membership in [act_design] (the factors that have SAT variables) *)
Definition isact (f : nat) : bool := existsb (Nat.eqb f) (fl_act fb).

(** [act_design] lists its factors in design order, each once *)
Definition act_sorted : bool :=
  list_nat_eqb (fl_act fb) (filter isact (seq 0 (length (fl_design fb)))).

(** a factor that has a level in every trial *)
Definition always_appl (d : nat) : bool :=
  match factor_at fb d with
  | Some fd => match ff_window fd with Some w => (win_start w =? 0) && (win_stride w =? 1) | None => true end
  | None => false
  end.

(** what a derived factor may read: a factor of [act_design] without a complex
    window; an implied factor may also read an implied factor listed before it
    that has a level in every trial *)
Definition dep_ok (f d : nat) : bool :=
  (isact d && negb (is_complex fb d)) || (negb (isact f) && negb (isact d) && (d <? f) && always_appl d).

(** every table entry has one in-range cell per depended-on factor (and per
    trial of the window), and the depended-on factors are as [dep_ok] says *)
Definition tables_ok (f : nat) (fd : ffactor) : bool :=
  match ff_window fd with
  | None => true
  | Some w =>
    forallb (dep_ok f) (win_deps w) &&
    (negb (isact f) ||
     forallb (fun lv => forallb (if ff_complex fd then entryw_ok (win_width w) (win_deps w) else entry_ok (win_deps w))
                                (lv_accepts lv)) (ff_levels fd))
  end.

(** the argument tuples of a window: per depended-on factor [width] cells, each a level *)
Fixpoint all_cols (n width : nat) : list (list (option nat)) :=
  match width with
  | O => [[]]
  | S k => flat_map (fun x => map (cons (Some x)) (all_cols n k)) (seq 0 n)
  end.

Definition all_args (w : fwindow) : list (list (list (option nat))) :=
  product (map (fun d => all_cols (nlevels fb d) (win_width w)) (win_deps w)).

(** ... of a window whose first [k] trials lie before the first trial ([None] cells) *)
Fixpoint all_cols_from (n width k : nat) {struct k} : list (list (option nat)) :=
  match k with
  | O => all_cols n width
  | S k' => match width with
            | O => [[]]
            | S w' => map (cons None) (all_cols_from n w' k')
            end
  end.

Definition all_args_from (w : fwindow) (k : nat) : list (list (list (option nat))) :=
  product (map (fun d => all_cols_from (nlevels fb d) (win_width w) k) (win_deps w)).

(** no argument tuple is accepted by two levels *)
Definition tables_unambiguous (f : nat) (fd : ffactor) : bool :=
  negb (isact f) ||
  match ff_window fd with
  | None => true
  | Some w =>
    if ff_complex fd
    then forallb (fun args =>
                    length (filter (fun l => accepts (dwin fd w) l args) (seq 0 (length (ff_levels fd)))) <=? 1)
                 (all_args w)
    else forallb (fun args =>
                    length (filter (fun l => level_accepts fd l args) (seq 0 (length (ff_levels fd)))) <=? 1)
                 (product (map (fun d => seq 0 (nlevels fb d)) (win_deps w)))
  end.

(** exactly one level accepts every argument tuple (the implied factors,
    whose level is computed from the others after solving) *)
Definition tables_total (fd : ffactor) : bool :=
  match ff_window fd with
  | None => true
  | Some w =>
    forallb (fun k =>
      forallb (fun args =>
                 length (filter (fun l => accepts (dwin fd w) l args) (seq 0 (length (ff_levels fd)))) =? 1)
              (all_args_from w k))
      (seq 0 (S (win_width w - 1 - win_start w)))
  end.

(** an implied factor (not in [act_design]) is a derived factor with a total table *)
Definition implied_ok (f : nat) (fd : ffactor) : bool :=
  isact f || (factor_impl_f1 fd && tables_total fd).

Definition didx_eqb (a b : didx) : bool :=
  match a, b with
  | DIdx x, DIdx y => x =? y
  | DBefore x, DBefore y => x =? y
  | _, _ => false
  end.

Fixpoint list_eqb' {A} (eqb : A -> A -> bool) (a b : list A) : bool :=
  match a, b with
  | [], [] => true
  | x :: a', y :: b' => eqb x y && list_eqb' eqb a' b'
  | _, _ => false
  end.

(** what [DerivationProcessor] generates for level [l] of a WithinTrial factor *)
Definition expected_deps (w : fwindow) (lv : flevel) : list (list didx) :=
  map (fun entry =>
         map2 (fun d col => match col with
                            | [Some x] => match first_variable_for_level fb d x with Some v => DIdx v | None => DBefore 0 end
                            | _ => DBefore 0
                            end) (win_deps w) entry) (lv_accepts lv).

(** ... and for level [l] of a factor with a complex window: per table entry the
    first variables of the [width] levels of every depended-on factor, the
    [j]-th shifted by [j] trials ([shift_window]) *)
Definition expected_deps_c (w : fwindow) (lv : flevel) : list (list didx) :=
  map (fun entry =>
         concat (map2 (fun d col =>
                         map (fun jc => match snd jc with
                                        | Some x => match first_variable_for_level fb d x with
                                                    | Some v => DIdx (v + fst jc * variables_per_trial fb)
                                                    | None => DBefore 0
                                                    end
                                        | None => DBefore 0
                                        end) (combine (seq 0 (length col)) col))
                      (win_deps w) entry)) (lv_accepts lv).

Definition is_derivation_of (f l : nat) (c : fconstraint) : bool :=
  match c, factor_at fb f with
  | FDerivation d deps f', Some fd =>
    match ff_window fd, nth_error (ff_levels fd) l, first_variable_for_level fb f l with
    | Some w, Some lv, Some v =>
      (f' =? f) && (d =? v) &&
      list_eqb' (list_eqb' didx_eqb) deps (if ff_complex fd then expected_deps_c w lv else expected_deps w lv)
    | _, _, _ => false
    end
  | _, _ => false
  end.

Definition derivations_match : bool :=
  (* every level of a derived factor of act_design has its Derivation ... *)
  forallb (fun p =>
             let '(f, fd) := p in
             match ff_window fd with
             | None => true
             | Some _ => negb (isact f) ||
                         forallb (fun l => existsb (is_derivation_of f l) (fl_constraints fb))
                                 (seq 0 (length (ff_levels fd)))
             end) (combine (seq 0 (length (fl_design fb))) (fl_design fb)) &&
  (* ... and every Derivation is one of those *)
  forallb (fun c => match c with
                    | FDerivation _ _ f => isact f && existsb (fun l => is_derivation_of f l c) (seq 0 (nlevels fb f))
                    | _ => true
                    end) (fl_constraints fb).

Definition geom_ok (wb : option geometry) : bool :=
  match map_block_trial_ranges fb wb with Some _ => true | None => false end.

(** the 0-based trials of [a, b) in which factor [f] has a level *)
Definition trials_of (f a b : nat) : list nat := filter (fun t => applies_at fb f (S t)) (seq a (b - a)).

(** a factor whose levels exist in a suffix of the trials (stride 1) *)
Definition stride1 (f : nat) : bool :=
  match factor_at fb f with
  | Some fd => match ff_window fd with Some w => negb (ff_complex fd) || (win_stride w =? 1) | None => true end
  | None => true
  end.

Definition start_of (f : nat) : nat :=
  match factor_at fb f with
  | Some fd => match ff_window fd with Some w => win_start w | None => 0 end
  | None => 0
  end.

Definition constraint_f1 (c : fconstraint) : bool :=
  match c with
  | FCross | FConsistency | FSustain | FReify _ | FMinimumTrials _ | FContinuous => true
  | FDerivation _ _ _ => true                      (* shape checked by [derivations_match] *)
  | FAtMost _ f l wb => isact f && (l <? nlevels fb f) && geom_ok wb && stride1 f
  | FExactlyK _ f l wb =>
    isact f && (l <? nlevels fb f) && geom_ok wb && stride1 f &&
    (* no window without a variable: EQ on no variables raises *)
    forallb (fun r => match trials_of f (fst r) (snd r) with [] => false | _ => true end) (windows_of wb)
  | FExclude f l => isact f && (l <? nlevels fb f) && stride1 f
  | FPin i f l wb =>
    isact f && (l <? nlevels fb f) && (0 <? variables_per_sample fb) && geom_ok wb && (0 <? geometry_sustain fb wb f) &&
    (* every pinned trial is a trial of the block *)
    match get_trial_numbers fb f i wb with
    | Some ps => forallb (fun p => p <? fl_trials fb) ps
    | None => false
    end
  | FAtLeast k f l wb | FExactlyKInARow k f l wb =>
    (0 <? k) && isact f && (l <? nlevels fb f) && geom_ok wb && stride1 f
  | FLatin fs =>
    match fs with
    | [] => false
    | [_] => true
    | f0 :: _ =>
      forallb (fun f => isact f && negb (is_complex fb f)) fs && (sustain_of fb f0 =? 1) &&
      match factor_preamble_size fb f0 with COk _ => true | CErr _ => false end
    end
  | FSequential f =>
    isact f && negb (is_complex fb f) &&
    (* the preamble is a whole number of sustain groups *)
    match factor_preamble_size fb f with COk p => p mod sustain_of fb f =? 0 | CErr _ => false end
  | _ => false
  end.

(** a crossing: its factors are in [act_design]; a crossed factor with a complex
    window has stride 1 and its first level no later than the first crossing trial *)
Definition crossing_f1 (i : nat) (c : list nat) : bool :=
  forallb (fun f => isact f && stride1 f && (start_of f <=? preamble_size fb i)) c &&
  (0 <? nth i (fl_sizes fb) 0 * crossing_weight fb c) &&
  (preamble_size fb i <? fl_trials fb) &&
  match c with [] => false | _ => true end.

Fixpoint crossings_f1 (i : nat) (cs : list (list nat)) : bool :=
  match cs with
  | [] => true
  | c :: r => crossing_f1 i c && crossings_f1 (S i) r
  end.

Fixpoint list_nat_nodup (l : list nat) : bool :=
  match l with
  | [] => true
  | x :: r => negb (existsb (Nat.eqb x) r) && list_nat_nodup r
  end.

(** exclusions: every excluded (factor, level) pair is backed by an [Exclude]
    constraint of the record (as [Exclude.validate] guarantees), and no
    derived-level exclusion was expanded into basic combinations *)
Definition exclude_backed : bool :=
  forallb (fun p => existsb (fun c => match c with
                                      | FExclude f l => (f =? fst p) && (l =? snd p)
                                      | _ => false
                                      end) (fl_constraints fb)) (fl_exclude fb).
(** every combination of basic levels listed for an excluded derived level fixes
    all the factors that a WithinTrial factor of act_design reads to levels its
    excluded level accepts *)
Definition excluded_derived_of (e : list (nat * nat)) (p : nat * nat) : bool :=
  match factor_at fb (fst p) with
  | Some fd =>
    match ff_window fd with
    | Some w =>
      isact (fst p) && negb (ff_complex fd) &&
      forallb (fun d => match lookup_level e d with Some _ => true | None => false end) (win_deps w) &&
      level_accepts fd (snd p) (map (fun d => match lookup_level e d with Some x => x | None => 0 end) (win_deps w))
    | None => false
    end
  | None => false
  end.

Definition no_excluded_derived : bool :=
  forallb (fun e => existsb (excluded_derived_of e) (fl_exclude fb)) (fl_excluded_derived fb).

(** sustain counts (Nest / Repeat): positive; 1 for the factors with a complex
    window and for the implied factors; a WithinTrial factor of act_design is
    sustained no longer than the factors it reads (its groups of trials lie
    inside theirs); and the [Sustain] constraint is there when a count is not 1 *)
Definition grid_factor (f : nat) : bool := isact f && negb (is_complex fb f).

Definition sustains_ok : bool :=
  forallb (fun n => 0 <? n) (fl_sustains fb) &&
  forallb (fun p =>
             let f := fst p in
             (grid_factor f || (sustain_of fb f =? 1)) &&
             match ff_window (snd p) with
             | Some w => negb (grid_factor f) ||
                         forallb (fun d => (sustain_of fb d) mod (sustain_of fb f) =? 0) (win_deps w)
             | None => true
             end) (combine (seq 0 (length (fl_design fb))) (fl_design fb)) &&
  (forallb (fun n => n =? 1) (fl_sustains fb) ||
   existsb (fun c => match c with FSustain => true | _ => false end) (fl_constraints fb)).

Definition in_f1 : bool :=
  forallb (fun p => negb (isact (fst p)) || factor_f1 (snd p)) (combine (seq 0 (length (fl_design fb))) (fl_design fb)) &&
  forallb (fun p => tables_ok (fst p) (snd p) && tables_unambiguous (fst p) (snd p))
          (combine (seq 0 (length (fl_design fb))) (fl_design fb)) &&
  (act_sorted && forallb (fun p => implied_ok (fst p) (snd p)) (combine (seq 0 (length (fl_design fb))) (fl_design fb))) &&
  sustains_ok &&
  (length (fl_sustains fb) =? length (fl_crossings fb)) &&
  crossings_f1 0 (fl_crossings fb) &&
  forallb list_nat_nodup (fl_crossings fb) &&
  forallb constraint_f1 (fl_constraints fb) &&
  existsb (fun c => match c with FConsistency => true | _ => false end) (fl_constraints fb) &&
  (existsb (fun c => match c with FCross => true | _ => false end) (fl_constraints fb)
   || match fl_crossings fb with [] => true | _ => false end) &&
  derivations_match &&
  exclude_backed && no_excluded_derived.

(** the conjuncts of [in_f1] one by one (diagnostics for the harness: why a
    generated program is outside the proved fragment) *)
Definition f1_why : list bool :=
  [ forallb (fun p => negb (isact (fst p)) || factor_f1 (snd p)) (combine (seq 0 (length (fl_design fb))) (fl_design fb));
    forallb (fun p => tables_ok (fst p) (snd p)) (combine (seq 0 (length (fl_design fb))) (fl_design fb));
    forallb (fun p => tables_unambiguous (fst p) (snd p)) (combine (seq 0 (length (fl_design fb))) (fl_design fb));
    act_sorted && forallb (fun p => implied_ok (fst p) (snd p)) (combine (seq 0 (length (fl_design fb))) (fl_design fb));
    sustains_ok;
    true;
    crossings_f1 0 (fl_crossings fb);
    forallb list_nat_nodup (fl_crossings fb);
    forallb constraint_f1 (fl_constraints fb);
    existsb (fun c => match c with FConsistency => true | _ => false end) (fl_constraints fb) &&
    (existsb (fun c => match c with FCross => true | _ => false end) (fl_constraints fb)
     || match fl_crossings fb with [] => true | _ => false end);
    derivations_match;
    exclude_backed && no_excluded_derived ].

End CodeSem.
