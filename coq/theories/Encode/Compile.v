(** Executable model of [Block.build_backend_request] (sweetpea/_internal/block.py)
    and of every [Constraint.apply] of sweetpea/_internal/constraint.py on the
    flat record: the compilation of an experiment design to clauses, low-level
    cardinality requests and the fresh-variable counter.

    Model file: executable definitions only, mirroring the Python literally
    (same order of clauses and requests, same fresh numbering).  Where the
    Python raises, [CErr] carries the exception class.  [CFuel] stands for a
    Python loop that would not terminate, [CUnsupported] for inputs outside the
    modelled domain (negative window starts, unknown constraint classes).

    What [backend_request.cnfs] holds is never inspected by the code except
    through [get_cnfs_as_json()], so the model keeps the integer clauses
    directly: [Tseitin.tseitin] for everything that goes through
    [block.cnf_fn = to_cnf_tseitin] (see [TseitinProofs.tseitin_json]) and unit
    clauses for the raw [And([ints])] of [Exclude] / [Pin]. *)
From Coq Require Import ZArith List Bool Arith.
From SP Require Import Base.Sat Logic.Formula Logic.Tseitin Design.Flat Design.Layout.
From SP Require Core.Card.
Import ListNotations.
Close Scope Z_scope.
Open Scope nat_scope.

Definition req := (Card.kind * Z * list Z)%type.

Record backend := { b_fresh : Z; b_clauses : list (list Z); b_requests : list req }.

Inductive cerr :=
| CIndexError | CValueError | CTypeError | CRuntimeError | CZeroDivisionError
| CFuel | CUnsupported.

Inductive cres (A : Type) := COk (a : A) | CErr (e : cerr).
Arguments COk {A} a.
Arguments CErr {A} e.

Definition cbind {A B} (m : cres A) (f : A -> cres B) : cres B :=
  match m with COk a => f a | CErr e => CErr e end.
Notation "x <~ m ;; f" := (cbind m (fun x => f)) (at level 61, m at next level, right associativity).

Fixpoint cmapM {A B} (f : A -> cres B) (l : list A) : cres (list B) :=
  match l with
  | [] => COk []
  | x :: l' => y <~ f x ;; ys <~ cmapM f l' ;; COk (y :: ys)
  end.

Definition of_opt {A} (e : cerr) (o : option A) : cres A :=
  match o with Some a => COk a | None => CErr e end.

(** what one [apply] adds: new fresh counter, clauses appended to
    [get_cnfs_as_json()], requests appended to [ll_requests] *)
Record contrib := { ct_fresh : Z; ct_clauses : list (list Z); ct_requests : list req }.

Definition zn (n : nat) : Z := Z.of_nat n.
Definition zs (l : list nat) : list Z := map Z.of_nat l.
Definition fv (n : nat) : fm := FVar (Z.of_nat n).

(** [list(range(a, a + n))] *)
Fixpoint zrange (a : Z) (n : nat) : list Z :=
  match n with O => [] | S n' => a :: zrange (a + 1)%Z n' end.

(** [block.cnf_fn(And(fs), fresh)] followed by [cnfs.append] *)
Definition cnf_fn (fs : list fm) (fresh : Z) : list (list Z) * Z := tseitin (FAnd fs) fresh.

(** [chunk_list(it, size)]: stops at the first empty chunk *)
Fixpoint chunk_list {A} (fuel : nat) (l : list A) (size : nat) : list (list A) :=
  match fuel with
  | O => []
  | S fu => match firstn size l with
            | [] => []
            | c => c :: chunk_list fu (skipn size l) size
            end
  end.

(** [[var_list[i:i+L] for i in range(len(var_list))]] filtered by [len == L] *)
Fixpoint windows {A} (L : nat) (l : list A) : list (list A) :=
  match l with
  | [] => []
  | _ :: r => let w := firstn L l in (if length w =? L then [w] else []) ++ windows L r
  end.

(** [itertools.product] of the lists, first list slowest *)
Fixpoint product {A} (ls : list (list A)) : list (list A) :=
  match ls with
  | [] => [[]]
  | l :: r => flat_map (fun x => map (cons x) (product r)) l
  end.

Fixpoint map2 {A B C} (f : A -> B -> C) (a : list A) (b : list B) : list C :=
  match a, b with
  | x :: a', y :: b' => f x y :: map2 f a' b'
  | _, _ => []
  end.

Section Compile.
Variable fb : flat.

Definition T : nat := fl_trials fb.
Definition vpt : nat := variables_per_trial fb.

(** [build_variable_lists]: [map_block_trial_ranges] runs first and
    [first_variable_for_level] (the only part that can raise: [ValueError] of
    [list.index]) only when there is at least one range. *)
Definition var_lists (f l : nat) (wb : option geometry) : cres (list (list nat)) :=
  match map_block_trial_ranges fb wb with
  | None => CErr CUnsupported
  | Some [] => COk []
  | Some _ => of_opt CValueError (build_variable_lists fb f l wb)
  end.

(** [block.get_variable(trial, (f, l))] *)
Definition get_variable (trial f l : nat) : cres nat :=
  of_opt CValueError (encode_variable fb f l trial).

(** * Consistency *)
Fixpoint cons_factors (fs : list nat) (next : Z) : list req * Z :=
  match fs with
  | [] => ([], next)
  | f :: r =>
    let nl := nlevels fb f in
    let '(rs, nx) := cons_factors r (next + zn nl)%Z in
    ((Card.EQ, 1%Z, zrange next nl) :: rs, nx)
  end.

Fixpoint cons_trials (n : nat) (next : Z) : list req * Z :=
  match n with
  | O => ([], next)
  | S n' =>
    let '(r1, nx1) := cons_factors (simple_act fb) next in
    let '(r2, nx2) := cons_trials n' nx1 in
    (r1 ++ r2, nx2)
  end.

Fixpoint cons_complex (fs : list nat) (next : Z) : list req :=
  match fs with
  | [] => []
  | f :: r =>
    let vff := variables_for_factor fb f 0 0 in
    let var_list := zrange next vff in
    map (fun c => (Card.EQ, 1%Z, c)) (chunk_list (length var_list) var_list (nlevels fb f))
    ++ cons_complex r (next + zn vff)%Z
  end.

Definition apply_consistency (fresh : Z) : cres contrib :=
  let '(r1, nx) := cons_trials T 1%Z in
  COk {| ct_fresh := fresh; ct_clauses := []; ct_requests := r1 ++ cons_complex (complex_act fb) nx |}.

(** * Cross *)
Definition lookup_level (di : list (nat * nat)) (f : nat) : option nat :=
  option_map snd (find (fun p => fst p =? f) di).

Definition level_is (di : list (nat * nat)) (p : nat * nat) : bool :=
  match lookup_level di (fst p) with Some l => l =? snd p | None => false end.

(** [is_excluded_combination] *)
Definition is_excluded_combination (di : list (nat * nat)) : bool :=
  existsb (level_is di) (fl_exclude fb) ||
  existsb (fun e => forallb (level_is di) e) (fl_excluded_derived fb).

(** the predicate of a WithinTrial level on level names = membership of the
    index tuple in the acceptance table of the flat record *)
Fixpoint entry_matches (entry : list (list (option nat))) (args : list nat) : bool :=
  match entry, args with
  | [], [] => true
  | [Some x] :: e', a :: r' => (x =? a) && entry_matches e' r'
  | _, _ => false
  end.

Definition level_accepts (fd : ffactor) (l : nat) (args : list nat) : bool :=
  match nth_error (ff_levels fd) l with
  | Some lv => existsb (fun e => entry_matches e args) (lv_accepts lv)
  | None => false
  end.

(** [is_excluded_or_inconsistent_combination]: a derived (non-complex) level of
    the combination is impossible if no choice of levels for the window factors
    outside the combination satisfies its predicate *)
Definition is_excluded_or_inconsistent (di : list (nat * nat)) : bool :=
  is_excluded_combination di ||
  existsb (fun p =>
    match factor_at fb (fst p) with
    | Some fd =>
      match ff_window fd with
      | Some w =>
        if ff_complex fd then false else
        negb (existsb (level_accepts fd (snd p))
                      (product (map (fun d => match lookup_level di d with
                                              | Some x => [x]
                                              | None => seq 0 (nlevels fb d)
                                              end) (win_deps w))))
      | None => false
      end
    | None => false
    end) di.

Definition level_weight (f l : nat) : nat :=
  match factor_at fb f with
  | Some fd => match nth_error (ff_levels fd) l with Some lv => lv_weight lv | None => 1 end
  | None => 1
  end.

(** [combination_weight] *)
Definition combination_weight (di : list (nat * nat)) : nat :=
  fold_left (fun n p => n * level_weight (fst p) (snd p)) di 1.

(** [encode_combination] *)
Definition encode_combination (di : list (nat * nat)) (t : nat) : cres (list nat) :=
  cmapM (fun p => of_opt CValueError (encode_variable fb (fst p) (snd p) t)) di.

(** [Cross.__add_weight_constraint] *)
Fixpoint add_weight_constraint (fuel : nat) (vars : list Z) (weight size cw : nat) : cres (list req) :=
  match fuel with
  | O => CErr CFuel
  | S fu =>
    match vars with
    | [] => COk []
    | _ =>
      let r := if size <=? length vars then (Card.EQ, zn (weight * cw), firstn size vars)
               else (Card.LT, zn (weight * cw + 1), vars) in
      rest <~ add_weight_constraint fu (skipn size vars) weight size cw ;;
      COk (r :: rest)
    end
  end.

Fixpoint list_nat_eqb (a b : list nat) : bool :=
  match a, b with
  | [], [] => true
  | x :: a', y :: b' => (x =? y) && list_nat_eqb a' b'
  | _, _ => false
  end.

(** [__get_crossing_ind] *)
Fixpoint crossing_ind (c : list nat) (cs : list (list nat)) : option nat :=
  match cs with
  | [] => None
  | c' :: r => if list_nat_eqb c' c then Some 0 else option_map S (crossing_ind c r)
  end.

(** [block.preamble_size(c)] for the [i]-th crossing *)
Definition preamble_size (i : nat) : nat :=
  match fl_alignment fb with
  | PostPreamble => post_preamble_size fb
  | _ => nth i (fl_preambles fb) 0
  end.

Definition crossing_weight (c : list nat) : nat :=
  match crossing_ind c (fl_crossings fb) with
  | Some j => nth j (fl_weights fb) 0
  | None => 0
  end.

(** the product of the level lists as (factor, level) dictionaries, and the
    combinations that survive [is_excluded_or_inconsistent_combination] *)
Definition crossing_combos (c : list nat) : list (list (nat * nat)) :=
  product (map (fun f => map (fun l => (f, l)) (seq 0 (nlevels fb f))) c).

Definition trial_combinations_of (c : list nat) : list (list (nat * nat)) :=
  filter (fun di => negb (is_excluded_or_inconsistent di)) (crossing_combos c).

Definition apply_one_crossing (i : nat) (c : list nat) (fresh : Z) : cres contrib :=
  let crossing_size := nth i (fl_sizes fb) 0 in
  let pre := preamble_size i in
  let cw := crossing_weight c in
  let crossing_trials := seq (1 + pre) (T - pre) in
  let trial_combinations := trial_combinations_of c in
  enc <~ cmapM (fun t => cmapM (fun di => encode_combination di t) trial_combinations) crossing_trials ;;
  match enc with
  | [] => CErr CIndexError
  | first :: _ =>
    let ncomb := length first in
    let ntr := length crossing_trials in
    let num_state_vars := ntr * ncomb in
    let state_vars := zrange fresh num_state_vars in
    let fresh1 := (fresh + zn num_state_vars)%Z in
    let flattened := concat enc in
    let iffs := map2 (fun sv vars => FIff (FVar sv) (FAnd (map fv vars))) state_vars flattened in
    let sustain_count := sustain_of fb (hd 0 c) in
    let weights := map (fun di => combination_weight di * sustain_count) trial_combinations in
    let transposed := map (fun j => map (fun t => (fresh + zn (t * ncomb + j))%Z) (seq 0 ntr)) (seq 0 ncomb) in
    reqss <~ cmapM (fun p => add_weight_constraint (S (length (fst p))) (fst p) (snd p) (crossing_size * cw) cw)
                  (combine transposed weights) ;;
    let '(cls, fresh2) := cnf_fn iffs fresh1 in
    COk {| ct_fresh := fresh2; ct_clauses := cls; ct_requests := concat reqss |}
  end.

Fixpoint apply_crossings (i : nat) (cs : list (list nat)) (fresh : Z) : cres contrib :=
  match cs with
  | [] => COk {| ct_fresh := fresh; ct_clauses := []; ct_requests := [] |}
  | c :: r =>
    c1 <~ apply_one_crossing i c fresh ;;
    c2 <~ apply_crossings (S i) r (ct_fresh c1) ;;
    COk {| ct_fresh := ct_fresh c2; ct_clauses := ct_clauses c1 ++ ct_clauses c2;
           ct_requests := ct_requests c1 ++ ct_requests c2 |}
  end.

Definition apply_cross (fresh : Z) : cres contrib := apply_crossings 0 (fl_crossings fb) fresh.

(** * Sustain *)
Definition sustain_iffs_of_list (sc : nat) (vars : list nat) : list fm :=
  map (fun i => FIff (fv (nth i vars 0)) (fv (nth ((i / sc) * sc) vars 0))) (seq 0 (length vars)).

Definition apply_sustain (fresh : Z) : cres contrib :=
  iffss <~ cmapM (fun f =>
      let sc := sustain_of fb f in
      per_level <~ cmapM (fun l =>
          varss <~ var_lists f l None ;;
          COk (flat_map (sustain_iffs_of_list sc) varss)) (seq 0 (nlevels fb f)) ;;
      COk (concat per_level)) (fl_act fb) ;;
  let '(cls, fresh') := cnf_fn (concat iffss) fresh in
  COk {| ct_fresh := fresh'; ct_clauses := cls; ct_requests := [] |}.

(** * Derivation *)
Definition is_before (x : didx) : bool := match x with DBefore _ => true | DIdx _ => false end.

Definition deriv_simple (didx0 : nat) (deps : list (list didx)) (fresh : Z) : cres contrib :=
  if (0 <? T) && existsb (existsb is_before) deps then CErr CTypeError
  else
    let iffs := map (fun n =>
        FIff (fv (didx0 + n * vpt + 1))
             (FOr (map (fun l => FAnd (map (fun x => match x with DIdx i => fv (i + n * vpt + 1) | DBefore _ => fv 0 end) l))
                       deps))) (seq 0 T) in
    let '(cls, fresh') := cnf_fn iffs fresh in
    COk {| ct_fresh := fresh'; ct_clauses := cls; ct_requests := [] |}.

(** [get_trial_size] of [__apply_derivation_with_complex_window] *)
Definition get_trial_size (x : nat) : cres nat :=
  if x <? grid_variables fb then COk vpt
  else match decode_variable fb (x + 1) with
       | Some (g, _) => COk (nlevels fb g)
       | None => CErr CRuntimeError
       end.

(** one dependent index list at trial [n]: [Some vars] if every [BeforeStart]
    applies and every index is in range *)
Fixpoint deriv_vars (l : list didx) (n : nat) (shift : Z) (stride : nat) : cres (option (list Z)) :=
  match l with
  | [] => COk (Some [])
  | DBefore ready_at :: r =>
    if ready_at <=? n then COk None else deriv_vars r n shift stride
  | DIdx x :: r =>
    ts <~ get_trial_size x ;;
    let new_x := (zn x + (shift * zn stride * zn ts + 1))%Z in
    if (new_x <=? 0)%Z then COk None
    else rest <~ deriv_vars r n shift stride ;;
         COk (option_map (cons new_x) rest)
  end.

Fixpoint deriv_complex_loop (ns : list nat) (t : nat) (didx0 : nat) (deps : list (list didx)) (f : nat)
         (sc : nat) (w : fwindow) : cres (list fm) :=
  match ns with
  | [] => COk []
  | n :: r =>
    if negb (n mod sc =? 0) then deriv_complex_loop r t didx0 deps f sc w
    else if negb (applies_to_trial fb f (n / sc + 1)) then deriv_complex_loop r t didx0 deps f sc w
    else
      let delta := (win_start_delta w * zn sc)%Z in
      (* /repo 07bcac2: the offset is t * stride + delta (delta is not scaled by the stride) *)
      ands <~ cmapM (fun l => deriv_vars l n (zn t * zn (win_stride w) + delta)%Z 1) deps ;;
      let or_clause := FOr (flat_map (fun o => match o with Some vs => [FAnd (map FVar vs)] | None => [] end) ands) in
      rest <~ deriv_complex_loop r (t + sc) didx0 deps f sc w ;;
      COk (FIff (fv (didx0 + t * nlevels fb f + 1)) or_clause :: rest)
  end.

Definition deriv_complex (didx0 : nat) (deps : list (list didx)) (f : nat) (fresh : Z) : cres contrib :=
  match factor_at fb f with
  | Some fd =>
    match ff_window fd with
    | Some w =>
      let sc := sustain_of fb f in
      if sc =? 0 then CErr CValueError else
      iffs <~ deriv_complex_loop (seq 0 T) 0 didx0 deps f sc w ;;
      let '(cls, fresh') := cnf_fn iffs fresh in
      COk {| ct_fresh := fresh'; ct_clauses := cls; ct_requests := [] |}
    | None => CErr CUnsupported
    end
  | None => CErr CUnsupported
  end.

Definition apply_derivation (didx0 : nat) (deps : list (list didx)) (f : nat) (fresh : Z) : cres contrib :=
  if didx0 <? grid_variables fb then deriv_simple didx0 deps fresh
  else deriv_complex didx0 deps f fresh.

(** * The k-in-a-row family *)
Definition sublistss (f l : nat) (wb : option geometry) (len : nat) : cres (list (list (list nat))) :=
  vls <~ var_lists f l wb ;; COk (map (windows len) vls).

Definition apply_atmost (k f l : nat) (wb : option geometry) (fresh : Z) : cres contrib :=
  sss <~ sublistss f l wb (k + 1) ;;
  COk {| ct_fresh := fresh; ct_clauses := [];
         ct_requests := flat_map (map (fun sl => (Card.LT, zn (k + 1), zs sl))) sss |}.

Fixpoint not_pairs (l : list nat) : list fm :=
  match l with
  | a :: (b :: _) as r => FIf (FNot (fv a)) (FNot (fv b)) :: not_pairs r
  | _ => []
  end.

(** the implications [AtLeastKInARow] adds for one window (its variable list
    and its k+1-sublists) *)
Definition atleast_impls (k : nat) (var_list : list nat) (sublists : list (list nat)) : list fm :=
  match sublists with
  | [] =>
    if length var_list =? k then map (fun v => FIff (fv (hd 0 var_list)) (fv v)) (tl var_list)
    else map (fun v => FNot (fv v)) var_list
  | first :: _ =>
    let lst := last sublists [] in
    FIf (fv (nth 0 first 0)) (FAnd (map fv (removelast (tl first))))
    :: map (fun s => FIf (FAnd [FNot (fv (nth 0 s 0)); fv (nth 1 s 0)]) (FAnd (map fv (skipn 2 s)))) sublists
    ++ [FIf (FNot (fv (nth 1 lst 0))) (FNot (FOr (map fv (skipn 2 lst))))]
    ++ (if 1 <? length sublists then not_pairs (skipn 2 lst) else [])
  end.

Definition apply_atleast (k f l : nat) (wb : option geometry) (fresh : Z) : cres contrib :=
  vls <~ var_lists f l wb ;;
  let impls := flat_map (fun vl => atleast_impls k vl (windows (k + 1) vl)) vls in
  let '(cls, fresh') := cnf_fn impls fresh in
  COk {| ct_fresh := fresh'; ct_clauses := cls; ct_requests := [] |}.

Definition apply_exactlyk (k f l : nat) (wb : option geometry) (fresh : Z) : cres contrib :=
  vls <~ var_lists f l wb ;;
  (* /repo 4d027cb: per variable list; an empty one (the factor has no level in any trial of the window) gives
     no request: And([1, -1]) when k <> 0, nothing when k = 0 *)
  COk {| ct_fresh := fresh;
         ct_clauses := flat_map (fun vl => match vl with
                                           | [] => if k =? 0 then [] else [[1%Z]; [(-1)%Z]]
                                           | _ :: _ => []
                                           end) vls;
         ct_requests := flat_map (fun vl => match vl with
                                            | [] => []
                                            | _ :: _ => [(Card.EQ, zn k, zs vl)]
                                            end) vls |}.

Fixpoint tail_impls (l : list nat) : list fm :=
  match l with
  | a :: (b :: _) as r => FIf (fv a) (fv b) :: tail_impls r
  | _ => []
  end.

(** the implications [ExactlyKInARow] adds for one window list (non-empty) *)
Definition ekr_impls (k : nat) (sublists : list (list nat)) : list fm :=
  let n := length sublists in
  let trim := if 1 <? k then n else n - 1 in
  map (fun idx =>
         let l := nth idx sublists [] in
         let p := if idx =? 0 then fv (nth 0 l 0)
                  else FAnd [FNot (fv (nth 0 (nth (idx - 1) sublists []) 0)); fv (nth 0 l 0)] in
         let q := if idx <? n - 1 then
                    let ql := map fv (tl l) ++ [FNot (fv (last (nth (idx + 1) sublists []) 0))] in
                    match ql with [x] => x | _ => FAnd ql end
                  else match tl l with
                       | _ :: _ :: _ => FAnd (map fv (tl l))
                       | _ => fv (nth (k - 1) l 0)
                       end in
         FIf p q) (seq 0 trim)
  ++ (let last_run := last sublists [] in
      if 1 <? length last_run then tail_impls (rev last_run) else []).

(** the loop over windows: [implications] accumulates and [cnf_fn] is called
    inside the loop *)
Fixpoint ekr_loop (k : nat) (vls : list (list nat)) (impls : list fm) (fresh : Z) : list (list Z) * Z :=
  match vls with
  | [] => ([], fresh)
  | var_list :: r =>
    let sublists := windows k var_list in
    let impls' := impls ++ match sublists with
                           | [] => map (fun v => FNot (fv v)) var_list
                           | _ => ekr_impls k sublists
                           end in
    let '(cls, fresh1) := cnf_fn impls' fresh in
    let '(cls2, fresh2) := ekr_loop k r impls' fresh1 in
    (cls ++ cls2, fresh2)
  end.

Definition apply_exactlykinarow (k f l : nat) (wb : option geometry) (fresh : Z) : cres contrib :=
  vls <~ var_lists f l wb ;;
  let '(cls, fresh') := ekr_loop k vls [] fresh in
  COk {| ct_fresh := fresh'; ct_clauses := cls; ct_requests := [] |}.

(** [ExactlyKMultipleInARow.encode_segment] *)
Definition ekm_selectors (k max_len : nat) : list (nat * nat) :=   (* (start, run_len), in allocation order *)
  flat_map (fun m => let run_len := m * k in map (fun start => (start, run_len)) (seq 0 (max_len - run_len + 1)))
           (seq 1 (max_len / k)).

Definition covers (p : nat * nat) (i : nat) : bool := (fst p <=? i) && (i <? fst p + snd p).
Definition overlap (p q : nat * nat) : bool := (fst p <? fst q + snd q) && (fst q <? fst p + snd p).

Fixpoint overlap_pairs (sels : list (Z * (nat * nat))) : list fm :=
  match sels with
  | [] => []
  | (a, pa) :: r =>
    flat_map (fun b => if overlap pa (snd b) then [FOr [FNot (FVar a); FNot (FVar (fst b))]] else []) r
    ++ overlap_pairs r
  end.

Definition ekm_segment (k : nat) (all_vars seg : list nat) (fresh : Z) : cres (list (list Z) * Z) :=
  let max_len := length seg in
  if max_len =? 0 then COk ([], fresh) else
  let runs := ekm_selectors k max_len in
  let sels := combine (zrange fresh (length runs)) runs in
  let fresh1 := (fresh + zn (length runs))%Z in
  if negb (length runs =? 0) && (length all_vars <? max_len) then CErr CIndexError else
  let impls1 := flat_map (fun s =>
      let '(sel, (start, run_len)) := s in
      FIf (FVar sel) (FAnd (map (fun i => fv (nth i all_vars 0)) (seq start run_len)))
      :: (if start + run_len <? max_len then [FIf (FVar sel) (FNot (fv (nth (start + run_len) all_vars 0)))] else [])) sels in
  let impls2 := flat_map (fun i =>
      let covering := map (fun s => FVar (fst s)) (filter (fun s => covers (snd s) i) sels) in
      match covering with [] => [] | _ => [FIf (fv (nth i seg 0)) (FOr covering)] end) (seq 0 max_len) in
  let impls := impls1 ++ impls2 ++ overlap_pairs sels in
  match impls with
  | [] => COk ([], fresh1)
  | _ => COk (cnf_fn impls fresh1)
  end.

Fixpoint ekm_loop (k : nat) (all_vars : list nat) (segs : list (list nat)) (fresh : Z) : cres (list (list Z) * Z) :=
  match segs with
  | [] => COk ([], fresh)
  | seg :: r =>
    a <~ ekm_segment k all_vars seg fresh ;;
    b <~ ekm_loop k all_vars r (snd a) ;;
    COk (fst a ++ fst b, snd b)
  end.

Definition apply_exactlykmultiple (k f l : nat) (wb : option geometry) (fresh : Z) : cres contrib :=
  vls <~ var_lists f l wb ;;
  match vls with
  | [] => CErr CIndexError
  | all_vars :: _ =>
    if k =? 0 then CErr CValueError else
    r <~ ekm_loop k all_vars vls fresh ;;
    COk {| ct_fresh := snd r; ct_clauses := fst r; ct_requests := [] |}
  end.

(** * Exclude, Pin *)
Definition apply_exclude (f l : nat) (fresh : Z) : cres contrib :=
  vls <~ var_lists f l None ;;
  COk {| ct_fresh := fresh; ct_clauses := flat_map (map (fun v => [(- zn v)%Z])) vls; ct_requests := [] |}.

Definition apply_pin (index : Z) (f l : nat) (wb : option geometry) (fresh : Z) : cres contrib :=
  match get_trial_numbers fb f index wb with
  | None => CErr CUnsupported
  | Some [] => COk {| ct_fresh := fresh; ct_clauses := [[1%Z]; [(-1)%Z]]; ct_requests := [] |}
  | Some trial_nos =>
    (* per trial: the factor has no level there -> And([1, -1]); otherwise And([var]) *)
    clss <~ cmapM (fun t => if negb (applies_at fb f (t + 1)) then COk [[1%Z]; [(-1)%Z]]
                            else v <~ get_variable (t + 1) f l ;; COk [[zn v]]) trial_nos ;;
    COk {| ct_fresh := fresh; ct_clauses := concat clss; ct_requests := [] |}
  end.

(** * factor_preamble_size *)
Fixpoint preambles_of (f : nat) (i : nat) (cs : list (list nat)) : list nat :=
  match cs with
  | [] => []
  | c :: r => (if existsb (Nat.eqb f) c then [preamble_size i] else []) ++ preambles_of f (S i) r
  end.

Definition factor_preamble_size (f : nat) : cres nat :=
  match preambles_of f 0 (fl_crossings fb) with
  | [] => COk 0
  | p :: rest => if forallb (Nat.eqb p) rest then COk p else CErr CValueError
  end.

(** * LatinSquare *)
Definition last_index_where (p : nat -> bool) (l : list nat) : nat :=
  fold_left (fun acc ix => if p (snd ix) then fst ix else acc) (combine (seq 0 (length l)) l) 0.

(** [_step_rotations] on (is_main, nlevels, rotation) triples listed last factor first *)
Fixpoint step_rev (items : list (bool * nat * nat)) : list (bool * nat * nat) :=
  match items with
  | [] => []
  | (m, nl, r) :: rest =>
    if m then (m, nl, r) :: step_rev rest
    else if S r <? nl then (m, nl, S r) :: rest
    else (m, nl, 0) :: step_rev rest
  end.

Definition step_rotations (main_idx : nat) (nls rots : list nat) : list nat :=
  let items := combine (combine (map (fun i => i =? main_idx) (seq 0 (length rots))) nls) rots in
  map snd (rev (step_rev (rev items))).

Fixpoint latin_loop (fuel : nat) (fs nls : list nat) (main_idx mainf diag sc : nat) (i : nat) (rots : list nat)
  : cres (list fm * list req) :=
  match fuel with
  | O => CErr CFuel
  | S fu =>
    if negb (i <? T) then COk ([], [])
    else
      let js := filter (fun j => i + j <? T) (seq 0 diag) in
      let nmain := nth main_idx nls 0 in
      ands <~ cmapM (fun j =>
          per_k <~ cmapM (fun k =>
              main_var <~ get_variable (i + j + 1) mainf ((k + nth main_idx rots 0) mod nmain) ;;
              per_f <~ cmapM (fun ixf =>
                  let '(idx, f) := ixf in
                  if idx =? main_idx then COk []
                  else var <~ get_variable (i + j + 1) f ((k + nth idx rots 0) mod nth idx nls 0) ;;
                       COk [FIf (fv main_var) (fv var)]) (combine (seq 0 (length fs)) fs) ;;
              COk (concat per_f)) (seq 0 diag) ;;
          COk (concat per_k)) js ;;
      reqs <~ cmapM (fun l =>
          vars <~ cmapM (fun j => get_variable (i + j + 1) mainf l) js ;;
          COk (Card.LT, 2%Z, zs vars)) (seq 0 nmain) ;;
      rest <~ latin_loop fu fs nls main_idx mainf diag sc (i + diag * sc) (step_rotations main_idx nls rots) ;;
      COk (concat ands ++ fst rest, reqs ++ snd rest)
  end.

Definition apply_latin (fs : list nat) (fresh : Z) : cres contrib :=
  match fs with
  | [] => CErr CIndexError
  | [_] => COk {| ct_fresh := fresh; ct_clauses := []; ct_requests := [] |}
  | f0 :: _ =>
    let nls := map (nlevels fb) fs in
    let diag := fold_left Nat.max nls 0 in
    let main_idx := last_index_where (fun n => n =? diag) nls in
    let mainf := nth main_idx fs 0 in
    let sc := sustain_of fb f0 in
    pre <~ factor_preamble_size f0 ;;
    r <~ latin_loop (S T) fs nls main_idx mainf diag sc pre (map (fun _ => 0) fs) ;;
    let '(cls, fresh') := cnf_fn (fst r) fresh in
    COk {| ct_fresh := fresh'; ct_clauses := cls; ct_requests := snd r |}
  end.

(** * Sequential *)
Fixpoint seq_loop (fuel : nat) (f nl sc pre : nat) (i : nat) : cres (list fm) :=
  match fuel with
  | O => CErr CFuel
  | S fu =>
    if negb (i <? T) then COk []
    else
      let use_l := ((i - pre) / sc) mod nl in
      here <~ cmapM (fun l => var <~ get_variable (i + 1) f l ;;
                              COk (if l =? use_l then fv var else FNot (fv var))) (seq 0 nl) ;;
      rest <~ seq_loop fu f nl sc pre (i + sc) ;;
      COk (here ++ rest)
  end.

Definition apply_sequential (f : nat) (fresh : Z) : cres contrib :=
  let sc := sustain_of fb f in
  pre <~ factor_preamble_size f ;;
  if (pre <? T) && ((sc =? 0) || (nlevels fb f =? 0)) then CErr CZeroDivisionError else
  ands <~ seq_loop (S T) f (nlevels fb f) sc pre pre ;;
  let '(cls, fresh') := cnf_fn ands fresh in
  COk {| ct_fresh := fresh'; ct_clauses := cls; ct_requests := [] |}.

(** * build_backend_request *)
Definition nothing (fresh : Z) : cres contrib :=
  COk {| ct_fresh := fresh; ct_clauses := []; ct_requests := [] |}.

Definition apply_constraint (c : fconstraint) (fresh : Z) : cres contrib :=
  match c with
  | FCross => apply_cross fresh
  | FConsistency => apply_consistency fresh
  | FSustain => apply_sustain fresh
  | FDerivation d deps f => apply_derivation d deps f fresh
  | FAtMost k f l wb => apply_atmost k f l wb fresh
  | FAtLeast k f l wb => apply_atleast k f l wb fresh
  | FExactlyK k f l wb => apply_exactlyk k f l wb fresh
  | FExactlyKInARow k f l wb => apply_exactlykinarow k f l wb fresh
  | FExactlyKMultiple k f l wb => apply_exactlykmultiple k f l wb fresh
  | FExclude f l => apply_exclude f l fresh
  | FPin i f l wb => apply_pin i f l wb fresh
  | FReify _ => nothing fresh
  | FMinimumTrials _ => nothing fresh
  | FContinuous => nothing fresh
  | FLatin fs => apply_latin fs fresh
  | FSequential f => apply_sequential f fresh
  | FOther _ => CErr CUnsupported
  end.

Fixpoint apply_all (cs : list fconstraint) (b : backend) : cres backend :=
  match cs with
  | [] => COk b
  | c :: r =>
    ct <~ apply_constraint c (b_fresh b) ;;
    apply_all r {| b_fresh := ct_fresh ct; b_clauses := b_clauses b ++ ct_clauses ct;
                   b_requests := b_requests b ++ ct_requests ct |}
  end.

Definition compile : cres backend :=
  apply_all (fl_constraints fb)
            {| b_fresh := (1 + zn (variables_per_sample fb))%Z; b_clauses := []; b_requests := [] |}.

End Compile.

(** [combine_cnf_with_requests(CNF(cnfs_as_json), fresh - 1, support, requests)]:
    what the formula-based samplers hand to the solver. *)
Definition full_cnf (b : backend) : bool * Z * list (list Z) :=
  Card.combine_requests (b_clauses b) (b_fresh b - 1)%Z (b_requests b).
